(* C09 — Files conform to the V2 format and interoperate with grenad 0.4.7 both ways.
   Statements only; the layout literals are those of the property text. *)
From Grenad.gen Require Import Consts.
From Grenad.model Require Import Base Varint Block Trailer Spec Format.
From Grenad.proofs Require Import BlockProofs FormatProofs TrailerProofs.

Theorem C09_constants : MAGIC_V2 = 1730401476 (* 0x6723D4C4 *) /\ METADATA_V2_SIZE + 4 = 22.
Proof. split; reflexivity. Qed.
Print Assumptions C09_constants.

(* block layout: payload = varint-framed entries in insertion order, then the table of entry
   offsets as u64 big-endian (first 0, one per index interval), then their count as u32 big-endian *)
Theorem C09_block_layout : forall w es buf,
  bw_ok w es -> bw_finish w = Done buf ->
  buf = payload_of es ++ flat_map (be_bytes 8) (rev (bw_offsets w)) ++ be_bytes 4 (len (rev (bw_offsets w))) /\
  offsets_ok (bw_interval w) (mk_block (payload_of es) (rev (bw_offsets w))) (with_starts es 0) = true.
Proof. exact finished_block_layout. Qed.
Print Assumptions C09_block_layout.

(* an independent decoder (parse_block + sequential entry_at) recovers exactly the entries *)
Theorem C09_block_decodes : forall w es buf,
  bw_ok w es -> bw_len w < 2^64 -> bw_finish w = Done buf ->
  exists b, parse_block buf = Done b /\ block_entries b = Done (with_starts es 0).
Proof. exact finished_block_decodes. Qed.
Print Assumptions C09_block_decodes.

(* the 22-byte little-endian trailer: root offset u64, codec id u8, entry count u64, index levels
   u8, magic 0x6723D4C4 *)
Theorem C09_trailer_layout : forall root codec count levels,
  trailer_bytes (mk_meta FormatV2 root codec count levels) =
  le_bytes 8 root ++ [codec mod 256] ++ le_bytes 8 count ++ [levels mod 256] ++ le_bytes 4 1730401476 /\
  length (trailer_bytes (mk_meta FormatV2 root codec count levels)) = 22%nat.
Proof. intros. split; reflexivity. Qed.
Print Assumptions C09_trailer_layout.

(* ================= the whole file (backbone W, structural part): for ANY insert sequence on which the
   writer model finishes, over a plain sink, with any codec whose decompress inverts its compress:
   the file is the frames of the emitted blocks one after the other (u64 BE compressed length +
   compressed block), each at the offset recorded for it, followed by the 22-byte trailer; every
   emitted block is the finish of a legal block writer (gl pairs it with its entries); and the index
   tree invariant TI holds with nothing pending: at every index level k <= index_levels the entries
   of the level-k blocks, in order, are exactly the (last key, u64 BE offset) items of the level-(k+1)
   blocks in order, and the data level (index_levels + 1) spells exactly the inserted entries; the
   root block is the last block and the trailer points to it; it is the only block of level 0, and
   only it can be empty. ================= *)
From Grenad.model Require Import Writer Reader.
From Grenad.proofs Require Import WriterInv WriterLayout WriterTree.

Theorem C09_file_structure : forall compress decompress c,
  (forall b z, compress (wc_codec c) (wc_level c) b = Done z -> decompress (wc_codec c) z = Done b) ->
  forall es i s lg m, wc_levels c < 256 ->
  w_run_gen vsink vs_wr vs_fl vs_count compress c vs_empty es = (i, Done (s, lg, m)) ->
  exists gl body,
    laid_out compress c (rev lg) body /\ map fst gl = rev lg /\ Forall (ents c) gl /\
    TI (wc_levels c) gl (fun _ => []) es /\
    vs_bytes s = body ++ trailer_bytes m /\ vs_count s = len (vs_bytes s) /\
    m_version m = FormatV2 /\ m_codec m = wc_codec c /\ m_count m = len es /\ m_levels m = u8 (wc_levels c) /\
    exists gl0 e0 es0, gl = gl0 ++ [(e0, es0)] /\ em_level e0 = 0 /\ em_offset e0 = m_root m /\ Forall nz gl0.
Proof. exact w_run_tree. Qed.
Print Assumptions C09_file_structure.

(* and every block laid out in the file is loaded back, from its recorded offset, as exactly the
   parse of the emitted block (length prefix, decompression, footer parse) *)
Theorem C09_blocks_load_back : forall compress decompress c,
  (forall b z, compress (wc_codec c) (wc_level c) b = Done z -> decompress (wc_codec c) z = Done b) ->
  forall l f, laid_out compress c l f -> len f < 2^64 ->
  forall e tail ord, In e l ->
  load_block decompress (f ++ tail) (wc_codec c) ord (em_offset e) = parse_block (em_bytes e).
Proof. exact laid_out_load. Qed.
Print Assumptions C09_blocks_load_back.

(* ================= the written file is a well-formed store =================
   Final assembly of backbone W: under the same hypotheses, for a non-empty strictly ascending
   input, the file IS a well-formed store in the sense of the reader refinement (every recorded
   offset loads to a well-formed block: strictly ascending framed entries, restart table with first
   offset 0 and one per index interval; every index item is the (last key, u64 BE offset) of the
   child block it points to; all level sequences strictly ascending; different levels at different
   offsets), its content — the data level read left to right — is exactly the inserted entries, and
   the trailer carries version 2, the codec, the entry count and the index levels. *)
From Grenad.proofs Require Import ReaderRefine WriterStore.

Theorem C09_written_file_well_formed : forall compress decompress c,
  (forall b z, compress (wc_codec c) (wc_level c) b = Done z -> decompress (wc_codec c) z = Done b) ->
  forall es i s lg m, wc_levels c < 256 -> 1 <= wc_interval c ->
  w_run_gen vsink vs_wr vs_fl vs_count compress c vs_empty es = (i, Done (s, lg, m)) ->
  es <> [] -> sorted_strictb (map fst es) = true ->
  len (vs_bytes s) < 2^64 -> mem_ok lg ->
  exists bstore,
    wf_store (load_block decompress (vs_bytes s) (wc_codec c)) (m_root m) (wc_levels c) bstore /\
    content (m_root m) (wc_levels c) bstore = es /\
    m_version m = FormatV2 /\ m_codec m = wc_codec c /\ m_count m = len es /\ m_levels m = wc_levels c /\
    exists body, vs_bytes s = body ++ trailer_bytes m.
Proof. exact written_file_wf. Qed.
Print Assumptions C09_written_file_well_formed.

(* ================= the independent decoder =================
   Format.decode_file shares nothing with the writer or the cursor: it opens the trailer, walks the
   index tree from the root by the offsets stored in index entries and decodes every block by its
   varint framing.  On every well-formed store it returns exactly the content; on every file of the
   writer model exactly the trailer and the inserted entries. *)
From Grenad.model Require Import Format.
From Grenad.proofs Require Import DecoderProofs.

Theorem C09_decoder_on_store : forall decompress file codec root levels bs,
  wf_store (load_block decompress file codec) root levels bs ->
  exists nodes, walk decompress file codec (S (N.to_nat levels)) 0 root = Done (content root levels bs, nodes).
Proof. exact walk_content. Qed.
Print Assumptions C09_decoder_on_store.

Theorem C09_independent_decoder : forall compress decompress c,
  (forall b z, compress (wc_codec c) (wc_level c) b = Done z -> decompress (wc_codec c) z = Done b) ->
  forall es i s lg m, wc_levels c < 256 -> 1 <= wc_interval c -> wc_codec c <= 5 ->
  w_run_gen vsink vs_wr vs_fl vs_count compress c vs_empty es = (i, Done (s, lg, m)) ->
  es <> [] -> sorted_strictb (map fst es) = true ->
  len (vs_bytes s) < 2^64 -> mem_ok lg -> len es < 2^64 ->
  exists nodes, decode_file decompress (vs_bytes s) = Done (m, es, nodes).
Proof. exact decode_written. Qed.
Print Assumptions C09_independent_decoder.

(* ================= a certified validator =================
   StoreCheck.store_wf is the executable check the correspondence driver evaluates on the nodes the
   independent decoder loads from EVERY file the implementation writes (and on the version-1 files of
   the C10 scenario).  It is sound: when the decode succeeds and the check returns true, the file is a
   well-formed store whose content is the decoded entries — so C02/C03/C04/C05/C16 apply to those very
   bytes, whoever wrote them. *)
From Grenad.model Require Import StoreCheck.
From Grenad.proofs Require Import StoreCheckProofs.

Theorem C09_store_check_sound : forall decompress file m es nodes,
  decode_file decompress file = Done (m, es, nodes) ->
  store_wf nodes (m_root m) (m_levels m) = true ->
  wf_store (load_block decompress file (m_codec m)) (m_root m) (m_levels m) (bs_of nodes) /\
  content (m_root m) (m_levels m) (bs_of nodes) = es.
Proof. exact decoded_store_certified. Qed.
Print Assumptions C09_store_check_sound.
