(* C16 — I/O per cursor operation is bounded by index depth, not by file size.  Statements only.
   Opening consults only the last 22 bytes; reset and current touch no block; every specified operation
   from every state of every well-formed store loads at most 2*(levels+2) blocks (C16_loads, from the
   refinement R), hence also on every written file (C16_written_file_loads).  The correspondence
   counts the implementation's absolute seeks per operation and its reads during open. *)
From Grenad.model Require Import Base Block Trailer Reader.
From Grenad.proofs Require Import SpecProofs.

(* whatever precedes the last 22 bytes — i.e. however large the file is — open returns the same *)
Theorem C16_open_reads_only_the_trailer : forall pre f, 22 <= len f -> open_meta (pre ++ f) = open_meta f.
Proof. exact open_meta_suffix. Qed.
Print Assumptions C16_open_reads_only_the_trailer.

(* the operations that touch no block *)
Theorem C16_reset_current_no_load : forall ld root levels st st' r,
  (cstep ld root levels st OReset = Done (st', r) -> cs_loads st' = cs_loads st) /\
  (cstep ld root levels st OCurrent = Done (st', r) -> cs_loads st' = cs_loads st).
Proof.
  intros. split; intro H; cbn [cstep] in H.
  - injection H as <- _. reflexivity.
  - destruct (c_current st); cbn [bind] in H; try discriminate. injection H as <- _. reflexivity.
Qed.
Print Assumptions C16_reset_current_no_load.

(* ================= at most 2 * (index_levels + 2) block loads per operation, whatever the number of
   entries: for every specified operation from every related state of a well-formed store of any
   depth (wf_store, Rel: see C03.v).  cs_loads counts every block load (seek + Block::new). ============ *)
From Grenad.model Require Import Spec.
From Grenad.proofs Require Import ReaderRefine.

Theorem C16_loads : forall ld root levels bstore, wf_store ld root levels bstore ->
  forall p st o, Rel root bstore levels p st -> admissible p o ->
  exists st' r, cstep ld root levels st o = Done (st', r) /\
    cs_loads st' <= cs_loads st + 2 * (levels + 2).
Proof.
  intros ld root levels bstore W p st o HR Ha.
  destruct (R_step ld root levels bstore W p st o HR Ha) as (st' & r & E & _ & _ & Hl). eauto.
Qed.
Print Assumptions C16_loads.

(* ================= on files produced by the writer =================
   the number of block loads of ANY admissible history of n operations on a fresh cursor over a
   written file is at most n * 2 * (index_levels + 2), independent of the number of entries *)
From Grenad.model Require Import Trailer Writer Reader Spec.
From Grenad.proofs Require Import ReaderRefine WriterStore.

Theorem C16_written_file_loads : forall compress decompress c,
  (forall b z, compress (wc_codec c) (wc_level c) b = Done z -> decompress (wc_codec c) z = Done b) ->
  forall es i s lg m, wc_levels c < 256 -> 1 <= wc_interval c ->
  w_run_gen vsink vs_wr vs_fl vs_count compress c vs_empty es = (i, Done (s, lg, m)) ->
  es <> [] -> sorted_strictb (map fst es) = true ->
  len (vs_bytes s) < 2^64 -> mem_ok lg ->
  forall ops, adm_ops es Fresh ops ->
  exists st rs, run_ops (load_block decompress (vs_bytes s) (m_codec m)) (m_root m) (m_levels m) cs_fresh ops = Done (st, rs) /\
    Forall2 res_ok (snd (aspec_ops es Fresh ops)) rs /\
    cs_loads st <= N.of_nat (length ops) * (2 * (m_levels m + 2)).
Proof. exact written_file_history. Qed.
Print Assumptions C16_written_file_loads.

(* ---- byte level: what a load and a version-1 open consult ---- *)
From Grenad.gen Require Import Consts.
From Grenad.model Require Import Block Trailer.
From Grenad.proofs Require Import Locality.

(* a block load at an offset depends only on the frame that starts there — its 8-byte length h and the
   body b of that length: the files may differ arbitrarily before and after it, and the result is the parse
   of the decompressed body.  (The instrumented source of the correspondence checks the same of the
   implementation: no byte beyond the frame sought is read.) *)
Theorem C16_load_reads_only_its_frame : forall dec codec ord pre pre' h b post post',
  len pre = len pre' -> len h = 8 -> len b = be_decode h ->
  load_block dec (pre ++ h ++ b ++ post) codec ord (len pre) = load_block dec (pre' ++ h ++ b ++ post') codec ord (len pre).
Proof. exact load_block_frame. Qed.
Print Assumptions C16_load_reads_only_its_frame.

Theorem C16_load_value : forall dec codec ord pre h b post,
  len h = 8 -> len b = be_decode h ->
  load_block dec (pre ++ h ++ b ++ post) codec ord (len pre) = bind (dec codec b) parse_block.
Proof. exact load_block_frame_value. Qed.
Print Assumptions C16_load_value.

(* a file ending in the version-1 magic: open depends only on its last 21 bytes — its own trailer *)
Theorem C16_open_v1_reads_only_the_trailer : forall pre f, 21 <= len f ->
  le_decode (firstnN 4 (skipnN (len f - 4) f)) = MAGIC_V1 ->
  open_meta (pre ++ f) = open_meta f.
Proof. exact open_meta_v1_suffix. Qed.
Print Assumptions C16_open_v1_reads_only_the_trailer.

Example C16_v1_example :
  let f := le_bytes 8 300 ++ [4] ++ le_bytes 8 77 ++ le_bytes 4 MAGIC_V1 in
  len f = 21 /\ le_decode (firstnN 4 (skipnN (len f - 4) f)) = MAGIC_V1 /\
  open_meta ([1; 2; 3] ++ f) = Done (mk_meta FormatV1 300 4 77 0).
Proof. vm_compute. repeat split. Qed.
