"""Per-property configuration of ./check: the props file holding the theorems, the harness
scenarios of the correspondence, what is trusted, what is not proved."""

ALLOWED_AXIOMS = {
    # standard-library axioms that may appear (named in the evidence when they do)
    "functional_extensionality_dep", "proof_irrelevance", "classic", "JMeq_eq", "Eq_rect_eq", "eq_rect_eq",
}

TRUSTED_BASE = [
    "Coq 8.16.1 kernel (coqc full .vo builds; vm_compute for Examples; no native_compute; coqchk in the thorough tier)",
    "hand-written Gallina model of grenad (coq/model/*.v): the theorems are about the model, tied to /repo by (a) constants re-extracted from /repo/src into coq/gen/Consts.v on every run (tools/extract_consts.py, regular expressions) and (b) differential execution of the extracted model against the implementation on the cases of this run",
    "extraction: Extraction Language OCaml with ExtrOcamlBasic only (Extract Inductive bool/option/unit/list/prod/sumbool/sumor, Extract Inlined Constant for their projections and connectives as that file declares); no Extract Constant/Inductive of our own; N/positive/nat/comparison stay inductive",
    "OCaml driver ocaml/driver.ml (hex parsing, int<->N conversion, comparison and printing) and the Rust harness /verif/harness (generators, instrumented sinks/sources, catch_unwind)",
]

PROPS = {
    "C14": {
        "prop_file": "props/C14.v",
        "scenarios": [{"name": "C14"}],
        "thorough_scenarios": [{"name": "C14-sweep", "no_driver": True, "timeout": 1200}],
        "rule": "values: every 2^k +-64 neighbourhood of the framing boundaries (k=7,14,21,28,32), +-2 around every other power of two, plus values stratified uniformly over bit lengths, each with random trailing bytes; non-trivial = distinct value >= 128 (multi-byte encoding); thorough adds the implementation-side sweep of all 2^32 values against the statement",
        "trusted": ["varint functions reached through the cfg(grenad_verif) re-export grenad::verif::{varint_encode32, varint_decode32}"],
        "assumptions": ["u32 arithmetic is modelled as N with explicit mod 2^32 / mod 256 truncations"],
        "not_proved": [],
    },
}

NOT_APPLICABLE = {}

MANIFEST_TEXT = {
    "C14": {
        "text": "Theorems C14_varint / C14_varint_no_panic / C14_lengths prove, for all 2^32 lengths and arbitrary trailing bytes, that the transcribed varint_encode32/varint_decode32 round-trip in 1..5 bytes consuming exactly those bytes (base-128 digit arithmetic, no enumeration). The transcription is tied to src/varint.rs by running both on boundary neighbourhoods and stratified random values every run (thorough: all 2^32 values through the implementation against the statement).",
        "design_ref": "DESIGN.md §5 C14",
        "note": "Trusted: Coq kernel; the hand transcription of varint.rs (validated by the correspondence); extraction + OCaml driver; the harness. Axioms: none (Closed under the global context).",
        "technique": "Rocq proof (induction-free arithmetic on base-128 digits) + model/implementation differential execution",
    },
}
