(* Transcription of src/varint.rs with the u8 / u32 truncations written out. *)
From Grenad.model Require Import Base.

Definition varint_encode32 (value : N) : bytes :=
  if value <? 2^7 then [u8 value]
  else if value <? 2^14 then [u8 (N.lor value 128); u8 (N.shiftr value 7)]
  else if value <? 2^21 then
    [u8 (N.lor value 128); u8 (N.lor (N.shiftr value 7) 128); u8 (N.shiftr value 14)]
  else if value <? 2^28 then
    [u8 (N.lor value 128); u8 (N.lor (N.shiftr value 7) 128);
     u8 (N.lor (N.shiftr value 14) 128); u8 (N.shiftr value 21)]
  else
    [u8 (N.lor value 128); u8 (N.lor (N.shiftr value 7) 128);
     u8 (N.lor (N.shiftr value 14) 128); u8 (N.lor (N.shiftr value 21) 128);
     u8 (N.shiftr value 28)].

Fixpoint length_packed_aux (data : bytes) (i : N) : option N :=
  match data with
  | [] => None
  | b :: r => if N.land b 128 =? 0 then Some (i + 1) else length_packed_aux r (i + 1)
  end.
(* 0 when no byte without the continuation bit is found *)
Definition varint_length_packed (data : bytes) : N :=
  match length_packed_aux data 0 with Some n => n | None => 0 end.

Definition byte_at (data : bytes) (i : nat) : N := nth i data 0.

(* the arithmetic of varint_decode32, total: returns (value, consumed length) *)
Definition varint_decode32_raw (data : bytes) : N * N :=
  let len := varint_length_packed (firstn 5 data) in
  let val := N.land (byte_at data 0) 127 in
  let val := if 1 <? len then N.lor val (u32 (N.shiftl (N.land (byte_at data 1) 127) 7)) else val in
  let val := if 2 <? len then N.lor val (u32 (N.shiftl (N.land (byte_at data 2) 127) 14)) else val in
  let val := if 3 <? len then N.lor val (u32 (N.shiftl (N.land (byte_at data 3) 127) 21)) else val in
  let val := if 4 <? len then N.lor val (u32 (N.shiftl (byte_at data 4) 28)) else val in
  (val, len).

(* varint_decode32 indexes data[0] unconditionally: an empty slice panics; data[i] for
   1 <= i < len is in range because len <= min(5, data.len()). *)
Definition varint_decode32 (data : bytes) : outcome (N * N) :=
  match data with
  | [] => Panic
  | _ :: _ => Done (varint_decode32_raw data)
  end.
