(* C01, the empty file: the writer model finished without any insert produces a file that opens with
   count 0 and on which every cursor operation returns None and every iterator yields nothing. *)
From Coq Require Import Lia ZArith ZifyN ZifyBool ZifyNat.
From Grenad.gen Require Import Consts.
From Grenad.model Require Import Base Varint Block Trailer Writer Reader Spec Iter.
From Grenad.proofs Require Import BaseProofs BlockProofs TrailerProofs BlockCursorProofs WriterInv WriterLayout WriterTree ReaderRefine.
Ltac Zify.zify_post_hook ::= Z.div_mod_to_equations.

(* ---- a cursor over a store whose root block has no entries ---- *)
Section EmptyStore.
  Variable ld : N -> N -> outcome block.
  Variables root levels : N.
  Variable b : block.
  Variable ridx : list nat.
  Hypothesis Hroot : forall ord, ld ord root = Done b.
  Hypothesis W : wfblock b [] ridx.

  Lemma abs_none m : absmove m -> exists c', bc_move m (bc_new b) = Done (c', None).
  Proof.
    intros [| |q]; cbn [bc_move]; unfold bc_new.
    - rewrite (bc_first_spec b [] ridx W None). eexists. reflexivity.
    - destruct (bc_last_empty b [] ridx W None eq_refl) as (c' & E & _). exists c'. exact E.
    - rewrite (bc_ge_spec b [] ridx W None q). destruct (ceil_pos [] q); eexists; reflexivity.
  Qed.

  Lemma init_none m n : absmove m -> initial_blocks ld m (depth levels) n root = Done (None, n + 1).
  Proof.
    intro Hm. unfold depth. cbn [initial_blocks]. rewrite Hroot. cbn [bind].
    destruct (abs_none m Hm) as (c' & E). rewrite E. cbn [bind]. reflexivity.
  Qed.

  Definition Empty (st : cstate) : Prop := cs_inner st = None /\ cs_data st = None.

  Lemma first_last_empty m st : absmove m -> Empty st ->
    exists st', c_first_last ld root levels m st = Done (st', None) /\ Empty st'.
  Proof.
    intros Hm [Ei Ed]. unfold c_first_last, idx_iter. rewrite Ei, (init_none m _ Hm). cbn [bind].
    eexists. split; [reflexivity|]. split; reflexivity.
  Qed.

  Lemma ge_empty q st : Empty st -> exists st', c_ge ld root levels q st = Done (st', None) /\ Empty st'.
  Proof.
    intros [Ei Ed]. unfold c_ge, idx_iter. rewrite Ei, (init_none (MGe q) _ (abs_ge q)). cbn [bind].
    eexists. split; [reflexivity|]. split; [reflexivity|exact Ed].
  Qed.

  Theorem step_empty st o : Empty st -> exists st', cstep ld root levels st o = Done (st', None) /\ Empty st'.
  Proof.
    intro HE. destruct o; cbn [cstep].
    - apply first_last_empty; [constructor|exact HE].
    - apply first_last_empty; [constructor|exact HE].
    - unfold c_next_prev. destruct HE as [Ei Ed]. rewrite Ed. apply first_last_empty; [constructor|split; assumption].
    - unfold c_next_prev. destruct HE as [Ei Ed]. rewrite Ed. apply first_last_empty; [constructor|split; assumption].
    - apply ge_empty. exact HE.
    - unfold c_le. destruct (ge_empty q st HE) as (st1 & E1 & HE1). rewrite E1. cbn [bind].
      destruct (first_last_empty MLast st1 abs_last HE1) as (st2 & E2 & HE2). rewrite E2. cbn [bind]. eexists. split; [reflexivity|exact HE2].
    - unfold c_eq. destruct (ge_empty q st HE) as (st1 & E1 & HE1). rewrite E1. cbn [bind]. eexists. split; [reflexivity|exact HE1].
    - eexists. split; [reflexivity|]. split; reflexivity.
    - unfold c_current. destruct HE as [Ei Ed]. rewrite Ed. cbn [bind]. eexists. split; [reflexivity|split; assumption].
  Qed.

  Theorem history_empty : forall ops st, Empty st ->
    exists st', run_ops ld root levels st ops = Done (st', repeat None (length ops)) /\ Empty st'.
  Proof.
    induction ops as [|o ops IH]; intros st HE; cbn [run_ops length repeat].
    - exists st. auto.
    - destruct (step_empty st o HE) as (st1 & E1 & HE1). rewrite E1. cbn [bind fst snd].
      destruct (IH st1 HE1) as (st' & E & HE'). rewrite E. cbn [bind fst snd]. exists st'. auto.
  Qed.

  Lemma fresh_empty : Empty cs_fresh. Proof. split; reflexivity. Qed.

  (* the four iterators yield nothing *)
  Theorem iterators_empty lo hi p fuel : (0 < fuel)%nat ->
    collect (range_next (cstep ld root levels) lo hi) fuel iter_new = Done [] /\
    collect (rev_range_next (cstep ld root levels) lo hi) fuel iter_new = Done [] /\
    collect (prefix_next (cstep ld root levels) p) fuel iter_new = Done [] /\
    collect (rev_prefix_next (cstep ld root levels) p) fuel iter_new = Done [].
  Proof.
    intro Hf. destruct fuel as [|f]; [lia|]. cbn [collect]. unfold iter_new.
    assert (S1 : forall o, exists st', cstep ld root levels cs_fresh o = Done (st', None)).
    { intro o. destruct (step_empty cs_fresh o fresh_empty) as (st' & E & _). exists st'. exact E. }
    repeat split.
    - unfold range_next. cbn [it_start it_st]. destruct lo as [|a|a].
      + destruct (S1 OFirst) as (st' & E). rewrite E. reflexivity.
      + destruct (S1 (OGe a)) as (st' & E). rewrite E. reflexivity.
      + destruct (S1 (OGe a)) as (st' & E). rewrite E. reflexivity.
    - unfold rev_range_next. cbn [it_start it_st]. destruct hi as [|a|a].
      + destruct (S1 OLast) as (st' & E). rewrite E. reflexivity.
      + destruct (S1 (OLe a)) as (st' & E). rewrite E. reflexivity.
      + destruct (S1 (OLe a)) as (st' & E). rewrite E. reflexivity.
    - unfold prefix_next. cbn [it_start it_st]. destruct (S1 (OGe p)) as (st' & E). rewrite E. reflexivity.
    - unfold rev_prefix_next, move_on_last_prefix. cbn [it_start it_st]. destruct (advance_key p) as [np|].
      + destruct (step_empty cs_fresh (OLe np) fresh_empty) as (st1 & E1 & HE1). rewrite E1. cbn [bind].
        destruct (step_empty st1 OCurrent HE1) as (st2 & E2 & _). rewrite E2. reflexivity.
      + destruct (S1 OLast) as (st' & E). rewrite E. reflexivity.
  Qed.
End EmptyStore.

(* ---- the file the writer produces without any insert ---- *)
Arguments w_data {SK} _. Arguments w_idx {SK} _. Arguments w_count {SK} _.
Arguments w_sink {SK} _. Arguments w_log {SK} _.

Section EmptyRun.
  Variable compress : N -> N -> bytes -> outcome bytes.
  Variable decompress : N -> bytes -> outcome bytes.
  Variable c : wcfg.
  Hypothesis codec_ok : forall b z, compress (wc_codec c) (wc_level c) b = Done z -> decompress (wc_codec c) z = Done b.
  Notation L := (wc_levels c).

  Lemma empty_levels gl : TI L gl (fun _ => []) [] -> (forall p, In p gl -> 1 <= em_level (fst p) -> snd p <> []) ->
    forall d k, k + N.of_nat d = L + 1 -> 1 <= k -> gblocks k gl = [].
  Proof.
    intros [H1 H2] Hne.
    assert (Hnil : forall k, 1 <= k -> flat_map snd (gblocks k gl) = [] -> gblocks k gl = []).
    { intros k Hk E. destruct (gblocks k gl) as [|p r] eqn:Eg; [reflexivity|]. exfalso.
      assert (Hin : In p (gblocks k gl)) by (rewrite Eg; left; reflexivity).
      unfold gblocks in Hin. apply filter_In in Hin. destruct Hin as [Hin Hl]. apply N.eqb_eq in Hl.
      cbn [flat_map] in E. apply app_eq_nil in E. destruct E as [E _]. apply (Hne p Hin); [lia|exact E]. }
    induction d as [|d IH]; intros k Hk Hk1.
    - assert (Ek : k = L + 1) by lia. rewrite Ek. apply Hnil; [lia|]. rewrite app_nil_r in H2. exact H2.
    - apply Hnil; [exact Hk1|]. specialize (H1 k ltac:(lia)). rewrite app_nil_r in H1. rewrite H1.
      rewrite (IH (k + 1) ltac:(lia) ltac:(lia)). reflexivity.
  Qed.

  Theorem empty_run i s lg m : wc_levels c < 256 -> 1 <= wc_interval c -> wc_codec c <= 5 ->
    w_run_gen vsink vs_wr vs_fl vs_count compress c vs_empty [] = (i, Done (s, lg, m)) ->
    len (vs_bytes s) < 2^64 -> (forall e, In e lg -> len (em_bytes e) < 2^64) ->
    open_meta (vs_bytes s) = Done m /\
    m_count m = 0 /\ m_codec m = wc_codec c /\ m_levels m = wc_levels c /\
    exists b ridx, (forall ord, load_block decompress (vs_bytes s) (wc_codec c) ord (m_root m) = Done b) /\ wfblock b [] ridx.
  Proof.
    intros HL Hint Hk Hrun H64 Hmem.
    destruct (w_run_tree compress decompress c codec_ok [] i s lg m HL Hrun)
      as (gl & body & Hlo & Hmap & Hents & HTI & Hbytes & Hcnt & Hv & Hc & Hn & Hlv & gl0 & e0 & es0 & Hgl & Hl0 & Hroot & Hnz).
    assert (Hlvu : m_levels m = wc_levels c) by (rewrite Hlv; unfold u8; apply N.mod_small; lia).
    assert (H64b : len body < 2^64) by (rewrite Hbytes, len_app in H64; lia).
    assert (Hr64 : m_root m + 8 <= len body).
    { rewrite <- Hroot. apply (laid_out_offsets compress decompress c codec_ok _ _ Hlo e0). rewrite <- Hmap, Hgl, map_app. apply in_or_app. right. left. reflexivity. }
    split.
    { rewrite Hbytes. apply open_written. unfold wf_meta.
      rewrite Hn, Hc, Hlvu, Hv. change (len (@nil entry)) with 0. split; [lia|]. split; [lia|]. split; [exact Hk|]. split; [exact HL|discriminate]. }
    split; [exact Hn|]. split; [exact Hc|]. split; [exact Hlvu|].
    (* the root block has no entries *)
    assert (Hne : forall p, In p gl -> 1 <= em_level (fst p) -> snd p <> []).
    { intros p Hp Hl Hx. rewrite Forall_forall in Hents. destruct (Hents p Hp) as [_ H0]. specialize (H0 Hx). lia. }
    assert (Hg0 : gblocks 0 gl = [(e0, es0)]).
    { rewrite Hgl. unfold gblocks. rewrite filter_app. cbn [filter fst]. rewrite Hl0. cbn [N.eqb].
      assert (E : filter (fun p : gentry => em_level (fst p) =? 0) gl0 = []).
      { clear -Hnz. induction gl0 as [|p l IH]; [reflexivity|]. cbn [filter]. inversion Hnz as [|? ? Hp Hl]; subst. unfold nz in Hp.
        destruct (N.eqb_spec (em_level (fst p)) 0); [lia|exact (IH Hl)]. }
      rewrite E. reflexivity. }
    assert (Hes0 : es0 = []).
    { pose proof HTI as [H1 _]. specialize (H1 0 ltac:(lia)). rewrite Hg0 in H1. cbn [flat_map snd] in H1. rewrite !app_nil_r in H1.
      pose proof (empty_levels gl HTI Hne (N.to_nat L) (0 + 1) ltac:(lia) ltac:(lia)) as E1. rewrite E1 in H1. exact H1. }
    subst es0.
    assert (Hin0 : In (e0, []) gl) by (rewrite Hgl; apply in_or_app; right; left; reflexivity).
    rewrite Forall_forall in Hents. destruct (Hents _ Hin0) as [(w & [Hok Hi] & Hf) _]. cbn [fst snd] in Hok, Hf.
    assert (Hl : bw_len w < 2^64).
    { pose proof (Hmem e0 ltac:(apply in_rev; rewrite <- Hmap; apply (in_map fst) in Hin0; exact Hin0)) as Hm.
      rewrite (bw_size_exact w [] _ Hok Hf) in Hm. unfold bw_size in Hm. lia. }
    pose proof (finished_block_wf w [] Hok ltac:(lia)) as Wf.
    eexists _, _. split; [|exact Wf].
    intro ord. rewrite Hbytes, <- Hroot. rewrite <- Hmap in Hlo.
    rewrite (laid_out_load compress decompress c codec_ok _ _ Hlo H64b e0 (trailer_bytes m) ord ltac:(apply (in_map fst) in Hin0; exact Hin0)).
    exact (parse_finish w [] _ Hok Hl Hf).
  Qed.

  (* the empty file scans, seeks and iterates as empty *)
  Theorem empty_file_reads_empty i s lg m : wc_levels c < 256 -> 1 <= wc_interval c -> wc_codec c <= 5 ->
    w_run_gen vsink vs_wr vs_fl vs_count compress c vs_empty [] = (i, Done (s, lg, m)) ->
    len (vs_bytes s) < 2^64 -> (forall e, In e lg -> len (em_bytes e) < 2^64) ->
    open_meta (vs_bytes s) = Done m /\ m_count m = 0 /\ m_codec m = wc_codec c /\
    let step := cstep (load_block decompress (vs_bytes s) (m_codec m)) (m_root m) (m_levels m) in
    (forall ops, exists st, run_ops (load_block decompress (vs_bytes s) (m_codec m)) (m_root m) (m_levels m) cs_fresh ops
                            = Done (st, repeat None (length ops))) /\
    (forall lo hi p fuel, (0 < fuel)%nat ->
       collect (range_next step lo hi) fuel iter_new = Done [] /\
       collect (rev_range_next step lo hi) fuel iter_new = Done [] /\
       collect (prefix_next step p) fuel iter_new = Done [] /\
       collect (rev_prefix_next step p) fuel iter_new = Done []).
  Proof.
    intros HL Hint Hk Hrun H64 Hmem.
    destruct (empty_run i s lg m HL Hint Hk Hrun H64 Hmem) as (Ho & Hn & Hc & Hlv & b & ridx & Hld & W).
    split; [exact Ho|]. split; [exact Hn|]. split; [exact Hc|]. cbv zeta. rewrite Hc, Hlv. split.
    - intro ops. destruct (history_empty _ _ (wc_levels c) b ridx Hld W ops cs_fresh (fresh_empty)) as (st & E & _). exists st. exact E.
    - intros lo hi p fuel Hf. exact (iterators_empty _ _ (wc_levels c) b ridx Hld W lo hi p fuel Hf).
  Qed.
End EmptyRun.
