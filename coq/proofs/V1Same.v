(* C10: two well-formed stores with the same content answer every query identically; a file of the
   writer model with a single-level index, re-trailered with the 21-byte version-1 trailer, opens as
   version 1 and is such a store. *)
From Coq Require Import Lia ZArith ZifyN ZifyBool ZifyNat.
From Grenad.gen Require Import Consts.
From Grenad.model Require Import Base Block Trailer Writer Reader Spec Iter.
From Grenad.proofs Require Import BaseProofs TrailerProofs ReaderRefine WriterStore IterRefine.

Lemma adm_specified es : forall ops p, adm_ops es p ops -> Forall (fun sp => sp <> None) (snd (aspec_ops es p ops)).
Proof.
  induction ops as [|o r IH]; intros p Ha; cbn [aspec_ops snd]; [constructor|].
  cbn [adm_ops] in Ha. destruct Ha as [Ha1 Ha2]. constructor; [|apply IH; exact Ha2].
  unfold admissible in Ha1.
  destruct o; cbn [aspec];
    try (match goal with |- snd (at_result ?x) <> None => destruct x as [[? ?]|]; cbn [at_result snd]; discriminate end);
    try (cbn [snd]; discriminate);
    destruct p as [|i|]; try (specialize (Ha1 eq_refl); discriminate); cbn [snd];
    try discriminate;
    match goal with |- snd (at_result ?x) <> None => destruct x as [[? ?]|]; cbn [at_result snd]; discriminate end.
Qed.

Lemma res_ok_determined sp : forall rs1 rs2, Forall (fun s => s <> None) sp ->
  Forall2 res_ok sp rs1 -> Forall2 res_ok sp rs2 -> rs1 = rs2.
Proof.
  induction sp as [|s sp IH]; intros rs1 rs2 Hs H1 H2; inversion H1; inversion H2; subst; [reflexivity|].
  inversion Hs as [|? ? Hs1 Hs2]; subst. destruct s as [x|]; [|congruence].
  match goal with A : res_ok (Some x) ?a, B : res_ok (Some x) ?b |- _ => cbn [res_ok] in A, B; subst a; subst b end.
  f_equal. apply IH; assumption.
Qed.

Section SameContent.
  Variables (ld1 ld2 : N -> N -> outcome block) (root1 root2 levels1 levels2 : N).
  Variables (bs1 bs2 : N -> option (block * list entry * list nat)).
  Hypothesis W1 : wf_store ld1 root1 levels1 bs1.
  Hypothesis W2 : wf_store ld2 root2 levels2 bs2.
  Variable es : list entry.
  Hypothesis E1 : content root1 levels1 bs1 = es.
  Hypothesis E2 : content root2 levels2 bs2 = es.

  Theorem same_histories ops : adm_ops es Fresh ops ->
    exists st1 st2 rs, run_ops ld1 root1 levels1 cs_fresh ops = Done (st1, rs) /\
                       run_ops ld2 root2 levels2 cs_fresh ops = Done (st2, rs) /\
                       Forall2 res_ok (snd (aspec_ops es Fresh ops)) rs.
  Proof.
    intro Ha.
    destruct (R_history ld1 root1 levels1 bs1 W1 ops Fresh cs_fresh (fresh_rel _ _ _) ltac:(apply adm_ops_content; rewrite E1; exact Ha))
      as (st1 & rs1 & A1 & _ & B1).
    destruct (R_history ld2 root2 levels2 bs2 W2 ops Fresh cs_fresh (fresh_rel _ _ _) ltac:(apply adm_ops_content; rewrite E2; exact Ha))
      as (st2 & rs2 & A2 & _ & B2).
    rewrite spec_ops_content, E1 in B1. rewrite spec_ops_content, E2 in B2.
    assert (rs1 = rs2) by (eapply res_ok_determined; [apply adm_specified; exact Ha|exact B1|exact B2]). subst rs2.
    exists st1, st2, rs1. auto.
  Qed.

  Theorem same_ranges lo hi fuel : (S (length es) < fuel)%nat ->
    collect (range_next (cstep ld1 root1 levels1) lo hi) fuel iter_new = Done (range_spec es lo hi) /\
    collect (range_next (cstep ld2 root2 levels2) lo hi) fuel iter_new = Done (range_spec es lo hi) /\
    collect (rev_range_next (cstep ld1 root1 levels1) lo hi) fuel iter_new = Done (rev (range_spec es lo hi)) /\
    collect (rev_range_next (cstep ld2 root2 levels2) lo hi) fuel iter_new = Done (rev (range_spec es lo hi)).
  Proof.
    intro Hf. rewrite <- E1 at 1 3. rewrite <- E2 at 1 2. rewrite <- E1 in Hf.
    split; [apply (R_range_fwd _ _ _ _ W1); exact Hf|]. rewrite E1, <- E2 in Hf.
    split; [apply (R_range_fwd _ _ _ _ W2); exact Hf|]. rewrite E2, <- E1 in Hf.
    split; [apply (R_range_bwd _ _ _ _ W1); exact Hf|]. rewrite E1, <- E2 in Hf.
    apply (R_range_bwd _ _ _ _ W2); exact Hf.
  Qed.

  Theorem same_prefixes p fuel : (S (length es) < fuel)%nat ->
    collect (prefix_next (cstep ld1 root1 levels1) p) fuel iter_new = Done (prefix_spec es p) /\
    collect (prefix_next (cstep ld2 root2 levels2) p) fuel iter_new = Done (prefix_spec es p) /\
    (Forall (fun e => wf_bytes (fst e)) es -> wf_bytes p ->
     collect (rev_prefix_next (cstep ld1 root1 levels1) p) fuel iter_new = Done (rev (prefix_spec es p)) /\
     collect (rev_prefix_next (cstep ld2 root2 levels2) p) fuel iter_new = Done (rev (prefix_spec es p))).
  Proof.
    intro Hf.
    split; [rewrite <- E1 at 1; apply (R_prefix_fwd _ _ _ _ W1); rewrite E1; exact Hf|].
    split; [rewrite <- E2 at 1; apply (R_prefix_fwd _ _ _ _ W2); rewrite E2; exact Hf|].
    intros Hwf Hp. split.
    - rewrite <- E1 at 1. apply (R_prefix_bwd _ _ _ _ W1); [rewrite E1; exact Hwf|exact Hp|rewrite E1; exact Hf].
    - rewrite <- E2 at 1. apply (R_prefix_bwd _ _ _ _ W2); [rewrite E2; exact Hwf|exact Hp|rewrite E2; exact Hf].
  Qed.
End SameContent.

(* the version-1 twin of a written single-level file *)
Definition v1_trailer (m : meta) : bytes :=
  le_bytes 8 (m_root m) ++ [m_codec m] ++ le_bytes 8 (m_count m) ++ le_bytes 4 1983008076.

Theorem v1_twin compress decompress c :
  (forall b z, compress (wc_codec c) (wc_level c) b = Done z -> decompress (wc_codec c) z = Done b) ->
  forall es i s lg m, wc_levels c = 0 -> 1 <= wc_interval c -> wc_codec c <= 5 ->
  w_run_gen vsink vs_wr vs_fl vs_count compress c vs_empty es = (i, Done (s, lg, m)) ->
  es <> [] -> sorted_strictb (map fst es) = true ->
  len (vs_bytes s) < 2^64 -> mem_ok lg -> len es < 2^64 ->
  exists body bs2 bs1,
    vs_bytes s = body ++ trailer_bytes m /\
    let f1 := body ++ v1_trailer m in
    let m1 := mk_meta FormatV1 (m_root m) (m_codec m) (m_count m) 0 in
    open_meta f1 = Done m1 /\ open_meta (vs_bytes s) = Done m /\ m_count m = len es /\ m_codec m = wc_codec c /\
    wf_store (load_block decompress (vs_bytes s) (m_codec m)) (m_root m) (m_levels m) bs2 /\
    content (m_root m) (m_levels m) bs2 = es /\
    wf_store (load_block decompress f1 (m_codec m1)) (m_root m1) (m_levels m1) bs1 /\
    content (m_root m1) (m_levels m1) bs1 = es.
Proof.
  intros Hcodec es i s lg m HL0 Hint Hk Hrun Hne Hsorted H64 Hmem Hcount.
  assert (HL : wc_levels c < 256) by lia.
  destruct (written_body_wf compress decompress c Hcodec es i s lg m HL Hint Hrun Hne Hsorted H64 Hmem)
    as (bs & body & Hbytes & Ec & Hv & Hc & Hn & Hlv & Hroot & W).
  exists body, bs, bs. split; [exact Hbytes|]. cbv zeta. cbn [m_root m_codec m_levels m_count].
  assert (Hr64 : m_root m < 2^64) by (rewrite Hbytes, len_app in H64; lia).
  split.
  { unfold v1_trailer. apply open_v1_layout; [exact Hr64|rewrite Hn; exact Hcount|rewrite Hc; exact Hk]. }
  split.
  { rewrite Hbytes. apply open_written. unfold wf_meta. rewrite Hn, Hc, Hlv, Hv.
    split; [exact Hr64|]. split; [exact Hcount|]. split; [exact Hk|]. split; [exact HL|discriminate]. }
  split; [exact Hn|]. split; [exact Hc|].
  rewrite Hc, Hlv. rewrite HL0 in *.
  split; [rewrite Hbytes; apply W|]. split; [exact Ec|]. split; [apply W|exact Ec].
Qed.
