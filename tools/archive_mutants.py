#!/usr/bin/env python3
"""Archives a confirmed round of seeded changes under seeded/<id><letter>/ (patch.diff, demo.rs, meta.json).
usage: archive_mutants.py BASE ROUND LETTERS FIRST_RESULTS FINAL_RESULTS [NOTES_JSON]
  LETTERS: e.g. "jk" (variant a -> j, variant b -> k); NOTES_JSON: {"C02b": "note", ...}"""
import json, os, shutil, sys, glob
base, rnd, letters, first, final = sys.argv[1], int(sys.argv[2]), sys.argv[3], sys.argv[4], sys.argv[5]
notes = json.load(open(sys.argv[6])) if len(sys.argv) > 6 else {}
confirm = json.load(open(base + "/confirm.json"))
r1 = json.load(open(first)) if os.path.exists(first) else {}
r2 = json.load(open(final))
rows = []
for d in sorted(glob.glob(base + "/out/C*/*/patch.diff")):
    parts = d.split("/"); pid, var = parts[-3], parts[-2]
    key = pid + var
    c = confirm.get(pid, {}).get(var, {})
    if not c.get("ok"):
        print("skip (not confirmed)", key); continue
    dst = "/verif/seeded/%s%s" % (pid, letters["ab".index(var)])
    os.makedirs(dst, exist_ok=True)
    src = os.path.dirname(d)
    shutil.copy(d, dst + "/patch.diff")
    if os.path.exists(src + "/demo.rs"):
        shutil.copy(src + "/demo.rs", dst + "/demo.rs")
    m = json.load(open(src + "/meta.json"))
    def res(r):
        x = r.get(key)
        if not x: return None
        return {"exit": x.get("rc"), "violation_line": (x.get("violation") or [""])[0].replace("/tmp/verif_snap", "/verif")}
    meta = {"property": pid, "round": rnd, "what": m.get("what", ""), "needs": m.get("needs", ""), "features": m.get("features", ""),
            "author": "independent sub-agent given only the property text, a scratch worktree and the list of earlier changes to avoid",
            "confirmed_in_scratch_worktree": {k: c.get(k) for k in ("applies", "suite_passes", "doc_passes", "demo_with_fails", "demo_without")},
            "ran": ["git apply patch.diff in a scratch worktree of /repo; cargo test --offline --lib (34 passed) and --doc (3 passed) with the change; demo fails with it, passes without",
                    "git -C /repo apply patch.diff; ./check %s --tier quick; git -C /repo checkout -- ." % pid]}
    f1, f2 = res(r1), res(r2)
    if f1: meta["first_run"] = f1
    meta["check_result"] = f2
    if key in notes: meta["note"] = notes[key]
    json.dump(meta, open(dst + "/meta.json", "w"), indent=1)
    rows.append((os.path.basename(dst), meta))
    print(os.path.basename(dst), f1, f2)
