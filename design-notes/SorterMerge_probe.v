From Coq Require Import List Arith Lia Bool Sorted.
From P Require Import Merge_probe.
Import ListNotations.

(* Probe for C07: whatever the spill points and chunk merges, merging the chunks equals the chunk
   of the whole insertion sequence, for an associative merge function. *)
Arguments Nat.ltb : simpl never.
Arguments Nat.eqb : simpl never.
Section Sorter.
Variable V : Type.
Variable mf : nat -> list V -> V.
Hypothesis assoc : forall k (vss : list (list V)), Forall (fun vs => vs <> []) vss -> vss <> [] ->
  mf k (concat vss) = mf k (map (mf k) vss).

Notation src := (list (nat * V)).

(* values inserted for k, in insertion order *)
Definition vals (k : nat) (seg : src) : list V := flat_map (fun kv => if fst kv =? k then [snd kv] else []) seg.

(* sorted distinct keys *)
Fixpoint ins_key (k : nat) (l : list nat) : list nat :=
  match l with [] => [k] | x :: r => if k <? x then k :: l else if k =? x then l else x :: ins_key k r end.
Definition skeys (seg : src) : list nat := fold_right (fun kv acc => ins_key (fst kv) acc) [] seg.

(* what write_chunk stores for a segment (sort by key, group, one merge call per key) *)
Definition chunk_of (seg : src) : src := map (fun k => (k, mf k (vals k seg))) (skeys seg).

Lemma ins_key_in k l x : In x (ins_key k l) <-> x = k \/ In x l.
Proof.
  induction l as [|y r IH]; cbn.
  - split; [intros [E|[]]; left; congruence | intros [E|[]]; left; congruence].
  - destruct (Nat.ltb_spec k y) as [Hlt|Hge]; [cbn; split; intros [E|E]; subst; auto|].
    destruct (Nat.eqb_spec k y) as [->|Hne].
    + cbn. split; [intros [E|E]; subst; auto | intros [E|[E|E]]; subst; auto].
    + cbn. rewrite IH. split; [intros [E|[E|E]]; subst; auto | intros [E|[E|E]]; subst; auto].
Qed.
Lemma ins_key_sorted k l : StronglySorted lt l -> StronglySorted lt (ins_key k l).
Proof.
  induction 1 as [|y r Hr IH Hy]; cbn; [repeat constructor|].
  destruct (Nat.ltb_spec k y).
  - constructor; [constructor; assumption|]. constructor; [assumption|]. eapply Forall_impl; [|exact Hy]. cbn; intros; lia.
  - destruct (Nat.eqb_spec k y); [constructor; assumption|]. constructor; [exact IH|].
    apply Forall_forall. intros x Hx. apply ins_key_in in Hx. rewrite Forall_forall in Hy. destruct Hx as [->|Hx]; [lia|auto].
Qed.
Lemma skeys_sorted seg : StronglySorted lt (skeys seg).
Proof. induction seg as [|kv r IH]; cbn; [constructor|apply ins_key_sorted; exact IH]. Qed.
Lemma skeys_in seg k : In k (skeys seg) <-> vals k seg <> [].
Proof.
  induction seg as [|[k' v] r IH]; [cbn; split; [intros []|congruence]|].
  change (skeys ((k', v) :: r)) with (ins_key k' (skeys r)). rewrite ins_key_in, IH.
  change (vals k ((k', v) :: r)) with ((if k' =? k then [v] else []) ++ vals k r).
  destruct (Nat.eqb_spec k' k) as [->|Hne]; cbn [app].
  - split; [discriminate|]. intros _. left; reflexivity.
  - split; [intros [E|E]; [congruence|exact E] | intro E; right; exact E].
Qed.

Lemma chunk_keys seg : map fst (chunk_of seg) = skeys seg.
Proof. unfold chunk_of. rewrite map_map. cbn. apply map_id. Qed.
Lemma chunk_sorted seg : sorted V (chunk_of seg).
Proof. unfold sorted, keys. rewrite chunk_keys. apply skeys_sorted. Qed.

(* the value a chunk holds for k *)
Lemma val_in_chunk k seg : val_in V k (chunk_of seg) = if existsb (Nat.eqb k) (skeys seg) then [mf k (vals k seg)] else [].
Proof.
  unfold chunk_of, val_in. pose proof (skeys_sorted seg) as S. induction S as [|x r Hr IH Hx]; [reflexivity|].
  cbn. rewrite (Nat.eqb_sym k x). destruct (Nat.eqb_spec x k) as [->|Hne]; cbn.
  - f_equal. (* k cannot occur again *)
    clear IH. induction r as [|y r' IHr]; [reflexivity|]. cbn. inversion Hx as [|? ? Hy Hr']; subst. inversion Hr as [|? ? Hr2 Hy2]; subst.
    destruct (Nat.eqb_spec y k); [lia|]. cbn. apply IHr; assumption.
  - exact IH.
Qed.

Lemma existsb_skeys k seg : existsb (Nat.eqb k) (skeys seg) = negb (match vals k seg with [] => true | _ => false end).
Proof.
  destruct (existsb (Nat.eqb k) (skeys seg)) eqn:E.
  - apply existsb_exists in E. destruct E as (x & Hin & Hx). apply Nat.eqb_eq in Hx. subst x.
    apply skeys_in in Hin. destruct (vals k seg); [congruence|reflexivity].
  - destruct (vals k seg) eqn:Ev; [reflexivity|]. exfalso.
    assert (In k (skeys seg)) by (apply skeys_in; rewrite Ev; discriminate).
    assert (existsb (Nat.eqb k) (skeys seg) = true) by (apply existsb_exists; exists k; split; [assumption|apply Nat.eqb_refl]). congruence.
Qed.

Lemma vals_concat k segs : vals k (concat segs) = concat (map (vals k) segs).
Proof. unfold vals. induction segs as [|s r IH]; [reflexivity|]. cbn. rewrite flat_map_app, IH. reflexivity. Qed.

(* two outputs with strictly sorted keys, the same key set and the same value per key are equal *)
Lemma sorted_unique (a b : src) : StronglySorted lt (map fst a) -> StronglySorted lt (map fst b) ->
  (forall k, In k (map fst a) <-> In k (map fst b)) ->
  (forall k v w, In (k, v) a -> In (k, w) b -> v = w) -> a = b.
Proof.
  revert b. induction a as [|[k v] a IH]; intros b Sa Sb Hk Hv.
  - destruct b as [|[k' w] b]; [reflexivity|]. exfalso. apply (Hk k'). left; reflexivity.
  - destruct b as [|[k' w] b]; [exfalso; apply (Hk k); left; reflexivity|].
    cbn in Sa, Sb. inversion Sa as [|? ? Sa' Fa]; subst. inversion Sb as [|? ? Sb' Fb]; subst.
    rewrite Forall_forall in Fa, Fb.
    assert (k = k').
    { destruct (Hk k) as [H1 _]. destruct (Hk k') as [_ H2]. cbn in H1, H2.
      destruct (H1 (or_introl eq_refl)) as [E|E]; [congruence|]. destruct (H2 (or_introl eq_refl)) as [E'|E']; [congruence|].
      specialize (Fb _ E). specialize (Fa _ E'). lia. }
    subst k'. f_equal; [f_equal; apply (Hv k); left; reflexivity|].
    apply IH; auto.
    + intro x. split; intro H.
      * destruct (Hk x) as [H1 _]. cbn in H1. destruct (H1 (or_intror H)) as [E|E]; [subst; specialize (Fa _ H); lia|exact E].
      * destruct (Hk x) as [_ H2]. cbn in H2. destruct (H2 (or_intror H)) as [E|E]; [subst; specialize (Fb _ H); lia|exact E].
    + intros x y z Hy Hz. apply (Hv x); right; assumption.
Qed.

Theorem chunks_merge segs :
  merge_run V mf (map chunk_of segs) = chunk_of (concat segs).
Proof.
  unfold merge_run.
  pose proof (C06_merge V mf (S (total V (map chunk_of segs))) (map chunk_of segs)) as C.
  assert (Hs : Forall (sorted V) (map chunk_of segs)) by (apply Forall_forall; intros s Hin; apply in_map_iff in Hin; destruct Hin as (g & <- & _); apply chunk_sorted).
  specialize (C Hs ltac:(lia)). cbv zeta in C. destruct C as (C1 & C2 & C3 & _).
  apply sorted_unique.
  - exact C1.
  - rewrite chunk_keys. apply skeys_sorted.
  - intro k. rewrite C2, chunk_keys, skeys_in, vals_concat. unfold has_key. split.
    + intros (s & Hin & Hk). apply in_map_iff in Hin. destruct Hin as (g & <- & Hg).
      unfold keys in Hk. rewrite chunk_keys in Hk. apply skeys_in in Hk.
      intro E. apply Hk. clear -E Hg. induction segs as [|a r IH]; [contradiction|]. cbn in E. apply app_eq_nil in E. destruct E as [E1 E2].
      destruct Hg as [->|Hg]; [exact E1|apply IH; assumption].
    + intro H. assert (exists g, In g segs /\ vals k g <> []).
      { clear -H. induction segs as [|a r IH]; [cbn in H; congruence|]. cbn in H.
        destruct (vals k a) eqn:E; [cbn in H; destruct (IH H) as (g & A & B); exists g; split; [right; exact A|exact B]|].
        exists a. split; [left; reflexivity|rewrite E; discriminate]. }
      destruct H0 as (g & Hg & Hv). exists (chunk_of g). split; [apply in_map; exact Hg|].
      unfold keys. rewrite chunk_keys. apply skeys_in. exact Hv.
  - intros k v w Hv Hw. rewrite (C3 k v Hv).
    unfold chunk_of in Hw. apply in_map_iff in Hw. destruct Hw as (k' & E & Hk'). inversion E; subst k' w. clear E.
    rewrite vals_concat.
    (* vals_of k (chunks) = map (mf k) (non-empty value lists), and concat over all = concat over non-empty *)
    set (vss := filter (fun vs => match vs with [] => false | _ => true end) (map (vals k) segs)).
    assert (E1 : concat (map (vals k) segs) = concat vss).
    { subst vss. clear. induction segs as [|a r IH]; [reflexivity|]. cbn. destruct (vals k a) eqn:E; cbn; [exact IH|]. rewrite IH. reflexivity. }
    assert (E2 : vals_of V k (map chunk_of segs) = map (mf k) vss).
    { subst vss. unfold vals_of. clear. induction segs as [|a r IH]; [reflexivity|]. cbn [map flat_map filter].
      rewrite val_in_chunk, existsb_skeys. destruct (vals k a) eqn:E; cbn; [exact IH|]. rewrite IH. reflexivity. }
    rewrite E1, E2. symmetry. apply assoc.
    + subst vss. apply Forall_forall. intros vs H. apply filter_In in H. destruct H as [_ H]. destruct vs; [discriminate|discriminate].
    + intro Z. apply skeys_in in Hk'. rewrite vals_concat, E1, Z in Hk'. apply Hk'. reflexivity.
Qed.

(* consequence: any schedule of spills (segmentation) and chunk merges yields chunk_of of everything *)
Corollary merge_of_merges segs1 segs2 :
  merge_run V mf (merge_run V mf (map chunk_of segs1) :: map chunk_of segs2) = chunk_of (concat (segs1 ++ segs2)).
Proof.
  rewrite chunks_merge. change (chunk_of (concat segs1) :: map chunk_of segs2) with (map chunk_of (concat segs1 :: segs2)).
  rewrite chunks_merge. cbn [concat]. rewrite concat_app. reflexivity.
Qed.
End Sorter.
Print Assumptions chunks_merge.
Print Assumptions merge_of_merges.
