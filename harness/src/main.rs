//! Correspondence harness: runs the real grenad implementation on generated inputs and
//! writes inputs + observations as a case file for the extracted Coq model to replay.
mod c14;
mod util;

use std::fs::File;
use std::io::BufWriter;
use util::*;

fn main() {
    let args: Vec<String> = std::env::args().collect();
    if args.len() < 2 {
        eprintln!("usage: gverif <scenario> [--tier quick|thorough] [--seed N] [--out FILE] [--stats FILE]");
        std::process::exit(2);
    }
    let scenario = args[1].clone();
    let mut tier = "quick".to_string();
    let mut seed: u64 = 1;
    let mut out = "cases.txt".to_string();
    let mut stats = "stats.json".to_string();
    let mut extra: Vec<String> = Vec::new();
    let mut i = 2;
    while i < args.len() {
        match args[i].as_str() {
            "--tier" => { tier = args[i + 1].clone(); i += 2; }
            "--seed" => { seed = args[i + 1].parse().unwrap(); i += 2; }
            "--out" => { out = args[i + 1].clone(); i += 2; }
            "--stats" => { stats = args[i + 1].clone(); i += 2; }
            _ => { extra.push(args[i].clone()); i += 1; }
        }
    }
    let thorough = tier == "thorough";
    // keep panic messages of caught panics out of the logs
    std::panic::set_hook(Box::new(|_| {}));
    let mut rng = Rng::new(seed);
    let mut cases = Cases::new(BufWriter::new(File::create(&out).unwrap()));
    match scenario.as_str() {
        "C14" => c14::generate(&mut cases, &mut rng, thorough),
        "C14-sweep" => {
            match c14::sweep_all() {
                None => println!("SWEEP ok 4294967296"),
                Some(v) => println!("SWEEP fail {}", v),
            }
        }
        other => {
            eprintln!("unknown scenario {}", other);
            std::process::exit(2);
        }
    }
    let _ = &extra;
    cases.finish(&stats);
}
