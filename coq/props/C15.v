(* C15 — Blocks are cut at the configured block size.  Statements only. *)
From Grenad.gen Require Import Consts.
From Grenad.model Require Import Base Block Writer.
From Grenad.proofs Require Import BlockProofs FormatProofs.

Theorem C15_constants : MIN_BLOCK_SIZE = 1024 /\ forall s, clamp_block_size s = N.max 1024 s.
Proof. split; reflexivity. Qed.
Print Assumptions C15_constants.

(* the writer's size estimate is the exact uncompressed size of the finished block, for every
   block writer state reachable by inserts *)
Theorem C15_size_exact : forall w es buf,
  bw_ok w es -> bw_finish w = Done buf -> len buf = bw_size w.
Proof. exact bw_size_exact. Qed.
Print Assumptions C15_size_exact.

(* one insert grows the estimate by the framed entry plus at most one 8-byte footer slot *)
Theorem C15_growth : forall w k v w',
  bw_insert w k v = Done w' ->
  bw_size w + len (frame k v) <= bw_size w' <= bw_size w + len (frame k v) + 8.
Proof. exact bw_insert_growth. Qed.
Print Assumptions C15_growth.

(* ---- the whole writer, any sink, any insert sequence.  B = the effective block size (>= 1024 after
   the clamp; the hypothesis 12 < B only says an empty block is below it).  cut_level = data blocks
   and index blocks of level >= 2 (more than one level below the root). ---- *)
From Grenad.model Require Import Trailer.
From Grenad.proofs Require Import WriterInv.

(* every emitted block of a cut level is the finish of a block writer that was below B before its
   last insert (or is still below B: the blocks flushed by into_inner) *)
Theorem C15_cut : forall SK wr fl cnt compress c s0 es i s lg m,
  12 < wc_block_size c -> wc_levels c < 256 ->
  w_run_gen SK wr fl cnt compress c s0 es = (i, Done (s, lg, m)) ->
  Forall (fun e => cut_level c (em_level e) ->
            exists w es', bw_ok w es' /\ bw_finish w = Done (em_bytes e) /\ (below c w \/ justins c w)) lg.
Proof. intros SK wr fl cnt compress c s0 es i s lg m HB HL H. exact (proj2 (w_run_gen_blocks SK wr fl cnt compress c HB s0 es i s lg m HL H)). Qed.
Print Assumptions C15_cut.

(* every block emitted while inserting (all but the last block of each level, which into_inner
   flushes) has reached B *)
Theorem C15_reached : forall SK wr cnt compress c s0 es j st,
  12 < wc_block_size c -> wc_levels c < 256 ->
  w_inserts_at SK wr cnt compress c (w_new SK c s0) es 0 = (j, Done st) ->
  Forall (fun e => cut_level c (em_level e) -> wc_block_size c <= len (em_bytes e)) (w_log st).
Proof. intros SK wr cnt compress c s0 es j st HB HL H. exact (proj1 (w_inserts_blocks_full SK wr (fun s => Done s) cnt compress c HB s0 es j st HL H)). Qed.
Print Assumptions C15_reached.

(* hence no such block exceeds B by more than one framed entry plus one footer slot *)
Theorem C15_overshoot : forall c w k v w', below c w -> bw_insert w k v = Done w' ->
  bw_size w' < wc_block_size c + len (frame k v) + 8.
Proof. intros c w k v w' Hb Hi. pose proof (bw_insert_growth w k v w' Hi). unfold below in Hb. Lia.lia. Qed.
Print Assumptions C15_overshoot.

(* ================= at the byte level =================
   Format.size_without_last computes, from a parsed block and its decoded entries alone, the size the
   block had before its last entry was inserted (the start of the last entry, the footer slots minus
   the one the last insert added, the 4-byte count).  For a block writer it is exactly the size
   estimate before the last insert; so every block C15_cut speaks of parses, decodes, and satisfies
   the predicate the correspondence evaluates on the emitted bytes: size_without_last < B *)
From Grenad.model Require Import Reader Spec Format.
From Grenad.proofs Require Import CutProofs.

Theorem C15_size_without_last : forall w0 es0 k v w, bw_ok w0 es0 -> 1 <= bw_interval w0 -> bw_insert w0 k v = Done w ->
  size_without_last (mk_block (payload_of (es0 ++ [(k, v)])) (rev (bw_offsets w))) (with_starts (es0 ++ [(k, v)]) 0) = bw_size w0.
Proof. exact swl_justins. Qed.
Print Assumptions C15_size_without_last.

Theorem C15_cut_bytes : forall c w es buf, bw_ok w es -> bw_finish w = Done buf -> bw_len w < 2^64 -> 1 <= bw_interval w ->
  (below c w \/ justins c w) ->
  exists b bes, parse_block buf = Done b /\ block_entries b = Done bes /\ size_without_last b bes < wc_block_size c.
Proof. exact cut_bytes. Qed.
Print Assumptions C15_cut_bytes.
