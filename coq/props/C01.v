(* C01 — Write/read round trip is exact, ordered, complete for every configuration.
   Statements only.  The full statement C01_roundtrip (DESIGN 5) composes the block-level round
   trip below with the writer tree invariant W and the reader refinement R; the parts proved so
   far are listed here, the rest is validated by the correspondence (see evidence.not_proved). *)
From Grenad.model Require Import Base Block Trailer Spec Format.
From Grenad.proofs Require Import BlockProofs FormatProofs TrailerProofs.

(* every block: strictly ascending entries (any lengths up to u32::MAX, empty key, empty values)
   inserted into a fresh block writer, finished, parsed and decoded come back exactly, in order *)
Theorem C01_block_roundtrip : forall interval es,
  sorted_strictb (map fst es) = true -> entries_ok es -> len (payload_of es) < 2^64 ->
  exists w, bw_insert_all (bw_new interval) es = Done w /\
    (bw_noffsets w <= U32_MAX ->
     exists buf b, bw_finish w = Done buf /\ len buf = bw_size w /\ parse_block buf = Done b /\
       block_entries b = Done (with_starts es 0) /\ offsets_ok interval b (with_starts es 0) = true).
Proof. exact block_roundtrip. Qed.
Print Assumptions C01_block_roundtrip.

(* the trailer: whatever the body, the file opens and reports the written count, codec, levels *)
Theorem C01_open_reports_trailer : forall body m, wf_meta m -> open_meta (body ++ trailer_bytes m) = Done m.
Proof. exact open_written. Qed.
Print Assumptions C01_open_reports_trailer.

Example C01_block_example :
  exists w buf b, bw_insert_all (bw_new 2) [([], [1]); ([0], []); ([0; 255], [2; 3]); ([1], [4])] = Done w /\
    bw_finish w = Done buf /\ parse_block buf = Done b /\
    omap (map snd) (block_entries b) = Done [([], [1]); ([0], []); ([0; 255], [2; 3]); ([1], [4])].
Proof. eexists. eexists. eexists. vm_compute. repeat split; reflexivity. Qed.

(* ================= scans of a whole well-formed store of ANY index depth (wf_store, content: see C03.v):
   move_on_next from a fresh cursor returns exactly the content in order and then None; move_on_prev
   returns it in reverse and then None — nothing lost, duplicated or reordered ================= *)
From Grenad.model Require Import Reader.
From Grenad.proofs Require Import ReaderRefine.

Theorem C01_scan_forward : forall ld root levels bstore, wf_store ld root levels bstore ->
  (0 < length (content root levels bstore))%nat ->
  exists st' rs, run_ops ld root levels cs_fresh (repeat ONext (S (length (content root levels bstore)))) = Done (st', rs) /\
    rs = map Some (content root levels bstore) ++ [None].
Proof. exact scan_forward. Qed.
Print Assumptions C01_scan_forward.

Theorem C01_scan_backward : forall ld root levels bstore, wf_store ld root levels bstore ->
  (0 < length (content root levels bstore))%nat ->
  exists st' rs, run_ops ld root levels cs_fresh (repeat OPrev (S (length (content root levels bstore)))) = Done (st', rs) /\
    rs = map Some (rev (content root levels bstore)) ++ [None].
Proof. exact scan_backward. Qed.
Print Assumptions C01_scan_backward.
