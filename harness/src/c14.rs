//! C14: varint framing of lengths.
use crate::util::*;
use grenad::verif::{varint_decode32, varint_encode32};
use std::io::Write;

fn one<W: Write>(c: &mut Cases<W>, v: u32, rest: &[u8]) {
    let mut buf = [0u8; 10];
    let enc = varint_encode32(&mut buf, v).to_vec();
    let mut data = enc.clone();
    data.extend_from_slice(rest);
    let mut val = 0u32;
    let n = varint_decode32(&data, &mut val);
    c.begin("varint");
    c.line(&format!("v {}", v));
    c.line(&format!("rest {}", hex(rest)));
    c.line(&format!("enc {}", hex(&enc)));
    c.line(&format!("dec {} {}", val, n));
    c.end();
    c.bump(&format!("varint.len{}", enc.len()), 1);
    if v >= 128 {
        c.nontrivial(&v.to_le_bytes());
    }
}

pub fn generate<W: Write>(c: &mut Cases<W>, rng: &mut Rng, thorough: bool) {
    // every framing boundary neighbourhood, all powers of two
    for k in 0..=32u32 {
        let centre: u64 = 1u64 << k;
        let span = if [7, 14, 21, 28, 32].contains(&k) { 64 } else { 2 };
        for d in 0..=(2 * span) {
            let x = centre as i64 + d as i64 - span as i64;
            if x >= 0 && x <= u32::MAX as i64 {
                let rest: Vec<u8> = (0..rng.below(4)).map(|_| rng.next() as u8).collect();
                one(c, x as u32, &rest);
            }
        }
    }
    let n = if thorough { 400_000 } else { 20_000 };
    for _ in 0..n {
        // stratified: uniform over bit lengths, then uniform within
        let bits = rng.range(0, 32);
        let v = if bits == 0 { 0 } else { (rng.next() & ((1u64 << bits) - 1)) as u32 };
        let rest: Vec<u8> = match rng.below(4) {
            0 => vec![],
            1 => vec![0xff; 6],
            2 => vec![0x80; 3],
            _ => (0..rng.below(8)).map(|_| rng.next() as u8).collect(),
        };
        one(c, v, &rest);
    }
}

/// Exhaustive sweep of all 2^32 values through the implementation, checking the property
/// statement itself (round trip, consumed length, 1..=5 bytes, expected byte count).
/// Returns the first failing value, if any.
pub fn sweep_all() -> Option<u32> {
    let threads = 16u64;
    let handles: Vec<_> = (0..threads)
        .map(|t| {
            std::thread::spawn(move || {
                let lo = (1u64 << 32) * t / threads;
                let hi = (1u64 << 32) * (t + 1) / threads;
                let mut buf = [0u8; 10];
                let mut data = [0xffu8; 12];
                for v in lo..hi {
                    let v = v as u32;
                    let enc = varint_encode32(&mut buf, v);
                    let l = enc.len();
                    let expect = 1
                        + (v >= 1 << 7) as usize
                        + (v >= 1 << 14) as usize
                        + (v >= 1 << 21) as usize
                        + (v >= 1 << 28) as usize;
                    data[..l].copy_from_slice(enc);
                    data[l] = 0xff;
                    let mut val = 0u32;
                    let n = varint_decode32(&data[..l + 1], &mut val);
                    if l != expect || n != l || val != v {
                        return Some(v);
                    }
                }
                None
            })
        })
        .collect();
    let mut bad = None;
    for h in handles {
        if let Some(v) = h.join().unwrap() {
            bad = Some(bad.map_or(v, |b: u32| b.min(v)));
        }
    }
    bad
}

/// entries whose two length prefixes are both long: a 2^21-byte key (four-byte prefix) with a 2^28-byte
/// value (five-byte prefix) — nine bytes of prefixes in front of one entry — and, in the thorough tier,
/// the mirrored combination; through the real writer and reader; implementation only (a 268 MB list is
/// beyond the executable model, the theorems C14_lengths / C14_entry cover every length)
pub fn big_entry(thorough: bool) -> Result<(), String> {
    let combos: &[(usize, usize)] = if thorough { &[(1 << 21, 1 << 28), ((1 << 28) + 3, (1 << 21) + 1)] } else { &[(1 << 21, 1 << 28)] };
    for &(kl, vl) in combos {
        big_entry_one(kl, vl)?;
    }
    Ok(())
}

fn big_entry_one(kl: usize, vl: usize) -> Result<(), String> {
    use grenad::{Reader, Writer};
    let key: Vec<u8> = (0..kl).map(|i| (i % 253) as u8).collect();
    let val: Vec<u8> = (0..vl).map(|i| (i % 251) as u8 ^ 0xA5).collect();
    let mut w = Writer::memory();
    w.insert(&key, &val).map_err(|e| e.to_string())?;
    w.insert([0xffu8, 0xff], b"x").map_err(|e| e.to_string())?;
    let file = w.into_inner().map_err(|e| e.to_string())?;
    let mut c = Reader::new(std::io::Cursor::new(file)).map_err(|e| e.to_string())?.into_cursor().map_err(|e| e.to_string())?;
    match c.move_on_next().map_err(|e| e.to_string())? {
        Some((k, v)) if k == &key[..] && v == &val[..] => {}
        other => return Err(format!("first entry wrong (key {} bytes, value {} bytes inserted): {:?}", kl, vl, other.map(|(k, v)| (k.len(), v.len())))),
    }
    match c.move_on_next().map_err(|e| e.to_string())? {
        Some((k, v)) if k == [0xffu8, 0xff] && v == b"x" => Ok(()),
        other => Err(format!("second entry wrong: {:?}", other.map(|(k, v)| (k.to_vec(), v.len())))),
    }
}
