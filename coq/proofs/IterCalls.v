(* C04 / C05, call by call: what the collecting loop returns up to the first None determines every single
   call of next.  If collect returns l then, for every n <= length l, the first n calls of next return
   Some of the first n entries of l, one after the other, and call number length l + 1 returns None.
   Generic in the iterator (any next function), so it applies to the four iterators over any cursor; the
   statement is about IterFault.calls, the function the fault theorems of C12 speak about. *)
From Coq Require Import List Lia.
From Grenad.model Require Import Base Block Reader Spec Iter.
From Grenad.proofs Require Import IterFault.
Import ListNotations.

Lemma collect_calls_prefix (next : iter -> outcome (iter * option entry)) :
  forall fuel it l, collect next fuel it = Done l ->
  forall n, (n <= length l)%nat ->
  exists it', calls next n it = Done (it', map Some (firstn n l)).
Proof.
  induction fuel as [|f IH]; intros it l E n Hn; cbn [collect] in E; [discriminate|].
  destruct n as [|n]; [exists it; reflexivity|].
  cbn [calls]. destruct (next it) as [[it1 e]| |] eqn:En; cbn [bind] in E |- *; try discriminate.
  destruct e as [kv|].
  - destruct (collect next f it1) as [rest| |] eqn:Ec; cbn [bind] in E; try discriminate.
    injection E as <-. cbn [length] in Hn.
    destruct (IH it1 rest Ec n ltac:(lia)) as [it' Hc]. exists it'.
    cbn [fst snd]. rewrite Hc. cbn [bind fst snd firstn map]. reflexivity.
  - injection E as <-. cbn [length] in Hn. lia.
Qed.

Lemma collect_calls_end (next : iter -> outcome (iter * option entry)) :
  forall fuel it l, collect next fuel it = Done l ->
  exists it', calls next (S (length l)) it = Done (it', map Some l ++ [None]).
Proof.
  induction fuel as [|f IH]; intros it l E; cbn [collect] in E; [discriminate|].
  cbn [calls]. destruct (next it) as [[it1 e]| |] eqn:En; cbn [bind] in E |- *; try discriminate.
  destruct e as [kv|].
  - destruct (collect next f it1) as [rest| |] eqn:Ec; cbn [bind] in E; try discriminate.
    injection E as <-. destruct (IH it1 rest Ec) as [it' Hc]. exists it'.
    cbn [fst snd length]. rewrite Hc. cbn [bind fst snd map app]. reflexivity.
  - injection E as <-. exists it1. cbn [length calls bind fst snd map app]. reflexivity.
Qed.

(* packaged: the n-th call (counted from 0) of an iterator whose collecting loop returns l *)
Theorem collect_determines_calls (next : iter -> outcome (iter * option entry)) fuel it l :
  collect next fuel it = Done l ->
  (forall n, (n <= length l)%nat -> exists it', calls next n it = Done (it', map Some (firstn n l))) /\
  (exists it', calls next (S (length l)) it = Done (it', map Some l ++ [None])).
Proof. intro E. split; [apply (collect_calls_prefix next fuel it l E)|apply (collect_calls_end next fuel it l E)]. Qed.

(* ---- the four iterators over a well-formed store, call by call ---- *)
From Grenad.proofs Require Import ReaderRefine IterRefine.

Definition CallByCall (next : iter -> outcome (iter * option entry)) (l : list entry) : Prop :=
  ((forall n, (n <= length l)%nat -> exists it', calls next n iter_new = Done (it', map Some (firstn n l))) /\
   (exists it', calls next (S (length l)) iter_new = Done (it', map Some l ++ [None]))).

Theorem range_calls ld root levels bstore : wf_store ld root levels bstore -> forall lo hi,
  CallByCall (range_next (cstep ld root levels) lo hi) (range_spec (content root levels bstore) lo hi).
Proof.
  intros W lo hi. unfold CallByCall. apply (collect_determines_calls _ (S (S (length (content root levels bstore)))) iter_new).
  apply (R_range_fwd ld root levels bstore W). lia.
Qed.

Theorem rev_range_calls ld root levels bstore : wf_store ld root levels bstore -> forall lo hi,
  CallByCall (rev_range_next (cstep ld root levels) lo hi) (rev (range_spec (content root levels bstore) lo hi)).
Proof.
  intros W lo hi. unfold CallByCall. apply (collect_determines_calls _ (S (S (length (content root levels bstore)))) iter_new).
  apply (R_range_bwd ld root levels bstore W). lia.
Qed.

Theorem prefix_calls ld root levels bstore : wf_store ld root levels bstore -> forall p,
  CallByCall (prefix_next (cstep ld root levels) p) (prefix_spec (content root levels bstore) p).
Proof.
  intros W p. unfold CallByCall. apply (collect_determines_calls _ (S (S (length (content root levels bstore)))) iter_new).
  apply (R_prefix_fwd ld root levels bstore W). lia.
Qed.

Theorem rev_prefix_calls ld root levels bstore : wf_store ld root levels bstore -> forall p,
  Forall (fun e => wf_bytes (fst e)) (content root levels bstore) -> wf_bytes p ->
  CallByCall (rev_prefix_next (cstep ld root levels) p) (rev (prefix_spec (content root levels bstore) p)).
Proof.
  intros W p Hwf Hp. unfold CallByCall. apply (collect_determines_calls _ (S (S (length (content root levels bstore)))) iter_new).
  apply (R_prefix_bwd ld root levels bstore W); [exact Hwf|exact Hp|lia].
Qed.

(* ---- composed with the fault theorems of C12: over the loader that fails its j-th load, every call
   returns what the specification says or the run of calls ends in exactly the injected error ---- *)
From Coq Require Import NArith.
From Grenad.model Require Import IoModel.

Definition FaultCallByCall (fnext : iter -> outcome (iter * option entry)) (l : list entry) : Prop :=
  (forall n, (n <= length l)%nat ->
     (exists it', calls fnext n iter_new = Done (it', map Some (firstn n l))) \/
     calls fnext n iter_new = Fail (EIo IO_INJECTED)) /\
  ((exists it', calls fnext (S (length l)) iter_new = Done (it', map Some l ++ [None])) \/
   calls fnext (S (length l)) iter_new = Fail (EIo IO_INJECTED)).

Lemma calls_fault_cases ld j root levels
  (mk : (cstate -> op -> outcome (cstate * option entry)) -> iter -> outcome (iter * option entry)) n it rs :
  (forall it', FaultSplit ld j root levels mk n it it' rs) ->
  (exists it', calls (mk (cstep ld root levels)) n it = Done (it', rs)) ->
  (exists it', calls (mk (cstep (faulty_load ld j) root levels)) n it = Done (it', rs)) \/
  calls (mk (cstep (faulty_load ld j) root levels)) n it = Fail (EIo IO_INJECTED).
Proof.
  intros H [it' E]. destruct (H it' E) as (Hle & Hs & Hf).
  destruct (N.ltb_spec j (cs_loads (it_st it))) as [Hlt|Hge]; [left; exists it'; apply Hs; left; exact Hlt|].
  destruct (N.leb_spec (cs_loads (it_st it')) j) as [Hle2|Hgt]; [left; exists it'; apply Hs; right; exact Hle2|].
  right. apply Hf. split; assumption.
Qed.

Lemma fault_call_by_call ld j root levels
  (mk : (cstate -> op -> outcome (cstate * option entry)) -> iter -> outcome (iter * option entry)) l :
  (forall n it it' rs, FaultSplit ld j root levels mk n it it' rs) ->
  CallByCall (mk (cstep ld root levels)) l -> FaultCallByCall (mk (cstep (faulty_load ld j) root levels)) l.
Proof.
  intros H [Hp He]. split.
  - intros n Hn. apply (calls_fault_cases ld j root levels mk); [intro it'; apply H|apply Hp; exact Hn].
  - apply (calls_fault_cases ld j root levels mk); [intro it'; apply H|exact He].
Qed.

Theorem range_fault_calls ld j root levels bstore : wf_store ld root levels bstore -> forall lo hi,
  FaultCallByCall (range_next (cstep (faulty_load ld j) root levels) lo hi) (range_spec (content root levels bstore) lo hi).
Proof.
  intros W lo hi.
  exact (fault_call_by_call ld j root levels (fun s => range_next s lo hi) _
           (fun n it it' rs => range_iterator_fault ld j root levels lo hi n it it' rs)
           (range_calls ld root levels bstore W lo hi)).
Qed.

Theorem rev_range_fault_calls ld j root levels bstore : wf_store ld root levels bstore -> forall lo hi,
  FaultCallByCall (rev_range_next (cstep (faulty_load ld j) root levels) lo hi) (rev (range_spec (content root levels bstore) lo hi)).
Proof.
  intros W lo hi.
  exact (fault_call_by_call ld j root levels (fun s => rev_range_next s lo hi) _
           (fun n it it' rs => rev_range_iterator_fault ld j root levels lo hi n it it' rs)
           (rev_range_calls ld root levels bstore W lo hi)).
Qed.

Theorem prefix_fault_calls ld j root levels bstore : wf_store ld root levels bstore -> forall p,
  FaultCallByCall (prefix_next (cstep (faulty_load ld j) root levels) p) (prefix_spec (content root levels bstore) p).
Proof.
  intros W p.
  exact (fault_call_by_call ld j root levels (fun s => prefix_next s p) _
           (fun n it it' rs => prefix_iterator_fault ld j root levels p n it it' rs)
           (prefix_calls ld root levels bstore W p)).
Qed.

Theorem rev_prefix_fault_calls ld j root levels bstore : wf_store ld root levels bstore -> forall p,
  Forall (fun e => wf_bytes (fst e)) (content root levels bstore) -> wf_bytes p ->
  FaultCallByCall (rev_prefix_next (cstep (faulty_load ld j) root levels) p) (rev (prefix_spec (content root levels bstore) p)).
Proof.
  intros W p Hwf Hp.
  exact (fault_call_by_call ld j root levels (fun s => rev_prefix_next s p) _
           (fun n it it' rs => rev_prefix_iterator_fault ld j root levels p n it it' rs)
           (rev_prefix_calls ld root levels bstore W p Hwf Hp)).
Qed.
