(* C11 / C12 on the reader side.  The cursor consults the source only through block loads:
   (C11) a loader reading every block under its own benign schedule of short reads and interruptions
   is, on the stored blocks, the plain loader, so the file is the same well-formed store and every
   cursor and iterator result is the same;
   (C12) with a loader that fails its j-th load, every operation that does not reach load j is
   unchanged and the operation that reaches it returns exactly the injected error. *)
From Coq Require Import Lia ZArith ZifyN ZifyBool ZifyNat.
From Grenad.model Require Import Base Block Reader Spec IoModel.
From Grenad.proofs Require Import BaseProofs IoProofs ReaderRefine.
Ltac Zify.zify_post_hook ::= Z.div_mod_to_equations.

(* ---- a well-formed store only constrains the loader on the stored offsets ---- *)
Lemma wf_store_ext ld1 ld2 root levels bs :
  (forall off x, bs off = Some x -> forall ord, ld2 ord off = ld1 ord off) ->
  wf_store ld1 root levels bs -> wf_store ld2 root levels bs.
Proof.
  intros Hext [H1 H2 H3 H4 H5 H6]. constructor; try assumption.
  intros off b es ridx E. destruct (H1 off b es ridx E) as (A & B & C). split; [|auto].
  intro ord. rewrite (Hext off _ E ord). apply A.
Qed.

(* every load under its own schedule and its own sequence of buffer sizes *)
Definition ld_sched (dec : N -> bytes -> outcome bytes) (file : bytes) (codec : N)
  (scheds : N -> list resp) (reqs : N -> list N) : N -> N -> outcome block :=
  fun ord off => load_block_sched dec file codec (scheds ord) (reqs ord) off.

Lemma load_done_header dec file codec ord off b : load_block dec file codec ord off = Done b -> 8 <= len (skipnN off file).
Proof. unfold load_block. destruct (N.ltb_spec (len (skipnN off file)) 8); [discriminate|intros _; assumption]. Qed.

Theorem wf_store_sched dec file codec scheds reqs root levels bs :
  (forall ord, benign (scheds ord)) -> (forall ord, Forall (fun r => 1 <= r) (reqs ord)) ->
  wf_store (load_block dec file codec) root levels bs ->
  wf_store (ld_sched dec file codec scheds reqs) root levels bs.
Proof.
  intros Hb Hq W. apply (wf_store_ext (load_block dec file codec)); [|exact W].
  intros off [[b es] ridx] E ord. unfold ld_sched.
  destruct W as [H1 _ _ _ _ _]. destruct (H1 off b es ridx E) as (A & _ & _).
  apply load_block_sched_eq; [apply Hb|apply Hq|]. exact (load_done_header _ _ _ ord _ _ (A ord)).
Qed.

(* ================= C12: a loader that fails its j-th load ================= *)
Section Faulty.
  Variable ld : N -> N -> outcome block.
  Variable j : N.
  Notation fld := (faulty_load ld j).
  Notation ERR := (Fail (EIo IO_INJECTED)).

  (* good = the computation over ld starting with load counter n, bad = the same over the faulty
     loader: when the good one returns a with counter cnt a, the bad one returns the same if load j is
     not among loads n .. cnt a - 1, and the injected error if it is *)
  Definition agrees {A} (cnt : A -> N) (n : N) (good bad : outcome A) : Prop :=
    match good with
    | Done a => n <= cnt a /\ (j < n \/ cnt a <= j -> bad = Done a) /\ (n <= j < cnt a -> bad = ERR)
    | _ => True
    end.

  Lemma agrees_same {A} (cnt : A -> N) n (o : outcome A) : (forall a, o = Done a -> cnt a = n) -> agrees cnt n o o.
  Proof. intro H. unfold agrees. destruct o as [a| |]; auto. specialize (H a eq_refl). split; [lia|]. split; [auto|lia]. Qed.

  Lemma agrees_bind {A B} (cA : A -> N) (cB : B -> N) n g b (k1 k2 : A -> outcome B) :
    agrees cA n g b -> (forall a, g = Done a -> agrees cB (cA a) (k1 a) (k2 a)) ->
    agrees cB n (bind g k1) (bind b k2).
  Proof.
    unfold agrees. intros Hg Hk. destruct g as [a| |]; cbn [bind]; auto.
    destruct Hg as (G1 & G2 & G3). specialize (Hk a eq_refl). destruct (k1 a) as [r| |]; auto.
    destruct Hk as (K1 & K2 & K3). split; [lia|]. split.
    - intro H. rewrite G2 by lia. cbn [bind]. apply K2. lia.
    - intro H. destruct (N.lt_ge_cases j (cA a)) as [Hlt|Hge].
      + rewrite G3 by lia. reflexivity.
      + rewrite G2 by lia. cbn [bind]. apply K3. lia.
  Qed.

  Lemma agrees_pure_bind {A B} (cB : B -> N) n (p : outcome A) (k1 k2 : A -> outcome B) :
    (forall a, p = Done a -> agrees cB n (k1 a) (k2 a)) -> agrees cB n (bind p k1) (bind p k2).
  Proof. intro H. destruct p as [a| |]; cbn [bind]; [apply H; reflexivity|exact I|exact I]. Qed.

  Lemma agrees_map {A B} (cA : A -> N) (cB : B -> N) n g b (h : A -> B) :
    (forall a, cB (h a) = cA a) -> agrees cA n g b -> agrees cB n (omap h g) (omap h b).
  Proof.
    unfold agrees. intros Hc Hg. destruct g as [a| |]; cbn [omap]; auto. destruct Hg as (G1 & G2 & G3).
    rewrite Hc. split; [exact G1|]. split; intro H; [rewrite (G2 H)|rewrite (G3 H)]; reflexivity.
  Qed.

  Lemma agrees_load_bind {B} (cB : B -> N) n off (k1 k2 : block -> outcome B) :
    (forall b, agrees cB (n + 1) (k1 b) (k2 b)) -> agrees cB n (do b <- ld n off; k1 b) (do b <- fld n off; k2 b).
  Proof.
    intro H. unfold agrees, faulty_load. destruct (ld n off) as [b| |] eqn:E; cbn [bind]; auto.
    specialize (H b). unfold agrees in H. destruct (k1 b) as [r| |]; auto. destruct H as (K1 & K2 & K3).
    split; [lia|]. destruct (N.eqb_spec n j) as [->|Hne].
    - split; [intro Hx; lia|reflexivity].
    - cbn [bind]. split; intro Hx; [apply K2|apply K3]; lia.
  Qed.

  Variables (root levels : N).
  Notation cnt3 := (fun r : list (N * bcur) * N * bool => snd (fst r)).

  Lemma iter_walk_agrees m : forall inner n jump,
    agrees (fun r : list (N * bcur) * N * bool => snd (fst r)) n (iter_walk ld m n jump inner) (iter_walk fld m n jump inner).
  Proof.
    induction inner as [|[off cur] rest IH]; intros n jump; cbn [iter_walk].
    - apply agrees_same. intros a H. injection H as <-. reflexivity.
    - apply (agrees_bind (fun r : N * bcur * N => snd r) _ n).
      + destruct (jump =? off).
        * apply agrees_same. intros a H. injection H as <-. reflexivity.
        * apply agrees_load_bind. intro b. apply agrees_same. intros a H. injection H as <-. reflexivity.
      + intros [[off' cur'] n'] _. cbv beta iota. cbn [snd]. apply agrees_pure_bind. intros [cur'' e] _. cbv beta iota.
        destruct e as [[k ob]|].
        * apply agrees_pure_bind. intros j0 _.
          apply (agrees_bind (fun r : list (N * bcur) * N * bool => snd (fst r)) _ n'); [apply IH|].
          intros [[rest' n''] ok] _. cbv beta iota. cbn [fst snd]. apply agrees_same. intros a H. injection H as <-. reflexivity.
        * apply agrees_same. intros a H. injection H as <-. reflexivity.
  Qed.

  Lemma initial_blocks_agrees m : forall depth n jump,
    agrees (fun r : option (list (N * bcur)) * N => snd r) n (initial_blocks ld m depth n jump) (initial_blocks fld m depth n jump).
  Proof.
    induction depth as [|d IH]; intros n jump; cbn [initial_blocks].
    - apply agrees_same. intros a H. injection H as <-. reflexivity.
    - apply agrees_load_bind. intro b. apply agrees_pure_bind. intros [c e] _. cbv beta iota.
      destruct e as [[k ob]|].
      + apply agrees_pure_bind. intros j0 _.
        apply (agrees_bind (fun r : option (list (N * bcur)) * N => snd r) _ (n + 1)); [apply IH|].
        intros [rest n'] _. cbv beta iota. cbn [snd]. destruct rest; apply agrees_same; intros a H; injection H as <-; reflexivity.
      + apply agrees_same. intros a H. injection H as <-. reflexivity.
  Qed.

  Lemma rec_rev_agrees m : forall rb n,
    agrees (fun r : list (N * bcur) * option entry * N => snd r) n (rec_rev ld m n rb) (rec_rev fld m n rb).
  Proof.
    induction rb as [|[off cur] head IH]; intro n; cbn [rec_rev].
    - apply agrees_same. intros a H. injection H as <-. reflexivity.
    - apply agrees_pure_bind. intros [cur' e] _. cbv beta iota. destruct e as [kv|].
      + apply agrees_pure_bind. intros e' _. apply agrees_same. intros a H. injection H as <-. reflexivity.
      + apply (agrees_bind (fun r : list (N * bcur) * option entry * N => snd r) _ n); [apply IH|].
        intros [[head' pe] n'] _. cbv beta iota. cbn [snd]. destruct pe as [[k ob]|].
        * apply agrees_pure_bind. intros j0 _. apply agrees_load_bind. intro b.
          apply agrees_pure_bind. intros [c3 e3] _. cbv beta iota. apply agrees_same. intros a H. injection H as <-. reflexivity.
        * apply agrees_same. intros a H. injection H as <-. reflexivity.
  Qed.

  Notation cnt_i := (fun r : option (list (N * bcur)) * option entry * N => snd r).

  Lemma idx_iter_agrees m inner n :
    agrees (fun r : option (list (N * bcur)) * option entry * N => snd r) n
           (idx_iter ld root levels m inner n) (idx_iter fld root levels m inner n).
  Proof.
    unfold idx_iter. destruct inner as [l|].
    - apply (agrees_bind (fun r : list (N * bcur) * N * bool => snd (fst r)) _ n); [apply iter_walk_agrees|].
      intros [[l' n'] ok] _. cbv beta iota. cbn [fst snd]. destruct ok.
      + apply agrees_pure_bind. intros e _. apply agrees_same. intros a H. injection H as <-. reflexivity.
      + apply agrees_same. intros a H. injection H as <-. reflexivity.
    - apply (agrees_bind (fun r : option (list (N * bcur)) * N => snd r) _ n); [apply initial_blocks_agrees|].
      intros [i n'] _. cbv beta iota. cbn [snd]. destruct i as [l|].
      + apply agrees_pure_bind. intros e _. apply agrees_same. intros a H. injection H as <-. reflexivity.
      + apply agrees_same. intros a H. injection H as <-. reflexivity.
  Qed.

  Lemma idx_rec_agrees m inner n :
    agrees (fun r : option (list (N * bcur)) * option entry * N => snd r) n
           (idx_rec ld root levels m inner n) (idx_rec fld root levels m inner n).
  Proof.
    unfold idx_rec.
    apply (agrees_bind (fun r : option (list (N * bcur)) * N => snd r) _ n).
    - destruct inner; [apply agrees_same; intros a H; injection H as <-; reflexivity|apply initial_blocks_agrees].
    - intros [inner' n0] _. cbv beta iota. cbn [snd]. destruct inner' as [l|].
      + apply (agrees_bind (fun r : list (N * bcur) * option entry * N => snd r) _ n0); [apply rec_rev_agrees|].
        intros [[rl e] n'] _. cbv beta iota. cbn [snd]. apply agrees_same. intros a H. injection H as <-. reflexivity.
      + apply agrees_same. intros a H. injection H as <-. reflexivity.
  Qed.

  Lemma load_data_agrees ob n :
    agrees (fun r : bcur * N => snd r) n (load_data ld ob n) (load_data fld ob n).
  Proof.
    unfold load_data. apply agrees_pure_bind. intros j0 _. apply agrees_load_bind. intro b.
    apply agrees_same. intros a H. injection H as <-. reflexivity.
  Qed.

  Notation cnt_c := (fun r : cstate * option entry => cs_loads (fst r)).

  Lemma c_first_last_agrees m st :
    agrees (fun r : cstate * option entry => cs_loads (fst r)) (cs_loads st)
           (c_first_last ld root levels m st) (c_first_last fld root levels m st).
  Proof.
    unfold c_first_last.
    apply (agrees_bind (fun r : option (list (N * bcur)) * option entry * N => snd r) _ (cs_loads st)); [apply idx_iter_agrees|].
    intros [[inner e] n] _. cbv beta iota. cbn [snd]. destruct e as [[k ob]|].
    - apply (agrees_bind (fun r : bcur * N => snd r) _ n); [apply load_data_agrees|].
      intros [c n'] _. cbv beta iota. cbn [snd]. apply agrees_pure_bind. intros [c' e'] _. cbv beta iota.
      apply agrees_same. intros a H. injection H as <-. reflexivity.
    - apply agrees_same. intros a H. injection H as <-. reflexivity.
  Qed.

  Lemma c_next_prev_agrees m st :
    agrees (fun r : cstate * option entry => cs_loads (fst r)) (cs_loads st)
           (c_next_prev ld root levels m st) (c_next_prev fld root levels m st).
  Proof.
    unfold c_next_prev. destruct (cs_data st) as [c|]; [|apply c_first_last_agrees].
    apply agrees_pure_bind. intros [c' e] _. cbv beta iota. destruct e as [kv|].
    - apply agrees_same. intros a H. injection H as <-. reflexivity.
    - apply (agrees_bind (fun r : option (list (N * bcur)) * option entry * N => snd r) _ (cs_loads st)); [apply idx_rec_agrees|].
      intros [[inner ie] n] _. cbv beta iota. cbn [snd]. destruct ie as [[k ob]|].
      + apply (agrees_bind (fun r : bcur * N => snd r) _ n); [apply load_data_agrees|].
        intros [nc n'] _. cbv beta iota. cbn [snd]. apply agrees_pure_bind. intros [nc' e'] _. cbv beta iota.
        apply agrees_same. intros a H. injection H as <-. reflexivity.
      + apply agrees_same. intros a H. injection H as <-. reflexivity.
  Qed.

  Lemma c_ge_agrees q st :
    agrees (fun r : cstate * option entry => cs_loads (fst r)) (cs_loads st)
           (c_ge ld root levels q st) (c_ge fld root levels q st).
  Proof.
    unfold c_ge.
    apply (agrees_bind (fun r : option (list (N * bcur)) * option entry * N => snd r) _ (cs_loads st)); [apply idx_iter_agrees|].
    intros [[inner e] n] _. cbv beta iota. cbn [snd]. destruct e as [[k ob]|].
    - apply (agrees_bind (fun r : bcur * N => snd r) _ n); [apply load_data_agrees|].
      intros [c n'] _. cbv beta iota. cbn [snd]. apply agrees_pure_bind. intros [c' e'] _. cbv beta iota.
      apply agrees_same. intros a H. injection H as <-. reflexivity.
    - apply agrees_same. intros a H. injection H as <-. reflexivity.
  Qed.

  Lemma c_le_agrees q st :
    agrees (fun r : cstate * option entry => cs_loads (fst r)) (cs_loads st)
           (c_le ld root levels q st) (c_le fld root levels q st).
  Proof.
    unfold c_le.
    apply (agrees_bind (fun r : cstate * option entry => cs_loads (fst r)) _ (cs_loads st)); [apply c_ge_agrees|].
    intros [st1 e] _. cbv beta iota. cbn [fst]. destruct e as [[k v]|].
    - destruct (bytes_eqb k q); [apply agrees_same; intros a H; injection H as <-; reflexivity|apply c_next_prev_agrees].
    - apply (agrees_bind (fun r : cstate * option entry => cs_loads (fst r)) _ (cs_loads st1)); [apply c_first_last_agrees|].
      intros [st2 e2] _. cbv beta iota. cbn [fst]. apply agrees_same. intros a H. injection H as <-. reflexivity.
  Qed.

  Lemma c_eq_agrees q st :
    agrees (fun r : cstate * option entry => cs_loads (fst r)) (cs_loads st)
           (c_eq ld root levels q st) (c_eq fld root levels q st).
  Proof.
    unfold c_eq.
    apply (agrees_bind (fun r : cstate * option entry => cs_loads (fst r)) _ (cs_loads st)); [apply c_ge_agrees|].
    intros [st1 e] _. cbv beta iota. cbn [fst]. apply agrees_same. intros a H. injection H as <-. reflexivity.
  Qed.

  (* one cursor operation *)
  Theorem cstep_agrees st o :
    agrees (fun r : cstate * option entry => cs_loads (fst r)) (cs_loads st)
           (cstep ld root levels st o) (cstep fld root levels st o).
  Proof.
    destruct o; cbn [cstep].
    - apply c_first_last_agrees.
    - apply c_first_last_agrees.
    - apply c_next_prev_agrees.
    - apply c_next_prev_agrees.
    - apply c_ge_agrees.
    - apply c_le_agrees.
    - apply c_eq_agrees.
    - apply agrees_same. intros a H. injection H as <-. reflexivity.
    - apply agrees_pure_bind. intros e _. apply agrees_same. intros a H. injection H as <-. reflexivity.
  Qed.

  (* whole histories *)
  Theorem run_ops_agrees : forall ops st,
    agrees (fun r : cstate * list (option entry) => cs_loads (fst r)) (cs_loads st)
           (run_ops ld root levels st ops) (run_ops fld root levels st ops).
  Proof.
    induction ops as [|o ops IH]; intro st; cbn [run_ops].
    - apply agrees_same. intros a H. injection H as <-. reflexivity.
    - apply (agrees_bind (fun r : cstate * option entry => cs_loads (fst r)) _ (cs_loads st)); [apply cstep_agrees|].
      intros [st1 r1] _. cbn [fst].
      apply (agrees_bind (fun r : cstate * list (option entry) => cs_loads (fst r)) _ (cs_loads st1)); [apply IH|].
      intros [st2 rs] _. cbn [fst snd]. apply agrees_same. intros a H. injection H as <-. reflexivity.
  Qed.
End Faulty.

(* ---- packaged statements ---- *)
Theorem reader_fault_history ld j root levels ops st st' rs :
  run_ops ld root levels st ops = Done (st', rs) ->
  cs_loads st <= cs_loads st' /\
  (j < cs_loads st \/ cs_loads st' <= j -> run_ops (faulty_load ld j) root levels st ops = Done (st', rs)) /\
  (cs_loads st <= j < cs_loads st' -> run_ops (faulty_load ld j) root levels st ops = Fail (EIo IO_INJECTED)).
Proof. intro H. pose proof (run_ops_agrees ld j root levels ops st) as A. unfold agrees in A. rewrite H in A. exact A. Qed.

Theorem reader_fault_step ld j root levels st o st' r :
  cstep ld root levels st o = Done (st', r) ->
  cs_loads st <= cs_loads st' /\
  (j < cs_loads st \/ cs_loads st' <= j -> cstep (faulty_load ld j) root levels st o = Done (st', r)) /\
  (cs_loads st <= j < cs_loads st' -> cstep (faulty_load ld j) root levels st o = Fail (EIo IO_INJECTED)).
Proof. intro H. pose proof (cstep_agrees ld j root levels st o) as A. unfold agrees in A. rewrite H in A. exact A. Qed.

(* on a well-formed store no admissible operation panics or fails by itself, so under the faulty
   loader it either returns what it returns without the fault or returns the injected error *)
Theorem reader_fault_no_panic ld j root levels bs : wf_store ld root levels bs ->
  forall p st o, Rel root bs levels p st -> admissible p o ->
  exists st' r, cstep ld root levels st o = Done (st', r) /\
    (cstep (faulty_load ld j) root levels st o = Done (st', r) \/
     cstep (faulty_load ld j) root levels st o = Fail (EIo IO_INJECTED)).
Proof.
  intros W p st o HR Ha. destruct (R_step ld root levels bs W p st o HR Ha) as (st' & r & E & _).
  exists st', r. split; [exact E|]. destruct (reader_fault_step ld j root levels st o st' r E) as (A & B & C).
  destruct (N.lt_ge_cases j (cs_loads st)) as [H1|H1]; [left; apply B; lia|].
  destruct (N.lt_ge_cases j (cs_loads st')) as [H2|H2]; [right; apply C; lia|left; apply B; lia].
Qed.

(* ================= C11: opening under a schedule ================= *)
Lemma read_exact_src_eq f pos n sched : benign sched -> pos + n <= len f ->
  read_exact_src f pos n sched = Trailer.read_exact_at f pos n.
Proof.
  intros Hb Hle. unfold read_exact_src, Trailer.read_exact_at.
  destruct (N.ltb_spec (len f) (pos + n)); [lia|].
  destruct (read_exact_spec (S (length sched + N.to_nat n)) (mk_src f pos sched) n []) as (s' & E & _ & Hp & _).
  - exact Hb.
  - cbn [sr_sched]. lia.
  - unfold avail. cbn [sr_pos sr_data]. rewrite len_skipnN. lia.
  - rewrite E. cbn [app]. unfold avail. cbn [sr_pos sr_data] in *. rewrite Hp. reflexivity.
Qed.

Lemma read_exact_at_pos f pos n b p : Trailer.read_exact_at f pos n = Done (b, p) -> p = pos + n /\ pos + n <= len f.
Proof. unfold Trailer.read_exact_at. destruct (N.ltb_spec (len f) (pos + n)); [discriminate|]. intro E. injection E as _ <-. lia. Qed.

Theorem open_meta_sched_eq scheds f : (forall i, benign (scheds i)) -> open_meta_sched scheds f = Trailer.open_meta f.
Proof.
  intro Hb. unfold open_meta_sched, Trailer.open_meta, Trailer.seek_end.
  destruct (N.ltb_spec (len f) 4) as [H4|H4]; cbn [bind]; [reflexivity|].
  rewrite (read_exact_src_eq f (len f - 4) 4 (scheds 0) (Hb 0) ltac:(lia)).
  destruct (Trailer.read_exact_at f (len f - 4) 4) as [[b0 p0]| |]; cbn [bind fst snd]; try reflexivity.
  destruct (le_decode b0 =? Consts.MAGIC_V1).
  - change (Consts.METADATA_V1_SIZE + 4) with 21.
    destruct (N.ltb_spec (len f) 21) as [H21|H21]; cbn [bind]; [reflexivity|].
    rewrite (read_exact_src_eq f (len f - 21) 8 (scheds 1) (Hb 1) ltac:(lia)).
    destruct (Trailer.read_exact_at f (len f - 21) 8) as [[b1 p1]| |] eqn:E1; cbn [bind fst snd]; try reflexivity.
    apply read_exact_at_pos in E1. destruct E1 as [-> _].
    rewrite (read_exact_src_eq f (len f - 21 + 8) 1 (scheds 2) (Hb 2) ltac:(lia)).
    destruct (Trailer.read_exact_at f (len f - 21 + 8) 1) as [[b2 p2]| |] eqn:E2; cbn [bind fst snd]; try reflexivity.
    apply read_exact_at_pos in E2. destruct E2 as [-> _].
    destruct (Trailer.codec_known _); [|reflexivity].
    rewrite (read_exact_src_eq f (len f - 21 + 8 + 1) 8 (scheds 3) (Hb 3) ltac:(lia)). reflexivity.
  - destruct (le_decode b0 =? Consts.MAGIC_V2); [|reflexivity].
    change (Consts.METADATA_V2_SIZE + 4) with 22.
    destruct (N.ltb_spec (len f) 22) as [H22|H22]; cbn [bind]; [reflexivity|].
    rewrite (read_exact_src_eq f (len f - 22) 8 (scheds 1) (Hb 1) ltac:(lia)).
    destruct (Trailer.read_exact_at f (len f - 22) 8) as [[b1 p1]| |] eqn:E1; cbn [bind fst snd]; try reflexivity.
    apply read_exact_at_pos in E1. destruct E1 as [-> _].
    rewrite (read_exact_src_eq f (len f - 22 + 8) 1 (scheds 2) (Hb 2) ltac:(lia)).
    destruct (Trailer.read_exact_at f (len f - 22 + 8) 1) as [[b2 p2]| |] eqn:E2; cbn [bind fst snd]; try reflexivity.
    apply read_exact_at_pos in E2. destruct E2 as [-> _].
    destruct (Trailer.codec_known _); [|reflexivity].
    rewrite (read_exact_src_eq f (len f - 22 + 8 + 1) 8 (scheds 3) (Hb 3) ltac:(lia)).
    destruct (Trailer.read_exact_at f (len f - 22 + 8 + 1) 8) as [[b3 p3]| |] eqn:E3; cbn [bind fst snd]; try reflexivity.
    apply read_exact_at_pos in E3. destruct E3 as [-> _].
    rewrite (read_exact_src_eq f (len f - 22 + 8 + 1 + 8) 1 (scheds 4) (Hb 4) ltac:(lia)). reflexivity.
Qed.
