(* C01 — Write/read round trip is exact, ordered, complete for every configuration.
   Statements only.  C01_roundtrip (at the end) is the whole-file statement on the models: it
   composes the block-level round trip with the writer tree invariant W (WriterTree, WriterStore)
   and the reader refinement R (ReaderRefine); C01_roundtrip_total adds progress (WriterProgress):
   on such an input the writer model never panics or fails, so no hypothesis about the run remains.
   What remains hypothetical is physical: the file and every block buffer are shorter than 2^64
   bytes, the input has fewer than 2^32 - 1 entries (a block footer counts its restart offsets in a
   u32), the codec never fails and decompress inverts it.  The empty file has its own
   theorem (C01_empty_file). *)
From Grenad.model Require Import Base Block Trailer Spec Format.
From Grenad.proofs Require Import BlockProofs FormatProofs TrailerProofs.

(* every block: strictly ascending entries (any lengths up to u32::MAX, empty key, empty values)
   inserted into a fresh block writer, finished, parsed and decoded come back exactly, in order *)
Theorem C01_block_roundtrip : forall interval es,
  sorted_strictb (map fst es) = true -> entries_ok es -> len (payload_of es) < 2^64 ->
  exists w, bw_insert_all (bw_new interval) es = Done w /\
    (bw_noffsets w <= U32_MAX ->
     exists buf b, bw_finish w = Done buf /\ len buf = bw_size w /\ parse_block buf = Done b /\
       block_entries b = Done (with_starts es 0) /\ offsets_ok interval b (with_starts es 0) = true).
Proof. exact block_roundtrip. Qed.
Print Assumptions C01_block_roundtrip.

(* the trailer: whatever the body, the file opens and reports the written count, codec, levels *)
Theorem C01_open_reports_trailer : forall body m, wf_meta m -> open_meta (body ++ trailer_bytes m) = Done m.
Proof. exact open_written. Qed.
Print Assumptions C01_open_reports_trailer.

Example C01_block_example :
  exists w buf b, bw_insert_all (bw_new 2) [([], [1]); ([0], []); ([0; 255], [2; 3]); ([1], [4])] = Done w /\
    bw_finish w = Done buf /\ parse_block buf = Done b /\
    omap (map snd) (block_entries b) = Done [([], [1]); ([0], []); ([0; 255], [2; 3]); ([1], [4])].
Proof. eexists. eexists. eexists. vm_compute. repeat split; reflexivity. Qed.

(* ================= scans of a whole well-formed store of ANY index depth (wf_store, content: see C03.v):
   move_on_next from a fresh cursor returns exactly the content in order and then None; move_on_prev
   returns it in reverse and then None — nothing lost, duplicated or reordered ================= *)
From Grenad.model Require Import Reader.
From Grenad.proofs Require Import ReaderRefine.

Theorem C01_scan_forward : forall ld root levels bstore, wf_store ld root levels bstore ->
  (0 < length (content root levels bstore))%nat ->
  exists st' rs, run_ops ld root levels cs_fresh (repeat ONext (S (length (content root levels bstore)))) = Done (st', rs) /\
    rs = map Some (content root levels bstore) ++ [None].
Proof. exact scan_forward. Qed.
Print Assumptions C01_scan_forward.

Theorem C01_scan_backward : forall ld root levels bstore, wf_store ld root levels bstore ->
  (0 < length (content root levels bstore))%nat ->
  exists st' rs, run_ops ld root levels cs_fresh (repeat OPrev (S (length (content root levels bstore)))) = Done (st', rs) /\
    rs = map Some (rev (content root levels bstore)) ++ [None].
Proof. exact scan_backward. Qed.
Print Assumptions C01_scan_backward.

(* ================= the whole file, end to end on the models =================
   ANY configuration (codec with decompress inverting compress, level, block size, interval >= 1,
   index levels 0..255) and ANY non-empty strictly ascending entry sequence on which the writer
   model finishes: the file opens and reports exactly the written trailer — entry count = number of
   inserts, the configured codec — and from a fresh cursor move_on_next returns exactly the inserted
   entries in order and then None, move_on_prev exactly their reverse and then None.
   (mem_ok: every block buffer is shorter than 2^64 bytes, as any Vec is.) *)
From Grenad.model Require Import Writer.
From Grenad.proofs Require Import WriterStore.

Theorem C01_roundtrip : forall compress decompress c,
  (forall b z, compress (wc_codec c) (wc_level c) b = Done z -> decompress (wc_codec c) z = Done b) ->
  forall es i s lg m, wc_levels c < 256 -> 1 <= wc_interval c -> wc_codec c <= 5 ->
  w_run_gen vsink vs_wr vs_fl vs_count compress c vs_empty es = (i, Done (s, lg, m)) ->
  es <> [] -> sorted_strictb (map fst es) = true ->
  len (vs_bytes s) < 2^64 -> mem_ok lg -> len es < 2^64 ->
  open_meta (vs_bytes s) = Done m /\ m_count m = len es /\ m_codec m = wc_codec c /\
  let ld := load_block decompress (vs_bytes s) (m_codec m) in
  (exists st rs, run_ops ld (m_root m) (m_levels m) cs_fresh (repeat ONext (S (length es))) = Done (st, rs) /\
                 rs = map Some es ++ [None]) /\
  (exists st rs, run_ops ld (m_root m) (m_levels m) cs_fresh (repeat OPrev (S (length es))) = Done (st, rs) /\
                 rs = map Some (rev es) ++ [None]).
Proof. exact written_file_roundtrip. Qed.
Print Assumptions C01_roundtrip.

(* the hypotheses are satisfiable: a two-level file with one-entry blocks *)
Example C01_roundtrip_example :
  let c := mk_wcfg 0 0 1 1 2 in
  let es := [([], [1]); ([0], []); ([0; 255], [2; 3]); ([1], [4]); ([1; 0], [5])] in
  match w_run_gen vsink vs_wr vs_fl vs_count compress_none c vs_empty es with
  | (_, Done (s, lg, m)) =>
      sorted_strictb (map fst es) && (len (vs_bytes s) <? 2^64) &&
      forallb (fun e => len (em_bytes e) <? 2^64) lg && (6 <=? len lg) && (m_levels m =? 2)
  | _ => false
  end = true.
Proof. vm_compute. reflexivity. Qed.

(* ================= the same without assuming that the writer finishes =================
   every insert and the final flush return on a strictly ascending input: the order assertion of
   every block insert (data and index) holds because every level of the tree is strictly ascending,
   the u32 footer count because no block holds more entries than the input *)
From Grenad.proofs Require Import BlockProofs WriterProgress.

Theorem C01_roundtrip_total : forall compress decompress c,
  (forall b z, compress (wc_codec c) (wc_level c) b = Done z -> decompress (wc_codec c) z = Done b) ->
  (forall b, exists z, compress (wc_codec c) (wc_level c) b = Done z) ->
  forall es, wc_levels c < 256 -> 1 <= wc_interval c -> wc_codec c <= 5 ->
  es <> [] -> sorted_strictb (map fst es) = true -> entries_ok es -> len es + 1 <= U32_MAX ->
  exists s lg m,
    w_run_gen vsink vs_wr vs_fl vs_count compress c vs_empty es = (len es, Done (s, lg, m)) /\
    (len (vs_bytes s) < 2^64 -> mem_ok lg ->
     open_meta (vs_bytes s) = Done m /\ m_count m = len es /\ m_codec m = wc_codec c /\
     let ld := load_block decompress (vs_bytes s) (m_codec m) in
     (exists st rs, run_ops ld (m_root m) (m_levels m) cs_fresh (repeat ONext (S (length es))) = Done (st, rs) /\
                    rs = map Some es ++ [None]) /\
     (exists st rs, run_ops ld (m_root m) (m_levels m) cs_fresh (repeat OPrev (S (length es))) = Done (st, rs) /\
                    rs = map Some (rev es) ++ [None])).
Proof. exact roundtrip_total. Qed.
Print Assumptions C01_roundtrip_total.

(* ================= the empty file =================
   finishing the writer without any insert yields a file that opens with entry count 0 and the
   configured codec, on which EVERY history of cursor operations returns None at every step, and all
   four iterators yield nothing (that this run finishes is the instance es = [] of progress) *)
From Grenad.model Require Import Iter.
From Grenad.proofs Require Import EmptyFile.

Theorem C01_empty_file : forall compress decompress c,
  (forall b z, compress (wc_codec c) (wc_level c) b = Done z -> decompress (wc_codec c) z = Done b) ->
  forall i s lg m, wc_levels c < 256 -> 1 <= wc_interval c -> wc_codec c <= 5 ->
  w_run_gen vsink vs_wr vs_fl vs_count compress c vs_empty [] = (i, Done (s, lg, m)) ->
  len (vs_bytes s) < 2^64 -> (forall e, In e lg -> len (em_bytes e) < 2^64) ->
  open_meta (vs_bytes s) = Done m /\ m_count m = 0 /\ m_codec m = wc_codec c /\
  let step := cstep (load_block decompress (vs_bytes s) (m_codec m)) (m_root m) (m_levels m) in
  (forall ops, exists st, run_ops (load_block decompress (vs_bytes s) (m_codec m)) (m_root m) (m_levels m) cs_fresh ops
                          = Done (st, repeat None (length ops))) /\
  (forall lo hi p fuel, (0 < fuel)%nat ->
     collect (range_next step lo hi) fuel iter_new = Done [] /\
     collect (rev_range_next step lo hi) fuel iter_new = Done [] /\
     collect (prefix_next step p) fuel iter_new = Done [] /\
     collect (rev_prefix_next step p) fuel iter_new = Done []).
Proof. exact empty_file_reads_empty. Qed.
Print Assumptions C01_empty_file.

(* ================= the hypotheses are satisfiable: codec None =================
   compress_none / decompress_none (the identity for codec id 0) satisfy both codec hypotheses, so
   C01_roundtrip_total applies outright to every configuration with codec None *)
Lemma C01_codec_none_ok : forall c, wc_codec c = 0 ->
  (forall b z, compress_none (wc_codec c) (wc_level c) b = Done z -> decompress_none (wc_codec c) z = Done b) /\
  (forall b, exists z, compress_none (wc_codec c) (wc_level c) b = Done z).
Proof.
  intros c Hc. unfold compress_none, decompress_none. rewrite Hc. cbn. split; [intros b z H; injection H as <-; reflexivity|].
  intro b. exists b. reflexivity.
Qed.

Example C01_total_applies :
  let c := mk_wcfg 0 0 1 1 2 in
  let es := [([], [1]); ([0], []); ([0; 255], [2; 3]); ([1], [4]); ([1; 0], [5])] in
  exists s lg m,
    w_run_gen vsink vs_wr vs_fl vs_count compress_none c vs_empty es = (len es, Done (s, lg, m)) /\
    exists st rs, run_ops (load_block decompress_none (vs_bytes s) (m_codec m)) (m_root m) (m_levels m) cs_fresh
                          (repeat ONext (S (length es))) = Done (st, rs) /\ rs = map Some es ++ [None].
Proof.
  cbv zeta. set (c := mk_wcfg 0 0 1 1 2). set (es := [([], [1]); ([0], []); ([0; 255], [2; 3]); ([1], [4]); ([1; 0], [5])]).
  destruct (C01_codec_none_ok c eq_refl) as [H1 H2].
  destruct (C01_roundtrip_total compress_none decompress_none c H1 H2 es) as (s & lg & m & Hrun & Hread).
  - reflexivity.
  - cbv. discriminate.
  - cbv. discriminate.
  - discriminate.
  - reflexivity.
  - repeat constructor; cbv; discriminate.
  - cbv. discriminate.
  - exists s, lg, m. split; [exact Hrun|].
    (* the physical bounds hold for the file this run produces *)
    assert (Hc : w_run_gen vsink vs_wr vs_fl vs_count compress_none c vs_empty es = (len es, Done (s, lg, m))) by exact Hrun.
    vm_compute in Hc. injection Hc as <- <- <-.
    destruct Hread as (_ & _ & _ & F & _).
    + vm_compute. reflexivity.
    + intros e He. vm_compute in He. repeat (destruct He as [<-|He]; [vm_compute; reflexivity|]). destruct He.
    + exact F.
Qed.
