(* Transcription of src/writer.rs (Writer::insert, Writer::into_inner,
   compress_and_write_block) and src/count_write.rs, over an abstract sink. *)
From Grenad.gen Require Import Consts.
From Grenad.model Require Import Base Varint Block Trailer.

Record wcfg : Type := mk_wcfg {
  wc_codec : N;
  wc_level : N;
  wc_block_size : N;      (* the effective block size (after the builder's clamp) *)
  wc_interval : N;        (* index_key_interval, >= 1 *)
  wc_levels : N }.        (* index_levels, 0..255 *)

(* WriterBuilder::block_size *)
Definition clamp_block_size (s : N) : N := N.max MIN_BLOCK_SIZE s.

(* one emitted block: tree level (0 = root index ... levels = deepest index, levels+1 = data),
   file offset of its frame, uncompressed bytes *)
Record emitted : Type := mk_emitted { em_level : N; em_offset : N; em_bytes : bytes }.

Section WithSink.
  (* the sink behind CountWrite: write_all of a buffer, flush, and the running count *)
  Variable SK : Type.
  Variable wr : SK -> bytes -> outcome SK.       (* CountWrite + write_all *)
  Variable fl : SK -> outcome SK.                (* flush *)
  Variable cnt : SK -> N.                       (* CountWrite::count *)
  (* compression::compress codec level data *)
  Variable compress : N -> N -> bytes -> outcome bytes.

  Record wstate : Type := mk_wstate {
    w_data : bw;               (* block_writer *)
    w_idx : list bw;           (* index_block_writers, root first; length levels + 1 *)
    w_count : N;               (* entries_count *)
    w_sink : SK;
    w_log : list emitted }.    (* emission log, most recent first *)

  Definition w_new (c : wcfg) (s : SK) : wstate :=
    mk_wstate (bw_new (wc_interval c)) (repeat (bw_new (wc_interval c)) (Datatypes.S (N.to_nat (wc_levels c)))) 0 s [].

  (* compress_and_write_block: returns the sink, the reset block writer and the log entry *)
  Definition cwb (c : wcfg) (s : SK) (w : bw) (lvl : N) : outcome (SK * bw * emitted) :=
    do buffer <- bw_finish w;
    do comp <- compress (wc_codec c) (wc_level c) buffer;
    do s1 <- wr s (be_bytes 8 (len comp));
    do s2 <- wr s1 comp;
    Done (s2, bw_reset w, mk_emitted lvl (cnt s) buffer).

  (* The cascade over `index_block_writers[1..]`, deepest level first.  [cur] is the block
     under consideration (tree level [lvl]), [up] the blocks above it inside the slice,
     nearest parent first.  Returns the updated [cur :: up]. *)
  Fixpoint cascade_from (c : wcfg) (s : SK) (lg : list emitted) (cur : bw) (lvl : N) (up : list bw)
    : outcome (SK * list emitted * list bw) :=
    match up with
    | [] => Done (s, lg, [cur])                 (* head.last_mut() is None: never cut *)
    | parent :: up' =>
      if wc_block_size c <=? bw_size cur then
        match bw_last cur with
        | Some lk =>
          do parent' <- bw_insert parent lk (be_bytes 8 (cnt s));
          do r <- cwb c s cur lvl;
          let '(s', cur', e) := r in
          do r2 <- cascade_from c s' (e :: lg) parent' (lvl - 1) up';
          let '(s'', lg'', ups) := r2 in
          Done (s'', lg'', cur' :: ups)
        | None =>
          do r2 <- cascade_from c s lg parent (lvl - 1) up';
          let '(s'', lg'', ups) := r2 in
          Done (s'', lg'', cur :: ups)
        end
      else
        do r2 <- cascade_from c s lg parent (lvl - 1) up';
        let '(s'', lg'', ups) := r2 in
        Done (s'', lg'', cur :: ups)
    end.

  (* Writer::insert *)
  Definition w_insert (c : wcfg) (st : wstate) (k v : bytes) : outcome wstate :=
    do d <- bw_insert (w_data st) k v;
    let count := w_count st + 1 in
    if wc_block_size c <=? bw_size d then
      match bw_last d with
      | Some last_key =>
        (* index_block_writers as [root; ...; deepest]; work on the reversed list *)
        match rev (w_idx st) with
        | [] => Done (mk_wstate d (w_idx st) count (w_sink st) (w_log st))
        | deepest :: above =>
          let s := w_sink st in
          do deepest' <- bw_insert deepest last_key (be_bytes 8 (cnt s));
          do r <- cwb c s d (wc_levels c + 1);
          let '(s1, d', e) := r in
          (* the slice [1..] hides the root: above = [level L-1; ...; level 1; root] *)
          match rev (deepest' :: above) with
          | [] => Panic
          | root :: sl =>
            match rev sl with
            | [] => Done (mk_wstate d' [root] count s1 (e :: w_log st))   (* levels = 0: slice empty *)
            | cur :: up =>
              do r2 <- cascade_from c s1 (e :: w_log st) cur (wc_levels c) up;
              let '(s2, lg, blocks) := r2 in
              Done (mk_wstate d' (root :: rev blocks) count s2 lg)
            end
          end
        end
      | None => Done (mk_wstate d (w_idx st) count (w_sink st) (w_log st))
      end
    else Done (mk_wstate d (w_idx st) count (w_sink st) (w_log st)).

  (* the bottom-up flush of into_inner: [cur] at tree level [lvl], [up] = the levels above,
     nearest first.  Returns the sink, log, and the offset of the last block considered. *)
  Fixpoint flush_from (c : wcfg) (s : SK) (lg : list emitted) (cur : bw) (lvl : N) (up : list bw)
    : outcome (SK * list emitted * N) :=
    let off := cnt s in
    match bw_last cur with
    | Some lk =>
      match up with
      | parent :: up' =>
        do parent' <- bw_insert parent lk (be_bytes 8 off);
        do r <- cwb c s cur lvl;
        let '(s', _, e) := r in
        flush_from c s' (e :: lg) parent' (lvl - 1) up'
      | [] =>
        do r <- cwb c s cur lvl;
        let '(s', _, e) := r in
        Done (s', e :: lg, off)
      end
    | None =>
      match up with
      | parent :: up' => flush_from c s lg parent (lvl - 1) up'
      | [] =>
        do r <- cwb c s cur lvl;                    (* the (empty) main index block *)
        let '(s', _, e) := r in
        Done (s', e :: lg, off)
      end
    end.

  (* Writer::into_inner; index_levels is computed as (len - 1) as u8 *)
  Definition w_finish (c : wcfg) (st : wstate) : outcome (SK * list emitted * meta) :=
    do r0 <- match bw_last (w_data st) with
             | Some last_key =>
               match rev (w_idx st) with
               | [] => Done (w_sink st, w_log st, w_idx st)
               | deepest :: above =>
                 let s := w_sink st in
                 do deepest' <- bw_insert deepest last_key (be_bytes 8 (cnt s));
                 do r <- cwb c s (w_data st) (wc_levels c + 1);
                 let '(s1, _, e) := r in
                 Done (s1, e :: w_log st, rev (deepest' :: above))
               end
             | None => Done (w_sink st, w_log st, w_idx st)
             end;
    let '(s1, lg1, idx) := r0 in
    do r1 <- match rev idx with
             | [] => Done (s1, lg1, cnt s1)
             | cur :: up => flush_from c s1 lg1 cur (wc_levels c) up
             end;
    let '(s2, lg2, root_off) := r1 in
    let m := mk_meta FormatV2 root_off (wc_codec c) (w_count st) (u8 (len idx - 1)) in
    (* Metadata::write_into: five separate write_all calls *)
    do s3 <- wr s2 (le_bytes 8 (m_root m));
    do s4 <- wr s3 [u8 (m_codec m)];
    do s5 <- wr s4 (le_bytes 8 (m_count m));
    do s6 <- wr s5 [u8 (m_levels m)];
    do s7 <- wr s6 (le_bytes 4 MAGIC_V2);
    do s8 <- fl s7;                                  (* CountWrite::into_inner flushes *)
    Done (s8, lg2, m).

  Fixpoint w_inserts (c : wcfg) (st : wstate) (es : list entry) (i : N) : outcome wstate + N :=
    match es with
    | [] => inl (Done st)
    | (k, v) :: r =>
      match w_insert c st k v with
      | Done st' => w_inserts c st' r (N.succ i)
      | Panic => inr i                               (* index of the panicking insert *)
      | Fail e => inl (Fail e)
      end
    end.
  (* like w_inserts, but also reports the index of the insert that ended the run *)
  Fixpoint w_inserts_at (c : wcfg) (st : wstate) (es : list entry) (i : N) : N * outcome wstate :=
    match es with
    | [] => (i, Done st)
    | (k, v) :: r =>
      match w_insert c st k v with
      | Done st' => w_inserts_at c st' r (N.succ i)
      | Panic => (i, Panic)
      | Fail e => (i, Fail e)
      end
    end.

  (* a whole run: (index of the public call that failed — number of inserts = the finish call,
     the failure or the final sink) *)
  Definition w_run_gen (c : wcfg) (s0 : SK) (es : list entry) : N * outcome (SK * list emitted * meta) :=
    match w_inserts_at c (w_new c s0) es 0 with
    | (i, Done st) => (i, w_finish c st)
    | (i, Panic) => (i, Panic)
    | (i, Fail e) => (i, Fail e)
    end.
End WithSink.

(* ---- the plain in-memory sink (Vec<u8>): chunks most recent first ---- *)
Record vsink : Type := mk_vsink { vs_chunks : list bytes; vs_count : N }.
Definition vs_wr (s : vsink) (b : bytes) : outcome vsink := Done (mk_vsink (b :: vs_chunks s) (vs_count s + len b)).
Definition vs_fl (s : vsink) : outcome vsink := Done s.
Definition vs_bytes (s : vsink) : bytes := concat (rev (vs_chunks s)).
Definition vs_empty : vsink := mk_vsink [] 0.

(* result of a whole writer run on the plain sink *)
Inductive wresult : Type :=
| WFile (file : bytes) (log : list emitted) (m : meta)
| WPanicInsert (i : N)            (* the i-th insert (0-based) panicked *)
| WPanicFinish
| WFail (e : err).

Definition w_run (compress : N -> N -> bytes -> outcome bytes) (c : wcfg) (es : list entry) : wresult :=
  match w_inserts vsink vs_wr vs_count compress c (w_new vsink c vs_empty) es 0 with
  | inr i => WPanicInsert i
  | inl (Fail e) => WFail e
  | inl Panic => WPanicFinish
  | inl (Done st) =>
    match w_finish vsink vs_wr vs_fl vs_count compress c st with
    | Done (s, lg, m) => WFile (vs_bytes s) (rev lg) m
    | Panic => WPanicFinish
    | Fail e => WFail e
    end
  end.

(* codec None *)
Definition compress_none (codec level : N) (b : bytes) : outcome bytes :=
  if codec =? CODEC_NONE then Done b else Fail (EIo IO_OTHER).
