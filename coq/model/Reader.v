(* Transcription of src/reader/reader_cursor.rs: ReaderCursor and IndexBlockCursor
   (iter_index_blocks, recursive_index_block, initial_index_blocks), over an abstract
   block loader.  Every block load (seek + Block::new) goes through [load], which receives
   the ordinal of the load (for fault injection) and the file offset. *)
From Grenad.model Require Import Base Varint Block Trailer.

Inductive op : Type :=
| OFirst | OLast | ONext | OPrev
| OGe (q : bytes) | OLe (q : bytes) | OEq (q : bytes)
| OReset | OCurrent.

Record cstate : Type := mk_cs {
  cs_inner : option (list (N * bcur));   (* IndexBlockCursor.inner: (recorded offset, cursor), root first *)
  cs_data : option bcur;                 (* current_cursor *)
  cs_loads : N }.                        (* number of blocks loaded so far by this cursor *)

Definition cs_fresh : cstate := mk_cs None None 0.

(* offset_bytes.try_into().map(u64::from_be_bytes).unwrap() *)
Definition off_of_val (v : bytes) : outcome N :=
  if len v =? 8 then Done (be_decode v) else Panic.

Section WithLoader.
  Variable load : N -> N -> outcome block.   (* ordinal -> offset -> block *)
  Variable root : N.                         (* base_block_offset *)
  Variable levels : N.                       (* index_levels *)

  Notation inner_t := (list (N * bcur)).

  Definition last_current (l : inner_t) : outcome (option entry) :=
    match last_opt l with
    | Some (_, c) => bc_current c
    | None => Done None
    end.

  (* the `for (offset, cursor) in inner` loop of iter_index_blocks; the boolean tells
     whether every level returned an entry *)
  Fixpoint iter_walk (m : mv) (n : N) (jump : N) (inner : inner_t) : outcome (inner_t * N * bool) :=
    match inner with
    | [] => Done ([], n, true)
    | (off, cur) :: rest =>
      do r <- (if jump =? off then Done (off, cur, n)
               else do b <- load n jump; Done (jump, bc_new b, n + 1));
      let '(off', cur', n') := r in
      do r2 <- bc_move m cur';
      let '(cur'', e) := r2 in
      match e with
      | Some (_, ob) =>
        do j <- off_of_val ob;
        do r3 <- iter_walk m n' j rest;
        let '(rest', n'', ok) := r3 in
        Done ((off', cur'') :: rest', n'', ok)
      | None => Done ((off', cur'') :: rest, n', false)
      end
    end.

  (* initial_index_blocks: note that the offset pushed with each cursor is the CHILD's *)
  Fixpoint initial_blocks (m : mv) (depth : nat) (n : N) (jump : N) : outcome (option inner_t * N) :=
    match depth with
    | O => Done (Some [], n)
    | S d =>
      do b <- load n jump;
      do r <- bc_move m (bc_new b);
      let '(c, e) := r in
      match e with
      | Some (_, ob) =>
        do j <- off_of_val ob;
        do r2 <- initial_blocks m d (n + 1) j;
        let '(rest, n') := r2 in
        match rest with
        | Some l => Done (Some ((j, c) :: l), n')
        | None => Done (None, n')
        end
      | None => Done (None, n + 1)
      end
    end.

  Definition depth : nat := S (N.to_nat levels).

  Definition idx_iter (m : mv) (inner : option inner_t) (n : N)
    : outcome (option inner_t * option entry * N) :=
    match inner with
    | Some l =>
      do r <- iter_walk m n root l;
      let '(l', n', ok) := r in
      if ok then (do e <- last_current l'; Done (Some l', e, n'))
      else Done (Some l', None, n')
    | None =>
      do r <- initial_blocks m depth n root;
      let '(i, n') := r in
      match i with
      | Some l => do e <- last_current l; Done (Some l, e, n')
      | None => Done (None, None, n')
      end
    end.

  (* `recursive`, on the level list reversed (deepest level first) *)
  Fixpoint rec_rev (m : mv) (n : N) (rb : inner_t) : outcome (inner_t * option entry * N) :=
    match rb with
    | [] => Done ([], None, n)
    | (off, cur) :: head =>
      do r <- bc_move m cur;
      let '(cur', e) := r in
      match e with
      | Some _ => do e' <- bc_current cur'; Done ((off, cur') :: head, e', n)
      | None =>
        do r2 <- rec_rev m n head;
        let '(head', pe, n') := r2 in
        match pe with
        | Some (_, ob) =>
          do j <- off_of_val ob;
          do b <- load n' j;
          do r3 <- bc_move m (bc_new b);
          let '(c3, e3) := r3 in
          Done ((j, c3) :: head', e3, n' + 1)         (* the recorded offset follows the reload *)
        | None => Done ((off, cur') :: head', None, n')
        end
      end
    end.

  Definition idx_rec (m : mv) (inner : option inner_t) (n : N)
    : outcome (option inner_t * option entry * N) :=
    do r0 <- match inner with
             | Some l => Done (Some l, n)
             | None => initial_blocks m depth n root
             end;
    let '(inner', n0) := r0 in
    match inner' with
    | Some l =>
      do r <- rec_rev m n0 (rev l);
      let '(rl, e, n') := r in
      Done (Some (rev rl), e, n')
    | None => Done (None, None, n0)
    end.

  (* load the data block an index entry points to *)
  Definition load_data (ob : bytes) (n : N) : outcome (bcur * N) :=
    do j <- off_of_val ob;
    do b <- load n j;
    Done (bc_new b, n + 1).

  Definition c_first_last (m : mv) (st : cstate) : outcome (cstate * option entry) :=
    do r <- idx_iter m (cs_inner st) (cs_loads st);
    let '(inner, e, n) := r in
    match e with
    | Some (_, ob) =>
      do r2 <- load_data ob n;
      let '(c, n') := r2 in
      do r3 <- bc_move m c;
      let '(c', e') := r3 in
      Done (mk_cs inner (Some c') n', e')
    | None => Done (mk_cs inner None n, None)
    end.

  Definition c_next_prev (m : mv) (st : cstate) : outcome (cstate * option entry) :=
    match cs_data st with
    | Some c =>
      do r <- bc_move m c;
      let '(c', e) := r in
      match e with
      | Some kv => Done (mk_cs (cs_inner st) (Some c') (cs_loads st), Some kv)
      | None =>
        do r2 <- idx_rec m (cs_inner st) (cs_loads st);
        let '(inner, ie, n) := r2 in
        match ie with
        | Some (_, ob) =>
          do r3 <- load_data ob n;
          let '(nc, n') := r3 in
          do r4 <- bc_move (match m with MNext => MFirst | _ => MLast end) nc;
          let '(nc', e') := r4 in
          Done (mk_cs inner (Some nc') n', e')
        | None => Done (mk_cs inner (Some c') n, None)
        end
      end
    | None => c_first_last (match m with MNext => MFirst | _ => MLast end) st
    end.

  Definition c_ge (q : bytes) (st : cstate) : outcome (cstate * option entry) :=
    do r <- idx_iter (MGe q) (cs_inner st) (cs_loads st);
    let '(inner, e, n) := r in
    match e with
    | Some (_, ob) =>
      do r2 <- load_data ob n;
      let '(c, n') := r2 in
      do r3 <- bc_ge c q;
      let '(c', e') := r3 in
      Done (mk_cs inner (Some c') n', e')
    | None => Done (mk_cs inner (cs_data st) n, None)
    end.

  Definition c_le (q : bytes) (st : cstate) : outcome (cstate * option entry) :=
    do r <- c_ge q st;
    let '(st1, e) := r in
    match e with
    | Some (k, v) => if bytes_eqb k q then Done (st1, Some (k, v)) else c_next_prev MPrev st1
    | None =>
      do r2 <- c_first_last MLast st1;
      let '(st2, e2) := r2 in
      Done (st2, match e2 with
                 | Some (k, v) => if bytes_leb k q then Some (k, v) else None
                 | None => None
                 end)
    end.

  Definition c_eq (q : bytes) (st : cstate) : outcome (cstate * option entry) :=
    do r <- c_ge q st;
    let '(st1, e) := r in
    Done (st1, match e with
               | Some (k, v) => if bytes_eqb k q then Some (k, v) else None
               | None => None
               end).

  Definition c_current (st : cstate) : outcome (option entry) :=
    match cs_data st with Some c => bc_current c | None => Done None end.

  Definition cstep (st : cstate) (o : op) : outcome (cstate * option entry) :=
    match o with
    | OFirst => c_first_last MFirst st
    | OLast => c_first_last MLast st
    | ONext => c_next_prev MNext st
    | OPrev => c_next_prev MPrev st
    | OGe q => c_ge q st
    | OLe q => c_le q st
    | OEq q => c_eq q st
    | OReset => Done (mk_cs None None (cs_loads st), None)
    | OCurrent => do e <- c_current st; Done (st, e)
    end.
End WithLoader.

(* ---- the loader over an in-memory file: seek(Start(off)), read_u64 BE, take(len),
        decompress, parse ---- *)
Definition load_block (decompress : N -> bytes -> outcome bytes) (file : bytes) (codec : N)
  (ordinal off : N) : outcome block :=
  let rest := skipnN off file in
  if len rest <? 8 then Fail (EIo IO_UNEXPECTED_EOF)
  else
    let blen := be_decode (firstnN 8 rest) in
    do buf <- decompress codec (firstnN blen (skipnN 8 rest));
    parse_block buf.

Definition decompress_none (codec : N) (b : bytes) : outcome bytes :=
  if codec =? 0 then Done b else Fail (EIo IO_OTHER).

(* ---- several cursors over one file: operations of cursor [cid], and clones (a clone is a value copy
        of its original's state and gets the next free identifier) ---- *)
Fixpoint set_nth {A} (i : nat) (x : A) (l : list A) {struct l} : list A :=
  match l, i with
  | [], _ => []
  | _ :: r, O => x :: r
  | a :: r, S i' => a :: set_nth i' x r
  end.

Inductive mop : Type := MOp (cid : nat) (o : op) | MClone (cid : nat).

(* cursor states indexed by identifier; an unknown identifier is an error of the harness *)
Fixpoint mrun (ld : N -> N -> outcome block) (root levels : N) (sts : list cstate) (ops : list mop)
  : outcome (list cstate * list (option entry)) :=
  match ops with
  | [] => Done (sts, [])
  | MClone i :: r =>
    match nth_error sts i with
    | Some st => mrun ld root levels (sts ++ [st]) r
    | None => Fail EFuel
    end
  | MOp i o :: r =>
    match nth_error sts i with
    | Some st =>
      do x <- cstep ld root levels st o;
      do y <- mrun ld root levels (set_nth i (fst x) sts) r;
      Done (fst y, snd x :: snd y)
    | None => Fail EFuel
    end
  end.
