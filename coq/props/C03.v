(* C03 — Cursor results depend only on content and logical position, not on history.
   Statements only.  The structural part (a cursor is a function of its state; reset forgets everything;
   the file is consulted only through the loader), the in-block moves as index moves, and the refinement
   of Reader.cstep to the abstract cursor Spec.aspec over all reachable states (C03_step, C03_history:
   backbone R, proofs/ReaderRefine.v), composed with the writer invariant for written files
   (C03_written_file_history).  The state-level correspondence compares results, block loads and
   cached-block fingerprints after every step. *)
From Grenad.model Require Import Base Block Reader Spec.
From Grenad.proofs Require Import ReaderBasics.

(* reset leaves no trace of the history: both the data cursor and every cached index block go *)
Theorem C03_reset_forgets : forall ld root levels st,
  cstep ld root levels st OReset = Done (mk_cs None None (cs_loads st), None).
Proof. reflexivity. Qed.
Print Assumptions C03_reset_forgets.

(* results are a function of (loader, root, levels, state, operation): a clone — a copy of the
   state — continues identically and independently *)
Theorem C03_clone_continues_identically : forall ld root levels st st' o,
  st' = st -> cstep ld root levels st' o = cstep ld root levels st o.
Proof. intros; subst; reflexivity. Qed.
Print Assumptions C03_clone_continues_identically.

Theorem C03_depends_on_loader_only : forall ld1 ld2 root levels,
  (forall ord off, ld1 ord off = ld2 ord off) ->
  forall st o, cstep ld1 root levels st o = cstep ld2 root levels st o.
Proof. exact cstep_ext. Qed.
Print Assumptions C03_depends_on_loader_only.

(* the abstract cursor: absolute moves ignore the position *)
Theorem C03_spec_absolute_moves_ignore_history : forall es p1 p2 q,
  aspec es p1 OFirst = aspec es p2 OFirst /\ aspec es p1 OLast = aspec es p2 OLast /\
  aspec es p1 (OGe q) = aspec es p2 (OGe q) /\ aspec es p1 (OLe q) = aspec es p2 (OLe q) /\
  aspec es p1 (OEq q) = aspec es p2 (OEq q).
Proof. intros; repeat split; reflexivity. Qed.
Print Assumptions C03_spec_absolute_moves_ignore_history.

(* ---- the in-block cursor on a well-formed block: byte offsets are in bijection with entry indices
   (start es p) and every relative move is the index move; at the ends it returns None without moving
   (what the multi-level cursor relies on) ---- *)
From Grenad.proofs Require Import BlockProofs BlockCursorProofs.

Theorem C03_block_next : forall b es ridx p, wfblock b es ridx -> (p < length es)%nat ->
  bc_next (mk_bcur b (Some (start es p))) = Done (mk_bcur b (Some (start es (S p))), nth_error es (S p)).
Proof. intros b es ridx p W. exact (bc_next_spec b es ridx W p). Qed.
Print Assumptions C03_block_next.

Theorem C03_block_prev : forall b es ridx i, wfblock b es ridx -> (0 < i)%nat -> (i < length es)%nat ->
  bc_prev (mk_bcur b (Some (start es i))) = Done (mk_bcur b (Some (start es (i - 1))), nth_error es (i - 1)).
Proof. intros b es ridx i W. exact (bc_prev_spec b es ridx W i). Qed.
Print Assumptions C03_block_prev.

Theorem C03_block_first_last : forall b es ridx o, wfblock b es ridx ->
  bc_first (mk_bcur b o) = Done (mk_bcur b (Some (start es 0)), nth_error es 0) /\
  ((0 < length es)%nat ->
   bc_last (mk_bcur b o) = Done (mk_bcur b (Some (start es (length es - 1))), nth_error es (length es - 1))).
Proof. intros b es ridx o W. split; [exact (bc_first_spec b es ridx W o) | exact (bc_last_spec b es ridx W o)]. Qed.
Print Assumptions C03_block_first_last.

Theorem C03_block_ends_do_not_move : forall b es ridx, wfblock b es ridx ->
  bc_prev (mk_bcur b (Some (start es 0))) = Done (mk_bcur b (Some (start es 0)), None) /\
  bc_next (mk_bcur b (Some (start es (length es)))) = Done (mk_bcur b (Some (start es (length es))), None) /\
  ((0 < length es)%nat ->
   bc_prev (mk_bcur b (Some (start es (length es)))) = Done (mk_bcur b (Some (start es (length es))), None)).
Proof.
  intros b es ridx W. split; [exact (bc_prev_first b es ridx W)|]. split; [exact (bc_next_end b es ridx W)|exact (bc_prev_end b es ridx W)].
Qed.
Print Assumptions C03_block_ends_do_not_move.

(* ================= the multi-level cursor refines the abstract cursor (backbone R) =================
   wf_store ld root levels bstore: what a reader sees of a well-formed file of any index depth — every
   block offset maps to a well-formed block (strictly ascending framed entries, restart table), index
   items are 8-byte offsets of stored blocks carrying the last key of the block they point to, every
   level sequence is strictly ascending, blocks of different levels have different offsets.
   content = the entries of the data level in order.  Rel p st relates the abstract position
   (Fresh | At i | Unspec) to the concrete cursor state (block cache coherent; at At i every cached
   cursor sits on the path to entry i). *)
From Grenad.proofs Require Import ReaderRefine.

(* every operation the property specifies (all of them, except relative moves and `current` issued
   after an operation returned None), from every related state — i.e. after ANY history — returns
   the result of the abstract cursor and re-establishes the relation *)
Theorem C03_step : forall ld root levels bstore, wf_store ld root levels bstore ->
  forall p st o, Rel root bstore levels p st -> admissible p o ->
  exists st' r, cstep ld root levels st o = Done (st', r) /\
    Rel root bstore levels (fst (aspec (content root levels bstore) p o)) st' /\
    res_ok (snd (aspec (content root levels bstore) p o)) r /\
    cs_loads st' <= cs_loads st + 2 * (levels + 2).
Proof. exact R_step. Qed.
Print Assumptions C03_step.

(* whole histories: every specified result of every admissible operation sequence equals the abstract
   cursor's; a fresh cursor (and any cursor after reset) starts related to Fresh *)
Theorem C03_history : forall ld root levels bstore, wf_store ld root levels bstore ->
  forall ops p st, Rel root bstore levels p st -> admissible_ops root bstore levels p ops ->
  exists st' rs, run_ops ld root levels st ops = Done (st', rs) /\
    Rel root bstore levels (fst (spec_ops root bstore levels p ops)) st' /\
    Forall2 res_ok (snd (spec_ops root bstore levels p ops)) rs.
Proof. exact R_history. Qed.
Print Assumptions C03_history.

Theorem C03_fresh_related : forall root levels bstore, Rel root bstore levels Fresh cs_fresh.
Proof. intros root levels bstore. exact (fresh_rel root bstore levels). Qed.
Print Assumptions C03_fresh_related.

(* ================= on files produced by the writer =================
   W composed with R: for ANY configuration and ANY non-empty strictly ascending input on which the
   writer model finishes, every admissible history of cursor operations on a fresh cursor over the
   written file returns, operation by operation, exactly what the abstract cursor over the inserted
   entries returns (aspec: a function of the entries and the logical position only). *)
From Grenad.model Require Import Trailer Writer Reader Spec.
From Grenad.proofs Require Import ReaderRefine WriterStore.

Theorem C03_written_file_history : forall compress decompress c,
  (forall b z, compress (wc_codec c) (wc_level c) b = Done z -> decompress (wc_codec c) z = Done b) ->
  forall es i s lg m, wc_levels c < 256 -> 1 <= wc_interval c ->
  w_run_gen vsink vs_wr vs_fl vs_count compress c vs_empty es = (i, Done (s, lg, m)) ->
  es <> [] -> sorted_strictb (map fst es) = true ->
  len (vs_bytes s) < 2^64 -> mem_ok lg ->
  forall ops, adm_ops es Fresh ops ->
  exists st rs, run_ops (load_block decompress (vs_bytes s) (m_codec m)) (m_root m) (m_levels m) cs_fresh ops = Done (st, rs) /\
    Forall2 res_ok (snd (aspec_ops es Fresh ops)) rs /\
    cs_loads st <= N.of_nat (length ops) * (2 * (m_levels m + 2)).
Proof. exact written_file_history. Qed.
Print Assumptions C03_written_file_history.

(* ================= clones =================
   A history over several cursors of one file: MOp i o applies o to cursor i, MClone i copies cursor i into
   the next free identifier.  On every well-formed store the multi-cursor run returns, for every operation of
   every cursor, the result the specification determines from THAT cursor's own position (amrun: the
   position of its original at the time of the clone, then its own operations) — whatever the other cursors,
   its original included, do in between.  The driver runs mrun / amrun on every history with clones and
   compares them with its own per-operation bookkeeping. *)
From Grenad.proofs Require Import ClonesRefine.

Theorem C03_clones : forall ld root levels bstore, wf_store ld root levels bstore ->
  forall ops ps sts, Forall2 (Rel root bstore levels) ps sts -> madm (content root levels bstore) ps ops ->
  exists sts' rs, mrun ld root levels sts ops = Done (sts', rs) /\
    Forall2 (Rel root bstore levels) (fst (amrun (content root levels bstore) ps ops)) sts' /\
    Forall2 res_ok (snd (amrun (content root levels bstore) ps ops)) rs.
Proof. exact clones_refine. Qed.
Print Assumptions C03_clones.

Theorem C03_clones_from_fresh : forall ld root levels bstore, wf_store ld root levels bstore ->
  forall ops, madm (content root levels bstore) [Fresh] ops ->
  exists sts' rs, mrun ld root levels [cs_fresh] ops = Done (sts', rs) /\
    Forall2 res_ok (snd (amrun (content root levels bstore) [Fresh] ops)) rs.
Proof. exact clones_from_fresh. Qed.
Print Assumptions C03_clones_from_fresh.

Theorem C03_written_file_clones : forall compress decompress c,
  (forall b z, compress (wc_codec c) (wc_level c) b = Done z -> decompress (wc_codec c) z = Done b) ->
  forall es i s lg m, wc_levels c < 256 -> 1 <= wc_interval c ->
  w_run_gen vsink vs_wr vs_fl vs_count compress c vs_empty es = (i, Done (s, lg, m)) ->
  es <> [] -> sorted_strictb (map fst es) = true ->
  len (vs_bytes s) < 2^64 -> mem_ok lg ->
  forall ops, madm es [Fresh] ops ->
  exists sts rs, mrun (load_block decompress (vs_bytes s) (m_codec m)) (m_root m) (m_levels m) [cs_fresh] ops = Done (sts, rs) /\
    Forall2 res_ok (snd (amrun es [Fresh] ops)) rs.
Proof. exact written_file_clones. Qed.
Print Assumptions C03_written_file_clones.

(* a clone is unaffected by what its original does afterwards: position 1, clone, move the original to the
   last entry, the clone's next is entry 2 *)
Example C03_clone_example :
  let es := [([1], [1]); ([2], [2]); ([3], [3])] in
  snd (amrun es [Fresh] [MOp 0 OFirst; MClone 0; MOp 0 OLast; MOp 1 ONext; MOp 0 OCurrent]) =
  [Some (Some ([1], [1])); Some (Some ([3], [3])); Some (Some ([2], [2])); Some (Some ([3], [3]))].
Proof. vm_compute. reflexivity. Qed.
