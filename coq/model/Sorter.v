(* Transcription of src/sorter.rs: Entries buffer bookkeeping (fits / insert /
   reallocate_buffer / EntryBoundAlignedBuffer::new), Sorter::insert (spill decision,
   chunk-merge trigger), write_chunk, merge_chunks and the final merge, at the level of
   entry lists and sizes.  Chunk files are represented by the entries they hold (a chunk
   written by the Writer scans back as exactly its entries: C01). *)
From Grenad.gen Require Import Consts.
From Grenad.model Require Import Base Merger.

Record scfg : Type := mk_scfg {
  sc_threshold : N;        (* dump_threshold (after the builder's clamp) *)
  sc_realloc : bool;       (* allow_realloc *)
  sc_max_chunks : N;       (* max_nb_chunks (after the clamp to >= 1) *)
  sc_init_cap : N }.       (* capacity handed to Entries::with_capacity *)

(* SorterBuilder::build *)
Definition default_capacity (threshold : N) (realloc : bool) : N :=
  if realloc then INITIAL_SORTER_VEC_SIZE else threshold.
Definition clamp_threshold (t : N) : N := N.max t MIN_SORTER_MEMORY.
Definition clamp_chunks (m : N) : N := N.max m MIN_NB_CHUNKS.

(* EntryBoundAlignedBuffer::new: size.div_ceil(16) * 16 *)
Definition round_up (size : N) : N := ((size + (ENTRY_BOUND_SIZE - 1)) / ENTRY_BOUND_SIZE) * ENTRY_BOUND_SIZE.

(* the buffer bookkeeping: L = buffer.len(), U = entries_len, n = bounds_count *)
Record ebuf : Type := mk_ebuf { eb_L : N; eb_U : N; eb_n : N }.

(* Entries::remaining, with the subtraction underflow made explicit *)
Definition eb_remaining (b : ebuf) : outcome N :=
  let used := eb_U b + eb_n b * ENTRY_BOUND_SIZE in
  if eb_L b <? used then Panic else Done (eb_L b - used).

(* Entries::fits *)
Definition eb_fits (b : ebuf) (sz : N) : outcome bool :=
  let aligned := eb_L b / ENTRY_BOUND_SIZE in
  if aligned <? eb_n b then Panic
  else do rem <- eb_remaining b;
       Done ((ENTRY_BOUND_SIZE + sz <=? rem) && (1 <=? aligned - eb_n b)).

(* Entries::insert: doubles the buffer until the entry fits *)
Fixpoint eb_insert (fuel : nat) (b : ebuf) (sz : N) : outcome ebuf :=
  do f <- eb_fits b sz;
  if f then Done (mk_ebuf (eb_L b) (eb_U b + sz) (eb_n b + 1))
  else match fuel with
       | O => Fail EFuel
       | S fu => eb_insert fu (mk_ebuf (round_up (eb_L b * 2)) (eb_U b) (eb_n b)) sz
       end.

Inductive sevent : Type := EvCreate | EvSpill (nchunks : N) | EvMerge (nchunks : N).

Record sstate : Type := mk_sstate {
  ss_pending : list entry;          (* in-memory entries, most recent first *)
  ss_buf : ebuf;
  ss_chunks : list (list entry);    (* chunks, oldest first *)
  ss_calls : N;                     (* merge-function calls so far *)
  ss_events : list sevent }.        (* most recent first *)

Definition s_new (c : scfg) : sstate :=
  mk_sstate [] (mk_ebuf (round_up (sc_init_cap c)) 0 0) [] 0 [].

(* stable sort by key (insertion order kept among equal keys): sort_by_key *)
Fixpoint insert_sorted (e : entry) (l : list entry) : list entry :=
  match l with
  | [] => [e]
  | x :: r => if bytes_leb (fst e) (fst x) then e :: l else x :: insert_sorted e r
  end.
Definition sort_entries (in_order : list entry) : list entry := fold_right insert_sorted [] in_order.

(* group equal consecutive keys: (key, values in order) *)
Fixpoint group_sorted (l : list entry) : list (bytes * list bytes) :=
  match l with
  | [] => []
  | (k, v) :: r =>
    match group_sorted r with
    | (k', vs) :: gs => if bytes_eqb k k' then (k, v :: vs) :: gs else (k, [v]) :: (k', vs) :: gs
    | [] => [(k, [v])]
    end
  end.

Fixpoint merge_groups (mf : mergefn) (calls : N) (gs : list (bytes * list bytes)) : outcome (list entry * N) :=
  match gs with
  | [] => Done ([], calls)
  | (k, vs) :: r =>
    do m <- mf calls k vs;
    do rest <- merge_groups mf (calls + 1) r;
    Done ((k, m) :: fst rest, snd rest)
  end.

(* write_chunk *)
Definition s_write_chunk (mf : mergefn) (st : sstate) : outcome sstate :=
  let sorted := sort_entries (rev (ss_pending st)) in
  do r <- merge_groups mf (ss_calls st) (group_sorted sorted);
  let b := ss_buf st in
  Done (mk_sstate [] (mk_ebuf (eb_L b) 0 0) (ss_chunks st ++ [fst r]) (snd r)
                  (EvSpill (len (ss_chunks st) + 1) :: EvCreate :: ss_events st)).

(* merge_chunks *)
Definition s_merge_chunks (mf : mergefn) (st : sstate) : outcome sstate :=
  do r <- merge_run mf (ss_calls st) (ss_chunks st);
  Done (mk_sstate (ss_pending st) (ss_buf st) [fst r] (snd r)
                  (EvMerge (len (ss_chunks st)) :: EvCreate :: ss_events st)).

Definition entry_sz (k v : bytes) : N := len k + len v.

(* Sorter::insert *)
Definition s_insert (c : scfg) (mf : mergefn) (st : sstate) (k v : bytes) : outcome sstate :=
  if (U32_MAX <? len k) || (U32_MAX <? len v) then Panic else
  let sz := entry_sz k v in
  do f <- eb_fits (ss_buf st) sz;
  let threshold_exceeded := sc_threshold c <=? eb_L (ss_buf st) in
  if f || (negb threshold_exceeded && sc_realloc c) then
    do b <- eb_insert 80 (ss_buf st) sz;
    Done (mk_sstate ((k, v) :: ss_pending st) b (ss_chunks st) (ss_calls st) (ss_events st))
  else
    do st1 <- s_write_chunk mf st;
    do b <- eb_insert 80 (ss_buf st1) sz;
    let st2 := mk_sstate [(k, v)] b (ss_chunks st1) (ss_calls st1) (ss_events st1) in
    if sc_max_chunks c <=? len (ss_chunks st2) then s_merge_chunks mf st2 else Done st2.

Fixpoint s_inserts (c : scfg) (mf : mergefn) (st : sstate) (ins : list entry) : outcome sstate :=
  match ins with
  | [] => Done st
  | (k, v) :: r => do st' <- s_insert c mf st k v; s_inserts c mf st' r
  end.

(* into_stream_merger_iter / write_into_stream_writer: flush, then merge all chunks *)
Definition s_finish (mf : mergefn) (st : sstate) : outcome (list entry * list (list entry)) :=
  do st1 <- s_write_chunk mf st;
  do r <- merge_run mf (ss_calls st1) (ss_chunks st1);
  Done (fst r, ss_chunks st1).

Definition sorter_run (c : scfg) (mf : mergefn) (ins : list entry) : outcome (list entry) :=
  do st <- s_inserts c mf (s_new c) ins;
  do r <- s_finish mf st;
  Done (fst r).

(* ---- the specification: sort-and-merge of all inserts ---- *)
Definition sorter_spec (mf : mergefn) (ins : list entry) : outcome (list entry) :=
  do r <- merge_groups mf 0 (group_sorted (sort_entries ins)); Done (fst r).

(* ---- the purely numeric projection (sizes only): buffer bookkeeping, chunk counts,
        chunk-creator calls and the peak number of chunks alive at the same time ---- *)
Record nstate : Type := mk_nstate {
  ns_buf : ebuf;
  ns_chunks : N;       (* self.chunks.len() *)
  ns_creates : N;      (* ChunkCreator::create calls *)
  ns_peak : N }.       (* max number of chunk objects alive at once *)

Definition n_new (c : scfg) : nstate := mk_nstate (mk_ebuf (round_up (sc_init_cap c)) 0 0) 0 0 0.

Definition n_insert (c : scfg) (st : nstate) (sz : N) : outcome nstate :=
  do f <- eb_fits (ns_buf st) sz;
  let threshold_exceeded := sc_threshold c <=? eb_L (ns_buf st) in
  if f || (negb threshold_exceeded && sc_realloc c) then
    do b <- eb_insert 80 (ns_buf st) sz;
    Done (mk_nstate b (ns_chunks st) (ns_creates st) (ns_peak st))
  else
    (* write_chunk: one create, one more chunk; the buffer is cleared but keeps its size *)
    let chunks1 := ns_chunks st + 1 in
    let peak1 := N.max (ns_peak st) chunks1 in
    do b <- eb_insert 80 (mk_ebuf (eb_L (ns_buf st)) 0 0) sz;
    if sc_max_chunks c <=? chunks1 then
      (* merge_chunks: one create while all chunks are still alive, then a single chunk *)
      Done (mk_nstate b 1 (ns_creates st + 2) (N.max peak1 (chunks1 + 1)))
    else Done (mk_nstate b chunks1 (ns_creates st + 1) peak1).

Fixpoint n_inserts (c : scfg) (st : nstate) (szs : list N) : outcome nstate :=
  match szs with
  | [] => Done st
  | sz :: r => do st' <- n_insert c st sz; n_inserts c st' r
  end.

(* the final flush of into_stream_merger_iter & co: one more create and chunk *)
Definition n_finish (st : nstate) : nstate :=
  mk_nstate (mk_ebuf (eb_L (ns_buf st)) 0 0) (ns_chunks st + 1) (ns_creates st + 1)
            (N.max (ns_peak st) (ns_chunks st + 1)).

(* ---- the sorter over a fallible ChunkCreator ----
   write_chunk and merge_chunks both begin with `self.chunk_creator.create()?`; [cr n] is the error
   (already converted into the crate's Error) the creator returns for its call number n, if any.
   The calls made so far are the EvCreate events of the log. *)
Fixpoint creates (evs : list sevent) : N :=
  match evs with [] => 0 | EvCreate :: r => creates r + 1 | _ :: r => creates r end.

Definition creator : Type := N -> option err.
Definition cr_never : creator := fun _ => None.
Definition cr_fail_at (j : N) (e : err) : creator := fun n => if n =? j then Some e else None.

Definition fs_write_chunk (cr : creator) (mf : mergefn) (st : sstate) : outcome sstate :=
  match cr (creates (ss_events st)) with Some e => Fail e | None => s_write_chunk mf st end.
Definition fs_merge_chunks (cr : creator) (mf : mergefn) (st : sstate) : outcome sstate :=
  match cr (creates (ss_events st)) with Some e => Fail e | None => s_merge_chunks mf st end.

Definition fs_insert (c : scfg) (cr : creator) (mf : mergefn) (st : sstate) (k v : bytes) : outcome sstate :=
  if (U32_MAX <? len k) || (U32_MAX <? len v) then Panic else
  let sz := entry_sz k v in
  do f <- eb_fits (ss_buf st) sz;
  let threshold_exceeded := sc_threshold c <=? eb_L (ss_buf st) in
  if f || (negb threshold_exceeded && sc_realloc c) then
    do b <- eb_insert 80 (ss_buf st) sz;
    Done (mk_sstate ((k, v) :: ss_pending st) b (ss_chunks st) (ss_calls st) (ss_events st))
  else
    do st1 <- fs_write_chunk cr mf st;
    do b <- eb_insert 80 (ss_buf st1) sz;
    let st2 := mk_sstate [(k, v)] b (ss_chunks st1) (ss_calls st1) (ss_events st1) in
    if sc_max_chunks c <=? len (ss_chunks st2) then fs_merge_chunks cr mf st2 else Done st2.

Definition fs_finish (cr : creator) (mf : mergefn) (st : sstate) : outcome (list entry * list (list entry)) :=
  do st1 <- fs_write_chunk cr mf st;
  do r <- merge_run mf (ss_calls st1) (ss_chunks st1);
  Done (fst r, ss_chunks st1).

(* a whole run: the index of the public call that ended it (number of inserts = the final call) *)
Fixpoint fs_inserts_at (c : scfg) (cr : creator) (mf : mergefn) (st : sstate) (ins : list entry) (i : N)
  : N * outcome sstate :=
  match ins with
  | [] => (i, Done st)
  | (k, v) :: r =>
    match fs_insert c cr mf st k v with
    | Done st' => fs_inserts_at c cr mf st' r (N.succ i)
    | Panic => (i, Panic)
    | Fail e => (i, Fail e)
    end
  end.
Definition fs_run (c : scfg) (cr : creator) (mf : mergefn) (ins : list entry) : N * outcome (list entry) :=
  match fs_inserts_at c cr mf (s_new c) ins 0 with
  | (i, Done st) => (i, do r <- fs_finish cr mf st; Done (fst r))
  | (i, Panic) => (i, Panic)
  | (i, Fail e) => (i, Fail e)
  end.

(* ---- the same insert, returning also the state the sorter is left in when it fails, so that a caller
   who goes on after a transient ChunkCreator failure can be followed.  Every call of the creator, failed or
   not, is logged (EvCreate), so [cr] is indexed by the attempt number: [cr_fail_at j e] fails one call.
     - create fails in write_chunk: nothing else has happened, the entry is not stored;
     - create fails in merge_chunks: the chunk has been written and the entry stored.
   (A failure of the merge function inside write_chunk leaves the pending entries in place; inside
   merge_chunks the drained chunks are lost: those states are not followed here and are returned as the
   state before the step.) *)
Definition log_create (st : sstate) : sstate :=
  mk_sstate (ss_pending st) (ss_buf st) (ss_chunks st) (ss_calls st) (EvCreate :: ss_events st).

Definition fs_insert_r (c : scfg) (cr : creator) (mf : mergefn) (st : sstate) (k v : bytes) : sstate * outcome unit :=
  if (U32_MAX <? len k) || (U32_MAX <? len v) then (st, Panic) else
  let sz := entry_sz k v in
  match eb_fits (ss_buf st) sz with
  | Panic => (st, Panic)
  | Fail e => (st, Fail e)
  | Done f =>
    let threshold_exceeded := sc_threshold c <=? eb_L (ss_buf st) in
    if f || (negb threshold_exceeded && sc_realloc c) then
      match eb_insert 80 (ss_buf st) sz with
      | Done b => (mk_sstate ((k, v) :: ss_pending st) b (ss_chunks st) (ss_calls st) (ss_events st), Done tt)
      | Panic => (st, Panic)
      | Fail e => (st, Fail e)
      end
    else
      match cr (creates (ss_events st)) with
      | Some e => (log_create st, Fail e)
      | None =>
        match s_write_chunk mf st with
        | Panic => (st, Panic)
        | Fail e => (st, Fail e)
        | Done st1 =>
          match eb_insert 80 (ss_buf st1) sz with
          | Panic => (st1, Panic)
          | Fail e => (st1, Fail e)
          | Done b =>
            let st2 := mk_sstate [(k, v)] b (ss_chunks st1) (ss_calls st1) (ss_events st1) in
            if sc_max_chunks c <=? len (ss_chunks st2) then
              match cr (creates (ss_events st2)) with
              | Some e => (log_create st2, Fail e)
              | None =>
                match s_merge_chunks mf st2 with
                | Done st3 => (st3, Done tt)
                | Panic => (st2, Panic)
                | Fail e => (st2, Fail e)
                end
              end
            else (st2, Done tt)
          end
        end
      end
  end.

(* a run that goes on after failed inserts: the result of every insert, the final state *)
Fixpoint fs_inserts_r (c : scfg) (cr : creator) (mf : mergefn) (st : sstate) (ins : list entry)
  : sstate * list (outcome unit) :=
  match ins with
  | [] => (st, [])
  | (k, v) :: r =>
    let x := fs_insert_r c cr mf st k v in
    match snd x with
    | Panic => (fst x, [Panic])                      (* a panic ends the run *)
    | o => let y := fs_inserts_r c cr mf (fst x) r in (fst y, o :: snd y)
    end
  end.
