From Coq Require Import List Arith Lia Bool.
Import ListNotations.

(* Probe for C05: advance_key (prefix_iter.rs) and the prefix-interval fact it relies on. *)
Arguments Nat.ltb : simpl never.
Arguments Nat.eqb : simpl never.
Definition wf (k : list nat) := Forall (fun b => b < 256) k.

Fixpoint ltl (a b : list nat) : bool :=      (* Ord for [u8]: lexicographic, proper prefix is smaller *)
  match a, b with
  | [], [] => false | [], _ :: _ => true | _ :: _, [] => false
  | x :: a', y :: b' => if x <? y then true else if y <? x then false else ltl a' b'
  end.
Definition lel (a b : list nat) : bool := negb (ltl b a).
Fixpoint prefix (p k : list nat) : bool :=
  match p, k with [] , _ => true | _ :: _, [] => false | x :: p', y :: k' => (x =? y) && prefix p' k' end.

(* the Rust loop: strip trailing 0xFF bytes, increment the last remaining byte *)
Fixpoint adv_rev (r : list nat) : option (list nat) :=
  match r with [] => None | x :: r' => if x <? 255 then Some (S x :: r') else adv_rev r' end.
Definition advance_key (p : list nat) : option (list nat) := option_map (@rev nat) (adv_rev (rev p)).

(* forward characterisation *)
Fixpoint advance (p : list nat) : option (list nat) :=
  match p with
  | [] => None
  | x :: r => match advance r with
              | Some r' => Some (x :: r')
              | None => if x <? 255 then Some [S x] else None
              end
  end.

Lemma adv_rev_snoc r x : adv_rev (r ++ [x]) =
  match adv_rev r with Some r' => Some (r' ++ [x]) | None => if x <? 255 then Some [S x] else None end.
Proof.
  induction r as [|y r IH]; cbn; [reflexivity|].
  destruct (y <? 255); [reflexivity|]. exact IH.
Qed.

Lemma advance_key_eq p : wf p -> advance_key p = advance p.
Proof.
  unfold advance_key. induction p as [|x r IH]; intro H; [reflexivity|].
  inversion H as [|? ? Hx Hr]; subst. cbn [rev advance]. rewrite adv_rev_snoc.
  specialize (IH Hr). destruct (adv_rev (rev r)) as [r'|]; destruct (advance r) as [r2|]; cbn in IH; try discriminate.
  - inversion IH; subst. cbn. rewrite rev_app_distr. reflexivity.
  - destruct (x <? 255); reflexivity.
Qed.

Definition all255 (p : list nat) := Forall (fun b => b = 255) p.

Lemma advance_none p : wf p -> (advance p = None <-> all255 p).
Proof.
  induction p as [|x r IH]; intro H; [split; constructor|]. inversion H as [|? ? Hx Hr]; subst. specialize (IH Hr). cbn.
  destruct (advance r).
  - split; [discriminate|]. intro A. inversion A as [|? ? A1 A2]; subst. destruct IH as [_ IH]. specialize (IH A2). discriminate.
  - destruct (Nat.ltb_spec x 255).
    + split; [discriminate|]. intro A; inversion A; lia.
    + split; [|reflexivity]. intros _. constructor; [lia|]. apply IH. reflexivity.
Qed.

Lemma all255_le_prefix r : all255 r -> forall k, wf k -> lel r k = true -> prefix r k = true.
Proof.
  induction 1 as [|x r Hx Hr IH]; intros k Hk Hl; [reflexivity|]. subst x.
  destruct k as [|y k']; [cbn in Hl; discriminate|]. inversion Hk as [|? ? Hy Hk']; subst.
  unfold lel in Hl. cbn in Hl. cbn.
  destruct (Nat.ltb_spec y 255); [discriminate|]. destruct (Nat.ltb_spec 255 y); [lia|].
  assert (y = 255) by lia. subst. cbn. apply IH; [assumption|exact Hl].
Qed.

Theorem advance_spec p : wf p -> forall s, advance p = Some s ->
  forall k, wf k ->
    (prefix p k = true -> ltl k s = true) /\
    (ltl k s = true -> lel p k = true -> prefix p k = true).
Proof.
  induction p as [|x r IH]; intros Hp s Hs k Hk; [discriminate|].
  inversion Hp as [|? ? Hx0 Hr0]; subst. cbn in Hs. destruct (advance r) as [r'|] eqn:E.
  - inversion Hs; subst. specialize (IH Hr0 r' eq_refl).
    destruct k as [|y k']; [split; [discriminate|intros _ H; cbn in H; discriminate]|].
    inversion Hk as [|? ? Hy Hk']; subst. specialize (IH k' Hk'). destruct IH as [I1 I2]. cbn. unfold lel. cbn.
    destruct (Nat.eqb_spec x y) as [->|Hne].
    + rewrite Nat.ltb_irrefl. cbn. split; [exact I1|]. intros A B. apply I2; [exact A|exact B].
    + cbn. split; [discriminate|]. destruct (Nat.ltb_spec y x), (Nat.ltb_spec x y); try lia; intros; discriminate.
  - destruct (Nat.ltb_spec x 255) as [Hx|Hx]; [|discriminate]. inversion Hs; subst.
    assert (A255 : all255 r) by (apply advance_none; assumption).
    destruct k as [|y k']; [split; [discriminate|intros _ H; cbn in H; discriminate]|].
    inversion Hk as [|? ? Hy Hk']; subst. cbn. unfold lel. cbn.
    destruct (Nat.eqb_spec x y) as [->|Hne]; cbn.
    + destruct (Nat.ltb_spec y (S y)); [|lia]. split; [reflexivity|]. rewrite Nat.ltb_irrefl.
      intros _ B. apply all255_le_prefix; assumption.
    + split; [discriminate|]. destruct (Nat.ltb_spec y (S x)), (Nat.ltb_spec (S x) y), (Nat.ltb_spec y x), (Nat.ltb_spec x y); try lia; try discriminate.
      destruct k'; intros; discriminate.
Qed.
Print Assumptions advance_spec.
Print Assumptions advance_key_eq.
