(* C07 / C18 / C01 glue: every chunk the transcribed sorter produces — by a spill or by a chunk merge,
   with ANY merge function — has strictly ascending keys.  So the Writer the real sorter streams a chunk
   into never hits its order assertion (C18_sorted_input_never_panics) and the chunk file reads back as
   exactly the chunk (C01_roundtrip_total): the modelling of chunk files by the entry lists they hold. *)
From Coq Require Import Lia ZArith ZifyN ZifyBool ZifyNat Sorted Sorting.Permutation.
From Grenad.model Require Import Base Reader Spec Merger Sorter.
From Grenad.proofs Require Import BaseProofs SortedFacts SpecProofs MergerProofs MergeRefine SorterRefine MergeWriter.
Ltac Zify.zify_post_hook ::= Z.div_mod_to_equations.

Lemma merge_groups_keys mf : forall gs calls out n, merge_groups mf calls gs = Done (out, n) -> map fst out = map fst gs.
Proof.
  induction gs as [|[k vs] gs IH]; intros calls out n H; cbn [merge_groups] in H.
  - injection H as <- _. reflexivity.
  - destruct (mf calls k vs) as [v| |]; cbn [bind] in H; try discriminate.
    destruct (merge_groups mf (calls + 1) gs) as [[rest n']| |] eqn:E; cbn [bind fst snd] in H; try discriminate.
    injection H as <- _. cbn [map fst]. f_equal. exact (IH _ _ _ E).
Qed.

Section Chunks.
  Variable mf : mergefn.
  Variable sortf : list entry -> list entry.
  Hypothesis sort_sorted : forall l, sorted_leb (sortf l) = true.

  Lemma write_chunk_sorted st st1 : gs_write_chunk sortf mf st = Done st1 ->
    Forall ssorted (ss_chunks st) -> Forall ssorted (ss_chunks st1).
  Proof.
    unfold gs_write_chunk. intros H Hs.
    destruct (merge_groups mf (ss_calls st) (group_sorted (sortf (rev (ss_pending st))))) as [[ch n]| |] eqn:E; cbn [bind fst snd] in H; try discriminate.
    injection H as <-. cbn [ss_chunks]. apply Forall_app. split; [exact Hs|]. constructor; [|constructor].
    unfold ssorted, keys. rewrite (merge_groups_keys mf _ _ _ _ E).
    destruct (group_sorted_spec _ (sort_sorted (rev (ss_pending st)))) as (A & _). exact A.
  Qed.

  Lemma merge_chunks_sorted st st1 : s_merge_chunks mf st = Done st1 ->
    Forall ssorted (ss_chunks st) -> Forall ssorted (ss_chunks st1).
  Proof.
    unfold s_merge_chunks. intros H Hs.
    destruct (merge_run mf (ss_calls st) (ss_chunks st)) as [[out n]| |] eqn:E; cbn [bind fst snd] in H; try discriminate.
    injection H as <-. cbn [ss_chunks]. constructor; [|constructor].
    destruct (merge_output_sorted mf _ _ _ _ Hs E) as (A & _). unfold ssorted, keys. apply sorted_strictb_SS. exact A.
  Qed.

  Lemma insert_chunks_sorted c st k v st' : gs_insert sortf c mf st k v = Done st' ->
    Forall ssorted (ss_chunks st) -> Forall ssorted (ss_chunks st').
  Proof.
    unfold gs_insert. generalize 80%nat. intros fuel H Hs.
    destruct ((U32_MAX <? len k) || (U32_MAX <? len v)); [discriminate|].
    destruct (eb_fits (ss_buf st) (entry_sz k v)) as [fits| |]; cbn [bind] in H; try discriminate.
    destruct (fits || (negb (sc_threshold c <=? eb_L (ss_buf st)) && sc_realloc c)).
    - destruct (eb_insert fuel (ss_buf st) (entry_sz k v)) as [b| |]; cbn [bind] in H; try discriminate. injection H as <-. exact Hs.
    - destruct (gs_write_chunk sortf mf st) as [st1| |] eqn:Ew; cbn [bind] in H; try discriminate.
      pose proof (write_chunk_sorted st st1 Ew Hs) as Hs1.
      destruct (eb_insert fuel (ss_buf st1) (entry_sz k v)) as [b| |]; cbn [bind] in H; try discriminate.
      destruct (sc_max_chunks c <=? len (ss_chunks (mk_sstate [(k, v)] b (ss_chunks st1) (ss_calls st1) (ss_events st1)))).
      + exact (merge_chunks_sorted _ st' H Hs1).
      + injection H as <-. exact Hs1.
  Qed.

  Theorem sorter_chunks_sorted c : forall ins st st', gs_inserts sortf c mf st ins = Done st' ->
    Forall ssorted (ss_chunks st) -> Forall ssorted (ss_chunks st').
  Proof.
    induction ins as [|[k v] ins IH]; intros st st' H Hs; cbn [gs_inserts] in H.
    - injection H as <-. exact Hs.
    - destruct (gs_insert sortf c mf st k v) as [st1| |] eqn:E; cbn [bind] in H; try discriminate.
      exact (IH st1 st' H (insert_chunks_sorted c st k v st1 E Hs)).
  Qed.

  (* the final output of the sorter (stream, writer and chunk-cursor paths return the same list) *)
  Theorem sorter_output_sorted c ins out : gsorter_run sortf c mf ins = Done out ->
    sorted_strictb (map fst out) = true.
  Proof.
    unfold gsorter_run. intro H.
    destruct (gs_inserts sortf c mf (s_new c) ins) as [st| |] eqn:Ei; cbn [bind] in H; try discriminate.
    pose proof (sorter_chunks_sorted c ins (s_new c) st Ei ltac:(constructor)) as Hs.
    unfold gs_finish in H. destruct (gs_write_chunk sortf mf st) as [st1| |] eqn:Ew; cbn [bind] in H; try discriminate.
    pose proof (write_chunk_sorted st st1 Ew Hs) as Hs1.
    destruct (merge_run mf (ss_calls st1) (ss_chunks st1)) as [[o n]| |] eqn:Em; cbn [bind fst] in H; try discriminate.
    injection H as <-. destruct (merge_output_sorted mf _ _ _ _ Hs1 Em) as (A & _). exact A.
  Qed.
End Chunks.

(* the transcribed sorter *)
Theorem model_chunks_sorted c mf ins st : s_inserts c mf (s_new c) ins = Done st -> Forall ssorted (ss_chunks st).
Proof.
  rewrite gs_inserts_stable. intro H. exact (sorter_chunks_sorted mf sort_entries sort_entries_sorted c ins (s_new c) st H ltac:(constructor)).
Qed.

Theorem model_output_sorted c mf ins out : sorter_run c mf ins = Done out -> sorted_strictb (map fst out) = true.
Proof. rewrite gsorter_run_stable. apply sorter_output_sorted. exact sort_entries_sorted. Qed.

(* the sorter's output written through a writer (write_into_stream_writer) reads back as that output *)
From Grenad.gen Require Import Consts.
From Grenad.model Require Import Block Trailer Writer.
From Grenad.proofs Require Import BlockProofs WriterStore WriterProgress ReaderRefine.

Theorem sorter_into_writer c0 mf ins out compress decompress c :
  sorter_run c0 mf ins = Done out ->
  (forall b z, compress (wc_codec c) (wc_level c) b = Done z -> decompress (wc_codec c) z = Done b) ->
  (forall b, exists z, compress (wc_codec c) (wc_level c) b = Done z) ->
  wc_levels c < 256 -> 1 <= wc_interval c -> wc_codec c <= 5 ->
  out <> [] -> entries_ok out -> len out + 1 <= U32_MAX ->
  exists s lg m,
    w_run_gen vsink vs_wr vs_fl vs_count compress c vs_empty out = (len out, Done (s, lg, m)) /\
    (len (vs_bytes s) < 2^64 -> mem_ok lg ->
     open_meta (vs_bytes s) = Done m /\ m_count m = len out /\
     exists st rs, run_ops (load_block decompress (vs_bytes s) (m_codec m)) (m_root m) (m_levels m) cs_fresh
                           (repeat ONext (S (length out))) = Done (st, rs) /\ rs = map Some out ++ [None]).
Proof.
  intros Hrun Hcodec Htotal HL Hint Hk Hne Hok Hlen.
  pose proof (model_output_sorted c0 mf ins out Hrun) as Hsorted.
  destruct (roundtrip_total compress decompress c Hcodec Htotal out HL Hint Hk Hne Hsorted Hok Hlen) as (s & lg & m & Hw & Hread).
  exists s, lg, m. split; [exact Hw|]. intros H64 Hmem. destruct (Hread H64 Hmem) as (A & B & _ & Cc & _).
  split; [exact A|]. split; [exact B|]. exact Cc.
Qed.
