(* C06, the sources: model/Merger.v represents a source by the list of entries its cursor still has to
   yield.  Here the merger is transcribed once more over opaque cursor states with a `next` function
   (cm_*: a heap of (source index, current entry, cursor state), pop the least, pop the equal keys, merge,
   advance each popped cursor and push it back unless exhausted), and proved to compute exactly what the
   list-based merger computes on the lists the cursors yield — for any `next`, hence for the multi-level
   reader cursor over well-formed stores (a fresh cursor's successive move_on_next yield the content). *)
From Coq Require Import Lia ZArith ZifyN ZifyBool ZifyNat.
From Grenad.model Require Import Base Block Reader Spec Merger.
From Grenad.proofs Require Import BaseProofs MergerProofs ReaderRefine IterRefine.
Ltac Zify.zify_post_hook ::= Z.div_mod_to_equations.

Section Cursors.
  Variable S : Type.
  Variable snext : S -> outcome (S * option entry).

  Record csrc : Type := mk_csrc { c_idx : N; c_cur : entry; c_st : S }.

  (* Entry::cmp, on the current entry *)
  Definition c_lt (a b : csrc) : bool :=
    match lex_compare (fst (c_cur a)) (fst (c_cur b)) with Lt => true | Gt => false | Eq => c_idx a <? c_idx b end.

  Fixpoint cpop_min_aux (best : csrc) (seen : list csrc) (l : list csrc) : csrc * list csrc :=
    match l with
    | [] => (best, seen)
    | h :: r => if c_lt h best then cpop_min_aux h (best :: seen) r else cpop_min_aux best (h :: seen) r
    end.
  Definition cpop_min (l : list csrc) : option (csrc * list csrc) :=
    match l with [] => None | h :: r => Some (cpop_min_aux h [] r) end.

  Fixpoint cpop_equal (fuel : nat) (fk : bytes) (heap : list csrc) (acc : list csrc) : list csrc * list csrc :=
    match fuel with
    | O => (rev acc, heap)
    | Datatypes.S f =>
      match cpop_min heap with
      | Some (h, heap') => if bytes_eqb fk (fst (c_cur h)) then cpop_equal f fk heap' (h :: acc) else (rev acc, heap)
      | None => (rev acc, heap)
      end
    end.

  (* `if entry.cursor.move_on_next()?.is_some() { heap.push(entry) }` for every popped entry *)
  Fixpoint cpush_back (hs : list csrc) (heap : list csrc) : outcome (list csrc) :=
    match hs with
    | [] => Done heap
    | h :: r =>
      do x <- snext (c_st h);
      let '(s', e) := x in
      match e with
      | Some kv => cpush_back r (mk_csrc (c_idx h) kv s' :: heap)
      | None => cpush_back r heap
      end
    end.

  Record cmstate : Type := mk_cmstate { cm_heap : list csrc; cm_calls : N }.

  Definition cm_next (mf : mergefn) (st : cmstate) : outcome (cmstate * option entry) :=
    match cpop_min (cm_heap st) with
    | None => Done (st, None)
    | Some (first, heap1) =>
      let '(fk, fv) := c_cur first in
      let '(others, heap2) := cpop_equal (length heap1) fk heap1 [] in
      let vals := fv :: map (fun h => snd (c_cur h)) others in
      do merged <- mf (cm_calls st) fk vals;
      do heap3 <- cpush_back (first :: others) heap2;
      Done (mk_cmstate heap3 (cm_calls st + 1), Some (fk, merged))
    end.

  Fixpoint cm_all (mf : mergefn) (fuel : nat) (st : cmstate) : outcome (list entry * N) :=
    match fuel with
    | O => Fail EFuel
    | Datatypes.S f =>
      do r <- cm_next mf st;
      let '(st', e) := r in
      match e with
      | Some kv => do rest <- cm_all mf f st'; Done (kv :: fst rest, snd rest)
      | None => Done ([], cm_calls st')
      end
    end.

  (* into_stream_merger_iter: every source is advanced once; exhausted ones are dropped *)
  Fixpoint cm_init (srcs : list S) (i : N) : outcome (list csrc) :=
    match srcs with
    | [] => Done []
    | s :: r =>
      do x <- snext s;
      let '(s', e) := x in
      do rest <- cm_init r (N.succ i);
      match e with
      | Some kv => Done (mk_csrc i kv s' :: rest)
      | None => Done rest
      end
    end.

  (* ---- what a cursor state yields ---- *)
  Fixpoint yields (s : S) (l : list entry) : Prop :=
    match l with
    | [] => exists s', snext s = Done (s', None)
    | e :: r => exists s', snext s = Done (s', Some e) /\ yields s' r
    end.

  Definition sim (x : csrc) (h : hentry) : Prop :=
    c_idx x = he_idx h /\ exists rest, he_rest h = c_cur x :: rest /\ yields (c_st x) rest.

  Lemma sim_lt a b a' b' : sim a a' -> sim b b' -> c_lt a b = he_lt a' b'.
  Proof.
    intros (Ia & ra & Ea & _) (Ib & rb & Eb & _). unfold c_lt, he_lt, he_key. rewrite Ea, Eb, Ia, Ib.
    destruct (c_cur a) as [ka va], (c_cur b) as [kb vb]. reflexivity.
  Qed.

  Lemma pop_min_aux_sim : forall l l' best best' seen seen',
    Forall2 sim l l' -> sim best best' -> Forall2 sim seen seen' ->
    sim (fst (cpop_min_aux best seen l)) (fst (pop_min_aux best' seen' l')) /\
    Forall2 sim (snd (cpop_min_aux best seen l)) (snd (pop_min_aux best' seen' l')).
  Proof.
    induction l as [|h l IH]; intros l' best best' seen seen' Hl Hb Hs; inversion Hl as [|? h' ? l'' Hh Hl']; subst; cbn [cpop_min_aux pop_min_aux].
    - auto.
    - rewrite (sim_lt h best h' best' Hh Hb). destruct (he_lt h' best').
      + apply IH; [exact Hl'|exact Hh|constructor; assumption].
      + apply IH; [exact Hl'|exact Hb|constructor; assumption].
  Qed.

  Lemma pop_min_sim l l' : Forall2 sim l l' ->
    match cpop_min l, pop_min l' with
    | None, None => True
    | Some (x, r), Some (h, r') => sim x h /\ Forall2 sim r r'
    | _, _ => False
    end.
  Proof.
    intro H. destruct H as [|x h l l' Hx Hl]; cbn [cpop_min pop_min]; [exact I|].
    pose proof (pop_min_aux_sim l l' x h [] [] Hl Hx ltac:(constructor)) as [A B].
    destruct (cpop_min_aux x [] l), (pop_min_aux h [] l'). auto.
  Qed.

  Lemma Forall2_rev {A B} (R : A -> B -> Prop) l l' : Forall2 R l l' -> Forall2 R (rev l) (rev l').
  Proof.
    induction 1 as [|x y l l' Hxy _ IH]; [constructor|]. cbn [rev]. apply Forall2_app; [exact IH|constructor; [exact Hxy|constructor]].
  Qed.

  Lemma pop_equal_sim fk : forall fuel heap heap' acc acc',
    Forall2 sim heap heap' -> Forall2 sim acc acc' ->
    Forall2 sim (fst (cpop_equal fuel fk heap acc)) (fst (pop_equal fuel fk heap' acc')) /\
    Forall2 sim (snd (cpop_equal fuel fk heap acc)) (snd (pop_equal fuel fk heap' acc')).
  Proof.
    induction fuel as [|f IH]; intros heap heap' acc acc' Hh Ha; cbn [cpop_equal pop_equal].
    - cbn [fst snd]. split; [apply Forall2_rev; exact Ha|exact Hh].
    - pose proof (pop_min_sim heap heap' Hh) as Hp.
      destruct (cpop_min heap) as [[x r]|], (pop_min heap') as [[h r']|]; try contradiction.
      + destruct Hp as [Hx Hr]. pose proof Hx as (_ & rest & Er & _). unfold he_key. rewrite Er.
        destruct (c_cur x) as [kx vx]. cbn [fst].
        destruct (bytes_eqb fk kx).
        * apply IH; [exact Hr|constructor; assumption].
        * cbn [fst snd]. split; [apply Forall2_rev; exact Ha|exact Hh].
      + cbn [fst snd]. split; [apply Forall2_rev; exact Ha|exact Hh].
  Qed.

  Lemma push_back_sim : forall hs hs' heap heap', Forall2 sim hs hs' -> Forall2 sim heap heap' ->
    exists heap3, cpush_back hs heap = Done heap3 /\ Forall2 sim heap3 (push_back hs' heap').
  Proof.
    induction hs as [|x hs IH]; intros hs' heap heap' Hs Hh; inversion Hs as [|? h ? hs'' Hx Hs']; subst; cbn [cpush_back push_back].
    - exists heap. auto.
    - destruct Hx as (Ix & rest & Er & Hy). unfold advance. rewrite Er. cbn [tl he_rest he_idx].
      destruct rest as [|e rest'].
      + destruct Hy as (s' & En). rewrite En. cbn [bind]. apply IH; assumption.
      + destruct Hy as (s' & En & Hy'). rewrite En. cbn [bind]. apply IH; [exact Hs'|].
        constructor; [|exact Hh]. split; [cbn [c_idx he_idx]; exact Ix|]. exists rest'. cbn [he_rest c_cur c_st]. auto.
  Qed.

  Definition simst (st : cmstate) (st' : mstate) : Prop :=
    Forall2 sim (cm_heap st) (ms_heap st') /\ cm_calls st = ms_calls st'.

  Lemma Forall2_length' {A B} (R : A -> B -> Prop) l l' : Forall2 R l l' -> length l = length l'.
  Proof. induction 1; cbn [length]; congruence. Qed.

  Lemma cm_next_sim mf st st' : simst st st' ->
    match merge_next mf st' with
    | Done (st1', e) => exists st1, cm_next mf st = Done (st1, e) /\ simst st1 st1'
    | Panic => cm_next mf st = Panic
    | Fail err => cm_next mf st = Fail err
    end.
  Proof.
    intros [Hh Hc]. unfold cm_next, merge_next. pose proof (pop_min_sim _ _ Hh) as Hp.
    destruct (cpop_min (cm_heap st)) as [[x r]|], (pop_min (ms_heap st')) as [[h r']|]; try contradiction.
    - destruct Hp as [Hx Hr]. pose proof Hx as (Ix & rest & Er & Hy). rewrite Er.
      destruct (c_cur x) as [fk fv] eqn:Ecur.
      rewrite (Forall2_length' _ _ _ Hr).
      pose proof (pop_equal_sim fk (length r') r r' [] [] Hr ltac:(constructor)) as [Ho H2].
      destruct (cpop_equal (length r') fk r []) as [others heap2], (pop_equal (length r') fk r' []) as [others' heap2'].
      cbn [fst snd] in Ho, H2.
      assert (Ev : map (fun h0 => snd (c_cur h0)) others = flat_map (fun h0 => match he_val h0 with Some v => [v] | None => [] end) others').
      { clear -Ho. induction Ho as [|a b la lb Hab _ IH]; [reflexivity|]. cbn [map flat_map]. rewrite IH.
        destruct Hab as (_ & rest & Er & _). unfold he_val. rewrite Er. destruct (c_cur a). reflexivity. }
      rewrite Ev, Hc. destruct (mf (ms_calls st') fk _) as [merged| |]; cbn [bind]; try reflexivity.
      destruct (push_back_sim (x :: others) (h :: others') heap2 heap2' ltac:(constructor; assumption) H2) as (heap3 & E3 & H3).
      rewrite E3. cbn [bind]. eexists. split; [reflexivity|]. split; [exact H3|reflexivity].
    - exists st. split; [reflexivity|]. split; assumption.
  Qed.

  Theorem cm_all_sim mf : forall fuel st st', simst st st' -> cm_all mf fuel st = merge_all mf fuel st'.
  Proof.
    induction fuel as [|f IH]; intros st st' Hs; [reflexivity|]. cbn [cm_all merge_all].
    pose proof (cm_next_sim mf st st' Hs) as Hn.
    destruct (merge_next mf st') as [[st1' e]| |].
    - destruct Hn as (st1 & E & Hs1). rewrite E. cbn [bind]. destruct e as [kv|].
      + rewrite (IH st1 st1' Hs1). reflexivity.
      + destruct Hs1 as [_ Hc]. rewrite Hc. reflexivity.
    - rewrite Hn. reflexivity.
    - rewrite Hn. reflexivity.
  Qed.

  Lemma cm_init_sim : forall srcs ess i, Forall2 yields srcs ess ->
    exists heap, cm_init srcs i = Done heap /\ Forall2 sim heap (init_heap ess i).
  Proof.
    induction srcs as [|s srcs IH]; intros ess i H; inversion H as [|? es ? ess' Hy Hr]; subst; cbn [cm_init init_heap].
    - exists []. split; [reflexivity|constructor].
    - destruct (IH ess' (N.succ i) Hr) as (rest & Er & Hs). destruct es as [|e es'].
      + destruct Hy as (s' & En). rewrite En. cbn [bind]. rewrite Er. cbn [bind]. exists rest. auto.
      + destruct Hy as (s' & En & Hy'). rewrite En. cbn [bind]. rewrite Er. cbn [bind]. eexists. split; [reflexivity|].
        constructor; [|exact Hs]. split; [reflexivity|]. exists es'. cbn [he_rest c_cur c_st]. auto.
  Qed.

  (* ================= the cursor-based merger is the list-based merger on what the cursors yield ================= *)
  Definition cm_run (mf : mergefn) (calls : N) (fuel : nat) (srcs : list S) : outcome (list entry * N) :=
    do heap <- cm_init srcs 0; cm_all mf fuel (mk_cmstate heap calls).

  Theorem cm_run_lists mf calls srcs ess : Forall2 yields srcs ess ->
    cm_run mf calls (Datatypes.S (total_len ess)) srcs = merge_run mf calls ess.
  Proof.
    intro H. unfold cm_run, merge_run. destruct (cm_init_sim srcs ess 0 H) as (heap & E & Hs). rewrite E. cbn [bind].
    apply cm_all_sim. split; [exact Hs|reflexivity].
  Qed.
End Cursors.

(* ---- the reader cursor over a well-formed store yields the content ---- *)
Section ReaderSources.
  Variables (ld : N -> N -> outcome block) (root levels : N) (bs : N -> option (block * list entry * list nat)).
  Hypothesis W : wf_store ld root levels bs.
  Notation es := (content root levels bs).
  Definition rnext (st : cstate) : outcome (cstate * option entry) := cstep ld root levels st ONext.

  Lemma yields_from n st : Rel root bs levels (At (N.of_nat n)) st -> forall rest, skipn (S n) es = rest -> yields cstate rnext st rest.
  Proof.
    intros HR rest. revert n st HR. induction rest as [|e rest IH]; intros n st HR Hsk; cbn [yields].
    - destruct (step_next (cstep ld root levels) es (Rel root bs levels) (store_step ld root levels bs W) n st HR) as (st' & r & E & Er & _).
      exists st'. unfold rnext. rewrite E. f_equal. f_equal. rewrite Er. apply nth_error_None.
      apply (f_equal (@length entry)) in Hsk. rewrite skipn_length in Hsk. cbn [length] in Hsk. lia.
    - destruct (step_next (cstep ld root levels) es (Rel root bs levels) (store_step ld root levels bs W) n st HR) as (st' & r & E & Er & HR').
      destruct (skipn_cons_inv _ _ _ _ Hsk) as [Hn Hsk']. rewrite Hn in Er. subst r.
      exists st'. unfold rnext. split; [exact E|]. apply (IH (S n) st' (HR' ltac:(discriminate)) Hsk').
  Qed.

  Theorem fresh_cursor_yields_content : yields cstate rnext cs_fresh es.
  Proof.
    destruct (R_step ld root levels bs W Fresh cs_fresh ONext (fresh_rel root bs levels) ltac:(intro; discriminate)) as (st' & r & E & HR & Hres & _).
    cbn [aspec] in HR, Hres. pose proof (yields_from 0 st') as Y.
    destruct (content root levels bs) as [|e0 rest] eqn:Ees; cbn [at_result fst snd res_ok Rel] in HR, Hres; subst r; cbn [yields]; exists st'.
    - exact E.
    - split; [exact E|]. apply Y; [exact HR|reflexivity].
  Qed.
End ReaderSources.

(* ---- sources of different files: each with its own loader, root and depth ---- *)
Record rsrc : Type := mk_rsrc { r_ld : N -> N -> outcome block; r_root : N; r_levels : N; r_st : cstate }.
Definition rsnext (s : rsrc) : outcome (rsrc * option entry) :=
  do x <- cstep (r_ld s) (r_root s) (r_levels s) (r_st s) ONext;
  Done (mk_rsrc (r_ld s) (r_root s) (r_levels s) (fst x), snd x).

Lemma yields_rsrc ld root levels : forall l st, yields cstate (rnext ld root levels) st l ->
  yields rsrc rsnext (mk_rsrc ld root levels st) l.
Proof.
  induction l as [|e l IH]; intros st H; cbn [yields] in *.
  - destruct H as (s' & E). eexists. unfold rsnext. cbn [r_ld r_root r_levels r_st]. unfold rnext in E. rewrite E. reflexivity.
  - destruct H as (s' & E & H'). exists (mk_rsrc ld root levels s'). split; [|apply IH; exact H'].
    unfold rsnext. cbn [r_ld r_root r_levels r_st]. unfold rnext in E. rewrite E. reflexivity.
Qed.

(* a reader source: a fresh cursor over a well-formed store *)
Definition reader_source (s : rsrc) (es : list entry) : Prop :=
  r_st s = cs_fresh /\ exists bs, wf_store (r_ld s) (r_root s) (r_levels s) bs /\ content (r_root s) (r_levels s) bs = es.

Theorem merge_of_readers mf calls srcs ess : Forall2 reader_source srcs ess ->
  cm_run rsrc rsnext mf calls (Datatypes.S (total_len ess)) srcs = merge_run mf calls ess.
Proof.
  intro H. apply cm_run_lists. induction H as [|s es srcs ess Hs _ IH]; constructor; [|exact IH].
  destruct Hs as (Hf & bs & W & Ec). destruct s as [ld root levels st]. cbn [r_ld r_root r_levels r_st] in *. subst st.
  apply yields_rsrc. rewrite <- Ec. apply fresh_cursor_yields_content. exact W.
Qed.
