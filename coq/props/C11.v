(* C11 — Results and emitted bytes do not depend on how I/O calls are split/interrupted.
   Statements only.  A schedule is the list of responses of the coming write/read calls: accept at
   most n >= 1 bytes, or ErrorKind::Interrupted; benign = no other error. *)
From Grenad.model Require Import Base Varint Block Trailer Writer Reader IoModel.
From Grenad.proofs Require Import IoProofs WriterHom IoWriter.

(* Write::write_all through CountWrite: every byte delivered once, in order, counted once *)
Theorem C11_write_all : forall s buf, benign (sk_sched s) ->
  exists s', sk_wr s buf = Done s' /\ sk_bytes s' = sk_bytes s ++ buf /\
             sk_count s' = sk_count s + len buf /\ benign (sk_sched s').
Proof. exact sk_wr_delivers. Qed.
Print Assumptions C11_write_all.

(* the whole writer, any configuration, any inserts (sorted or not), any benign schedule: the run
   ends at the same public call with the same outcome as over a plain Vec sink; when it finishes,
   the bytes handed to the sink, the byte count (hence every recorded offset), the emitted blocks
   and the trailer are identical *)
Theorem C11_write : forall compress sched c es, benign sched ->
  let r1 := w_run_sched compress sched c es in
  let r2 := w_run_plain compress c es in
  fst r1 = fst r2 /\
  orel never (fun p q => sk_bytes (fst (fst p)) = vs_bytes (fst (fst q)) /\ sk_count (fst (fst p)) = vs_count (fst (fst q)) /\
                         snd (fst p) = snd (fst q) /\ snd p = snd q) (snd r1) (snd r2).
Proof. exact sched_run_eq. Qed.
Print Assumptions C11_write.

(* Read::read_exact and Read::read_to_end over Take on a scheduled source return exactly the bytes
   of an unscheduled one, whatever buffer sizes std offers *)
Theorem C11_read_exact : forall fuel s n acc,
  benign (sr_sched s) -> (length (sr_sched s) + N.to_nat n < fuel)%nat -> n <= len (avail s) ->
  exists s', read_exact fuel s n acc = (s', Done (acc ++ firstnN n (avail s))) /\
             sr_data s' = sr_data s /\ sr_pos s' = sr_pos s + n /\ benign (sr_sched s') /\
             (length (sr_sched s') <= length (sr_sched s))%nat.
Proof. exact read_exact_spec. Qed.
Print Assumptions C11_read_exact.

Theorem C11_read_to_end : forall fuel s limit reqs acc,
  benign (sr_sched s) -> Forall (fun r => 1 <= r) reqs ->
  (length (sr_sched s) + N.to_nat (N.min limit (len (avail s))) + 1 < fuel)%nat ->
  exists s', read_to_end_take fuel s limit reqs acc = (s', Done (acc ++ firstnN limit (avail s))) /\
             sr_data s' = sr_data s /\ benign (sr_sched s').
Proof. exact read_to_end_take_spec. Qed.
Print Assumptions C11_read_to_end.

(* hence every block load — the only way readers, iterators, mergers and the sorter's chunk
   readers consult a source — yields the same block under every benign schedule *)
Theorem C11_block_load : forall dec file codec sched reqs ord off,
  benign sched -> Forall (fun r => 1 <= r) reqs -> 8 <= len (skipnN off file) ->
  load_block_sched dec file codec sched reqs off = load_block dec file codec ord off.
Proof. exact load_block_sched_eq. Qed.
Print Assumptions C11_block_load.

Example C11_example :
  sk_bytes (fst (fst (match snd (w_run_sched compress_none [RInterrupt; RAccept 1; RInterrupt; RAccept 3; RAccept 1]
                           (mk_wcfg 0 0 1024 8 1) [([1], [2]); ([3], [4; 5])]) with Done x => x | _ => (sk_new [], [], mk_meta FormatV2 0 0 0 0) end)))
  = vs_bytes (fst (fst (match snd (w_run_plain compress_none (mk_wcfg 0 0 1024 8 1) [([1], [2]); ([3], [4; 5])]) with Done x => x | _ => (vs_empty, [], mk_meta FormatV2 0 0 0 0) end)))
  /\ benign [RInterrupt; RAccept 1; RInterrupt; RAccept 3; RAccept 1].
Proof. split; [vm_compute; reflexivity|]. repeat (constructor; try exact I; try (cbn; discriminate)). Qed.

(* ================= readers under schedules =================
   ld_sched: every block load is performed under its own schedule of short reads / interruptions and
   its own sequence of buffer sizes.  If the file is a well-formed store for the plain loader it is
   the same store (same blocks, same content) for the scheduled one — so every theorem about cursors
   and iterators on well-formed stores (C02, C03, C04, C05, C10_same_content) applies verbatim and
   yields the same results *)
From Grenad.model Require Import Spec.
From Grenad.proofs Require Import ReaderRefine IoReader.

Theorem C11_reader_same_store : forall dec file codec scheds reqs root levels bs,
  (forall ord, benign (scheds ord)) -> (forall ord, Forall (fun r => 1 <= r) (reqs ord)) ->
  wf_store (load_block dec file codec) root levels bs ->
  wf_store (ld_sched dec file codec scheds reqs) root levels bs.
Proof. exact wf_store_sched. Qed.
Print Assumptions C11_reader_same_store.

(* spelled out for cursor histories: the same results, operation by operation *)
From Grenad.proofs Require Import WriterStore V1Same.

Theorem C11_reader_histories : forall dec file codec scheds reqs root levels bs,
  (forall ord, benign (scheds ord)) -> (forall ord, Forall (fun r => 1 <= r) (reqs ord)) ->
  wf_store (load_block dec file codec) root levels bs ->
  forall ops, adm_ops (content root levels bs) Fresh ops ->
  exists st1 st2 rs,
    run_ops (ld_sched dec file codec scheds reqs) root levels cs_fresh ops = Done (st1, rs) /\
    run_ops (load_block dec file codec) root levels cs_fresh ops = Done (st2, rs) /\
    Forall2 res_ok (snd (aspec_ops (content root levels bs) Fresh ops)) rs.
Proof.
  intros dec file codec scheds reqs root levels bs Hb Hq W ops Ha.
  exact (same_histories _ _ _ _ _ _ _ _ (wf_store_sched dec file codec scheds reqs root levels bs Hb Hq W) W _ eq_refl eq_refl ops Ha).
Qed.
Print Assumptions C11_reader_histories.

(* opening a file: Metadata::read_from over a scheduled source (the same seeks; every read_u32 /
   read_u64 / read_u8 a read_exact under its own schedule) returns exactly what it returns on a plain
   source — the same trailer or the same error — for every byte string *)
Theorem C11_open_under_schedule : forall scheds f, (forall i, benign (scheds i)) ->
  open_meta_sched scheds f = open_meta f.
Proof. exact open_meta_sched_eq. Qed.
Print Assumptions C11_open_under_schedule.

(* the merger (and so the sorter's chunk merges and final merge): a source read under per-load benign
   schedules is a reader source with the same content, so the merge — output, merge-function calls,
   failure — is the same as over plain sources *)
From Grenad.model Require Import Merger.
From Grenad.proofs Require Import MergeCursors.

Theorem C11_scheduled_source : forall dec file codec scheds reqs root levels es,
  (forall ord, benign (scheds ord)) -> (forall ord, Forall (fun r => 1 <= r) (reqs ord)) ->
  reader_source (mk_rsrc (load_block dec file codec) root levels cs_fresh) es ->
  reader_source (mk_rsrc (ld_sched dec file codec scheds reqs) root levels cs_fresh) es.
Proof.
  intros dec file codec scheds reqs root levels es Hb Hq (Hf & bs & W & Ec). split; [reflexivity|].
  exists bs. split; [exact (wf_store_sched dec file codec scheds reqs root levels bs Hb Hq W)|exact Ec].
Qed.
Print Assumptions C11_scheduled_source.

Theorem C11_merger_same_result : forall mf calls srcs1 srcs2 ess,
  Forall2 reader_source srcs1 ess -> Forall2 reader_source srcs2 ess ->
  cm_run rsrc rsnext mf calls (S (total_len ess)) srcs1 = cm_run rsrc rsnext mf calls (S (total_len ess)) srcs2.
Proof. intros mf calls srcs1 srcs2 ess H1 H2. rewrite (merge_of_readers mf calls srcs1 ess H1), (merge_of_readers mf calls srcs2 ess H2). reflexivity. Qed.
Print Assumptions C11_merger_same_result.

(* ================= the sorter over a chunk storage that splits and interrupts =================
   FileSorter.sched_sorter_run: the sorter writing every chunk through the writer model over a sink that
   accepts bytes according to a benign schedule of its own (one per chunk), re-opening every chunk with its
   trailer reads under benign schedules and reading it through loaders under per-load benign schedules and
   arbitrary buffer sizes.  It returns what the list-level sorter returns (C07_sorter: the specification's
   output), whatever the schedules - unless a chunk file leaves the 2^64-byte envelope. *)
From Grenad.model Require Import Sorter.
From Grenad.proofs Require Import FileSorter.

Theorem C11_sorter_chunk_storage : forall compress decompress wc,
  (forall b z, compress (wc_codec wc) (wc_level wc) b = Done z -> decompress (wc_codec wc) z = Done b) ->
  (forall b, exists z, compress (wc_codec wc) (wc_level wc) b = Done z) ->
  wc_levels wc < 256 -> 1 <= wc_interval wc -> wc_codec wc <= 5 ->
  forall mf : mergefn, (forall n k vs v, mf n k vs = Done v -> len v <= U32_MAX) ->
  forall wsched osched lsched lreqs,
  (forall n, benign (wsched n)) -> (forall n i k, benign (osched n i k)) -> (forall n i ord, benign (lsched n i ord)) ->
  (forall n i ord, Forall (fun r => 1 <= r) (lreqs n i ord)) ->
  forall c ins, len ins + 1 <= U32_MAX ->
  sched_sorter_run compress decompress wc wsched osched lsched lreqs c mf ins = Fail EFuel \/
  sched_sorter_run compress decompress wc wsched osched lsched lreqs c mf ins = sorter_run c mf ins.
Proof. exact sched_sorter_refines. Qed.
Print Assumptions C11_sorter_chunk_storage.

(* non-vacuity: one-byte-at-a-time sinks with interruptions, sources that interrupt every load: same result *)
Example C11_sorter_chunk_storage_example :
  let wc := mk_wcfg 0 0 16 1 1 in
  let c := mk_scfg 64 false 2 48 in
  let ins := [([3], [1]); ([1], [2]); ([3], [3]); ([2], [4]); ([1], [5])] in
  sched_sorter_run compress_none decompress_none wc (fun _ => [RInterrupt; RAccept 1; RAccept 1; RInterrupt; RAccept 2])
                   (fun _ _ _ => [RInterrupt; RAccept 1]) (fun _ _ _ => [RInterrupt; RAccept 3; RInterrupt]) (fun _ _ _ => [5; 1; 7]) c mf_concat ins
  = sorter_run c mf_concat ins /\ sorter_run c mf_concat ins = Done [([1], [2; 5]); ([2], [4]); ([3], [1; 3])].
Proof. cbv zeta. split; vm_compute; reflexivity. Qed.
