(* C12, inside one block load: a source whose schedule of short reads / interruptions contains an I/O
   error.  Block::new over such a source either completes before the failing call is reached — and
   then returns exactly the block a plain source gives — or returns exactly that I/O error; never a
   panic, never another block. *)
From Coq Require Import Lia ZArith ZifyN ZifyBool ZifyNat.
From Grenad.model Require Import Base Block Reader IoModel.
From Grenad.proofs Require Import BaseProofs IoProofs.
Ltac Zify.zify_post_hook ::= Z.div_mod_to_equations.

(* the first non-benign response of the schedule is the error k *)
Definition errsched (k : N) (sched : list resp) : Prop :=
  exists pre post, sched = pre ++ RError k :: post /\ benign pre.

Lemma errsched_tail k r sched : benign_resp r -> errsched k (r :: sched) -> errsched k sched.
Proof.
  intros Hr (pre & post & E & Hb). destruct pre as [|p pre].
  - cbn [app] in E. injection E as -> _. cbn [benign_resp] in Hr. contradiction.
  - cbn [app] in E. injection E as -> ->. inversion Hb; subst. exists pre, post. auto.
Qed.

Lemma src_read_err s want k : errsched k (sr_sched s) -> 1 <= want ->
  match src_read s want with
  | (s', RBytes b) => exists j, b = firstnN j (avail s) /\ 1 <= j <= want /\
                      sr_data s' = sr_data s /\ sr_pos s' = sr_pos s + len b /\ errsched k (sr_sched s') /\
                      (length (sr_sched s') < length (sr_sched s))%nat
  | (s', RIntr) => sr_data s' = sr_data s /\ sr_pos s' = sr_pos s /\ errsched k (sr_sched s') /\
                   (length (sr_sched s') < length (sr_sched s))%nat
  | (_, RErr k') => k' = k
  end.
Proof.
  intros He Hw. unfold src_read. fold (avail s). destruct (sr_sched s) as [|r sched] eqn:Es.
  - destruct He as (pre & post & E & _). destruct pre; discriminate.
  - destruct r as [m| |k'].
    + assert (Hm : benign_resp (RAccept m)).
      { destruct He as (pre & post & E & Hb). destruct pre as [|p pre]; [discriminate|]. cbn [app] in E. injection E as <- _. inversion Hb; assumption. }
      pose proof (errsched_tail k _ _ Hm He) as He'. cbn [benign_resp] in Hm. exists (N.min m want). cbn [sr_data sr_pos sr_sched length].
      repeat split; try lia. exact He'.
    + cbn [sr_data sr_pos sr_sched length]. repeat split; try lia. exact (errsched_tail k RInterrupt _ I He).
    + destruct He as (pre & post & E & Hb). destruct pre as [|p pre].
      * cbn [app] in E. injection E as -> _. reflexivity.
      * cbn [app] in E. injection E as <- _. inversion Hb as [|? ? Hp _]; subst. cbn [benign_resp] in Hp. contradiction.
Qed.

Lemma read_exact_err k fuel : forall s n acc,
  errsched k (sr_sched s) -> (length (sr_sched s) + N.to_nat n < fuel)%nat -> n <= len (avail s) ->
  (exists s', read_exact fuel s n acc = (s', Fail (EIo k))) \/
  (exists s', read_exact fuel s n acc = (s', Done (acc ++ firstnN n (avail s))) /\
              sr_data s' = sr_data s /\ sr_pos s' = sr_pos s + n /\ errsched k (sr_sched s') /\
              (length (sr_sched s') <= length (sr_sched s))%nat).
Proof.
  induction fuel as [|fuel IH]; intros s n acc He Hf Hn; [lia|].
  cbn [read_exact]. destruct (N.eqb_spec n 0) as [->|Hn0].
  - right. exists s. rewrite firstnN_firstn. cbn [N.to_nat firstn]. rewrite app_nil_r. repeat split; [lia|exact He|lia].
  - pose proof (src_read_err s n k He ltac:(lia)) as Hstep.
    destruct (src_read s n) as [s1 [b| |k']].
    + destruct Hstep as (j & Eb & Hj & Hd & Hp & He1 & Hlen).
      assert (Lb : len b = j) by (rewrite Eb, len_firstnN; lia).
      assert (Av1 : avail s1 = skipnN j (avail s)).
      { unfold avail. rewrite Hd, Hp, Lb. apply skipnN_add. }
      destruct b as [|x b']; [change (len (@nil N)) with 0 in Lb; lia|].
      destruct (IH s1 (n - len (x :: b')) (acc ++ x :: b') He1 ltac:(lia) ltac:(rewrite Av1, len_skipnN; lia))
        as [(s' & E)|(s' & E & Hd' & Hp' & He' & Hlen')].
      * left. exists s'. exact E.
      * right. exists s'. split.
        -- rewrite E. f_equal. f_equal. rewrite <- app_assoc. f_equal. rewrite Lb, Av1, Eb.
           replace n with (j + (n - j)) at 2 by lia. rewrite firstnN_split. reflexivity.
        -- repeat split; [congruence | lia | exact He' | lia].
    + destruct Hstep as (Hd & Hp & He1 & Hlen).
      destruct (IH s1 n acc He1 ltac:(lia) ltac:(unfold avail in *; rewrite Hd, Hp; exact Hn))
        as [(s' & E)|(s' & E & Hd' & Hp' & He' & Hlen')].
      * left. exists s'. exact E.
      * right. exists s'. split; [rewrite E; unfold avail; rewrite Hd, Hp; reflexivity|].
        repeat split; [congruence | lia | exact He' | lia].
    + subst k'. left. exists s1. reflexivity.
Qed.

Lemma read_to_end_err k fuel : forall s limit reqs acc,
  errsched k (sr_sched s) -> Forall (fun r => 1 <= r) reqs ->
  (length (sr_sched s) + N.to_nat (N.min limit (len (avail s))) + 1 < fuel)%nat ->
  (exists s', read_to_end_take fuel s limit reqs acc = (s', Fail (EIo k))) \/
  (exists s', read_to_end_take fuel s limit reqs acc = (s', Done (acc ++ firstnN limit (avail s)))).
Proof.
  induction fuel as [|fuel IH]; intros s limit reqs acc He Hq Hf; [lia|].
  cbn [read_to_end_take]. destruct (N.eqb_spec limit 0) as [->|Hl0].
  - right. exists s. rewrite firstnN_firstn. cbn [N.to_nat firstn]. rewrite app_nil_r. reflexivity.
  - set (want := match reqs with r :: _ => r | [] => 32 end).
    assert (Hw : 1 <= want) by (unfold want; destruct reqs as [|r ?]; [lia| inversion Hq; assumption]).
    pose proof (src_read_err s (N.min want limit) k He ltac:(lia)) as Hstep.
    destruct (src_read s (N.min want limit)) as [s1 [b| |k']].
    + destruct Hstep as (j & Eb & Hj & Hd & Hp & He1 & Hlen).
      assert (Lb : len b = N.min j (len (avail s))) by (rewrite Eb, len_firstnN; reflexivity).
      destruct b as [|x b'].
      * change (len (@nil N)) with 0 in Lb. right. exists s1.
        assert (Hav : len (avail s) = 0) by lia.
        destruct (avail s) as [|y l]; [|rewrite len_cons in Hav; lia].
        rewrite firstnN_firstn. destruct (N.to_nat limit); cbn [firstn]; rewrite app_nil_r; reflexivity.
      * assert (Av1 : avail s1 = skipnN (len (x :: b')) (avail s)).
        { unfold avail. rewrite Hd, Hp. apply skipnN_add. }
        remember (len (x :: b')) as j' eqn:Ej'.
        assert (Hj' : 1 <= j' <= limit) by (rewrite len_cons in Ej'; lia).
        assert (Eb' : x :: b' = firstnN j' (avail s)) by (rewrite Eb, Lb; apply firstnN_min).
        destruct (IH s1 (limit - j') (tl reqs) (acc ++ x :: b') He1
                    ltac:(destruct reqs; [constructor| inversion Hq; assumption])
                    ltac:(rewrite Av1, len_skipnN; lia)) as [(s' & E)|(s' & E)].
        -- left. exists s'. exact E.
        -- right. exists s'. rewrite E. f_equal. f_equal. rewrite <- app_assoc. f_equal. rewrite Av1. rewrite Eb' at 1.
           replace limit with (j' + (limit - j')) at 2 by lia. rewrite firstnN_split. reflexivity.
    + destruct Hstep as (Hd & Hp & He1 & Hlen).
      destruct (IH s1 limit reqs acc He1 Hq ltac:(unfold avail in *; rewrite Hd, Hp; lia)) as [(s' & E)|(s' & E)].
      * left. exists s'. exact E.
      * right. exists s'. rewrite E. unfold avail. rewrite Hd, Hp. reflexivity.
    + subst k'. left. exists s1. reflexivity.
Qed.

(* a schedule that is benign, or whose first non-benign response is the error k *)
Definition sched_ok (k : N) (sched : list resp) : Prop := benign sched \/ errsched k sched.

Theorem load_block_fault dec file codec sched reqs ord off k :
  errsched k sched -> Forall (fun r => 1 <= r) reqs -> 8 <= len (skipnN off file) ->
  load_block_sched dec file codec sched reqs off = Fail (EIo k) \/
  load_block_sched dec file codec sched reqs off = load_block dec file codec ord off.
Proof.
  intros He Hq H8. unfold load_block_sched.
  set (s0 := mk_src file off sched).
  assert (Av0 : avail s0 = skipnN off file) by reflexivity.
  assert (Lf : (8 <= length file)%nat) by (rewrite len_skipnN in H8; rewrite len_length in H8; lia).
  destruct (read_exact_err k (S (length sched + length file)) s0 8 [] He ltac:(unfold s0; cbn [sr_sched]; lia) ltac:(rewrite Av0; exact H8))
    as [(s1 & E1)|(s1 & E1 & Hd1 & Hp1 & He1 & Hl1)].
  - rewrite E1. left. reflexivity.
  - rewrite E1. cbn [app]. rewrite Av0.
    set (blen := be_decode (firstnN 8 (skipnN off file))).
    assert (Av1 : avail s1 = skipnN 8 (skipnN off file)).
    { unfold avail. rewrite Hd1, Hp1. unfold s0; cbn [sr_data sr_pos]. apply skipnN_add. }
    destruct (read_to_end_err k (S (S (length sched + length file))) s1 blen reqs [] He1 Hq) as [(s2 & E2)|(s2 & E2)].
    { unfold s0 in Hl1; cbn [sr_sched] in Hl1. rewrite Av1, !len_skipnN.
      assert (N.to_nat (N.min blen (len file - off - 8)) <= length file)%nat by (rewrite len_length; lia). lia. }
    + rewrite E2. left. reflexivity.
    + rewrite E2. cbn [app]. rewrite Av1. right. unfold load_block.
      destruct (N.ltb_spec (len (skipnN off file)) 8); [lia|]. reflexivity.
Qed.
