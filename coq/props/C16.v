(* C16 — I/O per cursor operation is bounded by index depth, not by file size.  Statements only.
   Proved so far: opening consults only the last 22 bytes.  The bound 2*(levels+2) on block loads per
   operation is checked on every operation of every generated history (implementation loads <= model
   loads <= bound); its proof needs the reader refinement R. *)
From Grenad.model Require Import Base Block Trailer Reader.
From Grenad.proofs Require Import SpecProofs.

(* whatever precedes the last 22 bytes — i.e. however large the file is — open returns the same *)
Theorem C16_open_reads_only_the_trailer : forall pre f, 22 <= len f -> open_meta (pre ++ f) = open_meta f.
Proof. exact open_meta_suffix. Qed.
Print Assumptions C16_open_reads_only_the_trailer.

(* the operations that touch no block *)
Theorem C16_reset_current_no_load : forall ld root levels st st' r,
  (cstep ld root levels st OReset = Done (st', r) -> cs_loads st' = cs_loads st) /\
  (cstep ld root levels st OCurrent = Done (st', r) -> cs_loads st' = cs_loads st).
Proof.
  intros. split; intro H; cbn [cstep] in H.
  - injection H as <- _. reflexivity.
  - destruct (c_current st); cbn [bind] in H; try discriminate. injection H as <- _. reflexivity.
Qed.
Print Assumptions C16_reset_current_no_load.
