From Coq Require Import List Arith Lia Bool Sorted.
Import ListNotations.

(* Probe for C06: k-way merge over sorted sources; sources kept in index order, "pop the minimum of
   (key, index) and every equal head" = take the minimal head key and all heads equal to it, in
   index order.  Keys are nat here (any strict total order works the same way). *)
Section Merge.
Variable V : Type.
Variable mf : nat -> list V -> V.

Definition src := list (nat * V).
Definition head_key (s : src) : option nat := match s with (k, _) :: _ => Some k | [] => None end.

(* minimal head key among non-empty sources *)
Fixpoint min_key (ss : list src) : option nat :=
  match ss with
  | [] => None
  | s :: r => match head_key s, min_key r with
              | Some k, Some m => Some (Nat.min k m)
              | Some k, None => Some k
              | None, m => m
              end
  end.

Definition takes (k : nat) (s : src) : list V := match s with (k', v) :: _ => if k' =? k then [v] else [] | [] => [] end.
Definition adv (k : nat) (s : src) : src := match s with (k', v) :: r => if k' =? k then r else s | [] => [] end.

Definition total (ss : list src) : nat := fold_right (fun s a => length s + a) 0 ss.

Fixpoint run (fuel : nat) (ss : list src) : list (nat * V) :=
  match fuel with
  | O => []
  | S f => match min_key ss with
           | None => []
           | Some k => (k, mf k (flat_map (takes k) ss)) :: run f (map (adv k) ss)
           end
  end.
Definition merge_run (ss : list src) := run (S (total ss)) ss.

(* ---- specification vocabulary ---- *)
Definition keys (s : src) := map fst s.
Definition sorted (s : src) := StronglySorted lt (keys s).
Definition val_in (k : nat) (s : src) : list V :=
  flat_map (fun kv => if fst kv =? k then [snd kv] else []) s.
Definition vals_of (k : nat) (ss : list src) : list V := flat_map (val_in k) ss.
Definition has_key (k : nat) (ss : list src) := exists s, In s ss /\ In k (keys s).

(* ---- facts about one sorted source ---- *)
Lemma sorted_tail k v r : sorted ((k, v) :: r) -> sorted r /\ Forall (fun x => k < x) (keys r).
Proof. unfold sorted; cbn. intro H. inversion H; subst. auto. Qed.

Lemma val_in_above k s : sorted s -> Forall (fun x => k < x) (keys s) -> val_in k s = [].
Proof.
  unfold val_in. induction s as [|[k' v] r IH]; intros Hs Hf; [reflexivity|].
  cbn in *. inversion Hf; subst. destruct (Nat.eqb_spec k' k); [lia|]. cbn.
  apply IH; [apply sorted_tail in Hs; tauto | assumption].
Qed.

Lemma val_in_head k v r : sorted ((k, v) :: r) -> val_in k ((k, v) :: r) = [v].
Proof.
  intro Hs. unfold val_in. cbn. rewrite Nat.eqb_refl. cbn. f_equal.
  apply sorted_tail in Hs. destruct Hs. apply (val_in_above k r); assumption.
Qed.

Lemma min_key_le ss m : min_key ss = Some m -> forall s k, In s ss -> head_key s = Some k -> m <= k.
Proof.
  revert m. induction ss as [|s r IH]; intros m H s0 k Hin Hk; [contradiction|].
  cbn in H. destruct Hin as [->|Hin].
  - rewrite Hk in H. destruct (min_key r); inversion H; lia.
  - destruct (head_key s) eqn:E, (min_key r) eqn:E2; inversion H; subst.
    + specialize (IH _ eq_refl _ _ Hin Hk). lia.
    + exfalso. clear -E2 Hin Hk. induction r as [|a r IHr]; [contradiction|]. cbn in E2.
      destruct Hin as [->|Hin]; [rewrite Hk in E2; destruct (min_key r); discriminate|].
      destruct (head_key a), (min_key r); try discriminate. auto.
    + eauto.
Qed.

Lemma min_key_in ss m : min_key ss = Some m -> exists s, In s ss /\ head_key s = Some m.
Proof.
  revert m. induction ss as [|s r IH]; intros m H; [discriminate|].
  cbn in H. destruct (head_key s) eqn:E, (min_key r) eqn:E2; inversion H; subst.
  - destruct (Nat.le_ge_cases n n0).
    + rewrite Nat.min_l by lia. exists s; cbn; auto.
    + rewrite Nat.min_r by lia. destruct (IH _ eq_refl) as (s' & A & B). exists s'; cbn; auto.
  - exists s; cbn; auto.
  - destruct (IH _ eq_refl) as (s' & A & B). exists s'; cbn; auto.
Qed.

Lemma min_key_none ss : min_key ss = None -> Forall (fun s => s = []) ss.
Proof.
  induction ss as [|s r IH]; intro H; [constructor|]. cbn in H.
  destruct s as [|[k v] t]; cbn in H.
  - constructor; auto.
  - destruct (min_key r); discriminate.
Qed.

(* with m minimal: taking/advancing agrees with the declarative vocabulary *)
Lemma takes_val_in m s : sorted s -> (forall k, head_key s = Some k -> m <= k) -> takes m s = val_in m s.
Proof.
  intros Hs Hm. destruct s as [|[k v] r]; [reflexivity|]. cbn [takes].
  destruct (Nat.eqb_spec k m) as [->|Hne].
  - symmetry. apply val_in_head. exact Hs.
  - symmetry. apply val_in_above; [exact Hs|]. specialize (Hm k eq_refl).
    apply sorted_tail in Hs. destruct Hs as [_ Hf]. unfold keys; cbn. constructor; [lia|].
    eapply Forall_impl; [|exact Hf]. cbn. intros; lia.
Qed.

Lemma adv_spec m s : sorted s -> (forall k, head_key s = Some k -> m <= k) ->
  sorted (adv m s) /\ (forall k, head_key (adv m s) = Some k -> m < k) /\
  (forall k, m < k -> val_in k (adv m s) = val_in k s) /\
  (forall k, In k (keys s) <-> (k = m /\ head_key s = Some m) \/ In k (keys (adv m s))) /\
  length (adv m s) <= length s /\ (head_key s = Some m -> length (adv m s) < length s).
Proof.
  intros Hs Hm. destruct s as [|[k v] r].
  - cbn. repeat split; auto; try discriminate; try tauto. intros [[_ H]|H]; [discriminate|exact H].
  - cbn [adv]. destruct (Nat.eqb_spec k m) as [->|Hne].
    + pose proof (sorted_tail _ _ _ Hs) as [Hr Hf]. repeat split; auto; try (cbn; lia).
      * intros k Hk. destruct r as [|[k2 v2] r2]; [discriminate|]. cbn in Hk. inversion Hk; subst.
        inversion Hf; subst. assumption.
      * intros k Hk. unfold val_in. cbn. destruct (Nat.eqb_spec m k); [lia|]. reflexivity.
      * cbn. intros [->|H]; auto.
      * cbn. intros [[-> _]|H]; auto.
    + specialize (Hm k eq_refl). repeat split; auto; try (cbn; lia).
      * intros k0 Hk. cbn in Hk. inversion Hk; subst. lia.
      * intros [[-> H]|H]; [cbn in H; inversion H; lia|assumption].
      * intro H; cbn in H; inversion H; lia.
Qed.

Lemma total_cons s r : total (s :: r) = length s + total r.
Proof. reflexivity. Qed.

Definition lowb (m : nat) (ss : list src) := forall s, In s ss -> sorted s /\ (forall k, head_key s = Some k -> m <= k).

Lemma total_adv_le m ss : lowb m ss -> total (map (adv m) ss) <= total ss.
Proof.
  induction ss as [|a r IH]; intro H; [cbn; lia|].
  cbn [map]. rewrite !total_cons. destruct (H a (or_introl eq_refl)) as [A B].
  pose proof (adv_spec m a A B) as (_ & _ & _ & _ & Hl & _).
  assert (total (map (adv m) r) <= total r) by (apply IH; intros s Hin; apply H; right; exact Hin). lia.
Qed.

Lemma total_adv_lt m ss s0 : lowb m ss -> In s0 ss -> head_key s0 = Some m -> total (map (adv m) ss) < total ss.
Proof.
  induction ss as [|a r IH]; intros H Hin Hh; [contradiction|].
  cbn [map]. rewrite !total_cons. destruct (H a (or_introl eq_refl)) as [A B].
  pose proof (adv_spec m a A B) as (_ & _ & _ & _ & Hl & Hlt).
  assert (Hr : lowb m r) by (intros s Hs; apply H; right; exact Hs).
  destruct Hin as [->|Hin].
  - specialize (Hlt Hh). pose proof (total_adv_le m r Hr). lia.
  - specialize (IH Hr Hin Hh). lia.
Qed.

Lemma takes_flat m ss : lowb m ss -> flat_map (takes m) ss = vals_of m ss.
Proof.
  unfold vals_of. induction ss as [|s r IH]; intro H; [reflexivity|]. cbn.
  destruct (H s (or_introl eq_refl)) as [A B]. rewrite (takes_val_in m s A B). f_equal.
  apply IH. intros x Hx; apply H; right; exact Hx.
Qed.

(* ---- main theorem ---- *)
Theorem C06_merge fuel : forall ss, Forall sorted ss -> total ss < fuel ->
  let out := run fuel ss in
  StronglySorted lt (map fst out) /\
  (forall k, In k (map fst out) <-> has_key k ss) /\
  (forall k v, In (k, v) out -> v = mf k (vals_of k ss)) /\
  (forall lo, (forall s k, In s ss -> head_key s = Some k -> lo <= k) -> Forall (fun x => lo <= x) (map fst out)).
Proof.
  induction fuel as [|f IH]; intros ss Hs Hf; [lia|].
  cbn [run]. destruct (min_key ss) as [m|] eqn:Em.
  2:{ pose proof (min_key_none _ Em) as Hn. cbn. repeat split; try constructor; try tauto.
      intros (s & Hin & Hk). rewrite Forall_forall in Hn. rewrite (Hn _ Hin) in Hk. exact Hk. }
  pose proof (min_key_le _ _ Em) as Hle. pose proof (min_key_in _ _ Em) as (s0 & Hin0 & Hh0).
  assert (Hall : forall s, In s ss -> sorted s /\ (forall k, head_key s = Some k -> m <= k)).
  { intros s Hin. split; [rewrite Forall_forall in Hs; auto | intros; eapply Hle; eauto]. }
  set (ss' := map (adv m) ss).
  assert (Hs' : Forall sorted ss').
  { apply Forall_forall. intros s Hin. apply in_map_iff in Hin. destruct Hin as (s1 & <- & Hin1).
    destruct (Hall _ Hin1) as [A B]. apply adv_spec; assumption. }
  assert (Htot : total ss' < f).
  { pose proof (total_adv_lt m ss s0 Hall Hin0 Hh0). subst ss'. lia. }
  specialize (IH ss' Hs' Htot). cbv zeta in IH. destruct IH as (I1 & I2 & I3 & I4).
  assert (Hlow : Forall (fun x => S m <= x) (map fst (run f ss'))).
  { apply I4. intros s k Hin Hk. apply in_map_iff in Hin. destruct Hin as (s1 & <- & Hin1).
    destruct (Hall _ Hin1) as [A B]. pose proof (adv_spec m s1 A B) as (_ & P & _). specialize (P _ Hk). lia. }
  assert (Hvals : forall k, m < k -> vals_of k ss' = vals_of k ss).
  { intros k Hk. unfold vals_of, ss'. rewrite flat_map_concat_map, map_map, <- flat_map_concat_map.
    clear -Hall Hk. induction ss as [|s r IHr]; [reflexivity|]. cbn.
    destruct (Hall s (or_introl eq_refl)) as [A B]. pose proof (adv_spec m s A B) as (_ & _ & P & _).
    rewrite (P k Hk). f_equal. apply IHr. intros; apply Hall; right; assumption. }
  assert (Hkeys : forall k, has_key k ss <-> k = m \/ has_key k ss').
  { intro k. split.
    - intros (s & Hin & Hk). destruct (Hall _ Hin) as [A B]. pose proof (adv_spec m s A B) as (_ & _ & _ & P & _).
      apply P in Hk. destruct Hk as [[-> _]|Hk]; [left; reflexivity|]. right. exists (adv m s). split; [apply in_map; exact Hin|exact Hk].
    - intros [->|(s & Hin & Hk)].
      + exists s0. split; [exact Hin0|]. destruct s0 as [|[k0 v0] r0]; [discriminate|]. cbn in Hh0. inversion Hh0; subst. cbn; auto.
      + apply in_map_iff in Hin. destruct Hin as (s1 & <- & Hin1). destruct (Hall _ Hin1) as [A B].
        pose proof (adv_spec m s1 A B) as (_ & _ & _ & P & _). exists s1. split; [exact Hin1|]. apply P. right; exact Hk. }
  cbn [map fst]. repeat split.
  - constructor; [exact I1|]. eapply Forall_impl; [|exact Hlow]. cbn; intros; lia.
  - cbn. intros [<-|H]; apply Hkeys; [left; reflexivity | right; apply I2; exact H].
  - intro H. apply Hkeys in H. destruct H as [->|H]; [left; reflexivity | right; apply I2; exact H].
  - intros k v [E|Hin].
    + injection E as <- <-. f_equal. apply takes_flat. exact Hall.
    + rewrite (I3 k v Hin). f_equal. apply Hvals.
      rewrite Forall_forall in Hlow. assert (In k (map fst (run f ss'))) by (apply in_map_iff; exists (k, v); auto).
      specialize (Hlow _ H). lia.
  - intros lo Hlo. constructor.
    + eapply Hlo; eauto.
    + eapply Forall_impl; [|exact Hlow]. cbn. intros a Ha. specialize (Hlo _ _ Hin0 Hh0). lia.
Qed.
End Merge.
Print Assumptions C06_merge.
