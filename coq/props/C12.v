(* C12 — Any failure of a user-supplied component surfaces as Err from the current call.
   Statements only.  Writer side proved over the fault-injecting sink (fails the write of byte
   number p and/or the flush); reader/merger/sorter sides: see evidence.not_proved. *)
From Grenad.model Require Import Base Varint Block Trailer Writer Reader Merger IoModel.
From Grenad.proofs Require Import IoProofs WriterHom IoWriter.

(* no fault armed: the run is exactly the plain run (no error is invented) *)
Theorem C12_quiet : forall compress c es,
  let r1 := w_run_fault compress None false c es in
  let r2 := w_run_plain compress c es in
  fst r1 = fst r2 /\
  orel never (fun p q => fk_sink (fst (fst p)) = fst (fst q) /\ snd (fst p) = snd (fst q) /\ snd p = snd q) (snd r1) (snd r2).
Proof. exact quiet_run_eq. Qed.
Print Assumptions C12_quiet.

(* a fault armed at byte p / at the flush: the run returns the injected error, or the fault was
   never reached and the run ends at the same call with the plain outcome (file of <= p bytes) *)
Theorem C12_writer_fault : forall compress p fl c es,
  let r1 := w_run_fault compress (Some p) fl c es in
  let r2 := w_run_plain compress c es in
  snd r1 = Fail (EIo IO_INJECTED) \/
  (fst r1 = fst r2 /\
   orel injected (fun x y => fk_sink (fst (fst x)) = fst (fst y) /\ vs_count (fst (fst y)) <= p /\ fl = false /\
                             snd (fst x) = snd (fst y) /\ snd x = snd y) (snd r1) (snd r2)).
Proof. exact fault_run. Qed.
Print Assumptions C12_writer_fault.

(* whenever the fault position lies inside the file the plain run produces, or the flush fault is
   armed, the faulty run returns Err carrying the injected I/O error: never success, never a panic *)
Theorem C12_writer_surface : forall compress p fl c es s lg m,
  snd (w_run_plain compress c es) = Done (s, lg, m) -> (p < vs_count s \/ fl = true) ->
  snd (w_run_fault compress (Some p) fl c es) = Fail (EIo IO_INJECTED).
Proof. exact fault_surfaces. Qed.
Print Assumptions C12_writer_surface.

(* the merge function failing at its j-th call fails exactly that call with the merge error *)
Theorem C12_merge_fn_failure : forall j mf k vs, mf_fail_at j mf j k vs = Fail EMerge.
Proof. intros. unfold mf_fail_at. rewrite N.eqb_refl. reflexivity. Qed.
Print Assumptions C12_merge_fn_failure.

(* an error raised inside any step propagates: bind never turns Fail into Done or Panic *)
Theorem C12_bind_propagates : forall A B e (f : A -> outcome B), bind (Fail e) f = Fail e.
Proof. reflexivity. Qed.
Print Assumptions C12_bind_propagates.

Example C12_example :
  snd (w_run_fault compress_none (Some 30) false (mk_wcfg 0 0 1024 8 0) [([1], [2]); ([3], [4; 5])]) = Fail (EIo IO_INJECTED) /\
  fst (w_run_fault compress_none (Some 30) false (mk_wcfg 0 0 1024 8 0) [([1], [2]); ([3], [4; 5])]) = 2.
Proof. vm_compute. split; reflexivity. Qed.
