//! Correspondence harness: runs the real grenad implementation on generated inputs and
//! writes inputs + observations as a case file for the extracted Coq model to replay.
mod alloc_track;
mod c14;
mod c_file;
mod c_hist;
mod c_io;
mod c_merge;
mod c_open;
mod c_sorter;
mod gen;
mod util;

use std::fs::File;
use std::io::BufWriter;
use util::*;

#[global_allocator]
static GLOBAL: alloc_track::Tracking = alloc_track::Tracking;

fn main() {
    let args: Vec<String> = std::env::args().collect();
    if args.len() < 2 {
        eprintln!("usage: gverif <scenario> [--tier quick|thorough] [--seed N] [--out FILE] [--stats FILE]");
        std::process::exit(2);
    }
    let scenario = args[1].clone();
    let mut tier = "quick".to_string();
    let mut seed: u64 = 1;
    let mut out = "cases.txt".to_string();
    let mut stats = "stats.json".to_string();
    let mut extra: Vec<String> = Vec::new();
    let mut i = 2;
    while i < args.len() {
        match args[i].as_str() {
            "--tier" => { tier = args[i + 1].clone(); i += 2; }
            "--seed" => { seed = args[i + 1].parse().unwrap(); i += 2; }
            "--out" => { out = args[i + 1].clone(); i += 2; }
            "--stats" => { stats = args[i + 1].clone(); i += 2; }
            _ => { extra.push(args[i].clone()); i += 1; }
        }
    }
    let thorough = tier == "thorough";
    // keep panic messages of caught panics out of the logs
    if std::env::var("GVERIF_PANIC").is_err() {
        std::panic::set_hook(Box::new(|_| {}));
    }
    let mut rng = Rng::new(seed);
    let mut cases = Cases::new(BufWriter::new(File::create(&out).unwrap()));
    cases.inflight = Some(format!("{}.inflight", out));
    match scenario.as_str() {
        "C14" => c14::generate(&mut cases, &mut rng, thorough),
        "iter-exh-c04" => { cases.prop = "C04".into(); c_hist::generate_iter_exhaustive(&mut cases, thorough, "C04") }
        "iter-exh-c05" => { cases.prop = "C05".into(); c_hist::generate_iter_exhaustive(&mut cases, thorough, "C05") }
        "file-exh" => { cases.prop = "C01".into(); c_file::generate_exhaustive(&mut cases, thorough, false) }
        "file-exh-c09" => { cases.prop = "C09".into(); c_file::generate_exhaustive(&mut cases, thorough, true) }
        "hist-exh" => { cases.prop = "C03".into(); c_hist::generate_exhaustive(&mut cases, thorough) }
        "file-c01" => { cases.prop = "C01".into(); c_file::generate(&mut cases, &mut rng, thorough, false) }
        "file-c09" => { cases.prop = "C09".into(); c_file::generate(&mut cases, &mut rng, thorough, true) }
        "file-c15" => { cases.prop = "C15".into(); c_file::generate_c15(&mut cases, &mut rng, thorough) }
        "file-c14" => { cases.prop = "C01".into(); c_file::generate_c14(&mut cases, &mut rng, thorough) }
        "file-c18" => { cases.prop = "C18".into(); c_file::generate_c18(&mut cases, &mut rng, thorough) }
        "hist-c02" => { cases.prop = "C02".into(); c_hist::generate(&mut cases, &mut rng, thorough, "C02") }
        "hist-c03" => { cases.prop = "C03".into(); c_hist::generate(&mut cases, &mut rng, thorough, "C03") }
        "hist-c16" => { cases.prop = "C16".into(); c_hist::generate(&mut cases, &mut rng, thorough, "C16") }
        "hist-c17" => {
            // reader cursors and their clones under the poisoning allocator: freed memory reads as 0xDD
            cases.prop = "C17".into();
            alloc_track::ENABLED.store(true, std::sync::atomic::Ordering::Relaxed);
            c_hist::generate(&mut cases, &mut rng, thorough, "C17");
            alloc_track::ENABLED.store(false, std::sync::atomic::Ordering::Relaxed);
        }
        "hist-c10" => { cases.prop = "C10".into(); c_hist::generate(&mut cases, &mut rng, thorough, "C10") }
        "iter-c04" => { cases.prop = "C04".into(); c_hist::generate_iter(&mut cases, &mut rng, thorough, "C04") }
        "iter-c05" => { cases.prop = "C05".into(); c_hist::generate_iter(&mut cases, &mut rng, thorough, "C05") }
        "merge-c06" => { cases.prop = "C06".into(); c_merge::generate(&mut cases, &mut rng, thorough) }
        "sorter-c07" => { cases.prop = "C07".into(); c_sorter::generate(&mut cases, &mut rng, thorough, "C07") }
        "sorter-c08" => { cases.prop = "C08".into(); c_sorter::generate(&mut cases, &mut rng, thorough, "C08") }
        "sorter-c17" => { cases.prop = "C17".into(); c_sorter::generate(&mut cases, &mut rng, thorough, "C17") }
        "sorter-real" => { cases.prop = "C08".into(); c_sorter::generate_real(&mut cases, &mut rng) }
        "open-c13" => { cases.prop = "C13".into(); c_open::generate(&mut cases, &mut rng, thorough) }
        "io-write" => { cases.prop = "C11".into(); c_io::generate_c11_write(&mut cases, &mut rng, thorough) }
        "io-read" => { cases.prop = "C11".into(); c_io::generate_c11_read(&mut cases, &mut rng, thorough) }
        "faults-c12" => { cases.prop = "C12".into(); c_io::generate_c12(&mut cases, &mut rng, thorough) }
        "C14-big" => {
            match util::catch(|| c14::big_entry(thorough)) {
                Ok(Ok(())) => println!("DIRECT ok 2^21-byte key with 2^28-byte value round trip"),
                Ok(Err(e)) => println!("DIRECT fail big entry: {}", e),
                Err(e) => println!("DIRECT fail big entry panicked: {}", e),
            }
        }
        "C14-sweep" => {
            match c14::sweep_all() {
                None => println!("SWEEP ok 4294967296"),
                Some(v) => println!("SWEEP fail {}", v),
            }
        }
        other => {
            eprintln!("unknown scenario {}", other);
            std::process::exit(2);
        }
    }
    let _ = &extra;
    cases.finish(&stats);
}
