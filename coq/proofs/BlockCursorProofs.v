(* The in-block cursor (src/block.rs BlockCursor, model/Block.v the bc_ functions) on a well-formed block:
   byte offsets are in bijection with entry indices, and every move is the obvious index move.
   In particular the in-block seeks return the exact floor / ceiling of the probe key. *)
From Coq Require Import Lia ZArith ZifyN ZifyBool ZifyNat Sorting.Sorted.
From Grenad.model Require Import Base Varint Block Spec Format.
From Grenad.proofs Require Import BaseProofs VarintProofs BlockProofs FormatProofs.
Ltac Zify.zify_post_hook ::= Z.div_mod_to_equations.

(* payload offset at which entry number p starts (p = length es: the end of the payload) *)
Definition start (es : list entry) (p : nat) : N := len (payload_of (firstn p es)).

Lemma payload_of_app a b : payload_of (a ++ b) = payload_of a ++ payload_of b.
Proof. unfold payload_of. apply flat_map_app. Qed.

Lemma payload_split es p k v : nth_error es p = Some (k, v) ->
  payload_of es = payload_of (firstn p es) ++ frame k v ++ payload_of (skipn (S p) es).
Proof.
  intro H. rewrite <- (firstn_skipn p es) at 1. rewrite payload_of_app. f_equal.
  assert (E : skipn p es = (k, v) :: skipn (S p) es).
  { revert es H. induction p as [|p IH]; intros [|e es] H; cbn [nth_error] in H; try discriminate.
    - injection H as ->. reflexivity.
    - cbn [skipn]. apply IH. exact H. }
  rewrite E. reflexivity.
Qed.

Lemma start_0 es : start es 0 = 0. Proof. reflexivity. Qed.
Lemma start_end es : start es (length es) = len (payload_of es).
Proof. unfold start. rewrite firstn_all. reflexivity. Qed.
Lemma start_S es p k v : nth_error es p = Some (k, v) -> start es (S p) = start es p + len (frame k v).
Proof.
  intro H. unfold start.
  assert (E : firstn (S p) es = firstn p es ++ [(k, v)]).
  { revert es H. induction p as [|p IH]; intros [|e es] H; cbn [nth_error] in H; try discriminate.
    - injection H as ->. reflexivity.
    - cbn [firstn app]. f_equal. apply IH. exact H. }
  rewrite E, payload_of_app, len_app. cbn [payload_of flat_map fst snd]. rewrite app_nil_r. reflexivity.
Qed.

Lemma nth_error_entry_ok es p e : entries_ok es -> nth_error es p = Some e -> entry_ok e.
Proof. intros H E. unfold entries_ok in H. rewrite Forall_forall in H. apply H. eapply nth_error_In. exact E. Qed.

Lemma start_lt_S es p : entries_ok es -> (p < length es)%nat -> start es p + 2 <= start es (S p).
Proof.
  intros Hok Hp. destruct (nth_error es p) as [[k v]|] eqn:E; [|apply nth_error_None in E; lia].
  rewrite (start_S es p k v E). pose proof (frame_len_ge2 k v (nth_error_entry_ok es p _ Hok E)). lia.
Qed.

Lemma start_mono es : entries_ok es -> forall p q, (p < q)%nat -> (q <= length es)%nat -> start es p < start es q.
Proof.
  intros Hok p q Hpq. induction q as [|q IH]; [lia|]. intro Hq.
  pose proof (start_lt_S es q Hok ltac:(lia)).
  destruct (Nat.eq_dec p q) as [->|Hne]; [lia|]. specialize (IH ltac:(lia) ltac:(lia)). lia.
Qed.

Lemma start_inj es : entries_ok es -> forall p q, (p <= length es)%nat -> (q <= length es)%nat -> start es p = start es q -> p = q.
Proof.
  intros Hok p q Hp Hq E. destruct (Nat.lt_trichotomy p q) as [H|[H|H]]; [|exact H|].
  - pose proof (start_mono es Hok p q H Hq). lia.
  - pose proof (start_mono es Hok q p H Hp). lia.
Qed.

(* ---- well-formed block: the payload frames es; offsets are starts of entries, ascending, first 0 ---- *)
Record wfblock (b : block) (es : list entry) (ridx : list nat) : Prop := mk_wfblock {
  wf_payload : blk_payload b = payload_of es;
  wf_entries : entries_ok es;
  wf_sorted : sorted_strictb (map fst es) = true;
  wf_offsets : blk_offsets b = map (start es) ridx;
  wf_ridx0 : exists r, ridx = 0%nat :: r;
  wf_ridx_inc : StronglySorted Nat.lt ridx;
  wf_ridx_lt : forall x, In x ridx -> (x < length es)%nat \/ (x = 0%nat) }.

Section Wf.
  Variables (b : block) (es : list entry) (ridx : list nat).
  Hypothesis W : wfblock b es ridx.
  Let n := length es.

  Lemma entry_at_start p k v : nth_error es p = Some (k, v) ->
    entry_at b (start es p) = Done (Some (k, v, start es (S p))).
  Proof.
    intro H. destruct W as [Hp Hok _ _ _ _ _].
    rewrite (start_S es p k v H). unfold start.
    apply (entry_at_frame b (payload_of (firstn p es)) k v (payload_of (skipn (S p) es))).
    - rewrite Hp. apply payload_split. exact H.
    - eapply nth_error_entry_ok; eassumption.
  Qed.

  Lemma entry_at_last : entry_at b (start es n) = Done None.
  Proof. destruct W as [Hp _ _ _ _ _ _]. unfold n. rewrite start_end, <- Hp. apply entry_at_end. Qed.

  (* the index-level reading of bc_current *)
  Lemma bc_current_start p : (p <= n)%nat ->
    bc_current (mk_bcur b (Some (start es p))) = Done (nth_error es p).
  Proof.
    intro Hp. unfold bc_current. cbn [bc_off bc_blk].
    destruct (nth_error es p) as [[k v]|] eqn:E.
    - rewrite (entry_at_start p k v E). reflexivity.
    - apply nth_error_None in E. assert (p = n) by (unfold n in *; lia). subst p. rewrite entry_at_last. reflexivity.
  Qed.

  (* the scanning loop from entry p: stops before the first entry q >= p whose key satisfies [stop] *)
  Fixpoint first_stop (stop : bytes -> bool) (l : list entry) (p : nat) : nat :=
    match l with
    | [] => p
    | (k, _) :: r => if stop k then p else first_stop stop r (S p)
    end.

  Lemma first_stop_ge stop l : forall m, (m <= first_stop stop l m)%nat.
  Proof.
    induction l as [|[k' v'] l IHl]; intro m; cbn [first_stop]; [lia|].
    destruct (stop k'); [lia|]. specialize (IHl (S m)). lia.
  Qed.

  Lemma scan_while_spec stop : forall fuel p cur, (p <= n)%nat -> (n - p <= length fuel)%nat ->
    scan_while fuel b stop (start es p) cur =
    Done (let q := first_stop stop (skipn p es) p in if Nat.eqb q p then cur else Some (start es (q - 1))).
  Proof.
    intros fuel p. remember (n - p)%nat as d eqn:Ed. revert fuel p Ed.
    induction d as [|d IH]; intros fuel p Ed cur Hp Hf.
    - assert (p = n) by lia. subst p. unfold n. rewrite skipn_all. cbn [first_stop]. rewrite Nat.eqb_refl.
      destruct fuel; cbn [scan_while]; fold n; rewrite entry_at_last; reflexivity.
    - destruct (nth_error es p) as [[k v]|] eqn:E; [|apply nth_error_None in E; unfold n in *; lia].
      assert (Es : skipn p es = (k, v) :: skipn (S p) es).
      { clear - E. revert es E. induction p as [|p IH]; intros [|e es] E; cbn [nth_error] in E; try discriminate.
        - injection E as ->. reflexivity.
        - cbn [skipn]. apply IH. exact E. }
      rewrite Es. cbn [first_stop].
      destruct fuel as [|x fuel]; cbn [scan_while]; rewrite (entry_at_start p k v E); cbn [bind].
      + cbn [length] in Hf. lia.
      + destruct (stop k) eqn:Sk.
        * rewrite Nat.eqb_refl. reflexivity.
        * rewrite (IH fuel (S p) ltac:(lia) (Some (start es p)) ltac:(lia) ltac:(cbn [length] in Hf; lia)).
          cbv zeta. f_equal. remember (first_stop stop (skipn (S p) es) (S p)) as q eqn:Eq.
          assert (Hq : (S p <= q)%nat) by (subst q; apply first_stop_ge).
          destruct (Nat.eqb_spec q (S p)) as [Hqq|Hne]; destruct (Nat.eqb_spec q p); try lia.
          -- rewrite Hqq. replace (S p - 1)%nat with p by lia. reflexivity.
          -- reflexivity.
  Qed.

  (* ---- first / next / last ---- *)
  Lemma offsets_hd : hd_error (blk_offsets b) = Some (start es 0).
  Proof. destruct W as [_ _ _ Ho [r Hr] _ _]. rewrite Ho, Hr. reflexivity. Qed.

  Lemma bc_first_spec o : bc_first (mk_bcur b o) = Done (mk_bcur b (Some (start es 0)), nth_error es 0).
  Proof.
    unfold bc_first. cbn [bc_blk]. rewrite offsets_hd.
    rewrite (bc_current_start 0 ltac:(lia)). reflexivity.
  Qed.

  Lemma bc_next_spec p : (p < n)%nat ->
    bc_next (mk_bcur b (Some (start es p))) = Done (mk_bcur b (Some (start es (S p))), nth_error es (S p)).
  Proof.
    intro Hp. unfold bc_next. cbn [bc_off bc_blk].
    destruct (nth_error es p) as [[k v]|] eqn:E; [|apply nth_error_None in E; unfold n in *; lia].
    rewrite (entry_at_start p k v E). cbn [bind].
    rewrite (bc_current_start (S p) ltac:(unfold n in *; lia)). reflexivity.
  Qed.

  (* past the last entry the cursor stays parked at the end of the payload *)
  Lemma bc_next_end : bc_next (mk_bcur b (Some (start es n))) = Done (mk_bcur b (Some (start es n)), None).
  Proof. unfold bc_next. cbn [bc_off bc_blk]. rewrite entry_at_last. reflexivity. Qed.

  Lemma bc_next_fresh : bc_next (mk_bcur b None) = Done (mk_bcur b (Some (start es 0)), nth_error es 0).
  Proof. unfold bc_next. cbn [bc_off]. apply bc_first_spec. Qed.

  Lemma first_stop_never l : forall m, first_stop (fun _ => false) l m = (m + length l)%nat.
  Proof. induction l as [|[k v] l IH]; intro m; cbn [first_stop length]; [lia|]. rewrite IH. lia. Qed.

  Lemma last_ridx : exists j, last_opt ridx = Some j /\ In j ridx.
  Proof.
    destruct W as [_ _ _ _ [r Hr] _ _]. rewrite Hr. clear. revert r. intro r.
    assert (G : forall (x : nat) l, exists j, last_opt (x :: l) = Some j /\ In j (x :: l)).
    { intros x l; revert x; induction l as [|y l IH]; intro x; [exists x; split; [reflexivity|left; reflexivity]|].
      destruct (IH y) as (j & E & Hin). exists j. split; [exact E|right; exact Hin]. }
    apply G.
  Qed.

  Lemma bc_last_spec o : (0 < n)%nat ->
    bc_last (mk_bcur b o) = Done (mk_bcur b (Some (start es (n - 1))), nth_error es (n - 1)).
  Proof.
    intro Hn. unfold bc_last. cbn [bc_blk bc_off].
    destruct last_ridx as (j & Ej & Hin).
    assert (Hj : (j < n)%nat) by (destruct W as [_ _ _ _ _ _ Hlt]; destruct (Hlt j Hin); unfold n; lia).
    assert (El : last_opt (blk_offsets b) = Some (start es j)).
    { destruct W as [_ _ _ Ho _ _ _]. rewrite Ho, last_opt_map, Ej. reflexivity. }
    rewrite El.
    rewrite (scan_while_spec (fun _ => false) (blk_payload b) j o ltac:(lia)).
    2:{ destruct W as [Hp Hok _ _ _ _ _]. rewrite Hp. pose proof (payload_length_ge es Hok). unfold n. lia. }
    cbn [bind]. rewrite first_stop_never, skipn_length. fold n.
    replace (j + (n - j))%nat with n by lia.
    destruct (Nat.eqb_spec n j); [lia|].
    rewrite (bc_current_start (n - 1) ltac:(lia)). reflexivity.
  Qed.

  (* an empty block: move_on_last returns None and does not move *)
  Lemma bc_last_empty o : n = 0%nat -> exists c', bc_last (mk_bcur b o) = Done (c', None) /\ bc_off c' = o.
  Proof.
    intro Hn. unfold bc_last. cbn [bc_blk bc_off].
    destruct last_ridx as (j & Ej & Hin).
    assert (Hj : j = 0%nat) by (destruct W as [_ _ _ _ _ _ Hlt]; destruct (Hlt j Hin); unfold n in *; lia).
    assert (El : last_opt (blk_offsets b) = Some (start es j)).
    { destruct W as [_ _ _ Ho _ _ _]. rewrite Ho, last_opt_map, Ej. reflexivity. }
    rewrite El. subst j.
    rewrite (scan_while_spec (fun _ => false) (blk_payload b) 0 o ltac:(lia) ltac:(lia)).
    cbn [bind]. rewrite first_stop_never, skipn_length. fold n. rewrite Hn. cbn [Nat.eqb plus minus].
    assert (Hc : bc_current (mk_bcur b o) = Done None).
    { unfold bc_current. cbn [bc_off bc_blk]. destruct o as [x|]; [|reflexivity].
      destruct W as [Hp _ _ _ _ _ _]. unfold entry_at. rewrite Hp.
      assert (Hes : es = []) by (destruct es; [reflexivity|unfold n in Hn; discriminate]). rewrite Hes.
      cbn [payload_of flat_map]. change (len (@nil N)) with 0.
      destruct (N.leb_spec 0 x); [reflexivity|lia]. }
    exists (mk_bcur b o). rewrite Hc. cbn [bind bc_off]. split; reflexivity.
  Qed.
End Wf.

(* ---- the two searches over the restart table ---- *)
Definition count_lt (ridx : list nat) (i : nat) : nat := length (filter (fun y => Nat.ltb y i) ridx).

Lemma sorted_filter_firstn ridx i : StronglySorted Nat.lt ridx ->
  filter (fun y => Nat.ltb y i) ridx = firstn (count_lt ridx i) ridx /\
  (forall m y, nth_error ridx m = Some y -> (count_lt ridx i <= m)%nat -> (i <= y)%nat).
Proof.
  unfold count_lt. induction 1 as [|y l Hs IH Hall]; [split; [reflexivity|intros m y E; destruct m; discriminate]|].
  cbn [filter]. destruct (Nat.ltb_spec y i) as [Hlt|Hge].
  - cbn [length firstn]. destruct IH as [IH1 IH2]. split; [f_equal; exact IH1|].
    intros m z E Hm. destruct m as [|m]; [lia|]. cbn [nth_error] in E. apply (IH2 m z E). lia.
  - (* every later element is > y >= i: the filter is empty *)
    assert (E : filter (fun z => Nat.ltb z i) l = []).
    { rewrite Forall_forall in Hall. clear - Hall Hge. induction l as [|z l IHl]; [reflexivity|]. cbn [filter].
      assert (y < z)%nat by (apply Hall; left; reflexivity). destruct (Nat.ltb_spec z i); [lia|].
      apply IHl. intros w Hw. apply Hall. right. exact Hw. }
    rewrite E. cbn [length firstn]. split; [reflexivity|].
    intros m z Em _. destruct m as [|m]; cbn [nth_error] in Em.
    + injection Em as <-. exact Hge.
    + rewrite Forall_forall in Hall. assert (y < z)%nat by (apply Hall; eapply nth_error_In; exact Em). lia.
Qed.

Lemma count_lt_le ridx i : (count_lt ridx i <= length ridx)%nat.
Proof. unfold count_lt. apply filter_length_le || (induction ridx as [|y l IH]; cbn [filter length]; [lia|]; destruct (Nat.ltb y i); cbn [length]; lia). Qed.

Lemma nth_error_firstn_lt {A} (l : list A) : forall c m, (m < c)%nat -> nth_error (firstn c l) m = nth_error l m.
Proof.
  induction l as [|x l IH]; intros c m H; [destruct c, m; reflexivity|].
  destruct c as [|c]; [lia|]. destruct m as [|m]; [reflexivity|]. cbn [firstn nth_error]. apply IH. lia.
Qed.

Lemma nth_before_count ridx i m y : StronglySorted Nat.lt ridx ->
  nth_error ridx m = Some y -> (m < count_lt ridx i)%nat -> (y < i)%nat.
Proof.
  intros Hs E Hm. destruct (sorted_filter_firstn ridx i Hs) as [F _].
  assert (Hin : In y (filter (fun y => Nat.ltb y i) ridx)).
  { rewrite F. apply (nth_error_In _ m). rewrite nth_error_firstn_lt by exact Hm. exact E. }
  apply filter_In in Hin. destruct Hin as [_ Hlt]. apply Nat.ltb_lt in Hlt. exact Hlt.
Qed.

Section Search.
  Variables (b : block) (es : list entry) (ridx : list nat).
  Hypothesis W : wfblock b es ridx.
  Let n := length es.

  Lemma ridx_le_n y : In y ridx -> (y <= n)%nat.
  Proof. intro H. destruct W as [_ _ _ _ _ _ Hlt]. destruct (Hlt y H); unfold n; lia. Qed.

  (* slice::binary_search(&current_offset) over the offsets *)
  Lemma search_offsets_spec i : (i <= n)%nat -> forall l t0,
    StronglySorted Nat.lt l -> (forall y, In y l -> (y <= n)%nat) ->
    search_offsets (map (start es) l) (start es i) t0 =
    if existsb (Nat.eqb i) l then inl (t0 + N.of_nat (count_lt l i)) else inr (t0 + N.of_nat (count_lt l i)).
  Proof.
    intros Hi l. induction l as [|y l IH]; intros t0 Hs Hle; cbn [map search_offsets existsb].
    - unfold count_lt. cbn. f_equal. lia.
    - inversion Hs as [|? ? Hs' Hall]; subst.
      assert (Hy : (y <= n)%nat) by (apply Hle; left; reflexivity).
      destruct W as [_ Hok _ _ _ _ _].
      destruct (Nat.eqb_spec i y) as [->|Hne].
      + rewrite N.eqb_refl. cbn [orb]. unfold count_lt. cbn [filter]. rewrite Nat.ltb_irrefl.
        assert (E : filter (fun z => Nat.ltb z y) l = []).
        { rewrite Forall_forall in Hall. clear - Hall. induction l as [|z l IHl]; [reflexivity|]. cbn [filter].
          assert (y < z)%nat by (apply Hall; left; reflexivity). destruct (Nat.ltb_spec z y); [lia|].
          apply IHl. intros w Hw. apply Hall. right. exact Hw. }
        rewrite E. cbn [length]. f_equal. lia.
      + cbn [orb]. destruct (N.eqb_spec (start es y) (start es i)) as [E|_].
        { apply (start_inj es Hok) in E; unfold n in *; lia. }
        destruct (N.ltb_spec (start es i) (start es y)) as [Hlt|Hge].
        * (* i < y: the search stops here, nothing later can match *)
          assert (Hiy : (i < y)%nat).
          { destruct (Nat.lt_trichotomy i y) as [H|[H|H]]; [exact H|lia|].
            pose proof (start_mono es Hok y i H ltac:(unfold n in *; lia)). lia. }
          assert (E1 : existsb (Nat.eqb i) l = false).
          { rewrite Forall_forall in Hall. clear - Hall Hiy. induction l as [|z l IHl]; [reflexivity|]. cbn [existsb].
            assert (y < z)%nat by (apply Hall; left; reflexivity). destruct (Nat.eqb_spec i z); [lia|]. cbn [orb].
            apply IHl. intros w Hw. apply Hall. right. exact Hw. }
          assert (E2 : count_lt (y :: l) i = 0%nat).
          { unfold count_lt. cbn [filter]. destruct (Nat.ltb_spec y i); [lia|].
            rewrite Forall_forall in Hall. clear - Hall Hiy. induction l as [|z l IHl]; [reflexivity|]. cbn [filter].
            assert (y < z)%nat by (apply Hall; left; reflexivity). destruct (Nat.ltb_spec z i); [lia|].
            apply IHl. intros w Hw. apply Hall. right. exact Hw. }
          rewrite E1, E2. f_equal. lia.
        * assert (Hyi : (y < i)%nat).
          { destruct (Nat.lt_trichotomy i y) as [H|[H|H]]; [|lia|exact H].
            pose proof (start_mono es Hok i y H Hy). lia. }
          rewrite (IH (N.succ t0) Hs' ltac:(intros z Hz; apply Hle; right; exact Hz)).
          assert (E2 : count_lt (y :: l) i = S (count_lt l i)).
          { unfold count_lt. cbn [filter]. destruct (Nat.ltb_spec y i); [reflexivity|lia]. }
          rewrite E2. destruct (existsb (Nat.eqb i) l); f_equal; lia.
  Qed.
End Search.

(* ---- strict sortedness gives pairwise order ---- *)
Lemma sorted_strictb_cons a l : sorted_strictb (a :: l) = true ->
  sorted_strictb l = true /\ (forall x, In x l -> bytes_ltb a x = true).
Proof.
  revert a; induction l as [|b l IH]; intros a H; [split; [reflexivity|intros x []]|].
  cbn [sorted_strictb] in H. apply andb_prop in H. destruct H as [H1 H2].
  split; [exact H2|]. intros x [<-|Hx]; [exact H1|].
  destruct (IH b H2) as [_ Hb]. apply (bytes_ltb_trans a b x H1). apply Hb. exact Hx.
Qed.

Lemma sorted_nth_lt (es : list entry) : sorted_strictb (map fst es) = true ->
  forall p q kp vp kq vq, (p < q)%nat -> nth_error es p = Some (kp, vp) -> nth_error es q = Some (kq, vq) ->
  bytes_ltb kp kq = true.
Proof.
  induction es as [|[k v] es IH]; intros Hs p q kp vp kq vq Hpq Ep Eq; [destruct p; discriminate|].
  cbn [map fst] in Hs. apply sorted_strictb_cons in Hs. destruct Hs as [Hs Hall].
  destruct p as [|p].
  - cbn [nth_error] in Ep. injection Ep as <- <-. destruct q as [|q]; [lia|]. cbn [nth_error] in Eq.
    apply Hall. apply nth_error_In in Eq. apply (in_map (@fst bytes bytes)) in Eq. exact Eq.
  - destruct q as [|q]; [lia|]. cbn [nth_error] in Ep, Eq. apply (IH Hs p q kp vp kq vq); [lia|exact Ep|exact Eq].
Qed.

Section Prev.
  Variables (b : block) (es : list entry) (ridx : list nat).
  Hypothesis W : wfblock b es ridx.
  Let n := length es.

  Lemma skipn_nth {A} (l : list A) p x : nth_error l p = Some x -> skipn p l = x :: skipn (S p) l.
  Proof.
    revert l; induction p as [|p IH]; intros [|e l] E; cbn [nth_error] in E; try discriminate.
    - injection E as ->. reflexivity.
    - cbn [skipn]. apply IH. exact E.
  Qed.

  (* scanning for the current key from an earlier entry stops exactly at the current entry *)
  Lemma first_stop_eq_key i ck cv : nth_error es i = Some (ck, cv) ->
    forall d j, (i - j = d)%nat -> (j <= i)%nat ->
    first_stop (fun k => bytes_eqb ck k) (skipn j es) j = i.
  Proof.
    intros Ei d. induction d as [|d IH]; intros j Hd Hj.
    - assert (j = i) by lia. subst j. rewrite (skipn_nth es i _ Ei). cbn [first_stop].
      assert (E : bytes_eqb ck ck = true) by (apply bytes_eqb_eq; reflexivity). rewrite E. reflexivity.
    - destruct (nth_error es j) as [[kj vj]|] eqn:Ej.
      2:{ apply nth_error_None in Ej. assert (nth_error es i <> None) by (rewrite Ei; discriminate). apply nth_error_Some in H. lia. }
      rewrite (skipn_nth es j _ Ej). cbn [first_stop].
      destruct W as [_ _ Hs _ _ _ _].
      pose proof (sorted_nth_lt es Hs j i kj vj ck cv ltac:(lia) Ej Ei) as Hlt.
      destruct (bytes_eqb ck kj) eqn:Eq.
      + apply bytes_eqb_eq in Eq. subst kj. rewrite bytes_ltb_irrefl in Hlt. discriminate.
      + apply IH; lia.
  Qed.

  Lemma nthN_map_start m : nthN (N.of_nat m) (map (start es) ridx) = option_map (start es) (nth_error ridx m).
  Proof. rewrite nthN_nth_error, Nat2N.id. apply nth_error_map. Qed.

  Lemma count_pos i : (0 < i)%nat -> (1 <= count_lt ridx i)%nat.
  Proof.
    intro Hi. destruct W as [_ _ _ _ [r Hr] _ _]. rewrite Hr. unfold count_lt. cbn [filter].
    destruct (Nat.ltb_spec 0 i); [cbn [length]; lia|lia].
  Qed.

  Lemma bc_prev_spec i : (0 < i)%nat -> (i < n)%nat ->
    bc_prev (mk_bcur b (Some (start es i))) = Done (mk_bcur b (Some (start es (i - 1))), nth_error es (i - 1)).
  Proof.
    intros Hi0 Hin. unfold bc_prev. cbn [bc_off bc_blk].
    pose proof W as [Hp Hok Hs Ho Hr0 Hinc Hlt].
    rewrite Ho.
    rewrite (search_offsets_spec b es ridx W i ltac:(unfold n in *; lia) ridx 0 Hinc (ridx_le_n b es ridx W)).
    pose proof (count_pos i Hi0) as Hc. set (cnt := count_lt ridx i) in *.
    assert (Et : (match (if existsb (Nat.eqb i) ridx then inl (0 + N.of_nat cnt) else inr (0 + N.of_nat cnt)) with inl t => t | inr t => t end) = N.of_nat cnt)
      by (destruct (existsb (Nat.eqb i) ridx); lia).
    rewrite Et. destruct (N.eqb_spec (N.of_nat cnt) 0); [lia|].
    destruct (nth_error es i) as [[ck cv]|] eqn:Ei; [|apply nth_error_None in Ei; unfold n in *; lia].
    rewrite (entry_at_start b es ridx W i ck cv Ei). cbn [bind].
    replace (N.of_nat cnt - 1) with (N.of_nat (cnt - 1)) by lia. rewrite nthN_map_start.
    destruct (nth_error ridx (cnt - 1)) as [j|] eqn:Ej.
    2:{ apply nth_error_None in Ej. pose proof (count_lt_le ridx i). unfold cnt in *. lia. }
    cbn [option_map].
    assert (Hji : (j < i)%nat) by (apply (nth_before_count ridx i (cnt - 1) j Hinc Ej); unfold cnt in *; lia).
    rewrite (scan_while_spec b es ridx W (fun k => bytes_eqb ck k) (blk_payload b) j (Some (start es i)) ltac:(unfold n in *; lia)).
    2:{ rewrite Hp. pose proof (payload_length_ge es Hok). unfold n. lia. }
    cbn [bind]. rewrite (first_stop_eq_key i ck cv Ei (i - j)%nat j eq_refl ltac:(lia)).
    destruct (Nat.eqb_spec i j); [lia|].
    rewrite (bc_current_start b es ridx W (i - 1) ltac:(unfold n in *; lia)). reflexivity.
  Qed.

  (* at the first entry: None, and the cursor does not move *)
  Lemma bc_prev_first : bc_prev (mk_bcur b (Some (start es 0))) = Done (mk_bcur b (Some (start es 0)), None).
  Proof.
    unfold bc_prev. cbn [bc_off bc_blk]. pose proof W as [Hp Hok Hs Ho [r Hr] Hinc Hlt].
    rewrite Ho, Hr. cbn [map search_offsets]. rewrite N.eqb_refl. cbn. reflexivity.
  Qed.

  (* parked past the last entry: None, and the cursor does not move *)
  Lemma bc_prev_end : (0 < n)%nat -> bc_prev (mk_bcur b (Some (start es n))) = Done (mk_bcur b (Some (start es n)), None).
  Proof.
    intro Hn. unfold bc_prev. cbn [bc_off bc_blk]. pose proof W as [Hp Hok Hs Ho Hr0 Hinc Hlt].
    rewrite Ho.
    rewrite (search_offsets_spec b es ridx W n ltac:(unfold n; lia) ridx 0 Hinc (ridx_le_n b es ridx W)).
    pose proof (count_pos n Hn) as Hc.
    assert (Et : (match (if existsb (Nat.eqb n) ridx then inl (0 + N.of_nat (count_lt ridx n)) else inr (0 + N.of_nat (count_lt ridx n))) with inl t => t | inr t => t end) = N.of_nat (count_lt ridx n))
      by (destruct (existsb (Nat.eqb n) ridx); lia).
    rewrite Et. destruct (N.eqb_spec (N.of_nat (count_lt ridx n)) 0); [lia|].
    unfold n. rewrite (entry_at_last b es ridx W). reflexivity.
  Qed.
End Prev.

(* ---- the in-block seeks ---- *)
(* position of the floor: the entries with key <= q form a prefix of a sorted block *)
Definition fs_gt (q : bytes) (l : list entry) (p : nat) : nat := first_stop (fun k => bytes_ltb q k) l p.
Definition fs_ge (q : bytes) (l : list entry) (p : nat) : nat := first_stop (fun k => bytes_leb q k) l p.
Definition floor_pos (es : list entry) (q : bytes) : option nat :=
  let c := fs_gt q es 0 in if Nat.eqb c 0 then None else Some (c - 1)%nat.
Definition ceil_pos (es : list entry) (q : bytes) : nat := fs_ge q es 0.

Lemma first_stop_le stop l : forall m, (first_stop stop l m <= m + length l)%nat.
Proof. induction l as [|[k v] l IH]; intro m; cbn [first_stop length]; [lia|]. destruct (stop k); [lia|]. specialize (IH (S m)). lia. Qed.

Lemma first_stop_shift stop l : forall m d, first_stop stop l (m + d) = (first_stop stop l m + d)%nat.
Proof. induction l as [|[k v] l IH]; intros m d; cbn [first_stop]; [reflexivity|]. destruct (stop k); [reflexivity|]. apply (IH (S m) d). Qed.

(* entries before y do not stop: scanning from 0 or from y finds the same entry *)
Lemma first_stop_skip stop (es : list entry) : forall y, (y <= length es)%nat ->
  (forall p k v, (p < y)%nat -> nth_error es p = Some (k, v) -> stop k = false) ->
  first_stop stop es 0 = first_stop stop (skipn y es) y.
Proof.
  intro y. revert es. induction y as [|y IH]; intros es Hy Hns; [reflexivity|].
  destruct es as [|[k v] es]; [cbn [length] in Hy; lia|]. cbn [first_stop skipn].
  rewrite (Hns 0%nat k v ltac:(lia) eq_refl).
  change 1%nat with (0 + 1)%nat. rewrite (first_stop_shift stop es 0 1).
  rewrite (IH es ltac:(cbn [length] in Hy; lia)).
  - replace (S y) with (y + 1)%nat by lia. rewrite (first_stop_shift stop (skipn y es) y 1). reflexivity.
  - intros p k' v' Hp E. apply (Hns (S p) k' v' ltac:(lia)). exact E.
Qed.

Lemma ltb_asym a b : bytes_ltb a b = true -> bytes_ltb b a = false.
Proof.
  intro H. destruct (bytes_ltb b a) eqn:E; [|reflexivity].
  pose proof (bytes_ltb_trans a b a H E) as T. rewrite bytes_ltb_irrefl in T. discriminate.
Qed.

Section Seek.
  Variables (b : block) (es : list entry) (ridx : list nat).
  Hypothesis W : wfblock b es ridx.
  Let n := length es.

  Definition key_at (y : nat) : option bytes := option_map fst (nth_error es y).

  Fixpoint skeys_pure (q : bytes) (l : list nat) (t0 : N) : N + N :=
    match l with
    | [] => inr t0
    | y :: r => match okey_compare (key_at y) q with
                | Eq => inl t0 | Gt => inr t0 | Lt => skeys_pure q r (N.succ t0)
                end
    end.

  Lemma entry_at_any y : (y <= n)%nat ->
    entry_at b (start es y) = Done (match nth_error es y with Some (k, v) => Some (k, v, start es (S y)) | None => None end).
  Proof.
    intro Hy. destruct (nth_error es y) as [[k v]|] eqn:E.
    - exact (entry_at_start b es ridx W y k v E).
    - apply nth_error_None in E. assert (y = length es) by (unfold n in *; lia). subst y. exact (entry_at_last b es ridx W).
  Qed.

  Lemma search_keys_spec q : forall l t0, (forall y, In y l -> (y <= n)%nat) ->
    search_keys b (map (start es) l) q t0 = Done (skeys_pure q l t0).
  Proof.
    induction l as [|y l IH]; intros t0 Hle; cbn [map search_keys skeys_pure]; [reflexivity|].
    rewrite (entry_at_any y (Hle y (or_introl eq_refl))). cbn [bind]. unfold key_at.
    destruct (nth_error es y) as [[k v]|]; cbn [option_map fst okey_compare].
    - destruct (lex_compare k q); [reflexivity | apply IH; intros z Hz; apply Hle; right; exact Hz | reflexivity].
    - apply IH. intros z Hz. apply Hle. right. exact Hz.
  Qed.

  (* what the pure search returns on an ascending restart list *)
  Lemma skeys_pure_spec q : forall l t0, StronglySorted Nat.lt l ->
    match skeys_pure q l t0 with
    | inl t => exists m y, t = t0 + N.of_nat m /\ nth_error l m = Some y /\ okey_compare (key_at y) q = Eq /\
               (forall m' y', (m' < m)%nat -> nth_error l m' = Some y' -> okey_compare (key_at y') q = Lt)
    | inr t => exists m, t = t0 + N.of_nat m /\ (m <= length l)%nat /\
               (forall m' y', (m' < m)%nat -> nth_error l m' = Some y' -> okey_compare (key_at y') q = Lt) /\
               (forall y, nth_error l m = Some y -> okey_compare (key_at y) q = Gt)
    end.
  Proof.
    induction l as [|y l IH]; intros t0 Hs; cbn [skeys_pure].
    - exists 0%nat. split; [lia|]. split; [cbn; lia|]. split; [intros m' y' H; lia|intros y E; discriminate].
    - inversion Hs as [|? ? Hs' _]; subst. destruct (okey_compare (key_at y) q) eqn:Ec.
      + exists 0%nat, y. split; [lia|]. split; [reflexivity|]. split; [exact Ec|intros m' y' H; lia].
      + specialize (IH (N.succ t0) Hs'). destruct (skeys_pure q l (N.succ t0)) as [t|t].
        * destruct IH as (m & z & Et & En & Ez & Hb). exists (S m), z. split; [lia|]. split; [exact En|]. split; [exact Ez|].
          intros m' y' Hm E. destruct m' as [|m']; cbn [nth_error] in E; [injection E as <-; exact Ec|]. apply (Hb m' y'); [lia|exact E].
        * destruct IH as (m & Et & Hm & Hb & Ha). exists (S m). split; [lia|]. split; [cbn [length]; lia|]. split.
          -- intros m' y' Hm' E. destruct m' as [|m']; cbn [nth_error] in E; [injection E as <-; exact Ec|]. apply (Hb m' y'); [lia|exact E].
          -- intros z E. cbn [nth_error] in E. apply Ha. exact E.
      + exists 0%nat. split; [lia|]. split; [cbn [length]; lia|]. split; [intros m' y' H; lia|].
        intros z E. cbn [nth_error] in E. injection E as <-. exact Ec.
  Qed.

  Lemma key_lt_not_stop y k v q : nth_error es y = Some (k, v) -> lex_compare k q = Lt ->
    forall p kp vp, (p <= y)%nat -> nth_error es p = Some (kp, vp) -> bytes_ltb q kp = false.
  Proof.
    intros Ey Hlt p kp vp Hp Ep. destruct W as [_ _ Hs _ _ _ _].
    assert (Hkq : bytes_ltb k q = true) by (unfold bytes_ltb; rewrite Hlt; reflexivity).
    destruct (Nat.eq_dec p y) as [->|Hne].
    - rewrite Ey in Ep. injection Ep as <- <-. apply ltb_asym. exact Hkq.
    - pose proof (sorted_nth_lt es Hs p y kp vp k v ltac:(lia) Ep Ey) as H1.
      apply ltb_asym. apply (bytes_ltb_trans kp k q H1 Hkq).
  Qed.

  Theorem bc_le_spec o q :
    bc_le (mk_bcur b o) q =
    Done (mk_bcur b (option_map (start es) (floor_pos es q)),
          match floor_pos es q with Some i => nth_error es i | None => None end).
  Proof.
    pose proof W as [Hp Hok Hs Ho [r Hr] Hinc Hlt].
    unfold bc_le. cbn [bc_blk]. rewrite Ho.
    rewrite (search_keys_spec q ridx 0 (ridx_le_n b es ridx W)). cbn [bind].
    pose proof (skeys_pure_spec q ridx 0 Hinc) as Sp.
    destruct (skeys_pure q ridx 0) as [t|t].
    - (* a restart entry has exactly the key q *)
      destruct Sp as (m & y & Et & En & Ey & _). subst t. replace (0 + N.of_nat m) with (N.of_nat m) by lia.
      rewrite (nthN_map_start es ridx m), En. cbn [option_map bind].
      unfold key_at in Ey. destruct (nth_error es y) as [[k v]|] eqn:Eyy; cbn [option_map fst okey_compare] in Ey; [|discriminate].
      assert (Hkq : k = q) by (apply lex_compare_eq; exact Ey). subst k.
      assert (Hyn : (y < n)%nat) by (unfold n; apply nth_error_Some; rewrite Eyy; discriminate).
      (* the floor is y: entries up to y do not exceed q, entry y + 1 does *)
      assert (Hfl : floor_pos es q = Some y).
      { unfold floor_pos, fs_gt.
        rewrite (first_stop_skip (fun k => bytes_ltb q k) es y ltac:(unfold n in *; lia)).
        2:{ intros p kp vp Hpy Ep. pose proof (sorted_nth_lt es Hs p y kp vp q v Hpy Ep Eyy). apply ltb_asym. exact H. }
        rewrite (skipn_nth es y _ Eyy). cbn [first_stop]. rewrite bytes_ltb_irrefl.
        destruct (nth_error es (S y)) as [[k2 v2]|] eqn:E2.
        - rewrite (skipn_nth es (S y) _ E2). cbn [first_stop].
          rewrite (sorted_nth_lt es Hs y (S y) q v k2 v2 ltac:(lia) Eyy E2). cbn [Nat.eqb]. f_equal. lia.
        - apply nth_error_None in E2. rewrite skipn_all2 by lia. cbn [first_stop Nat.eqb]. f_equal. lia. }
      rewrite Hfl. cbn [option_map].
      rewrite (bc_current_start b es ridx W y ltac:(unfold n in *; lia)). reflexivity.
    - destruct Sp as (m & Et & Hm & Hb & Ha). subst t. replace (0 + N.of_nat m) with (N.of_nat m) by lia.
      destruct m as [|m].
      + (* every restart key is above q; restart 0 is entry 0 *)
        cbn [N.of_nat]. cbn [N.eqb bind]. change (0 =? 0) with true. cbn iota.
        assert (Hfl : floor_pos es q = None).
        { unfold floor_pos, fs_gt. specialize (Ha 0%nat). rewrite Hr in Ha. specialize (Ha eq_refl).
          unfold key_at in Ha. destruct es as [|[k v] es']; [reflexivity|].
          cbn [nth_error option_map fst okey_compare] in Ha. cbn [first_stop].
          unfold bytes_ltb. rewrite (lex_compare_antisym k q), Ha. reflexivity. }
        rewrite Hfl. cbn [option_map]. reflexivity.
      + destruct (N.eqb_spec (N.of_nat (S m)) 0); [lia|].
        replace (N.of_nat (S m) - 1) with (N.of_nat m) by lia.
        rewrite (nthN_map_start es ridx m).
        destruct (nth_error ridx m) as [y|] eqn:En; [|apply nth_error_None in En; lia].
        cbn [option_map].
        assert (Hyn : (y <= n)%nat) by (apply (ridx_le_n b es ridx W); eapply nth_error_In; exact En).
        rewrite (scan_while_spec b es ridx W (fun k => bytes_ltb q k) (blk_payload b) y None Hyn).
        2:{ rewrite Hp. pose proof (payload_length_ge es Hok). unfold n. lia. }
        cbn [bind].
        pose proof (Hb m y ltac:(lia) En) as Hy. unfold key_at in Hy.
        assert (Hskip : fs_gt q es 0 = first_stop (fun k => bytes_ltb q k) (skipn y es) y).
        { unfold fs_gt. apply first_stop_skip; [unfold n in *; lia|].
          intros p kp vp Hpy Ep. destruct (nth_error es y) as [[k v]|] eqn:Eyy.
          - cbn [option_map fst okey_compare] in Hy. exact (key_lt_not_stop y k v q Eyy Hy p kp vp ltac:(lia) Ep).
          - apply nth_error_None in Eyy. destruct (Hlt y (nth_error_In _ _ En)); lia. }
        unfold floor_pos. rewrite Hskip.
        set (c := first_stop (fun k => bytes_ltb q k) (skipn y es) y).
        assert (Hcy : (y <= c)%nat) by (unfold c; apply (first_stop_ge [])).
        destruct (Nat.eqb_spec c y) as [Hc|Hc].
        * (* nothing at or after y is <= q: then y = 0 and the block is empty (key_y < q otherwise) *)
          destruct (nth_error es y) as [[k v]|] eqn:Eyy.
          -- exfalso. cbn [option_map fst okey_compare] in Hy. unfold c in Hc. rewrite (skipn_nth es y _ Eyy) in Hc. cbn [first_stop] in Hc.
             rewrite (key_lt_not_stop y k v q Eyy Hy y k v ltac:(lia) Eyy) in Hc.
             pose proof (first_stop_ge [] (fun k => bytes_ltb q k) (skipn (S y) es) (S y)). lia.
          -- apply nth_error_None in Eyy. assert (y = 0%nat).
             { destruct (Hlt y (nth_error_In _ _ En)); [unfold n in *; lia|assumption]. }
             assert (Hc0 : c = 0%nat) by lia. rewrite Hc0. cbn [Nat.eqb option_map]. reflexivity.
        * destruct (Nat.eqb_spec c 0); [lia|]. cbn [option_map].
          assert (Hcn : (c <= n)%nat).
          { unfold c. pose proof (first_stop_le (fun k => bytes_ltb q k) (skipn y es) y). rewrite skipn_length in H. unfold n. lia. }
          rewrite (bc_current_start b es ridx W (c - 1) ltac:(lia)). reflexivity.
  Qed.
End Seek.

(* ---- characterisation of the scanning position ---- *)
Lemma first_stop_unique stop (es : list entry) : forall c, (c <= length es)%nat ->
  (forall p k v, (p < c)%nat -> nth_error es p = Some (k, v) -> stop k = false) ->
  (forall k v, nth_error es c = Some (k, v) -> stop k = true) ->
  first_stop stop es 0 = c.
Proof.
  induction es as [|[k v] es IH]; intros c Hc Hb Ha.
  - cbn [length] in Hc. cbn [first_stop]. lia.
  - cbn [first_stop]. destruct c as [|c].
    + rewrite (Ha k v eq_refl). reflexivity.
    + rewrite (Hb 0%nat k v ltac:(lia) eq_refl).
      change 1%nat with (0 + 1)%nat. rewrite first_stop_shift.
      rewrite (IH c ltac:(cbn [length] in Hc; lia)); [lia| |].
      * intros p k' v' Hp E. apply (Hb (S p) k' v' ltac:(lia)). exact E.
      * intros k' v' E. apply (Ha k' v'). exact E.
Qed.

Lemma first_stop_props stop (es : list entry) :
  let c := first_stop stop es 0 in
  (c <= length es)%nat /\
  (forall p k v, (p < c)%nat -> nth_error es p = Some (k, v) -> stop k = false) /\
  (forall k v, nth_error es c = Some (k, v) -> stop k = true).
Proof.
  induction es as [|[k v] es IH]; cbn [first_stop length].
  - split; [lia|]. split; [intros; lia|intros k v E; discriminate].
  - destruct (stop k) eqn:Sk.
    + split; [lia|]. split; [intros; lia|]. intros k' v' E. cbn [nth_error] in E. injection E as <- <-. exact Sk.
    + change 1%nat with (0 + 1)%nat. rewrite first_stop_shift. cbv zeta in IH. destruct IH as (I1 & I2 & I3).
      split; [lia|]. split.
      * intros p k' v' Hp E. destruct p as [|p]; cbn [nth_error] in E; [injection E as <- <-; exact Sk|].
        apply (I2 p k' v'); [lia|exact E].
      * intros k' v' E. replace (first_stop stop es 0 + 1)%nat with (S (first_stop stop es 0)) in E by lia.
        cbn [nth_error] in E. apply (I3 k' v' E).
Qed.

Section SeekGe.
  Variables (b : block) (es : list entry) (ridx : list nat).
  Hypothesis W : wfblock b es ridx.
  Let n := length es.

  Lemma leb_of_ltb q k : bytes_ltb q k = true -> bytes_leb q k = true.
  Proof. intro H. rewrite bytes_leb_ltb. rewrite (ltb_asym q k H). reflexivity. Qed.

  (* move_on_key_greater_than_or_equal_to inside a block: the exact ceiling *)
  Theorem bc_ge_spec o q :
    bc_ge (mk_bcur b o) q = Done (mk_bcur b (Some (start es (ceil_pos es q))), nth_error es (ceil_pos es q)).
  Proof.
    pose proof W as [Hp Hok Hs Ho Hr0 Hinc Hlt].
    unfold bc_ge. rewrite (bc_le_spec b es ridx W o q). cbn [bind].
    pose proof (first_stop_props (fun k => bytes_ltb q k) es) as (G1 & G2 & G3). cbv zeta in G1, G2, G3.
    unfold floor_pos, fs_gt. set (c := first_stop (fun k => bytes_ltb q k) es 0) in *.
    destruct (Nat.eqb_spec c 0) as [Hc0|Hc0].
    - (* no key <= q: the ceiling is entry 0 *)
      cbn [option_map]. rewrite (bc_first_spec b es ridx W).
      assert (E : ceil_pos es q = 0%nat).
      { unfold ceil_pos, fs_ge. apply first_stop_unique; [lia|intros; lia|].
        intros k v E. apply leb_of_ltb. apply (G3 k v). rewrite Hc0. exact E. }
      rewrite E. reflexivity.
    - cbn [option_map].
      destruct (nth_error es (c - 1)) as [[k v]|] eqn:Ef; [|apply nth_error_None in Ef; lia].
      destruct (bytes_eqb k q) eqn:Eq.
      + (* the floor has exactly the key q: it is the ceiling too *)
        apply bytes_eqb_eq in Eq. subst k.
        assert (E : ceil_pos es q = (c - 1)%nat).
        { unfold ceil_pos, fs_ge. apply first_stop_unique; [lia| |].
          - intros p kp vp Hpc Ep. pose proof (sorted_nth_lt es Hs p (c - 1) kp vp q v Hpc Ep Ef) as H1.
            rewrite bytes_leb_ltb, H1. reflexivity.
          - intros k' v' E'. rewrite Ef in E'. injection E' as <- <-. rewrite bytes_leb_ltb, bytes_ltb_irrefl. reflexivity. }
        rewrite E, Ef. reflexivity.
      + (* the floor is strictly below q: the ceiling is the next entry *)
        assert (Hkq : bytes_ltb k q = true).
        { pose proof (G2 (c - 1)%nat k v ltac:(lia) Ef) as H1. destruct (bytes_total k q) as [H|[H|H]]; [exact H| |].
          - subst k. assert (bytes_eqb q q = true) by (apply bytes_eqb_eq; reflexivity). congruence.
          - rewrite H in H1. discriminate. }
        rewrite (bc_next_spec b es ridx W (c - 1) ltac:(lia)).
        replace (S (c - 1)) with c by lia.
        assert (E : ceil_pos es q = c).
        { unfold ceil_pos, fs_ge. apply first_stop_unique; [exact G1| |].
          - intros p kp vp Hpc Ep. rewrite bytes_leb_ltb.
            destruct (Nat.eq_dec p (c - 1)) as [->|Hne].
            + rewrite Ef in Ep. injection Ep as <- <-. rewrite Hkq. reflexivity.
            + pose proof (sorted_nth_lt es Hs p (c - 1) kp vp k v ltac:(lia) Ep Ef) as H1.
              rewrite (bytes_ltb_trans kp k q H1 Hkq). reflexivity.
          - intros k' v' E'. apply leb_of_ltb. apply (G3 k' v' E'). }
        rewrite E. reflexivity.
  Qed.
End SeekGe.

(* ---- every block finished by the block writer is well-formed in the above sense ---- *)
Fixpoint ridx_gen (interval ctr : N) (p : nat) (rest : list entry) : list nat :=
  match rest with
  | [] => []
  | _ :: r => if ctr =? interval then p :: ridx_gen interval 1 (S p) r else ridx_gen interval (ctr + 1) (S p) r
  end.

Lemma ridx_gen_bounds interval : forall rest ctr p x, In x (ridx_gen interval ctr p rest) -> (p <= x < p + length rest)%nat.
Proof.
  induction rest as [|e rest IH]; intros ctr p x H; cbn [ridx_gen] in H; [destruct H|].
  cbn [length]. destruct (ctr =? interval).
  - destruct H as [<-|H]; [lia|]. apply IH in H. lia.
  - apply IH in H. lia.
Qed.

Lemma ridx_gen_sorted interval : forall rest ctr p, StronglySorted Nat.lt (ridx_gen interval ctr p rest).
Proof.
  induction rest as [|e rest IH]; intros ctr p; cbn [ridx_gen]; [constructor|].
  destruct (ctr =? interval); [|apply IH].
  constructor; [apply IH|]. apply Forall_forall. intros x Hx. apply ridx_gen_bounds in Hx. lia.
Qed.

Lemma expected_offsets_ridx interval es : forall p rest ctr, skipn p es = rest ->
  expected_offsets interval ctr (with_starts rest (start es p)) = map (start es) (ridx_gen interval ctr p rest).
Proof.
  intros p rest; revert p. induction rest as [|[k v] rest IH]; intros p ctr Hs; [reflexivity|].
  cbn [with_starts expected_offsets ridx_gen fst snd].
  assert (En : nth_error es p = Some (k, v)).
  { clear - Hs. revert es Hs. induction p as [|p IHp]; intros [|e es] Hs; cbn [skipn] in Hs; try discriminate.
    - injection Hs as -> _. reflexivity.
    - cbn [nth_error]. apply IHp. exact Hs. }
  assert (Hs' : skipn (S p) es = rest).
  { clear - Hs. revert es Hs. induction p as [|p IHp]; intros [|e es] Hs; cbn [skipn] in *; try discriminate.
    - injection Hs as _ ->. reflexivity.
    - apply IHp. exact Hs. }
  rewrite <- (start_S es p k v En).
  destruct (ctr =? interval); cbn [map]; rewrite (IH (S p) _ Hs'); reflexivity.
Qed.

Theorem finished_block_wf w es : bw_ok w es -> 1 <= bw_interval w ->
  wfblock (mk_block (payload_of es) (rev (bw_offsets w))) es (0%nat :: ridx_gen (bw_interval w) 0 0 es).
Proof.
  intros Hok Hi. pose proof Hok as [_ _ _ _ Htr Hso Hen].
  apply bw_track_offsets in Htr. cbn [rev app] in Htr.
  constructor; cbn [blk_payload blk_offsets].
  - reflexivity.
  - exact Hen.
  - exact Hso.
  - rewrite Htr. cbn [map]. f_equal. change 0 with (start es 0) at 2. apply expected_offsets_ridx. reflexivity.
  - eexists. reflexivity.
  - constructor; [apply ridx_gen_sorted|]. apply Forall_forall. intros x Hx.
    (* the first entry is never recorded again: the counter starts at 0 < interval *)
    destruct es as [|e es']; [destruct Hx|]. cbn [ridx_gen] in Hx.
    destruct (N.eqb_spec 0 (bw_interval w)); [lia|]. apply ridx_gen_bounds in Hx. lia.
  - intros x [<-|Hx]; [right; reflexivity|]. left. apply ridx_gen_bounds in Hx. lia.
Qed.

(* ---- the positions used above are the ceiling / floor of the specification (model/Spec.v) ---- *)
Lemma ceil_idx_pos es q : forall i0,
  ceil_idx es q i0 = match nth_error es (fs_ge q es 0) with
                     | Some e => Some (i0 + N.of_nat (fs_ge q es 0), e)
                     | None => None
                     end.
Proof.
  induction es as [|[k v] es IH]; intro i0; cbn [ceil_idx]; [reflexivity|].
  unfold fs_ge in *. cbn [first_stop]. destruct (bytes_leb q k).
  - cbn [nth_error]. f_equal. f_equal. lia.
  - change 1%nat with (0 + 1)%nat. rewrite first_stop_shift. rewrite (IH (N.succ i0)).
    replace (first_stop (fun k0 => bytes_leb q k0) es 0 + 1)%nat with (S (first_stop (fun k0 => bytes_leb q k0) es 0)) by lia.
    cbn [nth_error]. destruct (nth_error es (first_stop (fun k0 => bytes_leb q k0) es 0)); [|reflexivity].
    f_equal. f_equal. lia.
Qed.

Lemma floor_idx_pos es q : forall i0 best,
  floor_idx es q i0 best =
  (let c := fs_gt q es 0 in
   if Nat.eqb c 0 then best
   else match nth_error es (c - 1) with Some e => Some (i0 + N.of_nat (c - 1), e) | None => None end).
Proof.
  induction es as [|[k v] es IH]; intros i0 best; cbn [floor_idx]; [reflexivity|].
  unfold fs_gt in *. cbn [first_stop]. rewrite bytes_leb_ltb. destruct (bytes_ltb q k); cbn [negb]; [reflexivity|].
  change 1%nat with (0 + 1)%nat. rewrite first_stop_shift. rewrite (IH (N.succ i0)). cbv zeta.
  set (c := first_stop (fun k0 => bytes_ltb q k0) es 0).
  destruct (Nat.eqb_spec c 0) as [->|Hc].
  - cbn. f_equal. f_equal. lia.
  - destruct (Nat.eqb_spec (c + 1) 0); [lia|]. replace (c + 1 - (0 + 1))%nat with (S (c - 1)) by lia. cbn [nth_error].
    destruct (nth_error es (c - 1)); [|reflexivity]. f_equal. f_equal. lia.
Qed.
