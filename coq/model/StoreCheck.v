(* An executable check of the hypotheses of the reader refinement (proofs/ReaderRefine.v: wf_store)
   on the blocks of a decoded file.  It is evaluated by the correspondence driver on every file the
   implementation writes; it is NOT proved sound here (it validates the hypothesis, it does not
   replace the missing writer-side theorem W). *)
From Grenad.model Require Import Base Varint Block Trailer Reader Spec Format.

Notation node := (N * N * block)%type.     (* tree level (0 = root), frame offset, parsed block *)

Fixpoint find_node (nodes : list node) (off : N) : option node :=
  match nodes with
  | [] => None
  | (l, o, b) :: r => if o =? off then Some (l, o, b) else find_node r off
  end.

Definition entries_of (b : block) : option (list (N * entry)) :=
  match block_entries b with Done l => Some l | _ => None end.

(* the restart table is a strictly increasing subsequence of the entry starts beginning with 0 *)
Fixpoint offsets_subseq (offs : list N) (starts : list N) : bool :=
  match offs with
  | [] => true
  | o :: offs' =>
    (fix find (st : list N) : bool :=
       match st with
       | [] => false
       | s :: st' => if s =? o then offsets_subseq offs' st' else find st'
       end) starts
  end.

Fixpoint bytes_eq (a b : bytes) : bool :=
  match a, b with
  | [], [] => true
  | x :: a', y :: b' => (x =? y) && bytes_eq a' b'
  | _, _ => false
  end.

Definition block_wf (b : block) : bool :=
  match entries_of b with
  | None => false
  | Some l =>
    let es := map snd l in
    match es with
    | [] => false
    | _ :: _ =>
      bytes_eq (flat_map (fun e => frame (fst e) (snd e)) es) (blk_payload b)
      && sorted_strictb (map fst es)
      && (match blk_offsets b with 0 :: _ => true | _ => false end)
      && offsets_subseq (blk_offsets b) (map fst l)
    end
  end.

(* an index node at tree level lvl: items are 8-byte offsets of nodes of level lvl + 1 carrying the
   last key of that node *)
Definition item_wf (nodes : list node) (lvl : N) (it : entry) : bool :=
  (len (snd it) =? 8) &&
  match find_node nodes (be_decode (snd it)) with
  | Some (l, _, cb) =>
    (l =? lvl + 1) &&
    match entries_of cb with
    | Some cl => match last_opt (map snd cl) with Some (k, _) => bytes_eqb k (fst it) | None => false end
    | None => false
    end
  | None => false
  end.

Definition node_wf (nodes : list node) (levels : N) (nd : node) : bool :=
  let '(lvl, _, b) := nd in
  block_wf b &&
  (if lvl <=? levels
   then match entries_of b with Some l => forallb (item_wf nodes lvl) (map snd l) | None => false end
   else lvl =? levels + 1).

Fixpoint nodup_offs (seen : list N) (nodes : list node) : bool :=
  match nodes with
  | [] => true
  | (_, o, _) :: r => negb (existsb (N.eqb o) seen) && nodup_offs (o :: seen) r
  end.

(* the level sequences: entries of the nodes of each level in tree order *)
Definition level_entries (nodes : list node) (lvl : N) : list entry :=
  flat_map (fun nd => let '(l, _, b) := nd in
                      if l =? lvl then match entries_of b with Some es => map snd es | None => [] end else []) nodes.

Fixpoint levels_sorted (nodes : list node) (fuel : nat) (lvl : N) : bool :=
  match fuel with
  | O => true
  | S f => sorted_strictb (map fst (level_entries nodes lvl)) && levels_sorted nodes f (lvl + 1)
  end.

(* [nodes] as produced by Format.decode_file (pre-order walk from the root) *)
Definition store_wf (nodes : list node) (root levels : N) : bool :=
  (match nodes with (0, o, _) :: _ => o =? root | _ => false end)
  && forallb (node_wf nodes levels) nodes
  && nodup_offs [] nodes
  && levels_sorted nodes (S (S (N.to_nat levels))) 0.
