(* Soundness of the executable store check (model/StoreCheck.v): when store_wf returns true on the
   nodes an independent decode of a file loaded, the file is a well-formed store in the sense of the
   reader refinement, and its content is what the decoder returned.  The correspondence evaluates
   store_wf on every file the implementation (and the frozen 0.4.7 writer) produces: each such run is a
   certificate that the reader theorems apply to that very file. *)
From Coq Require Import Lia ZArith ZifyN ZifyBool ZifyNat Sorted.
From Grenad.gen Require Import Consts.
From Grenad.model Require Import Base Varint Block Trailer Reader Spec Format StoreCheck.
From Grenad.proofs Require Import BaseProofs BlockProofs FormatProofs BlockCursorProofs ReaderRefine DecoderProofs.
Ltac Zify.zify_post_hook ::= Z.div_mod_to_equations.

Lemma bytes_eq_eq a : forall b, bytes_eq a b = true -> a = b.
Proof.
  induction a as [|x a IH]; intros [|y b] H; cbn [bytes_eq] in H; try discriminate; [reflexivity|].
  apply andb_prop in H. destruct H as [H1 H2]. apply N.eqb_eq in H1. subst. f_equal. apply IH. exact H2.
Qed.

(* ---- the restart indices ---- *)
Lemma match_offsets_spec : forall offs starts base ridx,
  match_offsets offs starts base = Some ridx ->
  offs = map (fun i => nth (i - base) starts 0) ridx /\ StronglySorted Nat.lt ridx /\
  Forall (fun x => (base <= x < base + length starts)%nat) ridx.
Proof.
  induction offs as [|o offs IH]; intros starts base ridx H; cbn [match_offsets] in H.
  - injection H as <-. split; [reflexivity|]. split; constructor.
  - revert base ridx H. induction starts as [|s starts IHs]; intros base ridx H; [discriminate|].
    destruct (N.eqb_spec s o) as [->|Hne].
    + destruct (match_offsets offs starts (S base)) as [r|] eqn:E; [|discriminate]. injection H as <-.
      destruct (IH starts (S base) r E) as (A & B & C). split; [|split].
      * cbn [map]. rewrite Nat.sub_diag. cbn [nth]. f_equal. rewrite A. apply map_ext_in. intros i Hi.
        rewrite Forall_forall in C. specialize (C i Hi). replace (i - base)%nat with (S (i - S base)) by lia. reflexivity.
      * constructor; [exact B|]. eapply Forall_impl; [|exact C]. cbn beta. intros; lia.
      * constructor; [cbn [length]; lia|]. eapply Forall_impl; [|exact C]. cbn beta. cbn [length]. intros; lia.
    + destruct (IHs (S base) ridx H) as (A & B & C). split; [|split; [exact B|]].
      * rewrite A. apply map_ext_in. intros i Hi. rewrite Forall_forall in C. specialize (C i Hi).
        replace (i - base)%nat with (S (i - S base)) by lia. reflexivity.
      * eapply Forall_impl; [|exact C]. cbn beta. cbn [length]. intros; lia.
Qed.

Lemma starts_of_with_starts es : forall pos i, (i < length es)%nat ->
  nth i (map fst (with_starts es pos)) 0 = pos + len (payload_of (firstn i es)).
Proof.
  induction es as [|e es IH]; intros pos i Hi; [cbn [length] in Hi; lia|].
  cbn [with_starts map fst]. destruct i as [|i]; cbn [nth firstn].
  - change (payload_of []) with (@nil N). change (len (@nil N)) with 0. lia.
  - rewrite IH by (cbn [length] in Hi; lia). unfold payload_of. cbn [flat_map]. rewrite len_app. lia.
Qed.

Lemma with_starts_length es pos : length (with_starts es pos) = length es.
Proof. revert pos; induction es as [|e es IH]; intro pos; [reflexivity|]. cbn [with_starts length]. rewrite IH. reflexivity. Qed.

(* ---- one block ---- *)
Theorem block_wf_sound b : block_wf b = true ->
  exists ridx, ridx_of b = Some ridx /\ wfblock b (es_of b) ridx /\ es_of b <> [].
Proof.
  unfold block_wf, es_of, ridx_of. destruct (entries_of b) as [l|] eqn:El; [|discriminate].
  cbv zeta. destruct (map snd l) as [|e0 es0] eqn:Ees; [discriminate|]. set (es := e0 :: es0) in *. intro H.
  apply andb_prop in H. destruct H as [H Hr]. apply andb_prop in H. destruct H as [H Hs].
  apply andb_prop in H. destruct H as [Hp Hl].
  apply bytes_eq_eq in Hp.
  assert (Hok : entries_ok es).
  { unfold entries_ok. apply Forall_forall. intros x Hx. rewrite forallb_forall in Hl. specialize (Hl x Hx).
    apply andb_prop in Hl. destruct Hl as [A B]. apply N.leb_le in A, B. split; assumption. }
  assert (Hpay : blk_payload b = payload_of es) by (symmetry; exact Hp).
  (* the decoded list is the entries with their starts *)
  assert (Hl' : l = with_starts es 0).
  { unfold entries_of in El. pose proof (block_entries_spec b es Hpay Hok) as E. rewrite E in El. injection El as <-. reflexivity. }
  destruct (match_offsets (blk_offsets b) (map fst l) 0) as [ridx|] eqn:Em; [|discriminate].
  destruct ridx as [|[|x] r]; try discriminate.
  exists (0%nat :: r). split; [reflexivity|]. split; [|unfold es; discriminate].
  destruct (match_offsets_spec _ _ _ _ Em) as (A & B & C).
  rewrite Hl', map_length, with_starts_length in C.
  constructor.
  - exact Hpay.
  - exact Hok.
  - exact Hs.
  - rewrite A. apply map_ext_in. intros i Hi. rewrite Forall_forall in C. specialize (C i Hi).
    rewrite Nat.sub_0_r, Hl'. rewrite starts_of_with_starts by lia. unfold start. lia.
  - eexists. reflexivity.
  - exact B.
  - intros x Hx. rewrite Forall_forall in C. specialize (C x Hx). left. lia.
Qed.

(* ---- the store a node table defines ---- *)
Definition bs_of (nodes : list node) (off : N) : option (block * list entry * list nat) :=
  match node_block nodes off with
  | Some b => if block_wf b then match ridx_of b with Some r => Some (b, es_of b, r) | None => None end else None
  | None => None
  end.

Lemma find_node_in nodes off nd : find_node nodes off = Some nd -> In nd nodes /\ snd (fst nd) = off.
Proof.
  induction nodes as [|[[l o] b] r IH]; cbn [find_node]; [discriminate|].
  destruct (N.eqb_spec o off) as [->|Hne].
  - intro H. injection H as <-. split; [left; reflexivity|reflexivity].
  - intro H. destruct (IH H) as [A B]. split; [right; exact A|exact B].
Qed.

Section Sound.
  Variable ld : N -> N -> outcome block.
  Variable nodes : list node.
  Variables root levels : N.
  Hypothesis Hloaded : forall l o b, In (l, o, b) nodes -> forall ord, ld ord o = Done b.
  Notation bs := (bs_of nodes).

  Lemma bs_some off b es ridx : bs off = Some (b, es, ridx) ->
    node_block nodes off = Some b /\ block_wf b = true /\ es = es_of b /\ ridx_of b = Some ridx.
  Proof.
    unfold bs_of. destruct (node_block nodes off) as [b0|]; [|discriminate].
    destruct (block_wf b0) eqn:Ew; [|discriminate]. destruct (ridx_of b0) as [r|] eqn:Er; [|discriminate].
    intro H. injection H as <- <- <-. auto.
  Qed.

  Lemma bs_of_stored off : stored_ok nodes off = true -> exists b ridx, bs off = Some (b, es_of b, ridx).
  Proof.
    unfold stored_ok, bs_of. destruct (node_block nodes off) as [b|]; [|discriminate]. intro Hw. rewrite Hw.
    destruct (block_wf_sound b Hw) as (ridx & Er & _). rewrite Er. eauto.
  Qed.

  Lemma store_ld off b es ridx : bs off = Some (b, es, ridx) ->
    (forall ord, ld ord off = Done b) /\ wfblock b es ridx /\ es <> [].
  Proof.
    intro H. destruct (bs_some _ _ _ _ H) as (Hn & Hw & -> & Er).
    destruct (block_wf_sound b Hw) as (ridx' & Er' & W & Hne). rewrite Er in Er'. injection Er' as <-.
    split; [|auto]. unfold node_block in Hn. destruct (find_node nodes off) as [[[l o] b0]|] eqn:Ef; [|discriminate].
    injection Hn as ->. destruct (find_node_in _ _ _ Ef) as [Hin Ho]. cbn [fst snd] in Ho. subst o. exact (Hloaded l off b Hin).
  Qed.

  Lemma kids_items it : kids bs it = blk_items nodes (coffx it).
  Proof.
    unfold kids, blk_items, bs_of, coff, coffx. destruct (node_block nodes (be_decode (snd it))) as [b|]; [|reflexivity].
    destruct (block_wf b) eqn:Ew; [|reflexivity]. destruct (block_wf_sound b Ew) as (r & Er & _). rewrite Er. reflexivity.
  Qed.

  Lemma root_items_x : root_items root bs = blk_items nodes root.
  Proof.
    unfold root_items, blk_items, bs_of. destruct (node_block nodes root) as [b|]; [|reflexivity].
    destruct (block_wf b) eqn:Ew; [|reflexivity]. destruct (block_wf_sound b Ew) as (r & Er & _). rewrite Er. reflexivity.
  Qed.

  Lemma lseq_S k : lseq root bs (S k) = flat_map (fun it => blk_items nodes (coffx it)) (lseq root bs k).
  Proof. cbn [lseq]. apply flat_map_ext. intro it. apply kids_items. Qed.

  Lemma offs_S k : offs root bs (S k) = map coffx (lseq root bs k).
  Proof. reflexivity. Qed.

  (* what one level check establishes *)
  Lemma level_ok_sound k : level_ok nodes (offs root bs k) (lseq root bs k) = true ->
    Forall (item_ok bs) (lseq root bs k) /\
    (forall it, In it (lseq root bs k) -> ~ In (coff it) (offs root bs k)) /\
    (forall g it, nth_error (lseq root bs k) g = Some it -> option_map fst (last_opt (kids bs it)) = Some (fst it)).
  Proof.
    unfold level_ok. intro H. apply andb_prop in H. destruct H as [H H3]. apply andb_prop in H. destruct H as [H1 H2].
    rewrite forallb_forall in H1, H2, H3. split; [|split].
    - apply Forall_forall. intros it Hit. specialize (H1 it Hit). apply andb_prop in H1. destruct H1 as [A B].
      apply N.eqb_eq in A. split; [exact A|]. destruct (bs_of_stored _ B) as (b & r & E). unfold coff. unfold coffx in E. rewrite E. discriminate.
    - intros it Hit Hin. specialize (H2 it Hit). apply Bool.negb_true_iff in H2.
      assert (existsb (N.eqb (coffx it)) (offs root bs k) = true).
      { apply existsb_exists. exists (coff it). split; [exact Hin|apply N.eqb_refl]. }
      congruence.
    - intros g it Hn. specialize (H3 it (nth_error_In _ _ Hn)). rewrite kids_items.
      destruct (last_opt (blk_items nodes (coffx it))) as [[k' v']|]; [|discriminate]. apply bytes_eqb_eq in H3. subst. reflexivity.
  Qed.

  Lemma check_levels_sound : forall n k, check_levels nodes n (offs root bs k) (lseq root bs k) = true ->
    (forall j, (k <= j <= k + n)%nat -> sorted_strictb (map fst (lseq root bs j)) = true) /\
    (forall j, (k <= j < k + n)%nat -> level_ok nodes (offs root bs j) (lseq root bs j) = true).
  Proof.
    induction n as [|n IH]; intros k H; cbn [check_levels] in H.
    - apply andb_prop in H. destruct H as [Hs _]. split; [intros j Hj; replace j with k by lia; exact Hs|intros j Hj; lia].
    - apply andb_prop in H. destruct H as [Hs H]. apply andb_prop in H. destruct H as [Hl Hrec].
      rewrite <- offs_S, <- lseq_S in Hrec. destruct (IH (S k) Hrec) as [A B]. split.
      + intros j Hj. destruct (Nat.eq_dec j k) as [->|Hne]; [exact Hs|apply A; lia].
      + intros j Hj. destruct (Nat.eq_dec j k) as [->|Hne]; [exact Hl|apply B; lia].
  Qed.

  Theorem store_wf_sound : store_wf nodes root levels = true -> wf_store ld root levels bs.
  Proof.
    unfold store_wf. intro H. apply andb_prop in H. destruct H as [Hr Hc].
    rewrite <- root_items_x in Hc. change [root] with (offs root bs 0) in Hc. change (root_items root bs) with (lseq root bs 0) in Hc.
    destruct (check_levels_sound _ 0 Hc) as [Hsorted Hlev].
    constructor.
    - exact store_ld.
    - intros k Hk it Hit. destruct (level_ok_sound k (Hlev k ltac:(lia))) as (_ & D & _). apply D. exact Hit.
    - destruct (bs_of_stored root Hr) as (b & r & E). exists b, r. unfold root_items. rewrite E. reflexivity.
    - intros k Hk. destruct (level_ok_sound k (Hlev k ltac:(lia))) as (I & _ & _). exact I.
    - intros k Hk. apply Hsorted. lia.
    - intros k g it Hk Hn. destruct (level_ok_sound k (Hlev k ltac:(lia))) as (_ & _ & Lk). exact (Lk g it Hn).
  Qed.
End Sound.

(* ---- the nodes of the independent decoder were all loaded from their offsets ---- *)
Section WalkNodes.
  Variable decompress : N -> bytes -> outcome bytes.
  Variable file : bytes.
  Variable codec : N.

  Lemma walk_nodes_loaded : forall d lvl off es nodes, walk decompress file codec d lvl off = Done (es, nodes) ->
    forall l o b, In (l, o, b) nodes -> Format.ld decompress file codec o = Done b.
  Proof.
    induction d as [|d IH]; intros lvl off es nodes H l o b Hin.
    - cbn [walk] in H. destruct (Format.ld decompress file codec off) as [b0| |] eqn:El; cbn [bind] in H; try discriminate.
      destruct (block_entries b0) as [bes| |]; cbn [bind] in H; try discriminate. injection H as _ <-.
      destruct Hin as [E|[]]. injection E as _ <- <-. exact El.
    - rewrite (walk_S decompress file codec d lvl off) in H.
      destruct (Format.ld decompress file codec off) as [b0| |] eqn:El; cbn [bind] in H; try discriminate.
      destruct (block_entries b0) as [bes| |]; cbn [bind] in H; try discriminate.
      destruct (children decompress file codec d lvl bes) as [[ces cnodes]| |] eqn:Ec; cbn [bind fst snd] in H; try discriminate.
      injection H as _ <-. destruct Hin as [E|Hin]; [injection E as _ <- <-; exact El|].
      (* a node below one of the children *)
      clear El. revert ces cnodes Ec Hin. induction bes as [|[p [k ob]] bes IHb]; intros ces cnodes Ec Hin; cbn [children] in Ec.
      + injection Ec as _ <-. destruct Hin.
      + destruct (off_of_val ob) as [j| |]; cbn [bind] in Ec; try discriminate.
        destruct (walk decompress file codec d (lvl + 1) j) as [[ses snodes]| |] eqn:Ew; cbn [bind] in Ec; try discriminate.
        destruct (children decompress file codec d lvl bes) as [[oes onodes]| |] eqn:Eo; cbn [bind fst snd] in Ec; try discriminate.
        injection Ec as _ <-. apply in_app_or in Hin. destruct Hin as [Hin|Hin].
        * exact (IH _ _ _ _ Ew l o b Hin).
        * exact (IHb _ _ eq_refl Hin).
  Qed.
End WalkNodes.

(* ================= the certificate ================= *)
Theorem decoded_store_certified decompress file m es nodes :
  decode_file decompress file = Done (m, es, nodes) ->
  store_wf nodes (m_root m) (m_levels m) = true ->
  wf_store (load_block decompress file (m_codec m)) (m_root m) (m_levels m) (bs_of nodes) /\
  content (m_root m) (m_levels m) (bs_of nodes) = es.
Proof.
  unfold decode_file. intros H Hw. destruct (open_meta file) as [m0| |]; cbn [bind] in H; try discriminate.
  destruct (walk decompress file (m_codec m0) (S (N.to_nat (m_levels m0))) 0 (m_root m0)) as [[es0 nodes0]| |] eqn:Ewalk; cbn [bind fst snd] in H; try discriminate.
  injection H as <- <- <-.
  assert (W : wf_store (load_block decompress file (m_codec m0)) (m_root m0) (m_levels m0) (bs_of nodes0)).
  { apply store_wf_sound; [|exact Hw]. intros l o b Hin ord.
    exact (walk_nodes_loaded decompress file (m_codec m0) _ _ _ _ _ Ewalk l o b Hin). }
  split; [exact W|].
  destruct (walk_content decompress file (m_codec m0) (m_root m0) (m_levels m0) (bs_of nodes0) W) as (nodes' & E).
  rewrite Ewalk in E. injection E as -> _. reflexivity.
Qed.
