(* C02 — Seeks return the exact ceiling, floor or match for any probe.  Statements only.
   The specification functions compute the ceiling / floor the property describes (C02_ceil_spec,
   C02_floor_spec); in-block seeks return them on every well-formed block; the multi-level cursor
   returns them from ANY state of ANY well-formed store of any depth (C02_seeks, from the refinement R);
   and every file the writer model finishes is such a store whose content is the inserted entries
   (C02_written_file_seeks, from W). *)
From Grenad.model Require Import Base Block Reader Spec.
From Grenad.proofs Require Import SpecProofs.

(* ceil_idx returns the first entry with key >= q: it is >= q and every earlier entry is < q
   (on a sorted list: the smallest key >= q) *)
Theorem C02_ceil_spec : forall es q i0 i e,
  ceil_idx es q i0 = Some (i, e) ->
  i0 <= i /\ nthN (i - i0) es = Some e /\ bytes_leb q (fst e) = true /\
  (forall j e', j < i - i0 -> nthN j es = Some e' -> bytes_ltb (fst e') q = true).
Proof. exact ceil_idx_spec. Qed.
Print Assumptions C02_ceil_spec.

(* None exactly when every key is < q *)
Theorem C02_ceil_none : forall es q i0, ceil_idx es q i0 = None -> forall e, In e es -> bytes_ltb (fst e) q = true.
Proof. exact ceil_idx_none. Qed.
Print Assumptions C02_ceil_none.

Theorem C02_floor_spec : forall es q i0 best i e,
  floor_idx es q i0 best = Some (i, e) ->
  best = Some (i, e) \/ (i0 <= i /\ nthN (i - i0) es = Some e /\ bytes_leb (fst e) q = true).
Proof. exact floor_idx_spec. Qed.
Print Assumptions C02_floor_spec.

Example C02_examples :
  let es := [([1], [10]); ([1; 0], [11]); ([3], [12])] in
  ceil_idx es [1; 0; 0] 0 = Some (2, ([3], [12])) /\ floor_idx es [1; 0; 0] 0 None = Some (1, ([1; 0], [11])) /\
  find_idx es [2] = None /\ ceil_idx es [4] 0 = None /\ floor_idx es [] 0 None = None.
Proof. vm_compute. repeat split; reflexivity. Qed.

(* ---- in-block seeks (src/block.rs) on every well-formed block: strictly ascending framed entries
   and a restart table of entry offsets (ascending, first 0) — in particular every block finished by
   the block writer (C02_finished_blocks_wellformed).  Whatever the cursor's previous offset: ---- *)
From Grenad.proofs Require Import BlockProofs BlockCursorProofs.

(* move_on_key_lower_than_or_equal_to returns the entry with the largest key <= q (None iff none) *)
Theorem C02_block_floor : forall b es ridx o q, wfblock b es ridx ->
  bc_le (mk_bcur b o) q =
  Done (mk_bcur b (option_map (start es) (floor_pos es q)),
        match floor_pos es q with Some i => nth_error es i | None => None end).
Proof. intros b es ridx o q W. exact (bc_le_spec b es ridx W o q). Qed.
Print Assumptions C02_block_floor.

(* move_on_key_greater_than_or_equal_to returns the entry with the smallest key >= q (None iff none) *)
Theorem C02_block_ceiling : forall b es ridx o q, wfblock b es ridx ->
  bc_ge (mk_bcur b o) q = Done (mk_bcur b (Some (start es (ceil_pos es q))), nth_error es (ceil_pos es q)).
Proof. intros b es ridx o q W. exact (bc_ge_spec b es ridx W o q). Qed.
Print Assumptions C02_block_ceiling.

(* floor_pos / ceil_pos are the floor / ceiling of the specification *)
Theorem C02_positions_are_spec : forall es q,
  ceil_idx es q 0 = match nth_error es (ceil_pos es q) with Some e => Some (N.of_nat (ceil_pos es q), e) | None => None end /\
  floor_idx es q 0 None = match floor_pos es q with
                          | Some i => match nth_error es i with Some e => Some (N.of_nat i, e) | None => None end
                          | None => None end.
Proof.
  intros es q. split.
  - rewrite ceil_idx_pos. unfold ceil_pos. destruct (nth_error es (fs_ge q es 0)); reflexivity.
  - rewrite floor_idx_pos. unfold floor_pos. cbv zeta. destruct (Nat.eqb (fs_gt q es 0) 0); [reflexivity|].
    destruct (nth_error es (fs_gt q es 0 - 1)); reflexivity.
Qed.
Print Assumptions C02_positions_are_spec.

Theorem C02_finished_blocks_wellformed : forall w es, bw_ok w es -> 1 <= bw_interval w ->
  wfblock (mk_block (payload_of es) (rev (bw_offsets w))) es (0%nat :: ridx_gen (bw_interval w) 0 0 es).
Proof. exact finished_block_wf. Qed.
Print Assumptions C02_finished_blocks_wellformed.

(* ================= the whole cursor, any index depth: seeks from ANY state (fresh, reset, positioned,
   or after an operation that returned None) return the exact ceiling / floor / match of the content
   (wf_store, content, Rel: see C03.v) ================= *)
From Grenad.proofs Require Import ReaderRefine.

Theorem C02_seeks : forall ld root levels bstore, wf_store ld root levels bstore ->
  forall p st q, Rel root bstore levels p st ->
  let es := content root levels bstore in
  (exists st' r, cstep ld root levels st (OGe q) = Done (st', r) /\
     r = match ceil_idx es q 0 with Some (_, e) => Some e | None => None end) /\
  (exists st' r, cstep ld root levels st (OLe q) = Done (st', r) /\
     r = match floor_idx es q 0 None with Some (_, e) => Some e | None => None end) /\
  (exists st' r, cstep ld root levels st (OEq q) = Done (st', r) /\
     r = match find_idx es q with Some (_, e) => Some e | None => None end).
Proof.
  intros ld root levels bstore W p st q HR. cbv zeta.
  assert (A : forall o, relative_op o = false ->
            exists st' r, cstep ld root levels st o = Done (st', r) /\ res_ok (snd (aspec (content root levels bstore) p o)) r).
  { intros o Ho. destruct (R_step ld root levels bstore W p st o HR (fun _ => Ho)) as (st' & r & E & _ & Hr & _). eauto. }
  split; [|split].
  - destruct (A (OGe q) eq_refl) as (st' & r & E & Hr). exists st', r. split; [exact E|]. cbn [aspec] in Hr.
    destruct (ceil_idx _ q 0) as [[i e]|]; exact Hr.
  - destruct (A (OLe q) eq_refl) as (st' & r & E & Hr). exists st', r. split; [exact E|]. cbn [aspec] in Hr.
    destruct (floor_idx _ q 0 None) as [[i e]|]; exact Hr.
  - destruct (A (OEq q) eq_refl) as (st' & r & E & Hr). exists st', r. split; [exact E|]. cbn [aspec] in Hr.
    destruct (find_idx _ q) as [[i e]|]; exact Hr.
Qed.
Print Assumptions C02_seeks.

(* ================= on files produced by the writer =================
   W composed with R: on the file written from ANY non-empty strictly ascending es with ANY
   configuration, after ANY admissible history, move_on_key_greater_than_or_equal_to q returns the
   entry at ceil_idx es q, move_on_key_lower_than_or_equal_to q the entry at floor_idx es q,
   move_on_key_equal_to q the entry with key q or None (aspec over the inserted entries). *)
From Grenad.model Require Import Trailer Writer Reader Spec.
From Grenad.proofs Require Import ReaderRefine WriterStore.

Theorem C02_written_file_seeks : forall compress decompress c,
  (forall b z, compress (wc_codec c) (wc_level c) b = Done z -> decompress (wc_codec c) z = Done b) ->
  forall es i s lg m, wc_levels c < 256 -> 1 <= wc_interval c ->
  w_run_gen vsink vs_wr vs_fl vs_count compress c vs_empty es = (i, Done (s, lg, m)) ->
  es <> [] -> sorted_strictb (map fst es) = true ->
  len (vs_bytes s) < 2^64 -> mem_ok lg ->
  forall ops, adm_ops es Fresh ops ->
  exists st rs, run_ops (load_block decompress (vs_bytes s) (m_codec m)) (m_root m) (m_levels m) cs_fresh ops = Done (st, rs) /\
    Forall2 res_ok (snd (aspec_ops es Fresh ops)) rs /\
    cs_loads st <= N.of_nat (length ops) * (2 * (m_levels m + 2)).
Proof. exact written_file_history. Qed.
Print Assumptions C02_written_file_seeks.
