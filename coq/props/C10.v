(* C10 — Version-1 files remain readable with identical results.  Statements only. *)
From Grenad.gen Require Import Consts.
From Grenad.model Require Import Base Block Trailer Reader.
From Grenad.proofs Require Import TrailerProofs ReaderBasics.

(* the 21-byte V1 trailer of the property text, spelled out, opens as version 1 with the stored
   count and codec and a single-level index (index_levels = 0), whatever the body is *)
Theorem C10_v1_open : forall body root codec count,
  root < 2^64 -> count < 2^64 -> codec <= 5 ->
  open_meta (body ++ le_bytes 8 root ++ [codec] ++ le_bytes 8 count ++ le_bytes 4 1983008076 (* 0x76324D4C *))
  = Done (mk_meta FormatV1 root codec count 0).
Proof. exact open_v1_layout. Qed.
Print Assumptions C10_v1_open.

(* the same body under a V2 trailer with index_levels = 0 opens with the same root, codec, count *)
Theorem C10_v1_v2_same_fields : forall body root codec count,
  root < 2^64 -> count < 2^64 -> codec <= 5 ->
  open_meta (body ++ trailer_bytes (mk_meta FormatV1 root codec count 0)) = Done (mk_meta FormatV1 root codec count 0) /\
  open_meta (body ++ trailer_bytes (mk_meta FormatV2 root codec count 0)) = Done (mk_meta FormatV2 root codec count 0).
Proof. exact open_v1_v2. Qed.
Print Assumptions C10_v1_v2_same_fields.

(* a block load only looks at the frame it is pointed to: what follows the body (either trailer)
   is irrelevant for every frame that lies inside the body *)
Theorem C10_load_ignores_trailer : forall dec body t1 t2 codec ord off,
  frame_inside body off ->
  load_block dec (body ++ t1) codec ord off = load_block dec (body ++ t2) codec ord off.
Proof. exact load_ignores_suffix. Qed.
Print Assumptions C10_load_ignores_trailer.

(* the cursor consults the file only through the loader, the root offset and the level count:
   with loaders that agree, every operation from every state gives the same result *)
Theorem C10_cursor_depends_on_loader_only : forall ld1 ld2 root levels,
  (forall ord off, ld1 ord off = ld2 ord off) ->
  forall st o, cstep ld1 root levels st o = cstep ld2 root levels st o.
Proof. exact cstep_ext. Qed.
Print Assumptions C10_cursor_depends_on_loader_only.

Example C10_example :
  open_meta ([5; 5] ++ le_bytes 8 300 ++ [4] ++ le_bytes 8 77 ++ le_bytes 4 1983008076)
  = Done (mk_meta FormatV1 300 4 77 0).
Proof. vm_compute. reflexivity. Qed.

(* ================= identical results =================
   Any two well-formed stores with the same content — whatever their trailer version, block
   boundaries, index depth or codec — answer every admissible history of cursor operations with the
   same results, and every range and prefix query (forward and reverse) with the same entries: all
   are functions of the content alone. *)
From Grenad.model Require Import Spec Iter Writer.
From Grenad.proofs Require Import ReaderRefine WriterStore IterRefine V1Same.

Theorem C10_same_content_same_histories : forall ld1 ld2 root1 root2 levels1 levels2 bs1 bs2,
  wf_store ld1 root1 levels1 bs1 -> wf_store ld2 root2 levels2 bs2 ->
  forall es, content root1 levels1 bs1 = es -> content root2 levels2 bs2 = es ->
  forall ops, adm_ops es Fresh ops ->
  exists st1 st2 rs, run_ops ld1 root1 levels1 cs_fresh ops = Done (st1, rs) /\
                     run_ops ld2 root2 levels2 cs_fresh ops = Done (st2, rs) /\
                     Forall2 res_ok (snd (aspec_ops es Fresh ops)) rs.
Proof. exact same_histories. Qed.
Print Assumptions C10_same_content_same_histories.

Theorem C10_same_content_same_ranges : forall ld1 ld2 root1 root2 levels1 levels2 bs1 bs2,
  wf_store ld1 root1 levels1 bs1 -> wf_store ld2 root2 levels2 bs2 ->
  forall es, content root1 levels1 bs1 = es -> content root2 levels2 bs2 = es ->
  forall lo hi fuel, (S (length es) < fuel)%nat ->
  collect (range_next (cstep ld1 root1 levels1) lo hi) fuel iter_new = Done (range_spec es lo hi) /\
  collect (range_next (cstep ld2 root2 levels2) lo hi) fuel iter_new = Done (range_spec es lo hi) /\
  collect (rev_range_next (cstep ld1 root1 levels1) lo hi) fuel iter_new = Done (rev (range_spec es lo hi)) /\
  collect (rev_range_next (cstep ld2 root2 levels2) lo hi) fuel iter_new = Done (rev (range_spec es lo hi)).
Proof. exact same_ranges. Qed.
Print Assumptions C10_same_content_same_ranges.

Theorem C10_same_content_same_prefixes : forall ld1 ld2 root1 root2 levels1 levels2 bs1 bs2,
  wf_store ld1 root1 levels1 bs1 -> wf_store ld2 root2 levels2 bs2 ->
  forall es, content root1 levels1 bs1 = es -> content root2 levels2 bs2 = es ->
  forall p fuel, (S (length es) < fuel)%nat ->
  collect (prefix_next (cstep ld1 root1 levels1) p) fuel iter_new = Done (prefix_spec es p) /\
  collect (prefix_next (cstep ld2 root2 levels2) p) fuel iter_new = Done (prefix_spec es p) /\
  (Forall (fun e => wf_bytes (fst e)) es -> wf_bytes p ->
   collect (rev_prefix_next (cstep ld1 root1 levels1) p) fuel iter_new = Done (rev (prefix_spec es p)) /\
   collect (rev_prefix_next (cstep ld2 root2 levels2) p) fuel iter_new = Done (rev (prefix_spec es p))).
Proof. exact same_prefixes. Qed.
Print Assumptions C10_same_content_same_prefixes.

(* the version-1 twin of a single-level file of the writer model: the same body under the 21-byte
   version-1 trailer opens as version 1 with the stored count and codec, and both files are
   well-formed stores with the inserted entries as content — so the three theorems above apply *)
Theorem C10_v1_twin : forall compress decompress c,
  (forall b z, compress (wc_codec c) (wc_level c) b = Done z -> decompress (wc_codec c) z = Done b) ->
  forall es i s lg m, wc_levels c = 0 -> 1 <= wc_interval c -> wc_codec c <= 5 ->
  w_run_gen vsink vs_wr vs_fl vs_count compress c vs_empty es = (i, Done (s, lg, m)) ->
  es <> [] -> sorted_strictb (map fst es) = true ->
  len (vs_bytes s) < 2^64 -> mem_ok lg -> len es < 2^64 ->
  exists body bs2 bs1,
    vs_bytes s = body ++ trailer_bytes m /\
    let f1 := body ++ v1_trailer m in
    let m1 := mk_meta FormatV1 (m_root m) (m_codec m) (m_count m) 0 in
    open_meta f1 = Done m1 /\ open_meta (vs_bytes s) = Done m /\ m_count m = len es /\ m_codec m = wc_codec c /\
    wf_store (load_block decompress (vs_bytes s) (m_codec m)) (m_root m) (m_levels m) bs2 /\
    content (m_root m) (m_levels m) bs2 = es /\
    wf_store (load_block decompress f1 (m_codec m1)) (m_root m1) (m_levels m1) bs1 /\
    content (m_root m1) (m_levels m1) bs1 = es.
Proof. exact v1_twin. Qed.
Print Assumptions C10_v1_twin.
