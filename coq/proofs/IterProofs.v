(* Proofs about model/Iter.v: advance_key (the popping loop of prefix_iter.rs) and the
   prefix-interval fact the reverse prefix iterator relies on. *)
From Coq Require Import Lia ZArith ZifyN ZifyBool ZifyNat.
From Grenad.model Require Import Base Block Reader Spec Iter.
From Grenad.proofs Require Import BaseProofs.
Ltac Zify.zify_post_hook ::= Z.div_mod_to_equations.

Lemma ltb_cons x a y b :
  bytes_ltb (x :: a) (y :: b) = if x <? y then true else if y <? x then false else bytes_ltb a b.
Proof.
  unfold bytes_ltb. cbn [lex_compare].
  destruct (N.ltb_spec x y); destruct (N.ltb_spec y x); destruct (N.compare_spec x y) as [E|H1|H1]; try lia; reflexivity.
Qed.
Lemma ltb_nil_cons y b : bytes_ltb [] (y :: b) = true. Proof. reflexivity. Qed.
Lemma ltb_nil_r a : bytes_ltb a [] = false. Proof. destruct a; reflexivity. Qed.
Lemma starts_with_cons x k y p : starts_with (x :: k) (y :: p) = (x =? y) && starts_with k p.
Proof. reflexivity. Qed.

(* forward characterisation of advance_key *)
Fixpoint advance (p : bytes) : option bytes :=
  match p with
  | [] => None
  | x :: r => match advance r with
              | Some r' => Some (x :: r')
              | None => if x <? 255 then Some [x + 1] else None
              end
  end.

Lemma advance_rev_snoc r x : advance_rev (r ++ [x]) =
  match advance_rev r with Some r' => Some (r' ++ [x]) | None => if x <? 255 then Some [x + 1] else None end.
Proof.
  induction r as [|y r IH]; cbn [app advance_rev]; [reflexivity|].
  destruct (y <? 255); [reflexivity|]. exact IH.
Qed.

Lemma advance_key_eq p : advance_key p = advance p.
Proof.
  unfold advance_key. induction p as [|x r IH]; [reflexivity|].
  cbn [rev advance]. rewrite advance_rev_snoc.
  destruct (advance_rev (rev r)) as [r'|]; destruct (advance r) as [r2|]; try discriminate.
  - injection IH as <-. rewrite rev_app_distr. reflexivity.
  - destruct (x <? 255); reflexivity.
Qed.

Definition all255 (p : bytes) : Prop := Forall (fun b => b = 255) p.

Lemma advance_none p : wf_bytes p -> (advance p = None <-> all255 p).
Proof.
  induction p as [|x r IH]; intro H; [split; constructor|].
  inversion H as [|? ? Hx Hr]; subst. specialize (IH Hr). cbn [advance].
  destruct (advance r).
  - split; [discriminate|]. intro A. inversion A as [|? ? A1 A2]; subst. destruct IH as [_ IH]. specialize (IH A2). discriminate.
  - destruct (N.ltb_spec x 255).
    + split; [discriminate|]. intro A; inversion A; lia.
    + split; [|reflexivity]. intros _. constructor; [lia|]. apply IH. reflexivity.
Qed.

Lemma all255_le_prefix r : all255 r -> forall k, wf_bytes k -> bytes_leb r k = true -> starts_with k r = true.
Proof.
  induction 1 as [|x r Hx Hr IH]; intros k Hk Hl; [destruct k; reflexivity|]. subst x.
  destruct k as [|y k']; [rewrite bytes_leb_ltb in Hl; cbn in Hl; discriminate|].
  inversion Hk as [|? ? Hy Hk']; subst.
  rewrite bytes_leb_ltb, ltb_cons in Hl. rewrite starts_with_cons.
  destruct (N.ltb_spec y 255); [discriminate|]. destruct (N.ltb_spec 255 y); [lia|].
  assert (y = 255) by lia. subst. rewrite N.eqb_refl. cbn [andb]. apply IH; [assumption|].
  rewrite bytes_leb_ltb. exact Hl.
Qed.

(* every key with the prefix is below the successor, and every key in [prefix, successor) has the prefix *)
Theorem advance_spec p : wf_bytes p -> forall s, advance p = Some s ->
  forall k, wf_bytes k ->
    (starts_with k p = true -> bytes_ltb k s = true) /\
    (bytes_ltb k s = true -> bytes_leb p k = true -> starts_with k p = true).
Proof.
  induction p as [|x r IH]; intros Hp s Hs k Hk; [discriminate|].
  inversion Hp as [|? ? Hx0 Hr0]; subst. cbn [advance] in Hs. destruct (advance r) as [r'|] eqn:E.
  - injection Hs as <-. specialize (IH Hr0 r' eq_refl).
    destruct k as [|y k']; [split; [discriminate|intros _ H; rewrite bytes_leb_ltb in H; cbn in H; discriminate]|].
    inversion Hk as [|? ? Hy Hk']; subst. specialize (IH k' Hk'). destruct IH as [I1 I2].
    rewrite starts_with_cons, ltb_cons, bytes_leb_ltb, ltb_cons.
    destruct (N.eqb_spec y x) as [->|Hne].
    + rewrite N.ltb_irrefl. cbn [andb]. split; [exact I1|]. intros A B. apply I2; [exact A|]. rewrite bytes_leb_ltb. exact B.
    + cbn [andb]. split; [discriminate|]. destruct (N.ltb_spec y x), (N.ltb_spec x y); try lia; intros; discriminate.
  - destruct (N.ltb_spec x 255) as [Hx|Hx]; [|discriminate]. injection Hs as <-.
    assert (A255 : all255 r) by (apply advance_none; assumption).
    destruct k as [|y k']; [split; [discriminate|intros _ H; rewrite bytes_leb_ltb in H; cbn in H; discriminate]|].
    inversion Hk as [|? ? Hy Hk']; subst.
    rewrite starts_with_cons, ltb_cons, bytes_leb_ltb, ltb_cons.
    destruct (N.eqb_spec y x) as [->|Hne]; cbn [andb].
    + destruct (N.ltb_spec x (x + 1)); [|lia]. split; [reflexivity|]. rewrite N.ltb_irrefl.
      intros _ B. apply all255_le_prefix; [assumption | assumption | rewrite bytes_leb_ltb; exact B].
    + split; [discriminate|].
      destruct (N.ltb_spec y (x + 1)), (N.ltb_spec (x + 1) y), (N.ltb_spec y x), (N.ltb_spec x y); try lia; try discriminate.
      rewrite ltb_nil_r. intros; discriminate.
Qed.

Theorem advance_key_spec p : wf_bytes p ->
  (advance_key p = None <-> all255 p) /\
  (forall s, advance_key p = Some s -> forall k, wf_bytes k ->
     (starts_with k p = true -> bytes_ltb k s = true) /\
     (bytes_ltb k s = true -> bytes_leb p k = true -> starts_with k p = true)).
Proof.
  intro H. rewrite advance_key_eq. split; [apply advance_none; exact H|]. intros s Hs. apply advance_spec; assumption.
Qed.

(* the keys that have the prefix are exactly the keys of the half-open interval [p, advance p) *)
Lemma starts_with_ge k p : starts_with k p = true -> bytes_leb p k = true.
Proof.
  revert k; induction p as [|y p IH]; intros k H.
  - rewrite bytes_leb_ltb, ltb_nil_r. reflexivity.
  - destruct k as [|x k]; [discriminate|]. rewrite starts_with_cons in H. apply andb_prop in H. destruct H as [H1 H2].
    apply N.eqb_eq in H1. subst. rewrite bytes_leb_ltb, ltb_cons, N.ltb_irrefl. rewrite <- bytes_leb_ltb. apply IH. exact H2.
Qed.
