(* The merge functions the correspondence runs the sorter with (concatenation; join with a separator) are pure
   functions of (key, values) obeying the flattening law of C07_sorter, so the theorem applies to exactly the
   runs that are compared with the implementation: every such run of the sorter model that finishes returns
   the specification's output. *)
From Coq Require Import Lia.
From Grenad.model Require Import Base Merger Sorter.
From Grenad.proofs Require Import SortedFacts MergeRefine SorterRefine.

Lemma concat_concat_map (vss : list (list bytes)) : concat (map (@concat N) vss) = concat (concat vss).
Proof. induction vss as [|vs vss IH]; [reflexivity|]. cbn [map concat]. rewrite IH, concat_app. reflexivity. Qed.

Lemma join_sep_cons v r : r <> [] -> join_sep (v :: r) = v ++ 124 :: join_sep r.
Proof. destruct r as [|w r]; [intro H; contradiction|reflexivity]. Qed.

Lemma join_sep_app a b : a <> [] -> b <> [] -> join_sep (a ++ b) = join_sep a ++ 124 :: join_sep b.
Proof.
  intros Ha Hb. induction a as [|v a IH]; [contradiction|]. destruct a as [|w a].
  - cbn [app]. rewrite join_sep_cons by exact Hb. reflexivity.
  - change ((v :: w :: a) ++ b) with (v :: ((w :: a) ++ b)). rewrite join_sep_cons by (cbn [app]; discriminate).
    rewrite IH by discriminate. rewrite (join_sep_cons v (w :: a)) by discriminate. rewrite <- app_assoc. reflexivity.
Qed.

Lemma join_flat : forall vss : list (list bytes), vss <> [] -> Forall (fun vs => vs <> []) vss ->
  join_sep (map join_sep vss) = join_sep (concat vss).
Proof.
  induction vss as [|vs vss IH]; intros Hne Hall; [contradiction|]. inversion Hall as [|? ? Hvs Hr]; subst.
  destruct vss as [|ws vss].
  - cbn [map concat join_sep]. rewrite app_nil_r. reflexivity.
  - change (map join_sep (vs :: ws :: vss)) with (join_sep vs :: map join_sep (ws :: vss)).
    rewrite join_sep_cons by (cbn [map]; discriminate). rewrite IH by (try discriminate; exact Hr).
    change (concat (vs :: ws :: vss)) with (vs ++ concat (ws :: vss)). rewrite join_sep_app; [reflexivity|exact Hvs|].
    inversion Hr as [|? ? Hws _]; subst. cbn [concat]. destruct ws; [contradiction|discriminate].
Qed.

Theorem concat_runs_meet_the_specification c ins out :
  sorter_run c mf_concat ins = Done out -> sorter_spec mf_concat ins = Done out.
Proof.
  apply (sorter_run_spec (fun _ vs => concat vs) mf_concat); [reflexivity|].
  intros k vss _ _. apply concat_concat_map.
Qed.

Theorem join_runs_meet_the_specification c ins out :
  sorter_run c mf_join ins = Done out -> sorter_spec mf_join ins = Done out.
Proof.
  apply (sorter_run_spec (fun _ vs => join_sep vs) mf_join); [reflexivity|].
  intros k vss Hne Hall. apply join_flat; assumption.
Qed.
