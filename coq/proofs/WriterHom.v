(* The writer is parametric in its sink: if two sinks are related by a relation that write_all,
   flush and count respect, whole writer runs over them are related.  Used for C11 (a scheduled
   sink delivers what the plain sink receives) and C12 (a sink without fault behaves as the
   plain one). *)
From Coq Require Import Lia.
From Grenad.model Require Import Base Varint Block Trailer Writer.

Arguments w_data {SK} _. Arguments w_idx {SK} _. Arguments w_count {SK} _.
Arguments w_sink {SK} _. Arguments w_log {SK} _. Arguments mk_wstate {SK} _ _ _ _ _.

(* related outcomes; the left run may in addition fail early with an error allowed by [E]
   (used for fault injection: the faulty sink may fail where the plain one goes on) *)
Inductive orel {A B} (E : err -> Prop) (R : A -> B -> Prop) : outcome A -> outcome B -> Prop :=
| orel_done a b : R a b -> orel E R (Done a) (Done b)
| orel_panic : orel E R Panic Panic
| orel_fail e : orel E R (Fail e) (Fail e)
| orel_early e y : E e -> orel E R (Fail e) y.

Lemma orel_bind {A B A' B'} E (R : A -> B -> Prop) (S : A' -> B' -> Prop) x y f g :
  orel E R x y -> (forall a b, R a b -> orel E S (f a) (g b)) -> orel E S (bind x f) (bind y g).
Proof. intros H K. destruct H; cbn [bind]; [apply K; assumption | constructor | constructor | apply orel_early; assumption]. Qed.

Lemma orel_refl {A} E (x : outcome A) : orel E eq x x.
Proof. destruct x; constructor; reflexivity. Qed.

Section Hom.
  Variables SK1 SK2 : Type.
  Variable wr1 : SK1 -> bytes -> outcome SK1.
  Variable fl1 : SK1 -> outcome SK1.
  Variable cnt1 : SK1 -> N.
  Variable wr2 : SK2 -> bytes -> outcome SK2.
  Variable fl2 : SK2 -> outcome SK2.
  Variable cnt2 : SK2 -> N.
  Variable compress : N -> N -> bytes -> outcome bytes.
  Variable Rs : SK1 -> SK2 -> Prop.
  Variable Rs' : SK1 -> SK2 -> Prop.   (* what holds after the final flush *)
  Variable E : err -> Prop.
  Notation orel := (orel E).
  Hypothesis Hcnt : forall s1 s2, Rs s1 s2 -> cnt1 s1 = cnt2 s2.
  Hypothesis Hwr : forall s1 s2 b, Rs s1 s2 -> orel Rs (wr1 s1 b) (wr2 s2 b).
  Hypothesis Hfl : forall s1 s2, Rs s1 s2 -> orel Rs' (fl1 s1) (fl2 s2).

  Definition R3 {X Y} (p : SK1 * X * Y) (q : SK2 * X * Y) : Prop :=
    Rs (fst (fst p)) (fst (fst q)) /\ snd (fst p) = snd (fst q) /\ snd p = snd q.

  Lemma cwb_rel c s1 s2 w lvl : Rs s1 s2 ->
    orel R3 (cwb SK1 wr1 cnt1 compress c s1 w lvl) (cwb SK2 wr2 cnt2 compress c s2 w lvl).
  Proof.
    intro H. unfold cwb.
    apply orel_bind with (R := eq); [apply orel_refl|]. intros buffer ? <-.
    apply orel_bind with (R := eq); [apply orel_refl|]. intros comp ? <-.
    apply orel_bind with (R := Rs); [apply Hwr; exact H|]. intros a b Hab.
    apply orel_bind with (R := Rs); [apply Hwr; exact Hab|]. intros a' b' Hab'.
    constructor. unfold R3; cbn [fst snd]. rewrite (Hcnt _ _ H). auto.
  Qed.

  Lemma cascade_rel c : forall up s1 s2 lg cur lvl, Rs s1 s2 ->
    orel R3 (cascade_from SK1 wr1 cnt1 compress c s1 lg cur lvl up)
            (cascade_from SK2 wr2 cnt2 compress c s2 lg cur lvl up).
  Proof.
    induction up as [|parent up IH]; intros s1 s2 lg cur lvl H; cbn [cascade_from].
    - constructor. unfold R3; cbn [fst snd]. auto.
    - destruct (wc_block_size c <=? bw_size cur).
      + destruct (bw_last cur) as [lk|].
        * rewrite (Hcnt _ _ H).
          apply orel_bind with (R := eq); [apply orel_refl|]. intros parent' ? <-.
          apply orel_bind with (R := R3); [apply cwb_rel; exact H|].
          intros [[a1 a2] a3] [[b1 b2] b3] (K1 & K2 & K3); cbn [fst snd] in *. subst.
          apply orel_bind with (R := R3); [apply IH; exact K1|].
          intros [[c1 c2] c3] [[d1 d2] d3] (L1 & L2 & L3); cbn [fst snd] in *. subst.
          constructor. unfold R3; cbn [fst snd]. auto.
        * apply orel_bind with (R := R3); [apply IH; exact H|].
          intros [[c1 c2] c3] [[d1 d2] d3] (L1 & L2 & L3); cbn [fst snd] in *. subst.
          constructor. unfold R3; cbn [fst snd]. auto.
      + apply orel_bind with (R := R3); [apply IH; exact H|].
        intros [[c1 c2] c3] [[d1 d2] d3] (L1 & L2 & L3); cbn [fst snd] in *. subst.
        constructor. unfold R3; cbn [fst snd]. auto.
  Qed.

  Definition Rst (a : wstate SK1) (b : wstate SK2) : Prop :=
    w_data a = w_data b /\ w_idx a = w_idx b /\ w_count a = w_count b /\
    Rs (w_sink a) (w_sink b) /\ w_log a = w_log b.

  Lemma w_insert_rel c a b k v : Rst a b ->
    orel Rst (w_insert SK1 wr1 cnt1 compress c a k v) (w_insert SK2 wr2 cnt2 compress c b k v).
  Proof.
    intros (H1 & H2 & H3 & H4 & H5). unfold w_insert. rewrite <- H1, <- H2, <- H3, <- H5.
    apply orel_bind with (R := eq); [apply orel_refl|]. intros d ? <-.
    destruct (wc_block_size c <=? bw_size d); [|constructor; unfold Rst; cbn; auto].
    destruct (bw_last d) as [last_key|]; [|constructor; unfold Rst; cbn; auto].
    destruct (rev (w_idx a)) as [|deepest above]; [constructor; unfold Rst; cbn; auto|].
    rewrite (Hcnt _ _ H4).
    apply orel_bind with (R := eq); [apply orel_refl|]. intros deepest' ? <-.
    apply orel_bind with (R := R3); [apply cwb_rel; exact H4|].
    intros [[a1 a2] a3] [[b1 b2] b3] (K1 & K2 & K3); cbn [fst snd] in *. subst.
    destruct (rev (deepest' :: above)) as [|root sl]; [constructor|].
    destruct (rev sl) as [|cur up]; [constructor; unfold Rst; cbn; auto|].
    apply orel_bind with (R := R3); [apply cascade_rel; exact K1|].
    intros [[c1 c2] c3] [[d1 d2] d3] (L1 & L2 & L3); cbn [fst snd] in *. subst.
    constructor. unfold Rst; cbn. auto.
  Qed.

  Definition R3n (p : SK1 * list emitted * N) (q : SK2 * list emitted * N) : Prop :=
    Rs (fst (fst p)) (fst (fst q)) /\ snd (fst p) = snd (fst q) /\ snd p = snd q.

  Lemma flush_rel c : forall up s1 s2 lg cur lvl, Rs s1 s2 ->
    orel (@R3 (list emitted) N) (flush_from SK1 wr1 cnt1 compress c s1 lg cur lvl up)
                               (flush_from SK2 wr2 cnt2 compress c s2 lg cur lvl up).
  Proof.
    induction up as [|parent up IH]; intros s1 s2 lg cur lvl H; cbn [flush_from]; rewrite (Hcnt _ _ H).
    - destruct (bw_last cur) as [lk|].
      + apply orel_bind with (R := R3); [apply cwb_rel; exact H|].
        intros [[a1 a2] a3] [[b1 b2] b3] (K1 & K2 & K3); cbn [fst snd] in *. subst.
        constructor. unfold R3; cbn [fst snd]. auto.
      + apply orel_bind with (R := R3); [apply cwb_rel; exact H|].
        intros [[a1 a2] a3] [[b1 b2] b3] (K1 & K2 & K3); cbn [fst snd] in *. subst.
        constructor. unfold R3; cbn [fst snd]. auto.
    - destruct (bw_last cur) as [lk|].
      + apply orel_bind with (R := eq); [apply orel_refl|]. intros parent' ? <-.
        apply orel_bind with (R := R3); [apply cwb_rel; exact H|].
        intros [[a1 a2] a3] [[b1 b2] b3] (K1 & K2 & K3); cbn [fst snd] in *. subst.
        apply IH. exact K1.
      + apply IH. exact H.
  Qed.

  Definition Rfin (p : SK1 * list emitted * meta) (q : SK2 * list emitted * meta) : Prop :=
    Rs' (fst (fst p)) (fst (fst q)) /\ snd (fst p) = snd (fst q) /\ snd p = snd q.

  Lemma w_finish_rel c a b : Rst a b ->
    orel Rfin (w_finish SK1 wr1 fl1 cnt1 compress c a) (w_finish SK2 wr2 fl2 cnt2 compress c b).
  Proof.
    intros (H1 & H2 & H3 & H4 & H5). unfold w_finish. rewrite <- H1, <- H2, <- H3, <- H5.
    apply orel_bind with (R := @R3 (list emitted) (list bw)).
    { destruct (bw_last (w_data a)) as [last_key|]; [|constructor; unfold R3; cbn [fst snd]; auto].
      destruct (rev (w_idx a)) as [|deepest above]; [constructor; unfold R3; cbn [fst snd]; auto|].
      rewrite (Hcnt _ _ H4).
      apply orel_bind with (R := eq); [apply orel_refl|]. intros deepest' ? <-.
      apply orel_bind with (R := R3); [apply cwb_rel; exact H4|].
      intros [[a1 a2] a3] [[b1 b2] b3] (K1 & K2 & K3); cbn [fst snd] in *. subst.
      constructor. unfold R3; cbn [fst snd]. auto. }
    intros [[s1 lg1] idx1] [[s2 lg2] idx2] (K1 & K2 & K3); cbn [fst snd] in *. subst.
    apply orel_bind with (R := @R3 (list emitted) N).
    { destruct (rev idx2) as [|cur up]; [constructor; unfold R3; cbn [fst snd]; rewrite (Hcnt _ _ K1); auto|].
      apply flush_rel. exact K1. }
    intros [[t1 lh1] ro1] [[t2 lh2] ro2] (L1 & L2 & L3); cbn [fst snd] in *. subst.
    apply orel_bind with (R := Rs); [apply Hwr; exact L1|]. intros u1 u2 U1.
    apply orel_bind with (R := Rs); [apply Hwr; exact U1|]. intros u3 u4 U2.
    apply orel_bind with (R := Rs); [apply Hwr; exact U2|]. intros u5 u6 U3.
    apply orel_bind with (R := Rs); [apply Hwr; exact U3|]. intros u7 u8 U4.
    apply orel_bind with (R := Rs); [apply Hwr; exact U4|]. intros u9 u10 U5.
    apply orel_bind with (R := Rs'); [apply Hfl; exact U5|]. intros u11 u12 U6.
    constructor. unfold Rfin; cbn [fst snd]. auto.
  Qed.

  Definition Rat (p : N * outcome (wstate SK1)) (q : N * outcome (wstate SK2)) : Prop :=
    (exists e, snd p = Fail e /\ E e) \/ (fst p = fst q /\ orel Rst (snd p) (snd q)).

  Lemma w_inserts_at_rel c : forall es a b i, Rst a b ->
    Rat (w_inserts_at SK1 wr1 cnt1 compress c a es i) (w_inserts_at SK2 wr2 cnt2 compress c b es i).
  Proof.
    induction es as [|[k v] es IH]; intros a b i H; cbn [w_inserts_at].
    - right. split; [reflexivity|constructor; exact H].
    - pose proof (w_insert_rel c a b k v H) as K. destruct K as [a' b' K| |e|e y He].
      + apply IH. exact K.
      + right. split; [reflexivity|constructor].
      + right. split; [reflexivity|constructor].
      + left. exists e. split; [reflexivity|exact He].
  Qed.

  (* whole runs: unless the left run failed early with an allowed error, both runs end at the same
     public call with related outcomes *)
  Theorem w_run_gen_rel c s1 s2 es : Rs s1 s2 ->
    (exists e, snd (w_run_gen SK1 wr1 fl1 cnt1 compress c s1 es) = Fail e /\ E e) \/
    (fst (w_run_gen SK1 wr1 fl1 cnt1 compress c s1 es) = fst (w_run_gen SK2 wr2 fl2 cnt2 compress c s2 es) /\
     orel Rfin (snd (w_run_gen SK1 wr1 fl1 cnt1 compress c s1 es)) (snd (w_run_gen SK2 wr2 fl2 cnt2 compress c s2 es))).
  Proof.
    intro H. unfold w_run_gen.
    assert (H0 : Rst (w_new SK1 c s1) (w_new SK2 c s2)) by (unfold Rst, w_new; cbn; auto).
    pose proof (w_inserts_at_rel c es _ _ 0 H0) as K.
    destruct (w_inserts_at SK1 wr1 cnt1 compress c (w_new SK1 c s1) es 0) as [i1 o1].
    destruct (w_inserts_at SK2 wr2 cnt2 compress c (w_new SK2 c s2) es 0) as [i2 o2].
    destruct K as [(e & K1 & K2)|[K1 K2]]; cbn [fst snd] in *.
    - subst o1. left. exists e. split; [reflexivity|exact K2].
    - subst i2. destruct K2 as [a b K| |e|e y He]; cbn [fst snd].
      + pose proof (w_finish_rel c a b K) as F.
        destruct F as [x y F| |e|e y He].
        * right. split; [reflexivity|constructor; exact F].
        * right. split; [reflexivity|constructor].
        * right. split; [reflexivity|constructor].
        * left. exists e. split; [reflexivity|exact He].
      + right. split; [reflexivity|constructor].
      + right. split; [reflexivity|constructor].
      + left. exists e. split; [reflexivity|exact He].
  Qed.
End Hom.
