(* C12, the chunk creator of the sorter: with a ChunkCreator that fails its call number j (calls are the
   EvCreate events of the log; write_chunk and merge_chunks each begin with one), every public call of the
   sorter that does not reach call j is unchanged and the call during which call j happens returns exactly
   the creator's error; with a creator that never fails the fallible sorter is the plain one. *)
From Coq Require Import Lia ZArith ZifyN ZifyBool ZifyNat.
From Grenad.model Require Import Base Merger Sorter.
From Grenad.proofs Require Import BaseProofs.
Ltac Zify.zify_post_hook ::= Z.div_mod_to_equations.

(* ---- a creator that never fails: the plain sorter ---- *)
Lemma fs_insert_never c mf st k v : fs_insert c cr_never mf st k v = s_insert c mf st k v.
Proof. reflexivity. Qed.
Lemma fs_finish_never mf st : fs_finish cr_never mf st = s_finish mf st.
Proof. reflexivity. Qed.

Lemma fs_inserts_at_never c mf : forall ins st i,
  snd (fs_inserts_at c cr_never mf st ins i) = s_inserts c mf st ins.
Proof.
  induction ins as [|[k v] ins IH]; intros st i; cbn [fs_inserts_at s_inserts]; [reflexivity|].
  rewrite fs_insert_never. destruct (s_insert c mf st k v) as [st1| |]; cbn [bind snd]; [apply IH|reflexivity|reflexivity].
Qed.

Theorem fs_run_never c mf ins : snd (fs_run c cr_never mf ins) = sorter_run c mf ins.
Proof.
  unfold fs_run, sorter_run. rewrite <- (fs_inserts_at_never c mf ins (s_new c) 0).
  destruct (fs_inserts_at c cr_never mf (s_new c) ins 0) as [i [st| |]]; cbn [snd bind]; reflexivity.
Qed.

Section CreateFault.
  Variable mf : mergefn.
  Variable j : N.
  Variable e : err.
  Notation cr := (cr_fail_at j e).
  Notation ERR := (Fail e).
  Notation cre := (fun st : sstate => creates (ss_events st)).

  Definition agrees {A} (cnt : A -> N) (n : N) (good bad : outcome A) : Prop :=
    match good with
    | Done a => n <= cnt a /\ (j < n \/ cnt a <= j -> bad = Done a) /\ (n <= j < cnt a -> bad = ERR)
    | _ => True
    end.

  Lemma agrees_same {A} (cnt : A -> N) n (o : outcome A) : (forall a, o = Done a -> cnt a = n) -> agrees cnt n o o.
  Proof. intro H. unfold agrees. destruct o as [a| |]; auto. specialize (H a eq_refl). split; [lia|]. split; [auto|lia]. Qed.

  Lemma agrees_bind {A B} (cA : A -> N) (cB : B -> N) n g b (k1 k2 : A -> outcome B) :
    agrees cA n g b -> (forall a, g = Done a -> agrees cB (cA a) (k1 a) (k2 a)) ->
    agrees cB n (bind g k1) (bind b k2).
  Proof.
    unfold agrees. intros Hg Hk. destruct g as [a| |]; cbn [bind]; auto.
    destruct Hg as (G1 & G2 & G3). specialize (Hk a eq_refl). destruct (k1 a) as [r| |]; auto.
    destruct Hk as (K1 & K2 & K3). split; [lia|]. split.
    - intro H. rewrite G2 by lia. cbn [bind]. apply K2. lia.
    - intro H. destruct (N.lt_ge_cases j (cA a)) as [Hlt|Hge].
      + rewrite G3 by lia. reflexivity.
      + rewrite G2 by lia. cbn [bind]. apply K3. lia.
  Qed.

  Lemma agrees_pure_bind {A B} (cB : B -> N) n (p : outcome A) (k1 k2 : A -> outcome B) :
    (forall a, p = Done a -> agrees cB n (k1 a) (k2 a)) -> agrees cB n (bind p k1) (bind p k2).
  Proof. intro H. destruct p as [a| |]; cbn [bind]; [apply H; reflexivity|exact I|exact I]. Qed.

  (* one creator call, numbered n, in front of a computation that logs exactly that call *)
  Lemma agrees_create (st : sstate) (k : outcome sstate) :
    (forall a, k = Done a -> cre a = cre st + 1) ->
    agrees cre (cre st) k (match cr (cre st) with Some e' => Fail e' | None => k end).
  Proof.
    intro H. unfold agrees, cr_fail_at. destruct k as [a| |] eqn:E; auto. specialize (H a eq_refl).
    split; [lia|]. destruct (N.eqb_spec (creates (ss_events st)) j) as [Ej|Hne].
    - split; [intro Hx; lia|reflexivity].
    - split; [reflexivity|intro Hx; lia].
  Qed.

  Lemma write_chunk_agrees st : agrees cre (cre st) (s_write_chunk mf st) (fs_write_chunk cr mf st).
  Proof.
    unfold fs_write_chunk. apply agrees_create. intros a H. unfold s_write_chunk in H.
    destruct (merge_groups mf (ss_calls st) _) as [r| |]; cbn [bind] in H; try discriminate.
    injection H as <-. cbn [ss_events creates]. reflexivity.
  Qed.

  Lemma merge_chunks_agrees st : agrees cre (cre st) (s_merge_chunks mf st) (fs_merge_chunks cr mf st).
  Proof.
    unfold fs_merge_chunks. apply agrees_create. intros a H. unfold s_merge_chunks in H.
    destruct (merge_run mf (ss_calls st) _) as [r| |]; cbn [bind] in H; try discriminate.
    injection H as <-. cbn [ss_events creates]. reflexivity.
  Qed.

  Theorem fs_insert_agrees c st k v : agrees cre (cre st) (s_insert c mf st k v) (fs_insert c cr mf st k v).
  Proof.
    unfold s_insert, fs_insert. generalize 80%nat. intro fuel.
    destruct ((U32_MAX <? len k) || (U32_MAX <? len v)); [exact I|].
    apply agrees_pure_bind. intros fits _.
    destruct (fits || (negb (sc_threshold c <=? eb_L (ss_buf st)) && sc_realloc c)).
    - apply agrees_pure_bind. intros b _. apply agrees_same. intros a H. injection H as <-. reflexivity.
    - apply (agrees_bind cre _ (cre st)); [apply write_chunk_agrees|].
      intros st1 _. apply agrees_pure_bind. intros b _. cbv zeta.
      destruct (sc_max_chunks c <=? len (ss_chunks (mk_sstate [(k, v)] b (ss_chunks st1) (ss_calls st1) (ss_events st1)))).
      + apply (merge_chunks_agrees (mk_sstate [(k, v)] b (ss_chunks st1) (ss_calls st1) (ss_events st1))).
      + apply agrees_same. intros a H. injection H as <-. reflexivity.
  Qed.

  Theorem fs_finish_agrees st :
    match s_finish mf st with
    | Done r => (cre st = j -> fs_finish cr mf st = ERR) /\ (cre st <> j -> fs_finish cr mf st = Done r)
    | _ => True
    end.
  Proof.
    unfold s_finish, fs_finish, fs_write_chunk, cr_fail_at.
    destruct (N.eqb_spec (creates (ss_events st)) j) as [Ej|Hne].
    - destruct (s_write_chunk mf st) as [st1| |]; cbn [bind]; auto.
      destruct (merge_run mf (ss_calls st1) (ss_chunks st1)) as [r| |]; cbn [bind]; auto.
      split; [reflexivity|intro Hx; contradiction].
    - destruct (s_write_chunk mf st) as [st1| |]; cbn [bind]; auto.
      destruct (merge_run mf (ss_calls st1) (ss_chunks st1)) as [r| |]; cbn [bind]; auto.
      split; [intro Hx; contradiction|reflexivity].
  Qed.
End CreateFault.

(* ---- packaged ---- *)
(* one insert: it makes the creator calls numbered [creates before, creates after) *)
Theorem sorter_create_fault mf j e c st k v st' : s_insert c mf st k v = Done st' ->
  creates (ss_events st) <= creates (ss_events st') /\
  (j < creates (ss_events st) \/ creates (ss_events st') <= j ->
     fs_insert c (cr_fail_at j e) mf st k v = Done st') /\
  (creates (ss_events st) <= j < creates (ss_events st') ->
     fs_insert c (cr_fail_at j e) mf st k v = Fail e).
Proof. intro H. pose proof (fs_insert_agrees mf j e c st k v) as A. unfold agrees in A. rewrite H in A. exact A. Qed.

(* a whole run: if the plain sorter accepts the inserts [pre] without reaching create call j and the next
   insert reaches it, the run over the failing creator ends at exactly that insert with the creator's error;
   if no insert reaches it but the final flush does, the final call returns it; otherwise nothing changes *)
Lemma fs_inserts_at_quiet mf j e c : forall ins st st' i,
  s_inserts c mf st ins = Done st' -> j < creates (ss_events st) \/ creates (ss_events st') <= j ->
  fs_inserts_at c (cr_fail_at j e) mf st ins i = (i + len ins, Done st').
Proof.
  induction ins as [|[k v] ins IH]; intros st st' i H Hj; cbn [s_inserts fs_inserts_at] in *.
  - injection H as <-. change (len (@nil entry)) with 0. rewrite N.add_0_r. reflexivity.
  - destruct (s_insert c mf st k v) as [st1| |] eqn:E; cbn [bind] in H; try discriminate.
    destruct (sorter_create_fault mf j e c st k v st1 E) as (M1 & Q1 & _).
    assert (Mono : creates (ss_events st1) <= creates (ss_events st')).
    { clear - H. revert st1 H. induction ins as [|[k' v'] ins IH]; intros st1 H; cbn [s_inserts] in H.
      - injection H as <-. lia.
      - destruct (s_insert c mf st1 k' v') as [st2| |] eqn:E2; cbn [bind] in H; try discriminate.
        pose proof (proj1 (sorter_create_fault mf 0 EMerge c st1 k' v' st2 E2)). specialize (IH st2 H). lia. }
    rewrite Q1 by lia. rewrite (IH st1 st' (N.succ i) H ltac:(lia)). rewrite len_cons. f_equal. lia.
Qed.

Theorem sorter_run_create_fault mf j e c pre k v post st st' :
  s_inserts c mf (s_new c) pre = Done st -> s_insert c mf st k v = Done st' ->
  creates (ss_events st) <= j < creates (ss_events st') ->
  fs_run c (cr_fail_at j e) mf (pre ++ (k, v) :: post) = (len pre, Fail e).
Proof.
  intros Hpre Hins Hj. unfold fs_run.
  assert (G : forall (l : list entry) s0 i s1, s_inserts c mf s0 l = Done s1 -> creates (ss_events s1) <= j ->
              forall rest, fs_inserts_at c (cr_fail_at j e) mf s0 (l ++ rest) i =
                           fs_inserts_at c (cr_fail_at j e) mf s1 rest (i + len l)).
  { induction l as [|[k' v'] l IH]; intros s0 i s1 H Hc rest; cbn [app s_inserts fs_inserts_at] in *.
    - injection H as <-. change (len (@nil entry)) with 0. rewrite N.add_0_r. reflexivity.
    - destruct (s_insert c mf s0 k' v') as [s2| |] eqn:E; cbn [bind] in H; try discriminate.
      destruct (sorter_create_fault mf j e c s0 k' v' s2 E) as (M1 & Q1 & _).
      assert (Mono : creates (ss_events s2) <= creates (ss_events s1)).
      { clear - H. revert s2 H. induction l as [|[k2 v2] l IH]; intros s2 H; cbn [s_inserts] in H.
        - injection H as <-. lia.
        - destruct (s_insert c mf s2 k2 v2) as [s3| |] eqn:E2; cbn [bind] in H; try discriminate.
          pose proof (proj1 (sorter_create_fault mf 0 EMerge c s2 k2 v2 s3 E2)). specialize (IH s3 H). lia. }
      rewrite Q1 by lia. rewrite (IH s2 (N.succ i) s1 H Hc rest). rewrite len_cons. f_equal. lia. }
  rewrite (G pre (s_new c) 0 st Hpre ltac:(lia)). cbn [fs_inserts_at].
  rewrite (proj2 (proj2 (sorter_create_fault mf j e c st k v st' Hins)) Hj). rewrite N.add_0_l. reflexivity.
Qed.

Theorem sorter_finish_create_fault mf j e c ins st out :
  s_inserts c mf (s_new c) ins = Done st -> s_finish mf st = Done out ->
  (creates (ss_events st) = j -> fs_run c (cr_fail_at j e) mf ins = (len ins, Fail e)) /\
  (creates (ss_events st) < j -> fs_run c (cr_fail_at j e) mf ins = (len ins, Done (fst out))).
Proof.
  intros Hins Hfin. pose proof (fs_finish_agrees mf j e st) as A. rewrite Hfin in A. destruct A as [A1 A2].
  unfold fs_run. split; intro Hj.
  - rewrite (fs_inserts_at_quiet mf j e c ins (s_new c) st 0 Hins ltac:(lia)). rewrite N.add_0_l, (A1 Hj). reflexivity.
  - rewrite (fs_inserts_at_quiet mf j e c ins (s_new c) st 0 Hins ltac:(lia)). rewrite N.add_0_l, (A2 ltac:(lia)). reflexivity.
Qed.

(* ---- the resumable insert agrees with fs_insert: same result, and on success the same state ---- *)
Theorem fs_insert_r_agrees c cr mf st k v :
  match fs_insert c cr mf st k v with
  | Done st' => fs_insert_r c cr mf st k v = (st', Done tt)
  | Panic => snd (fs_insert_r c cr mf st k v) = Panic
  | Fail e => snd (fs_insert_r c cr mf st k v) = Fail e
  end.
Proof.
  unfold fs_insert, fs_insert_r, fs_write_chunk, fs_merge_chunks. generalize 80%nat. intro fuel.
  destruct ((U32_MAX <? len k) || (U32_MAX <? len v)); [reflexivity|].
  destruct (eb_fits (ss_buf st) (entry_sz k v)) as [f| |]; cbn [bind]; try reflexivity.
  destruct (f || (negb (sc_threshold c <=? eb_L (ss_buf st)) && sc_realloc c)).
  - destruct (eb_insert fuel (ss_buf st) (entry_sz k v)) as [b| |]; cbn [bind]; reflexivity.
  - destruct (cr (creates (ss_events st))) as [e|]; cbn [bind]; [reflexivity|].
    destruct (s_write_chunk mf st) as [st1| |]; cbn [bind]; try reflexivity.
    destruct (eb_insert fuel (ss_buf st1) (entry_sz k v)) as [b| |]; cbn [bind]; try reflexivity.
    cbv zeta. destruct (sc_max_chunks c <=? len (ss_chunks (mk_sstate [(k, v)] b (ss_chunks st1) (ss_calls st1) (ss_events st1)))); [|reflexivity].
    destruct (cr (creates (ss_events (mk_sstate [(k, v)] b (ss_chunks st1) (ss_calls st1) (ss_events st1))))) as [e|]; [reflexivity|].
    destruct (s_merge_chunks mf _) as [st3| |]; reflexivity.
Qed.
