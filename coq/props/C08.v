(* C08 — Sorter spills: unspilled data and live chunks stay within configured bounds.
   Statements only.  n_insert is the numeric projection of Sorter::insert (sizes, chunk counts,
   ChunkCreator calls, peak number of chunks alive); T = dump_threshold, M = max_nb_chunks. *)
From Grenad.gen Require Import Consts.
From Grenad.model Require Import Base Merger Sorter.
From Coq Require Import Lia.
From Grenad.proofs Require Import SorterBoundsProofs.

Theorem C08_constants :
  INITIAL_SORTER_VEC_SIZE = 131072 /\ MIN_SORTER_MEMORY = 10485760 /\ DEFAULT_SORTER_MEMORY = 1073741824 /\
  ENTRY_BOUND_SIZE = 16 /\ MIN_NB_CHUNKS = 1 /\ DEFAULT_NB_CHUNKS = 25.
Proof. repeat split; reflexivity. Qed.
Print Assumptions C08_constants.

(* hyps c: 64 <= T < 2^64, 1 <= initial capacity <= T, capacity = T when reallocation is disabled,
   M >= 1.  For any number of inserts of entries of size <= T/4, every insert succeeds (the
   doubling loop terminates, no underflow) and the invariant Inv is re-established *)
Theorem C08_bounds : forall c szs, hyps c -> Forall (fun sz => sz <= sc_threshold c / 4) szs ->
  forall s, Inv c s -> exists s', n_inserts c s szs = Done s' /\ Inv c s'.
Proof. exact n_inserts_inv. Qed.
Print Assumptions C08_bounds.

Theorem C08_initial : forall c, hyps c -> Inv c (n_new c).
Proof. exact inv_init. Qed.
Print Assumptions C08_initial.

(* what the invariant gives at every point: the volume inserted since the last spill is at most
   2T (T without reallocation), at most M + 2 chunks ever exist at the same time, every chunk
   comes from a ChunkCreator call, and the buffer regions do not overlap *)
Theorem C08_volume : forall c s, hyps c -> Inv c s ->
  eb_U (ns_buf s) <= (if sc_realloc c then 2 * sc_threshold c else sc_threshold c) /\
  ns_peak s <= sc_max_chunks c + 2 /\ ns_chunks s <= ns_creates s /\
  eb_U (ns_buf s) + 16 * eb_n (ns_buf s) <= eb_L (ns_buf s) /\ eb_L (ns_buf s) mod 16 = 0.
Proof. exact inv_volume. Qed.
Print Assumptions C08_volume.

(* non-vacuity: the production configurations satisfy the hypotheses *)
Example C08_production_default :
  hyps (mk_scfg DEFAULT_SORTER_MEMORY true DEFAULT_NB_CHUNKS (default_capacity DEFAULT_SORTER_MEMORY true)).
Proof. constructor; cbn; try lia; try reflexivity; try discriminate. Qed.
Example C08_production_min_no_realloc :
  hyps (mk_scfg (clamp_threshold 0) false (clamp_chunks 0) (default_capacity (clamp_threshold 0) false)).
Proof. constructor; cbn; try lia; try reflexivity; try discriminate. Qed.

(* ================= the transcribed Sorter::insert =================
   n_insert is exactly what Sorter::insert does to the sizes: the buffer bookkeeping, the number of
   chunks, the ChunkCreator calls (EvCreate events) and the peak number of chunks alive (n after a
   spill, n + 1 during a chunk merge) of the transcribed sorter state evolve by n_insert; so the bounds
   hold along every run of the transcribed sorter, whatever the entries and the merge function *)
From Grenad.proofs Require Import SorterProj.

Theorem C08_projection : forall c mf st k v st', s_insert c mf st k v = Done st' ->
  n_insert c (proj st) (entry_sz k v) = Done (proj st').
Proof. exact s_insert_proj. Qed.
Print Assumptions C08_projection.

Theorem C08_sorter_bounds : forall c mf ins st', hyps c ->
  Forall (fun e => entry_sz (fst e) (snd e) <= sc_threshold c / 4) ins ->
  s_inserts c mf (s_new c) ins = Done st' ->
  let s := proj st' in
  eb_U (ns_buf s) <= (if sc_realloc c then 2 * sc_threshold c else sc_threshold c) /\
  ns_peak s <= sc_max_chunks c + 2 /\ ns_chunks s <= ns_creates s /\
  eb_U (ns_buf s) + 16 * eb_n (ns_buf s) <= eb_L (ns_buf s) /\ eb_L (ns_buf s) mod 16 = 0.
Proof.
  intros c mf ins st' Hc Hsz Hrun. cbv zeta.
  pose proof (s_inserts_proj c mf ins (s_new c) st' Hrun) as Hn. rewrite proj_new in Hn.
  destruct (n_inserts_inv c (map (fun e => entry_sz (fst e) (snd e)) ins) Hc
              ltac:(apply Forall_forall; intros x Hx; apply in_map_iff in Hx; destruct Hx as (e & <- & He); rewrite Forall_forall in Hsz; exact (Hsz e He))
              (n_new c) (inv_init c Hc)) as (s' & Es & Hinv).
  rewrite Es in Hn. injection Hn as ->. exact (inv_volume c _ Hc Hinv).
Qed.
Print Assumptions C08_sorter_bounds.
