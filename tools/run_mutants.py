#!/usr/bin/env python3
"""Applies each confirmed sub-agent change to /repo, runs the targeted property's quick check,
and reverts (git checkout -- .).  Results -> /tmp/mut/results.json"""
import json, os, subprocess, sys, glob
ROOT = os.environ.get("VERIF_ROOT", "/verif")
def sh(cmd, cwd=None, timeout=3000):
    cwd = cwd or ROOT
    p = subprocess.run(cmd, shell=True, cwd=cwd, stdout=subprocess.PIPE, stderr=subprocess.STDOUT, text=True, timeout=timeout)
    return p.returncode, p.stdout
src = sys.argv[1] if len(sys.argv) > 1 else "/tmp/mut/out"
only = sys.argv[2:] 
res = {}
out_path = os.environ.get("MUT_RESULTS", "/tmp/mut/results.json")
if os.path.exists(out_path):
    res = json.load(open(out_path))
for d in sorted(glob.glob(src + "/C*/*/patch.diff")):
    parts = d.split("/")
    pid, var = parts[-3], parts[-2]
    key = pid + var
    if only and key not in only and pid not in only:
        continue
    rc, o = sh("git -C /repo status --porcelain")
    assert o.strip() == "", "repo dirty: " + o
    rc, o = sh("git -C /repo apply " + d)
    if rc != 0:
        res[key] = {"applied": False, "out": o}; continue
    try:
        rc, o = sh("./check %s --tier quick" % pid)
        vio = [l for l in o.splitlines() if l.startswith("VIOLATION")]
        res[key] = {"applied": True, "rc": rc, "violation": vio, "tail": o.splitlines()[-6:]}
        # keep the replay for inspection
        print(key, "rc=%d" % rc, vio, flush=True)
    finally:
        sh("git -C /repo checkout -- .")
    json.dump(res, open(out_path, "w"), indent=1)
