(* C15: the byte-level predicate the correspondence evaluates on decoded blocks
   (Format.size_without_last: the size the block had before its last entry was inserted, computed from
   the parsed block alone) is the block writer's size estimate before its last insert; so the proved
   statement "the block writer was below B before its last insert" is exactly "size_without_last < B"
   on the emitted bytes. *)
From Coq Require Import Lia ZArith ZifyN ZifyBool ZifyNat.
From Grenad.gen Require Import Consts.
From Grenad.model Require Import Base Varint Block Trailer Writer Reader Spec Format.
From Grenad.proofs Require Import BaseProofs BlockProofs FormatProofs WriterInv.
Ltac Zify.zify_post_hook ::= Z.div_mod_to_equations.

Lemma payload_of_app a b : payload_of (a ++ b) = payload_of a ++ payload_of b.
Proof. unfold payload_of. apply flat_map_app. Qed.

Lemma with_starts_app es1 : forall es2 pos,
  with_starts (es1 ++ es2) pos = with_starts es1 pos ++ with_starts es2 (pos + len (payload_of es1)).
Proof.
  induction es1 as [|e es1 IH]; intros es2 pos; cbn [app with_starts].
  - change (payload_of []) with (@nil N). change (len (@nil N)) with 0. rewrite N.add_0_r. reflexivity.
  - rewrite IH. f_equal. f_equal. f_equal. unfold payload_of. cbn [flat_map]. rewrite len_app. lia.
Qed.

Lemma last_with_starts es e : last_opt (with_starts (es ++ [e]) 0) = Some (len (payload_of es), e).
Proof. rewrite with_starts_app. cbn [with_starts]. rewrite last_opt_snoc. reflexivity. Qed.

(* the tracked offsets: the counter is positive as soon as an entry was tracked, and every recorded
   offset other than the initial ones lies strictly before the end *)
Lemma bw_track_facts interval es : forall pos ctr offs p c o,
  1 <= interval -> entries_ok es ->
  bw_track interval es pos ctr offs = (p, c, o) ->
  (es = [] -> c = ctr /\ p = pos /\ o = offs) /\
  (es <> [] -> 1 <= c /\ pos < p) /\
  Forall (fun x => x < p \/ In x offs) o.
Proof.
  induction es as [|e es IH]; intros pos ctr offs p c o Hi Hok H; cbn [bw_track] in H.
  - injection H as <- <- <-. split; [auto|]. split; [congruence|]. apply Forall_forall. intros x Hx. right. exact Hx.
  - inversion Hok as [|? ? He Hr]; subst. pose proof (frame_len_ge2 (fst e) (snd e) ltac:(destruct e; exact He)) as H2.
    split; [discriminate|].
    destruct (ctr =? interval).
    + destruct (IH _ _ _ _ _ _ Hi Hr H) as (A & B & C). split.
      * intros _. destruct es as [|e2 es2]; [destruct (A eq_refl) as (-> & -> & _); lia|destruct (B ltac:(discriminate)); lia].
      * assert (Hp : pos < p) by (destruct es as [|e2 es2]; [destruct (A eq_refl) as (_ & -> & _); lia|destruct (B ltac:(discriminate)); lia]).
        eapply Forall_impl; [|exact C]. cbn beta. intros x [Hx|[<-|Hx]]; [left; exact Hx|left; exact Hp|right; exact Hx].
    + destruct (IH _ _ _ _ _ _ Hi Hr H) as (A & B & C). split.
      * intros _. destruct es as [|e2 es2]; [destruct (A eq_refl) as (-> & -> & _); lia|destruct (B ltac:(discriminate)); lia].
      * exact C.
Qed.

Lemma block_size_of_finished w es : bw_ok w es ->
  block_size_of (mk_block (payload_of es) (rev (bw_offsets w))) = bw_size w.
Proof.
  intros [Hb Hl _ Hno _ _ _]. unfold block_size_of, bw_size. cbn [blk_payload blk_offsets].
  rewrite Hl, Hb, Hno. rewrite (len_length (rev _)), rev_length, <- len_length. reflexivity.
Qed.

Lemma bw_insert_keeps w es k v w' : bw_ok w es -> bw_insert w k v = Done w' ->
  bw_ok w' (es ++ [(k, v)]) /\ bw_interval w' = bw_interval w.
Proof.
  intros Hok H. destruct (bw_insert_spec w es k v Hok) as [Hgood Hbad].
  set (cond := entry_ok (k, v) /\ match last_opt es with Some (lk, _) => bytes_ltb lk k = true | None => True end) in *.
  assert (Dec : cond \/ ~ cond).
  { unfold cond, entry_ok. cbn [fst snd].
    destruct (N.leb_spec (len k) U32_MAX); [|right; intros [[? ?] ?]; lia].
    destruct (N.leb_spec (len v) U32_MAX); [|right; intros [[? ?] ?]; lia].
    destruct (last_opt es) as [[lk lv]|]; [|left; auto].
    destruct (bytes_ltb lk k); [left; auto | right; intros [_ ?]; discriminate]. }
  destruct Dec as [Hc|Hc].
  - destruct (Hgood Hc) as (w1 & E1 & Hok1 & Hi). rewrite E1 in H. injection H as <-. auto.
  - rewrite (Hbad Hc) in H. discriminate.
Qed.

(* the size before the last insert, read off the finished block *)
Theorem swl_justins w0 es0 k v w : bw_ok w0 es0 -> 1 <= bw_interval w0 -> bw_insert w0 k v = Done w ->
  size_without_last (mk_block (payload_of (es0 ++ [(k, v)])) (rev (bw_offsets w))) (with_starts (es0 ++ [(k, v)]) 0) = bw_size w0.
Proof.
  intros Hok Hi Hins. pose proof Hok as [Hb Hl _ Hno Htr _ Hen].
  unfold size_without_last. rewrite last_with_starts. cbn [blk_offsets].
  assert (Hstart : len (payload_of es0) = bw_len w0) by (rewrite Hl, Hb; reflexivity).
  destruct (bw_track_facts _ _ _ _ _ _ _ _ Hi Hen Htr) as (A & B & C).
  unfold bw_insert in Hins.
  destruct ((U32_MAX <? len k) || (U32_MAX <? len v)); [discriminate|].
  unfold bw_size. rewrite Hstart.
  destruct (N.eqb_spec (bw_counter w0) (bw_interval w0)) as [Hc|Hc].
  - (* the insert recorded an offset: it is the last one, and it is the start of the last entry *)
    destruct (match bw_last w0 with Some l => bytes_ltb l k | None => true end); [|discriminate]. injection Hins as <-. cbn [bw_offsets rev].
    rewrite last_opt_snoc, N.eqb_refl.
    assert (Hpos : 0 < bw_len w0).
    { destruct es0 as [|e es1]; [destruct (A eq_refl) as (Hc0 & _); lia|destruct (B ltac:(discriminate)); lia]. }
    destruct (N.ltb_spec 0 (bw_len w0)); [|lia]. cbn [andb].
    rewrite len_app. change (len [bw_len w0]) with 1. rewrite (len_length (rev _)), rev_length, <- len_length, <- Hno. lia.
  - destruct (match bw_last w0 with Some l => bytes_ltb l k | None => true end); [|discriminate]. injection Hins as <-. cbn [bw_offsets].
    rewrite (len_length (rev _)), rev_length, <- len_length, <- Hno.
    assert (Hcond : (0 <? bw_len w0) && match last_opt (rev (bw_offsets w0)) with Some o => o =? bw_len w0 | None => false end = false).
    { destruct (N.ltb_spec 0 (bw_len w0)) as [Hpos|Hz]; [|reflexivity]. cbn [andb].
      destruct (bw_offsets w0) as [|x l] eqn:Eo; [reflexivity|]. cbn [rev]. rewrite last_opt_snoc.
      rewrite Forall_forall in C. destruct (C x ltac:(left; reflexivity)) as [Hx|Hx].
      - destruct (N.eqb_spec x (bw_len w0)); [lia|reflexivity].
      - destruct Hx as [Hx|[]]. destruct (N.eqb_spec x (bw_len w0)); [lia|reflexivity]. }
    rewrite Hcond. reflexivity.
Qed.

Theorem swl_le w es : bw_ok w es ->
  size_without_last (mk_block (payload_of es) (rev (bw_offsets w))) (with_starts es 0) <= bw_size w.
Proof.
  intros Hok. pose proof (block_size_of_finished w es Hok) as Hs. unfold size_without_last.
  destruct (last_opt (with_starts es 0)) as [[start e]|] eqn:El; [|lia].
  destruct es as [|e0 es0]; [discriminate|].
  destruct (@exists_last _ (e0 :: es0) ltac:(discriminate)) as (l' & a & El').
  rewrite El', last_with_starts in El. injection El as <- <-.
  unfold block_size_of in Hs. cbn [blk_payload blk_offsets] in *. rewrite <- Hs.
  rewrite El', payload_of_app, len_app.
  destruct ((0 <? len (payload_of l')) && _); lia.
Qed.

(* what C15_cut gives, at the byte level: the emitted block parses, decodes, and its size without its
   last entry is below the block size *)
Theorem cut_bytes c w es buf : bw_ok w es -> bw_finish w = Done buf -> bw_len w < 2^64 -> 1 <= bw_interval w ->
  (below c w \/ justins c w) ->
  exists b bes, parse_block buf = Done b /\ block_entries b = Done bes /\ size_without_last b bes < wc_block_size c.
Proof.
  intros Hok Hf Hl Hi [Hb|(w0 & es0 & k & v & Hok0 & Hb0 & Hins)].
  - exists (mk_block (payload_of es) (rev (bw_offsets w))), (with_starts es 0).
    split; [exact (parse_finish w es buf Hok Hl Hf)|]. split; [apply block_entries_spec; [reflexivity|destruct Hok; assumption]|].
    pose proof (swl_le w es Hok). unfold below in Hb. lia.
  - destruct (bw_insert_keeps w0 es0 k v w Hok0 Hins) as [Hok1 Hi1].
    exists (mk_block (payload_of (es0 ++ [(k, v)])) (rev (bw_offsets w))), (with_starts (es0 ++ [(k, v)]) 0).
    split; [exact (parse_finish w _ buf Hok1 Hl Hf)|]. split; [apply block_entries_spec; [reflexivity|destruct Hok1; assumption]|].
    rewrite (swl_justins w0 es0 k v w Hok0 ltac:(lia) Hins). exact Hb0.
Qed.
