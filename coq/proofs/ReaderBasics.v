(* Basic facts about the reader model: the loader only looks at the frame it is pointed to;
   the cursor depends on the file only through the loader. *)
From Coq Require Import Lia ZArith ZifyN ZifyBool ZifyNat FunctionalExtensionality.
From Grenad.model Require Import Base Block Trailer Reader.
From Grenad.proofs Require Import BaseProofs.
Ltac Zify.zify_post_hook ::= Z.div_mod_to_equations.

(* the frame at [off] (8-byte length prefix + body) lies inside [body] *)
Definition frame_inside (body : bytes) (off : N) : Prop :=
  off + 8 <= len body /\ off + 8 + be_decode (firstnN 8 (skipnN off body)) <= len body.

Lemma skipnN_app_l {A} (n : N) (a b : list A) : n <= len a -> skipnN n (a ++ b) = skipnN n a ++ b.
Proof.
  intro H. rewrite !skipnN_skipn. rewrite len_length in H. rewrite skipn_app.
  replace (N.to_nat n - length a)%nat with 0%nat by lia. reflexivity.
Qed.
Lemma firstnN_app_l {A} (n : N) (a b : list A) : n <= len a -> firstnN n (a ++ b) = firstnN n a.
Proof.
  intro H. rewrite !firstnN_firstn. rewrite len_length in H. rewrite firstn_app.
  replace (N.to_nat n - length a)%nat with 0%nat by lia. rewrite firstn_O, app_nil_r. reflexivity.
Qed.

Lemma load_ignores_suffix dec body t1 t2 codec ord off :
  frame_inside body off ->
  load_block dec (body ++ t1) codec ord off = load_block dec (body ++ t2) codec ord off.
Proof.
  intros [H8 Hb]. unfold load_block.
  rewrite !(skipnN_app_l off body) by lia.
  set (rest := skipnN off body) in *.
  assert (Lr : len rest = len body - off) by (unfold rest; apply len_skipnN).
  rewrite !len_app.
  destruct (N.ltb_spec (len rest + len t1) 8); [lia|].
  destruct (N.ltb_spec (len rest + len t2) 8); [lia|].
  rewrite !(firstnN_app_l 8 rest) by lia.
  set (blen := be_decode (firstnN 8 rest)) in *.
  rewrite !(skipnN_app_l 8 rest) by lia.
  rewrite !(firstnN_app_l blen) by (rewrite len_skipnN; lia).
  reflexivity.
Qed.

Lemma cstep_ext ld1 ld2 root levels :
  (forall ord off, ld1 ord off = ld2 ord off) ->
  forall st o, cstep ld1 root levels st o = cstep ld2 root levels st o.
Proof.
  intros H st o.
  assert (E : ld1 = ld2) by (apply functional_extensionality; intro ord; apply functional_extensionality; intro off; apply H).
  rewrite E. reflexivity.
Qed.
