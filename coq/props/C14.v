(* C14 — Key and value lengths from 0 to 2^32-1 are framed losslessly.
   This file contains only statements, closed by [exact], and their assumption audits. *)
From Grenad.model Require Import Base Varint.
From Grenad.proofs Require Import VarintProofs.

(* Every u32 length encodes to 1..5 bytes (each < 256) that decode to the same length,
   consuming exactly those bytes, whatever follows them. *)
Theorem C14_varint : forall v rest, v < 2^32 ->
  let e := varint_encode32 v in
  (1 <= length e <= 5)%nat /\ Forall (fun b => b < 256) e /\
  varint_decode32_raw (e ++ rest) = (v, N.of_nat (length e)).
Proof. exact varint_roundtrip. Qed.
Print Assumptions C14_varint.

(* the panicking wrapper used by the block parser never panics on an encoding *)
Theorem C14_varint_no_panic : forall v rest, v < 2^32 ->
  varint_decode32 (varint_encode32 v ++ rest) = Done (v, N.of_nat (length (varint_encode32 v))).
Proof. exact varint_decode_encode. Qed.
Print Assumptions C14_varint_no_panic.

(* number of bytes: one more at each framing boundary 2^7, 2^14, 2^21, 2^28 *)
Theorem C14_lengths : forall v, v < 2^32 ->
  length (varint_encode32 v) =
  (1 + (if (2^7 <=? v)%N then 1 else 0) + (if (2^14 <=? v)%N then 1 else 0)
     + (if (2^21 <=? v)%N then 1 else 0) + (if (2^28 <=? v)%N then 1 else 0))%nat.
Proof. exact varint_encode_length. Qed.
Print Assumptions C14_lengths.

(* non-vacuity: the boundary values are inside the hypothesis *)
Example C14_boundaries :
  map (fun v => (length (varint_encode32 v), fst (varint_decode32_raw (varint_encode32 v))))
      [0; 127; 128; 16383; 16384; 2097151; 2097152; 268435455; 268435456; 4294967295]
  = [(1%nat, 0); (1%nat, 127); (2%nat, 128); (2%nat, 16383); (3%nat, 16384); (3%nat, 2097151);
     (4%nat, 2097152); (4%nat, 268435455); (5%nat, 268435456); (5%nat, 4294967295)].
Proof. vm_compute. reflexivity. Qed.

(* entry level: an entry framed by the block writer (varint key length, varint value length, key,
   value) is returned by Block::entry_at with exactly the inserted key and value bytes and the
   offset of the next entry, for every key/value length up to u32::MAX and whatever precedes or
   follows it in the block payload *)
From Grenad.model Require Import Block.
From Grenad.proofs Require Import BlockProofs.
Theorem C14_entry : forall b pre k v post,
  blk_payload b = pre ++ frame k v ++ post ->
  len k <= 4294967295 -> len v <= 4294967295 ->
  entry_at b (len pre) = Done (Some (k, v, len pre + len (frame k v))).
Proof. intros b pre k v post Hp Hk Hv. apply (entry_at_frame b pre k v post Hp). split; assumption. Qed.
Print Assumptions C14_entry.
