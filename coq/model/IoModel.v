(* The std::io loops grenad relies on, over sinks and sources whose every call may accept
   fewer bytes than offered or report ErrorKind::Interrupted, following a schedule:
   Write::write_all over CountWrite, Read::read_exact, Read::read_to_end over Take. *)
From Grenad.gen Require Consts.
From Grenad.model Require Import Base Block Writer Reader.
From Grenad.model Require Trailer.

Inductive resp : Type :=
| RAccept (n : N)        (* accept / deliver at most n bytes (n >= 1) *)
| RInterrupt             (* Err(ErrorKind::Interrupted) *)
| RError (kind : N).     (* any other error *)

(* ------------------------------------------------------------------ sinks *)
Record ssink : Type := mk_ssink {
  sk_chunks : list bytes;     (* accepted bytes, most recent first *)
  sk_count : N;               (* CountWrite.count *)
  sk_sched : list resp;       (* responses of the coming write calls; afterwards everything is accepted *)
  sk_calls : list N }.        (* length offered at each write call, most recent first *)

Definition sk_bytes (s : ssink) : bytes := concat (rev (sk_chunks s)).
Definition sk_new (sched : list resp) : ssink := mk_ssink [] 0 sched [].

(* Write::write_all(buf) through CountWrite::write *)
Fixpoint write_all (fuel : nat) (s : ssink) (buf : bytes) : outcome ssink :=
  match buf with
  | [] => Done s
  | _ :: _ =>
    match fuel with
    | O => Fail EFuel
    | S f =>
      let calls := len buf :: sk_calls s in
      match sk_sched s with
      | [] => Done (mk_ssink (buf :: sk_chunks s) (sk_count s + len buf) [] calls)
      | RInterrupt :: r => write_all f (mk_ssink (sk_chunks s) (sk_count s) r calls) buf
      | RError k :: r => Fail (EIo k)
      | RAccept n :: r =>
        let k := N.min n (len buf) in
        if k =? 0 then Fail (EIo IO_WRITE_ZERO)
        else write_all f (mk_ssink (firstnN k buf :: sk_chunks s) (sk_count s + k) r calls) (skipnN k buf)
      end
    end
  end.

Definition sk_wr (s : ssink) (buf : bytes) : outcome ssink :=
  write_all (S (length (sk_sched s) + length buf)) s buf.
Definition sk_fl (s : ssink) : outcome ssink := Done s.

(* ------------------------------------------------------------------ fault-injecting sink (C12) *)
(* fails the write that would deliver byte number [pos] (counting from 0); optionally fails flush *)
Record fsink : Type := mk_fsink { fk_sink : vsink; fk_pos : option N; fk_flush : bool }.
Definition fk_wr (s : fsink) (buf : bytes) : outcome fsink :=
  match fk_pos s with
  | Some p => if (vs_count (fk_sink s) + len buf <=? p) || (len buf =? 0)
              then omap (fun v => mk_fsink v (fk_pos s) (fk_flush s)) (vs_wr (fk_sink s) buf)
              else Fail (EIo IO_INJECTED)
  | None => omap (fun v => mk_fsink v (fk_pos s) (fk_flush s)) (vs_wr (fk_sink s) buf)
  end.
Definition fk_fl (s : fsink) : outcome fsink := if fk_flush s then Fail (EIo IO_INJECTED) else Done s.
Definition fk_cnt (s : fsink) : N := vs_count (fk_sink s).

(* ------------------------------------------------------------------ sources *)
Record src : Type := mk_src { sr_data : bytes; sr_pos : N; sr_sched : list resp }.

Inductive rres : Type := RBytes (b : bytes) | RIntr | RErr (kind : N).

(* one Read::read call offering a buffer of [want] bytes *)
Definition src_read (s : src) (want : N) : src * rres :=
  let avail := skipnN (sr_pos s) (sr_data s) in
  match sr_sched s with
  | [] => let b := firstnN want avail in (mk_src (sr_data s) (sr_pos s + len b) [], RBytes b)
  | RInterrupt :: r => (mk_src (sr_data s) (sr_pos s) r, RIntr)
  | RError k :: r => (mk_src (sr_data s) (sr_pos s) r, RErr k)
  | RAccept n :: r => let b := firstnN (N.min n want) avail in
                      (mk_src (sr_data s) (sr_pos s + len b) r, RBytes b)
  end.

(* Read::read_exact(n bytes) *)
Fixpoint read_exact (fuel : nat) (s : src) (n : N) (acc : bytes) : src * outcome bytes :=
  if n =? 0 then (s, Done acc)
  else match fuel with
       | O => (s, Fail EFuel)
       | S f =>
         match src_read s n with
         | (s', RBytes []) => (s', Fail (EIo IO_UNEXPECTED_EOF))
         | (s', RBytes b) => read_exact f s' (n - len b) (acc ++ b)
         | (s', RIntr) => read_exact f s' n acc
         | (s', RErr k) => (s', Fail (EIo k))
         end
       end.

(* Read::read_to_end over Take(limit): [reqs] are the (arbitrary, >= 1) buffer sizes std offers *)
Fixpoint read_to_end_take (fuel : nat) (s : src) (limit : N) (reqs : list N) (acc : bytes) : src * outcome bytes :=
  match fuel with
  | O => (s, Fail EFuel)
  | S f =>
    let want := match reqs with r :: _ => r | [] => 32 end in
    if limit =? 0 then (s, Done acc)                     (* Take::read returns Ok(0) *)
    else match src_read s (N.min want limit) with
         | (s', RBytes []) => (s', Done acc)
         | (s', RBytes b) => read_to_end_take f s' (limit - len b) (tl reqs) (acc ++ b)
         | (s', RIntr) => read_to_end_take f s' limit reqs acc
         | (s', RErr k) => (s', Fail (EIo k))
         end
  end.

(* Block::new on a scheduled source: seek(Start(off)), read_u64 BE, take(len) + read_to_end, parse *)
Definition load_block_sched (decompress : N -> bytes -> outcome bytes) (file : bytes) (codec : N)
  (sched : list resp) (reqs : list N) (off : N) : outcome block :=
  let fuel := S (length sched + length file) in
  let s0 := mk_src file off sched in
  match read_exact fuel s0 8 [] with
  | (s1, Done hdr) =>
    match read_to_end_take (S fuel) s1 (be_decode hdr) reqs [] with
    | (_, Done body) => do buf <- decompress codec body; parse_block buf
    | (_, Panic) => Panic
    | (_, Fail e) => Fail e
    end
  | (_, Panic) => Panic
  | (_, Fail e) => Fail e
  end.

(* Metadata::read_from on a scheduled source: the same seeks, every read_u32 / read_u64 / read_u8 a
   read_exact under its own schedule ([scheds i] = the responses during the i-th read_exact) *)
Definition read_exact_src (f : bytes) (pos n : N) (sched : list resp) : outcome (bytes * N) :=
  match read_exact (S (length sched + N.to_nat n)) (mk_src f pos sched) n [] with
  | (s', Done b) => Done (b, sr_pos s')
  | (_, Fail e) => Fail e
  | (_, Panic) => Panic
  end.

Definition open_meta_sched (scheds : N -> list resp) (f : bytes) : outcome Trailer.meta :=
  do p <- Trailer.seek_end f 4;
  do r <- read_exact_src f p 4 (scheds 0);
  let magic := le_decode (fst r) in
  if magic =? Consts.MAGIC_V1 then
    do p <- Trailer.seek_end f (Consts.METADATA_V1_SIZE + 4);
    do r1 <- read_exact_src f p 8 (scheds 1);
    do r2 <- read_exact_src f (snd r1) 1 (scheds 2);
    let codec := le_decode (fst r2) in
    if Trailer.codec_known codec then
      do r3 <- read_exact_src f (snd r2) 8 (scheds 3);
      Done (Trailer.mk_meta Trailer.FormatV1 (le_decode (fst r1)) codec (le_decode (fst r3)) 0)
    else Fail EInvalidCodec
  else if magic =? Consts.MAGIC_V2 then
    do p <- Trailer.seek_end f (Consts.METADATA_V2_SIZE + 4);
    do r1 <- read_exact_src f p 8 (scheds 1);
    do r2 <- read_exact_src f (snd r1) 1 (scheds 2);
    let codec := le_decode (fst r2) in
    if Trailer.codec_known codec then
      do r3 <- read_exact_src f (snd r2) 8 (scheds 3);
      do r4 <- read_exact_src f (snd r3) 1 (scheds 4);
      Done (Trailer.mk_meta Trailer.FormatV2 (le_decode (fst r1)) codec (le_decode (fst r3)) (le_decode (fst r4)))
    else Fail EInvalidCodec
  else Fail EInvalidVersion.

(* whole writer runs over the scheduled / fault-injecting sinks *)
Definition w_run_sched (compress : N -> N -> bytes -> outcome bytes) (sched : list resp) (c : wcfg) (es : list entry)
  : N * outcome (ssink * list emitted * Trailer.meta) :=
  w_run_gen ssink sk_wr sk_fl sk_count compress c (sk_new sched) es.
Definition w_run_fault (compress : N -> N -> bytes -> outcome bytes) (pos : option N) (flush : bool) (c : wcfg) (es : list entry)
  : N * outcome (fsink * list emitted * Trailer.meta) :=
  w_run_gen fsink fk_wr fk_fl fk_cnt compress c (mk_fsink vs_empty pos flush) es.

(* the loader that fails at the j-th load: phase 0 = the seek, phase 1 = a read of that load *)
Definition faulty_load (ld : N -> N -> outcome block) (j : N) : N -> N -> outcome block :=
  fun ord off => if ord =? j then Fail (EIo IO_INJECTED) else ld ord off.
