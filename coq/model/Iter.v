(* Transcription of src/reader/range_iter.rs and src/reader/prefix_iter.rs over a cursor
   step function. *)
From Grenad.model Require Import Base Block Reader Spec.

Section WithCursor.
  Variable step : cstate -> op -> outcome (cstate * option entry).

  Record iter : Type := mk_iter { it_st : cstate; it_start : bool }.
  Definition iter_new : iter := mk_iter cs_fresh true.

  Definition filter_entry (ok : bytes -> bool) (e : option entry) : option entry :=
    match e with Some (k, v) => if ok k then Some (k, v) else None | None => None end.

  (* RangeIter::next *)
  Definition range_next (lo hi : bound) (it : iter) : outcome (iter * option entry) :=
    do r <- (if it_start it then
               match lo with
               | Unbounded => step (it_st it) OFirst
               | Included a => step (it_st it) (OGe a)
               | Excluded a =>
                 do r1 <- step (it_st it) (OGe a);
                 let '(st1, e1) := r1 in
                 match e1 with
                 | Some (k, v) => if bytes_eqb k a then step st1 ONext else Done (st1, Some (k, v))
                 | None => Done (st1, None)
                 end
               end
             else step (it_st it) ONext);
    let '(st', e) := r in
    Done (mk_iter st' false, filter_entry (hi_ok hi) e).

  (* RevRangeIter::next *)
  Definition rev_range_next (lo hi : bound) (it : iter) : outcome (iter * option entry) :=
    do r <- (if it_start it then
               match hi with
               | Unbounded => step (it_st it) OLast
               | Included b => step (it_st it) (OLe b)
               | Excluded b =>
                 do r1 <- step (it_st it) (OLe b);
                 let '(st1, e1) := r1 in
                 match e1 with
                 | Some (k, v) => if bytes_eqb k b then step st1 OPrev else Done (st1, Some (k, v))
                 | None => Done (st1, None)
                 end
               end
             else step (it_st it) OPrev);
    let '(st', e) := r in
    Done (mk_iter st' false, filter_entry (lo_ok lo) e).

  (* advance_key: the popping loop, on the reversed key *)
  Fixpoint advance_rev (r : bytes) : option bytes :=
    match r with
    | [] => None
    | x :: r' => if x <? 255 then Some ((x + 1) :: r') else advance_rev r'
    end.
  Definition advance_key (p : bytes) : option bytes :=
    match advance_rev (rev p) with Some r => Some (rev r) | None => None end.

  (* PrefixIter::next *)
  Definition prefix_next (p : bytes) (it : iter) : outcome (iter * option entry) :=
    do r <- (if it_start it then step (it_st it) (OGe p) else step (it_st it) ONext);
    let '(st', e) := r in
    Done (mk_iter st' false, filter_entry (fun k => starts_with k p) e).

  (* move_on_last_prefix *)
  Definition move_on_last_prefix (p : bytes) (st : cstate) : outcome (cstate * option entry) :=
    match advance_key p with
    | Some np =>
      do r <- step st (OLe np);
      let '(st1, e) := r in
      match e with
      | Some (k, v) => if bytes_eqb k np then step st1 OPrev else step st1 OCurrent
      | None => step st1 OCurrent
      end
    | None => step st OLast
    end.

  (* RevPrefixIter::next *)
  Definition rev_prefix_next (p : bytes) (it : iter) : outcome (iter * option entry) :=
    do r <- (if it_start it then move_on_last_prefix p (it_st it) else step (it_st it) OPrev);
    let '(st', e) := r in
    Done (mk_iter st' false, filter_entry (fun k => starts_with k p) e).

  (* results up to the first None; [fuel] bounds the number of calls *)
  Fixpoint collect (next : iter -> outcome (iter * option entry)) (fuel : nat) (it : iter)
    : outcome (list entry) :=
    match fuel with
    | O => Fail EFuel
    | S f =>
      do r <- next it;
      let '(it', e) := r in
      match e with
      | Some kv => do rest <- collect next f it'; Done (kv :: rest)
      | None => Done []
      end
    end.
End WithCursor.
