//! C13: opening arbitrary byte strings (truncations = crash points, corruptions, random).
use crate::gen::*;
use crate::util::*;
use grenad::{CompressionType, Reader};
use std::io::{Cursor, Write};

fn one<W: Write>(c: &mut Cases<W>, bytes: &[u8], class: &str) {
    let res = match catch(|| Reader::new(Cursor::new(bytes)).map(|r| (r.file_version() as u32, r.compression_type() as u8, r.len()))) {
        Ok(Ok((v, codec, n))) => format!("ok {} {} {}", v, codec, n),
        Ok(Err(e)) => format!("err {}", err_class(&e)),
        Err(_) => "panic".to_string(),
    };
    // the same through a source that serves 1..3 bytes per read call: the result must not depend on it
    let max_read = 1 + bytes.len() % 3;
    let short = match catch(|| Reader::new(crate::c_hist::Counting::short(bytes.to_vec(), max_read)).map(|r| (r.file_version() as u32, r.compression_type() as u8, r.len()))) {
        Ok(Ok((v, codec, n))) => format!("ok {} {} {}", v, codec, n),
        Ok(Err(e)) => format!("err {}", err_class(&e)),
        Err(_) => "panic".to_string(),
    };
    if short != res {
        println!("DIRECT fail open of a {}-byte string through a source serving {} byte(s) per read: {} (whole reads: {})", bytes.len(), max_read, short, res);
    }
    // and through a source that reports ErrorKind::Interrupted before every other read (one string in four)
    if bytes.len() % 4 == 1 || bytes.len() == 22 || bytes.len() == 21 {
        let ctl = crate::c_io::Ctl::new();
        *ctl.rng.borrow_mut() = Some(Rng::new(bytes.len() as u64 + 1));
        ctl.mode.set(1);
        let intr = match catch(|| Reader::new(crate::c_io::Sched::new(bytes.to_vec(), ctl.clone())).map(|r| (r.file_version() as u32, r.compression_type() as u8, r.len()))) {
            Ok(Ok((v, codec, n))) => format!("ok {} {} {}", v, codec, n),
            Ok(Err(e)) => format!("err {}", err_class(&e)),
            Err(_) => "panic".to_string(),
        };
        if intr != res {
            println!("DIRECT fail open of a {}-byte string through a source that interrupts every other read: {} (plain source: {})", bytes.len(), intr, res);
        }
    }
    c.begin("open");
    // only the last 64 bytes matter to open; keep the length
    let tail = if bytes.len() > 64 { &bytes[bytes.len() - 64..] } else { bytes };
    c.line(&format!("len {}", bytes.len()));
    c.line(&format!("tail {}", hex(tail)));
    c.line(&format!("res {}", res));
    c.end();
    c.bump(&format!("class.{}", class), 1);
    c.bump(&format!("res.{}", res.split(' ').next().unwrap()), 1);
    if res.starts_with("ok") || bytes.len() >= 4 {
        c.nontrivial(&fnv(tail).to_le_bytes());
    }
}

pub fn generate<W: Write>(c: &mut Cases<W>, rng: &mut Rng, thorough: bool) {
    let nfiles = if thorough { 400 } else { 40 };
    let magic2 = 0x6723D4C4u32.to_le_bytes();
    let magic1 = 0x76324D4Cu32.to_le_bytes();
    // the shortest strings: nothing at all, one to three bytes
    one(c, &[], "empty");
    for l in 1..4usize {
        one(c, &vec![0u8; l], "shorter-than-a-magic");
        one(c, &vec![0xC4u8; l], "shorter-than-a-magic");
    }
    // short strings around the magic numbers
    let alphabet = [0u8, 1, 5, 6, 0xC4, 0xFF];
    for m in [&magic1[..], &magic2[..], &[0x4c, 0x4d, 0x32, 0x77][..]] {
        one(c, m, "magic-only");
        for a in alphabet {
            one(c, &[&[a][..], m].concat(), "short+magic");
            for b in alphabet {
                one(c, &[&[a, b][..], m].concat(), "short+magic");
                for d in alphabet {
                    one(c, &[&[a, b, d][..], m].concat(), "short+magic");
                }
            }
        }
        // every total length 4..=30 with every codec byte position value 0..=7
        for total in 4..=30usize {
            for codec in 0..=7u8 {
                let mut s = vec![0xABu8; total - 4];
                let rec = if m == &magic1[..] { 17 } else { 18 };
                if total - 4 >= rec {
                    let at = total - 4 - rec + 8;
                    s[at] = codec;
                }
                s.extend_from_slice(m);
                one(c, &s, "length-sweep");
            }
        }
    }
    // "a known magic number": every reordering of the four bytes of each magic (the byte-swapped ones among
    // them), every single-bit change, each behind a complete, well-formed record of either size
    {
        let perms: [[usize; 4]; 24] = [
            [0,1,2,3],[0,1,3,2],[0,2,1,3],[0,2,3,1],[0,3,1,2],[0,3,2,1],[1,0,2,3],[1,0,3,2],[1,2,0,3],[1,2,3,0],[1,3,0,2],[1,3,2,0],
            [2,0,1,3],[2,0,3,1],[2,1,0,3],[2,1,3,0],[2,3,0,1],[2,3,1,0],[3,0,1,2],[3,0,2,1],[3,1,0,2],[3,1,2,0],[3,2,0,1],[3,2,1,0]];
        for m in [magic1, magic2] {
            let mut variants: Vec<[u8; 4]> = perms.iter().map(|p| [m[p[0]], m[p[1]], m[p[2]], m[p[3]]]).collect();
            for bit in 0..32 {
                let mut v = m;
                v[bit / 8] ^= 1 << (bit % 8);
                variants.push(v);
            }
            for v in variants {
                for rec in [17usize, 18, 30] {
                    for codec in [0u8, 3, 5] {
                        let mut s = vec![0u8; rec];
                        s[rec - if rec == 17 { 17 } else { 18 } + 8] = codec;
                        s.extend_from_slice(&v);
                        one(c, &s, "magic-variant");
                    }
                }
            }
        }
    }
    for _ in 0..(if thorough { 20000 } else { 1500 }) {
        let l = rng.below(65) as usize;
        let mut s: Vec<u8> = (0..l).map(|_| rng.next() as u8).collect();
        if rng.chance(1, 2) && l >= 4 {
            let m = if rng.chance(1, 2) { magic1 } else { magic2 };
            s[l - 4..].copy_from_slice(&m);
            if l >= 22 && rng.chance(1, 2) {
                s[l - 22 + 8] = rng.below(8) as u8;
            }
            if l >= 21 && rng.chance(1, 2) {
                s[l - 21 + 8] = rng.below(8) as u8;
            }
        }
        one(c, &s, "random");
    }
    for i in 0..nfiles {
        let cfg = gen_cfg(rng, i % 2 == 0, i % 4 == 0);
        let mut es = bounded_entries(rng, &cfg, 60, 3000);
        if i % 5 == 0 && !es.is_empty() {
            // a value embedding a complete trailer: some truncation is then legitimately accepted
            let mut v = vec![7u8; 9];
            v[8] = (i % 6) as u8;
            v.extend_from_slice(&[0u8; 9]);
            v.extend_from_slice(&magic2);
            let at = es.len() / 2;
            es[at].1 = v;
        }
        let file = match write_file(&FileCfg { codec: if i % 5 == 0 { CompressionType::None } else { cfg.codec }, ..cfg.clone() }, &es) {
            WriteOutcome::File(f) => f,
            _ => continue,
        };
        // every truncation (crash point) of small files; for larger ones all of the last 80 bytes,
        // every 7th elsewhere
        for cut in 0..=file.len() {
            if file.len() <= 600 || cut + 80 >= file.len() || cut % 7 == 0 || i % 5 == 0 {
                one(c, &file[..cut], "truncation");
            }
        }
        // every single-byte corruption of the trailer
        if i % 4 == 0 {
            for pos in file.len() - 22..file.len() {
                for alt in 0..=255u8 {
                    if alt != file[pos] && (thorough || alt % 5 == 0 || pos >= file.len() - 14 && pos <= file.len() - 13 || alt < 8) {
                        let mut f = file.clone();
                        f[pos] = alt;
                        one(c, &f, "corruption");
                    }
                }
            }
        }
    }
}
