"""Per-property configuration of ./check: the props file holding the theorems, the harness
scenarios of the correspondence, what is trusted, what is not proved."""

ALLOWED_AXIOMS = {
    # standard-library axioms that may appear (named in the evidence when they do)
    "functional_extensionality_dep", "proof_irrelevance", "classic", "JMeq_eq", "Eq_rect_eq", "eq_rect_eq",
}

TRUSTED_BASE = [
    "Coq 8.16.1 kernel (coqc full .vo builds; vm_compute for Examples; no native_compute; coqchk in the thorough tier)",
    "hand-written Gallina model of grenad (coq/model/*.v): the theorems are about the model, tied to /repo by (a) constants re-extracted from /repo/src into coq/gen/Consts.v on every run (tools/extract_consts.py, regular expressions) and (b) differential execution of the extracted model against the implementation on the cases of this run",
    "extraction: Extraction Language OCaml with ExtrOcamlBasic only (Extract Inductive bool/option/unit/list/prod/sumbool/sumor, Extract Inlined Constant for their projections and connectives as that file declares); no Extract Constant/Inductive of our own; N/positive/nat/comparison stay inductive",
    "OCaml driver ocaml/driver.ml (hex parsing, int<->N conversion, comparison and printing) and the Rust harness /verif/harness (generators, instrumented sinks/sources, catch_unwind)",
]

PROPS = {
    "C14": {
        "prop_file": "props/C14.v",
        "scenarios": [{"name": "C14"}],
        "thorough_scenarios": [{"name": "C14-sweep", "no_driver": True, "timeout": 1200}],
        "rule": "values: every 2^k +-64 neighbourhood of the framing boundaries (k=7,14,21,28,32), +-2 around every other power of two, plus values stratified uniformly over bit lengths, each with random trailing bytes; non-trivial = distinct value >= 128 (multi-byte encoding); thorough adds the implementation-side sweep of all 2^32 values against the statement",
        "trusted": ["varint functions reached through the cfg(grenad_verif) re-export grenad::verif::{varint_encode32, varint_decode32}"],
        "assumptions": ["u32 arithmetic is modelled as N with explicit mod 2^32 / mod 256 truncations"],
        "not_proved": [],
    },
}

PROPS.update({
    "C13": {
        "prop_file": "props/C13.v",
        "scenarios": [{"name": "open-c13"}],
        "rule": "byte strings: every truncation (crash point) of small generated files and the last 80 of larger ones, single-byte corruptions of the 22 trailer bytes, every length 4..30 x codec byte 0..7 x both magics, all strings of length <=3 over a 6-symbol alphabet followed by a magic, random strings of length 0..64; distinct by the last 64 bytes; non-trivial = at least 4 bytes long (the magic can be read)",
        "trusted": ["std::io::Cursor semantics of SeekFrom::End and read_exact as modelled in Trailer.v (seek_end, read_exact_at)"],
        "assumptions": ["the source is an in-memory byte string (Cursor<&[u8]>); other Read+Seek sources may report different io::ErrorKind for a negative seek"],
        "not_proved": [],
    },
    "C10": {
        "prop_file": "props/C10.v",
        "scenarios": [{"name": "hist-c10"}],
        "rule": "single-level files of every codec/block size/interval, each re-trailed with a hand-assembled 21-byte V1 trailer; the same random cursor history is run on the V1 and V2 variants and compared with the model and with the sorted-list specification; non-trivial = file with >= 2 entries and >= 2 operations, distinct by file+history hash",
        "trusted": [],
        "assumptions": ["functional_extensionality_dep (Coq standard library axiom) is used by C10_cursor_depends_on_loader_only"],
        "not_proved": ["C10_v1_same_results (every scan/seek/range/prefix result on a V1 file equals the V2 result) is reduced to C10_load_ignores_trailer + C10_cursor_depends_on_loader_only + 'every offset the cursor loads lies inside the body', the last of which needs the reader refinement R (DESIGN 4) and is so far validated by the correspondence only"],
    },
})

NOT_APPLICABLE = {}

MANIFEST_TEXT = {
    "C13": {
        "text": "Theorems C13_no_panic and C13_open_iff prove for EVERY byte string that the transcribed Metadata::read_from never panics and succeeds exactly when the string ends in a complete V1/V2 trailer with a known codec id (literals of the property text, tied to the code's constants by C13_constants over the re-extracted Consts.v); C13_truncations instantiates it at every crash point. The transcription is validated every run against Reader::new on all truncations/corruptions/short strings generated.",
        "design_ref": "DESIGN.md §5 C13",
        "note": "Trusted: Coq kernel; std::io::Cursor seek/read_exact semantics as modelled; the transcription of metadata.rs (validated by the correspondence); extraction, driver, harness. Axioms: none.",
        "technique": "Rocq proof (exhaustive case analysis of the trailer reader over arbitrary byte strings) + model/implementation differential execution",
    },
    "C10": {
        "text": "C10_v1_open proves that the 21-byte V1 trailer of the property text opens as version 1 with the stored count/codec and index_levels 0 for every body; C10_load_ignores_trailer and C10_cursor_depends_on_loader_only prove that block loads inside the body and hence all cursor results cannot depend on which trailer follows. The remaining step (all loaded offsets lie inside the body) is validated by running identical histories on V1 and V2 variants of generated files through implementation, model and specification.",
        "design_ref": "DESIGN.md §5 C10",
        "note": "Partial proof: see not_proved in the evidence. Axiom: functional_extensionality_dep (stdlib). Trusted: kernel, transcription of metadata.rs/reader_cursor.rs (validated by correspondence), extraction, driver, harness.",
        "technique": "Rocq proof (trailer layout, frame locality) + model/implementation/specification differential execution on V1 vs V2 files",
    },
    "C14": {
        "text": "Theorems C14_varint / C14_varint_no_panic / C14_lengths prove, for all 2^32 lengths and arbitrary trailing bytes, that the transcribed varint_encode32/varint_decode32 round-trip in 1..5 bytes consuming exactly those bytes (base-128 digit arithmetic, no enumeration). The transcription is tied to src/varint.rs by running both on boundary neighbourhoods and stratified random values every run (thorough: all 2^32 values through the implementation against the statement).",
        "design_ref": "DESIGN.md §5 C14",
        "note": "Trusted: Coq kernel; the hand transcription of varint.rs (validated by the correspondence); extraction + OCaml driver; the harness. Axioms: none (Closed under the global context).",
        "technique": "Rocq proof (induction-free arithmetic on base-128 digits) + model/implementation differential execution",
    },
}
