(* Proofs about model/Format.v: decoding the entries of a block built by the block writer,
   the footer offset table (first 0, one per interval), per-block sortedness. *)
From Coq Require Import Lia ZArith ZifyN ZifyBool ZifyNat.
From Grenad.model Require Import Base Varint Block Spec Format.
From Grenad.proofs Require Import BaseProofs VarintProofs BlockProofs.
Ltac Zify.zify_post_hook ::= Z.div_mod_to_equations.

(* entries with the payload offset at which each starts *)
Fixpoint with_starts (es : list entry) (pos : N) : list (N * entry) :=
  match es with
  | [] => []
  | e :: r => (pos, e) :: with_starts r (pos + len (frame (fst e) (snd e)))
  end.

Lemma map_snd_with_starts es pos : map snd (with_starts es pos) = es.
Proof. revert pos; induction es as [|e es IH]; intro pos; [reflexivity|]. cbn [with_starts map snd]. rewrite IH. reflexivity. Qed.

Lemma block_entries_from_spec b es : forall pre fuel,
  blk_payload b = pre ++ payload_of es -> entries_ok es -> (length es <= length fuel)%nat ->
  block_entries_from fuel b (len pre) = Done (with_starts es (len pre)).
Proof.
  induction es as [|[k v] es IH]; intros pre fuel Hp Hok Hf.
  - cbn [payload_of flat_map] in Hp. rewrite app_nil_r in Hp.
    destruct fuel; cbn [block_entries_from]; rewrite <- Hp, entry_at_end; reflexivity.
  - inversion Hok as [|? ? Hk Hr]; subst.
    cbn [payload_of flat_map fst snd] in Hp. fold (payload_of es) in Hp.
    destruct fuel as [|x fuel]; [cbn [length] in Hf; lia|].
    cbn [block_entries_from]. rewrite (entry_at_frame b pre k v (payload_of es) Hp Hk). cbn [bind].
    replace (len pre + len (frame k v)) with (len (pre ++ frame k v)) by (rewrite len_app; reflexivity).
    rewrite (IH (pre ++ frame k v) fuel); [| rewrite <- app_assoc; exact Hp | exact Hr | cbn [length] in Hf; lia].
    cbn [bind with_starts fst snd]. rewrite len_app. reflexivity.
Qed.

Lemma payload_length_ge es : entries_ok es -> (length es <= length (payload_of es))%nat.
Proof.
  induction 1 as [|[k v] es Hk _ IH]; [cbn; lia|].
  cbn [payload_of flat_map fst snd length]. fold (payload_of es). rewrite app_length.
  pose proof (frame_len_ge2 k v Hk) as H2. rewrite len_length in H2. lia.
Qed.

(* every entry of a block whose payload is the framing of [es] is decoded, in order *)
Lemma block_entries_spec b es :
  blk_payload b = payload_of es -> entries_ok es -> block_entries b = Done (with_starts es 0).
Proof.
  intros Hp Hok. unfold block_entries.
  apply (block_entries_from_spec b es [] (blk_payload b)); [exact Hp | exact Hok |].
  rewrite Hp. apply payload_length_ge. exact Hok.
Qed.

(* ---- footer offsets: first 0, then the start of every interval-th further entry ---- *)
Lemma bw_track_offsets interval es : forall pos ctr offs p c o,
  bw_track interval es pos ctr offs = (p, c, o) ->
  rev o = rev offs ++ expected_offsets interval ctr (with_starts es pos).
Proof.
  induction es as [|e es IH]; intros pos ctr offs p c o H; cbn [bw_track with_starts expected_offsets] in *.
  - injection H as <- <- <-. rewrite app_nil_r. reflexivity.
  - destruct (ctr =? interval).
    + apply IH in H. rewrite H. cbn [rev]. rewrite <- app_assoc. reflexivity.
    + apply IH in H. exact H.
Qed.

Lemma forallb_combine_refl (l : list N) : forallb (fun p => fst p =? snd p) (combine l l) = true.
Proof. induction l as [|x l IH]; [reflexivity|]. cbn [combine forallb fst snd]. rewrite N.eqb_refl. exact IH. Qed.

Lemma finished_offsets_ok w es :
  bw_ok w es -> offsets_ok (bw_interval w) (mk_block (payload_of es) (rev (bw_offsets w))) (with_starts es 0) = true.
Proof.
  intros [_ _ _ _ Htr _ _]. apply bw_track_offsets in Htr. cbn [rev app] in Htr.
  unfold offsets_ok. cbn [blk_offsets]. rewrite Htr. rewrite N.eqb_refl. cbn [andb]. apply forallb_combine_refl.
Qed.

Lemma finished_block_sorted w es : bw_ok w es -> block_sorted (with_starts es 0) = true.
Proof.
  intros [_ _ _ _ _ Hso _]. unfold block_sorted.
  replace (map (fun x : N * entry => fst (snd x)) (with_starts es 0)) with (map fst es); [exact Hso|].
  rewrite <- (map_snd_with_starts es 0) at 1. rewrite map_map. reflexivity.
Qed.

(* ---- a whole block: inserts from an empty writer, finish, parse, decode ---- *)
Fixpoint bw_insert_all (w : bw) (es : list entry) : outcome bw :=
  match es with
  | [] => Done w
  | (k, v) :: r => do w' <- bw_insert w k v; bw_insert_all w' r
  end.

(* any insert sequence: the block writer either panics or holds exactly the inserted entries,
   which are then strictly ascending *)
Lemma bw_insert_all_dichotomy ins : forall w es0, bw_ok w es0 ->
  (exists w', bw_insert_all w ins = Done w' /\ bw_ok w' (es0 ++ ins) /\ bw_interval w' = bw_interval w)
  \/ bw_insert_all w ins = Panic.
Proof.
  induction ins as [|[k v] ins IH]; intros w es0 Hok; cbn [bw_insert_all].
  - left. exists w. rewrite app_nil_r. auto.
  - destruct (bw_insert_spec w es0 k v Hok) as [Hgood Hbad].
    set (cond := entry_ok (k, v) /\ match last_opt es0 with Some (lk, _) => bytes_ltb lk k = true | None => True end) in *.
    assert (Dec : cond \/ ~ cond).
    { unfold cond, entry_ok. cbn [fst snd].
      destruct (N.leb_spec (len k) U32_MAX); [|right; intros [[? ?] ?]; lia].
      destruct (N.leb_spec (len v) U32_MAX); [|right; intros [[? ?] ?]; lia].
      destruct (last_opt es0) as [[lk lv]|]; [|left; auto].
      destruct (bytes_ltb lk k); [left; auto | right; intros [_ ?]; discriminate]. }
    destruct Dec as [Hc|Hc].
    + destruct (Hgood Hc) as (w1 & E1 & Hok1 & Hi1). rewrite E1. cbn [bind].
      destruct (IH w1 _ Hok1) as [(w' & E' & Hok' & Hi')|Hp].
      * left. exists w'. rewrite <- app_assoc in Hok'. cbn [app] in Hok'. split; [exact E'|]. split; [exact Hok'|congruence].
      * right. exact Hp.
    + right. rewrite (Hbad Hc). reflexivity.
Qed.

Lemma sorted_strictb_app_inv l1 l2 : sorted_strictb (l1 ++ l2) = true -> sorted_strictb l1 = true.
Proof.
  induction l1 as [|a l1 IH]; [reflexivity|]. destruct l1 as [|b l1]; [reflexivity|].
  cbn [app sorted_strictb]. intro H. apply andb_prop in H. destruct H as [H1 H2].
  rewrite H1. cbn [andb]. apply IH. exact H2.
Qed.

Lemma bw_insert_all_sorted es : forall w es0, bw_ok w es0 ->
  sorted_strictb (map fst (es0 ++ es)) = true -> entries_ok es ->
  exists w', bw_insert_all w es = Done w' /\ bw_ok w' (es0 ++ es) /\ bw_interval w' = bw_interval w.
Proof.
  induction es as [|[k v] es IH]; intros w es0 Hok Hs He; cbn [bw_insert_all].
  - exists w. rewrite app_nil_r. auto.
  - inversion He as [|? ? Hk Hr]; subst.
    destruct (bw_insert_spec w es0 k v Hok) as [Hgood _].
    assert (Hc : entry_ok (k, v) /\ match last_opt es0 with Some (lk, _) => bytes_ltb lk k = true | None => True end).
    { split; [exact Hk|].
      replace (es0 ++ (k, v) :: es) with ((es0 ++ [(k, v)]) ++ es) in Hs by (rewrite <- app_assoc; reflexivity).
      rewrite map_app in Hs. apply sorted_strictb_app_inv in Hs. rewrite map_app in Hs. cbn [map fst] in Hs.
      rewrite sorted_strictb_snoc in Hs. apply andb_prop in Hs. destruct Hs as [_ Hs].
      rewrite last_opt_map in Hs. destruct (last_opt es0) as [[lk lv]|]; [exact Hs | exact I]. }
    destruct (Hgood Hc) as (w1 & E1 & Hok1 & Hi1). rewrite E1. cbn [bind].
    destruct (IH w1 (es0 ++ [(k, v)]) Hok1) as (w' & E' & Hok' & Hi').
    + rewrite <- app_assoc. exact Hs.
    + exact Hr.
    + exists w'. rewrite <- app_assoc in Hok'. split; [exact E'|]. split; [exact Hok'|congruence].
Qed.

(* block-level round trip: strictly ascending entries inserted into a fresh block writer, finished,
   parsed and decoded come back exactly, the estimate being the exact size *)
Theorem block_roundtrip interval es :
  sorted_strictb (map fst es) = true -> entries_ok es -> len (payload_of es) < 2^64 ->
  exists w, bw_insert_all (bw_new interval) es = Done w /\
    (bw_noffsets w <= U32_MAX ->
     exists buf b, bw_finish w = Done buf /\ len buf = bw_size w /\ parse_block buf = Done b /\
       block_entries b = Done (with_starts es 0) /\ offsets_ok interval b (with_starts es 0) = true).
Proof.
  intros Hs He H64.
  destruct (bw_insert_all_sorted es (bw_new interval) [] (bw_new_ok interval) Hs He) as (w & E & Hok & Hi).
  cbn [app] in Hok. exists w. split; [exact E|]. intro Hn.
  assert (Hf : bw_finish w = Done (bw_buf w ++ flat_map (be_bytes 8) (rev (bw_offsets w)) ++ be_bytes 4 (bw_noffsets w))).
  { unfold bw_finish. destruct (N.ltb_spec U32_MAX (bw_noffsets w)); [lia|reflexivity]. }
  eexists. eexists. split; [exact Hf|]. split; [exact (bw_size_exact w es _ Hok Hf)|].
  assert (Hl : bw_len w < 2^64) by (destruct Hok as [Hb Hl' _ _ _ _ _]; rewrite Hl', Hb; exact H64).
  split; [exact (parse_finish w es _ Hok Hl Hf)|].
  split; [apply block_entries_spec; [reflexivity | exact He]|].
  cbn [bw_interval bw_new] in Hi. rewrite <- Hi. apply finished_offsets_ok. exact Hok.
Qed.

Lemma finished_block_layout w es buf :
  bw_ok w es -> bw_finish w = Done buf ->
  buf = payload_of es ++ flat_map (be_bytes 8) (rev (bw_offsets w)) ++ be_bytes 4 (len (rev (bw_offsets w))) /\
  offsets_ok (bw_interval w) (mk_block (payload_of es) (rev (bw_offsets w))) (with_starts es 0) = true.
Proof.
  intros Hok Hf. split; [|apply finished_offsets_ok; exact Hok].
  destruct Hok as [Hb _ _ Hno _ _ _]. unfold bw_finish in Hf.
  destruct (U32_MAX <? bw_noffsets w); [discriminate|]. injection Hf as <-.
  rewrite Hb, Hno. rewrite (len_length (rev _)), rev_length, <- len_length. reflexivity.
Qed.

Lemma finished_block_decodes w es buf :
  bw_ok w es -> bw_len w < 2^64 -> bw_finish w = Done buf ->
  exists b, parse_block buf = Done b /\ block_entries b = Done (with_starts es 0).
Proof.
  intros Hok Hl Hf. eexists. split; [exact (parse_finish w es buf Hok Hl Hf)|].
  apply block_entries_spec; [reflexivity | destruct Hok; assumption].
Qed.
