(* C08: the numeric model n_insert (over which the bounds are proved) is the projection of the
   transcribed Sorter::insert: buffer bookkeeping, number of chunks, ChunkCreator calls and the peak
   number of chunks alive, read off the sorter state and its event log. *)
From Coq Require Import Lia ZArith ZifyN ZifyBool ZifyNat.
From Grenad.gen Require Import Consts.
From Grenad.model Require Import Base Merger Sorter.
From Grenad.proofs Require Import BaseProofs.
Ltac Zify.zify_post_hook ::= Z.div_mod_to_equations.

(* creates (the EvCreate events of the log) is defined with the model: Sorter.creates *)
Fixpoint peak (evs : list sevent) : N :=
  match evs with
  | [] => 0
  | EvCreate :: r => peak r
  | EvSpill n :: r => N.max (peak r) n          (* n chunks alive after the spill *)
  | EvMerge n :: r => N.max (peak r) (n + 1)    (* the n inputs and the output alive together *)
  end.

Definition proj (st : sstate) : nstate :=
  mk_nstate (ss_buf st) (len (ss_chunks st)) (creates (ss_events st)) (peak (ss_events st)).

Lemma proj_new c : proj (s_new c) = n_new c. Proof. reflexivity. Qed.

Theorem s_insert_proj c mf st k v st' : s_insert c mf st k v = Done st' ->
  n_insert c (proj st) (entry_sz k v) = Done (proj st').
Proof.
  unfold s_insert, n_insert. generalize 80%nat. intros fuel H.
  destruct ((U32_MAX <? len k) || (U32_MAX <? len v)); [discriminate|].
  cbn [proj ns_buf ns_chunks ns_creates ns_peak].
  destruct (eb_fits (ss_buf st) (entry_sz k v)) as [fits| |]; cbn [bind] in *; try discriminate.
  destruct (fits || (negb (sc_threshold c <=? eb_L (ss_buf st)) && sc_realloc c)).
  - destruct (eb_insert fuel (ss_buf st) (entry_sz k v)) as [b| |]; cbn [bind] in *; try discriminate.
    injection H as <-. reflexivity.
  - unfold s_write_chunk in H.
    destruct (merge_groups mf (ss_calls st) _) as [[ch calls']| |]; cbn [bind fst snd] in H; try discriminate.
    cbn [ss_buf ss_chunks ss_calls ss_events] in H.
    destruct (eb_insert fuel (mk_ebuf (eb_L (ss_buf st)) 0 0) (entry_sz k v)) as [b| |]; cbn [bind] in *; try discriminate.
    cbn [ss_chunks] in H. rewrite len_app in H. change (len [ch]) with 1 in H.
    destruct (sc_max_chunks c <=? len (ss_chunks st) + 1).
    + unfold s_merge_chunks in H. cbn [ss_calls ss_chunks ss_pending ss_buf ss_events] in H.
      destruct (merge_run mf calls' (ss_chunks st ++ [ch])) as [[m calls'']| |]; cbn [bind fst snd] in H; try discriminate.
      injection H as <-. unfold proj. cbn [ss_buf ss_chunks ss_events creates peak]. rewrite len_app. change (len [ch]) with 1. change (len [m]) with 1.
      f_equal. f_equal; lia.
    + injection H as <-. unfold proj. cbn [ss_buf ss_chunks ss_events creates peak]. rewrite len_app. change (len [ch]) with 1.
      f_equal.
Qed.

Theorem s_inserts_proj c mf : forall ins st st', s_inserts c mf st ins = Done st' ->
  n_inserts c (proj st) (map (fun e => entry_sz (fst e) (snd e)) ins) = Done (proj st').
Proof.
  induction ins as [|[k v] ins IH]; intros st st' H; cbn [s_inserts map n_inserts fst snd] in *.
  - injection H as <-. reflexivity.
  - destruct (s_insert c mf st k v) as [st1| |] eqn:E; cbn [bind] in H; try discriminate.
    rewrite (s_insert_proj c mf st k v st1 E). cbn [bind]. apply IH. exact H.
Qed.
