(* Backbone W, part 1: the bytes the writer hands to a plain sink are the frames of the emitted
   blocks one after the other (u64 BE length + compressed block), each at the offset recorded in the
   emission log, followed by the trailer; hence a block load at a recorded offset returns exactly
   the parse of the emitted block. *)
From Coq Require Import Lia ZArith ZifyN ZifyBool ZifyNat.
From Grenad.gen Require Import Consts.
From Grenad.model Require Import Base Varint Block Trailer Writer Reader Spec Format.
From Grenad.proofs Require Import BaseProofs BlockProofs FormatProofs TrailerProofs ReaderBasics.
Ltac Zify.zify_post_hook ::= Z.div_mod_to_equations.

Arguments w_data {SK} _. Arguments w_idx {SK} _. Arguments w_count {SK} _.
Arguments w_sink {SK} _. Arguments w_log {SK} _. Arguments mk_wstate {SK} _ _ _ _ _.

Section Layout.
  Variable compress : N -> N -> bytes -> outcome bytes.
  Variable decompress : N -> bytes -> outcome bytes.
  Variable c : wcfg.
  Hypothesis codec_ok : forall b z, compress (wc_codec c) (wc_level c) b = Done z -> decompress (wc_codec c) z = Done b.

  Definition frame_bytes (z : bytes) : bytes := be_bytes 8 (len z) ++ z.

  (* the body of the file: frames of the emitted blocks in emission order *)
  Inductive laid_out : list emitted -> bytes -> Prop :=
  | lo_nil : laid_out [] []
  | lo_snoc l f e z : laid_out l f -> compress (wc_codec c) (wc_level c) (em_bytes e) = Done z ->
      em_offset e = len f -> laid_out (l ++ [e]) (f ++ frame_bytes z).

  Definition sink_ok (s : vsink) (lg : list emitted) : Prop :=
    laid_out (rev lg) (vs_bytes s) /\ vs_count s = len (vs_bytes s).

  Lemma vs_bytes_wr s b : vs_bytes (mk_vsink (b :: vs_chunks s) (vs_count s + len b)) = vs_bytes s ++ b.
  Proof. unfold vs_bytes. cbn [vs_chunks rev]. rewrite concat_app. cbn [concat]. rewrite app_nil_r. reflexivity. Qed.

  Lemma cwb_layout s lg w lvl s' w' e :
    cwb vsink vs_wr vs_count compress c s w lvl = Done (s', w', e) -> sink_ok s lg -> sink_ok s' (e :: lg).
  Proof.
    unfold cwb. destruct (bw_finish w) as [buffer| |]; cbn [bind]; try discriminate.
    destruct (compress _ _ buffer) as [z| |] eqn:Ez; cbn [bind]; try discriminate.
    unfold vs_wr. cbn [bind]. intros H [Hl Hc]. injection H as <- <- <-.
    cbn [vs_chunks vs_count]. unfold sink_ok. cbn [rev].
    set (s1 := mk_vsink (be_bytes 8 (len z) :: vs_chunks s) (vs_count s + len (be_bytes 8 (len z)))).
    assert (E1 : vs_bytes s1 = vs_bytes s ++ be_bytes 8 (len z)) by apply vs_bytes_wr.
    assert (E2 : vs_bytes (mk_vsink (z :: vs_chunks s1) (vs_count s1 + len z)) = vs_bytes s1 ++ z) by apply vs_bytes_wr.
    unfold s1 in E2 at 1 2. cbn [vs_chunks vs_count] in E2. rewrite E2, E1. rewrite <- app_assoc.
    split.
    - apply (lo_snoc (rev lg) (vs_bytes s) _ z Hl); cbn [em_bytes em_offset]; [exact Ez|exact Hc].
    - unfold s1. cbn [vs_count]. rewrite !len_app. rewrite Hc. lia.
  Qed.

  (* every entry of a laid-out log can be loaded back from its recorded offset *)
  Lemma laid_out_load l f : laid_out l f -> len f < 2^64 ->
    forall e tail ord, In e l ->
    load_block decompress (f ++ tail) (wc_codec c) ord (em_offset e) = parse_block (em_bytes e).
  Proof.
    induction 1 as [|l f e0 z Hl IH Hz Ho]; intros H64 e tail ord Hin; [destruct Hin|].
    rewrite len_app in H64. unfold frame_bytes in H64. rewrite len_app in H64.
    assert (L8 : len (be_bytes 8 (len z)) = 8) by (rewrite len_length, be_bytes_length; reflexivity).
    apply in_app_or in Hin. destruct Hin as [Hin|[<-|[]]].
    - rewrite <- app_assoc. apply IH; [lia|exact Hin].
    - unfold load_block. rewrite Ho. rewrite <- !app_assoc. rewrite skipnN_app.
      unfold frame_bytes. rewrite <- !app_assoc.
      destruct (N.ltb_spec (len (be_bytes 8 (len z) ++ z ++ tail)) 8) as [Hlt|_]; [rewrite !len_app in Hlt; lia|].
      assert (F1 : firstnN 8 (be_bytes 8 (len z) ++ z ++ tail) = be_bytes 8 (len z)).
      { rewrite <- L8. apply firstnN_app. }
      assert (F2 : skipnN 8 (be_bytes 8 (len z) ++ z ++ tail) = z ++ tail).
      { rewrite <- L8. apply skipnN_app. }
      rewrite F1, F2. rewrite be_decode_bytes.
      change (256 ^ N.of_nat 8) with (2^64). rewrite N.mod_small by lia.
      rewrite firstnN_app. rewrite (codec_ok _ _ Hz). reflexivity.
  Qed.

  Lemma laid_out_offsets l f : laid_out l f ->
    forall e, In e l -> em_offset e + 8 <= len f.
  Proof.
    induction 1 as [|l f e0 z Hl IH Hz Ho]; intros e Hin; [destruct Hin|].
    rewrite len_app. unfold frame_bytes. rewrite len_app.
    assert (L8 : len (be_bytes 8 (len z)) = 8) by (rewrite len_length, be_bytes_length; reflexivity).
    apply in_app_or in Hin. destruct Hin as [Hin|[<-|[]]]; [specialize (IH e Hin); lia|lia].
  Qed.

  (* offsets strictly increase along the log *)
  Lemma laid_out_increasing l f : laid_out l f ->
    forall i j a b, (i < j)%nat -> nth_error l i = Some a -> nth_error l j = Some b -> em_offset a < em_offset b.
  Proof.
    induction 1 as [|l f e0 z Hl IH Hz Ho]; intros i j a b Hij Ea Eb; [destruct i; discriminate|].
    destruct (Nat.lt_ge_cases j (length l)) as [Hj|Hj].
    - rewrite nth_error_app1 in Ea, Eb by lia. exact (IH i j a b Hij Ea Eb).
    - assert (j = length l).
      { assert (nth_error (l ++ [e0]) j <> None) by congruence. apply nth_error_Some in H. rewrite app_length in H. cbn [length] in H. lia. }
      subst j. rewrite nth_error_app2 in Eb by lia. replace (length l - length l)%nat with 0%nat in Eb by lia.
      cbn [nth_error] in Eb. injection Eb as <-. rewrite nth_error_app1 in Ea by lia.
      pose proof (laid_out_offsets l f Hl a (nth_error_In _ _ Ea)). lia.
  Qed.
End Layout.
