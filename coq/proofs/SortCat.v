(* The merge function of the unstable / parallel correspondence runs (mf_sortcat: the bytes of all values, sorted by a
   counting sort) is pure, obeys the flattening law and ignores the order of the values: C07_unstable_sort applies to
   those runs whatever sorted permutation the in-memory sort returns. *)
From Coq Require Import Lia Permutation.
From Grenad.model Require Import Base Merger Sorter.
From Grenad.proofs Require Import SortedFacts MergeRefine SorterRefine SpecProofs.

Definition cnt (b : N) (l : bytes) : nat := length (filter (N.eqb b) l).

Lemma filter_eqb_repeat b l : filter (N.eqb b) l = repeat b (cnt b l).
Proof.
  unfold cnt. induction l as [|x l IH]; [reflexivity|]. cbn [filter]. destruct (N.eqb_spec b x) as [<-|Hne]; [cbn [length repeat]; f_equal; exact IH|exact IH].
Qed.

Lemma sort_bytes_cnt l : sort_bytes l = flat_map (fun b => repeat b (cnt b l)) byte_values.
Proof. unfold sort_bytes. apply flat_map_ext. intro b. apply filter_eqb_repeat. Qed.

Lemma sort_bytes_ext l1 l2 : (forall b, In b byte_values -> cnt b l1 = cnt b l2) -> sort_bytes l1 = sort_bytes l2.
Proof.
  intro H. rewrite !sort_bytes_cnt. induction byte_values as [|b bs IH]; [reflexivity|]. cbn [flat_map].
  rewrite (H b (or_introl eq_refl)). f_equal. apply IH. intros b' Hb'. apply H. right. exact Hb'.
Qed.

Lemma cnt_app b l1 l2 : cnt b (l1 ++ l2) = (cnt b l1 + cnt b l2)%nat.
Proof. unfold cnt. rewrite filter_app, app_length. reflexivity. Qed.

Lemma cnt_repeat b x n : cnt b (repeat x n) = if N.eqb b x then n else 0%nat.
Proof.
  unfold cnt. induction n as [|n IH]; cbn [repeat filter]; [destruct (N.eqb b x); reflexivity|].
  destruct (N.eqb b x); [cbn [length]; f_equal; exact IH|exact IH].
Qed.

Lemma cnt_flat_repeat b (f : N -> nat) : forall bs, NoDup bs ->
  cnt b (flat_map (fun x => repeat x (f x)) bs) = if in_dec N.eq_dec b bs then f b else 0%nat.
Proof.
  induction bs as [|x bs IH]; intro Hnd; [reflexivity|]. inversion Hnd as [|? ? Hx Hr]; subst.
  cbn [flat_map]. rewrite cnt_app, cnt_repeat, (IH Hr).
  destruct (in_dec N.eq_dec b (x :: bs)) as [Hin|Hnin]; destruct (N.eqb_spec b x) as [->|Hne].
  - destruct (in_dec N.eq_dec x bs) as [H|H]; [contradiction|lia].
  - destruct (in_dec N.eq_dec b bs) as [H|H]; [lia|]. destruct Hin as [E|Hin]; [congruence|contradiction].
  - exfalso. apply Hnin. left. reflexivity.
  - destruct (in_dec N.eq_dec b bs) as [H|H]; [exfalso; apply Hnin; right; exact H|lia].
Qed.

Lemma byte_values_NoDup : NoDup byte_values.
Proof. unfold byte_values. apply FinFun.Injective_map_NoDup; [intros a b H; apply Nnat.Nat2N.inj; exact H|apply seq_NoDup]. Qed.

Lemma cnt_sort_bytes b l : In b byte_values -> cnt b (sort_bytes l) = cnt b l.
Proof.
  intro Hb. rewrite sort_bytes_cnt, (cnt_flat_repeat b (fun x => cnt x l) byte_values byte_values_NoDup).
  destruct (in_dec N.eq_dec b byte_values); [reflexivity|contradiction].
Qed.

Lemma cnt_perm b l1 l2 : Permutation l1 l2 -> cnt b l1 = cnt b l2.
Proof. intro H. unfold cnt. induction H; cbn [filter]; try (destruct (N.eqb b x)); try (destruct (N.eqb b y)); cbn [length]; congruence. Qed.

Lemma cnt_concat_perm b (vs vs' : list bytes) : Permutation vs vs' -> cnt b (concat vs) = cnt b (concat vs').
Proof. intro H. induction H; cbn [concat]; rewrite ?cnt_app; lia. Qed.

(* mf_sortcat: pure, flattening law, insensitive to the order of the values *)
Lemma sortcat_flat : forall vss : list (list bytes),
  sort_bytes (concat (map (fun vs => sort_bytes (concat vs)) vss)) = sort_bytes (concat (concat vss)).
Proof.
  intro vss. apply sort_bytes_ext. intros b Hb. induction vss as [|vs vss IH]; [reflexivity|].
  cbn [map concat]. rewrite concat_app, !cnt_app, IH, (cnt_sort_bytes b _ Hb). reflexivity.
Qed.

Lemma sortcat_perm vs vs' : Permutation vs vs' -> sort_bytes (concat vs) = sort_bytes (concat vs').
Proof. intro H. apply sort_bytes_ext. intros b _. apply cnt_concat_perm. exact H. Qed.

Theorem sortcat_runs_meet_the_specification (sortf : list entry -> list entry) :
  (forall l, sorted_leb (sortf l) = true) -> (forall l, Permutation (sortf l) l) ->
  forall c ins out, gsorter_run sortf c mf_sortcat ins = Done out -> sorter_spec mf_sortcat ins = Done out.
Proof.
  intros Hs Hp. apply (sorter_unstable (fun _ vs => sort_bytes (concat vs)) mf_sortcat); [reflexivity| |exact Hs|exact Hp|].
  - intros k vss _ _. apply sortcat_flat.
  - intros k vs vs' H. apply sortcat_perm. exact H.
Qed.
