(* C07 — Sorter output equals sort-and-merge of all inserts, whatever the configuration.
   Statements only.  C07_sorter (at the end) is the statement on the executable transcription of
   sorter.rs (buffer bookkeeping deciding when to spill, write_chunk = stable sort + group + one
   merge call per key, merge_chunks when the chunk count reaches the maximum, final flush and merge):
   for a merge function that is a pure function of (key, values) obeying the flattening law, whatever
   the configuration — hence wherever spills and chunk merges fall — a run that finishes returns
   exactly the specification's output, whose keys are the strictly ascending distinct inserted keys
   and whose values are the merge of each key's values in insertion order (C07_spec).
   C07_any_sort / C07_unstable_sort: the same with the in-memory sort left abstract (gsorter_run sortf is
   the transcribed sorter with sort_by_key replaced by sortf; Sorter.sorter_run is its instance at the
   stable insertion sort): any sort returning a sorted permutation gives the specification's output as
   soon as the merge function does not depend on the order of a key's values — the unstable algorithm
   and the rayon-parallel variants, whatever their scheduling. *)
From Coq Require Import Sorting.Permutation.
From Grenad.model Require Import Base Merger Sorter.
From Grenad.proofs Require Import SpecProofs.

Theorem C07_sort_is_permutation : forall l, Permutation (sort_entries l) l.
Proof. exact sort_entries_perm. Qed.
Print Assumptions C07_sort_is_permutation.

Theorem C07_sort_is_sorted : forall l, sorted_leb (sort_entries l) = true.
Proof. exact sort_entries_sorted. Qed.
Print Assumptions C07_sort_is_sorted.

Example C07_example :
  sorter_run (mk_scfg 64 true 2 16) mf_concat
    [([2], [1]); ([1], [2]); ([2], [3]); ([1], [4]); ([3], [5]); ([2], [6]); ([1], [7])]
  = sorter_spec mf_concat [([2], [1]); ([1], [2]); ([2], [3]); ([1], [4]); ([3], [5]); ([2], [6]); ([1], [7])].
Proof. vm_compute. reflexivity. Qed.

(* ================= the full statement ================= *)
From Coq Require Import Sorted.
From Grenad.proofs Require Import SortedFacts MergeRefine SorterRefine.

Theorem C07_sorter : forall (f : bytes -> list bytes -> bytes) (mf : mergefn),
  (forall ord k vs, mf ord k vs = Done (f k vs)) ->
  (forall k vss, vss <> [] -> Forall (fun vs => vs <> []) vss -> f k (map (f k) vss) = f k (concat vss)) ->
  forall c ins out, sorter_run c mf ins = Done out -> sorter_spec mf ins = Done out.
Proof. exact sorter_run_spec. Qed.
Print Assumptions C07_sorter.

(* the specification's output: strictly ascending keys, exactly the inserted keys, each with the merge
   of its values in insertion order (val_in k ins = the values inserted under k, in order) *)
Theorem C07_spec : forall (f : bytes -> list bytes -> bytes) (mf : mergefn),
  (forall ord k vs, mf ord k vs = Done (f k vs)) ->
  forall ins, exists out, sorter_spec mf ins = Done out /\
    StronglySorted blt (map fst out) /\
    (forall k, In k (map fst out) <-> In k (map fst ins)) /\
    (forall k v, In (k, v) out -> v = f k (val_in k ins)).
Proof. intros f mf Hp ins. exact (sorter_spec_canon f mf Hp ins). Qed.
Print Assumptions C07_spec.

(* merging chunks that are canonical merges of segments gives the canonical merge of the concatenated
   segments: chunk merges are invisible *)
Theorem C07_chunk_merge_invisible : forall (f : bytes -> list bytes -> bytes) (mf : mergefn),
  (forall ord k vs, mf ord k vs = Done (f k vs)) ->
  (forall k vss, vss <> [] -> Forall (fun vs => vs <> []) vss -> f k (map (f k) vss) = f k (concat vss)) ->
  forall segs chunks calls, Forall2 (canon f) segs chunks ->
  exists out, merge_run mf calls chunks = Done (out, calls + len out) /\ canon f (concat segs) out.
Proof. exact merge_canon. Qed.
Print Assumptions C07_chunk_merge_invisible.

(* the flattening law is satisfiable: concatenation of the values (the merge function of the examples
   and of the correspondence) obeys it *)
Example C07_concat_obeys_the_law : forall (k : bytes) (vss : list (list bytes)),
  (fun (_ : bytes) vs => concat vs) k (map ((fun (_ : bytes) vs => concat vs) k) vss) = (fun (_ : bytes) vs => concat vs) k (concat vss).
Proof. intros k vss. cbn beta. induction vss as [|vs vss IH]; [reflexivity|]. cbn [map concat]. rewrite concat_app, IH. reflexivity. Qed.

(* ================= stable or unstable, sequential or parallel =================
   the only facts used about the in-memory sort: it returns a permutation of its input that is sorted by
   key, and the merge function returns the same for a key's values before and after (a stable sort; or
   any sort with an order-insensitive merge function) *)
From Coq Require Import Sorting.Permutation.
From Grenad.proofs Require Import SpecProofs.

Theorem C07_any_sort : forall (f : bytes -> list bytes -> bytes) (mf : mergefn),
  (forall ord k vs, mf ord k vs = Done (f k vs)) ->
  (forall k vss, vss <> [] -> Forall (fun vs => vs <> []) vss -> f k (map (f k) vss) = f k (concat vss)) ->
  forall sortf : list entry -> list entry,
  (forall l, sorted_leb (sortf l) = true) -> (forall l, Permutation (sortf l) l) ->
  (forall k l, f k (val_in k (sortf l)) = f k (val_in k l)) ->
  forall c ins out, gsorter_run sortf c mf ins = Done out -> sorter_spec mf ins = Done out.
Proof. exact sorter_any_sort. Qed.
Print Assumptions C07_any_sort.

Theorem C07_unstable_sort : forall (f : bytes -> list bytes -> bytes) (mf : mergefn),
  (forall ord k vs, mf ord k vs = Done (f k vs)) ->
  (forall k vss, vss <> [] -> Forall (fun vs => vs <> []) vss -> f k (map (f k) vss) = f k (concat vss)) ->
  forall sortf : list entry -> list entry,
  (forall l, sorted_leb (sortf l) = true) -> (forall l, Permutation (sortf l) l) ->
  (forall k vs vs', Permutation vs vs' -> f k vs = f k vs') ->
  forall c ins out, gsorter_run sortf c mf ins = Done out -> sorter_spec mf ins = Done out.
Proof. exact sorter_unstable. Qed.
Print Assumptions C07_unstable_sort.

(* the transcribed sorter is the instance at the stable insertion sort *)
Theorem C07_model_is_the_stable_instance : forall c mf ins, sorter_run c mf ins = gsorter_run sort_entries c mf ins.
Proof. exact gsorter_run_stable. Qed.
Print Assumptions C07_model_is_the_stable_instance.

(* ================= chunks and outputs are valid writer inputs =================
   with ANY merge function (pure or not), every chunk the sorter produces — by a spill or by a chunk
   merge — and its final output have strictly ascending keys: the Writer they are streamed into never
   hits its order assertion (C18) and the file reads back as exactly that list (C01), which is what
   modelling a chunk file by the entries it holds relies on *)
From Grenad.model Require Import Reader Spec.
From Grenad.proofs Require Import SorterChunks.

Theorem C07_chunks_sorted : forall c mf ins st, s_inserts c mf (s_new c) ins = Done st -> Forall ssorted (ss_chunks st).
Proof. exact model_chunks_sorted. Qed.
Print Assumptions C07_chunks_sorted.

Theorem C07_output_sorted : forall c mf ins out, sorter_run c mf ins = Done out -> sorted_strictb (map fst out) = true.
Proof. exact model_output_sorted. Qed.
Print Assumptions C07_output_sorted.

(* the same content by writing into a writer: the sorter's output streamed through a writer of any
   configuration yields a file that opens with that many entries and scans as exactly that output *)
From Grenad.gen Require Import Consts.
From Grenad.model Require Import Block Trailer Writer.
From Grenad.proofs Require Import BlockProofs ReaderRefine WriterStore.

Theorem C07_into_writer : forall c0 mf ins out compress decompress c,
  sorter_run c0 mf ins = Done out ->
  (forall b z, compress (wc_codec c) (wc_level c) b = Done z -> decompress (wc_codec c) z = Done b) ->
  (forall b, exists z, compress (wc_codec c) (wc_level c) b = Done z) ->
  wc_levels c < 256 -> 1 <= wc_interval c -> wc_codec c <= 5 ->
  out <> [] -> entries_ok out -> len out + 1 <= U32_MAX ->
  exists s lg m,
    w_run_gen vsink vs_wr vs_fl vs_count compress c vs_empty out = (len out, Done (s, lg, m)) /\
    (len (vs_bytes s) < 2^64 -> mem_ok lg ->
     open_meta (vs_bytes s) = Done m /\ m_count m = len out /\
     exists st rs, run_ops (load_block decompress (vs_bytes s) (m_codec m)) (m_root m) (m_levels m) cs_fresh
                           (repeat ONext (S (length out))) = Done (st, rs) /\ rs = map Some out ++ [None]).
Proof. exact sorter_into_writer. Qed.
Print Assumptions C07_into_writer.

(* ================= the sorter that really writes and re-reads its chunk files =================
   FileSorter.file_sorter_run is the same sorter with every chunk a FILE: write_chunk and merge_chunks push
   their entries through the Writer model (configuration wc, codec included), merge_chunks and the final
   merge open each chunk file (trailer), put a fresh cursor on it and run the merger over those cursors.
   It returns exactly what the list-level sorter returns, for every sorter and chunk-writer
   configuration, every merge function whose values fit the u32 length limit (pure or not, failing or
   not) and every insert sequence of fewer than 2^32 - 2 entries - unless a chunk file would exceed the
   physical envelope of 2^64 bytes, which the file-level model reports as Fail EFuel.  With C07_sorter
   this gives the property for the sorter over its real chunk storage: "a chunk is the list of entries
   it holds" is a theorem, not a modelling assumption. *)
From Grenad.proofs Require Import MergeCursors FileSorter.

Theorem C07_chunk_files : forall compress decompress wc,
  (forall b z, compress (wc_codec wc) (wc_level wc) b = Done z -> decompress (wc_codec wc) z = Done b) ->
  (forall b, exists z, compress (wc_codec wc) (wc_level wc) b = Done z) ->
  wc_levels wc < 256 -> 1 <= wc_interval wc -> wc_codec wc <= 5 ->
  forall mf : mergefn, (forall n k vs v, mf n k vs = Done v -> len v <= U32_MAX) ->
  forall c ins, len ins + 1 <= U32_MAX ->
  file_sorter_run compress decompress wc c mf ins = Fail EFuel \/
  file_sorter_run compress decompress wc c mf ins = sorter_run c mf ins.
Proof. exact file_sorter_refines. Qed.
Print Assumptions C07_chunk_files.

(* the chunk files handed out at the end (into_reader_cursors) open with the right entry count and present
   exactly the corresponding chunk of the list-level sorter: as a well-formed store with that content (so
   every cursor and iterator theorem applies to them), or as the file of a writer that finished without an
   insert when the chunk is empty *)
Theorem C07_chunk_files_hold_the_chunks : forall compress decompress wc,
  (forall b z, compress (wc_codec wc) (wc_level wc) b = Done z -> decompress (wc_codec wc) z = Done b) ->
  (forall b, exists z, compress (wc_codec wc) (wc_level wc) b = Done z) ->
  wc_levels wc < 256 -> 1 <= wc_interval wc -> wc_codec wc <= 5 ->
  forall mf : mergefn, (forall n k vs v, mf n k vs = Done v -> len v <= U32_MAX) ->
  forall c ins fs1 x, len ins + 1 <= U32_MAX ->
  f_inserts compress decompress wc c mf (f_new c) ins = Done fs1 -> f_finish compress decompress wc mf fs1 = Done x ->
  exists st1 y, s_inserts c mf (s_new c) ins = Done st1 /\ s_finish mf st1 = Done y /\
    fst x = fst y /\
    Forall2 (fun f es => exists m, open_meta f = Done m /\ m_count m = len es /\
                                   store_of (load_block decompress f (m_codec m)) (m_root m) (m_levels m) es) (snd x) (snd y).
Proof. exact file_sorter_chunks. Qed.
Print Assumptions C07_chunk_files_hold_the_chunks.

(* what "presents the entries" gives: a fresh cursor stepped with move_on_next yields exactly them *)
Theorem C07_chunk_file_yields : forall ld root levels es, store_of ld root levels es ->
  yields cstate (rnext ld root levels) cs_fresh es.
Proof. exact store_yields. Qed.
Print Assumptions C07_chunk_file_yields.

(* non-vacuity: codec None, a 3-level chunk writer, a budget that spills on every other insert and merges
   chunks: the file-level run finishes inside the envelope, with the list-level result *)
Example C07_chunk_files_example :
  let wc := mk_wcfg 0 0 16 1 2 in
  let c := mk_scfg 64 false 2 48 in
  let ins := [([3], [1]); ([1], [2]); ([3], [3]); ([2], [4]); ([1], [5]); ([], [6]); ([3], [7])] in
  file_sorter_run compress_none decompress_none wc c mf_concat ins = Done [([], [6]); ([1], [2; 5]); ([2], [4]); ([3], [1; 3; 7])] /\
  sorter_run c mf_concat ins = Done [([], [6]); ([1], [2; 5]); ([2], [4]); ([3], [1; 3; 7])] /\
  (exists st, s_inserts c mf_concat (s_new c) ins = Done st /\ creates (ss_events st) = 5).
Proof. cbv zeta. split; [vm_compute; reflexivity|]. split; [vm_compute; reflexivity|]. eexists. split; vm_compute; reflexivity. Qed.

(* ================= end to end =================
   the sorter that writes every chunk through the writer model, re-opens it and merges it back through cursors,
   with a merge function that is a pure function of (key, values) obeying the flattening law and returning
   values within the u32 length limit: a run that finishes returns exactly the specification's output (C07_spec:
   strictly ascending distinct inserted keys, each with the merge of its values in insertion order), whatever
   the sorter configuration and the configuration (codec, block size, index levels) of its chunk files *)
Theorem C07_end_to_end : forall compress decompress wc,
  (forall b z, compress (wc_codec wc) (wc_level wc) b = Done z -> decompress (wc_codec wc) z = Done b) ->
  (forall b, exists z, compress (wc_codec wc) (wc_level wc) b = Done z) ->
  wc_levels wc < 256 -> 1 <= wc_interval wc -> wc_codec wc <= 5 ->
  forall (f : bytes -> list bytes -> bytes) (mf : mergefn),
  (forall ord k vs, mf ord k vs = Done (f k vs)) ->
  (forall k vss, vss <> [] -> Forall (fun vs => vs <> []) vss -> f k (map (f k) vss) = f k (concat vss)) ->
  (forall k vs, len (f k vs) <= U32_MAX) ->
  forall c ins out, len ins + 1 <= U32_MAX ->
  file_sorter_run compress decompress wc c mf ins = Done out -> sorter_spec mf ins = Done out.
Proof. exact file_sorter_spec. Qed.
Print Assumptions C07_end_to_end.

(* ================= the merge functions of the correspondence =================
   the sorter runs that are compared with the implementation use concatenation (mf_concat) or "join with the
   separator 0x7C" (mf_join: it sees the order of the values and empty values at every position); both are pure
   and obey the flattening law, so C07_sorter applies to exactly those runs: every one that finishes returns
   the specification's output, whatever the configuration *)
From Grenad.proofs Require Import MergeFns.

Theorem C07_concat_runs : forall c ins out, sorter_run c mf_concat ins = Done out -> sorter_spec mf_concat ins = Done out.
Proof. exact concat_runs_meet_the_specification. Qed.
Print Assumptions C07_concat_runs.

Theorem C07_join_runs : forall c ins out, sorter_run c mf_join ins = Done out -> sorter_spec mf_join ins = Done out.
Proof. exact join_runs_meet_the_specification. Qed.
Print Assumptions C07_join_runs.

(* the unstable and the rayon-parallel runs of the correspondence use mf_sortcat (the bytes of all values,
   sorted): pure, flattening, insensitive to the order of a key's values - with ANY in-memory sort returning a
   sorted permutation the run returns the specification's output *)
From Grenad.proofs Require Import SortCat.

Theorem C07_sortcat_runs : forall sortf : list entry -> list entry,
  (forall l, sorted_leb (sortf l) = true) -> (forall l, Permutation (sortf l) l) ->
  forall c ins out, gsorter_run sortf c mf_sortcat ins = Done out -> sorter_spec mf_sortcat ins = Done out.
Proof. exact sortcat_runs_meet_the_specification. Qed.
Print Assumptions C07_sortcat_runs.
