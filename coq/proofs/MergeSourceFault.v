(* C12, an I/O error of a SOURCE inside the merger.  Over any cursor type: if at least one source, after
   yielding some entries, fails its next move with the error e (the others yield their entries and end),
   the merge returns Fail — the error e, or a failure of the merge function that came first — never a
   result and never a panic.  Instantiated with reader cursors over well-formed stores whose loaders fail
   their j-th block load: the merge over the faulty sources is the merge over the plain ones or returns the
   injected error (or the merge function's own failure). *)
From Coq Require Import Lia ZArith ZifyN ZifyBool ZifyNat Sorting.Permutation.
From Grenad.gen Require Import Consts.
From Grenad.model Require Import Base Block Reader Spec Merger IoModel.
From Grenad.proofs Require Import BaseProofs MergerProofs ReaderRefine IoReader MergeCursors.

Section SourceFault.
  Variable S : Type.
  Variable snext : S -> outcome (S * option entry).
  Variable e : err.
  Notation csrc := (csrc S).
  Notation yields := (yields S snext).

  (* the cursor yields the entries l, then its next move fails with e *)
  Fixpoint fails_after (s : S) (l : list entry) : Prop :=
    match l with
    | [] => snext s = Fail e
    | x :: r => exists s', snext s = Done (s', Some x) /\ fails_after s' r
    end.

  Definition Bst (s : S) : Prop := exists l, fails_after s l.
  Definition Dst (s : S) (k : nat) : Prop := exists l, length l = k /\ (yields s l \/ fails_after s l).

  Lemma B_some s s' x : Bst s -> snext s = Done (s', Some x) -> Bst s'.
  Proof.
    intros [l H] E. destruct l as [|y r]; cbn [fails_after] in H.
    - rewrite H in E. discriminate.
    - destruct H as (s1 & E1 & H1). rewrite E1 in E. injection E as <- _. exists r. exact H1.
  Qed.
  Lemma B_none s s' : Bst s -> snext s = Done (s', None) -> False.
  Proof.
    intros [l H] E. destruct l as [|y r]; cbn [fails_after] in H.
    - rewrite H in E. discriminate.
    - destruct H as (s1 & E1 & _). rewrite E1 in E. discriminate.
  Qed.

  Lemma D_cases s k : Dst s k ->
    snext s = Fail e \/
    (exists s', snext s = Done (s', None) /\ k = 0%nat) \/
    (exists s' x k', snext s = Done (s', Some x) /\ k = Datatypes.S k' /\ Dst s' k').
  Proof.
    intros (l & Hl & [H|H]); destruct l as [|x r]; cbn [MergeCursors.yields fails_after length] in *.
    - destruct H as (s' & E). right; left. exists s'. auto.
    - destruct H as (s' & E & H'). right; right. exists s', x, (length r). split; [exact E|]. split; [lia|]. exists r. auto.
    - left. exact H.
    - destruct H as (s' & E & H'). right; right. exists s', x, (length r). split; [exact E|]. split; [lia|]. exists r. auto.
  Qed.

  (* ---- the heap operations permute the heap ---- *)
  Lemma cpop_min_aux_perm l : forall best seen h rest,
    cpop_min_aux S best seen l = (h, rest) -> Permutation (h :: rest) (best :: seen ++ l).
  Proof.
    induction l as [|x l IH]; intros best seen h rest H; cbn [cpop_min_aux] in H.
    - injection H as <- <-. rewrite app_nil_r. reflexivity.
    - destruct (c_lt S x best).
      + apply IH in H. rewrite H. cbn [app].
        transitivity (x :: best :: seen ++ l); [reflexivity|].
        transitivity (best :: x :: seen ++ l); [apply perm_swap|].
        apply perm_skip. apply Permutation_middle.
      + apply IH in H. rewrite H. cbn [app]. apply perm_skip.
        transitivity (x :: seen ++ l); [reflexivity|]. apply Permutation_middle.
  Qed.
  Lemma cpop_min_perm l h rest : cpop_min S l = Some (h, rest) -> Permutation (h :: rest) l.
  Proof.
    destruct l as [|x l]; cbn [cpop_min]; [discriminate|]. intro H. injection H as H.
    apply cpop_min_aux_perm in H. exact H.
  Qed.
  Lemma cpop_equal_perm fk : forall fuel heap acc o h2,
    cpop_equal S fuel fk heap acc = (o, h2) -> Permutation (o ++ h2) (acc ++ heap).
  Proof.
    induction fuel as [|f IH]; intros heap acc o h2 H; cbn [cpop_equal] in H.
    - injection H as <- <-. apply Permutation_app_tail. symmetry. apply Permutation_rev.
    - destruct (cpop_min S heap) as [[h heap']|] eqn:E.
      + destruct (bytes_eqb fk (fst (c_cur S h))).
        * apply IH in H. rewrite H. cbn [app]. rewrite <- (cpop_min_perm _ _ _ E). apply Permutation_middle.
        * injection H as <- <-. apply Permutation_app_tail. symmetry. apply Permutation_rev.
      + injection H as <- <-. apply Permutation_app_tail. symmetry. apply Permutation_rev.
  Qed.

  (* ---- weighted heaps: an element weighs 1 (its current entry) + the entries its cursor still yields ---- *)
  Definition B (h : csrc) : Prop := Bst (c_st S h).
  Inductive HM : list csrc -> nat -> Prop :=
  | HM_nil : HM [] 0
  | HM_cons h heap k n : Dst (c_st S h) k -> HM heap n -> HM (h :: heap) (Datatypes.S k + n).

  Lemma HM_perm a b : Permutation a b -> forall n, HM a n -> HM b n.
  Proof.
    induction 1 as [|x a b _ IH|x y a|a b c _ IH1 _ IH2]; intros n H.
    - exact H.
    - inversion H as [|? ? k m Hd Hm]; subst. constructor; [exact Hd|apply IH; exact Hm].
    - inversion H as [|? ? k m Hd Hm]; subst. inversion Hm as [|? ? k2 m2 Hd2 Hm2]; subst.
      replace (Datatypes.S k + (Datatypes.S k2 + m2))%nat with (Datatypes.S k2 + (Datatypes.S k + m2))%nat by lia.
      constructor; [exact Hd2|]. constructor; [exact Hd|exact Hm2].
    - apply IH2, IH1, H.
  Qed.

  Lemma HM_app a : forall b n, HM (a ++ b) n -> exists n1 n2, HM a n1 /\ HM b n2 /\ n = (n1 + n2)%nat.
  Proof.
    induction a as [|x a IH]; intros b n H; cbn [app] in H.
    - exists 0%nat, n. split; [constructor|]. auto.
    - inversion H as [|? ? k m Hd Hm]; subst. destruct (IH b m Hm) as (n1 & n2 & H1 & H2 & ->).
      exists (Datatypes.S k + n1)%nat, n2. split; [constructor; assumption|]. split; [exact H2|lia].
  Qed.

  Lemma Exists_perm (P : csrc -> Prop) a b : Permutation a b -> Exists P a -> Exists P b.
  Proof.
    intros Hp H. apply Exists_exists in H. destruct H as (x & Hin & Hx). apply Exists_exists. exists x.
    split; [eapply Permutation_in; eassumption|exact Hx].
  Qed.

  (* every popped cursor is advanced: a failing one that has nothing left fails the call *)
  Lemma push_back_fault : forall hs heap n1 n2, HM hs n1 -> HM heap n2 ->
    match cpush_back S snext hs heap with
    | Done heap' => exists n', HM heap' n' /\ (n' + length hs = n1 + n2)%nat /\
                               (Exists B hs \/ Exists B heap -> Exists B heap')
    | Fail x => x = e
    | Panic => False
    end.
  Proof.
    induction hs as [|h r IH]; intros heap n1 n2 H1 H2; cbn [cpush_back].
    - inversion H1; subst. exists n2. split; [exact H2|]. split; [cbn [length]; lia|].
      intros [Hx|Hx]; [inversion Hx|exact Hx].
    - inversion H1 as [|? ? k m Hd Hm]; subst.
      destruct (D_cases _ _ Hd) as [E|[(s' & E & ->)|(s' & x & k' & E & -> & Hd')]]; rewrite E; cbn [bind]; [reflexivity| |].
      + specialize (IH heap m n2 Hm H2). destruct (cpush_back S snext r heap) as [heap'| |]; [|exact IH|exact IH].
        destruct IH as (n' & Hh & Hn & Hb). exists n'. split; [exact Hh|]. split; [cbn [length]; lia|].
        intros [Hx|Hx]; [|apply Hb; right; exact Hx].
        inversion Hx as [? ? Hbh|? ? Hbr]; subst; [exfalso; exact (B_none _ _ Hbh E)|apply Hb; left; exact Hbr].
      + specialize (IH (mk_csrc S (c_idx S h) x s' :: heap) m (Datatypes.S k' + n2)%nat Hm (HM_cons (mk_csrc S (c_idx S h) x s') heap k' n2 Hd' H2)).
        destruct (cpush_back S snext r (mk_csrc S (c_idx S h) x s' :: heap)) as [heap'| |]; [|exact IH|exact IH].
        destruct IH as (n' & Hh & Hn & Hb). exists n'. split; [exact Hh|]. split; [cbn [length]; lia|].
        intros [Hx|Hx]; [|apply Hb; right; right; exact Hx].
        inversion Hx as [? ? Hbh|? ? Hbr]; subst; [|apply Hb; left; exact Hbr].
        apply Hb. right. left. exact (B_some _ _ _ Hbh E).
  Qed.

  Section WithMf.
    Variable mf : mergefn.
    Hypothesis mf_np : forall a k vs, mf a k vs <> Panic.
    Definition mf_fails (x : err) : Prop := exists a k vs, mf a k vs = Fail x.

    Lemma cm_next_fault st n : HM (cm_heap S st) n -> Exists B (cm_heap S st) ->
      match cm_next S snext mf st with
      | Done (st', Some _) => exists n', HM (cm_heap S st') n' /\ (n' < n)%nat /\ Exists B (cm_heap S st')
      | Done (_, None) => False
      | Fail x => x = e \/ mf_fails x
      | Panic => False
      end.
    Proof.
      intros Hm Hb. unfold cm_next.
      destruct (cpop_min S (cm_heap S st)) as [[first heap1]|] eqn:Ep.
      2:{ destruct (cm_heap S st); [inversion Hb|discriminate]. }
      pose proof (cpop_min_perm _ _ _ Ep) as P1.
      destruct (c_cur S first) as [fk fv].
      destruct (cpop_equal S (length heap1) fk heap1 []) as [others heap2] eqn:Eq.
      pose proof (cpop_equal_perm fk _ _ _ _ _ Eq) as P2. cbn [app] in P2.
      destruct (mf (cm_calls S st) fk (fv :: map (fun h => snd (c_cur S h)) others)) as [merged| |x] eqn:Em; cbn [bind].
      2:{ exact (mf_np _ _ _ Em). }
      2:{ right. exists (cm_calls S st), fk, (fv :: map (fun h => snd (c_cur S h)) others). exact Em. }
      assert (P : Permutation (cm_heap S st) ((first :: others) ++ heap2)).
      { rewrite <- P1. cbn [app]. apply perm_skip. symmetry. exact P2. }
      destruct (HM_app _ _ _ (HM_perm _ _ P n Hm)) as (n1 & n2 & H1 & H2 & ->).
      pose proof (push_back_fault (first :: others) heap2 n1 n2 H1 H2) as Hp.
      destruct (cpush_back S snext (first :: others) heap2) as [heap3| |x]; cbn [bind]; [|exact Hp|left; exact Hp].
      destruct Hp as (n' & Hh & Hn & Hbb). cbn [cm_heap]. exists n'. split; [exact Hh|]. split; [cbn [length] in Hn; lia|].
      apply Hbb. apply Exists_app. exact (Exists_perm B _ _ P Hb).
    Qed.

    Lemma cm_all_fault : forall fuel st n, HM (cm_heap S st) n -> Exists B (cm_heap S st) -> (n < fuel)%nat ->
      exists x, cm_all S snext mf fuel st = Fail x /\ (x = e \/ mf_fails x).
    Proof.
      induction fuel as [|f IH]; intros st n Hm Hb Hn; [lia|]. cbn [cm_all].
      pose proof (cm_next_fault st n Hm Hb) as Hc.
      destruct (cm_next S snext mf st) as [[st' [kv|]]| |x]; cbn [bind]; [|contradiction|contradiction|exists x; auto].
      destruct Hc as (n' & Hm' & Hlt & Hb'). destruct (IH st' n' Hm' Hb' ltac:(lia)) as (x & E & Hx).
      rewrite E. cbn [bind]. exists x. auto.
    Qed.

    (* a source descriptor: (true, l) = yields l then fails with e; (false, l) = yields l and ends *)
    Definition srcdesc (s : S) (d : bool * list entry) : Prop :=
      if fst d then fails_after s (snd d) else yields s (snd d).
    Definition tot (ds : list (bool * list entry)) : nat := fold_right (fun d a => (length (snd d) + a)%nat) 0%nat ds.

    Lemma cm_init_fault : forall srcs ds i, Forall2 srcdesc srcs ds ->
      match cm_init S snext srcs i with
      | Done heap => exists n, HM heap n /\ (n <= tot ds)%nat /\ (existsb fst ds = true -> Exists B heap)
      | Fail x => x = e
      | Panic => False
      end.
    Proof.
      induction srcs as [|s srcs IH]; intros ds i H; inversion H as [|? d ? ds' Hd Hr]; subst; cbn [cm_init].
      - exists 0%nat. split; [constructor|]. split; [cbn; lia|]. cbn. discriminate.
      - specialize (IH ds' (N.succ i) Hr). destruct d as [b l]. unfold srcdesc in Hd. cbn [fst snd] in Hd. cbn [tot fold_right existsb fst snd].
        destruct b; destruct l as [|x r]; cbn [fails_after MergeCursors.yields] in Hd.
        + rewrite Hd. reflexivity.
        + destruct Hd as (s' & E & Hf). rewrite E. cbn [bind].
          destruct (cm_init S snext srcs (N.succ i)) as [rest| |]; cbn [bind]; [|exact IH|exact IH].
          destruct IH as (n & Hm & Hn & Hb). exists (Datatypes.S (length r) + n)%nat.
          split; [constructor; [exists r; auto|exact Hm]|]. split; [cbn [length]; fold (tot ds'); lia|].
          intros _. left. exists r. exact Hf.
        + destruct Hd as (s' & E). rewrite E. cbn [bind].
          destruct (cm_init S snext srcs (N.succ i)) as [rest| |]; cbn [bind]; [|exact IH|exact IH].
          destruct IH as (n & Hm & Hn & Hb). exists n. split; [exact Hm|]. split; [fold (tot ds'); cbn [length]; lia|exact Hb].
        + destruct Hd as (s' & E & Hy). rewrite E. cbn [bind].
          destruct (cm_init S snext srcs (N.succ i)) as [rest| |]; cbn [bind]; [|exact IH|exact IH].
          destruct IH as (n & Hm & Hn & Hb). exists (Datatypes.S (length r) + n)%nat.
          split; [constructor; [exists r; auto|exact Hm]|]. split; [cbn [length]; fold (tot ds'); lia|].
          intro Hx. right. apply Hb. exact Hx.
    Qed.

    Theorem cm_run_source_fault calls fuel srcs ds :
      Forall2 srcdesc srcs ds -> existsb fst ds = true -> (tot ds < fuel)%nat ->
      exists x, cm_run S snext mf calls fuel srcs = Fail x /\ (x = e \/ mf_fails x).
    Proof.
      intros H Hb Hf. unfold cm_run. pose proof (cm_init_fault srcs ds 0 H) as Hi.
      destruct (cm_init S snext srcs 0) as [heap| |x]; cbn [bind]; [|contradiction|exists x; auto].
      destruct Hi as (n & Hm & Hn & Hbb).
      exact (cm_all_fault fuel (mk_cmstate S heap calls) n Hm (Hbb Hb) ltac:(lia)).
    Qed.
  End WithMf.
End SourceFault.

(* ---- reader cursors whose loader fails its j-th block load ---- *)
Notation INJ := (EIo IO_INJECTED).

Lemma faulty_yields ld j root levels : forall l st,
  yields cstate (rnext ld root levels) st l ->
  yields cstate (rnext (faulty_load ld j) root levels) st l \/
  exists p, (length p <= length l)%nat /\ fails_after cstate (rnext (faulty_load ld j) root levels) INJ st p.
Proof.
  induction l as [|x r IH]; intros st H; cbn [yields] in H.
  - destruct H as (s' & E). unfold rnext in E. destruct (reader_fault_step ld j root levels st ONext s' None E) as (M & Q & F).
    destruct (N.lt_ge_cases j (cs_loads st)) as [H1|H1]; [left; exists s'; unfold rnext; apply Q; lia|].
    destruct (N.le_gt_cases (cs_loads s') j) as [H2|H2]; [left; exists s'; unfold rnext; apply Q; lia|].
    right. exists []. split; [lia|]. cbn [fails_after]. unfold rnext. apply F. lia.
  - destruct H as (s' & E & Hy). unfold rnext in E. destruct (reader_fault_step ld j root levels st ONext s' (Some x) E) as (M & Q & F).
    assert (Hcase : cstep (faulty_load ld j) root levels st ONext = Done (s', Some x) \/
                    cstep (faulty_load ld j) root levels st ONext = Fail INJ).
    { destruct (N.lt_ge_cases j (cs_loads st)) as [H1|H1]; [left; apply Q; lia|].
      destruct (N.le_gt_cases (cs_loads s') j) as [H2|H2]; [left; apply Q; lia|right; apply F; lia]. }
    destruct Hcase as [Ed|Ef].
    + destruct (IH s' Hy) as [Hl|(p & Hp & Hf)].
      * left. cbn [yields]. exists s'. split; [exact Ed|exact Hl].
      * right. exists (x :: p). split; [cbn [length]; lia|]. cbn [fails_after]. exists s'. split; [exact Ed|exact Hf].
    + right. exists []. split; [cbn [length]; lia|]. exact Ef.
Qed.

Lemma fails_rsrc ld root levels e : forall l st, fails_after cstate (rnext ld root levels) e st l ->
  fails_after rsrc rsnext e (mk_rsrc ld root levels st) l.
Proof.
  induction l as [|x l IH]; intros st H; cbn [fails_after] in *.
  - unfold rsnext. cbn [r_ld r_root r_levels r_st]. unfold rnext in H. rewrite H. reflexivity.
  - destruct H as (s' & E & H'). exists (mk_rsrc ld root levels s'). split; [|apply IH; exact H'].
    unfold rsnext. cbn [r_ld r_root r_levels r_st]. unfold rnext in E. rewrite E. reflexivity.
Qed.

(* s' is s with a loader that may fail one of its loads *)
Definition faulted (s s' : rsrc) : Prop :=
  r_root s' = r_root s /\ r_levels s' = r_levels s /\ r_st s' = r_st s /\
  (r_ld s' = r_ld s \/ exists j, r_ld s' = faulty_load (r_ld s) j).

Lemma faulted_source s s' es : reader_source s es -> faulted s s' ->
  yields rsrc rsnext s' es \/ exists p, (length p <= length es)%nat /\ fails_after rsrc rsnext INJ s' p.
Proof.
  intros (Hf & bs & W & Ec) (Er & El & Es & Hld). destruct s as [ld root levels st]. destruct s' as [ld' root' levels' st'].
  cbn [r_ld r_root r_levels r_st] in *. subst root' levels' st' st.
  pose proof (fresh_cursor_yields_content ld root levels bs W) as Y. rewrite Ec in Y.
  destruct Hld as [->|(j & ->)].
  - left. apply yields_rsrc. exact Y.
  - destruct (faulty_yields ld j root levels es cs_fresh Y) as [Hy|(p & Hp & Hfa)].
    + left. apply yields_rsrc. exact Hy.
    + right. exists p. split; [exact Hp|]. apply fails_rsrc. exact Hfa.
Qed.

Theorem merge_source_fault mf calls srcs srcs' ess :
  (forall a k vs, mf a k vs <> Panic) ->
  Forall2 reader_source srcs ess -> Forall2 faulted srcs srcs' ->
  cm_run rsrc rsnext mf calls (Datatypes.S (total_len ess)) srcs' = merge_run mf calls ess \/
  exists x, cm_run rsrc rsnext mf calls (Datatypes.S (total_len ess)) srcs' = Fail x /\
            (x = INJ \/ mf_fails mf x).
Proof.
  intros Hnp Hs Hf.
  assert (G : Forall2 (yields rsrc rsnext) srcs' ess \/
              exists ds, Forall2 (srcdesc rsrc rsnext INJ) srcs' ds /\ existsb fst ds = true /\ (tot ds <= total_len ess)%nat).
  { revert srcs' Hf. induction Hs as [|s es srcs ess Hrs _ IH]; intros srcs' Hf; inversion Hf as [|? s' ? srcs1 Hfs Hfr]; subst.
    - left. constructor.
    - destruct (faulted_source s s' es Hrs Hfs) as [Hy|(p & Hp & Hfa)]; destruct (IH srcs1 Hfr) as [Hall|(ds & Hd & Hb & Ht)].
      + left. constructor; assumption.
      + right. exists ((false, es) :: ds). split; [constructor; [exact Hy|exact Hd]|]. split; [cbn; exact Hb|].
        cbn [tot total_len fold_right snd]. fold (tot ds). fold (total_len ess). lia.
      + right. exists ((true, p) :: map (fun l => (false, l)) ess).
        split; [constructor; [exact Hfa|]|].
        { clear - Hall. induction Hall as [|a b la lb H _ IH]; cbn [map]; constructor; [exact H|exact IH]. }
        split; [reflexivity|]. cbn [tot total_len fold_right snd]. fold (total_len ess).
        assert (E : tot (map (fun l : list entry => (false, l)) ess) = total_len ess).
        { clear. induction ess as [|l ess IH]; [reflexivity|]. cbn [map tot total_len fold_right snd] in *. fold (total_len ess). unfold tot in IH. rewrite IH. reflexivity. }
        unfold tot in E. rewrite E. lia.
      + right. exists ((true, p) :: ds). split; [constructor; [exact Hfa|exact Hd]|]. split; [reflexivity|].
        cbn [tot total_len fold_right snd]. fold (tot ds). fold (total_len ess). lia. }
  destruct G as [Hall|(ds & Hd & Hb & Ht)].
  - left. apply cm_run_lists. exact Hall.
  - right. exact (cm_run_source_fault rsrc rsnext INJ mf Hnp calls (Datatypes.S (total_len ess)) srcs' ds Hd Hb ltac:(lia)).
Qed.
