(* C05 — Prefix iterators yield exactly the entries sharing the prefix, in order.  Statements only. *)
From Grenad.model Require Import Base Block Reader Spec Iter.
From Grenad.proofs Require Import IterProofs SpecProofs.

(* advance_key (the popping loop of prefix_iter.rs): None exactly for prefixes made only of 0xFF
   bytes (incl. the empty prefix); otherwise the successor s is such that every key with the
   prefix is < s, and every key in [prefix, s) has the prefix — the keys sharing the prefix are
   exactly the half-open interval [p, s) *)
Theorem C05_advance_key_spec : forall p, wf_bytes p ->
  (advance_key p = None <-> all255 p) /\
  (forall s, advance_key p = Some s -> forall k, wf_bytes k ->
     (starts_with k p = true -> bytes_ltb k s = true) /\
     (bytes_ltb k s = true -> bytes_leb p k = true -> starts_with k p = true)).
Proof. exact advance_key_spec. Qed.
Print Assumptions C05_advance_key_spec.

Theorem C05_prefix_keys_not_below_prefix : forall k p, starts_with k p = true -> bytes_leb p k = true.
Proof. exact starts_with_ge. Qed.
Print Assumptions C05_prefix_keys_not_below_prefix.

(* the specification the iterators are compared with is the plain filter *)
Theorem C05_prefix_spec_is_filter : forall es p e,
  In e (prefix_spec es p) <-> In e es /\ starts_with (fst e) p = true.
Proof. exact prefix_spec_in. Qed.
Print Assumptions C05_prefix_spec_is_filter.

Example C05_advance_examples :
  advance_key [1; 255; 255] = Some [2] /\ advance_key [255; 255] = None /\ advance_key [] = None /\
  advance_key [0; 7] = Some [0; 8].
Proof. vm_compute. repeat split; reflexivity. Qed.
