"""Per-property configuration of ./check: the props file holding the theorems, the harness
scenarios of the correspondence, what is trusted, what is not proved."""

ALLOWED_AXIOMS = {
    # standard-library axioms that may appear (named in the evidence when they do)
    "functional_extensionality_dep", "proof_irrelevance", "classic", "JMeq_eq", "Eq_rect_eq", "eq_rect_eq",
}

TRUSTED_BASE = [
    "Coq 8.16.1 kernel (coqc full .vo builds; vm_compute for Examples; no native_compute; coqchk in the thorough tier)",
    "hand-written Gallina model of grenad (coq/model/*.v): the theorems are about the model, tied to /repo by (a) constants re-extracted from /repo/src into coq/gen/Consts.v on every run (tools/extract_consts.py, regular expressions) and (b) differential execution of the extracted model against the implementation on the cases of this run",
    "extraction: Extraction Language OCaml with ExtrOcamlBasic only (Extract Inductive bool/option/unit/list/prod/sumbool/sumor, Extract Inlined Constant for their projections and connectives as that file declares); no Extract Constant/Inductive of our own; N/positive/nat/comparison stay inductive",
    "OCaml driver ocaml/driver.ml (hex parsing, int<->N conversion, comparison and printing) and the Rust harness /verif/harness (generators, instrumented sinks/sources, catch_unwind)",
]

PROPS = {
    "C14": {
        "prop_file": "props/C14.v",
        "scenarios": [{"name": "C14"}],
        "thorough_scenarios": [{"name": "C14-sweep", "no_driver": True, "timeout": 1200}],
        "rule": "values: every 2^k +-64 neighbourhood of the framing boundaries (k=7,14,21,28,32), +-2 around every other power of two, plus values stratified uniformly over bit lengths, each with random trailing bytes; non-trivial = distinct value >= 128 (multi-byte encoding); thorough adds the implementation-side sweep of all 2^32 values against the statement",
        "trusted": ["varint functions reached through the cfg(grenad_verif) re-export grenad::verif::{varint_encode32, varint_decode32}"],
        "assumptions": ["u32 arithmetic is modelled as N with explicit mod 2^32 / mod 256 truncations"],
        "not_proved": [],
    },
}

PROPS.update({
    "C13": {
        "prop_file": "props/C13.v",
        "scenarios": [{"name": "open-c13"}],
        "rule": "byte strings: every truncation (crash point) of small generated files and the last 80 of larger ones, single-byte corruptions of the 22 trailer bytes, every length 4..30 x codec byte 0..7 x both magics, all strings of length <=3 over a 6-symbol alphabet followed by a magic, random strings of length 0..64; distinct by the last 64 bytes; non-trivial = at least 4 bytes long (the magic can be read)",
        "trusted": ["std::io::Cursor semantics of SeekFrom::End and read_exact as modelled in Trailer.v (seek_end, read_exact_at)"],
        "assumptions": ["the source is an in-memory byte string (Cursor<&[u8]>); other Read+Seek sources may report different io::ErrorKind for a negative seek"],
        "not_proved": [],
    },
    "C10": {
        "prop_file": "props/C10.v",
        "scenarios": [{"name": "hist-c10"}],
        "rule": "single-level files of every codec/block size/interval, each re-trailed with a hand-assembled 21-byte V1 trailer; the same random cursor history is run on the V1 and V2 variants and compared with the model and with the sorted-list specification; non-trivial = file with >= 2 entries and >= 2 operations, distinct by file+history hash",
        "trusted": [],
        "assumptions": ["functional_extensionality_dep (Coq standard library axiom) is used by C10_cursor_depends_on_loader_only"],
        "not_proved": ["C10_v1_same_results (every scan/seek/range/prefix result on a V1 file equals the V2 result) is reduced to C10_load_ignores_trailer + C10_cursor_depends_on_loader_only + 'every offset the cursor loads lies inside the body', the last of which needs the reader refinement R (DESIGN 4) and is so far validated by the correspondence only"],
    },
})

FILE_RULE = "writer configurations: codec in all six (level 0..u32::MAX, zstd <= 19), block size through the public clamped setter {0,1,1023,1024,1025,2048,8192,...} and 16..256 through the unclamped hook, index interval {default,1,2,3,8,random<=64}, index levels {0,1,2,3,4,7,254,255} (+ sweep), 0..400 entries with keys over a 4-symbol alphabet incl. the empty key, 0xFF runs, boundary lengths 127/128/16383/16384, values from empty to larger than a block; non-trivial = file with more blocks than index levels + 2, distinct by file bytes"
PROPS.update({
    "C01": {
        "prop_file": "props/C01.v",
        "scenarios": [{"name": "file-c01", "timeout": 1200}],
        "rule": FILE_RULE,
        "trusted": ["codec crates (snap, flate2, lz4_flex, zstd): the model's compress/decompress are the table of (uncompressed, compressed) block pairs the codec produced in this run, each checked to decompress back"],
        "assumptions": [],
        "not_proved": ["C01_roundtrip for whole files (w_run cfg es = Done f /\\ scans of f = es, rev es): the block level (C01_block_roundtrip) and the trailer (C01_open_reports_trailer) are proved; the multi-level tree invariant W of the writer and the cursor refinement R are proved only on the abstract models of design-notes/{WriterTree,Chain,CeilIndex}_probe.v and are tied to the executable model by the correspondence (byte-exact file comparison, scans through model and implementation) rather than by a Coq refinement proof"],
    },
    "C09": {
        "prop_file": "props/C09.v",
        "scenarios": [{"name": "file-c09", "timeout": 1200}],
        "rule": FILE_RULE + "; each file is also read by the frozen grenad 0.4.7 reader, and the same inputs are written by the 0.4.7 writer (codecs both versions support) and read by the current reader and the model",
        "trusted": ["grenad 0.4.7 from the offline cargo registry as the frozen peer", "codec crates via the per-run compression table"],
        "assumptions": [],
        "not_proved": ["C09_format for whole files (the index tree: every index level maps the last key of each child to the child's offset; frames tile the body): proved for each block (C09_block_layout, C09_block_decodes) and for the trailer (C09_trailer_layout); the tree shape is proved on the abstract writer of design-notes/WriterTree_probe.v and checked on every generated file by the extracted independent decoder Format.decode_file"],
    },
    "C15": {
        "prop_file": "props/C15.v",
        "scenarios": [{"name": "file-c15", "timeout": 1200}],
        "rule": FILE_RULE + "; plus block sizes around the clamp {0,1,1023,1024,1025,2048} with entries sized to land the estimate on B-1, B, B+1",
        "trusted": [],
        "assumptions": [],
        "not_proved": ["C15_cut for whole writer runs (every data block and every index block of level >= 2 is emitted exactly when its estimate reaches B): the estimate is proved exact (C15_size_exact) and its growth per insert bounded (C15_growth); the invariant 'pending blocks stay below B' over Writer::insert's cascade is checked per emitted block of every generated file (predicates Format.size_without_last / block_size_of on the implementation's own blocks) but not yet proved in Coq"],
    },
    "C18": {
        "prop_file": "props/C18.v",
        "scenarios": [{"name": "file-c18", "timeout": 1200}],
        "rule": "mostly sorted insert sequences with one defect (duplicate next to its predecessor, adjacent inversion, jump back to the first key, repeated earlier entry, empty key in the middle) or none, under the writer configurations of C01 incl. tiny unclamped blocks and up to 4 index levels; non-trivial = the writer panicked or the file has more blocks than levels + 2",
        "trusted": [],
        "assumptions": [],
        "not_proved": ["lifting of C18_block_sorted_or_panic to whole writer runs (every block writer inside Writer, data and index, is only ever fed through bw_insert and reset): checked on every emitted block of every generated file, not yet proved in Coq"],
    },
})

NOT_APPLICABLE = {}

MANIFEST_TEXT = {
    "C01": {
        "text": "Proved for all inputs: block-level round trip (C01_block_roundtrip: insert, finish, parse, decode returns exactly the entries in order, for any strictly ascending entries of any lengths) and the trailer round trip (C01_open_reports_trailer). The whole-file composition is tied to the code by a byte-exact executable model: every run compares the model writer's file with the real writer's byte for byte for all six codecs, and full forward/backward scans through implementation, model reader and specification.",
        "design_ref": "DESIGN.md §5 C01, §4 (W, R)",
        "note": "Partial proof (see evidence.not_proved): whole-file theorem not yet composed. Trusted: kernel; transcription of writer.rs/block*.rs/reader_cursor.rs validated by correspondence; codec crates via per-run compression table; extraction, driver, harness. Axioms: none.",
        "technique": "Rocq proof (induction over inserts: block writer invariant, parse/decode inversion) + byte-exact model/implementation differential execution",
    },
    "C09": {
        "text": "Proved: the layout of every finished block (varint-framed entries, u64 BE offset table with first 0 and one slot per interval, u32 BE count: C09_block_layout), that an independent decoder recovers its entries (C09_block_decodes) and the 22-byte LE trailer layout with magic 0x6723D4C4 (C09_trailer_layout, C09_constants over re-extracted constants). Every run: model file = implementation file byte for byte, the extracted independent tree decoder recovers the inputs, the frozen grenad 0.4.7 reader recovers them, and files written by the 0.4.7 writer are read back by the current reader and the model.",
        "design_ref": "DESIGN.md §5 C09",
        "note": "Partial proof (tree-level clause validated, not proved). Trusted: kernel; grenad 0.4.7 as frozen peer; codec crates; extraction, driver, harness. Axioms: none.",
        "technique": "Rocq proof (format lemmas per block and trailer) + independent extracted decoder + 0.4.7 interop matrix by differential execution",
    },
    "C15": {
        "text": "Proved: the size estimate is the exact uncompressed size of the finished block for every reachable block-writer state (C15_size_exact), one insert grows it by the framed entry plus at most one 8-byte slot (C15_growth), the clamp is max(1024, s) (C15_constants). Every run evaluates the two cut clauses (size without last entry < B; every non-last block of its level >= B) on every emitted data block and index block of level >= 2 of every generated file, and compares emitted bytes with the model.",
        "design_ref": "DESIGN.md §5 C15",
        "note": "Partial proof (cascade invariant validated, not proved). Trusted: kernel; transcription validated by correspondence; extraction, driver, harness. Axioms: none.",
        "technique": "Rocq proof (size exactness, growth bound) + per-block cut predicates evaluated on implementation output + byte-exact model comparison",
    },
    "C18": {
        "text": "Proved for every insert sequence: a block writer either panics or holds exactly the inserted entries with strictly ascending keys (C18_block_sorted_or_panic), panicking exactly at the first key not above the last key (C18_panic_point); decoded finished blocks are sorted (C18_finished_block_sorted). Every run: mostly-sorted sequences with planted defects through implementation and model (same panic index or byte-identical file) and sortedness of every emitted block.",
        "design_ref": "DESIGN.md §5 C18",
        "note": "Partial proof (lifting to all block writers inside Writer validated, not proved). Trusted: kernel; transcription validated by correspondence; extraction, driver, harness. Axioms: none.",
        "technique": "Rocq proof (invariant by induction over inserts, dichotomy) + model/implementation differential execution on defective insert sequences",
    },
    "C13": {
        "text": "Theorems C13_no_panic and C13_open_iff prove for EVERY byte string that the transcribed Metadata::read_from never panics and succeeds exactly when the string ends in a complete V1/V2 trailer with a known codec id (literals of the property text, tied to the code's constants by C13_constants over the re-extracted Consts.v); C13_truncations instantiates it at every crash point. The transcription is validated every run against Reader::new on all truncations/corruptions/short strings generated.",
        "design_ref": "DESIGN.md §5 C13",
        "note": "Trusted: Coq kernel; std::io::Cursor seek/read_exact semantics as modelled; the transcription of metadata.rs (validated by the correspondence); extraction, driver, harness. Axioms: none.",
        "technique": "Rocq proof (exhaustive case analysis of the trailer reader over arbitrary byte strings) + model/implementation differential execution",
    },
    "C10": {
        "text": "C10_v1_open proves that the 21-byte V1 trailer of the property text opens as version 1 with the stored count/codec and index_levels 0 for every body; C10_load_ignores_trailer and C10_cursor_depends_on_loader_only prove that block loads inside the body and hence all cursor results cannot depend on which trailer follows. The remaining step (all loaded offsets lie inside the body) is validated by running identical histories on V1 and V2 variants of generated files through implementation, model and specification.",
        "design_ref": "DESIGN.md §5 C10",
        "note": "Partial proof: see not_proved in the evidence. Axiom: functional_extensionality_dep (stdlib). Trusted: kernel, transcription of metadata.rs/reader_cursor.rs (validated by correspondence), extraction, driver, harness.",
        "technique": "Rocq proof (trailer layout, frame locality) + model/implementation/specification differential execution on V1 vs V2 files",
    },
    "C14": {
        "text": "Theorems C14_varint / C14_varint_no_panic / C14_lengths prove, for all 2^32 lengths and arbitrary trailing bytes, that the transcribed varint_encode32/varint_decode32 round-trip in 1..5 bytes consuming exactly those bytes (base-128 digit arithmetic, no enumeration). The transcription is tied to src/varint.rs by running both on boundary neighbourhoods and stratified random values every run (thorough: all 2^32 values through the implementation against the statement).",
        "design_ref": "DESIGN.md §5 C14",
        "note": "Trusted: Coq kernel; the hand transcription of varint.rs (validated by the correspondence); extraction + OCaml driver; the harness. Axioms: none (Closed under the global context).",
        "technique": "Rocq proof (induction-free arithmetic on base-128 digits) + model/implementation differential execution",
    },
}
