(* C07 — Sorter output equals sort-and-merge of all inserts, whatever the configuration.
   Statements only.  Proved so far on the executable model: the in-memory sort used by write_chunk is
   a sorted permutation of the pending entries.  The independence of the output from where spills
   and chunk merges happen (chunks_merge / merge_of_merges) is proved on the abstract model of
   design-notes/SorterMerge_probe.v and validated here on every generated case through all three
   output paths, both sort algorithms, sequential and parallel sorting. *)
From Coq Require Import Sorting.Permutation.
From Grenad.model Require Import Base Merger Sorter.
From Grenad.proofs Require Import SpecProofs.

Theorem C07_sort_is_permutation : forall l, Permutation (sort_entries l) l.
Proof. exact sort_entries_perm. Qed.
Print Assumptions C07_sort_is_permutation.

Theorem C07_sort_is_sorted : forall l, sorted_leb (sort_entries l) = true.
Proof. exact sort_entries_sorted. Qed.
Print Assumptions C07_sort_is_sorted.

Example C07_example :
  sorter_run (mk_scfg 64 true 2 16) mf_concat
    [([2], [1]); ([1], [2]); ([2], [3]); ([1], [4]); ([3], [5]); ([2], [6]); ([1], [7])]
  = sorter_spec mf_concat [([2], [1]); ([1], [2]); ([2], [3]); ([1], [4]); ([3], [5]); ([2], [6]); ([1], [7])].
Proof. vm_compute. reflexivity. Qed.
