(* Extraction of the executable model to OCaml for the correspondence driver.
   ExtrOcamlBasic only: bool, option, unit, list, prod, sumbool, sumor map to OCaml's own
   types; N, positive, nat, comparison stay the inductive types Coq defines. No
   Extract Constant / Extract Inductive directives of our own. *)
From Coq Require Extraction ExtrOcamlBasic.
From Grenad.gen Require Import Consts.
From Grenad.model Require Import Base Varint Block Trailer Writer Reader Spec Iter Format Merger Sorter IoModel StoreCheck.
Extraction Language OCaml.
Extraction "model.ml"
  Base.len Base.lex_compare Base.bytes_ltb Base.bytes_leb Base.bytes_eqb Base.starts_with
  Base.le_bytes Base.be_bytes Base.le_decode Base.be_decode
  Varint.varint_encode32 Varint.varint_decode32 Varint.varint_length_packed
  Block.bw_new Block.bw_insert Block.bw_finish Block.bw_size Block.parse_block Block.entry_at Block.bc_move
  Block.bc_current Block.bc_new Block.frame
  Trailer.open_meta Trailer.trailer_bytes Trailer.valid_trailer_suffixb
  Writer.w_run Writer.clamp_block_size Writer.compress_none
  Reader.cstep Reader.cs_fresh Reader.load_block Reader.decompress_none Reader.mrun
  Spec.aspec Spec.amrun Spec.range_spec Spec.prefix_spec Spec.sorted_strictb Spec.ceil_idx Spec.floor_idx Spec.find_idx
  Iter.range_next Iter.rev_range_next Iter.prefix_next Iter.rev_prefix_next Iter.collect Iter.iter_new Iter.advance_key
  Format.decode_file Format.block_entries Format.block_size_of Format.size_without_last Format.block_sorted Format.offsets_ok
  Merger.merge_run Merger.mf_concat Merger.mf_sortcat Merger.mf_join Merger.mf_fail_at Merger.merge_next Merger.init_heap
  Sorter.s_new Sorter.s_insert Sorter.s_finish Sorter.sorter_run Sorter.sorter_spec Sorter.clamp_threshold
  Sorter.clamp_chunks Sorter.default_capacity Sorter.round_up Sorter.n_new Sorter.n_insert Sorter.n_finish
  Sorter.fs_run Sorter.cr_fail_at Sorter.cr_never Sorter.fs_insert_r Sorter.fs_finish Sorter.creates
  IoModel.w_run_sched IoModel.w_run_fault IoModel.faulty_load IoModel.sk_bytes IoModel.load_block_sched
  StoreCheck.store_wf.
