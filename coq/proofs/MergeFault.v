(* C12, the merge function: with a merge function that fails its j-th call (calls are numbered by the
   merger's / sorter's call counter), every public call that does not reach call j is unchanged and the
   call during which call j happens returns exactly the merge error. *)
From Coq Require Import Lia ZArith ZifyN ZifyBool ZifyNat.
From Grenad.model Require Import Base Merger Sorter.
From Grenad.proofs Require Import BaseProofs.
Ltac Zify.zify_post_hook ::= Z.div_mod_to_equations.

Section MergeFault.
  Variable mf : mergefn.
  Variable j : N.
  Notation fmf := (mf_fail_at j mf).
  Notation ERR := (Fail EMerge).

  Definition agrees {A} (cnt : A -> N) (n : N) (good bad : outcome A) : Prop :=
    match good with
    | Done a => n <= cnt a /\ (j < n \/ cnt a <= j -> bad = Done a) /\ (n <= j < cnt a -> bad = ERR)
    | _ => True
    end.

  Lemma agrees_same {A} (cnt : A -> N) n (o : outcome A) : (forall a, o = Done a -> cnt a = n) -> agrees cnt n o o.
  Proof. intro H. unfold agrees. destruct o as [a| |]; auto. specialize (H a eq_refl). split; [lia|]. split; [auto|lia]. Qed.

  Lemma agrees_bind {A B} (cA : A -> N) (cB : B -> N) n g b (k1 k2 : A -> outcome B) :
    agrees cA n g b -> (forall a, g = Done a -> agrees cB (cA a) (k1 a) (k2 a)) ->
    agrees cB n (bind g k1) (bind b k2).
  Proof.
    unfold agrees. intros Hg Hk. destruct g as [a| |]; cbn [bind]; auto.
    destruct Hg as (G1 & G2 & G3). specialize (Hk a eq_refl). destruct (k1 a) as [r| |]; auto.
    destruct Hk as (K1 & K2 & K3). split; [lia|]. split.
    - intro H. rewrite G2 by lia. cbn [bind]. apply K2. lia.
    - intro H. destruct (N.lt_ge_cases j (cA a)) as [Hlt|Hge].
      + rewrite G3 by lia. reflexivity.
      + rewrite G2 by lia. cbn [bind]. apply K3. lia.
  Qed.

  Lemma agrees_pure_bind {A B} (cB : B -> N) n (p : outcome A) (k1 k2 : A -> outcome B) :
    (forall a, p = Done a -> agrees cB n (k1 a) (k2 a)) -> agrees cB n (bind p k1) (bind p k2).
  Proof. intro H. destruct p as [a| |]; cbn [bind]; [apply H; reflexivity|exact I|exact I]. Qed.

  (* one call of the merge function, numbered n *)
  Lemma agrees_call {B} (cB : B -> N) n k vs (k1 k2 : bytes -> outcome B) :
    (forall v, agrees cB (n + 1) (k1 v) (k2 v)) -> agrees cB n (do v <- mf n k vs; k1 v) (do v <- fmf n k vs; k2 v).
  Proof.
    intro H. unfold agrees, mf_fail_at. destruct (mf n k vs) as [v| |] eqn:E; cbn [bind]; auto.
    specialize (H v). unfold agrees in H. destruct (k1 v) as [r| |]; auto. destruct H as (K1 & K2 & K3).
    split; [lia|]. destruct (N.eqb_spec n j) as [->|Hne].
    - split; [intro Hx; lia|reflexivity].
    - cbn [bind]. split; intro Hx; [apply K2|apply K3]; lia.
  Qed.

  (* ---- the merger ---- *)
  Lemma merge_groups_agrees : forall gs calls,
    agrees (fun r : list entry * N => snd r) calls (merge_groups mf calls gs) (merge_groups fmf calls gs).
  Proof.
    induction gs as [|[k vs] gs IH]; intro calls; cbn [merge_groups].
    - apply agrees_same. intros a H. injection H as <-. reflexivity.
    - apply agrees_call. intro v.
      apply (agrees_bind (fun r : list entry * N => snd r) _ (calls + 1)); [apply IH|].
      intros [rest n] _. cbn [fst snd]. apply agrees_same. intros a H. injection H as <-. reflexivity.
  Qed.

  Lemma merge_next_agrees st :
    agrees (fun r : mstate * option entry => ms_calls (fst r)) (ms_calls st) (merge_next mf st) (merge_next fmf st).
  Proof.
    unfold merge_next. destruct (pop_min (ms_heap st)) as [[first heap1]|].
    - destruct (he_rest first) as [|[fk fv] rest].
      + apply agrees_same. intros a H. injection H as <-. reflexivity.
      + destruct (pop_equal (length heap1) fk heap1 []) as [others heap2].
        apply agrees_call. intro v. apply agrees_same. intros a H. injection H as <-. reflexivity.
    - apply agrees_same. intros a H. injection H as <-. reflexivity.
  Qed.

  Lemma merge_all_agrees : forall fuel st,
    agrees (fun r : list entry * N => snd r) (ms_calls st) (merge_all mf fuel st) (merge_all fmf fuel st).
  Proof.
    induction fuel as [|f IH]; intro st; cbn [merge_all]; [exact I|].
    apply (agrees_bind (fun r : mstate * option entry => ms_calls (fst r)) _ (ms_calls st)); [apply merge_next_agrees|].
    intros [st' e] _. cbv beta iota. cbn [fst]. destruct e as [kv|].
    - apply (agrees_bind (fun r : list entry * N => snd r) _ (ms_calls st')); [apply IH|].
      intros [rest n] _. cbn [fst snd]. apply agrees_same. intros a H. injection H as <-. reflexivity.
    - apply agrees_same. intros a H. injection H as <-. reflexivity.
  Qed.

  Theorem merge_run_agrees calls srcs :
    agrees (fun r : list entry * N => snd r) calls (merge_run mf calls srcs) (merge_run fmf calls srcs).
  Proof. unfold merge_run. apply (merge_all_agrees _ (mk_mstate (init_heap srcs 0) calls)). Qed.

  (* ---- the sorter ---- *)
  Lemma write_chunk_agrees st :
    agrees ss_calls (ss_calls st) (s_write_chunk mf st) (s_write_chunk fmf st).
  Proof.
    unfold s_write_chunk.
    apply (agrees_bind (fun r : list entry * N => snd r) _ (ss_calls st)); [apply merge_groups_agrees|].
    intros [ch n] _. cbn [fst snd]. apply agrees_same. intros a H. injection H as <-. reflexivity.
  Qed.

  Lemma merge_chunks_agrees st :
    agrees ss_calls (ss_calls st) (s_merge_chunks mf st) (s_merge_chunks fmf st).
  Proof.
    unfold s_merge_chunks.
    apply (agrees_bind (fun r : list entry * N => snd r) _ (ss_calls st)); [apply merge_run_agrees|].
    intros [m n] _. cbn [fst snd]. apply agrees_same. intros a H. injection H as <-. reflexivity.
  Qed.

  Theorem s_insert_agrees c st k v :
    agrees ss_calls (ss_calls st) (s_insert c mf st k v) (s_insert c fmf st k v).
  Proof.
    unfold s_insert. generalize 80%nat. intro fuel.
    destruct ((U32_MAX <? len k) || (U32_MAX <? len v)); [exact I|].
    apply agrees_pure_bind. intros fits _.
    destruct (fits || (negb (sc_threshold c <=? eb_L (ss_buf st)) && sc_realloc c)).
    - apply agrees_pure_bind. intros b _. apply agrees_same. intros a H. injection H as <-. reflexivity.
    - apply (agrees_bind ss_calls _ (ss_calls st)); [apply write_chunk_agrees|].
      intros st1 _. apply agrees_pure_bind. intros b _. cbv zeta.
      destruct (sc_max_chunks c <=? len (ss_chunks (mk_sstate [(k, v)] b (ss_chunks st1) (ss_calls st1) (ss_events st1)))).
      + apply (merge_chunks_agrees (mk_sstate [(k, v)] b (ss_chunks st1) (ss_calls st1) (ss_events st1))).
      + apply agrees_same. intros a H. injection H as <-. reflexivity.
  Qed.

  Theorem s_inserts_agrees c : forall ins st,
    agrees ss_calls (ss_calls st) (s_inserts c mf st ins) (s_inserts c fmf st ins).
  Proof.
    induction ins as [|[k v] ins IH]; intro st; cbn [s_inserts].
    - apply agrees_same. intros a H. injection H as <-. reflexivity.
    - apply (agrees_bind ss_calls _ (ss_calls st)); [apply s_insert_agrees|]. intros st1 _. apply IH.
  Qed.
End MergeFault.

(* ---- packaged ---- *)
Theorem merge_fault mf j calls srcs out n : merge_run mf calls srcs = Done (out, n) ->
  calls <= n /\
  (j < calls \/ n <= j -> merge_run (mf_fail_at j mf) calls srcs = Done (out, n)) /\
  (calls <= j < n -> merge_run (mf_fail_at j mf) calls srcs = Fail EMerge).
Proof. intro H. pose proof (merge_run_agrees mf j calls srcs) as A. unfold agrees in A. rewrite H in A. exact A. Qed.

Theorem sorter_insert_fault mf j c st k v st' : s_insert c mf st k v = Done st' ->
  ss_calls st <= ss_calls st' /\
  (j < ss_calls st \/ ss_calls st' <= j -> s_insert c (mf_fail_at j mf) st k v = Done st') /\
  (ss_calls st <= j < ss_calls st' -> s_insert c (mf_fail_at j mf) st k v = Fail EMerge).
Proof. intro H. pose proof (s_insert_agrees mf j c st k v) as A. unfold agrees in A. rewrite H in A. exact A. Qed.
