(* C03, clones: a history over SEVERAL cursors of one file.  A clone is a value copy of its original's
   state; afterwards each cursor follows its own operations.  The multi-cursor run refines the multi-cursor
   abstract run: every cursor's results are those the specification determines from ITS OWN position,
   whatever the other cursors (its original included) do in between. *)
From Coq Require Import Lia ZArith ZifyN ZifyBool ZifyNat.
From Grenad.model Require Import Base Block Reader Spec.
From Grenad.proofs Require Import BaseProofs ReaderRefine.

Lemma Forall2_nth {A B} (R : A -> B -> Prop) : forall l l' i a, Forall2 R l l' -> nth_error l i = Some a ->
  exists b, nth_error l' i = Some b /\ R a b.
Proof.
  induction l as [|x l IH]; intros l' i a H Hn; [destruct i; discriminate|].
  inversion H as [|? y ? l2 Hxy Hr]; subst. destruct i as [|i]; cbn [nth_error] in *.
  - injection Hn as <-. exists y. auto.
  - exact (IH l2 i a Hr Hn).
Qed.

Lemma Forall2_set_nth {A B} (R : A -> B -> Prop) : forall l l' i a b, Forall2 R l l' -> R a b ->
  Forall2 R (set_nth i a l) (set_nth i b l').
Proof.
  induction l as [|x l IH]; intros l' i a b H Hab; inversion H as [|? y ? l2 Hxy Hr]; subst; cbn [set_nth]; [constructor|].
  destruct i as [|i]; constructor; auto.
Qed.

(* identifiers exist and no cursor makes a relative move from an unspecified position *)
Fixpoint madm (es : list entry) (ps : list apos) (ops : list mop) : Prop :=
  match ops with
  | [] => True
  | MClone i :: r => exists p, nth_error ps i = Some p /\ madm es (ps ++ [p]) r
  | MOp i o :: r => exists p, nth_error ps i = Some p /\ admissible p o /\ madm es (set_nth i (fst (aspec es p o)) ps) r
  end.

Section Clones.
  Variables (ld : N -> N -> outcome block) (root levels : N) (bstore : N -> option (block * list entry * list nat)).
  Hypothesis W : wf_store ld root levels bstore.
  Notation es := (content root levels bstore).
  Notation R := (Rel root bstore levels).

  Theorem clones_refine : forall ops ps sts, Forall2 R ps sts -> madm es ps ops ->
    exists sts' rs, mrun ld root levels sts ops = Done (sts', rs) /\
      Forall2 R (fst (amrun es ps ops)) sts' /\ Forall2 res_ok (snd (amrun es ps ops)) rs.
  Proof.
    induction ops as [|[i o|i] ops IH]; intros ps sts HR Ha; cbn [mrun amrun madm] in *.
    - exists sts, []. split; [reflexivity|]. split; [exact HR|constructor].
    - destruct Ha as (p & Hp & Hadm & Ha). rewrite Hp.
      destruct (Forall2_nth R ps sts i p HR Hp) as (st & Hst & Hrel). rewrite Hst.
      destruct (R_step ld root levels bstore W p st o Hrel Hadm) as (st' & r & E & HR' & Hres & _).
      rewrite E. cbn [bind fst snd].
      destruct (IH (set_nth i (fst (aspec es p o)) ps) (set_nth i st' sts) (Forall2_set_nth R ps sts i _ _ HR HR') Ha)
        as (sts' & rs & E2 & HR2 & Hrs).
      rewrite E2. cbn [bind fst snd]. exists sts', (r :: rs). split; [reflexivity|]. split; [exact HR2|].
      constructor; [exact Hres|exact Hrs].
    - destruct Ha as (p & Hp & Ha). rewrite Hp.
      destruct (Forall2_nth R ps sts i p HR Hp) as (st & Hst & Hrel). rewrite Hst.
      apply IH; [|exact Ha]. apply Forall2_app; [exact HR|]. constructor; [exact Hrel|constructor].
  Qed.

  (* from one fresh cursor *)
  Corollary clones_from_fresh ops : madm es [Fresh] ops ->
    exists sts' rs, mrun ld root levels [cs_fresh] ops = Done (sts', rs) /\ Forall2 res_ok (snd (amrun es [Fresh] ops)) rs.
  Proof.
    intro Ha. destruct (clones_refine ops [Fresh] [cs_fresh]) as (sts' & rs & E & _ & Hrs); [|exact Ha|].
    - constructor; [apply fresh_rel|constructor].
    - exists sts', rs. auto.
  Qed.
End Clones.

(* ---- on the files of the writer model: the abstract cursors run over the inserted entries themselves ---- *)
From Grenad.model Require Import Trailer Writer.
From Grenad.proofs Require Import WriterStore.

Theorem written_file_clones compress decompress c :
  (forall b z, compress (wc_codec c) (wc_level c) b = Done z -> decompress (wc_codec c) z = Done b) ->
  forall es i s lg m, wc_levels c < 256 -> 1 <= wc_interval c ->
  w_run_gen vsink vs_wr vs_fl vs_count compress c vs_empty es = (i, Done (s, lg, m)) ->
  es <> [] -> sorted_strictb (map fst es) = true ->
  len (vs_bytes s) < 2^64 -> mem_ok lg ->
  forall ops, madm es [Fresh] ops ->
  exists sts rs, mrun (load_block decompress (vs_bytes s) (m_codec m)) (m_root m) (m_levels m) [cs_fresh] ops = Done (sts, rs) /\
    Forall2 res_ok (snd (amrun es [Fresh] ops)) rs.
Proof.
  intros Hcodec es i s lg m HL Hint Hrun Hne Hsorted H64 Hmem ops Ha.
  destruct (written_file_wf compress decompress c Hcodec es i s lg m HL Hint Hrun Hne Hsorted H64 Hmem)
    as (bs & W & Ec & Hv & Hc & Hn & Hlv & body & Hbytes).
  rewrite Hc, Hlv. rewrite <- Ec in Ha |- *.
  exact (clones_from_fresh _ _ _ bs W ops Ha).
Qed.
