(* Correspondence driver: replays the cases written by the Rust harness through the
   model extracted from Coq (Model) and compares observations.  Hand-written glue:
   parsing, int <-> N conversion, printing.  All verdict lines go to stdout:
     MISMATCH <case> <field> impl=<..> model=<..>     implementation differs from the model
     SPECFAIL <case> <field> <detail>                 implementation violates the property predicate
     SUMMARY cases=<n> checks=<m> mismatches=<k> specfails=<j> *)
open Model

(* ---------- conversions ---------- *)
let rec pos_of_int (i : int) : positive =
  if i = 1 then XH else if i land 1 = 0 then XO (pos_of_int (i lsr 1)) else XI (pos_of_int (i lsr 1))
let n_of_int (i : int) : n = if i = 0 then N0 else Npos (pos_of_int i)
let rec int_of_pos (p : positive) : int =
  match p with XH -> 1 | XO q -> 2 * int_of_pos q | XI q -> 2 * int_of_pos q + 1
let int_of_n (x : n) : int = match x with N0 -> 0 | Npos p -> int_of_pos p
let rec nat_of_int (i : int) : nat = if i = 0 then O else S (nat_of_int (i - 1))

let byte_tab : n array = Array.init 256 n_of_int
let hexval c = match c with
  | '0'..'9' -> Char.code c - 48 | 'a'..'f' -> Char.code c - 87 | 'A'..'F' -> Char.code c - 55
  | _ -> failwith "bad hex"
let bytes_of_hex (s : string) : n list =
  if s = "-" then [] else begin
    let l = String.length s / 2 in
    let r = ref [] in
    for i = l - 1 downto 0 do
      r := byte_tab.(hexval s.[2*i] * 16 + hexval s.[2*i+1]) :: !r
    done; !r end
let hex_of_bytes (l : n list) : string =
  if l = [] then "-" else begin
    let b = Buffer.create 64 in
    List.iter (fun x -> Buffer.add_string b (Printf.sprintf "%02x" (int_of_n x))) l;
    Buffer.contents b end
let n_of_string s = n_of_int (int_of_string s)
let string_of_n x = string_of_int (int_of_n x)

(* ---------- case parsing ---------- *)
type case = { kind : string; id : string; lines : (string * string list) list }

let split_ws s = List.filter (fun t -> t <> "") (String.split_on_char ' ' s)

let read_cases (path : string) (f : case -> unit) : unit =
  let ic = open_in path in
  let cur = ref None in
  (try
    while true do
      let line = input_line ic in
      match split_ws line with
      | [] -> ()
      | "CASE" :: kind :: id :: _ -> cur := Some ({ kind; id; lines = [] })
      | ["END"] ->
        (match !cur with
         | Some c -> f { c with lines = List.rev c.lines }; cur := None
         | None -> ())
      | tag :: toks ->
        (match !cur with
         | Some c -> cur := Some { c with lines = (tag, toks) :: c.lines }
         | None -> ())
    done
  with End_of_file -> ());
  close_in ic

let get c tag = try List.assoc tag c.lines with Not_found -> failwith ("missing tag " ^ tag ^ " in case " ^ c.id)
let get_all c tag = List.filter_map (fun (t, toks) -> if t = tag then Some toks else None) c.lines
let get1 c tag = match get c tag with [x] -> x | _ -> failwith ("arity " ^ tag)

(* ---------- verdict bookkeeping ---------- *)
let n_cases = ref 0
let n_checks = ref 0
let n_mismatch = ref 0
let n_specfail = ref 0
let max_report = 40

let check_eq (c : case) (field : string) (impl : string) (model : string) =
  incr n_checks;
  if impl <> model then begin
    incr n_mismatch;
    if !n_mismatch <= max_report then begin
      let cut s = if String.length s > 300 then String.sub s 0 300 ^ "..." else s in
      Printf.printf "MISMATCH %s/%s %s impl=%s model=%s\n" c.kind c.id field (cut impl) (cut model)
    end
  end

let spec_ok (c : case) (field : string) (ok : bool) (detail : string) =
  incr n_checks;
  if not ok then begin
    incr n_specfail;
    if !n_specfail <= max_report then
      Printf.printf "SPECFAIL %s/%s %s %s\n" c.kind c.id field detail
  end

(* ---------- C14: varint ---------- *)
let handle_varint c =
  let v = int_of_string (get1 c "v") in
  let rest = bytes_of_hex (get1 c "rest") in
  let impl_enc = get1 c "enc" in
  let impl_dec = String.concat " " (get c "dec") in
  let enc = varint_encode32 (n_of_int v) in
  check_eq c "enc" impl_enc (hex_of_bytes enc);
  let model_dec = match varint_decode32 (app enc rest) with
    | Done (value, l) -> Printf.sprintf "%d %d" (int_of_n value) (int_of_n l)
    | Panic -> "panic" | Fail _ -> "fail" in
  check_eq c "dec" impl_dec model_dec;
  (* property predicate on the implementation's own observation *)
  let l = String.length impl_enc / 2 in
  spec_ok c "roundtrip" (impl_dec = Printf.sprintf "%d %d" v l && l >= 1 && l <= 5)
    (Printf.sprintf "v=%d enc=%s dec=%s" v impl_enc impl_dec)

let dispatch c =
  incr n_cases;
  match c.kind with
  | "varint" -> handle_varint c
  | k -> failwith ("unknown case kind " ^ k)

let () =
  let path = Sys.argv.(1) in
  read_cases path dispatch;
  Printf.printf "SUMMARY cases=%d checks=%d mismatches=%d specfails=%d\n"
    !n_cases !n_checks !n_mismatch !n_specfail
