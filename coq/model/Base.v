(* Base definitions shared by every layer of the model: byte strings, outcomes,
   lexicographic order, fixed-width integer encodings, N-indexed list slicing.
   Definitions only (plus trivial computation lemmas live in proofs/). *)
From Coq Require Export List NArith Bool.
Export ListNotations.
Open Scope N_scope.

Notation bytes := (list N).
Notation entry := (list N * list N)%type.

(* Error classes of grenad::Error / io::Error as far as the model distinguishes them. *)
Inductive err : Type :=
| EIo (kind : N)          (* io::Error, kind = a small code chosen by the harness *)
| EMerge                  (* Error::Merge(user error) *)
| EInvalidCodec           (* Error::InvalidCompressionType *)
| EInvalidVersion         (* Error::InvalidFormatVersion *)
| EFuel.                  (* the model ran out of fuel: the real code would not terminate *)

(* Every Rust panic site (assert!, slice index, unwrap, checked arithmetic) is a Panic
   branch in the model, so "never panics" is a statement and not a by-product of totality. *)
Inductive outcome (A : Type) : Type :=
| Done (a : A)
| Panic
| Fail (e : err).
Arguments Done {A} a. Arguments Panic {A}. Arguments Fail {A} e.

Definition bind {A B} (x : outcome A) (f : A -> outcome B) : outcome B :=
  match x with Done a => f a | Panic => Panic | Fail e => Fail e end.
Notation "'do' x <- e ; k" := (bind e (fun x => k))
  (at level 200, x pattern, e at level 100, k at level 200, right associativity).

Definition omap {A B} (f : A -> B) (x : outcome A) : outcome B :=
  match x with Done a => Done (f a) | Panic => Panic | Fail e => Fail e end.

(* ---- lists indexed by N (no unary naturals of data-dependent size at run time) ---- *)
Fixpoint len_acc {A} (l : list A) (acc : N) : N :=
  match l with [] => acc | _ :: r => len_acc r (N.succ acc) end.
Definition len {A} (l : list A) : N := len_acc l 0.

Fixpoint skipnN {A} (n : N) (l : list A) : list A :=
  match l with
  | [] => []
  | _ :: r => if n =? 0 then l else skipnN (N.pred n) r
  end.
Fixpoint firstnN {A} (n : N) (l : list A) : list A :=
  match l with
  | [] => []
  | x :: r => if n =? 0 then [] else x :: firstnN (N.pred n) r
  end.
Fixpoint nthN {A} (n : N) (l : list A) : option A :=
  match l with
  | [] => None
  | x :: r => if n =? 0 then Some x else nthN (N.pred n) r
  end.

(* Rust `&v[start..][..n]` / `&v[start..start+n]`: panics when out of range. *)
Definition slice (l : bytes) (start n : N) : outcome bytes :=
  if start + n <=? len l then Done (firstnN n (skipnN start l)) else Panic.
(* Rust `&v[start..]` *)
Definition slice_from (l : bytes) (start : N) : outcome bytes :=
  if start <=? len l then Done (skipnN start l) else Panic.

(* ---- lexicographic order on byte strings = Rust's Ord for [u8] ---- *)
Fixpoint lex_compare (a b : bytes) : comparison :=
  match a, b with
  | [], [] => Eq
  | [], _ :: _ => Lt
  | _ :: _, [] => Gt
  | x :: a', y :: b' => match x ?= y with Eq => lex_compare a' b' | c => c end
  end.
Definition bytes_ltb (a b : bytes) : bool := match lex_compare a b with Lt => true | _ => false end.
Definition bytes_leb (a b : bytes) : bool := match lex_compare a b with Gt => false | _ => true end.
Definition bytes_eqb (a b : bytes) : bool := match lex_compare a b with Eq => true | _ => false end.

Fixpoint starts_with (k p : bytes) : bool :=
  match p, k with
  | [], _ => true
  | _ :: _, [] => false
  | y :: p', x :: k' => (x =? y) && starts_with k' p'
  end.

(* ---- fixed-width integers ---- *)
Fixpoint le_bytes (n : nat) (x : N) : bytes :=
  match n with O => [] | S n' => (x mod 256) :: le_bytes n' (x / 256) end.
Definition be_bytes (n : nat) (x : N) : bytes := rev (le_bytes n x).
Definition le_decode (l : bytes) : N := fold_right (fun b a => b + 256 * a) 0 l.
Definition be_decode (l : bytes) : N := fold_left (fun a b => a * 256 + b) l 0.

Definition wf_bytes (l : bytes) : Prop := Forall (fun b => b < 256) l.
Definition wf_bytesb (l : bytes) : bool := forallb (fun b => b <? 256) l.

Definition u8 (x : N) : N := x mod 256.
Definition u32 (x : N) : N := x mod 2^32.
Definition U32_MAX : N := 4294967295.

(* io::ErrorKind codes shared with the harness *)
Definition IO_UNEXPECTED_EOF : N := 1.
Definition IO_INVALID_INPUT : N := 2.
Definition IO_WRITE_ZERO : N := 3.
Definition IO_INTERRUPTED : N := 4.
Definition IO_OTHER : N := 5.
Definition IO_INVALID_DATA : N := 6.
Definition IO_INJECTED : N := 7.

Fixpoint last_opt {A} (l : list A) : option A :=
  match l with [] => None | [x] => Some x | _ :: r => last_opt r end.
