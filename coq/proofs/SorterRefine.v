(* C07: the sorter's output does not depend on when it spills or merges chunks.  For a merge function
   that is a pure function f of (key, values) satisfying the flattening law
       f k (map (f k) groups) = f k (concat groups)      (groups non-empty, each non-empty)
   every chunk is the canonical merge of a segment of the insertion history, merging chunks yields the
   canonical merge of the concatenated segments, and so the final output is the canonical merge of
   the whole history = the specification (sort, group, one merge call per key). *)
From Coq Require Import Lia ZArith ZifyN ZifyBool ZifyNat Sorted Sorting.Permutation.
From Grenad.model Require Import Base Reader Spec Merger Sorter.
From Grenad.proofs Require Import BaseProofs SortedFacts SpecProofs MergerProofs MergeRefine.
Ltac Zify.zify_post_hook ::= Z.div_mod_to_equations.

Lemma val_in_app k a b : val_in k (a ++ b) = val_in k a ++ val_in k b.
Proof. unfold val_in. apply flat_map_app. Qed.

Lemma val_in_cons k e l : val_in k (e :: l) = (if bytes_eqb k (fst e) then [snd e] else []) ++ val_in k l.
Proof. reflexivity. Qed.

Lemma val_in_nil_iff k l : val_in k l = [] <-> ~ In k (map fst l).
Proof.
  induction l as [|[k' v] l IH]; [split; [intros _ H; destruct H|reflexivity]|].
  rewrite val_in_cons. cbn [fst snd map]. destruct (bytes_eqb k k') eqn:E.
  - apply bytes_eqb_eq in E. subst. split; [discriminate|]. intro H. exfalso. apply H. left. reflexivity.
  - cbn [app]. rewrite IH. split; intros H; [intros [Hk|Hk]; [subst; rewrite eqb_refl in E; discriminate|exact (H Hk)]|].
    intro Hk. apply H. right. exact Hk.
Qed.

Lemma val_in_perm_keys (k : bytes) (l l' : list entry) : Permutation l l' -> (In k (map fst l) <-> In k (map fst l')).
Proof. intro H. split; apply Permutation_in; [apply Permutation_map; exact H|apply Permutation_map, Permutation_sym; exact H]. Qed.

(* ---- the sort is stable ---- *)
Lemma insert_sorted_stable k e l : val_in k (insert_sorted e l) = val_in k (e :: l).
Proof.
  induction l as [|x l IH]; [reflexivity|]. cbn [insert_sorted].
  destruct (bytes_leb (fst e) (fst x)) eqn:E; [reflexivity|].
  rewrite (val_in_cons k x), IH, !val_in_cons.
  destruct (bytes_eqb k (fst e)) eqn:E1; destruct (bytes_eqb k (fst x)) eqn:E2; try reflexivity.
  apply bytes_eqb_eq in E1, E2. rewrite <- E1, <- E2 in E. rewrite bytes_leb_ltb, bytes_ltb_irrefl in E. discriminate.
Qed.

Lemma sort_entries_stable k l : val_in k (sort_entries l) = val_in k l.
Proof.
  induction l as [|x l IH]; [reflexivity|]. cbn [sort_entries fold_right]. fold (sort_entries l).
  rewrite insert_sorted_stable, !val_in_cons, IH. reflexivity.
Qed.

(* ---- grouping a list sorted by <= ---- *)
Lemma sorted_leb_cons a l : sorted_leb (a :: l) = true ->
  sorted_leb l = true /\ (forall x, In x l -> ble (fst a) (fst x)).
Proof.
  revert a; induction l as [|b l IH]; intros a H; [split; [reflexivity|intros x []]|].
  cbn [sorted_leb] in H. apply andb_prop in H. destruct H as [H1 H2].
  split; [exact H2|]. intros x [<-|Hx]; [exact H1|].
  destruct (IH b H2) as [_ Hb]. exact (ble_trans _ _ _ H1 (Hb x Hx)).
Qed.

Lemma group_sorted_spec l : sorted_leb l = true ->
  let gs := group_sorted l in
  StronglySorted blt (map fst gs) /\
  (forall k, In k (map fst gs) <-> In k (map fst l)) /\
  (forall k vs, In (k, vs) gs -> vs = val_in k l) /\
  (hd_error (map fst gs) = hd_error (map fst l)).
Proof.
  induction l as [|[k v] r IH]; intro Hs; cbv zeta.
  - cbn [group_sorted map]. split; [constructor|]. split; [tauto|]. split; [intros k vs []|reflexivity].
  - apply sorted_leb_cons in Hs. destruct Hs as [Hsr Hle]. specialize (IH Hsr). cbv zeta in IH. destruct IH as (I1 & I2 & I3 & I4).
    cbn [group_sorted]. destruct (group_sorted r) as [|[k' vs'] gs'] eqn:Eg.
    + (* r has no keys: r = [] *)
      assert (r = []).
      { destruct r as [|[k1 v1] r1]; [reflexivity|]. exfalso. apply (proj2 (I2 k1)). left. reflexivity. }
      subst r. cbn [map fst]. split; [constructor; constructor|]. split; [tauto|].
      split; [|reflexivity]. intros k0 vs [E|[]]. injection E as <- <-. rewrite val_in_cons. cbn [fst snd]. rewrite eqb_refl. reflexivity.
    + cbn [map fst hd_error] in I1, I2, I3, I4.
      (* k' is the first key of r *)
      destruct r as [|[k1 v1] r1]; [discriminate|]. cbn [map fst hd_error] in I4. injection I4 as ->.
      assert (Hkk : ble k k1) by (apply (Hle (k1, v1)); left; reflexivity).
      inversion I1 as [|? ? I1s I1f]; subst.
      destruct (bytes_eqb k k1) eqn:E.
      * apply bytes_eqb_eq in E. subst k1. cbn [map fst hd_error].
        split; [constructor; assumption|]. split.
        { intro k0. specialize (I2 k0). cbn [map fst In] in I2 |- *. tauto. }
        split; [|reflexivity].
        intros k0 vs [E|Hin].
        -- injection E as <- <-. rewrite val_in_cons. cbn [fst snd]. rewrite eqb_refl. cbn [app]. f_equal. apply I3. left. reflexivity.
        -- rewrite val_in_cons. cbn [fst snd].
           assert (Hlt : blt k k0) by (rewrite Forall_forall in I1f; apply I1f; apply in_map_iff; exists (k0, vs); auto).
           assert (E0 : bytes_eqb k0 k = false).
           { destruct (bytes_eqb k0 k) eqn:E0; [|reflexivity]. apply bytes_eqb_eq in E0. subst. unfold blt in Hlt. rewrite bytes_ltb_irrefl in Hlt. discriminate. }
           rewrite E0. cbn [app]. apply I3. right. exact Hin.
      * assert (Hlt : blt k k1) by (destruct (ble_cases _ _ Hkk) as [->|H]; [rewrite eqb_refl in E; discriminate|exact H]).
        cbn [map fst hd_error]. split.
        { constructor; [constructor; assumption|]. constructor; [exact Hlt|].
          eapply Forall_impl; [|exact I1f]. cbn beta. intros a Ha. exact (bytes_ltb_trans _ _ _ Hlt Ha). }
        split.
        { intro k0. specialize (I2 k0). cbn [map fst In] in I2 |- *. tauto. }
        split; [|reflexivity].
        intros k0 vs [E0|Hin].
        -- injection E0 as <- <-. rewrite val_in_cons. cbn [fst snd]. rewrite eqb_refl.
           assert (En : val_in k ((k1, v1) :: r1) = []).
           { apply val_in_nil_iff. intro Hin. apply in_map_iff in Hin. destruct Hin as (x & Ex & Hx). specialize (Hle x Hx). rewrite Ex in Hle.
             destruct Hx as [<-|Hx]; [cbn [fst] in Ex; subst; rewrite eqb_refl in E; discriminate|].
             (* x in r1: k1 <= fst x = k, but k < k1 *)
             apply sorted_leb_cons in Hsr. destruct Hsr as [_ Hle1]. specialize (Hle1 x Hx). cbn [fst] in Hle1. rewrite Ex in Hle1.
             pose proof (ble_blt_trans _ _ _ Hle1 Hlt) as T. unfold blt in T. rewrite bytes_ltb_irrefl in T. discriminate. }
           rewrite En. reflexivity.
        -- rewrite val_in_cons. cbn [fst snd].
           assert (Hlt0 : blt k k0).
           { destruct Hin as [E0|Hin]; [injection E0 as <- <-; exact Hlt|].
             rewrite Forall_forall in I1f. exact (bytes_ltb_trans _ _ _ Hlt (I1f k0 ltac:(apply in_map_iff; exists (k0, vs); auto))). }
           assert (E0 : bytes_eqb k0 k = false).
           { destruct (bytes_eqb k0 k) eqn:E0; [|reflexivity]. apply bytes_eqb_eq in E0. subst. unfold blt in Hlt0. rewrite bytes_ltb_irrefl in Hlt0. discriminate. }
           rewrite E0. cbn [app]. apply I3. exact Hin.
Qed.

(* ---- the sorter with the in-memory sort left abstract: Sorter.s_* are the instances at the stable
   insertion sort (sort_entries); sort_unstable_by_key and the rayon variants are other instances ---- *)
Definition gs_write_chunk (sortf : list entry -> list entry) (mf : mergefn) (st : sstate) : outcome sstate :=
  let sorted := sortf (rev (ss_pending st)) in
  do r <- merge_groups mf (ss_calls st) (group_sorted sorted);
  let b := ss_buf st in
  Done (mk_sstate [] (mk_ebuf (eb_L b) 0 0) (ss_chunks st ++ [fst r]) (snd r)
                  (EvSpill (len (ss_chunks st) + 1) :: EvCreate :: ss_events st)).

Definition gs_insert (sortf : list entry -> list entry) (c : scfg) (mf : mergefn) (st : sstate) (k v : bytes) : outcome sstate :=
  if (U32_MAX <? len k) || (U32_MAX <? len v) then Panic else
  let sz := entry_sz k v in
  do f <- eb_fits (ss_buf st) sz;
  let threshold_exceeded := sc_threshold c <=? eb_L (ss_buf st) in
  if f || (negb threshold_exceeded && sc_realloc c) then
    do b <- eb_insert 80 (ss_buf st) sz;
    Done (mk_sstate ((k, v) :: ss_pending st) b (ss_chunks st) (ss_calls st) (ss_events st))
  else
    do st1 <- gs_write_chunk sortf mf st;
    do b <- eb_insert 80 (ss_buf st1) sz;
    let st2 := mk_sstate [(k, v)] b (ss_chunks st1) (ss_calls st1) (ss_events st1) in
    if sc_max_chunks c <=? len (ss_chunks st2) then s_merge_chunks mf st2 else Done st2.

Fixpoint gs_inserts (sortf : list entry -> list entry) (c : scfg) (mf : mergefn) (st : sstate) (ins : list entry) : outcome sstate :=
  match ins with
  | [] => Done st
  | (k, v) :: r => do st' <- gs_insert sortf c mf st k v; gs_inserts sortf c mf st' r
  end.

Definition gs_finish (sortf : list entry -> list entry) (mf : mergefn) (st : sstate) : outcome (list entry * list (list entry)) :=
  do st1 <- gs_write_chunk sortf mf st;
  do r <- merge_run mf (ss_calls st1) (ss_chunks st1);
  Done (fst r, ss_chunks st1).

Definition gsorter_run (sortf : list entry -> list entry) (c : scfg) (mf : mergefn) (ins : list entry) : outcome (list entry) :=
  do st <- gs_inserts sortf c mf (s_new c) ins;
  do r <- gs_finish sortf mf st;
  Done (fst r).

Lemma gs_inserts_stable c mf : forall ins st, s_inserts c mf st ins = gs_inserts sort_entries c mf st ins.
Proof. induction ins as [|[k v] ins IH]; intro st; [reflexivity|]. cbn [s_inserts gs_inserts]. change (gs_insert sort_entries c mf st k v) with (s_insert c mf st k v). destruct (s_insert c mf st k v); cbn [bind]; auto. Qed.

Lemma gsorter_run_stable c mf ins : sorter_run c mf ins = gsorter_run sort_entries c mf ins.
Proof. unfold sorter_run, gsorter_run. rewrite gs_inserts_stable. reflexivity. Qed.

Lemma val_in_perm k (l l' : list entry) : Permutation l l' -> Permutation (val_in k l) (val_in k l').
Proof.
  induction 1 as [|x l l' _ IH|x y l|l l' l'' _ IH1 _ IH2]; [constructor| | |].
  - rewrite !val_in_cons. apply Permutation_app_head. exact IH.
  - rewrite !val_in_cons, !app_assoc. apply Permutation_app_tail. apply Permutation_app_comm.
  - exact (Permutation_trans IH1 IH2).
Qed.

Section Canon.
  Variable f : bytes -> list bytes -> bytes.
  Variable mf : mergefn.
  Hypothesis mf_pure : forall ord k vs, mf ord k vs = Done (f k vs).
  Hypothesis f_flat : forall k vss, vss <> [] -> Forall (fun vs => vs <> []) vss -> f k (map (f k) vss) = f k (concat vss).
  Definition canon (l out : list entry) : Prop :=
    StronglySorted blt (map fst out) /\
    (forall k, In k (map fst out) <-> In k (map fst l)) /\
    (forall k v, In (k, v) out -> v = f k (val_in k l)).

  Lemma blt_asym a b : blt a b -> blt b a -> False.
  Proof. unfold blt. intros H1 H2. pose proof (bytes_ltb_trans _ _ _ H1 H2) as T. rewrite bytes_ltb_irrefl in T. discriminate. Qed.

  Lemma sorted_keys_eq (k1 k2 : list bytes) : StronglySorted blt k1 -> StronglySorted blt k2 ->
    (forall k, In k k1 <-> In k k2) -> k1 = k2.
  Proof.
    intros H1 H2 Hiff. apply (SS_perm_eq blt blt_asym); [exact H1|exact H2|].
    apply NoDup_Permutation; [| |exact Hiff].
    - clear -H1. induction H1 as [|a l Hs IH Hf]; constructor; [|exact IH]. intro Hin. rewrite Forall_forall in Hf.
      specialize (Hf a Hin). unfold blt in Hf. rewrite bytes_ltb_irrefl in Hf. discriminate.
    - clear -H2. induction H2 as [|a l Hs IH Hf]; constructor; [|exact IH]. intro Hin. rewrite Forall_forall in Hf.
      specialize (Hf a Hin). unfold blt in Hf. rewrite bytes_ltb_irrefl in Hf. discriminate.
  Qed.

  Lemma canon_unique l o1 o2 : canon l o1 -> canon l o2 -> o1 = o2.
  Proof.
    intros (A1 & B1 & C1) (A2 & B2 & C2).
    assert (Ek : map fst o1 = map fst o2) by (apply sorted_keys_eq; [exact A1|exact A2|]; intro k; rewrite B1, B2; reflexivity).
    clear A1 A2 B1 B2. revert o2 C2 Ek. induction o1 as [|[k v] o1 IH]; intros o2 C2 Ek; destruct o2 as [|[k2 v2] o2]; try discriminate; [reflexivity|].
    cbn [map fst] in Ek. injection Ek as <- Ek.
    rewrite (C1 k v ltac:(left; reflexivity)), (C2 k v2 ltac:(left; reflexivity)). f_equal.
    apply IH; [intros k0 v0 H; apply C1; right; exact H|intros k0 v0 H; apply C2; right; exact H|exact Ek].
  Qed.

  (* ---- merging canonical chunks ---- *)
  Lemma val_in_sorted_in c k v : StronglySorted blt (map fst c) -> In (k, v) c -> val_in k c = [v].
  Proof.
    induction c as [|[k0 v0] c IH]; intros Hs Hin; [destruct Hin|]. cbn [map fst] in Hs. inversion Hs as [|? ? Hs' Hf]; subst.
    rewrite val_in_cons. cbn [fst snd]. destruct Hin as [E|Hin].
    - injection E as -> ->. rewrite eqb_refl. cbn [app]. f_equal. apply val_in_above. exact Hf.
    - rewrite Forall_forall in Hf. pose proof (Hf k ltac:(apply in_map_iff; exists (k, v); auto)) as Hlt.
      assert (E0 : bytes_eqb k k0 = false).
      { destruct (bytes_eqb k k0) eqn:E0; [|reflexivity]. apply bytes_eqb_eq in E0. subst. unfold blt in Hlt. rewrite bytes_ltb_irrefl in Hlt. discriminate. }
      rewrite E0. cbn [app]. apply IH; assumption.
  Qed.

  Definition nonnil (vs : list bytes) : bool := match vs with [] => false | _ => true end.

  Lemma canon_val_in seg c k : canon seg c ->
    val_in k c = if nonnil (val_in k seg) then [f k (val_in k seg)] else [].
  Proof.
    intros (A & B & C). destruct (val_in k seg) as [|v0 vs0] eqn:E; cbn [nonnil].
    - apply val_in_nil_iff. rewrite B. apply val_in_nil_iff. exact E.
    - assert (Hin : In k (map fst c)).
      { apply B. destruct (in_dec (list_eq_dec N.eq_dec) k (map fst seg)) as [H|H]; [exact H|]. apply val_in_nil_iff in H. congruence. }
      apply in_map_iff in Hin. destruct Hin as ([k1 v1] & Ek & Hin). cbn [fst] in Ek. subst k1.
      rewrite (val_in_sorted_in c k v1 A Hin). rewrite (C k v1 Hin), E. reflexivity.
  Qed.

  Lemma concat_filter_nonnil (vss : list (list bytes)) : concat (filter nonnil vss) = concat vss.
  Proof. induction vss as [|vs vss IH]; [reflexivity|]. cbn [filter concat]. destruct vs; cbn [nonnil app concat]; rewrite IH; reflexivity. Qed.

  Lemma val_in_concat k segs : val_in k (concat segs) = concat (map (val_in k) segs).
  Proof. induction segs as [|s segs IH]; [reflexivity|]. cbn [concat map]. rewrite val_in_app, IH. reflexivity. Qed.

  Lemma vals_of_chunks k segs chunks : Forall2 canon segs chunks ->
    vals_of k chunks = map (f k) (filter nonnil (map (val_in k) segs)).
  Proof.
    induction 1 as [|seg c segs chunks Hc _ IH]; [reflexivity|]. unfold vals_of in *. cbn [flat_map map filter].
    rewrite IH, (canon_val_in seg c k Hc). destruct (nonnil (val_in k seg)); reflexivity.
  Qed.

  Lemma merge_canon segs chunks calls : Forall2 canon segs chunks ->
    exists out, merge_run mf calls chunks = Done (out, calls + len out) /\ canon (concat segs) out.
  Proof.
    intro HF.
    assert (Hs : Forall ssorted chunks).
    { clear -HF. induction HF as [|seg c segs chunks (A & _) _ IH]; constructor; [exact A|exact IH]. }
    rewrite (merge_run_calls mf calls chunks Hs).
    destruct (merge_calls_spec chunks Hs) as (A & B & C). cbv zeta in A, B, C.
    set (cs := acalls (S (total_len chunks)) chunks) in *.
    assert (Erun : forall cs0 calls0, run_calls mf calls0 cs0 = Done (map (fun c => (fst c, f (fst c) (snd c))) cs0, calls0 + len cs0)).
    { induction cs0 as [|[k vs] cs0 IH]; intro calls0; cbn [run_calls map].
      - change (len (@nil (bytes * list bytes))) with 0. f_equal. f_equal. lia.
      - rewrite mf_pure. cbn [bind]. rewrite IH. cbn [bind fst snd]. rewrite len_cons. f_equal. f_equal. lia. }
    rewrite Erun. eexists. split; [rewrite !len_length, map_length; reflexivity|].
    unfold canon. rewrite map_map. cbn [fst]. split; [exact A|]. split.
    - intro k. rewrite B. unfold has_key. split.
      + intros (c & Hc & Hk). clear -HF Hc Hk. induction HF as [|seg c0 segs chunks (_ & Bc & _) _ IH]; [destruct Hc|].
        cbn [concat]. rewrite map_app. apply in_or_app. destruct Hc as [->|Hc]; [left; apply Bc; exact Hk|right; apply IH; exact Hc].
      + intro Hk. clear -HF Hk. induction HF as [|seg c0 segs chunks (_ & Bc & _) _ IH]; [destruct Hk|].
        cbn [concat] in Hk. rewrite map_app in Hk. apply in_app_or in Hk. destruct Hk as [Hk|Hk].
        * exists c0. split; [left; reflexivity|apply Bc; exact Hk].
        * destruct (IH Hk) as (c & Hc & Hkc). exists c. split; [right; exact Hc|exact Hkc].
    - intros k v Hin. apply in_map_iff in Hin. destruct Hin as ([k0 vs] & E & Hin). cbn [fst snd] in E. injection E as <- <-.
      rewrite (C k0 vs Hin), (vals_of_chunks k0 segs chunks HF).
      assert (Hne : filter nonnil (map (val_in k0) segs) <> []).
      { (* k0 is a key of some chunk, hence of some segment *)
        assert (Hk : has_key k0 chunks) by (apply B; apply in_map_iff; exists (k0, vs); auto).
        destruct Hk as (c & Hc & Hkc). clear -HF Hc Hkc.
        induction HF as [|seg c0 segs chunks (_ & Bc & _) _ IH]; [destruct Hc|]. cbn [map filter].
        destruct Hc as [->|Hc].
        - apply Bc in Hkc. destruct (val_in k0 seg) eqn:E; [apply val_in_nil_iff in E; contradiction|cbn [nonnil]; discriminate].
        - destruct (nonnil (val_in k0 seg)); [discriminate|apply IH; exact Hc]. }
      rewrite f_flat; [|exact Hne|].
      + rewrite concat_filter_nonnil, val_in_concat. reflexivity.
      + apply Forall_forall. intros x Hx. apply filter_In in Hx. destruct Hx as [_ Hx]. destruct x; [discriminate|discriminate].
  Qed.

  (* the in-memory sort: a sorted permutation that does not change what the merge function returns for
     the values of a key (a stable sort; or any sort when the merge function ignores the order) *)
  Variable sortf : list entry -> list entry.
  Hypothesis sort_sorted : forall l, sorted_leb (sortf l) = true.
  Hypothesis sort_perm : forall l, Permutation (sortf l) l.
  Hypothesis sort_vals : forall k l, f k (val_in k (sortf l)) = f k (val_in k l).


  (* ---- write_chunk: sort, group, one merge call per key ---- *)
  Lemma merge_groups_pure : forall gs calls,
    merge_groups mf calls gs = Done (map (fun g => (fst g, f (fst g) (snd g))) gs, calls + len gs).
  Proof.
    clear f_flat. induction gs as [|[k vs] gs IH]; intro calls; cbn [merge_groups map].
    - change (len (@nil (bytes * list bytes))) with 0. f_equal. f_equal. lia.
    - rewrite mf_pure. cbn [bind]. rewrite IH. cbn [bind fst snd]. rewrite len_cons. f_equal. f_equal. lia.
  Qed.

  Definition SM (l : list entry) : list entry :=
    map (fun g => (fst g, f (fst g) (snd g))) (group_sorted (sortf l)).

  Lemma SM_canon l : canon l (SM l).
  Proof.
    clear f_flat. unfold SM, canon. destruct (group_sorted_spec (sortf l) (sort_sorted l)) as (A & B & C & _).
    rewrite map_map. cbn [fst]. split; [exact A|]. split.
    - intro k. rewrite B. apply val_in_perm_keys. apply sort_perm.
    - intros k v Hin. apply in_map_iff in Hin. destruct Hin as ([k0 vs] & E & Hin). cbn [fst snd] in E. injection E as <- <-.
      rewrite (C k0 vs Hin). apply sort_vals.
  Qed.

  Lemma write_groups l calls : merge_groups mf calls (group_sorted (sortf l)) = Done (SM l, calls + len (SM l)).
  Proof. clear f_flat. rewrite merge_groups_pure. unfold SM. rewrite !len_length, map_length. reflexivity. Qed.

  (* ---- the sorter: every state is a chunked history ---- *)
  Definition SInv (hist : list entry) (st : sstate) : Prop :=
    exists segs, Forall2 canon segs (ss_chunks st) /\ hist = concat segs ++ rev (ss_pending st).

  Lemma Forall2_snoc {A B} (R : A -> B -> Prop) l1 l2 a b : Forall2 R l1 l2 -> R a b -> Forall2 R (l1 ++ [a]) (l2 ++ [b]).
  Proof. intros H Hab. apply Forall2_app; [exact H|constructor; [exact Hab|constructor]]. Qed.

  Lemma write_chunk_inv hist st st1 : SInv hist st -> gs_write_chunk sortf mf st = Done st1 ->
    SInv hist st1 /\ ss_pending st1 = [].
  Proof.
    intros (segs & HF & Eh) H. unfold gs_write_chunk in H. rewrite write_groups in H. cbn [bind fst snd] in H. injection H as <-.
    cbn [ss_pending ss_chunks]. split; [|reflexivity]. exists (segs ++ [rev (ss_pending st)]).
    split; [apply Forall2_snoc; [exact HF|apply SM_canon]|]. rewrite concat_app. cbn [concat rev]. rewrite !app_nil_r. exact Eh.
  Qed.

  Lemma merge_chunks_inv hist st st1 : SInv hist st -> s_merge_chunks mf st = Done st1 ->
    SInv hist st1 /\ ss_pending st1 = ss_pending st.
  Proof.
    intros (segs & HF & Eh) H. unfold s_merge_chunks in H.
    destruct (merge_canon segs (ss_chunks st) (ss_calls st) HF) as (out & Er & Hc). rewrite Er in H. cbn [bind fst snd] in H. injection H as <-.
    cbn [ss_pending ss_chunks]. split; [|reflexivity]. exists [concat segs]. split; [constructor; [exact Hc|constructor]|].
    cbn [concat]. rewrite app_nil_r. exact Eh.
  Qed.

  Lemma s_insert_inv c hist st k v st' : SInv hist st -> gs_insert sortf c mf st k v = Done st' -> SInv (hist ++ [(k, v)]) st'.
  Proof.
    intros Hinv H. unfold gs_insert in H. revert H. generalize 80%nat. intros fuel H.
    destruct ((U32_MAX <? len k) || (U32_MAX <? len v)); [discriminate|].
    destruct (eb_fits (ss_buf st) (entry_sz k v)) as [fits| |]; cbn [bind] in H; try discriminate.
    destruct (fits || (negb (sc_threshold c <=? eb_L (ss_buf st)) && sc_realloc c)).
    - destruct (eb_insert fuel (ss_buf st) (entry_sz k v)) as [b| |]; cbn [bind] in H; try discriminate. injection H as <-.
      destruct Hinv as (segs & HF & Eh). exists segs. cbn [ss_chunks ss_pending rev]. split; [exact HF|]. rewrite Eh, app_assoc. reflexivity.
    - destruct (gs_write_chunk sortf mf st) as [st1| |] eqn:Ew; cbn [bind] in H; try discriminate.
      destruct (write_chunk_inv hist st st1 Hinv Ew) as [(segs & HF & Eh) Hp].
      destruct (eb_insert fuel (ss_buf st1) (entry_sz k v)) as [b| |]; cbn [bind] in H; try discriminate.
      set (st2 := mk_sstate [(k, v)] b (ss_chunks st1) (ss_calls st1) (ss_events st1)) in *.
      assert (Hinv2 : SInv (hist ++ [(k, v)]) st2).
      { exists segs. cbn [ss_chunks ss_pending st2 rev app]. split; [exact HF|]. rewrite Eh, Hp. cbn [rev]. rewrite app_nil_r. reflexivity. }
      destruct (sc_max_chunks c <=? len (ss_chunks st2)).
      + destruct (merge_chunks_inv _ st2 st' Hinv2 H) as [A _]. exact A.
      + injection H as <-. exact Hinv2.
  Qed.

  Lemma s_inserts_inv c : forall ins hist st st', SInv hist st -> gs_inserts sortf c mf st ins = Done st' -> SInv (hist ++ ins) st'.
  Proof.
    induction ins as [|[k v] ins IH]; intros hist st st' Hinv H; cbn [gs_inserts] in H.
    - injection H as <-. rewrite app_nil_r. exact Hinv.
    - destruct (gs_insert sortf c mf st k v) as [st1| |] eqn:E; cbn [bind] in H; try discriminate.
      pose proof (s_insert_inv c hist st k v st1 Hinv E) as Hinv1.
      specialize (IH _ _ _ Hinv1 H). rewrite <- app_assoc in IH. exact IH.
  Qed.

  (* ================= C07, for the abstract sort ================= *)
  Theorem gsorter_run_canon c ins out : gsorter_run sortf c mf ins = Done out -> canon ins out.
  Proof.
    unfold gsorter_run. intro H.
    destruct (gs_inserts sortf c mf (s_new c) ins) as [st| |] eqn:Ei; cbn [bind] in H; try discriminate.
    assert (Hinv0 : SInv [] (s_new c)) by (exists []; split; [constructor|reflexivity]).
    pose proof (s_inserts_inv c ins [] (s_new c) st Hinv0 Ei) as Hinv. cbn [app] in Hinv.
    unfold gs_finish in H. destruct (gs_write_chunk sortf mf st) as [st1| |] eqn:Ew; cbn [bind] in H; try discriminate.
    destruct (write_chunk_inv ins st st1 Hinv Ew) as [(segs & HF & Eh) Hp].
    destruct (merge_canon segs (ss_chunks st1) (ss_calls st1) HF) as (o & Er & Hc). rewrite Er in H. cbn [bind fst] in H. injection H as <-.
    rewrite Eh, Hp. cbn [rev]. rewrite app_nil_r. exact Hc.
  Qed.

  (* sort, group, one merge call per key: the canonical merge *)
  Theorem sorted_groups_canon ins : exists out, (do r <- merge_groups mf 0 (group_sorted (sortf ins)); Done (fst r)) = Done out /\ canon ins out.
  Proof. clear f_flat. exists (SM ins). rewrite write_groups. cbn [bind fst]. split; [reflexivity|apply SM_canon]. Qed.
End Canon.

(* ================= C07 ================= *)
Section Sorter.
  Variable f : bytes -> list bytes -> bytes.
  Variable mf : mergefn.
  Hypothesis mf_pure : forall ord k vs, mf ord k vs = Done (f k vs).
  Hypothesis f_flat : forall k vss, vss <> [] -> Forall (fun vs => vs <> []) vss -> f k (map (f k) vss) = f k (concat vss).

  (* the specification (stable sort, group, merge): strictly ascending distinct keys, each with the merge
     of its values in insertion order *)
  Theorem sorter_spec_canon ins : exists out, sorter_spec mf ins = Done out /\ canon f ins out.
  Proof.
    exact (sorted_groups_canon f mf mf_pure sort_entries sort_entries_sorted sort_entries_perm
             (fun k l => f_equal (f k) (sort_entries_stable k l)) ins).
  Qed.

  (* any in-memory sort that yields a sorted permutation preserving what f returns per key *)
  Theorem sorter_any_sort sortf :
    (forall l, sorted_leb (sortf l) = true) -> (forall l, Permutation (sortf l) l) ->
    (forall k l, f k (val_in k (sortf l)) = f k (val_in k l)) ->
    forall c ins out, gsorter_run sortf c mf ins = Done out -> sorter_spec mf ins = Done out.
  Proof.
    intros S1 S2 S3 c ins out H.
    pose proof (gsorter_run_canon f mf mf_pure f_flat sortf S1 S2 S3 c ins out H) as Hc.
    destruct (sorter_spec_canon ins) as (out' & E & Hc'). rewrite E. f_equal. exact (canon_unique f ins out' out Hc' Hc).
  Qed.

  (* the transcribed sorter (stable insertion sort) *)
  Theorem sorter_run_spec c ins out : sorter_run c mf ins = Done out -> sorter_spec mf ins = Done out.
  Proof.
    rewrite gsorter_run_stable. apply sorter_any_sort; [exact sort_entries_sorted|exact sort_entries_perm|].
    intros k l. rewrite sort_entries_stable. reflexivity.
  Qed.

  (* an unstable sort (any sorted permutation), with a merge function that ignores the order of the values *)
  Theorem sorter_unstable sortf :
    (forall l, sorted_leb (sortf l) = true) -> (forall l, Permutation (sortf l) l) ->
    (forall k vs vs', Permutation vs vs' -> f k vs = f k vs') ->
    forall c ins out, gsorter_run sortf c mf ins = Done out -> sorter_spec mf ins = Done out.
  Proof.
    intros S1 S2 Hperm. apply sorter_any_sort; [exact S1|exact S2|].
    intros k l. apply Hperm. apply val_in_perm. apply S2.
  Qed.
End Sorter.
