#!/usr/bin/env python3
"""Prepares a round of seeded changes: one scratch worktree of /repo per property under BASE and one prompt
file per group of three properties (BASE/prompts/gN.txt).  The prompts carry only the property texts, the
scratch worktree paths and the list of earlier changes to avoid — nothing from /verif's machinery.
usage: mutant_prompts.py BASE [hint text]"""
import json, os, subprocess, sys, glob
BASE = sys.argv[1]
HINT = sys.argv[2] if len(sys.argv) > 2 else ""
props = {}
for l in open("/verif/properties.jsonl"):
    d = json.loads(l)
    props[d["id"]] = d
ids = sorted(props)
os.makedirs(BASE + "/prompts", exist_ok=True)
os.makedirs(BASE + "/out", exist_ok=True)
for pid in ids:
    wt = "%s/%s" % (BASE, pid)
    if not os.path.exists(wt):
        subprocess.run(["git", "-C", "/repo", "worktree", "add", "--detach", wt], check=True, stdout=subprocess.DEVNULL, stderr=subprocess.DEVNULL)
earlier = {}
for m in sorted(glob.glob("/verif/seeded/*/meta.json")):
    d = json.load(open(m))
    if "property" not in d:
        continue
    w = " ".join(d.get("what", "").split())
    earlier.setdefault(d["property"], []).append(w[:230] + ("…" if len(w) > 230 else ""))
groups = [[ids[i], ids[i + 6], ids[i + 12]] for i in range(6)]
for gi, g in enumerate(groups):
    t = []
    t.append("You are helping to evaluate a verification effort for the Rust crate `grenad` (sorted key-value files: writer, reader, merger, sorter).")
    t.append("For each property below, write TWO different realistic changes (variant a and variant b) to the crate's source that BREAK the property while the crate still compiles and its existing test suite still passes (`cargo test --offline --lib` reports 34 passed, `cargo test --offline --doc` reports 3 passed). A change should look like something a maintainer could plausibly commit: an optimisation, a refactoring, a 'hardening', a fast path, a cleanup — subtle, not an obvious sabotage, and not guarded by any cfg flag. Keep each change small (one or two sites).")
    t.append("")
    t.append("Work ONLY in the scratch worktree given for each property (a detached git worktree of the crate) and write your results under %s/out. Do not read or touch /verif or /repo. Everything is offline (use `cargo ... --offline`)." % BASE)
    t.append("")
    t.append("For each variant deliver, in %s/out/<Cxx>/<a|b>/:" % BASE)
    t.append("  patch.diff  — `git diff` of the change (must apply with `git apply` on a clean worktree)")
    t.append("  demo.rs     — an integration test file (goes to tests/demo.rs of the worktree; uses only the public API of the crate with default features unless meta.json says otherwise) with at least one #[test] that PASSES on the unchanged crate and FAILS (assert or panic) with the change applied: it demonstrates the violation of the property on a concrete input")
    t.append('  meta.json   — {"what": "<what was changed and why it breaks the property>", "needs": "<the inputs/configurations/usage that trigger it>", "features": "<cargo features the demo needs, or empty>"}')
    t.append("Verify both directions yourself (demo passes without, fails with; lib and doc tests pass with the change), then leave the worktree clean (`git checkout -- . && git clean -fdq tests`). If you cannot find a second variant that is new and still subtle, deliver one and say so.")
    t.append("")
    if HINT:
        t.append("Direction for this round: " + HINT)
        t.append("")
    t.append("The changes listed under 'earlier changes' were already written in earlier rounds: choose DIFFERENT sites or mechanisms.")
    t.append("Keep each of your own messages short; never paste file contents into your replies.")
    t.append("")
    for pid in g:
        p = props[pid]
        t.append("=" * 70)
        t.append("Property %s — %s" % (pid, p["title"]))
        t.append("scratch worktree: %s/%s" % (BASE, pid))
        t.append("statement: " + p["statement"])
        t.append("quantified over: " + p["quantifier"]["text"])
        t.append("anchored in: " + ", ".join(p["anchors"]["files"]))
        t.append("earlier changes (avoid these sites/mechanisms):")
        for w in earlier.get(pid, []):
            t.append("  - " + w)
        t.append("")
    open("%s/prompts/g%d.txt" % (BASE, gi), "w").write("\n".join(t))
    print("g%d" % gi, g, len("\n".join(t)))
