From Coq Require Import List Arith Lia Bool Sorted.
Import ListNotations.

(* Probe: the ceiling search across one index level.  A level is the concatenation of non-empty
   groups (the child blocks); the parent stores, for each group, its last key.  If the concatenation
   is strictly sorted, the first element >= q of the concatenation lies in the first group whose
   last key is >= q, at the position of that group's own first element >= q. *)
Section Ceil.
Variable A : Type.
Variable key : A -> nat.

Fixpoint sel (q : nat) (l : list A) : nat :=           (* index of the first element with key >= q, or length l *)
  match l with [] => 0 | a :: r => if q <=? key a then 0 else S (sel q r) end.

Definition lastkey (g : list A) (d : A) : nat := key (last g d).
Definition sorted (l : list A) := StronglySorted (fun a b => key a < key b) l.

Lemma sel_le q l : sel q l <= length l.
Proof. induction l as [|a r IH]; cbn; [lia|]. destruct (q <=? key a); lia. Qed.

Lemma sel_spec q l : sorted l ->
  (forall i a, nth_error l i = Some a -> i < sel q l -> key a < q) /\
  (forall i a, nth_error l i = Some a -> sel q l <= i -> q <= key a).
Proof.
  induction 1 as [|a r Hr IH Ha]; [split; intros [|i] b H; discriminate|].
  cbn [sel]. destruct (Nat.leb_spec q (key a)) as [Hq|Hq].
  - split; [intros; lia|]. intros [|i] b H _; cbn in H.
    + inversion H; subst; exact Hq.
    + rewrite Forall_forall in Ha. apply nth_error_In in H. specialize (Ha _ H). lia.
  - destruct IH as [I1 I2]. split; intros [|i] b H Hi; cbn in H.
    + inversion H; subst; exact Hq.
    + apply (I1 i b H). lia.
    + lia.
    + apply (I2 i b H). lia.
Qed.

Lemma sel_app_lt q l1 l2 : (forall a, In a l1 -> key a < q) -> sel q (l1 ++ l2) = length l1 + sel q l2.
Proof.
  induction l1 as [|a r IH]; intro H; [reflexivity|]. cbn.
  destruct (Nat.leb_spec q (key a)) as [Hq|Hq]; [specialize (H a (or_introl eq_refl)); lia|].
  rewrite IH; [reflexivity|]. intros; apply H; right; assumption.
Qed.

Lemma sel_app_hit q l1 l2 : sel q l1 < length l1 -> sel q (l1 ++ l2) = sel q l1.
Proof.
  induction l1 as [|a r IH]; cbn; intro H; [lia|].
  destruct (q <=? key a); [reflexivity|]. rewrite IH; [reflexivity|lia].
Qed.

Lemma sorted_app l1 l2 : sorted (l1 ++ l2) -> sorted l1 /\ sorted l2 /\ (forall a b, In a l1 -> In b l2 -> key a < key b).
Proof.
  induction l1 as [|x r IH]; cbn; intro H; [repeat split; [constructor|exact H|intros ? ? []]|].
  inversion H as [|? ? Hr Hx]; subst. destruct (IH Hr) as (A1 & A2 & A3).
  rewrite Forall_forall in Hx. repeat split.
  - constructor; [exact A1|]. apply Forall_forall. intros b Hb. apply Hx. apply in_or_app; left; exact Hb.
  - exact A2.
  - intros a b [<-|Ha] Hb; [apply Hx; apply in_or_app; right; exact Hb|apply A3; assumption].
Qed.

Lemma last_in (g : list A) d : g <> [] -> In (last g d) g.
Proof.
  induction g as [|a r IH]; [congruence|]. intros _. destruct r as [|b r']; [left; reflexivity|].
  right. apply IH. discriminate.
Qed.

Lemma sorted_last_max g d : sorted g -> forall a, In a g -> key a <= lastkey g d.
Proof.
  unfold lastkey. induction 1 as [|x r Hr IH Hx]; intros a Ha; [contradiction|].
  destruct r as [|y r']; [destruct Ha as [<-|[]]; cbn; lia|].
  change (last (x :: y :: r') d) with (last (y :: r') d).
  destruct Ha as [<-|Ha]; [|apply IH; exact Ha].
  rewrite Forall_forall in Hx. pose proof (last_in (y :: r') d ltac:(discriminate)) as L. specialize (Hx _ L). lia.
Qed.

(* groups and their parent keys *)
Definition start (gs : list (list A)) (i : nat) : nat := length (concat (firstn i gs)).

Theorem ceil_through_index q d : forall (gs : list (list A)),
  Forall (fun g => g <> []) gs -> sorted (concat gs) ->
  let parent := map (fun g => lastkey g d) gs in        (* the keys stored in the index block *)
  let i := (fix selk (l : list nat) := match l with [] => 0 | k :: r => if q <=? k then 0 else S (selk r) end) parent in
  match nth_error gs i with
  | Some g => sel q (concat gs) = start gs i + sel q g /\ sel q g < length g     (* found: inside group i *)
  | None => sel q (concat gs) = length (concat gs)                               (* no key >= q anywhere *)
  end.
Proof.
  induction gs as [|g gs IH]; intros Hne Hs; cbn [map concat]; [reflexivity|].
  inversion Hne as [|? ? Hg Hgs]; subst. cbn [concat] in Hs. destruct (sorted_app _ _ Hs) as (S1 & S2 & S3).
  destruct (Nat.leb_spec q (lastkey g d)) as [Hq|Hq].
  - (* the first group already reaches q *)
    cbn [nth_error]. unfold start. cbn [firstn concat length]. cbn.
    assert (Hit : sel q g < length g).
    { destruct (Nat.lt_ge_cases (sel q g) (length g)) as [H|H]; [exact H|exfalso].
      pose proof (sel_le q g). assert (E : sel q g = length g) by lia.
      destruct (sel_spec q g S1) as [P1 _]. pose proof (last_in g d Hg) as L. apply In_nth_error in L. destruct L as [n Hn].
      assert (n < length g) by (apply nth_error_Some; congruence). specialize (P1 n _ Hn ltac:(lia)). unfold lastkey in Hq. lia. }
    split; [apply sel_app_hit; exact Hit|exact Hit].
  - (* every element of g is < q: skip the group *)
    assert (Hall : forall a, In a g -> key a < q) by (intros a Ha; pose proof (sorted_last_max g d S1 a Ha); lia).
    specialize (IH Hgs S2). cbv zeta in IH. cbn [nth_error].
    rewrite (sel_app_lt q g (concat gs) Hall).
    destruct (nth_error gs _) as [g'|] eqn:E.
    + destruct IH as [I1 I2]. split; [|exact I2]. rewrite I1. unfold start. cbn [firstn concat]. rewrite app_length. lia.
    + rewrite IH, app_length. reflexivity.
Qed.
End Ceil.
Print Assumptions ceil_through_index.
