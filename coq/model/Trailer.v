(* Transcription of src/metadata.rs: the V1 / V2 trailer, written through io::Write and
   read through io::Read + io::Seek on an in-memory byte string (std::io::Cursor). *)
From Grenad.gen Require Import Consts.
From Grenad.model Require Import Base.

Inductive fversion : Type := FormatV1 | FormatV2.

Record meta : Type := mk_meta {
  m_version : fversion;
  m_root : N;                (* index_block_offset *)
  m_codec : N;               (* compression type id *)
  m_count : N;               (* entries_count *)
  m_levels : N }.            (* index_levels *)

(* Metadata::write_into *)
Definition trailer_bytes (m : meta) : bytes :=
  match m_version m with
  | FormatV1 => le_bytes 8 (m_root m) ++ [u8 (m_codec m)] ++ le_bytes 8 (m_count m) ++ le_bytes 4 MAGIC_V1
  | FormatV2 => le_bytes 8 (m_root m) ++ [u8 (m_codec m)] ++ le_bytes 8 (m_count m) ++ [u8 (m_levels m)]
                ++ le_bytes 4 MAGIC_V2
  end.

(* CompressionType::from_u8 *)
Definition codec_known (c : N) : bool := c <=? CODEC_ID_MAX.

(* Cursor<&[u8]>: seek(SeekFrom::End(-k)) fails with InvalidInput when k > len;
   read_exact fails with UnexpectedEof when fewer bytes remain. *)
Definition seek_end (f : bytes) (k : N) : outcome N :=
  if len f <? k then Fail (EIo IO_INVALID_INPUT) else Done (len f - k).
Definition read_exact_at (f : bytes) (pos n : N) : outcome (bytes * N) :=
  if len f <? pos + n then Fail (EIo IO_UNEXPECTED_EOF) else Done (firstnN n (skipnN pos f), pos + n).

(* Metadata::read_from *)
Definition open_meta (f : bytes) : outcome meta :=
  do p <- seek_end f 4;
  do r <- read_exact_at f p 4;
  let magic := le_decode (fst r) in
  if magic =? MAGIC_V1 then
    do p <- seek_end f (METADATA_V1_SIZE + 4);
    do r1 <- read_exact_at f p 8;
    do r2 <- read_exact_at f (snd r1) 1;
    let codec := le_decode (fst r2) in
    if codec_known codec then
      do r3 <- read_exact_at f (snd r2) 8;
      Done (mk_meta FormatV1 (le_decode (fst r1)) codec (le_decode (fst r3)) 0)
    else Fail EInvalidCodec
  else if magic =? MAGIC_V2 then
    do p <- seek_end f (METADATA_V2_SIZE + 4);
    do r1 <- read_exact_at f p 8;
    do r2 <- read_exact_at f (snd r1) 1;
    let codec := le_decode (fst r2) in
    if codec_known codec then
      do r3 <- read_exact_at f (snd r2) 8;
      do r4 <- read_exact_at f (snd r3) 1;
      Done (mk_meta FormatV2 (le_decode (fst r1)) codec (le_decode (fst r3)) (le_decode (fst r4)))
    else Fail EInvalidCodec
  else Fail EInvalidVersion.

(* ---- the declarative acceptance condition of C13, with the literals of the property text:
   the string ends with the magic of a known version, preceded by the complete metadata
   record of that version (18 bytes for V2, 17 for V1) whose 9th byte is a known codec id ---- *)
Definition byte_at_N (f : bytes) (i : N) : N := match nthN i f with Some b => b | None => 0 end.
Definition valid_trailer_suffixb (f : bytes) : bool :=
  let n := len f in
  (4 <=? n) &&
  (let magic := le_decode (skipnN (n - 4) f) in
   ((magic =? 1730401476) && (22 <=? n) && (byte_at_N f (n - 22 + 8) <=? 5))
   || ((magic =? 1983008076) && (21 <=? n) && (byte_at_N f (n - 21 + 8) <=? 5))).
