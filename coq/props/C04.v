(* C04 — Range iterators yield exactly the in-range entries, in order, for all bounds.
   Statements only.  Proved so far: the specification is the filter by both bounds; the iterator
   transcription (Iter.range_next / rev_range_next over Reader.cstep) is validated by the correspondence. *)
From Grenad.model Require Import Base Block Reader Spec Iter.
From Grenad.proofs Require Import SpecProofs.

Theorem C04_range_spec_is_filter : forall es lo hi e,
  In e (range_spec es lo hi) <-> In e es /\ lo_ok lo (fst e) = true /\ hi_ok hi (fst e) = true.
Proof. exact range_spec_in. Qed.
Print Assumptions C04_range_spec_is_filter.

(* the first call of the iterators positions by exactly one absolute move (never depends on the
   state of a fresh cursor), the following calls by exactly one relative move *)
Theorem C04_next_shape : forall step lo hi st,
  range_next step lo hi (mk_iter st false) =
  bind (step st ONext) (fun r => Done (mk_iter (fst r) false, filter_entry (hi_ok hi) (snd r))).
Proof. intros. unfold range_next. cbn [it_start it_st]. destruct (step st ONext) as [[st' e]| |]; reflexivity. Qed.
Print Assumptions C04_next_shape.

Example C04_spec_examples :
  let es := [([1], []); ([2], []); ([3], [])] in
  range_spec es (Excluded [1]) (Included [3]) = [([2], []); ([3], [])] /\
  range_spec es (Included [3]) (Excluded [1]) = [] /\ range_spec es Unbounded Unbounded = es.
Proof. vm_compute. repeat split; reflexivity. Qed.
