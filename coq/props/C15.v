(* C15 — Blocks are cut at the configured block size.  Statements only. *)
From Grenad.gen Require Import Consts.
From Grenad.model Require Import Base Block Writer.
From Grenad.proofs Require Import BlockProofs FormatProofs.

Theorem C15_constants : MIN_BLOCK_SIZE = 1024 /\ forall s, clamp_block_size s = N.max 1024 s.
Proof. split; reflexivity. Qed.
Print Assumptions C15_constants.

(* the writer's size estimate is the exact uncompressed size of the finished block, for every
   block writer state reachable by inserts *)
Theorem C15_size_exact : forall w es buf,
  bw_ok w es -> bw_finish w = Done buf -> len buf = bw_size w.
Proof. exact bw_size_exact. Qed.
Print Assumptions C15_size_exact.

(* one insert grows the estimate by the framed entry plus at most one 8-byte footer slot *)
Theorem C15_growth : forall w k v w',
  bw_insert w k v = Done w' ->
  bw_size w + len (frame k v) <= bw_size w' <= bw_size w + len (frame k v) + 8.
Proof. exact bw_insert_growth. Qed.
Print Assumptions C15_growth.
