(* C06 — K-way merge yields the ordered key union, values merged once in source order.
   Statements only.  Proved so far on the executable model: the heap discipline (pop removes exactly
   one element), which sources enter the heap, and the degenerate cases.  The full statement
   (strictly ascending union of keys, one merge call per key on the values in source order) is proved
   on the abstract merger of design-notes/Merge_probe.v and validated here on every generated case
   (outputs, the exact sequence of merge-function calls, the file written through a writer). *)
From Coq Require Import Sorting.Permutation.
From Grenad.model Require Import Base Merger.
From Grenad.proofs Require Import MergerProofs.

Theorem C06_pop_removes_one : forall l h rest, pop_min l = Some (h, rest) -> Permutation (h :: rest) l.
Proof. exact pop_min_perm. Qed.
Print Assumptions C06_pop_removes_one.

Theorem C06_heap_members : forall srcs i h, In h (init_heap srcs i) ->
  he_rest h <> [] /\ exists j, nth_error srcs j = Some (he_rest h) /\ he_idx h = i + N.of_nat j.
Proof. exact init_heap_spec. Qed.
Print Assumptions C06_heap_members.

(* no source, or only empty sources: empty output, the merge function is never called *)
Theorem C06_empty_sources : forall mf calls srcs,
  Forall (fun s => s = []) srcs -> merge_run mf calls srcs = Done ([], calls).
Proof. exact merge_run_empty. Qed.
Print Assumptions C06_empty_sources.

Example C06_example :
  merge_run mf_concat 0 [[([1], [65]); ([3], [66])]; []; [([1], [67]); ([2], [68])]]
  = Done ([([1], [65; 67]); ([2], [68]); ([3], [66])], 3).
Proof. vm_compute. reflexivity. Qed.
