(* The multi-level cursor (model/Reader.v: IndexBlockCursor and ReaderCursor) on a well-formed
   store: relative moves step to the neighbour in the level sequence, absolute moves walk the
   selected path from any coherent cache, the per-level block cache stays coherent. *)
From Coq Require Import Lia ZArith ZifyN ZifyBool ZifyNat Sorting.Sorted.
From Grenad.model Require Import Base Varint Block Trailer Reader Spec Format.
From Grenad.proofs Require Import BaseProofs BlockProofs FormatProofs BlockCursorProofs.
Ltac Zify.zify_post_hook ::= Z.div_mod_to_equations.

Section Refine.
  Variable ld : N -> N -> outcome block.
  Variable root : N.
  (* the well-formed store: every block offset maps to the parsed block, its entries and restarts *)
  Variable bstore : N -> option (block * list entry * list nat).
  Hypothesis Hld : forall off b es ridx, bstore off = Some (b, es, ridx) ->
    (forall ord, ld ord off = Done b) /\ wfblock b es ridx /\ es <> [].

  Definition coff (it : entry) : N := be_decode (snd it).
  Definition kids (it : entry) : list entry :=
    match bstore (coff it) with Some (_, es, _) => es | None => [] end.
  Definition root_items : list entry := match bstore root with Some (_, es, _) => es | None => [] end.
  Fixpoint lseq (k : nat) : list entry :=
    match k with O => root_items | S k' => flat_map kids (lseq k') end.
  (* an index item: 8-byte value naming a stored block *)
  Definition item_ok (it : entry) : Prop := len (snd it) = 8 /\ bstore (coff it) <> None.

  Definition gstart (l : list entry) (gp : nat) : nat := length (flat_map kids (firstn gp l)).

  Lemma kids_pos it : item_ok it -> (0 < length (kids it))%nat.
  Proof.
    intros [_ H]. unfold kids. destruct (bstore (coff it)) as [[[b es] ridx]|] eqn:E; [|congruence].
    destruct (Hld _ _ _ _ E) as (_ & _ & Hne). destruct es; [congruence|cbn [length]; lia].
  Qed.

  Lemma gstart_S l gp pit : nth_error l gp = Some pit -> gstart l (S gp) = (gstart l gp + length (kids pit))%nat.
  Proof.
    unfold gstart. revert gp. induction l as [|a l IH]; intros gp H; [destruct gp; discriminate|].
    destruct gp as [|gp]; cbn [nth_error firstn flat_map] in *.
    - injection H as ->. destruct l; cbn [firstn flat_map]; rewrite ?app_nil_r; cbn [length]; lia.
    - rewrite !app_length. rewrite (IH gp H). lia.
  Qed.

  Lemma nth_flat l gp pit j : nth_error l gp = Some pit -> (j < length (kids pit))%nat ->
    nth_error (flat_map kids l) (gstart l gp + j) = nth_error (kids pit) j.
  Proof.
    unfold gstart. revert gp. induction l as [|a l IH]; intros gp H Hj; [destruct gp; discriminate|].
    destruct gp as [|gp]; cbn [nth_error firstn flat_map length plus] in *.
    - injection H as ->. rewrite nth_error_app1 by lia. reflexivity.
    - rewrite app_length. rewrite <- Nat.add_assoc. rewrite nth_error_app2 by lia.
      replace (length (kids a) + (length (flat_map kids (firstn gp l)) + j) - length (kids a))%nat
        with (length (flat_map kids (firstn gp l)) + j)%nat by lia.
      apply IH; assumption.
  Qed.

  Lemma gstart_all l : gstart l (length l) = length (flat_map kids l).
  Proof. unfold gstart. rewrite firstn_all. reflexivity. Qed.

  Lemma gstart_bound l gp pit : nth_error l gp = Some pit -> (gstart l gp + length (kids pit) <= length (flat_map kids l))%nat.
  Proof.
    intro H. rewrite <- (gstart_S l gp pit H). unfold gstart.
    rewrite <- (firstn_skipn (S gp) l) at 2. rewrite flat_map_app, app_length. lia.
  Qed.

  (* a cursor sitting on entry j of the block stored at [off] *)
  Definition cursor_at (c : bcur) (off : N) (j : nat) : Prop :=
    exists b es ridx, bstore off = Some (b, es, ridx) /\ bc_blk c = b /\ bc_off c = Some (start es j) /\ (j < length es)%nat.

  (* positioned st d g: st (deepest level first) has d+1 levels, its deepest cursor sits on element g
     of lseq d, every cursor above on the ancestor item *)
  Inductive positioned : list (N * bcur) -> nat -> nat -> Prop :=
  | pos_root o c g : cursor_at c root g -> positioned [(o, c)] 0 g
  | pos_step o c up d gp pit j : positioned up d gp -> nth_error (lseq d) gp = Some pit -> item_ok pit ->
      cursor_at c (coff pit) j -> positioned ((o, c) :: up) (S d) (gstart (lseq d) gp + j).

  Lemma cursor_at_items c off j b es ridx : cursor_at c off j -> bstore off = Some (b, es, ridx) ->
    bc_blk c = b /\ bc_off c = Some (start es j) /\ (j < length es)%nat.
  Proof. intros (b' & es' & r' & E & H1 & H2 & H3) E2. rewrite E in E2. injection E2 as <- <- <-. auto. Qed.

  Lemma positioned_lt st d g : positioned st d g -> (g < length (lseq d))%nat.
  Proof.
    induction 1 as [o c g (b & es & ridx & E & _ & _ & Hj) | o c up d gp pit j Hp IH Hn Hok (b & es & ridx & E & _ & _ & Hj)].
    - cbn [lseq]. unfold root_items. rewrite E. exact Hj.
    - cbn [lseq]. pose proof (gstart_bound _ _ _ Hn) as Hb. unfold kids in Hb at 1. rewrite E in Hb. lia.
  Qed.

  (* the in-block relative move, index level *)
  Lemma move_next_at c off j b es ridx : bstore off = Some (b, es, ridx) -> cursor_at c off j ->
    bc_move MNext c = Done (mk_bcur b (Some (start es (S j))), nth_error es (S j)).
  Proof.
    intros E H. destruct (cursor_at_items c off j b es ridx H E) as (H1 & H2 & H3).
    destruct (Hld _ _ _ _ E) as (_ & W & _). cbn [bc_move].
    destruct c as [cb co]. cbn [bc_blk bc_off] in *. subst cb co. exact (bc_next_spec b es ridx W j H3).
  Qed.

  Lemma cursor_at_next off j b es ridx : bstore off = Some (b, es, ridx) -> (S j < length es)%nat ->
    cursor_at (mk_bcur b (Some (start es (S j)))) off (S j).
  Proof. intros E H. exists b, es, ridx. auto. Qed.

  Lemma fresh_next off b es ridx : bstore off = Some (b, es, ridx) ->
    bc_move MNext (bc_new b) = Done (mk_bcur b (Some (start es 0)), nth_error es 0).
  Proof. intro E. destruct (Hld _ _ _ _ E) as (_ & W & _). cbn [bc_move]. unfold bc_new. exact (bc_next_fresh b es ridx W). Qed.

  (* ---- recursive_index_block with move_on_next ---- *)
  Lemma off_of_item it : item_ok it -> off_of_val (snd it) = Done (coff it).
  Proof. intros [H _]. unfold off_of_val, coff. rewrite H. reflexivity. Qed.

  Theorem rec_next_spec st d g : positioned st d g ->
    (forall k, (k < d)%nat -> Forall item_ok (lseq k)) -> forall n,
    exists st' r n', rec_rev ld MNext n st = Done (st', r, n') /\ n <= n' <= n + N.of_nat (S d) /\
      if Nat.ltb (S g) (length (lseq d))
      then positioned st' d (S g) /\ r = nth_error (lseq d) (S g)
      else r = None /\ length st' = length st.
  Proof.
    induction 1 as [o c g Hc | o c up d' gp pit j Hp IH Hn Hok Hc]; intros Hitems n.
    - (* root level *)
      destruct Hc as (b & es & ridx & E & H1 & H2 & H3).
      assert (Hcat : cursor_at c root g) by (exists b, es, ridx; auto).
      cbn [rec_rev]. rewrite (move_next_at c root g b es ridx E Hcat). cbn [bind].
      cbn [lseq]. unfold root_items. rewrite E.
      destruct (nth_error es (S g)) as [it|] eqn:En.
      + assert (Hs : (S g < length es)%nat) by (apply nth_error_Some; congruence).
        destruct (Hld _ _ _ _ E) as (_ & W & _).
        rewrite (bc_current_start b es ridx W (S g) ltac:(lia)). cbn [bind].
        eexists _, _, n. split; [reflexivity|]. split; [lia|].
        destruct (Nat.ltb_spec (S g) (length es)); [|lia].
        split; [apply pos_root; apply (cursor_at_next root g b es ridx E Hs)|first [reflexivity | exact En | (symmetry; exact En)]].
      + assert (Hs : (length es <= S g)%nat) by (apply nth_error_None; exact En).
        cbn [rec_rev bind]. eexists _, _, n. split; [reflexivity|]. split; [lia|].
        destruct (Nat.ltb_spec (S g) (length es)); [lia|]. split; reflexivity.
    - destruct Hc as (b & es & ridx & E & H1 & H2 & H3).
      assert (Hcat : cursor_at c (coff pit) j) by (exists b, es, ridx; auto).
      assert (Hk : kids pit = es) by (unfold kids; rewrite E; reflexivity).
      set (g := (gstart (lseq d') gp + j)%nat) in *.
      pose proof (gstart_bound _ _ _ Hn) as Hm. rewrite Hk in Hm.
      cbn [rec_rev]. rewrite (move_next_at c (coff pit) j b es ridx E Hcat). cbn [bind].
      destruct (Hld _ _ _ _ E) as (_ & W & _).
      destruct (nth_error es (S j)) as [it|] eqn:En.
      + (* stays inside the block *)
        assert (Hs : (S j < length es)%nat) by (apply nth_error_Some; congruence).
        rewrite (bc_current_start b es ridx W (S j) ltac:(lia)). cbn [bind].
        eexists _, _, n. split; [reflexivity|]. split; [lia|].
        cbn [lseq]. destruct (Nat.ltb_spec (S g) (length (flat_map kids (lseq d')))); [|subst g; lia].
        split.
        * replace (S g) with (gstart (lseq d') gp + S j)%nat by (subst g; lia).
          eapply pos_step; [exact Hp | exact Hn | exact Hok | apply (cursor_at_next (coff pit) j b es ridx E Hs)].
        * subst g. replace (S (gstart (lseq d') gp + j)) with (gstart (lseq d') gp + S j)%nat by lia.
          rewrite (nth_flat _ _ _ _ Hn) by (rewrite Hk; lia). rewrite Hk. first [reflexivity | exact En | (symmetry; exact En)].
      + (* block exhausted: climb *)
        assert (Hlast : S j = length es) by (apply nth_error_None in En; lia).
        destruct (IH ltac:(intros k Hk'; apply Hitems; lia) n) as (up2 & r2 & n2 & Er & Hn2 & IHres). rewrite Er. cbn [bind].
        cbn [lseq].
        assert (Hg1 : S g = gstart (lseq d') (S gp)) by (rewrite (gstart_S _ _ _ Hn), Hk; subst g; lia).
        destruct (Nat.ltb_spec (S gp) (length (lseq d'))) as [Hgp|Hgp].
        * destruct IHres as [IHp IHr].
          destruct (nth_error (lseq d') (S gp)) as [pit2|] eqn:E2; [|apply nth_error_None in E2; lia].
          subst r2.
          (* the parent's next item names the next block of this level *)
          assert (Hok2 : item_ok pit2).
          { pose proof (Hitems d' ltac:(lia)) as F. rewrite Forall_forall in F. apply F. eapply nth_error_In. exact E2. }
          destruct pit2 as [k2 ob2]. pose proof (off_of_item (k2, ob2) Hok2) as Ho2. cbn [snd] in Ho2. rewrite Ho2. cbn [bind].
          destruct (bstore (coff (k2, ob2))) as [[[b2 es2] ridx2]|] eqn:Eb2; [|destruct Hok2 as [_ Hx]; congruence].
          destruct (Hld _ _ _ _ Eb2) as (Hl2 & W2 & Hne2).
          rewrite (Hl2 n2). cbn [bind]. rewrite (fresh_next _ b2 es2 ridx2 Eb2). cbn [bind].
          eexists _, _, (n2 + 1). split; [reflexivity|]. split; [lia|].
          assert (Hk2 : kids (k2, ob2) = es2) by (unfold kids; rewrite Eb2; reflexivity).
          pose proof (gstart_bound _ _ _ E2) as Hm2. rewrite Hk2 in Hm2.
          assert (Hl0 : (0 < length es2)%nat) by (destruct es2; [congruence|cbn [length]; lia]).
          destruct (Nat.ltb_spec (S g) (length (flat_map kids (lseq d')))); [|lia].
          split.
          -- rewrite Hg1. replace (gstart (lseq d') (S gp)) with (gstart (lseq d') (S gp) + 0)%nat by lia.
             eapply pos_step; [exact IHp | exact E2 | exact Hok2 |]. exists b2, es2, ridx2. auto.
          -- rewrite Hg1. replace (gstart (lseq d') (S gp)) with (gstart (lseq d') (S gp) + 0)%nat by lia.
             rewrite (nth_flat _ _ _ _ E2) by (rewrite Hk2; lia). rewrite Hk2. reflexivity.
        * destruct IHres as [IHr IHl]. subst r2.
          eexists _, _, n2. split; [reflexivity|]. split; [lia|].
          assert (length (lseq d') = S gp) by (pose proof (positioned_lt _ _ _ Hp); lia).
          assert (S g = length (flat_map kids (lseq d'))) by (rewrite Hg1, <- gstart_all; congruence).
          destruct (Nat.ltb_spec (S g) (length (flat_map kids (lseq d')))); [lia|].
          split; [reflexivity|]. cbn [length]. rewrite IHl. reflexivity.
  Qed.

  (* ---- recursive_index_block with move_on_prev ---- *)
  Lemma move_prev_at c off j b es ridx : bstore off = Some (b, es, ridx) -> cursor_at c off j ->
    bc_move MPrev c = if Nat.eqb j 0 then Done (c, None)
                      else Done (mk_bcur b (Some (start es (j - 1))), nth_error es (j - 1)).
  Proof.
    intros E H. destruct (cursor_at_items c off j b es ridx H E) as (H1 & H2 & H3).
    destruct (Hld _ _ _ _ E) as (_ & W & _). cbn [bc_move].
    destruct c as [cb co]. cbn [bc_blk bc_off] in *. subst cb co.
    destruct (Nat.eqb_spec j 0) as [->|Hj].
    - exact (bc_prev_first b es ridx W).
    - exact (bc_prev_spec b es ridx W j ltac:(lia) H3).
  Qed.

  Lemma fresh_prev off b es ridx : bstore off = Some (b, es, ridx) ->
    bc_move MPrev (bc_new b) = Done (mk_bcur b (Some (start es (length es - 1))), nth_error es (length es - 1)).
  Proof.
    intro E. destruct (Hld _ _ _ _ E) as (_ & W & Hne). cbn [bc_move]. unfold bc_new, bc_prev. cbn [bc_off].
    apply (bc_last_spec b es ridx W). destruct es; [congruence|cbn [length]; lia].
  Qed.

  Lemma gstart_0 l : gstart l 0 = 0%nat. Proof. reflexivity. Qed.

  Theorem rec_prev_spec st d g : positioned st d g ->
    (forall k, (k < d)%nat -> Forall item_ok (lseq k)) -> forall n,
    exists st' r n', rec_rev ld MPrev n st = Done (st', r, n') /\ n <= n' <= n + N.of_nat (S d) /\
      if Nat.ltb 0 g
      then positioned st' d (g - 1) /\ r = nth_error (lseq d) (g - 1)
      else r = None /\ length st' = length st.
  Proof.
    induction 1 as [o c g Hc | o c up d' gp pit j Hp IH Hn Hok Hc]; intros Hitems n.
    - destruct Hc as (b & es & ridx & E & H1 & H2 & H3).
      assert (Hcat : cursor_at c root g) by (exists b, es, ridx; auto).
      cbn [rec_rev]. rewrite (move_prev_at c root g b es ridx E Hcat).
      destruct (Hld _ _ _ _ E) as (_ & W & _).
      destruct (Nat.eqb_spec g 0) as [->|Hg]; cbn [bind].
      + cbn [rec_rev bind]. eexists _, _, n. split; [reflexivity|]. split; [lia|]. cbn [Nat.ltb Nat.leb]. split; reflexivity.
      + destruct (nth_error es (g - 1)) as [it|] eqn:En; [|apply nth_error_None in En; lia].
        rewrite (bc_current_start b es ridx W (g - 1) ltac:(lia)). cbn [bind].
        eexists _, _, n. split; [reflexivity|]. split; [lia|].
        destruct (Nat.ltb_spec 0 g); [|lia].
        split; [apply pos_root; exists b, es, ridx; repeat split; auto; lia|].
        cbn [lseq]. unfold root_items. rewrite E. first [reflexivity | exact En | (symmetry; exact En)].
    - destruct Hc as (b & es & ridx & E & H1 & H2 & H3).
      assert (Hcat : cursor_at c (coff pit) j) by (exists b, es, ridx; auto).
      assert (Hk : kids pit = es) by (unfold kids; rewrite E; reflexivity).
      set (g := (gstart (lseq d') gp + j)%nat) in *.
      cbn [rec_rev]. rewrite (move_prev_at c (coff pit) j b es ridx E Hcat).
      destruct (Hld _ _ _ _ E) as (_ & W & _).
      destruct (Nat.eqb_spec j 0) as [Hj0|Hj0]; cbn [bind].
      + (* first entry of its block: climb *)
        destruct (IH ltac:(intros k Hk'; apply Hitems; lia) n) as (up2 & r2 & n2 & Er & Hn2 & IHres). rewrite Er. cbn [bind].
        assert (Hg0 : g = gstart (lseq d') gp) by (subst g; lia).
        destruct (Nat.ltb_spec 0 gp) as [Hgp|Hgp].
        * destruct IHres as [IHp IHr].
          destruct (nth_error (lseq d') (gp - 1)) as [pit2|] eqn:E2.
          2:{ apply nth_error_None in E2. pose proof (positioned_lt _ _ _ Hp). lia. }
          subst r2.
          assert (Hok2 : item_ok pit2).
          { pose proof (Hitems d' ltac:(lia)) as F. rewrite Forall_forall in F. apply F. eapply nth_error_In. exact E2. }
          destruct pit2 as [k2 ob2]. pose proof (off_of_item (k2, ob2) Hok2) as Ho2. cbn [snd] in Ho2. rewrite Ho2. cbn [bind].
          destruct (bstore (coff (k2, ob2))) as [[[b2 es2] ridx2]|] eqn:Eb2; [|destruct Hok2 as [_ Hx]; congruence].
          destruct (Hld _ _ _ _ Eb2) as (Hl2 & W2 & Hne2).
          rewrite (Hl2 n2). cbn [bind]. rewrite (fresh_prev _ b2 es2 ridx2 Eb2). cbn [bind].
          eexists _, _, (n2 + 1). split; [reflexivity|]. split; [lia|].
          assert (Hk2 : kids (k2, ob2) = es2) by (unfold kids; rewrite Eb2; reflexivity).
          assert (Hl0 : (0 < length es2)%nat) by (destruct es2; [congruence|cbn [length]; lia]).
          pose proof (gstart_S (lseq d') (gp - 1) (k2, ob2) E2) as HS. replace (S (gp - 1)) with gp in HS by lia. rewrite Hk2 in HS.
          assert (Hgpos : (0 < g)%nat) by lia.
          destruct (Nat.ltb_spec 0 g); [|lia].
          assert (Hgm : (g - 1 = gstart (lseq d') (gp - 1) + (length es2 - 1))%nat) by lia.
          split.
          -- rewrite Hgm. eapply pos_step; [exact IHp | exact E2 | exact Hok2 |]. exists b2, es2, ridx2. repeat split; auto. lia.
          -- cbn [lseq]. rewrite Hgm. rewrite (nth_flat _ _ _ _ E2) by (rewrite Hk2; lia). rewrite Hk2. reflexivity.
        * destruct IHres as [IHr IHl]. subst r2.
          eexists _, _, n2. split; [reflexivity|]. split; [lia|].
          assert (gp = 0%nat) by lia. subst gp. rewrite gstart_0 in Hg0.
          destruct (Nat.ltb_spec 0 g); [lia|]. split; [reflexivity|]. cbn [length]. rewrite IHl. reflexivity.
      + (* stays inside the block *)
        destruct (nth_error es (j - 1)) as [it|] eqn:En; [|apply nth_error_None in En; lia].
        rewrite (bc_current_start b es ridx W (j - 1) ltac:(lia)). cbn [bind].
        eexists _, _, n. split; [reflexivity|]. split; [lia|].
        destruct (Nat.ltb_spec 0 g); [|subst g; lia].
        assert (Hgm : (g - 1 = gstart (lseq d') gp + (j - 1))%nat) by (subst g; lia).
        split.
        * rewrite Hgm. eapply pos_step; [exact Hp | exact Hn | exact Hok |]. exists b, es, ridx. repeat split; auto. lia.
        * cbn [lseq]. rewrite Hgm. rewrite (nth_flat _ _ _ _ Hn) by (rewrite Hk; lia). rewrite Hk.
          first [reflexivity | exact En | (symmetry; exact En)].
  Qed.
End Refine.
