From Coq Require Import List NArith Lia ZArith ZifyN ZifyBool ZifyNat Bool.
From P Require Import Varint_probe.
Import ListNotations.
Open Scope N_scope.

(* Probe for the block layer: entry framing (block_writer.rs:116-122) and Block::entry_at (block.rs:86-114)
   at the byte level; entries sit at offsets off_of i and entry_at walks them exactly. *)
Notation bytes := (list N) (only parsing).
Definition len (l : list N) : N := N.of_nat (length l).

Definition frame (kv : list N * list N) : list N :=
  varint_encode32 (len (fst kv)) ++ varint_encode32 (len (snd kv)) ++ fst kv ++ snd kv.
Definition payload (es : list (list N * list N)) : list N := flat_map frame es.
Definition off_of (es : list (list N * list N)) (i : nat) : N := len (payload (firstn i es)).

(* entry_at over a payload; slicing beyond the payload would panic in Rust, here: None *)
Definition take (n : N) (l : list N) := firstn (N.to_nat n) l.
Definition drop (n : N) (l : list N) := skipn (N.to_nat n) l.
Definition entry_at (pl : list N) (off : N) : option (list N * list N * N) :=
  if len pl <=? off then None else
  let r0 := drop off pl in
  let (kl, a) := varint_decode32 r0 in
  let r1 := drop a r0 in
  let (vl, b) := varint_decode32 r1 in
  let r2 := drop b r1 in
  if len r2 <? kl + vl then None else
  Some (take kl r2, take vl (drop kl r2), off + a + b + kl + vl).

Definition entry_ok (kv : list N * list N) := len (fst kv) < 2^32 /\ len (snd kv) < 2^32.

Lemma len_app a b : len (a ++ b) = len a + len b.
Proof. unfold len. rewrite app_length. lia. Qed.
Lemma drop_app_len a b : drop (len a) (a ++ b) = b.
Proof. unfold drop, len. rewrite Nat2N.id. rewrite skipn_app, skipn_all, Nat.sub_diag. reflexivity. Qed.
Lemma take_app_len a b : take (len a) (a ++ b) = a.
Proof. unfold take, len. rewrite Nat2N.id. rewrite firstn_app, firstn_all, Nat.sub_diag. cbn. apply app_nil_r. Qed.

Lemma drop_0 (l : list N) : drop 0 l = l.
Proof. reflexivity. Qed.

Lemma frame_len kv : entry_ok kv ->
  len (frame kv) = len (varint_encode32 (len (fst kv))) + len (varint_encode32 (len (snd kv))) + len (fst kv) + len (snd kv)
  /\ 2 <= len (frame kv).
Proof.
  intros [Hk Hv]. unfold frame. rewrite !len_app. split; [lia|].
  destruct (C14_varint (len (fst kv)) [] Hk) as ((A & _) & _). destruct (C14_varint (len (snd kv)) [] Hv) as ((B & _) & _).
  cbv zeta in A, B. clear Hk Hv. unfold len in *. lia.
Qed.

(* decoding the frame that starts a byte string *)
Lemma entry_at_head kv rest : entry_ok kv ->
  entry_at (frame kv ++ rest) 0 = Some (fst kv, snd kv, len (frame kv)).
Proof.
  intros Hok. destruct Hok as [Hk Hv]. destruct kv as [k v]. cbn [fst snd] in *.
  pose proof (frame_len (k, v) (conj Hk Hv)) as [FL F2]. cbn [fst snd] in FL.
  unfold entry_at. rewrite len_app.
  destruct (N.leb_spec (len (frame (k, v)) + len rest) 0); [lia|].
  cbv zeta. rewrite !drop_0.
  unfold frame. cbn [fst snd]. rewrite <- !app_assoc.
  destruct (C14_varint (len k) (varint_encode32 (len v) ++ k ++ v ++ rest) Hk) as (_ & _ & D1). cbv zeta in D1. rewrite D1. cbv beta iota.
  fold (len (varint_encode32 (len k))). rewrite !drop_app_len.
  destruct (C14_varint (len v) (k ++ v ++ rest) Hv) as (_ & _ & D2). cbv zeta in D2. rewrite D2. cbv beta iota.
  fold (len (varint_encode32 (len v))). rewrite !drop_app_len.
  rewrite !len_app. destruct (N.ltb_spec (len k + (len v + len rest)) (len k + len v)); [lia|].
  rewrite !take_app_len. f_equal. f_equal. lia.
Qed.

Lemma payload_split es i : payload es = payload (firstn i es) ++ payload (skipn i es).
Proof. unfold payload. rewrite <- flat_map_app, firstn_skipn. reflexivity. Qed.

Lemma off_of_cons e r i : off_of (e :: r) (S i) = len (frame e) + off_of r i.
Proof. unfold off_of. cbn [firstn payload flat_map]. rewrite len_app. reflexivity. Qed.
Lemma off_of_0 es : off_of es 0 = 0.
Proof. reflexivity. Qed.

Lemma off_of_S es i kv : nth_error es i = Some kv -> off_of es (S i) = off_of es i + len (frame kv).
Proof.
  revert i. induction es as [|e r IH]; intros [|i] H; try discriminate; cbn in H.
  - inversion H; subst. rewrite off_of_cons, !off_of_0. lia.
  - rewrite !off_of_cons. rewrite (IH i H). lia.
Qed.

Theorem entry_at_nth es i kv : Forall entry_ok es -> nth_error es i = Some kv ->
  entry_at (payload es) (off_of es i) = Some (fst kv, snd kv, off_of es (S i)).
Proof.
  intros Hok Hn. assert (Hkv : entry_ok kv) by (rewrite Forall_forall in Hok; apply Hok; eapply nth_error_In; eauto).
  rewrite (off_of_S es i kv Hn).
  assert (Hs : skipn i es = kv :: skipn (S i) es).
  { clear -Hn. revert i Hn. induction es as [|e r IH]; intros [|i] H; try discriminate; cbn in *; [inversion H; reflexivity|apply IH; exact H]. }
  rewrite (payload_split es i), Hs. cbn [payload flat_map]. fold (payload (skipn (S i) es)).
  set (pre := payload (firstn i es)). set (rest := payload (skipn (S i) es)).
  unfold off_of. fold pre.
  (* shift the window: entry_at (pre ++ x) (len pre + o) relates to entry_at x o *)
  pose proof (entry_at_head kv rest Hkv) as H0.
  unfold entry_at in *. rewrite len_app.
  pose proof (frame_len kv Hkv) as [_ F2]. rewrite len_app in *.
  destruct (N.leb_spec (len pre + (len (frame kv) + len rest)) (len pre)); [lia|].
  destruct (N.leb_spec (len (frame kv) + len rest) 0); [lia|].
  rewrite !drop_app_len. rewrite !drop_0 in H0.
  destruct (varint_decode32 (frame kv ++ rest)) as [kl a].
  destruct (varint_decode32 (drop a (frame kv ++ rest))) as [vl b].
  destruct (len (drop b (drop a (frame kv ++ rest))) <? kl + vl); [discriminate|].
  injection H0 as E1 E2 E3. rewrite E1, E2. f_equal. f_equal. lia.
Qed.

Theorem entry_at_end es : entry_at (payload es) (off_of es (length es)) = None.
Proof. unfold entry_at, off_of. rewrite firstn_all. rewrite N.leb_refl. reflexivity. Qed.

(* offsets are strictly increasing: distinct entries have distinct offsets *)
Lemma off_of_mono es i j : Forall entry_ok es -> (i < j <= length es)%nat -> off_of es i < off_of es j.
Proof.
  intros Hok [Hij Hj]. induction j as [|j IH]; [lia|].
  destruct (nth_error es j) as [kv|] eqn:E; [|apply nth_error_None in E; lia].
  rewrite (off_of_S es j kv E).
  assert (entry_ok kv) by (rewrite Forall_forall in Hok; apply Hok; eapply nth_error_In; eauto).
  pose proof (frame_len kv H) as [_ F2].
  destruct (Nat.eq_dec i j) as [->|Hne]; [lia|]. specialize (IH ltac:(lia) ltac:(lia)). lia.
Qed.
Print Assumptions entry_at_nth.
