(* The sorter with its chunks as FILES, over a plain, a scheduled and a faulty chunk storage.

   model/Sorter.v represents a chunk by the list of entries it holds.  Here the same sorter is written
   over chunk files: write_chunk and merge_chunks push their (sorted, merged) entries through the Writer
   model into a byte string, merge_chunks and the final merge open every chunk file (Reader::new: the
   trailer), put a fresh cursor on it and run the merger over those cursors (move_on_next only).

   Generic part: the sorter over ANY chunk storage given by two functions - [wfile n es] writes the chunk
   created as number n, [mergef n mf calls files] opens and merges chunk files during the operation that
   follows creation number n - that meet a contract: a written chunk represents its entries or the write
   fails with an excused error; a merge of files representing sorted lists is the merge of those lists or
   fails with an excused error.  [gf_refines]: such a sorter returns exactly what the list-level sorter
   returns, or fails with an excused error - never another result, never another error, never a panic of
   its own - for every configuration, every merge function whose values fit the u32 length limit (pure or
   not, failing or not) and every insert sequence of fewer than 2^32 - 2 entries.

   Three storages meet the contract:
   - the plain one (Writer model over a Vec, Reader + cursor + merger over cursors), excused error: the
     chunk file left the physical envelope of 2^64 bytes (Fail EFuel)            -> [file_sorter_refines] (C07)
   - the same with every write of the sink and every read of the source split or interrupted by benign
     schedules of their own                                                      -> [sched_sorter_refines] (C11)
   - the same with, per chunk written, a sink that fails the write of one byte position or its flush, and
     per merge, sources whose trailer read fails or whose loader fails one block load; excused: the
     injected I/O error, an error the merge function itself returned             -> [faulty_sorter_refines] (C12)
   So every list-level theorem about the sorter (C07 output, C08 bounds, C12 creator faults) is a theorem
   about the sorter that really writes and re-reads its chunks, and "a chunk may be replaced by the entries
   it holds" is no longer a modelling assumption.  Composition of: chunks are strictly ascending
   (SorterChunks), writer progress and the written file is a well-formed store (WriterProgress,
   WriterStore), the empty file (EmptyFile), a fresh cursor over a well-formed store yields its content and
   the merger over cursors is the merger over lists (MergeCursors), writer and reader under schedules
   (IoWriter, IoReader), writer over a failing sink and merger over failing sources (IoWriter,
   MergeSourceFault). *)
From Coq Require Import Lia ZArith ZifyN ZifyBool ZifyNat Sorted Permutation.
From Grenad.gen Require Import Consts.
From Grenad.model Require Import Base Block Trailer Writer Reader Spec Merger Sorter IoModel.
From Grenad.proofs Require Import BaseProofs SortedFacts BlockProofs MergerProofs MergeRefine MergeWriter MergeCursors
  SorterChunks WriterStore WriterProgress ReaderRefine EmptyFile SpecProofs SorterRefine
  IoProofs WriterHom IoWriter IoReader MergeSourceFault BlockCursorProofs.
Ltac Zify.zify_post_hook ::= Z.div_mod_to_equations.

Record fstate : Type := mk_fstate {
  ff_pending : list entry; ff_buf : ebuf; ff_files : list bytes; ff_calls : N; ff_events : list sevent }.

Definition f_new (c : scfg) : fstate := mk_fstate [] (mk_ebuf (round_up (sc_init_cap c)) 0 0) [] 0 [].

(* ================= the sorter over an abstract chunk storage ================= *)
Section Generic.
  Variable wfile : N -> list entry -> outcome bytes.
  Variable mergef : N -> mergefn -> N -> list bytes -> outcome (list entry * N).

  (* write_chunk: create (number n = creations so far), sort, group, merge, write *)
  Definition gf_write_chunk (mf : mergefn) (st : fstate) : outcome fstate :=
    let sorted := sort_entries (rev (ff_pending st)) in
    do r <- merge_groups mf (ff_calls st) (group_sorted sorted);
    do f <- wfile (creates (ff_events st)) (fst r);
    let b := ff_buf st in
    Done (mk_fstate [] (mk_ebuf (eb_L b) 0 0) (ff_files st ++ [f]) (snd r)
                    (EvSpill (len (ff_files st) + 1) :: EvCreate :: ff_events st)).

  (* merge_chunks: create, open and merge every chunk, write the result *)
  Definition gf_merge_chunks (mf : mergefn) (st : fstate) : outcome fstate :=
    do r <- mergef (creates (ff_events st)) mf (ff_calls st) (ff_files st);
    do f <- wfile (creates (ff_events st)) (fst r);
    Done (mk_fstate (ff_pending st) (ff_buf st) [f] (snd r)
                    (EvMerge (len (ff_files st)) :: EvCreate :: ff_events st)).

  Definition gf_insert (c : scfg) (mf : mergefn) (st : fstate) (k v : bytes) : outcome fstate :=
    if (U32_MAX <? len k) || (U32_MAX <? len v) then Panic else
    let sz := entry_sz k v in
    do f <- eb_fits (ff_buf st) sz;
    let threshold_exceeded := sc_threshold c <=? eb_L (ff_buf st) in
    if f || (negb threshold_exceeded && sc_realloc c) then
      do b <- eb_insert 80 (ff_buf st) sz;
      Done (mk_fstate ((k, v) :: ff_pending st) b (ff_files st) (ff_calls st) (ff_events st))
    else
      do st1 <- gf_write_chunk mf st;
      do b <- eb_insert 80 (ff_buf st1) sz;
      let st2 := mk_fstate [(k, v)] b (ff_files st1) (ff_calls st1) (ff_events st1) in
      if sc_max_chunks c <=? len (ff_files st2) then gf_merge_chunks mf st2 else Done st2.

  Fixpoint gf_inserts (c : scfg) (mf : mergefn) (st : fstate) (ins : list entry) : outcome fstate :=
    match ins with
    | [] => Done st
    | (k, v) :: r => do st' <- gf_insert c mf st k v; gf_inserts c mf st' r
    end.

  (* into_stream_merger_iter: flush, open every chunk, merge; also the chunk files (into_reader_cursors) *)
  Definition gf_finish (mf : mergefn) (st : fstate) : outcome (list entry * list bytes) :=
    do st1 <- gf_write_chunk mf st;
    do r <- mergef (creates (ff_events st1)) mf (ff_calls st1) (ff_files st1);
    Done (fst r, ff_files st1).

  Definition gf_run (c : scfg) (mf : mergefn) (ins : list entry) : outcome (list entry) :=
    do st <- gf_inserts c mf (f_new c) ins;
    do r <- gf_finish mf st;
    Done (fst r).

  (* ---- the contract of a chunk storage ---- *)
  Variable rep : bytes -> list entry -> Prop.      (* the file represents these entries *)
  Variable bad : err -> Prop.                      (* the errors the storage is excused for *)
  Variable mf : mergefn.
  Hypothesis mf_values_ok : forall n k vs v, mf n k vs = Done v -> len v <= U32_MAX.
  Hypothesis wfile_spec : forall n es, ssorted es -> entries_ok es -> len es + 1 <= U32_MAX ->
    (exists e, wfile n es = Fail e /\ bad e) \/ exists f, wfile n es = Done f /\ rep f es.
  Hypothesis mergef_spec : forall n calls fs ess, Forall2 rep fs ess ->
    (exists e, mergef n mf calls fs = Fail e /\ bad e) \/ mergef n mf calls fs = merge_run mf calls ess.

  (* ---- facts about the list-level chunks ---- *)
  Lemma SS_blt_NoDup l : StronglySorted blt l -> NoDup l.
  Proof.
    induction 1 as [|a l _ IH Hf]; constructor; [|exact IH].
    intro Hin. rewrite Forall_forall in Hf. specialize (Hf a Hin). unfold blt in Hf. rewrite bytes_ltb_irrefl in Hf. discriminate.
  Qed.

  Lemma merge_groups_vals : forall gs calls out n, merge_groups mf calls gs = Done (out, n) ->
    Forall (fun e => len (snd e) <= U32_MAX) out /\ length out = length gs.
  Proof.
    induction gs as [|[k vs] gs IH]; intros calls out n H; cbn [merge_groups] in H.
    - injection H as <- _. split; [constructor|reflexivity].
    - destruct (mf calls k vs) as [v| |] eqn:Ev; cbn [bind] in H; try discriminate.
      destruct (merge_groups mf (calls + 1) gs) as [[rest n']| |] eqn:E; cbn [bind fst snd] in H; try discriminate.
      injection H as <- _. destruct (IH _ _ _ E) as [A B]. split; [constructor; [exact (mf_values_ok _ _ _ _ Ev)|exact A]|cbn [length]; lia].
  Qed.

  (* the chunk write_chunk produces from the pending entries *)
  Lemma chunk_of_pending pend calls ch n : entries_ok pend ->
    merge_groups mf calls (group_sorted (sort_entries (rev pend))) = Done (ch, n) ->
    ssorted ch /\ entries_ok ch /\ (length ch <= length pend)%nat.
  Proof.
    intros Hok H.
    destruct (group_sorted_spec (sort_entries (rev pend)) (sort_entries_sorted _)) as (A & B & _). cbv zeta in A, B.
    pose proof (merge_groups_keys mf _ _ _ _ H) as Ek. destruct (merge_groups_vals _ _ _ _ H) as [Hv Hl].
    assert (Hin : forall k, In k (map fst ch) -> In k (map fst pend)).
    { intros k Hk. rewrite Ek in Hk. apply B in Hk. apply in_map_iff in Hk. destruct Hk as (e & <- & He). apply in_map.
      apply (Permutation_in _ (sort_entries_perm _)) in He. apply in_rev. exact He. }
    split; [unfold ssorted, keys; rewrite Ek; exact A|]. split.
    - unfold entries_ok in *. rewrite Forall_forall in *. intros e He. split; [|exact (Hv e He)].
      pose proof (Hin (fst e) (in_map fst _ _ He)) as Hk. apply in_map_iff in Hk. destruct Hk as (e' & E' & He'). rewrite <- E'. exact (proj1 (Hok e' He')).
    - rewrite <- (map_length fst ch), <- (map_length fst pend). apply NoDup_incl_length; [|exact Hin].
      rewrite Ek. apply SS_blt_NoDup. exact A.
  Qed.

  (* the chunk merge_chunks (and the final merge) produces from sorted chunks *)
  Lemma chunk_of_merge calls srcs out n : Forall ssorted srcs -> Forall entries_ok srcs ->
    merge_run mf calls srcs = Done (out, n) ->
    ssorted out /\ entries_ok out /\ (length out <= total_len srcs)%nat.
  Proof.
    intros Hs Hok H. destruct (merge_output_sorted mf calls srcs out n Hs H) as (A & B & _).
    rewrite (merge_run_calls mf calls srcs Hs) in H. destruct (run_calls_done mf _ calls out n H) as (_ & _ & F).
    assert (Hsrt : StronglySorted blt (map fst out)) by (apply sorted_strictb_SS; exact A).
    split; [exact Hsrt|]. split.
    - unfold entries_ok. apply Forall_forall. intros e He. split.
      + destruct (proj1 (B (fst e)) (in_map fst _ _ He)) as (s & Hin & Hk). rewrite Forall_forall in Hok. specialize (Hok s Hin).
        unfold keys in Hk. apply in_map_iff in Hk. destruct Hk as (e' & E' & He'). rewrite <- E'.
        unfold entries_ok in Hok. rewrite Forall_forall in Hok. exact (proj1 (Hok e' He')).
      + clear -F He mf_values_ok. induction F as [|c e' cs out' (j & Ej & _) _ IH]; [destruct He|].
        destruct He as [<-|He]; [exact (mf_values_ok _ _ _ _ Ej)|exact (IH He)].
    - assert (E : total_len srcs = length (flat_map keys srcs)).
      { clear. induction srcs as [|s r IH]; [reflexivity|]. rewrite total_len_cons. cbn [flat_map]. rewrite app_length, <- IH. unfold keys. rewrite map_length. reflexivity. }
      rewrite E, <- (map_length fst out). apply NoDup_incl_length; [apply SS_blt_NoDup; exact Hsrt|].
      intros k Hk. destruct (proj1 (B k) Hk) as (s & Hin & Hks). apply in_flat_map. exists s. split; assumption.
  Qed.

  (* ---- the simulation ---- *)
  Definition fsim (fs : fstate) (st : sstate) : Prop :=
    ff_pending fs = ss_pending st /\ ff_buf fs = ss_buf st /\ ff_calls fs = ss_calls st /\ ff_events fs = ss_events st /\
    Forall2 rep (ff_files fs) (ss_chunks st).
  (* what the list-level state keeps: chunks ascending, lengths within the u32 limit, at most n entries alive *)
  Definition SInv (st : sstate) (n : nat) : Prop :=
    Forall ssorted (ss_chunks st) /\ Forall entries_ok (ss_chunks st) /\ entries_ok (ss_pending st) /\
    (total_len (ss_chunks st) + length (ss_pending st) <= n)%nat.
  Notation orel := (orel bad).

  Lemma Forall2_len {A B} (R : A -> B -> Prop) l l' : Forall2 R l l' -> len l = len l'.
  Proof. intro H. rewrite !len_length. f_equal. induction H; cbn [length]; congruence. Qed.

  Lemma total_len_app a b : total_len (a ++ b) = (total_len a + total_len b)%nat.
  Proof. induction a as [|x a IH]; [reflexivity|]. cbn [app]. rewrite !total_len_cons, IH. lia. Qed.

  Lemma write_chunk_sim fs st n : fsim fs st -> SInv st n -> N.of_nat n + 1 <= U32_MAX ->
    orel (fun fs' st' => fsim fs' st' /\ SInv st' n /\ ss_pending st' = [] /\ ss_buf st' = mk_ebuf (eb_L (ss_buf st)) 0 0)
         (gf_write_chunk mf fs) (s_write_chunk mf st).
  Proof.
    destruct fs as [p b files calls ev]. destruct st as [p' b' chunks calls' ev'].
    unfold fsim, SInv. cbn [ff_pending ff_buf ff_files ff_calls ff_events ss_pending ss_buf ss_chunks ss_calls ss_events].
    intros (<- & <- & <- & <- & HF) (Hs & Hok & Hp & Hn) Hb.
    unfold gf_write_chunk, s_write_chunk. cbn [ff_pending ff_buf ff_files ff_calls ff_events ss_pending ss_buf ss_chunks ss_calls ss_events].
    destruct (merge_groups mf calls (group_sorted (sort_entries (rev p)))) as [[ch n']| |] eqn:E; cbn [bind fst snd];
      [|apply orel_panic|apply orel_fail].
    destruct (chunk_of_pending p calls ch n' Hp E) as (Hcs & Hcok & Hcl).
    destruct (wfile_spec (creates ev) ch Hcs Hcok ltac:(rewrite len_length; lia)) as [(e & Ef & Hbad)|(f & Ef & Hcf)]; rewrite Ef; cbn [bind];
      [apply orel_early; exact Hbad|].
    apply orel_done. cbn [ff_pending ff_buf ff_files ff_calls ff_events ss_pending ss_buf ss_chunks ss_calls ss_events].
    rewrite (Forall2_len _ _ _ HF). split; [repeat split; try reflexivity; apply Forall2_app; [exact HF|constructor; [exact Hcf|constructor]]|].
    split; [|split; reflexivity]. split; [apply Forall_app; split; [exact Hs|constructor; [exact Hcs|constructor]]|].
    split; [apply Forall_app; split; [exact Hok|constructor; [exact Hcok|constructor]]|]. split; [constructor|].
    rewrite total_len_app. cbn [total_len fold_right length]. lia.
  Qed.

  Lemma merge_chunks_sim fs st n : fsim fs st -> SInv st n -> N.of_nat n + 1 <= U32_MAX ->
    orel (fun fs' st' => fsim fs' st' /\ SInv st' n) (gf_merge_chunks mf fs) (s_merge_chunks mf st).
  Proof.
    destruct fs as [p b files calls ev]. destruct st as [p' b' chunks calls' ev'].
    unfold fsim, SInv. cbn [ff_pending ff_buf ff_files ff_calls ff_events ss_pending ss_buf ss_chunks ss_calls ss_events].
    intros (<- & <- & <- & <- & HF) (Hs & Hok & Hp & Hn) Hb.
    unfold gf_merge_chunks, s_merge_chunks. cbn [ff_pending ff_buf ff_files ff_calls ff_events ss_pending ss_buf ss_chunks ss_calls ss_events].
    destruct (mergef_spec (creates ev) calls files chunks HF) as [(e & Em & Hbad)|Em]; rewrite Em; [cbn [bind]; apply orel_early; exact Hbad|].
    destruct (merge_run mf calls chunks) as [[out n']| |] eqn:E; cbn [bind fst snd]; [|apply orel_panic|apply orel_fail].
    destruct (chunk_of_merge calls chunks out n' Hs Hok E) as (Hcs & Hcok & Hcl).
    destruct (wfile_spec (creates ev) out Hcs Hcok ltac:(rewrite len_length; lia)) as [(e & Ef & Hbad)|(f & Ef & Hcf)]; rewrite Ef; cbn [bind];
      [apply orel_early; exact Hbad|].
    apply orel_done. cbn [ff_pending ff_buf ff_files ff_calls ff_events ss_pending ss_buf ss_chunks ss_calls ss_events].
    rewrite (Forall2_len _ _ _ HF). split; [repeat split; try reflexivity; constructor; [exact Hcf|constructor]|].
    split; [constructor; [exact Hcs|constructor]|]. split; [constructor; [exact Hcok|constructor]|]. split; [exact Hp|].
    cbn [total_len fold_right]. lia.
  Qed.

  Lemma insert_sim c fs st n k v : fsim fs st -> SInv st n -> N.of_nat (S n) + 1 <= U32_MAX ->
    orel (fun fs' st' => fsim fs' st' /\ SInv st' (S n)) (gf_insert c mf fs k v) (s_insert c mf st k v).
  Proof.
    intros Hsim Hinv Hb. unfold gf_insert, s_insert. generalize 80%nat. intro fuel.
    destruct ((U32_MAX <? len k) || (U32_MAX <? len v)) eqn:Eg; [apply orel_panic|].
    assert (Hkv : entry_ok (k, v)).
    { apply orb_false_iff in Eg. destruct Eg as [A B]. apply N.ltb_ge in A, B. split; assumption. }
    pose proof Hsim as (Ep & Eb & Ec & Ee & HF). pose proof Hinv as (Hs & Hok & Hp & Hn).
    rewrite Eb. destruct (eb_fits (ss_buf st) (entry_sz k v)) as [f| |]; cbn [bind]; [|apply orel_panic|apply orel_fail].
    destruct (f || (negb (sc_threshold c <=? eb_L (ss_buf st)) && sc_realloc c)).
    - destruct (eb_insert fuel (ss_buf st) (entry_sz k v)) as [b1| |]; cbn [bind]; [|apply orel_panic|apply orel_fail].
      apply orel_done. split.
      + unfold fsim. cbn [ff_pending ff_buf ff_files ff_calls ff_events ss_pending ss_buf ss_chunks ss_calls ss_events]. rewrite Ep, Ec, Ee. auto.
      + unfold SInv. cbn [ss_pending ss_chunks]. split; [exact Hs|]. split; [exact Hok|]. split; [constructor; assumption|cbn [length]; lia].
    - eapply orel_bind; [exact (write_chunk_sim fs st n Hsim Hinv ltac:(lia))|].
      intros fs1 st1 (Hsim1 & Hinv1 & Hp1 & Hb1). pose proof Hsim1 as (Ep1 & Eb1 & Ec1 & Ee1 & HF1). pose proof Hinv1 as (Hs1 & Hok1 & _ & Hn1).
      rewrite Eb1. destruct (eb_insert fuel (ss_buf st1) (entry_sz k v)) as [b1| |]; cbn [bind]; [|apply orel_panic|apply orel_fail].
      cbn [ff_files ss_chunks]. rewrite (Forall2_len _ _ _ HF1).
      set (fs2 := mk_fstate [(k, v)] b1 (ff_files fs1) (ff_calls fs1) (ff_events fs1)).
      set (st2 := mk_sstate [(k, v)] b1 (ss_chunks st1) (ss_calls st1) (ss_events st1)).
      assert (Hsim2 : fsim fs2 st2).
      { unfold fsim, fs2, st2. cbn [ff_pending ff_buf ff_files ff_calls ff_events ss_pending ss_buf ss_chunks ss_calls ss_events]. auto. }
      assert (Hinv2 : SInv st2 (S n)).
      { unfold SInv, st2. cbn [ss_pending ss_chunks]. split; [exact Hs1|]. split; [exact Hok1|]. split; [constructor; [exact Hkv|constructor]|].
        rewrite Hp1 in Hn1. cbn [length] in *. lia. }
      destruct (sc_max_chunks c <=? len (ss_chunks st1)).
      + exact (merge_chunks_sim fs2 st2 (S n) Hsim2 Hinv2 Hb).
      + apply orel_done. split; assumption.
  Qed.

  Lemma inserts_sim c : forall ins fs st n, fsim fs st -> SInv st n -> N.of_nat (n + length ins) + 1 <= U32_MAX ->
    orel (fun fs' st' => fsim fs' st' /\ SInv st' (n + length ins)) (gf_inserts c mf fs ins) (s_inserts c mf st ins).
  Proof.
    induction ins as [|[k v] ins IH]; intros fs st n Hsim Hinv Hb; cbn [gf_inserts s_inserts length].
    - apply orel_done. rewrite Nat.add_0_r. split; assumption.
    - cbn [length] in Hb. eapply orel_bind; [exact (insert_sim c fs st n k v Hsim Hinv ltac:(lia))|].
      intros fs1 st1 [Hsim1 Hinv1]. replace (n + S (length ins))%nat with (S n + length ins)%nat by lia.
      apply IH; [assumption|assumption|]. replace (S n + length ins)%nat with (n + S (length ins))%nat by lia. exact Hb.
  Qed.

  Lemma finish_sim fs st n : fsim fs st -> SInv st n -> N.of_nat n + 1 <= U32_MAX ->
    orel (fun x y => fst x = fst y /\ Forall2 rep (snd x) (snd y)) (gf_finish mf fs) (s_finish mf st).
  Proof.
    intros Hsim Hinv Hb. unfold gf_finish, s_finish.
    eapply orel_bind; [exact (write_chunk_sim fs st n Hsim Hinv Hb)|].
    intros fs1 st1 ((Ep1 & Eb1 & Ec1 & Ee1 & HF1) & _).
    destruct (mergef_spec (creates (ff_events fs1)) (ff_calls fs1) (ff_files fs1) (ss_chunks st1) HF1) as [(e & Em & Hbad)|Em]; rewrite Em;
      [cbn [bind]; apply orel_early; exact Hbad|]. rewrite Ec1.
    destruct (merge_run mf (ss_calls st1) (ss_chunks st1)) as [[out n']| |]; cbn [bind fst snd]; [|apply orel_panic|apply orel_fail].
    apply orel_done. split; [reflexivity|exact HF1].
  Qed.

  Lemma sim0 c : fsim (f_new c) (s_new c) /\ SInv (s_new c) 0.
  Proof. unfold fsim, SInv, f_new, s_new; cbn. repeat split; constructor. Qed.

  (* ---- the sorter over this storage is the sorter over entry lists ---- *)
  Theorem gf_refines_rel c ins : len ins + 1 <= U32_MAX -> orel eq (gf_run c mf ins) (sorter_run c mf ins).
  Proof.
    intro Hb. unfold gf_run, sorter_run. rewrite len_length in Hb. destruct (sim0 c) as [Hsim0 Hinv0].
    eapply orel_bind; [exact (inserts_sim c ins (f_new c) (s_new c) 0 Hsim0 Hinv0 ltac:(cbn [Nat.add]; exact Hb))|].
    intros fs1 st1 [Hsim1 Hinv1]. cbn [Nat.add] in Hinv1.
    eapply orel_bind; [exact (finish_sim fs1 st1 (length ins) Hsim1 Hinv1 Hb)|].
    intros x y [E _]. apply orel_done. exact E.
  Qed.

  Theorem gf_refines c ins : len ins + 1 <= U32_MAX ->
    (exists e, gf_run c mf ins = Fail e /\ bad e) \/ gf_run c mf ins = sorter_run c mf ins.
  Proof.
    intro Hb. destruct (gf_refines_rel c ins Hb) as [a b <-| |e|e y He]; [right; reflexivity|right; reflexivity|right; reflexivity|].
    left. exists e. split; [reflexivity|exact He].
  Qed.

  (* the chunk files handed out by into_reader_cursors represent the chunks of the list-level sorter *)
  Theorem gf_chunks c ins fs1 x : len ins + 1 <= U32_MAX ->
    gf_inserts c mf (f_new c) ins = Done fs1 -> gf_finish mf fs1 = Done x ->
    exists st1 y, s_inserts c mf (s_new c) ins = Done st1 /\ s_finish mf st1 = Done y /\
      fst x = fst y /\ Forall2 rep (snd x) (snd y).
  Proof.
    intros Hb E1 E2. rewrite len_length in Hb. destruct (sim0 c) as [Hsim0 Hinv0].
    pose proof (inserts_sim c ins (f_new c) (s_new c) 0 Hsim0 Hinv0 ltac:(cbn [Nat.add]; exact Hb)) as H. rewrite E1 in H.
    inversion H as [a st1 [Hsim1 Hinv1] Ea Es| | |]; subst. cbn [Nat.add] in Hinv1.
    pose proof (finish_sim fs1 st1 (length ins) Hsim1 Hinv1 Hb) as H2. rewrite E2 in H2.
    inversion H2 as [a y Hxy Ea2 Ey| | |]; subst. exists st1, y. split; [reflexivity|]. split; [symmetry; exact Ey|exact Hxy].
  Qed.
End Generic.

(* ================= what a chunk file is ================= *)
(* the loader presents the entries: as a well-formed store with that content, or - no entry - as a root
   block without entries (the file of a writer that finished without an insert) *)
Definition store_of (ld : N -> N -> outcome block) (root levels : N) (es : list entry) : Prop :=
  (exists bs, wf_store ld root levels bs /\ content root levels bs = es) \/
  (es = [] /\ exists b ridx, (forall ord, ld ord root = Done b) /\ wfblock b [] ridx).

Lemma store_yields ld root levels es : store_of ld root levels es -> yields cstate (rnext ld root levels) cs_fresh es.
Proof.
  intros [(bs & W & <-)|(-> & b & ridx & Hld & W)].
  - apply fresh_cursor_yields_content. exact W.
  - cbn [yields]. destruct (step_empty ld root levels b ridx Hld W cs_fresh ONext fresh_empty) as (st' & E & _). exists st'. exact E.
Qed.

Lemma store_sched dec file codec scheds reqs root levels es :
  (forall ord, benign (scheds ord)) -> (forall ord, Forall (fun r => 1 <= r) (reqs ord)) ->
  store_of (load_block dec file codec) root levels es -> store_of (ld_sched dec file codec scheds reqs) root levels es.
Proof.
  intros Hb Hq [(bs & W & E)|(E & b & ridx & Hld & W)].
  - left. exists bs. split; [exact (wf_store_sched dec file codec scheds reqs root levels bs Hb Hq W)|exact E].
  - right. split; [exact E|]. exists b, ridx. split; [|exact W]. intro ord. unfold ld_sched.
    rewrite (load_block_sched_eq dec file codec (scheds ord) (reqs ord) ord root (Hb ord) (Hq ord) (load_done_header _ _ _ _ _ _ (Hld ord))).
    exact (Hld ord).
Qed.

Notation INJ := (EIo IO_INJECTED).

(* the merger over sources each of which yields its list or fails with the injected error on the way *)
Lemma cm_run_faulty_sources (mf : mergefn) calls : (forall a k vs, mf a k vs <> Panic) ->
  forall srcs ess,
  Forall2 (fun s es => yields rsrc rsnext s es \/ exists p, (length p <= length es)%nat /\ fails_after rsrc rsnext INJ s p) srcs ess ->
  cm_run rsrc rsnext mf calls (Datatypes.S (total_len ess)) srcs = merge_run mf calls ess \/
  exists x, cm_run rsrc rsnext mf calls (Datatypes.S (total_len ess)) srcs = Fail x /\ (x = INJ \/ mf_fails mf x).
Proof.
  intros Hnp srcs ess Hf.
  assert (G : Forall2 (yields rsrc rsnext) srcs ess \/
              exists ds, Forall2 (srcdesc rsrc rsnext INJ) srcs ds /\ existsb fst ds = true /\ (tot ds <= total_len ess)%nat).
  { induction Hf as [|s es srcs ess Hs _ IH].
    - left. constructor.
    - destruct Hs as [Hy|(p & Hp & Hfa)]; destruct IH as [Hall|(ds & Hd & Hb & Ht)].
      + left. constructor; assumption.
      + right. exists ((false, es) :: ds). split; [constructor; [exact Hy|exact Hd]|]. split; [cbn; exact Hb|].
        cbn [tot total_len fold_right snd]. fold (tot ds). fold (total_len ess). lia.
      + right. exists ((true, p) :: map (fun l => (false, l)) ess).
        split; [constructor; [exact Hfa|]|].
        { clear - Hall. induction Hall as [|a b la lb H _ IH]; cbn [map]; constructor; [exact H|exact IH]. }
        split; [reflexivity|]. cbn [tot total_len fold_right snd]. fold (total_len ess).
        assert (E : tot (map (fun l : list entry => (false, l)) ess) = total_len ess).
        { clear. induction ess as [|l ess IH]; [reflexivity|]. cbn [map tot total_len fold_right snd] in *. fold (total_len ess). unfold tot in IH. rewrite IH. reflexivity. }
        unfold tot in E. rewrite E. lia.
      + right. exists ((true, p) :: ds). split; [constructor; [exact Hfa|exact Hd]|]. split; [reflexivity|].
        cbn [tot total_len fold_right snd]. fold (tot ds). fold (total_len ess). lia. }
  destruct G as [Hall|(ds & Hd & Hb & Ht)].
  - left. apply cm_run_lists. exact Hall.
  - right. exact (cm_run_source_fault rsrc rsnext INJ mf Hnp calls (Datatypes.S (total_len ess)) srcs ds Hd Hb ltac:(lia)).
Qed.

(* ================= the read side: opening files and merging their cursors ================= *)
Section ReadSide.
  Variable decompress : N -> bytes -> outcome bytes.

  (* the file opens with the right count and its loader presents the entries *)
  Definition rep (f : bytes) (es : list entry) : Prop :=
    exists m, open_meta f = Done m /\ m_count m = len es /\
              store_of (load_block decompress f (m_codec m)) (m_root m) (m_levels m) es.

  (* Reader::new(chunk).into_cursor(): the trailer, then a fresh cursor; also the stored entry count *)
  Definition open_chunk (f : bytes) : outcome (rsrc * N) :=
    do m <- open_meta f;
    Done (mk_rsrc (load_block decompress f (m_codec m)) (m_root m) (m_levels m) cs_fresh, m_count m).
  Fixpoint open_chunks (fs : list bytes) : outcome (list rsrc * N) :=
    match fs with
    | [] => Done ([], 0)
    | f :: r => do x <- open_chunk f; do y <- open_chunks r; Done (fst x :: fst y, snd x + snd y)
    end.
  (* the merger over the cursors of the chunk files (fuel: one step per stored entry, plus one) *)
  Definition merge_files (mf : mergefn) (calls : N) (fs : list bytes) : outcome (list entry * N) :=
    do x <- open_chunks fs;
    cm_run rsrc rsnext mf calls (S (N.to_nat (snd x))) (fst x).

  (* opening the chunk files and merging their cursors = merging the entry lists *)
  Lemma open_chunks_spec : forall fs ess, Forall2 rep fs ess ->
    exists srcs, open_chunks fs = Done (srcs, N.of_nat (total_len ess)) /\ Forall2 (yields rsrc rsnext) srcs ess.
  Proof.
    induction 1 as [|f es fs ess (m & Eo & Ec & St) _ (srcs & E & F)]; cbn [open_chunks].
    - exists []. split; [reflexivity|constructor].
    - unfold open_chunk. rewrite Eo, E. cbn [bind fst snd]. eexists. split; [|constructor; [apply yields_rsrc; apply store_yields; exact St|exact F]].
      f_equal. f_equal. rewrite Ec, total_len_cons, len_length. lia.
  Qed.

  Theorem merge_files_lists (mf : mergefn) calls fs ess : Forall2 rep fs ess ->
    merge_files mf calls fs = merge_run mf calls ess.
  Proof.
    intro H. destruct (open_chunks_spec fs ess H) as (srcs & E & F). unfold merge_files. rewrite E. cbn [bind fst snd].
    rewrite Nat2N.id. apply cm_run_lists. exact F.
  Qed.

End ReadSide.

Section Storages.
  Variable compress : N -> N -> bytes -> outcome bytes.
  Variable decompress : N -> bytes -> outcome bytes.
  Variable wc : wcfg.                         (* the configuration of the chunk writers *)
  Hypothesis codec_ok : forall b z, compress (wc_codec wc) (wc_level wc) b = Done z -> decompress (wc_codec wc) z = Done b.
  Hypothesis compress_total : forall b, exists z, compress (wc_codec wc) (wc_level wc) b = Done z.
  Hypothesis HwL : wc_levels wc < 256.
  Hypothesis HwI : 1 <= wc_interval wc.
  Hypothesis HwK : wc_codec wc <= 5.

  (* the physical envelope of one written file: the file and every block buffer below 2^64 bytes *)
  Definition physb (file : bytes) (lg : list emitted) : bool :=
    (len file <? 2^64) && forallb (fun e => len (em_bytes e) <? 2^64) lg.

  (* ---------------- the plain storage ---------------- *)
  (* a chunk: the Writer over the chunk storage, entries inserted in order, into_inner *)
  Definition write_chunk_file (es : list entry) : outcome bytes :=
    match snd (w_run_plain compress wc es) with
    | Done (s, lg, m) => if physb (vs_bytes s) lg then Done (vs_bytes s) else Fail EFuel
    | Panic => Panic
    | Fail e => Fail e
    end.

  Definition f_inserts := gf_inserts (fun _ => write_chunk_file) (fun _ => (merge_files decompress)).
  Definition f_finish := gf_finish (fun _ => write_chunk_file) (fun _ => (merge_files decompress)).
  Definition file_sorter_run := gf_run (fun _ => write_chunk_file) (fun _ => (merge_files decompress)).

  Lemma physb_true file lg : physb file lg = true -> len file < 2^64 /\ mem_ok lg.
  Proof.
    unfold physb. intro H. apply andb_true_iff in H. destruct H as [A B]. split; [apply N.ltb_lt; exact A|].
    intros e He. rewrite forallb_forall in B. apply N.ltb_lt. exact (B e He).
  Qed.

  Theorem write_chunk_file_spec es : ssorted es -> entries_ok es -> len es + 1 <= U32_MAX ->
    write_chunk_file es = Fail EFuel \/ exists f, write_chunk_file es = Done f /\ (rep decompress) f es.
  Proof.
    intros Hs Hok Hlen.
    destruct (w_run_progress compress decompress wc codec_ok compress_total es Hs Hok Hlen HwL) as (s & lg & m & Hrun).
    unfold write_chunk_file, w_run_plain. rewrite Hrun. cbn [snd]. destruct (physb (vs_bytes s) lg) eqn:Ep; [right|left; reflexivity].
    destruct (physb_true _ lg Ep) as [H64 Hmem]. exists (vs_bytes s). split; [reflexivity|].
    unfold rep. destruct es as [|e0 es'].
    - destruct (empty_run compress decompress wc codec_ok _ s lg m HwL HwI HwK Hrun H64 Hmem) as (Ho & Hn & Hc & Hlv & b & ridx & Hld & W).
      exists m. split; [exact Ho|]. split; [exact Hn|]. right. split; [reflexivity|]. exists b, ridx. rewrite Hc. split; [exact Hld|exact W].
    - set (es := e0 :: es') in *.
      assert (Hne : es <> []) by discriminate.
      assert (Hsb : sorted_strictb (map fst es) = true) by (apply sorted_strictb_SS; exact Hs).
      destruct (written_file_wf compress decompress wc codec_ok es _ s lg m HwL HwI Hrun Hne Hsb H64 Hmem)
        as (bstore & W & Hcont & _ & Hcd & Hcnt & Hlv & _).
      destruct (written_file_roundtrip compress decompress wc codec_ok es _ s lg m HwL HwI HwK Hrun Hne Hsb H64 Hmem
                  ltac:(change U32_MAX with 4294967295 in Hlen; lia)) as (Ho & _).
      exists m. split; [exact Ho|]. split; [exact Hcnt|]. left. exists bstore. rewrite Hcd, Hlv. split; [exact W|exact Hcont].
  Qed.

  Section WithMf.
    Variable mf : mergefn.
    Hypothesis mf_values_ok : forall n k vs v, mf n k vs = Done v -> len v <= U32_MAX.

    Theorem file_sorter_refines c ins : len ins + 1 <= U32_MAX ->
      file_sorter_run c mf ins = Fail EFuel \/ file_sorter_run c mf ins = sorter_run c mf ins.
    Proof.
      intro Hb. unfold file_sorter_run.
      destruct (gf_refines (fun _ => write_chunk_file) (fun _ => (merge_files decompress)) (rep decompress) (fun e => e = EFuel) mf mf_values_ok) with (c := c) (ins := ins)
        as [(e & E & ->)|E]; [| |exact Hb|left; exact E|right; exact E].
      - intros n es Hs Hok Hl. destruct (write_chunk_file_spec es Hs Hok Hl) as [E|(f & E & R)]; [left; exists EFuel; auto|right; exists f; auto].
      - intros n calls fs ess HF. right. exact (merge_files_lists decompress mf calls fs ess HF).
    Qed.

    Theorem file_sorter_chunks c ins fs1 x : len ins + 1 <= U32_MAX ->
      f_inserts c mf (f_new c) ins = Done fs1 -> f_finish mf fs1 = Done x ->
      exists st1 y, s_inserts c mf (s_new c) ins = Done st1 /\ s_finish mf st1 = Done y /\
        fst x = fst y /\ Forall2 (rep decompress) (snd x) (snd y).
    Proof.
      intros Hb. unfold f_inserts, f_finish.
      apply (gf_chunks (fun _ => write_chunk_file) (fun _ => (merge_files decompress)) (rep decompress) (fun e => e = EFuel) mf mf_values_ok); [| |exact Hb].
      - intros n es Hs Hok Hl. destruct (write_chunk_file_spec es Hs Hok Hl) as [E|(f & E & R)]; [left; exists EFuel; auto|right; exists f; auto].
      - intros n calls fs ess HF. right. exact (merge_files_lists decompress mf calls fs ess HF).
    Qed.

    (* ---------------- the storage under schedules (C11) ----------------
       the sink of the chunk created as number n accepts bytes according to [wsched n]; during the merge
       that follows creation number n, source number i reads its trailer under [osched n i] and performs its
       block loads under [lsched n i] with the buffer sizes [lreqs n i] *)
    Section Sched.
    Variable wsched : N -> list resp.
    Variable osched : N -> N -> N -> list resp.
    Variable lsched : N -> N -> N -> list resp.
    Variable lreqs : N -> N -> N -> list N.
    Hypothesis wsched_benign : forall n, benign (wsched n).
    Hypothesis osched_benign : forall n i k, benign (osched n i k).
    Hypothesis lsched_benign : forall n i ord, benign (lsched n i ord).
    Hypothesis lreqs_pos : forall n i ord, Forall (fun r => 1 <= r) (lreqs n i ord).

    Definition write_chunk_file_sched (n : N) (es : list entry) : outcome bytes :=
      match snd (w_run_sched compress (wsched n) wc es) with
      | Done (s, lg, m) => if physb (sk_bytes s) lg then Done (sk_bytes s) else Fail EFuel
      | Panic => Panic
      | Fail e => Fail e
      end.
    Fixpoint open_chunks_sched (n i : N) (fs : list bytes) : outcome (list rsrc * N) :=
      match fs with
      | [] => Done ([], 0)
      | f :: r =>
        do m <- open_meta_sched (osched n i) f;
        do y <- open_chunks_sched n (i + 1) r;
        Done (mk_rsrc (ld_sched decompress f (m_codec m) (lsched n i) (lreqs n i)) (m_root m) (m_levels m) cs_fresh :: fst y,
              m_count m + snd y)
      end.
    Definition merge_files_sched (n : N) (mf0 : mergefn) (calls : N) (fs : list bytes) : outcome (list entry * N) :=
      do x <- open_chunks_sched n 0 fs;
      cm_run rsrc rsnext mf0 calls (S (N.to_nat (snd x))) (fst x).
    Definition sched_sorter_run := gf_run write_chunk_file_sched merge_files_sched.

    Lemma write_sched_eq n es : write_chunk_file_sched n es = write_chunk_file es.
    Proof.
      unfold write_chunk_file_sched, write_chunk_file.
      destruct (sched_run_eq compress (wsched n) wc es (wsched_benign n)) as [_ H]. cbv zeta in H.
      destruct H as [[[s1 lg1] m1] [[s2 lg2] m2] (Eb & _ & El & Em)| |e|e y []]; cbn [fst snd] in *; try reflexivity.
      subst lg2 m2. rewrite Eb. reflexivity.
    Qed.

    Lemma open_chunks_sched_spec n : forall fs ess i, Forall2 (rep decompress) fs ess ->
      exists srcs, open_chunks_sched n i fs = Done (srcs, N.of_nat (total_len ess)) /\ Forall2 (yields rsrc rsnext) srcs ess.
    Proof.
      induction fs as [|f fs IH]; intros ess i H; inversion H as [|? es ? ess' (m & Eo & Ec & St) Hr]; subst; cbn [open_chunks_sched].
      - exists []. split; [reflexivity|constructor].
      - destruct (IH ess' (i + 1) Hr) as (srcs & E & F).
        rewrite (open_meta_sched_eq (osched n i) f (osched_benign n i)), Eo, E. cbn [bind fst snd]. eexists. split.
        + f_equal. f_equal. rewrite Ec, total_len_cons, len_length. lia.
        + constructor; [|exact F]. apply yields_rsrc. apply store_yields.
          exact (store_sched decompress f (m_codec m) (lsched n i) (lreqs n i) _ _ _ (lsched_benign n i) (lreqs_pos n i) St).
    Qed.

    Theorem sched_sorter_refines c ins : len ins + 1 <= U32_MAX ->
      sched_sorter_run c mf ins = Fail EFuel \/ sched_sorter_run c mf ins = sorter_run c mf ins.
    Proof.
      intro Hb. unfold sched_sorter_run.
      destruct (gf_refines write_chunk_file_sched merge_files_sched (rep decompress) (fun e => e = EFuel) mf mf_values_ok) with (c := c) (ins := ins)
        as [(e & E & ->)|E]; [| |exact Hb|left; exact E|right; exact E].
      - intros n es Hs Hok Hl. rewrite write_sched_eq.
        destruct (write_chunk_file_spec es Hs Hok Hl) as [E|(f & E & R)]; [left; exists EFuel; auto|right; exists f; auto].
      - intros n calls fs ess HF. right. destruct (open_chunks_sched_spec n fs ess 0 HF) as (srcs & E & F).
        unfold merge_files_sched. rewrite E. cbn [bind fst snd]. rewrite Nat2N.id. apply cm_run_lists. exact F.
    Qed.

    End Sched.

    Section Faulty.
    (* ---------------- the faulty storage (C12) ----------------
       [wfault n = Some (p, fl)]: the sink of the chunk created as number n fails the write of byte number p
       (and, if fl, its flush); [ofault n i]: during the merge after creation number n, opening source i
       fails; [lfault n i = Some j]: its loader fails its j-th block load.  All with the injected error. *)
    Variable wfault : N -> option (N * bool).
    Variable ofault : N -> N -> bool.
    Variable lfault : N -> N -> option N.
    Hypothesis mf_no_panic : forall a k vs, mf a k vs <> Panic.

    Definition write_chunk_file_faulty (n : N) (es : list entry) : outcome bytes :=
      match snd (match wfault n with
                 | Some (p, fl) => w_run_fault compress (Some p) fl wc es
                 | None => w_run_fault compress None false wc es
                 end) with
      | Done (s, lg, m) => if physb (vs_bytes (fk_sink s)) lg then Done (vs_bytes (fk_sink s)) else Fail EFuel
      | Panic => Panic
      | Fail e => Fail e
      end.
    Fixpoint open_chunks_faulty (n i : N) (fs : list bytes) : outcome (list rsrc * N) :=
      match fs with
      | [] => Done ([], 0)
      | f :: r =>
        do m <- (if ofault n i then Fail INJ else open_meta f);
        do y <- open_chunks_faulty n (i + 1) r;
        let ld := load_block decompress f (m_codec m) in
        Done (mk_rsrc (match lfault n i with Some j => faulty_load ld j | None => ld end) (m_root m) (m_levels m) cs_fresh :: fst y,
              m_count m + snd y)
      end.
    Definition merge_files_faulty (n : N) (mf0 : mergefn) (calls : N) (fs : list bytes) : outcome (list entry * N) :=
      do x <- open_chunks_faulty n 0 fs;
      cm_run rsrc rsnext mf0 calls (S (N.to_nat (snd x))) (fst x).
    Definition faulty_sorter_run := gf_run write_chunk_file_faulty merge_files_faulty.

    Lemma write_faulty_cases n es : write_chunk_file_faulty n es = Fail INJ \/ write_chunk_file_faulty n es = write_chunk_file es.
    Proof.
      unfold write_chunk_file_faulty, write_chunk_file. destruct (wfault n) as [[p fl]|].
      - destruct (fault_run compress p fl wc es) as [E|[_ H]]; cbv zeta in *; [rewrite E; left; reflexivity|].
        destruct H as [[[s1 lg1] m1] [[s2 lg2] m2] (Eb & _ & _ & El & Em)| |e|e y He]; cbn [fst snd] in *;
          [right; subst lg2 m2; rewrite Eb; reflexivity|right; reflexivity|right; reflexivity|left; rewrite He; reflexivity].
      - destruct (quiet_run_eq compress wc es) as [_ H]. cbv zeta in H. right.
        destruct H as [[[s1 lg1] m1] [[s2 lg2] m2] (Eb & El & Em)| |e|e y []]; cbn [fst snd] in *; try reflexivity.
        subst lg2 m2. rewrite Eb. reflexivity.
    Qed.

    Lemma open_chunks_faulty_spec n : forall fs ess i, Forall2 (rep decompress) fs ess ->
      open_chunks_faulty n i fs = Fail INJ \/
      exists srcs, open_chunks_faulty n i fs = Done (srcs, N.of_nat (total_len ess)) /\
        Forall2 (fun s es => yields rsrc rsnext s es \/ exists p, (length p <= length es)%nat /\ fails_after rsrc rsnext INJ s p) srcs ess.
    Proof.
      induction fs as [|f fs IH]; intros ess i H; inversion H as [|? es ? ess' (m & Eo & Ec & St) Hr]; subst; cbn [open_chunks_faulty].
      - right. exists []. split; [reflexivity|constructor].
      - destruct (ofault n i); [left; reflexivity|]. rewrite Eo. cbn [bind].
        destruct (IH ess' (i + 1) Hr) as [E|(srcs & E & F)]; rewrite E; cbn [bind fst snd]; [left; reflexivity|].
        right. eexists. split; [f_equal; f_equal; rewrite Ec, total_len_cons, len_length; lia|]. constructor; [|exact F].
        pose proof (store_yields _ _ _ _ St) as Y. destruct (lfault n i) as [j|].
        + destruct (faulty_yields _ j _ _ es cs_fresh Y) as [Hy|(p & Hp & Hfa)].
          * left. apply yields_rsrc. exact Hy.
          * right. exists p. split; [exact Hp|]. apply fails_rsrc. exact Hfa.
        + left. apply yields_rsrc. exact Y.
    Qed.

    (* excused: the physical envelope, the injected I/O error, an error the merge function itself returned *)
    Definition excused (e : err) : Prop := e = EFuel \/ e = INJ \/ mf_fails mf e.

    Theorem faulty_sorter_refines c ins : len ins + 1 <= U32_MAX ->
      (exists e, faulty_sorter_run c mf ins = Fail e /\ excused e) \/ faulty_sorter_run c mf ins = sorter_run c mf ins.
    Proof.
      intro Hb. unfold faulty_sorter_run.
      apply (gf_refines write_chunk_file_faulty merge_files_faulty (rep decompress) excused mf mf_values_ok); [| |exact Hb].
      - intros n es Hs Hok Hl. destruct (write_faulty_cases n es) as [E|E]; [left; exists INJ; split; [exact E|right; left; reflexivity]|].
        rewrite E. destruct (write_chunk_file_spec es Hs Hok Hl) as [E'|(f & E' & R)]; [left; exists EFuel; split; [exact E'|left; reflexivity]|right; exists f; auto].
      - intros n calls fs ess HF. unfold merge_files_faulty.
        destruct (open_chunks_faulty_spec n fs ess 0 HF) as [E|(srcs & E & F)]; rewrite E; cbn [bind fst snd];
          [left; exists INJ; split; [reflexivity|right; left; reflexivity]|].
        rewrite Nat2N.id. destruct (cm_run_faulty_sources mf calls mf_no_panic srcs ess F) as [Em|(x & Em & Hx)]; [right; exact Em|].
        left. exists x. split; [exact Em|right; exact Hx].
    Qed.
    End Faulty.
  End WithMf.
End Storages.

(* ================= end to end: the sorter over real chunk files returns the specification's output ================= *)
Theorem file_sorter_spec compress decompress wc :
  (forall b z, compress (wc_codec wc) (wc_level wc) b = Done z -> decompress (wc_codec wc) z = Done b) ->
  (forall b, exists z, compress (wc_codec wc) (wc_level wc) b = Done z) ->
  wc_levels wc < 256 -> 1 <= wc_interval wc -> wc_codec wc <= 5 ->
  forall (f : bytes -> list bytes -> bytes) (mf : mergefn),
  (forall ord k vs, mf ord k vs = Done (f k vs)) ->
  (forall k vss, vss <> [] -> Forall (fun vs => vs <> []) vss -> f k (map (f k) vss) = f k (concat vss)) ->
  (forall k vs, len (f k vs) <= U32_MAX) ->
  forall c ins out, len ins + 1 <= U32_MAX ->
  file_sorter_run compress decompress wc c mf ins = Done out -> sorter_spec mf ins = Done out.
Proof.
  intros Hc Ht HL HI HK f mf Hpure Hflat Hlen c ins out Hb Hrun.
  assert (Hv : forall n k vs v, mf n k vs = Done v -> len v <= U32_MAX).
  { intros n k vs v E. rewrite Hpure in E. injection E as <-. apply Hlen. }
  destruct (file_sorter_refines compress decompress wc Hc Ht HL HI HK mf Hv c ins Hb) as [E|E]; rewrite E in Hrun; [discriminate|].
  exact (sorter_run_spec f mf Hpure Hflat c ins out Hrun).
Qed.
