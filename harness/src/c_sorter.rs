//! C07 / C08 / C17: the external sorter under hook-driven tiny budgets.
use crate::alloc_track;
use crate::c_merge::LoggingConcat;
use crate::gen::*;
use crate::util::*;
use grenad::{ChunkCreator, CompressionType, Merger, SortAlgorithm, Sorter, SorterBuilder, Writer};
use std::cell::{Cell, RefCell};
use std::io::{self, Cursor, Read, Seek, SeekFrom, Write};
use std::rc::Rc;
use std::sync::atomic::Ordering::Relaxed;

#[derive(Default)]
pub struct Counters {
    pub creates: Cell<u64>,
    pub live: Cell<u64>,
    pub peak: Cell<u64>,
    /// the call of the creator (counted from 0, failed calls included) that fails, once
    pub fail_at: Cell<Option<u64>>,
}

/// an in-memory chunk that counts how many chunk objects exist at once
pub struct CountedChunk {
    inner: Cursor<Vec<u8>>,
    ctr: Rc<Counters>,
}
impl Drop for CountedChunk {
    fn drop(&mut self) {
        self.ctr.live.set(self.ctr.live.get() - 1);
    }
}
impl Write for CountedChunk {
    fn write(&mut self, b: &[u8]) -> io::Result<usize> { self.inner.write(b) }
    fn flush(&mut self) -> io::Result<()> { self.inner.flush() }
}
impl Read for CountedChunk {
    fn read(&mut self, b: &mut [u8]) -> io::Result<usize> { self.inner.read(b) }
}
impl Seek for CountedChunk {
    fn seek(&mut self, p: SeekFrom) -> io::Result<u64> { self.inner.seek(p) }
}
pub struct CountingCreator {
    pub ctr: Rc<Counters>,
}
impl ChunkCreator for CountingCreator {
    type Chunk = CountedChunk;
    type Error = io::Error;
    fn create(&self) -> Result<CountedChunk, io::Error> {
        let c = &self.ctr;
        let n = c.creates.get();
        c.creates.set(n + 1);
        if c.fail_at.get() == Some(n) {
            return Err(io::Error::new(io::ErrorKind::Other, "injected fault"));
        }
        c.live.set(c.live.get() + 1);
        c.peak.set(c.peak.get().max(c.live.get()));
        Ok(CountedChunk { inner: Cursor::new(Vec::new()), ctr: self.ctr.clone() })
    }
}

#[derive(Clone, Debug)]
pub struct SortCfg {
    pub threshold: usize,
    pub realloc: bool,
    pub max_chunks: usize,
    pub init_cap: usize,
    pub stable: bool,
    pub parallel: bool,
    pub codec: CompressionType,
    pub levels: u8,
    pub block_size: usize,
}

fn build(cfg: &SortCfg, mf: LoggingConcat, ctr: Rc<Counters>) -> Sorter<LoggingConcat, CountingCreator> {
    build_with(cfg, mf, CountingCreator { ctr })
}

/// the same sorter over any chunk storage (the crate's own CursorVec and TempFileChunk among them)
fn build_with<CC: ChunkCreator>(cfg: &SortCfg, mf: LoggingConcat, cc: CC) -> Sorter<LoggingConcat, CC> {
    let mut b = SorterBuilder::new(mf);
    b.verif_dump_threshold_unclamped(cfg.threshold);
    b.verif_initial_capacity(cfg.init_cap);
    b.allow_realloc(cfg.realloc);
    b.max_nb_chunks(cfg.max_chunks);
    b.sort_algorithm(if cfg.stable { SortAlgorithm::Stable } else { SortAlgorithm::Unstable });
    b.sort_in_parallel(cfg.parallel);
    b.chunk_compression_type(cfg.codec);
    b.index_levels(cfg.levels);
    b.verif_block_size_unclamped(cfg.block_size);
    b.chunk_creator(cc).build()
}

/// A chunk storage that publishes what was written only when it is flushed (a buffered file, a transactional
/// store): reads and seeks see the flushed bytes only.
pub struct StagedChunk { committed: Cursor<Vec<u8>>, pending: Vec<u8> }
impl io::Write for StagedChunk {
    fn write(&mut self, b: &[u8]) -> io::Result<usize> { self.pending.extend_from_slice(b); Ok(b.len()) }
    fn flush(&mut self) -> io::Result<()> { let p = std::mem::take(&mut self.pending); self.committed.get_mut().extend_from_slice(&p); Ok(()) }
}
impl io::Read for StagedChunk {
    fn read(&mut self, b: &mut [u8]) -> io::Result<usize> { io::Read::read(&mut self.committed, b) }
}
impl io::Seek for StagedChunk {
    fn seek(&mut self, p: io::SeekFrom) -> io::Result<u64> { io::Seek::seek(&mut self.committed, p) }
}
pub struct StagedCreator;
impl ChunkCreator for StagedCreator {
    type Chunk = StagedChunk;
    type Error = io::Error;
    fn create(&self) -> Result<StagedChunk, io::Error> { Ok(StagedChunk { committed: Cursor::new(Vec::new()), pending: Vec::new() }) }
}

/// run 2 of a sorter case: inserts, write_into_stream_writer, full scan of the written file
fn run_into_writer<CC: ChunkCreator>(cfg: &SortCfg, ins: &[(Vec<u8>, Vec<u8>)], cc: CC) -> Result<Vec<(Vec<u8>, Vec<u8>)>, String> {
    let mf2 = LoggingConcat { calls: RefCell::new(Vec::new()), fail_at: None, sort: !cfg.stable };
    let mut s = build_with(cfg, mf2, cc);
    for (k, v) in ins.iter() {
        s.insert(k, v).map_err(|e| err_class(&e))?;
    }
    let mut w = Writer::memory();
    s.write_into_stream_writer(&mut w).map_err(|e| err_class(&e))?;
    let f = w.into_inner().map_err(|e| io_class(&e))?;
    let mut cur = grenad::Reader::new(Cursor::new(f)).map_err(|e| err_class(&e))?.into_cursor().map_err(|e| err_class(&e))?;
    let mut out = Vec::new();
    while let Some((k, v)) = cur.move_on_next().map_err(|e| err_class(&e))? {
        out.push((k.to_vec(), v.to_vec()));
    }
    Ok(out)
}

fn scan_hash(items: &[(Vec<u8>, Vec<u8>)]) -> String {
    let (n, h) = entries_hash(items.iter().map(|(k, v)| (&k[..], &v[..])));
    format!("{} {:016x}", n, h)
}

pub fn gen_cfg_sorter(rng: &mut Rng) -> SortCfg {
    // budgets: a few fixed small ones and a log-uniform spread (so that the doubling chain
    // 16 * 2^k lands anywhere relative to the budget)
    let threshold = if rng.chance(1, 2) {
        *rng.pick(&[64usize, 80, 100, 256, 600, 1000, 4096]) + rng.below(16) as usize * (rng.below(2) as usize)
    } else {
        let bits = rng.range(6, 12);
        (1usize << bits) + rng.below(1u64 << bits) as usize
    };
    let realloc = rng.chance(2, 3);
    let init_cap = if realloc {
        match rng.below(5) { 0 => 16, 1 => 17, 2 => threshold / 2, 3 => threshold, _ => rng.range(16, threshold as u64 + 15) as usize }
    } else {
        match rng.below(3) { 0 => threshold, 1 => threshold + 15, _ => threshold + rng.below(64) as usize }
    };
    SortCfg {
        threshold,
        realloc,
        // now and then the type's limits: "never merge the chunks"
        max_chunks: *rng.pick(&[0usize, 1, 1, 2, 3, 5, 1, 2, 3, 5, 1, 2, usize::MAX, usize::MAX / 2 + 1]),
        init_cap: init_cap.max(16),
        stable: rng.chance(2, 3),
        parallel: rng.chance(1, 4),
        codec: if rng.chance(1, 6) { *rng.pick(&CODECS) } else { CompressionType::None },
        levels: *rng.pick(&[0u8, 0, 1, 2, 0, 1, 2, 3, 0, 1, 2, 0, 1, 2, 3, 0, 1, 2, 254, 255]),
        block_size: *rng.pick(&[32usize, 64, 200, 1024, 8192]),
    }
}

pub fn generate<W: Write>(c: &mut Cases<W>, rng: &mut Rng, thorough: bool, which: &str) {
    let n = if thorough { 8000 } else { 500 };
    alloc_track::ENABLED.store(true, Relaxed);
    alloc_track::MISALIGN.store(which == "C17", Relaxed);
    for i in 0..n {
        let cfg = gen_cfg_sorter(rng);
        let small_only = which == "C08" || i % 3 != 0;
        let nins = match rng.below(8) { 0 => rng.below(4) as usize, 1..=4 => rng.range(4, 60) as usize, _ => rng.range(60, 400) as usize };
        let nins = if cfg.threshold > 1500 { nins.min(90) } else { nins };
        let pool: Vec<Vec<u8>> = (0..rng.range(1, 25)).map(|_| gen_key(rng, 8)).collect();
        let quarter = cfg.threshold / 4;
        let mut ins: Vec<(Vec<u8>, Vec<u8>)> = Vec::new();
        for _ in 0..nins {
            let mut k = pool[rng.below(pool.len() as u64) as usize].clone();
            let vmax = if small_only { quarter.saturating_sub(k.len()) } else if rng.chance(1, 10) { cfg.threshold * 3 } else { quarter };
            if small_only && k.len() > quarter {
                k.truncate(quarter);
            }
            let vlen = match rng.below(6) { 0 => 0, 1 | 2 => vmax, _ => rng.below(vmax as u64 + 1) as usize };
            // unstable algorithm: values with ascending bytes so that the sorting merge keeps a lone value
            let b0 = rng.next() as u8 & 0x3f;
            let v: Vec<u8> = if cfg.stable { (0..vlen).map(|j| b0.wrapping_add((j as u8).wrapping_mul(7))).collect() } else { vec![b0; vlen] };
            ins.push((k, v));
        }
        // the empty entry ("", ""): it occupies a bound slot but no data bytes
        match rng.below(14) {
            0 => { ins.clear(); for _ in 0..rng.range(1, 3) { ins.push((vec![], vec![])); } }
            1 | 2 => { for _ in 0..rng.range(1, 3) { ins.push((vec![], vec![])); } }
            _ => {}
        }
        emit_sorter_case(c, which, &cfg, &ins);
        if which != "C08" && i % 10 == 5 {
            // nothing spilled before the end: a budget far above the input, many entries on a handful of keys
            // (the routes that do not go through a chunk must merge them in insertion order all the same)
            let big = SortCfg { threshold: 1 << 16, realloc: true, init_cap: if i % 20 == 5 { 1 << 16 } else { 256 }, max_chunks: 3, ..cfg.clone() };
            let keys: Vec<Vec<u8>> = (0..rng.range(1, 5)).map(|_| gen_key(rng, 6)).collect();
            let m = rng.range(40, 160) as usize;
            let ins2: Vec<(Vec<u8>, Vec<u8>)> = (0..m).map(|j| {
                let k = keys[rng.below(keys.len() as u64) as usize].clone();
                let v = if big.stable { vec![j as u8, (j >> 8) as u8, 0x40 | (j % 7) as u8] } else { vec![(j % 50) as u8; 3] };
                (k, v)
            }).collect();
            c.bump("no_spill_cases", 1);
            emit_sorter_case(c, which, &big, &ins2);
        }
        if which != "C08" && i % 10 == 7 {
            // "join with a separator" as merge function (it sees the order of the values and empty values, which a
            // concatenation does not): many entries on the empty key and one other key, empty values among them,
            // with and without spills; stable algorithm (the order is part of the result)
            let lw = SortCfg { threshold: if i % 20 == 7 { 1 << 16 } else { 96 + (i % 7) * 40 }, realloc: i % 3 != 0, init_cap: 64, max_chunks: 2 + i % 3, stable: true, parallel: (i / 20) % 3 == 2, ..cfg.clone() };
            let other = gen_key(rng, 5);
            let m = rng.range(25, 90) as usize;
            let ins3: Vec<(Vec<u8>, Vec<u8>)> = (0..m).map(|j| {
                let k = if rng.chance(2, 3) { Vec::new() } else { other.clone() };
                let v = if rng.chance(1, 3) { Vec::new() } else { vec![j as u8, 0x30 | (j % 5) as u8] };
                (k, v)
            }).collect();
            c.bump("last_wins_cases", 1);
            crate::c_merge::LAST_WINS.with(|l| l.set(true));
            c.pending_tag = Some("mfkind join".to_string());
            emit_sorter_case(c, which, &lw, &ins3);
            crate::c_merge::LAST_WINS.with(|l| l.set(false));
        }
        if which == "C08" && i % 3 == 0 {
            // the same inserts with a chunk creator that fails one of its first calls, the caller going on
            emit_sorter_case_cr(c, which, &cfg, &ins, Some(rng.below(5)));
        }
    }
    // small-scope exhaustive: every insert sequence of length 6 (thorough: 8) over two keys, values tagged
    // with their position, under a grid of tiny budgets x reallocation x max chunks (stable, sequential)
    if which != "C08" {
        let len = if thorough { 8 } else { 6 };
        for threshold in [64usize, 100] {
            for realloc in [false, true] {
                for max_chunks in [1usize, 2, 3] {
                    let cfg = SortCfg { threshold, realloc, max_chunks, init_cap: if realloc { 32 } else { threshold }, stable: true, parallel: false,
                                        codec: CompressionType::None, levels: 0, block_size: 64 };
                    for code in 0u32..(1 << len) {
                        let ins: Vec<(Vec<u8>, Vec<u8>)> = (0..len).map(|p| (vec![if code & (1 << p) != 0 { 9u8 } else { 5u8 }], vec![p as u8; 6])).collect();
                        emit_sorter_case(c, which, &cfg, &ins);
                    }
                }
            }
        }
    }
    // C08: the merge function fails one of its calls (during a spill or a chunk merge); the caller goes on
    // inserting.  However the failed call leaves the sorter, the number of chunks alive at the same time stays
    // within the configured maximum plus two.
    if which == "C08" {
        for i in 0..(if thorough { 400u64 } else { 60 }) {
            let cfg = gen_cfg_sorter(rng);
            let cfg = SortCfg { stable: true, parallel: false, ..cfg };
            let keys: Vec<Vec<u8>> = (0..rng.range(2, 8)).map(|_| gen_key(rng, 6)).collect();
            let ins: Vec<(Vec<u8>, Vec<u8>)> = (0..rng.range(40, 160)).map(|j| (keys[rng.below(keys.len() as u64) as usize].clone(), vec![j as u8; (cfg.threshold / 16).max(1)])).collect();
            let ctr = Rc::new(Counters::default());
            let mf = LoggingConcat { calls: RefCell::new(Vec::new()), fail_at: Some((i as usize * 7) % 90), sort: false };
            let maxc = cfg.max_chunks.max(1);
            let r = catch(|| {
                let mut sorter = build(&cfg, mf, ctr.clone());
                let mut errs = 0u32;
                for (k, v) in ins.iter() {
                    if sorter.insert(k, v).is_err() {
                        errs += 1;
                    }
                    if ctr.live.get() as u128 > maxc as u128 + 2 {
                        return (errs, Some(ctr.live.get()));
                    }
                }
                (errs, None)
            });
            c.bump("merge_failure_then_more_inserts", 1);
            match r {
                Ok((errs, over)) => {
                    c.bump("merge_failure_then_more_inserts.with_an_error", (errs > 0) as u64);
                    if let Some(n) = over {
                        println!("DIRECT fail after a failed merge call (insert returned Err {} time(s)) and further inserts, {} chunks are alive at the same time (max_nb_chunks {} + 2 allowed); budget {} realloc {}",
                                 errs, n, maxc, cfg.threshold, cfg.realloc);
                    } else if ctr.peak.get() as u128 > maxc as u128 + 2 {
                        println!("DIRECT fail after a failed merge call and further inserts, {} chunks were alive at the same time (max_nb_chunks {} + 2 allowed)", ctr.peak.get(), maxc);
                    }
                }
                Err(_) => println!("DIRECT fail the sorter panicked when inserts went on after a failed merge call"),
            }
        }
    }
    // C08: the public builder with the setters in either order (the budget set first or last)
    if which == "C08" {
        generate_public(c, rng, 36_000_000, &[(false, 2usize, true), (false, 2, false), (true, 3, true)]);
    }
    // C17: the public budget setter with degenerate values (0, 1, not a multiple of the bound size) under
    // both reallocation policies: the buffer is never a zero-sized allocation, nothing panics, the
    // output is the sorted input
    if which == "C17" {
        let z0 = alloc_track::ZERO_SIZED.load(Relaxed);
        for threshold in [0usize, 1, 15, 16, 17, 4096, usize::MAX, usize::MAX - 15, (isize::MAX as usize) + 1] {
            for realloc in [false, true] {
                // (without reallocation the buffer IS the budget: a budget near the top of usize is a request for
                //  that much memory, refused by any allocator; only the growing variant is meaningful there)
                if !realloc && threshold > (1usize << 40) {
                    continue;
                }
                // in a watchdog thread: a degenerate buffer must not make an insert loop forever
                let (tx, rx) = std::sync::mpsc::channel();
                std::thread::spawn(move || {
                    let r = catch(|| -> Result<Vec<(Vec<u8>, Vec<u8>)>, String> {
                        let mf = LoggingConcat { calls: RefCell::new(Vec::new()), fail_at: None, sort: false };
                        let mut b = SorterBuilder::new(mf);
                        b.dump_threshold(threshold).allow_realloc(realloc);
                        let mut sorter = b.build();
                        for i in (0..40u32).rev() {
                            sorter.insert(i.to_be_bytes(), [i as u8; 5]).map_err(|e| err_class(&e))?;
                        }
                        let mut out = Vec::new();
                        let mut it = sorter.into_stream_merger_iter().map_err(|e| err_class(&e))?;
                        while let Some((k, v)) = it.next().map_err(|e| err_class(&e))? {
                            out.push((k.to_vec(), v.to_vec()));
                        }
                        Ok(out)
                    });
                    let _ = tx.send(r);
                });
                let r = match rx.recv_timeout(std::time::Duration::from_secs(30)) {
                    Ok(r) => r,
                    Err(_) => {
                        println!("DIRECT fail sorter with dump_threshold({}) allow_realloc({}) did not finish 40 inserts within 30 s ({} zero-sized allocation(s) so far)",
                                 threshold, realloc, alloc_track::ZERO_SIZED.load(Relaxed) - z0);
                        c.bump("public_budget_cases", 1);
                        continue;
                    }
                };
                let expect: Vec<(Vec<u8>, Vec<u8>)> = (0..40u32).map(|i| (i.to_be_bytes().to_vec(), vec![i as u8; 5])).collect();
                match r {
                    Ok(Ok(out)) if out == expect => {}
                    Ok(Ok(_)) => println!("DIRECT fail sorter with dump_threshold({}) allow_realloc({}) returned other entries", threshold, realloc),
                    Ok(Err(e)) => println!("DIRECT fail sorter with dump_threshold({}) allow_realloc({}) failed: {}", threshold, realloc, e),
                    Err(_) => println!("DIRECT fail sorter with dump_threshold({}) allow_realloc({}) panicked", threshold, realloc),
                }
                c.bump("public_budget_cases", 1);
            }
        }
        let z = alloc_track::ZERO_SIZED.load(Relaxed) - z0;
        if z > 0 {
            println!("DIRECT fail {} zero-sized allocation(s) requested by the sorter built with the public budget setter", z);
        }
    }
    alloc_track::ENABLED.store(false, Relaxed);
    alloc_track::MISALIGN.store(false, Relaxed);
    c.bump("alloc.tracked", alloc_track::TRACKED.load(Relaxed));
}

fn emit_sorter_case<W: Write>(c: &mut Cases<W>, which: &str, cfg: &SortCfg, ins: &Vec<(Vec<u8>, Vec<u8>)>) {
    emit_sorter_case_cr(c, which, cfg, ins, None)
}

/// `crfail`: the chunk creator fails that call (once); the caller goes on inserting after the error
fn emit_sorter_case_cr<W: Write>(c: &mut Cases<W>, which: &str, cfg: &SortCfg, ins: &Vec<(Vec<u8>, Vec<u8>)>, crfail: Option<u64>) {
    let quarter = cfg.threshold / 4;
    let all_small = ins.iter().all(|(k, v)| k.len() + v.len() <= quarter);
    c.begin("sorter");
    c.line(&format!("prop {}", which));
    c.line(&format!(
        "scfg {} {} {} {} {} {}",
        cfg.threshold, cfg.realloc as u8, cfg.max_chunks, cfg.init_cap, cfg.stable as u8, cfg.parallel as u8
    ));
    c.line(&format!("small {}", all_small as u8));
    if let Some(t) = c.pending_tag.take() {
        c.line(&t);
    }
    if let Some(j) = crfail {
        c.line(&format!("crfail {}", j));
        c.bump("transient_creator_failure", 1);
    }
    for (k, v) in ins.iter() {
        c.line(&format!("input {} {}", hex(k), hex(v)));
    }
    c.checkpoint();
    // run 1: per-insert state, then stream
    let ctr = Rc::new(Counters::default());
    ctr.fail_at.set(crfail);
    let mf = LoggingConcat { calls: RefCell::new(Vec::new()), fail_at: None, sort: !cfg.stable };
    let mm0 = alloc_track::MISMATCHES.load(Relaxed);
    crate::c_merge::CALL_LOG.with(|l| *l.borrow_mut() = Some(Vec::new()));
    let mut sorter = build(&cfg, mf, ctr.clone());
    let mut dead = false;
    for (k, v) in ins.iter() {
        if dead {
            c.line(&format!("ins {} {} = -", hex(k), hex(v)));
            continue;
        }
        match catch(|| sorter.insert(k, v)) {
            Ok(Ok(())) => {
                let (l, u, nb, ch) = sorter.verif_state();
                c.line(&format!("ins {} {} = {} {} {} {}", hex(k), hex(v), l, u, nb, ch));
            }
            Ok(Err(e)) if crfail.is_some() && err_class(&e) == "io7" => {
                // the creator failed this once: the caller goes on; the state the sorter is left in is recorded
                let (l, u, nb, ch) = sorter.verif_state();
                c.line(&format!("ins {} {} = E io7 {} {} {} {}", hex(k), hex(v), l, u, nb, ch));
            }
            Ok(Err(e)) => { c.line(&format!("ins {} {} = E {}", hex(k), hex(v), err_class(&e))); dead = true; }
            Err(_) => { c.line(&format!("ins {} {} = P", hex(k), hex(v))); dead = true; }
        }
    }
    if !dead {
        let r = catch(move || -> Result<Vec<(Vec<u8>, Vec<u8>)>, String> {
            let mut it = sorter.into_stream_merger_iter().map_err(|e| err_class(&e))?;
            let mut out = Vec::new();
            while let Some((k, v)) = it.next().map_err(|e| err_class(&e))? {
                out.push((k.to_vec(), v.to_vec()));
            }
            Ok(out)
        });
        match r {
            Ok(Ok(out)) => c.line(&format!("out1 {}", scan_hash(&out))),
            Ok(Err(e)) => c.line(&format!("out1 err {}", e)),
            Err(_) => c.line("out1 panic -"),
        }
        // every call the merge function received during the inserts and the final merge, in order: the key
        // it was given and the value it returned
        let log = crate::c_merge::CALL_LOG.with(|l| l.borrow_mut().take()).unwrap_or_default();
        c.line(&format!("scalls {}", scan_hash(&log)));
        if log.iter().map(|(k, v)| k.len() + v.len()).sum::<usize>() < 60_000 {
            for (k, v) in log.iter() {
                c.line(&format!("sc {} {}", hex(k), hex(v)));
            }
        }
        c.bump("merge_calls.logged", log.len() as u64);
        c.line(&format!("creates {}", ctr.creates.get()));
        c.line(&format!("peak {}", ctr.peak.get()));
        c.line(&format!("leaked {}", ctr.live.get()));
        if crfail.is_some() {
            c.line(&format!("layout_mismatch {}", alloc_track::MISMATCHES.load(Relaxed) - mm0));
            c.bump("inserts.total", ins.len() as u64);
            c.end();
            return;
        }
        // run 2: into a writer
        // (the chunk storage alternates: the counting in-memory one, the crate's CursorVec, its TempFileChunk)
        let ctr2 = Rc::new(Counters::default());
        let r2 = catch(|| match c.count % 4 {
            0 => run_into_writer(&cfg, ins, CountingCreator { ctr: ctr2.clone() }),
            1 => run_into_writer(&cfg, ins, grenad::CursorVec),
            2 => run_into_writer(&cfg, ins, grenad::TempFileChunk),
            _ => run_into_writer(&cfg, ins, StagedCreator),
        });
        c.bump(["storage.counting", "storage.cursor_vec", "storage.temp_file", "storage.published_on_flush"][(c.count % 4) as usize], 1);
        match r2 {
            Ok(Ok(out)) => c.line(&format!("out2 {}", scan_hash(&out))),
            Ok(Err(e)) => c.line(&format!("out2 err {}", e)),
            Err(_) => c.line("out2 panic -"),
        }
        // run 3: merging the returned chunk cursors by hand
        let ctr3 = Rc::new(Counters::default());
        let mf3 = LoggingConcat { calls: RefCell::new(Vec::new()), fail_at: None, sort: !cfg.stable };
        let chunk_scans: RefCell<Vec<String>> = RefCell::new(Vec::new());
        let r3 = catch(|| -> Result<Vec<(Vec<u8>, Vec<u8>)>, String> {
            let mut s = build(&cfg, mf3, ctr3.clone());
            for (k, v) in ins.iter() {
                s.insert(k, v).map_err(|e| err_class(&e))?;
            }
            let mut cursors = s.into_reader_cursors().map_err(|e| err_class(&e))?;
            // every chunk handed out, oldest first, scanned on its own (then reset: the merger below gets
            // cursors that have already been used)
            for cur in cursors.iter_mut() {
                let mut items = Vec::new();
                while let Some((k, v)) = cur.move_on_next().map_err(|e| err_class(&e))? {
                    items.push((k.to_vec(), v.to_vec()));
                }
                chunk_scans.borrow_mut().push(scan_hash(&items).replace(' ', ":"));
                cur.reset();
            }
            let mf4 = LoggingConcat { calls: RefCell::new(Vec::new()), fail_at: None, sort: !cfg.stable };
            let mut b = Merger::builder(mf4);
            b.extend(cursors);
            let mut it = b.build().into_stream_merger_iter().map_err(|e| err_class(&e))?;
            let mut out = Vec::new();
            while let Some((k, v)) = it.next().map_err(|e| err_class(&e))? {
                out.push((k.to_vec(), v.to_vec()));
            }
            Ok(out)
        });
        if r3.as_ref().map(|r| r.is_ok()).unwrap_or(false) {
            c.line(&format!("chunks3 {}", chunk_scans.borrow().join(",")));
            c.bump("chunks.scanned", chunk_scans.borrow().len() as u64);
        }
        match r3 {
            Ok(Ok(out)) => c.line(&format!("out3 {}", scan_hash(&out))),
            Ok(Err(e)) => c.line(&format!("out3 err {}", e)),
            Err(_) => c.line("out3 panic -"),
        }
    }
    c.line(&format!("layout_mismatch {}", alloc_track::MISMATCHES.load(Relaxed) - mm0));
    c.bump("inserts.total", ins.len() as u64);
    c.bump(if all_small { "all_small" } else { "has_big_entry" }, 1);
    c.bump(if cfg.stable { "stable" } else { "unstable" }, 1);
    c.bump(if cfg.parallel { "parallel" } else { "sequential" }, 1);
    c.bump("creates.total", ctr.creates.get());
    if ctr.creates.get() >= 2 {
        c.nontrivial(&fnv(format!("{:?}{:?}", cfg, ins).as_bytes()).to_le_bytes());
    }
    c.end();
}

/// numeric-only runs with the real (clamped) thresholds and no hooks: sizes only
pub fn generate_real<W: Write>(c: &mut Cases<W>, rng: &mut Rng) {
    generate_public(c, rng, 64_000_000, &[(true, 3usize, false), (false, 2, false), (true, 1, false), (false, 2, true)]);
}

/// the public builder only (no hooks), setters called in either order: sizes and chunk counts per insert
pub fn generate_public<W: Write>(c: &mut Cases<W>, rng: &mut Rng, volume: usize, grid: &[(bool, usize, bool)]) {
    for &(realloc, maxc, budget_last) in grid {
        let threshold = 10_485_760usize + if realloc { 0 } else { 7 };
        c.begin("sortnum");
        c.line("prop C08");
        c.line(&format!("scfg {} {} {} {} 1 0", threshold, realloc as u8, maxc, if realloc { 131072 } else { threshold }));
        c.line("small 1");
        let ctr = Rc::new(Counters::default());
        let mf = LoggingConcat { calls: RefCell::new(Vec::new()), fail_at: None, sort: false };
        let mut b = SorterBuilder::new(mf);
        if budget_last {
            b.allow_realloc(realloc).max_nb_chunks(maxc).dump_threshold(threshold);
        } else {
            b.dump_threshold(threshold).allow_realloc(realloc).max_nb_chunks(maxc);
        }
        let mut sorter = b.chunk_creator(CountingCreator { ctr: ctr.clone() }).build();
        let mut total = 0usize;
        let mut i = 0u64;
        while total < volume {
            let vlen = match rng.below(4) { 0 => 0, 1 => rng.below(2_000_000) as usize, _ => rng.below(60_000) as usize };
            let k = i.to_be_bytes();
            let v = vec![0u8; vlen];
            sorter.insert(k, &v).unwrap();
            let (l, u, nb, ch) = sorter.verif_state();
            c.line(&format!("ins {} {} = {} {} {} {}", 8, vlen, l, u, nb, ch));
            total += 8 + vlen;
            i += 1;
        }
        drop(sorter);
        c.line(&format!("creates {}", ctr.creates.get()));
        c.line(&format!("peak {}", ctr.peak.get()));
        c.nontrivial(&[realloc as u8, maxc as u8]);
        c.end();
    }
}
