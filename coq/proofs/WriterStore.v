(* Backbone W, part 3: the final assembly.  From the structural theorem of the whole writer run
   (WriterTree.w_run_tree: frames laid out one after the other, every block the finish of a legal
   block writer, the index tree invariant with nothing pending) to the well-formed store the reader
   refinement (ReaderRefine.wf_store) is proved over: a file written from a strictly ascending,
   non-empty entry sequence IS a well-formed store whose content is exactly the inserted entries. *)
From Coq Require Import Lia ZArith ZifyN ZifyBool ZifyNat Sorted.
From Grenad.gen Require Import Consts.
From Grenad.model Require Import Base Varint Block Trailer Writer Reader Spec Format.
From Grenad.proofs Require Import BaseProofs SortedFacts BlockProofs FormatProofs TrailerProofs BlockCursorProofs WriterInv WriterLayout WriterTree ReaderRefine.
Ltac Zify.zify_post_hook ::= Z.div_mod_to_equations.

Lemma last_opt_nonempty {A} (l : list A) : l <> [] -> exists a l', l = l' ++ [a] /\ last_opt l = Some a.
Proof.
  intro H. destruct (exists_last H) as (l' & a & ->). exists a, l'. split; [reflexivity|apply last_opt_snoc].
Qed.

Lemma last_key_in es : es <> [] -> In (last_key es) (map fst es).
Proof.
  intro H. destruct (last_opt_nonempty es H) as ([k v] & l' & -> & E). unfold last_key. rewrite E.
  rewrite map_app. apply in_or_app. right. left. reflexivity.
Qed.

Lemma last_keys_sorted (bl : list gentry) : (forall p, In p bl -> snd p <> []) ->
  StronglySorted blt (map fst (flat_map snd bl)) -> StronglySorted blt (map (fun p => last_key (snd p)) bl).
Proof.
  induction bl as [|p bl IH]; intros Hne H; [constructor|].
  cbn [flat_map] in H. rewrite map_app in H. apply SS_app_inv in H. destruct H as (_ & H2 & H3).
  cbn [map]. constructor; [apply IH; [intros q Hq; apply Hne; right; exact Hq|exact H2]|].
  apply Forall_forall. intros x Hx. apply in_map_iff in Hx. destruct Hx as (q & <- & Hq).
  apply H3; [apply last_key_in; apply Hne; left; reflexivity|].
  apply in_map_iff. assert (Hq' : In (last_key (snd q)) (map fst (snd q))) by (apply last_key_in; apply Hne; right; exact Hq).
  apply in_map_iff in Hq'. destruct Hq' as (x & Ex & Hx). exists x. split; [exact Ex|].
  apply in_flat_map. exists q. auto.
Qed.

Section Store.
  Variable compress : N -> N -> bytes -> outcome bytes.
  Variable decompress : N -> bytes -> outcome bytes.
  Variable c : wcfg.
  Hypothesis codec_ok : forall b z, compress (wc_codec c) (wc_level c) b = Done z -> decompress (wc_codec c) z = Done b.
  Notation L := (wc_levels c).
  Hypothesis Hint : 1 <= wc_interval c.

  Variable gl : list gentry.
  Variables body tail : bytes.
  Variable ins : list entry.
  Hypothesis Hlo : laid_out compress c (map fst gl) body.
  Hypothesis H64 : len body < 2^64.
  Hypothesis Hmem : forall p, In p gl -> len (em_bytes (fst p)) < 2^64.
  Hypothesis Hents : Forall (ents c) gl.
  Hypothesis HTI : TI L gl (fun _ => []) ins.
  Variable gl0 : list gentry.
  Variable e0 : emitted.
  Variable es0 : list entry.
  Hypothesis Hgl : gl = gl0 ++ [(e0, es0)].
  Hypothesis Hlvl0 : em_level e0 = 0.
  Hypothesis Hnz : Forall nz gl0.
  Hypothesis Hins : ins <> [].
  Hypothesis Hsorted : sorted_strictb (map fst ins) = true.

  Definition blk_of (es : list entry) : block * list entry * list nat :=
    let ridx := 0%nat :: ridx_gen (wc_interval c) 0 0 es in
    (mk_block (payload_of es) (map (start es) ridx), es, ridx).
  Definition bstore (off : N) : option (block * list entry * list nat) :=
    match find (fun p : gentry => em_offset (fst p) =? off) gl with
    | Some p => Some (blk_of (snd p))
    | None => None
    end.
  Definition ldf (ord off : N) : outcome block := load_block decompress (body ++ tail) (wc_codec c) ord off.
  Definition rootoff : N := em_offset e0.

  (* ---- offsets identify blocks ---- *)
  Lemma offs_inj p q : In p gl -> In q gl -> em_offset (fst p) = em_offset (fst q) -> p = q.
  Proof.
    intros Hp Hq E. apply In_nth_error in Hp. apply In_nth_error in Hq.
    destruct Hp as [i Hi], Hq as [j Hj].
    assert (Hi' : nth_error (map fst gl) i = Some (fst p)) by (rewrite nth_error_map, Hi; reflexivity).
    assert (Hj' : nth_error (map fst gl) j = Some (fst q)) by (rewrite nth_error_map, Hj; reflexivity).
    destruct (Nat.lt_trichotomy i j) as [Hlt|[Heq|Hgt]].
    - pose proof (laid_out_increasing compress decompress c codec_ok _ _ Hlo i j _ _ Hlt Hi' Hj'). lia.
    - subst j. rewrite Hi in Hj. injection Hj as ->. reflexivity.
    - pose proof (laid_out_increasing compress decompress c codec_ok _ _ Hlo j i _ _ Hgt Hj' Hi'). lia.
  Qed.

  Lemma find_gl p : In p gl -> find (fun q : gentry => em_offset (fst q) =? em_offset (fst p)) gl = Some p.
  Proof.
    intro Hp. destruct (find _ gl) as [q|] eqn:E.
    - apply find_some in E. destruct E as [Hq Eo]. apply N.eqb_eq in Eo. f_equal. apply offs_inj; assumption.
    - pose proof (find_none _ _ E p Hp) as Hn. cbn beta in Hn. rewrite N.eqb_refl in Hn. discriminate.
  Qed.

  Lemma bstore_in p : In p gl -> bstore (em_offset (fst p)) = Some (blk_of (snd p)).
  Proof. intro Hp. unfold bstore. rewrite (find_gl p Hp). reflexivity. Qed.

  Lemma bstore_some off x : bstore off = Some x -> exists p, In p gl /\ em_offset (fst p) = off /\ x = blk_of (snd p).
  Proof.
    unfold bstore. destruct (find _ gl) as [p|] eqn:E; [|discriminate]. intro H. injection H as <-.
    apply find_some in E. destruct E as [Hp Eo]. apply N.eqb_eq in Eo. exists p. auto.
  Qed.

  Lemma off_small p : In p gl -> em_offset (fst p) < 2^64.
  Proof.
    intro Hp. pose proof (laid_out_offsets compress decompress c codec_ok _ _ Hlo (fst p) ltac:(apply in_map; exact Hp)). lia.
  Qed.

  Lemma coff_item p : In p gl -> coff (item_of p) = em_offset (fst p).
  Proof.
    intro Hp. unfold coff, item_of. cbn [snd]. rewrite be_decode_bytes.
    change (256 ^ N.of_nat 8) with (2^64). apply N.mod_small. apply off_small. exact Hp.
  Qed.

  Lemma kids_item p : In p gl -> kids bstore (item_of p) = snd p.
  Proof. intro Hp. unfold kids. rewrite (coff_item p Hp), (bstore_in p Hp). reflexivity. Qed.

  Lemma gblocks_in k p : In p (gblocks k gl) -> In p gl /\ em_level (fst p) = k.
  Proof. unfold gblocks. intro H. apply filter_In in H. destruct H as [H1 H2]. apply N.eqb_eq in H2. auto. Qed.

  Lemma in_gblocks p : In p gl -> In p (gblocks (em_level (fst p)) gl).
  Proof. intro H. unfold gblocks. apply filter_In. split; [exact H|apply N.eqb_refl]. Qed.

  Lemma gblocks0 : gblocks 0 gl = [(e0, es0)].
  Proof.
    rewrite Hgl. unfold gblocks. rewrite filter_app. cbn [filter fst]. rewrite Hlvl0. cbn [N.eqb].
    assert (E : filter (fun p : gentry => em_level (fst p) =? 0) gl0 = []).
    { clear -Hnz. induction gl0 as [|p l IH]; [reflexivity|]. cbn [filter]. inversion Hnz as [|? ? Hp Hl]; subst. unfold nz in Hp.
      destruct (N.eqb_spec (em_level (fst p)) 0); [lia|exact (IH Hl)]. }
    rewrite E. reflexivity.
  Qed.

  Lemma root_in : In (e0, es0) gl.
  Proof. rewrite Hgl. apply in_or_app. right. left. reflexivity. Qed.

  (* the items of level k (k <= L) are the blocks of level k + 1 *)
  Lemma level_items k : k <= L -> flat_map snd (gblocks k gl) = map item_of (gblocks (k + 1) gl).
  Proof. intro Hk. destruct HTI as [H1 _]. rewrite <- (H1 k Hk). symmetry. apply app_nil_r. Qed.

  Lemma level_data : flat_map snd (gblocks (L + 1) gl) = ins.
  Proof. destruct HTI as [_ H2]. rewrite <- H2. rewrite app_nil_r. reflexivity. Qed.

  (* no level is empty *)
  Lemma level_nonempty : forall n k, k = N.of_nat n -> k <= L + 1 -> gblocks k gl <> [].
  Proof.
    assert (Hdown : forall k, k <= L -> gblocks k gl = [] -> gblocks (k + 1) gl = []).
    { intros k Hk E. pose proof (level_items k Hk) as H. rewrite E in H. cbn [flat_map] in H.
      symmetry in H. apply map_eq_nil in H. exact H. }
    assert (Hall : forall d k, k + N.of_nat d = L + 1 -> gblocks k gl = [] -> False).
    { induction d as [|d IH]; intros k Hk E.
      - assert (k = L + 1) by lia. subst k. pose proof level_data as H. rewrite E in H. cbn [flat_map] in H. apply Hins. symmetry. exact H.
      - apply (IH (k + 1)); [lia|]. apply Hdown; [lia|exact E]. }
    intros n k _ Hk E. apply (Hall (N.to_nat (L + 1 - k)) k); [lia|exact E].
  Qed.

  Lemma all_nonempty p : In p gl -> snd p <> [].
  Proof.
    intros Hp Hx. pose proof Hents as He. rewrite Forall_forall in He. destruct (He p Hp) as [_ H0]. specialize (H0 Hx).
    pose proof (in_gblocks p Hp) as Hg. rewrite H0, gblocks0 in Hg. destruct Hg as [<-|[]]. cbn [snd] in Hx.
    (* the root is empty: then level 1 is empty *)
    pose proof (level_items 0 ltac:(lia)) as H. rewrite gblocks0 in H. cbn [flat_map snd] in H. rewrite Hx in H. cbn [app] in H.
    symmetry in H. apply map_eq_nil in H. exact (level_nonempty 1 (0 + 1) eq_refl ltac:(lia) H).
  Qed.

  (* ---- the level sequences of the store are the levels of the tree ---- *)
  Lemma root_items_eq : root_items rootoff bstore = es0.
  Proof. unfold root_items, rootoff. pose proof (bstore_in (e0, es0) root_in) as E. cbn [fst snd] in E. rewrite E. reflexivity. Qed.

  Lemma flat_kids bl : (forall p, In p bl -> In p gl) -> flat_map (kids bstore) (map item_of bl) = flat_map snd bl.
  Proof.
    induction bl as [|p bl IH]; intro H; [reflexivity|]. cbn [map flat_map].
    rewrite (kids_item p (H p ltac:(left; reflexivity))). f_equal. apply IH. intros q Hq. apply H. right. exact Hq.
  Qed.

  Lemma lseq_eq : forall k, (k <= S (N.to_nat L))%nat -> lseq rootoff bstore k = flat_map snd (gblocks (N.of_nat k) gl).
  Proof.
    induction k as [|k IH]; intro Hk.
    - cbn [lseq]. rewrite root_items_eq. change (N.of_nat 0) with 0. rewrite gblocks0. cbn [flat_map snd]. symmetry. apply app_nil_r.
    - cbn [lseq]. rewrite (IH ltac:(lia)). rewrite (level_items (N.of_nat k) ltac:(lia)).
      replace (N.of_nat (S k)) with (N.of_nat k + 1) by lia.
      apply flat_kids. intros p Hp. apply gblocks_in in Hp. tauto.
  Qed.

  Lemma lseq_items k : (k < S (N.to_nat L))%nat -> lseq rootoff bstore k = map item_of (gblocks (N.of_nat k + 1) gl).
  Proof. intro Hk. rewrite (lseq_eq k ltac:(lia)). apply level_items. lia. Qed.

  Lemma content_eq : content rootoff L bstore = ins.
  Proof.
    unfold content, es_all. rewrite (lseq_eq (S (N.to_nat L)) ltac:(lia)).
    replace (N.of_nat (S (N.to_nat L))) with (L + 1) by lia. apply level_data.
  Qed.

  (* ---- the six fields ---- *)
  Lemma store_ld off b es ridx : bstore off = Some (b, es, ridx) ->
    (forall ord, ldf ord off = Done b) /\ wfblock b es ridx /\ es <> [].
  Proof.
    intro H. apply bstore_some in H. destruct H as (p & Hp & Eo & Ex). unfold blk_of in Ex. injection Ex as -> -> ->.
    pose proof Hents as He. rewrite Forall_forall in He. destruct (He p Hp) as [(w & [Hok Hi] & Hf) _].
    assert (Hl : bw_len w < 2^64).
    { pose proof (Hmem p Hp) as Hm. rewrite (bw_size_exact w (snd p) _ Hok Hf) in Hm. unfold bw_size in Hm. lia. }
    pose proof (finished_block_wf w (snd p) Hok ltac:(lia)) as W. rewrite Hi in W.
    pose proof (wf_offsets _ _ _ W) as Eoffs. cbn [blk_offsets] in Eoffs.
    cbn [map] in Eoffs. split; [|split; [rewrite <- Eoffs; exact W|apply all_nonempty; exact Hp]].
    intro ord. unfold ldf. rewrite <- Eo.
    rewrite (laid_out_load compress decompress c codec_ok _ _ Hlo H64 (fst p) tail ord ltac:(apply in_map; exact Hp)).
    rewrite (parse_finish w (snd p) _ Hok Hl Hf). rewrite Eoffs. reflexivity.
  Qed.

  Lemma store_items k : (k < S (N.to_nat L))%nat -> Forall (item_ok bstore) (lseq rootoff bstore k).
  Proof.
    intro Hk. rewrite (lseq_items k Hk). apply Forall_forall. intros it Hit.
    apply in_map_iff in Hit. destruct Hit as (p & <- & Hp). apply gblocks_in in Hp. destruct Hp as [Hp _].
    split; [unfold item_of; cbn [snd]; rewrite len_length, be_bytes_length; reflexivity|].
    rewrite (coff_item p Hp), (bstore_in p Hp). discriminate.
  Qed.

  Lemma store_disj k : (k < S (N.to_nat L))%nat -> forall it, In it (lseq rootoff bstore k) -> ~ In (coff it) (offs rootoff bstore k).
  Proof.
    intros Hk it Hit Hin. rewrite (lseq_items k Hk) in Hit.
    apply in_map_iff in Hit. destruct Hit as (p & <- & Hp). apply gblocks_in in Hp. destruct Hp as [Hp Hlp].
    rewrite (coff_item p Hp) in Hin. destruct k as [|k']; cbn [offs] in Hin.
    - destruct Hin as [E|[]]. unfold rootoff in E.
      assert (Epq : (e0, es0) = p) by (apply offs_inj; [exact root_in|exact Hp|exact E]).
      rewrite <- Epq in Hlp. cbn [fst] in Hlp. rewrite Hlvl0 in Hlp. lia.
    - rewrite (lseq_items k' ltac:(lia)) in Hin. rewrite map_map in Hin.
      apply in_map_iff in Hin. destruct Hin as (q & Eq & Hq). apply gblocks_in in Hq. destruct Hq as [Hq Hlq].
      rewrite (coff_item q Hq) in Eq.
      assert (Epq : q = p) by (apply offs_inj; assumption). subst q. lia.
  Qed.

  Lemma store_sorted : forall k, (k <= S (N.to_nat L))%nat -> sorted_strictb (map fst (lseq rootoff bstore k)) = true.
  Proof.
    assert (Hdown : forall d k, (k + d = S (N.to_nat L))%nat -> sorted_strictb (map fst (lseq rootoff bstore k)) = true).
    { induction d as [|d IH]; intros k Hk.
      - replace k with (S (N.to_nat L)) by lia. pose proof content_eq as E. unfold content, es_all in E. rewrite E. exact Hsorted.
      - pose proof (IH (S k) ltac:(lia)) as Hs. rewrite (lseq_eq (S k) ltac:(lia)) in Hs.
        rewrite (lseq_items k ltac:(lia)). replace (N.of_nat (S k)) with (N.of_nat k + 1) in Hs by lia.
        rewrite map_map. apply sorted_strictb_SS. apply sorted_strictb_SS in Hs.
        apply (last_keys_sorted _ ltac:(intros p Hp; apply all_nonempty; apply gblocks_in in Hp; tauto)) in Hs.
        exact Hs. }
    intros k Hk. apply (Hdown (S (N.to_nat L) - k)%nat). lia.
  Qed.

  Lemma store_last k g it : (k < S (N.to_nat L))%nat -> nth_error (lseq rootoff bstore k) g = Some it ->
    option_map fst (last_opt (kids bstore it)) = Some (fst it).
  Proof.
    intros Hk Hn. apply nth_error_In in Hn. rewrite (lseq_items k Hk) in Hn.
    apply in_map_iff in Hn. destruct Hn as (p & <- & Hp). apply gblocks_in in Hp. destruct Hp as [Hp _].
    rewrite (kids_item p Hp). unfold item_of. cbn [fst]. unfold last_key.
    destruct (last_opt_nonempty (snd p) (all_nonempty p Hp)) as ([k0 v0] & l' & _ & ->). reflexivity.
  Qed.

  Theorem written_store : wf_store ldf rootoff L bstore.
  Proof.
    constructor.
    - exact store_ld.
    - exact store_disj.
    - unfold root_items, rootoff. pose proof (bstore_in (e0, es0) root_in) as E. cbn [fst snd] in E. rewrite E. unfold blk_of. eexists _, _. reflexivity.
    - exact store_items.
    - exact store_sorted.
    - intros k g it Hk Hn. exact (store_last k g it Hk Hn).
  Qed.
End Store.

(* ================= the whole writer run ================= *)
Definition mem_ok (lg : list emitted) : Prop := forall e, In e lg -> len (em_bytes e) < 2^64.

(* the body of the file (everything before the trailer) is a well-formed store whatever follows it *)
Theorem written_body_wf compress decompress c :
  (forall b z, compress (wc_codec c) (wc_level c) b = Done z -> decompress (wc_codec c) z = Done b) ->
  forall es i s lg m, wc_levels c < 256 -> 1 <= wc_interval c ->
  w_run_gen vsink vs_wr vs_fl vs_count compress c vs_empty es = (i, Done (s, lg, m)) ->
  es <> [] -> sorted_strictb (map fst es) = true ->
  len (vs_bytes s) < 2^64 -> mem_ok lg ->
  exists bstore body,
    vs_bytes s = body ++ trailer_bytes m /\
    content (m_root m) (wc_levels c) bstore = es /\
    m_version m = FormatV2 /\ m_codec m = wc_codec c /\ m_count m = len es /\ m_levels m = wc_levels c /\
    m_root m + 8 <= len body /\
    forall tail, wf_store (load_block decompress (body ++ tail) (wc_codec c)) (m_root m) (wc_levels c) bstore.
Proof.
  intros Hcodec es i s lg m HL Hint Hrun Hne Hsorted H64 Hmem.
  destruct (w_run_tree compress decompress c Hcodec es i s lg m HL Hrun)
    as (gl & body & Hlo & Hmap & Hents & HTI & Hbytes & Hcnt & Hv & Hc & Hn & Hlv & gl0 & e0 & es0 & Hgl & Hl0 & Hroot & Hnz).
  rewrite <- Hmap in Hlo.
  assert (H64b : len body < 2^64) by (rewrite Hbytes, len_app in H64; lia).
  assert (Hmem' : forall p, In p gl -> len (em_bytes (fst p)) < 2^64).
  { intros p Hp. apply Hmem. apply in_rev. rewrite <- Hmap. apply in_map. exact Hp. }
  exists (bstore c gl), body. split; [exact Hbytes|].
  pose proof (content_eq compress decompress c Hcodec Hint gl body (trailer_bytes m) es Hlo H64b Hmem' HTI gl0 e0 es0 Hgl Hl0 Hnz) as Ec.
  unfold rootoff in Ec. rewrite Hroot in Ec.
  split; [exact Ec|]. repeat (split; [assumption|]).
  split; [rewrite Hlv; unfold u8; apply N.mod_small; lia|].
  split.
  { pose proof (laid_out_offsets compress decompress c Hcodec _ _ Hlo e0) as Ho. rewrite <- Hroot. apply Ho.
    rewrite Hgl, map_app. apply in_or_app. right. left. reflexivity. }
  intro tail.
  pose proof (written_store compress decompress c Hcodec Hint gl body tail es Hlo H64b Hmem' Hents HTI gl0 e0 es0 Hgl Hl0 Hnz Hne Hsorted) as W.
  unfold ldf, rootoff in W. rewrite Hroot in W. exact W.
Qed.

Theorem written_file_wf compress decompress c :
  (forall b z, compress (wc_codec c) (wc_level c) b = Done z -> decompress (wc_codec c) z = Done b) ->
  forall es i s lg m, wc_levels c < 256 -> 1 <= wc_interval c ->
  w_run_gen vsink vs_wr vs_fl vs_count compress c vs_empty es = (i, Done (s, lg, m)) ->
  es <> [] -> sorted_strictb (map fst es) = true ->
  len (vs_bytes s) < 2^64 -> mem_ok lg ->
  exists bstore,
    wf_store (load_block decompress (vs_bytes s) (wc_codec c)) (m_root m) (wc_levels c) bstore /\
    content (m_root m) (wc_levels c) bstore = es /\
    m_version m = FormatV2 /\ m_codec m = wc_codec c /\ m_count m = len es /\ m_levels m = wc_levels c /\
    exists body, vs_bytes s = body ++ trailer_bytes m.
Proof.
  intros Hcodec es i s lg m HL Hint Hrun Hne Hsorted H64 Hmem.
  destruct (written_body_wf compress decompress c Hcodec es i s lg m HL Hint Hrun Hne Hsorted H64 Hmem)
    as (bs & body & Hbytes & Ec & Hv & Hc & Hn & Hlv & _ & W).
  exists bs. split; [rewrite Hbytes; apply W|]. split; [exact Ec|]. repeat (split; [assumption|]). exists body. exact Hbytes.
Qed.

(* C01, end to end on the models: a file written from a non-empty strictly ascending sequence opens with
   the written trailer, scans forward as exactly the inserted entries then None, backward as their
   reverse then None *)
Theorem written_file_roundtrip compress decompress c :
  (forall b z, compress (wc_codec c) (wc_level c) b = Done z -> decompress (wc_codec c) z = Done b) ->
  forall es i s lg m, wc_levels c < 256 -> 1 <= wc_interval c -> wc_codec c <= 5 ->
  w_run_gen vsink vs_wr vs_fl vs_count compress c vs_empty es = (i, Done (s, lg, m)) ->
  es <> [] -> sorted_strictb (map fst es) = true ->
  len (vs_bytes s) < 2^64 -> mem_ok lg -> len es < 2^64 ->
  open_meta (vs_bytes s) = Done m /\ m_count m = len es /\ m_codec m = wc_codec c /\
  let ld := load_block decompress (vs_bytes s) (m_codec m) in
  (exists st rs, run_ops ld (m_root m) (m_levels m) cs_fresh (repeat ONext (S (length es))) = Done (st, rs) /\
                 rs = map Some es ++ [None]) /\
  (exists st rs, run_ops ld (m_root m) (m_levels m) cs_fresh (repeat OPrev (S (length es))) = Done (st, rs) /\
                 rs = map Some (rev es) ++ [None]).
Proof.
  intros Hcodec es i s lg m HL Hint Hk Hrun Hne Hsorted H64 Hmem Hcount.
  destruct (written_file_wf compress decompress c Hcodec es i s lg m HL Hint Hrun Hne Hsorted H64 Hmem)
    as (bs & W & Ec & Hv & Hc & Hn & Hlv & body & Hbytes).
  assert (Hroot : m_root m < 2^64).
  { destruct W as [_ _ (rb & rridx & Er) _ _ _].
    (* the root is a stored block: its frame lies inside the file *)
    destruct (w_run_tree compress decompress c Hcodec es i s lg m HL Hrun)
      as (gl & body' & Hlo & Hmap & _ & _ & Hbytes' & _ & _ & _ & _ & _ & gl0 & e0 & es0 & Hgl & _ & Hroot & _).
    pose proof (laid_out_offsets compress decompress c Hcodec _ _ Hlo e0) as Ho. rewrite <- Hroot.
    assert (Hin : In e0 (rev lg)) by (rewrite <- Hmap, Hgl, map_app; apply in_or_app; right; left; reflexivity).
    specialize (Ho Hin). rewrite Hbytes', len_app in H64. lia. }
  split.
  { rewrite Hbytes. apply open_written. unfold wf_meta. rewrite Hn, Hc, Hlv, Hv.
    split; [exact Hroot|]. split; [exact Hcount|]. split; [exact Hk|]. split; [exact HL|discriminate]. }
  split; [exact Hn|]. split; [exact Hc|]. cbv zeta. rewrite Hc, Hlv.
  assert (Hlen : (0 < length es)%nat) by (destruct es; [congruence|cbn [length]; lia]).
  pose proof (scan_forward _ _ _ _ W) as F. pose proof (scan_backward _ _ _ _ W) as B.
  rewrite Ec in F, B. split; [exact (F Hlen)|exact (B Hlen)].
Qed.

(* ---- histories, stated over the inserted entries themselves ---- *)
Fixpoint aspec_ops (es : list entry) (p : apos) (ops : list op) : apos * list (option (option entry)) :=
  match ops with
  | [] => (p, [])
  | o :: r => let x := aspec es p o in let y := aspec_ops es (fst x) r in (fst y, snd x :: snd y)
  end.
Fixpoint adm_ops (es : list entry) (p : apos) (ops : list op) : Prop :=
  match ops with
  | [] => True
  | o :: r => admissible p o /\ adm_ops es (fst (aspec es p o)) r
  end.

Lemma spec_ops_content root levels bs ops : forall p,
  spec_ops root bs levels p ops = aspec_ops (content root levels bs) p ops.
Proof. induction ops as [|o r IH]; intro p; [reflexivity|]. cbn [spec_ops aspec_ops]. rewrite IH. reflexivity. Qed.

Lemma adm_ops_content root levels bs ops : forall p,
  admissible_ops root bs levels p ops <-> adm_ops (content root levels bs) p ops.
Proof. induction ops as [|o r IH]; intro p; [reflexivity|]. cbn [admissible_ops adm_ops]. rewrite IH. reflexivity. Qed.

(* C02 / C03 on written files: every admissible history of cursor operations on a fresh cursor over a
   file written from es returns, operation by operation, what the abstract cursor over es returns *)
Theorem written_file_history compress decompress c :
  (forall b z, compress (wc_codec c) (wc_level c) b = Done z -> decompress (wc_codec c) z = Done b) ->
  forall es i s lg m, wc_levels c < 256 -> 1 <= wc_interval c ->
  w_run_gen vsink vs_wr vs_fl vs_count compress c vs_empty es = (i, Done (s, lg, m)) ->
  es <> [] -> sorted_strictb (map fst es) = true ->
  len (vs_bytes s) < 2^64 -> mem_ok lg ->
  forall ops, adm_ops es Fresh ops ->
  exists st rs, run_ops (load_block decompress (vs_bytes s) (m_codec m)) (m_root m) (m_levels m) cs_fresh ops = Done (st, rs) /\
    Forall2 res_ok (snd (aspec_ops es Fresh ops)) rs /\
    cs_loads st <= N.of_nat (length ops) * (2 * (m_levels m + 2)).
Proof.
  intros Hcodec es i s lg m HL Hint Hrun Hne Hsorted H64 Hmem ops Ha.
  destruct (written_file_wf compress decompress c Hcodec es i s lg m HL Hint Hrun Hne Hsorted H64 Hmem)
    as (bs & W & Ec & Hv & Hc & Hn & Hlv & body & Hbytes).
  rewrite Hc, Hlv. rewrite <- Ec in Ha |- *.
  set (ld := load_block decompress (vs_bytes s) (wc_codec c)) in *.
  set (root := m_root m) in *. set (L := wc_levels c) in *.
  (* histories with the load bound, by induction over the operations *)
  assert (G : forall ops p st, Rel root bs L p st -> adm_ops (content root L bs) p ops ->
              exists st' rs, run_ops ld root L st ops = Done (st', rs) /\
                Forall2 res_ok (snd (aspec_ops (content root L bs) p ops)) rs /\
                cs_loads st' <= cs_loads st + N.of_nat (length ops) * (2 * (L + 2))).
  { clear Ha ops. induction ops as [|o r IH]; intros p st HR Ha.
    - exists st, []. cbn [run_ops aspec_ops snd length]. split; [reflexivity|]. split; [constructor|lia].
    - cbn [adm_ops] in Ha. destruct Ha as [Ha1 Ha2].
      destruct (R_step ld root L bs W p st o HR Ha1) as (st1 & r1 & E1 & HR1 & Hres1 & Hl1).
      destruct (IH _ st1 HR1 Ha2) as (st' & rs & E2 & Hres2 & Hl2).
      exists st', (r1 :: rs). cbn [run_ops aspec_ops]. rewrite E1. cbn [bind fst snd]. rewrite E2. cbn [bind fst snd].
      split; [reflexivity|]. split; [constructor; assumption|]. cbn [length]. lia. }
  destruct (G ops Fresh cs_fresh (fresh_rel root bs L) Ha) as (st' & rs & A & B & C).
  exists st', rs. split; [exact A|]. split; [exact B|]. cbn [cs_loads cs_fresh] in C. lia.
Qed.
