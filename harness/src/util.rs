//! Shared helpers: PRNG, hex, case-file writer, statistics.
use std::collections::{BTreeMap, HashSet};
use std::fmt::Write as _;
use std::io::Write;

/// xorshift64* — every random choice of a run derives from one state.
#[derive(Clone)]
pub struct Rng(pub u64);
impl Rng {
    pub fn new(seed: u64) -> Rng {
        let mut r = Rng(seed ^ 0x9E3779B97F4A7C15);
        if r.0 == 0 {
            r.0 = 0x1234_5678_9ABC_DEF1;
        }
        for _ in 0..4 {
            r.next();
        }
        r
    }
    pub fn next(&mut self) -> u64 {
        let mut x = self.0;
        x ^= x >> 12;
        x ^= x << 25;
        x ^= x >> 27;
        self.0 = x;
        x.wrapping_mul(0x2545F4914F6CDD1D)
    }
    /// uniform in 0..n (n > 0)
    pub fn below(&mut self, n: u64) -> u64 {
        self.next() % n
    }
    pub fn range(&mut self, lo: u64, hi_incl: u64) -> u64 {
        lo + self.below(hi_incl - lo + 1)
    }
    pub fn chance(&mut self, num: u64, den: u64) -> bool {
        self.below(den) < num
    }
    pub fn pick<'a, T>(&mut self, xs: &'a [T]) -> &'a T {
        &xs[self.below(xs.len() as u64) as usize]
    }
    pub fn fork(&mut self) -> Rng {
        Rng::new(self.next())
    }
}

pub fn hex(b: &[u8]) -> String {
    if b.is_empty() {
        return "-".to_string();
    }
    let mut s = String::with_capacity(b.len() * 2);
    for x in b {
        let _ = write!(s, "{:02x}", x);
    }
    s
}

pub fn unhex(s: &str) -> Vec<u8> {
    if s == "-" {
        return Vec::new();
    }
    (0..s.len() / 2).map(|i| u8::from_str_radix(&s[2 * i..2 * i + 2], 16).unwrap()).collect()
}

/// Writer of the case file consumed by the OCaml driver.
pub struct Cases<W: Write> {
    pub out: W,
    pub count: u64,
    /// free-form counters describing the input distribution, for the evidence file
    pub stats: BTreeMap<String, u64>,
    pub samples: Vec<String>,
    /// hashes of the distinct cases that are non-trivial by the scenario's rule
    pub nontrivial: HashSet<u64>,
    /// the property the current scenario serves (selects the predicates the driver evaluates)
    pub prop: String,
    /// where the case in flight is saved before the implementation runs on it (read by `check`
    /// when the process is killed or aborts: that case is then the failing input)
    pub inflight: Option<String>,
    /// an extra line for the next case begun (set by a generator, consumed by the emitter)
    pub pending_tag: Option<String>,
    cur: String,
}

impl<W: Write> Cases<W> {
    pub fn new(out: W) -> Self {
        Cases { out, count: 0, stats: BTreeMap::new(), samples: Vec::new(), nontrivial: HashSet::new(), prop: String::new(), inflight: None, pending_tag: None, cur: String::new() }
    }
    pub fn begin(&mut self, kind: &str) -> u64 {
        self.count += 1;
        self.cur.clear();
        let _ = writeln!(self.cur, "CASE {} {}", kind, self.count);
        self.bump(&format!("cases.{}", kind), 1);
        self.count
    }
    pub fn line(&mut self, s: &str) {
        self.cur.push_str(s);
        self.cur.push('\n');
    }
    /// saves the case in flight (header and inputs written so far)
    pub fn checkpoint(&mut self) {
        if let Some(p) = &self.inflight {
            let _ = std::fs::write(p, self.cur.as_bytes());
        }
    }
    pub fn end(&mut self) {
        self.cur.push_str("END\n");
        // samples for the evidence file: small cases, but not the degenerate ones (a handful of lines): the first
        // three cases between 250 and 1500 characters; the very first case is kept in case none qualifies
        if self.samples.is_empty() && self.cur.len() < 1500 {
            self.samples.push(self.cur.clone());
        } else if self.samples.len() < 4 && self.cur.len() >= 250 && self.cur.len() < 1500 {
            self.samples.push(self.cur.clone());
        }
        self.out.write_all(self.cur.as_bytes()).unwrap();
        // no case is in flight any more: a panic of the harness between two cases must not be attributed
        if let Some(p) = &self.inflight {
            if std::path::Path::new(p).exists() {
                let _ = std::fs::remove_file(p);
            }
        }
    }
    pub fn bump(&mut self, key: &str, n: u64) {
        *self.stats.entry(key.to_string()).or_insert(0) += n;
    }
    /// Records the current case as non-trivial (by the scenario's rule); distinctness is by
    /// the hash of `key` (the part of the input that makes the case what it is).
    pub fn nontrivial(&mut self, key: &[u8]) {
        self.nontrivial.insert(fnv(key));
    }
    pub fn finish(mut self, stats_path: &str) {
        self.out.flush().unwrap();
        if let Some(p) = &self.inflight {
            let _ = std::fs::remove_file(p);
        }
        let n = self.nontrivial.len() as u64;
        self.stats.insert("nontrivial".to_string(), n);
        let mut s = String::from("{\n");
        let _ = writeln!(s, "  \"cases\": {},", self.count);
        s.push_str("  \"stats\": {");
        let mut first = true;
        for (k, v) in &self.stats {
            if !first {
                s.push(',');
            }
            first = false;
            let _ = write!(s, "\n    \"{}\": {}", k, v);
        }
        s.push_str("\n  },\n  \"samples\": [");
        let mut first = true;
        for smp in &self.samples {
            if !first {
                s.push(',');
            }
            first = false;
            let _ = write!(s, "\n    {:?}", smp);
        }
        s.push_str("\n  ]\n}\n");
        std::fs::write(stats_path, s).unwrap();
    }
}

/// Runs `f`, turning a panic into `Err(message)`.
pub fn catch<T>(f: impl FnOnce() -> T) -> Result<T, String> {
    match std::panic::catch_unwind(std::panic::AssertUnwindSafe(f)) {
        Ok(v) => Ok(v),
        Err(e) => Err(if let Some(s) = e.downcast_ref::<&str>() {
            s.to_string()
        } else if let Some(s) = e.downcast_ref::<String>() {
            s.clone()
        } else {
            "panic".to_string()
        }),
    }
}

pub fn fnv(bytes: &[u8]) -> u64 {
    let mut h: u64 = 0xcbf29ce484222325;
    for b in bytes {
        h ^= *b as u64;
        h = h.wrapping_mul(0x100000001b3);
    }
    h
}
