(* Extraction of the executable model to OCaml for the correspondence driver.
   ExtrOcamlBasic only: bool, option, unit, list, prod, sumbool, sumor map to OCaml's own
   types; N, positive, nat, comparison stay the inductive types Coq defines. No
   Extract Constant / Extract Inductive directives of our own. *)
From Coq Require Extraction ExtrOcamlBasic.
From Grenad.model Require Import Base Varint.
Extraction Language OCaml.
Extraction "model.ml"
  Base.len Base.lex_compare Base.bytes_ltb Base.bytes_leb Base.bytes_eqb
  Base.le_bytes Base.be_bytes Base.le_decode Base.be_decode
  Varint.varint_encode32 Varint.varint_decode32 Varint.varint_length_packed.
