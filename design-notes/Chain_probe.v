From Coq Require Import List Arith Lia Bool.
Import ListNotations.

(* Probe: the relative move of IndexBlockCursor::recursive_index_block, at the index level of
   abstraction (blocks = item lists, in-block position = item index), over the FLAT view of the
   tree (level sequences by iterated flat_map).  Goal: "next" on a positioned stack steps to the
   successor in the deepest level's sequence. *)
Section Chain.
Variable item : Type.
Variable off_of : item -> nat.
Variable load : nat -> list item.
Hypothesis load_nonempty : forall o, load o <> [].     (* wf: every referenced block is non-empty *)

Record bcur := { items : list item; pos : option nat }.
Definition b_cur (c : bcur) : option item :=
  match pos c with Some j => nth_error (items c) j | None => None end.
Definition b_first (c : bcur) : bcur * option item :=
  let c' := {| items := items c; pos := Some 0 |} in (c', b_cur c').
Definition b_next (c : bcur) : bcur * option item :=
  match pos c with
  | None => b_first c
  | Some j => if j <? length (items c)
              then let c' := {| items := items c; pos := Some (S j) |} in (c', b_cur c')
              else (c, None)
  end.

(* stack, deepest level first; the nat is the recorded offset (updated on reload: the D2 repair) *)
Fixpoint rec_next (st : list (nat * bcur)) : list (nat * bcur) * option item :=
  match st with
  | [] => ([], None)
  | (o, c) :: up =>
      let (c1, r) := b_next c in
      match r with
      | Some it => ((o, c1) :: up, Some it)
      | None =>
          let (up', r') := rec_next up in
          match r' with
          | Some pit =>
              let (c3, r3) := b_next {| items := load (off_of pit); pos := None |} in
              ((off_of pit, c3) :: up', r3)
          | None => ((o, c1) :: up', None)
          end
      end
  end.

(* ---- flat view ---- *)
Definition kids (it : item) : list item := load (off_of it).
Fixpoint lseq (root : nat) (k : nat) : list item :=
  match k with O => load root | S k' => flat_map kids (lseq root k') end.
Definition start (l : list item) (gp : nat) : nat := length (flat_map kids (firstn gp l)).

Lemma kids_pos it : 0 < length (kids it).
Proof. unfold kids. specialize (load_nonempty (off_of it)). destruct (load (off_of it)); [congruence|simpl; lia]. Qed.

Lemma start_S l gp pit : nth_error l gp = Some pit -> start l (S gp) = start l gp + length (kids pit).
Proof.
  unfold start. revert gp. induction l as [|a l IH]; intros gp H; [destruct gp; discriminate|].
  destruct gp as [|gp]; cbn in *.
  - inversion H; subst. destruct l; cbn; rewrite ?app_nil_r; lia.
  - rewrite !app_length. rewrite (IH gp H). cbn. lia.
Qed.

Lemma nth_flat l gp pit j : nth_error l gp = Some pit -> j < length (kids pit) ->
  nth_error (flat_map kids l) (start l gp + j) = nth_error (kids pit) j.
Proof.
  unfold start. revert gp. induction l as [|a l IH]; intros gp H Hj; [destruct gp; discriminate|].
  destruct gp as [|gp]; cbn in *.
  - inversion H; subst. rewrite nth_error_app1 by lia. reflexivity.
  - rewrite app_length. rewrite <- Nat.add_assoc. rewrite nth_error_app2 by lia.
    replace (length (kids a) + (length (flat_map kids (firstn gp l)) + j) - length (kids a)) with (length (flat_map kids (firstn gp l)) + j) by lia.
    apply IH; assumption.
Qed.

Lemma start_all l : start l (length l) = length (flat_map kids l).
Proof. unfold start. rewrite firstn_all. reflexivity. Qed.

Lemma start_mono l gp pit : nth_error l gp = Some pit -> start l gp + length (kids pit) <= length (flat_map kids l).
Proof.
  intro H. rewrite <- (start_S l gp pit H). unfold start.
  rewrite <- (firstn_skipn (S gp) l) at 2. rewrite flat_map_app, app_length. lia.
Qed.

(* positioned root st d g : st has d+1 levels, its deepest cursor sits on element g of lseq root d *)
Inductive positioned (root : nat) : list (nat * bcur) -> nat -> nat -> Prop :=
| pos_root o c g : items c = load root -> pos c = Some g -> g < length (items c) ->
    positioned root [(o, c)] 0 g
| pos_step o c up d gp pit j : positioned root up d gp -> nth_error (lseq root d) gp = Some pit ->
    items c = kids pit -> pos c = Some j -> j < length (items c) ->
    positioned root ((o, c) :: up) (S d) (start (lseq root d) gp + j).

Lemma positioned_lt root st d g : positioned root st d g -> g < length (lseq root d).
Proof.
  induction 1 as [o c g A B C | o c up d gp pit j Hp IH Hn Hi Hpos Hj].
  - cbn. rewrite <- A. exact C.
  - cbn [lseq]. pose proof (start_mono _ _ _ Hn). rewrite Hi in Hj. lia.
Qed.

Theorem rec_next_spec root st d g : positioned root st d g ->
  let (st', r) := rec_next st in
  if S g <? length (lseq root d)
  then positioned root st' d (S g) /\ r = nth_error (lseq root d) (S g)
  else r = None.
Proof.
  induction 1 as [o c g A B C | o c up d' gp pit j Hp IH Hn Hi Hpos Hj].
  - (* root level *)
    cbn [rec_next]. unfold b_next. rewrite B. destruct (Nat.ltb_spec g (length (items c))); [|lia].
    unfold b_cur; cbn [pos items]. cbn [lseq]. rewrite <- A.
    destruct (Nat.ltb_spec (S g) (length (items c))) as [Hs|Hs].
    + destruct (nth_error (items c) (S g)) eqn:E; [|apply nth_error_None in E; lia].
      split; [|reflexivity]. constructor; cbn [items pos]; auto.
    + assert (E : nth_error (items c) (S g) = None) by (apply nth_error_None; lia).
      rewrite E. cbn [rec_next]. reflexivity.
  - set (g := start (lseq root d') gp + j) in *.
    cbn [rec_next]. unfold b_next at 1. rewrite Hpos. destruct (Nat.ltb_spec j (length (items c))); [|lia].
    unfold b_cur; cbn [pos items].
    pose proof (start_mono _ _ _ Hn) as Hm. rewrite Hi in *.
    destruct (nth_error (kids pit) (S j)) eqn:E.
    + (* stays inside the block *)
      assert (S j < length (kids pit)) by (apply nth_error_Some; congruence).
      cbn [lseq]. destruct (Nat.ltb_spec (S g) (length (flat_map kids (lseq root d')))); [|subst g; lia].
      split.
      * replace (S g) with (start (lseq root d') gp + S j) by (subst g; lia).
        econstructor; eauto.
      * subst g. replace (S (start (lseq root d') gp + j)) with (start (lseq root d') gp + S j) by lia.
        rewrite (nth_flat _ _ _ _ Hn) by lia. congruence.
    + (* block exhausted: climb *)
      assert (Hlast : S j = length (kids pit)) by (apply nth_error_None in E; lia).
      destruct (rec_next up) as [up2 r2].
      cbn [lseq].
      assert (Hg1 : S g = start (lseq root d') (S gp)) by (rewrite (start_S _ _ _ Hn); subst g; lia).
      destruct (Nat.ltb_spec (S gp) (length (lseq root d'))) as [Hgp|Hgp].
      * destruct IH as [IHp IHr]. destruct (nth_error (lseq root d') (S gp)) as [pit2|] eqn:E2; [|apply nth_error_None in E2; lia].
        subst r2. unfold b_next, b_first, b_cur; cbn [pos items].
        pose proof (kids_pos pit2) as K2. pose proof (start_mono _ _ _ E2) as Hm2.
        fold (kids pit2).
        destruct (nth_error (kids pit2) 0) eqn:E0; [|apply nth_error_None in E0; lia].
        destruct (Nat.ltb_spec (S g) (length (flat_map kids (lseq root d')))); [|lia].
        split.
        -- rewrite Hg1. replace (start (lseq root d') (S gp)) with (start (lseq root d') (S gp) + 0) by lia.
           econstructor; eauto.
        -- rewrite Hg1. replace (start (lseq root d') (S gp)) with (start (lseq root d') (S gp) + 0) by lia.
           rewrite (nth_flat _ _ _ _ E2) by lia. congruence.
      * subst r2.
        assert (length (lseq root d') = S gp) by (pose proof (positioned_lt _ _ _ _ Hp); lia).
        assert (S g = length (flat_map kids (lseq root d'))) by (rewrite Hg1, <- start_all; congruence).
        destruct (Nat.ltb_spec (S g) (length (flat_map kids (lseq root d')))); [lia|]. reflexivity.
Qed.

(* ================= absolute moves: IndexBlockCursor::iter_index_blocks ================= *)
(* An absolute in-block move (first / last / ceiling of q) is determined by the block's items only:
   it selects index [sel items] (= length items when nothing is selected). *)
Variable sel : list item -> nat.
Definition amov (c : bcur) : bcur * option item :=
  let j := sel (items c) in ({| items := items c; pos := Some j |}, nth_error (items c) j).
Definition fresh (l : list item) : bcur := {| items := l; pos := None |}.

(* root-first list of (recorded offset, cursor); reuse the cached cursor only when the offset matches *)
Fixpoint iter (jump : nat) (lv : list (nat * bcur)) : list (nat * bcur) * option item :=
  match lv with
  | [] => ([], None)
  | (o, c) :: rest =>
      let c0 := if jump =? o then c else fresh (load jump) in
      let (c1, r) := amov c0 in
      match r, rest with
      | None, _ => ((jump, c1) :: rest, None)
      | Some it, [] => ([(jump, c1)], Some it)
      | Some it, _ :: _ => let (rest', r') := iter (off_of it) rest in ((jump, c1) :: rest', r')
      end
  end.

(* offsets of the blocks of level k *)
Definition offs (root k : nat) : list nat :=
  match k with O => [root] | S k' => map off_of (lseq root k') end.

(* cache coherence: a pair is VALID (cursor really holds the block at the recorded offset) or HARMLESS
   (the recorded offset is not the offset of any block of that level, so it can never match a jump) *)
Definition ok_pair (root k : nat) (p : nat * bcur) : Prop :=
  items (snd p) = load (fst p) \/ ~ In (fst p) (offs root k).
Fixpoint coherent (root k : nat) (lv : list (nat * bcur)) : Prop :=
  match lv with [] => True | p :: rest => ok_pair root k p /\ coherent root (S k) rest end.
Fixpoint all_valid (lv : list (nat * bcur)) : Prop :=
  match lv with [] => True | p :: rest => items (snd p) = load (fst p) /\ all_valid rest end.

Lemma all_valid_coherent root lv : forall k, all_valid lv -> coherent root k lv.
Proof. induction lv as [|p r IH]; intros k H; cbn in *; [exact I|]. destruct H; split; [left; assumption|auto]. Qed.

(* the path selected from (level k, global index gp) going n levels down *)
Fixpoint sdesc (root k gp n : nat) : option nat :=
  match n with
  | O => Some gp
  | S n' => match nth_error (lseq root k) gp with
            | None => None
            | Some pit => let j := sel (kids pit) in
                          if j <? length (kids pit) then sdesc root (S k) (start (lseq root k) gp + j) n' else None
            end
  end.

Lemma iter_gen root : forall lv k up gp pit,
  positioned root up k gp -> nth_error (lseq root k) gp = Some pit -> coherent root (S k) lv -> lv <> [] ->
  let (lv', r) := iter (off_of pit) lv in
  length lv' = length lv /\
  match sdesc root k gp (length lv) with
  | Some g => positioned root (rev lv' ++ up) (k + length lv) g /\ r = nth_error (lseq root (k + length lv)) g /\ all_valid lv'
  | None => r = None /\ coherent root (S k) lv'
  end.
Proof.
  induction lv as [|[o c] rest IH]; intros k up gp pit Hp Hn Hc Hne; [congruence|].
  cbn [iter]. destruct Hc as [Hok Hrest].
  (* the cursor used at this level holds the parent's child block *)
  assert (Hitems : items (if off_of pit =? o then c else fresh (load (off_of pit))) = kids pit).
  { destruct (Nat.eqb_spec (off_of pit) o) as [E|E]; [|reflexivity].
    destruct Hok as [V|Hh]; cbn [fst snd] in *.
    - rewrite V, <- E. reflexivity.
    - exfalso. apply Hh. rewrite <- E. cbn [offs]. apply in_map. eapply nth_error_In; eauto. }
  unfold amov. rewrite Hitems. cbn [length sdesc]. rewrite Hn. cbv zeta.
  set (j := sel (kids pit)).
  destruct (nth_error (kids pit) j) as [it|] eqn:Ej.
  - assert (Hj : j < length (kids pit)) by (apply nth_error_Some; congruence).
    destruct (Nat.ltb_spec j (length (kids pit))); [|lia].
    set (c1 := {| items := kids pit; pos := Some j |}).
    assert (Hp1 : positioned root ((off_of pit, c1) :: up) (S k) (start (lseq root k) gp + j)).
    { econstructor; eauto. }
    assert (Hn1 : nth_error (lseq root (S k)) (start (lseq root k) gp + j) = Some it).
    { cbn [lseq]. rewrite (nth_flat _ _ _ _ Hn Hj). exact Ej. }
    destruct rest as [|p2 rest2].
    + cbn [length sdesc rev app]. replace (k + 1) with (S k) by lia.
      split; [reflexivity|]. split; [exact Hp1|]. split; [congruence|]. cbn. split; [reflexivity|exact I].
    + specialize (IH (S k) _ _ _ Hp1 Hn1 Hrest ltac:(discriminate)).
      destruct (iter (off_of it) (p2 :: rest2)) as [rest' r'].
      destruct IH as [Hlen IH]. split; [change (S (length rest') = S (length (p2 :: rest2))); rewrite Hlen; reflexivity|].
      replace (k + S (length (p2 :: rest2))) with (S k + length (p2 :: rest2)) by lia.
      destruct (sdesc root (S k) (start (lseq root k) gp + j) (length (p2 :: rest2))) as [g|].
      * destruct IH as (A & B & C). cbn [rev]. rewrite <- app_assoc. cbn [app].
        split; [exact A|]. split; [exact B|]. cbn. split; [reflexivity|exact C].
      * destruct IH as [A B]. split; [exact A|]. cbn. split; [left; reflexivity|exact B].
  - assert (Hj : length (kids pit) <= j) by (apply nth_error_None; exact Ej).
    destruct (Nat.ltb_spec j (length (kids pit))); [lia|].
    split; [reflexivity|]. split; [reflexivity|]. cbn. split; [left; reflexivity|exact Hrest].
Qed.

(* relative moves keep the cache coherent: a pair is either moved inside the same block or reloaded
   together with its recorded offset (the D2 repair) *)
Fixpoint coherent_df (root : nat) (st : list (nat * bcur)) : Prop :=   (* deepest first *)
  match st with [] => True | p :: up => ok_pair root (length up) p /\ coherent_df root up end.

Lemma b_next_items c : items (fst (b_next c)) = items c.
Proof.
  unfold b_next, b_first. destruct (pos c) as [j|]; [|reflexivity].
  destruct (j <? length (items c)); reflexivity.
Qed.

Lemma rec_next_coherent root st : coherent_df root st ->
  coherent_df root (fst (rec_next st)) /\ length (fst (rec_next st)) = length st.
Proof.
  induction st as [|[o c] up IH]; intro H; [cbn; auto|].
  destruct H as [Hok Hup]. specialize (IH Hup). cbn [rec_next].
  pose proof (b_next_items c) as Hi. destruct (b_next c) as [c1 r]. cbn [fst] in Hi.
  destruct r as [it|].
  - cbn [fst coherent_df length]. split; [|reflexivity]. split; [|exact Hup].
    unfold ok_pair in *; cbn [fst snd] in *. rewrite Hi. exact Hok.
  - destruct (rec_next up) as [up' r']. cbn [fst] in IH. destruct IH as [IHc IHl].
    destruct r' as [pit|].
    + pose proof (b_next_items {| items := load (off_of pit); pos := None |}) as Hi2.
      destruct (b_next {| items := load (off_of pit); pos := None |}) as [c3 r3]. cbn [fst items] in Hi2.
      cbn [fst coherent_df length]. split; [|lia]. split; [|exact IHc].
      left. cbn [fst snd]. exact Hi2.
    + cbn [fst coherent_df length]. split; [|lia]. split; [|exact IHc].
      unfold ok_pair in *; cbn [fst snd] in *. rewrite Hi, IHl. exact Hok.
Qed.
End Chain.
Print Assumptions rec_next_spec.
Print Assumptions iter_gen.
Print Assumptions rec_next_coherent.
