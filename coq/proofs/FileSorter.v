(* The sorter with its chunks as FILES.

   model/Sorter.v represents a chunk by the list of entries it holds.  Here the same sorter is written
   over chunk files: write_chunk and merge_chunks push their (sorted, merged) entries through the Writer
   model into a byte string, merge_chunks and the final merge open every chunk file (Reader::new: the
   trailer), put a fresh cursor on it and run the merger over those cursors (move_on_next only).
   [file_sorter_refines]: this file-level sorter returns exactly what the list-level sorter returns - for
   every configuration of the sorter and of its chunk writer, every merge function whose values fit the
   u32 length limit, every insert sequence of fewer than 2^32 - 2 entries - unless a chunk file leaves the
   physical envelope (2^64 bytes), which the model reports as Fail EFuel.  So every list-level theorem about
   the sorter (C07 output, C08 bounds, C12 creator faults) is a theorem about the sorter that really writes
   and re-reads its chunks, and "a chunk may be replaced by the entries it holds" is no longer a modelling
   assumption.  Composition of: chunks are strictly ascending (SorterChunks), writer progress and the
   written file is a well-formed store (WriterProgress, WriterStore), the empty file (EmptyFile), a fresh
   cursor over a well-formed store yields its content and the merger over cursors is the merger over
   lists (MergeCursors). *)
From Coq Require Import Lia ZArith ZifyN ZifyBool ZifyNat Sorted Permutation.
From Grenad.gen Require Import Consts.
From Grenad.model Require Import Base Block Trailer Writer Reader Spec Merger Sorter.
From Grenad.proofs Require Import BaseProofs SortedFacts BlockProofs MergerProofs MergeRefine MergeWriter MergeCursors
  SorterChunks WriterStore WriterProgress ReaderRefine EmptyFile SpecProofs SorterRefine.
Ltac Zify.zify_post_hook ::= Z.div_mod_to_equations.

Section FileSorter.
  Variable compress : N -> N -> bytes -> outcome bytes.
  Variable decompress : N -> bytes -> outcome bytes.
  Variable wc : wcfg.                         (* the configuration of the chunk writers *)

  (* the physical envelope of one written file: the file and every block buffer below 2^64 bytes *)
  Definition physb (s : vsink) (lg : list emitted) : bool :=
    (len (vs_bytes s) <? 2^64) && forallb (fun e => len (em_bytes e) <? 2^64) lg.

  (* a chunk: the Writer over the chunk storage, entries inserted in order, into_inner *)
  Definition write_chunk_file (es : list entry) : outcome bytes :=
    match snd (w_run_gen vsink vs_wr vs_fl vs_count compress wc vs_empty es) with
    | Done (s, lg, m) => if physb s lg then Done (vs_bytes s) else Fail EFuel
    | Panic => Panic
    | Fail e => Fail e
    end.

  (* Reader::new(chunk).into_cursor(): the trailer, then a fresh cursor; also the stored entry count *)
  Definition open_chunk (f : bytes) : outcome (rsrc * N) :=
    do m <- open_meta f;
    Done (mk_rsrc (load_block decompress f (m_codec m)) (m_root m) (m_levels m) cs_fresh, m_count m).
  Fixpoint open_chunks (fs : list bytes) : outcome (list rsrc * N) :=
    match fs with
    | [] => Done ([], 0)
    | f :: r => do x <- open_chunk f; do y <- open_chunks r; Done (fst x :: fst y, snd x + snd y)
    end.
  (* the merger over the cursors of the chunk files (fuel: one step per stored entry, plus one) *)
  Definition merge_files (mf : mergefn) (calls : N) (fs : list bytes) : outcome (list entry * N) :=
    do x <- open_chunks fs;
    cm_run rsrc rsnext mf calls (S (N.to_nat (snd x))) (fst x).

  Record fstate : Type := mk_fstate {
    ff_pending : list entry; ff_buf : ebuf; ff_files : list bytes; ff_calls : N; ff_events : list sevent }.

  Definition f_new (c : scfg) : fstate := mk_fstate [] (mk_ebuf (round_up (sc_init_cap c)) 0 0) [] 0 [].

  Definition f_write_chunk (mf : mergefn) (st : fstate) : outcome fstate :=
    let sorted := sort_entries (rev (ff_pending st)) in
    do r <- merge_groups mf (ff_calls st) (group_sorted sorted);
    do f <- write_chunk_file (fst r);
    let b := ff_buf st in
    Done (mk_fstate [] (mk_ebuf (eb_L b) 0 0) (ff_files st ++ [f]) (snd r)
                    (EvSpill (len (ff_files st) + 1) :: EvCreate :: ff_events st)).

  Definition f_merge_chunks (mf : mergefn) (st : fstate) : outcome fstate :=
    do r <- merge_files mf (ff_calls st) (ff_files st);
    do f <- write_chunk_file (fst r);
    Done (mk_fstate (ff_pending st) (ff_buf st) [f] (snd r)
                    (EvMerge (len (ff_files st)) :: EvCreate :: ff_events st)).

  Definition f_insert (c : scfg) (mf : mergefn) (st : fstate) (k v : bytes) : outcome fstate :=
    if (U32_MAX <? len k) || (U32_MAX <? len v) then Panic else
    let sz := entry_sz k v in
    do f <- eb_fits (ff_buf st) sz;
    let threshold_exceeded := sc_threshold c <=? eb_L (ff_buf st) in
    if f || (negb threshold_exceeded && sc_realloc c) then
      do b <- eb_insert 80 (ff_buf st) sz;
      Done (mk_fstate ((k, v) :: ff_pending st) b (ff_files st) (ff_calls st) (ff_events st))
    else
      do st1 <- f_write_chunk mf st;
      do b <- eb_insert 80 (ff_buf st1) sz;
      let st2 := mk_fstate [(k, v)] b (ff_files st1) (ff_calls st1) (ff_events st1) in
      if sc_max_chunks c <=? len (ff_files st2) then f_merge_chunks mf st2 else Done st2.

  Fixpoint f_inserts (c : scfg) (mf : mergefn) (st : fstate) (ins : list entry) : outcome fstate :=
    match ins with
    | [] => Done st
    | (k, v) :: r => do st' <- f_insert c mf st k v; f_inserts c mf st' r
    end.

  (* into_stream_merger_iter: flush, open every chunk, merge; also the chunk files (into_reader_cursors) *)
  Definition f_finish (mf : mergefn) (st : fstate) : outcome (list entry * list bytes) :=
    do st1 <- f_write_chunk mf st;
    do r <- merge_files mf (ff_calls st1) (ff_files st1);
    Done (fst r, ff_files st1).

  Definition file_sorter_run (c : scfg) (mf : mergefn) (ins : list entry) : outcome (list entry) :=
    do st <- f_inserts c mf (f_new c) ins;
    do r <- f_finish mf st;
    Done (fst r).

  (* ================= a chunk file is a source that yields its entries ================= *)
  Hypothesis codec_ok : forall b z, compress (wc_codec wc) (wc_level wc) b = Done z -> decompress (wc_codec wc) z = Done b.
  Hypothesis compress_total : forall b, exists z, compress (wc_codec wc) (wc_level wc) b = Done z.
  Hypothesis HwL : wc_levels wc < 256.
  Hypothesis HwI : 1 <= wc_interval wc.
  Hypothesis HwK : wc_codec wc <= 5.

  Definition chunk_file (f : bytes) (es : list entry) : Prop :=
    exists s, open_chunk f = Done (s, len es) /\ yields rsrc rsnext s es.

  Lemma physb_true s lg : physb s lg = true -> len (vs_bytes s) < 2^64 /\ mem_ok lg.
  Proof.
    unfold physb. intro H. apply andb_true_iff in H. destruct H as [A B]. split; [apply N.ltb_lt; exact A|].
    intros e He. rewrite forallb_forall in B. apply N.ltb_lt. exact (B e He).
  Qed.

  Theorem write_chunk_file_spec es : ssorted es -> entries_ok es -> len es + 1 <= U32_MAX ->
    write_chunk_file es = Fail EFuel \/ exists f, write_chunk_file es = Done f /\ chunk_file f es.
  Proof.
    intros Hs Hok Hlen.
    destruct (w_run_progress compress decompress wc codec_ok compress_total es Hs Hok Hlen HwL) as (s & lg & m & Hrun).
    unfold write_chunk_file. rewrite Hrun. cbn [snd]. destruct (physb s lg) eqn:Ep; [right|left; reflexivity].
    destruct (physb_true s lg Ep) as [H64 Hmem]. exists (vs_bytes s). split; [reflexivity|].
    unfold chunk_file, open_chunk. destruct es as [|e0 es'].
    - destruct (empty_file_reads_empty compress decompress wc codec_ok _ s lg m HwL HwI HwK Hrun H64 Hmem) as (Ho & Hn & Hc & Hh & _).
      rewrite Ho. cbn [bind]. eexists. split; [rewrite Hn; reflexivity|]. cbn [yields].
      destruct (Hh [ONext]) as (st & E). cbn [run_ops length repeat] in E.
      destruct (cstep (load_block decompress (vs_bytes s) (m_codec m)) (m_root m) (m_levels m) cs_fresh ONext) as [[st1 r1]| |] eqn:Ec;
        cbn [bind fst snd] in E; try discriminate.
      injection E as _ Er. subst r1. eexists. unfold rsnext. cbn [r_ld r_root r_levels r_st]. rewrite Ec. cbn [bind fst snd]. reflexivity.
    - set (es := e0 :: es') in *.
      assert (Hne : es <> []) by discriminate.
      assert (Hsb : sorted_strictb (map fst es) = true) by (apply sorted_strictb_SS; exact Hs).
      destruct (written_file_wf compress decompress wc codec_ok es _ s lg m HwL HwI Hrun Hne Hsb H64 Hmem)
        as (bstore & W & Hcont & _ & Hcd & Hcnt & Hlv & _).
      destruct (written_file_roundtrip compress decompress wc codec_ok es _ s lg m HwL HwI HwK Hrun Hne Hsb H64 Hmem
                  ltac:(change U32_MAX with 4294967295 in Hlen; lia)) as (Ho & _).
      rewrite Ho. cbn [bind]. eexists. split; [rewrite Hcnt; reflexivity|].
      rewrite Hcd, Hlv. apply yields_rsrc. rewrite <- Hcont. apply fresh_cursor_yields_content. exact W.
  Qed.

  (* opening the chunk files and merging their cursors = merging the entry lists *)
  Lemma open_chunks_spec : forall fs ess, Forall2 chunk_file fs ess ->
    exists srcs, open_chunks fs = Done (srcs, N.of_nat (total_len ess)) /\ Forall2 (yields rsrc rsnext) srcs ess.
  Proof.
    induction 1 as [|f es fs ess (s & Eo & Y) _ (srcs & E & F)]; cbn [open_chunks].
    - exists []. split; [reflexivity|constructor].
    - rewrite Eo, E. cbn [bind fst snd]. exists (s :: srcs). split; [|constructor; assumption].
      f_equal. f_equal. rewrite total_len_cons, len_length. lia.
  Qed.

  Theorem merge_files_lists (mf : mergefn) calls fs ess : Forall2 chunk_file fs ess ->
    merge_files mf calls fs = merge_run mf calls ess.
  Proof.
    intro H. destruct (open_chunks_spec fs ess H) as (srcs & E & F). unfold merge_files. rewrite E. cbn [bind fst snd].
    rewrite Nat2N.id. apply cm_run_lists. exact F.
  Qed.

  (* ================= facts about the list-level chunks ================= *)
  Variable mf : mergefn.
  Hypothesis mf_values_ok : forall n k vs v, mf n k vs = Done v -> len v <= U32_MAX.

  Lemma SS_blt_NoDup l : StronglySorted blt l -> NoDup l.
  Proof.
    induction 1 as [|a l _ IH Hf]; constructor; [|exact IH].
    intro Hin. rewrite Forall_forall in Hf. specialize (Hf a Hin). unfold blt in Hf. rewrite bytes_ltb_irrefl in Hf. discriminate.
  Qed.

  Lemma merge_groups_vals : forall gs calls out n, merge_groups mf calls gs = Done (out, n) ->
    Forall (fun e => len (snd e) <= U32_MAX) out /\ length out = length gs.
  Proof.
    induction gs as [|[k vs] gs IH]; intros calls out n H; cbn [merge_groups] in H.
    - injection H as <- _. split; [constructor|reflexivity].
    - destruct (mf calls k vs) as [v| |] eqn:Ev; cbn [bind] in H; try discriminate.
      destruct (merge_groups mf (calls + 1) gs) as [[rest n']| |] eqn:E; cbn [bind fst snd] in H; try discriminate.
      injection H as <- _. destruct (IH _ _ _ E) as [A B]. split; [constructor; [exact (mf_values_ok _ _ _ _ Ev)|exact A]|cbn [length]; lia].
  Qed.

  (* the chunk write_chunk produces from the pending entries *)
  Lemma chunk_of_pending pend calls ch n : entries_ok pend ->
    merge_groups mf calls (group_sorted (sort_entries (rev pend))) = Done (ch, n) ->
    ssorted ch /\ entries_ok ch /\ (length ch <= length pend)%nat.
  Proof.
    intros Hok H.
    destruct (group_sorted_spec (sort_entries (rev pend)) (sort_entries_sorted _)) as (A & B & _). cbv zeta in A, B.
    pose proof (merge_groups_keys mf _ _ _ _ H) as Ek. destruct (merge_groups_vals _ _ _ _ H) as [Hv Hl].
    assert (Hin : forall k, In k (map fst ch) -> In k (map fst pend)).
    { intros k Hk. rewrite Ek in Hk. apply B in Hk. apply in_map_iff in Hk. destruct Hk as (e & <- & He). apply in_map.
      apply (Permutation_in _ (sort_entries_perm _)) in He. apply in_rev. exact He. }
    split; [unfold ssorted, keys; rewrite Ek; exact A|]. split.
    - unfold entries_ok in *. rewrite Forall_forall in *. intros e He. split; [|exact (Hv e He)].
      pose proof (Hin (fst e) (in_map fst _ _ He)) as Hk. apply in_map_iff in Hk. destruct Hk as (e' & E' & He'). rewrite <- E'. exact (proj1 (Hok e' He')).
    - rewrite <- (map_length fst ch), <- (map_length fst pend). apply NoDup_incl_length; [|exact Hin].
      rewrite Ek. apply SS_blt_NoDup. exact A.
  Qed.

  (* the chunk merge_chunks (and the final merge) produces from sorted chunks *)
  Lemma chunk_of_merge calls srcs out n : Forall ssorted srcs -> Forall entries_ok srcs ->
    merge_run mf calls srcs = Done (out, n) ->
    ssorted out /\ entries_ok out /\ (length out <= total_len srcs)%nat.
  Proof.
    intros Hs Hok H. destruct (merge_output_sorted mf calls srcs out n Hs H) as (A & B & _).
    rewrite (merge_run_calls mf calls srcs Hs) in H. destruct (run_calls_done mf _ calls out n H) as (_ & _ & F).
    assert (Hsrt : StronglySorted blt (map fst out)) by (apply sorted_strictb_SS; exact A).
    split; [exact Hsrt|]. split.
    - unfold entries_ok. apply Forall_forall. intros e He. split.
      + destruct (proj1 (B (fst e)) (in_map fst _ _ He)) as (s & Hin & Hk). rewrite Forall_forall in Hok. specialize (Hok s Hin).
        unfold keys in Hk. apply in_map_iff in Hk. destruct Hk as (e' & E' & He'). rewrite <- E'.
        unfold entries_ok in Hok. rewrite Forall_forall in Hok. exact (proj1 (Hok e' He')).
      + clear -F He mf_values_ok. induction F as [|c e' cs out' (j & Ej & _) _ IH]; [destruct He|].
        destruct He as [<-|He]; [exact (mf_values_ok _ _ _ _ Ej)|exact (IH He)].
    - assert (E : total_len srcs = length (flat_map keys srcs)).
      { clear. induction srcs as [|s r IH]; [reflexivity|]. rewrite total_len_cons. cbn [flat_map]. rewrite app_length, <- IH. unfold keys. rewrite map_length. reflexivity. }
      rewrite E, <- (map_length fst out). apply NoDup_incl_length; [apply SS_blt_NoDup; exact Hsrt|].
      intros k Hk. destruct (proj1 (B k) Hk) as (s & Hin & Hks). apply in_flat_map. exists s. split; assumption.
  Qed.

  (* ================= the simulation ================= *)
  Definition fsim (fs : fstate) (st : sstate) : Prop :=
    ff_pending fs = ss_pending st /\ ff_buf fs = ss_buf st /\ ff_calls fs = ss_calls st /\ ff_events fs = ss_events st /\
    Forall2 chunk_file (ff_files fs) (ss_chunks st).
  (* what the list-level state keeps: chunks ascending, lengths within the u32 limit, at most n entries alive *)
  Definition SInv (st : sstate) (n : nat) : Prop :=
    Forall ssorted (ss_chunks st) /\ Forall entries_ok (ss_chunks st) /\ entries_ok (ss_pending st) /\
    (total_len (ss_chunks st) + length (ss_pending st) <= n)%nat.
  (* same outcome, unless the file-level run left the physical envelope *)
  Definition orel {A B} (R : A -> B -> Prop) (x : outcome A) (y : outcome B) : Prop :=
    x = Fail EFuel \/
    match x, y with Done a, Done b => R a b | Panic, Panic => True | Fail e, Fail e' => e = e' | _, _ => False end.

  Lemma Forall2_len {A B} (R : A -> B -> Prop) l l' : Forall2 R l l' -> len l = len l'.
  Proof. intro H. rewrite !len_length. f_equal. induction H; cbn [length]; congruence. Qed.

  Lemma total_len_app a b : total_len (a ++ b) = (total_len a + total_len b)%nat.
  Proof. induction a as [|x a IH]; [reflexivity|]. cbn [app]. rewrite !total_len_cons, IH. lia. Qed.

  Lemma write_chunk_sim fs st n : fsim fs st -> SInv st n -> N.of_nat n + 1 <= U32_MAX ->
    orel (fun fs' st' => fsim fs' st' /\ SInv st' n /\ ss_pending st' = [] /\ ss_buf st' = mk_ebuf (eb_L (ss_buf st)) 0 0)
         (f_write_chunk mf fs) (s_write_chunk mf st).
  Proof.
    destruct fs as [p b files calls ev]. destruct st as [p' b' chunks calls' ev'].
    unfold fsim, SInv. cbn [ff_pending ff_buf ff_files ff_calls ff_events ss_pending ss_buf ss_chunks ss_calls ss_events].
    intros (<- & <- & <- & <- & HF) (Hs & Hok & Hp & Hn) Hb.
    unfold f_write_chunk, s_write_chunk. cbn [ff_pending ff_buf ff_files ff_calls ff_events ss_pending ss_buf ss_chunks ss_calls ss_events].
    destruct (merge_groups mf calls (group_sorted (sort_entries (rev p)))) as [[ch n']| |] eqn:E; cbn [bind fst snd];
      [|right; exact I|right; reflexivity].
    destruct (chunk_of_pending p calls ch n' Hp E) as (Hcs & Hcok & Hcl).
    destruct (write_chunk_file_spec ch Hcs Hcok ltac:(rewrite len_length; lia)) as [Ef|(f & Ef & Hcf)]; rewrite Ef; cbn [bind]; [left; reflexivity|].
    right. cbn [ff_pending ff_buf ff_files ff_calls ff_events ss_pending ss_buf ss_chunks ss_calls ss_events].
    rewrite (Forall2_len _ _ _ HF). split; [repeat split; try reflexivity; apply Forall2_app; [exact HF|constructor; [exact Hcf|constructor]]|].
    split; [|split; reflexivity]. split; [apply Forall_app; split; [exact Hs|constructor; [exact Hcs|constructor]]|].
    split; [apply Forall_app; split; [exact Hok|constructor; [exact Hcok|constructor]]|]. split; [constructor|].
    rewrite total_len_app. cbn [total_len fold_right length]. lia.
  Qed.

  Lemma merge_chunks_sim fs st n : fsim fs st -> SInv st n -> N.of_nat n + 1 <= U32_MAX ->
    orel (fun fs' st' => fsim fs' st' /\ SInv st' n) (f_merge_chunks mf fs) (s_merge_chunks mf st).
  Proof.
    destruct fs as [p b files calls ev]. destruct st as [p' b' chunks calls' ev'].
    unfold fsim, SInv. cbn [ff_pending ff_buf ff_files ff_calls ff_events ss_pending ss_buf ss_chunks ss_calls ss_events].
    intros (<- & <- & <- & <- & HF) (Hs & Hok & Hp & Hn) Hb.
    unfold f_merge_chunks, s_merge_chunks. cbn [ff_pending ff_buf ff_files ff_calls ff_events ss_pending ss_buf ss_chunks ss_calls ss_events].
    rewrite (merge_files_lists mf calls files chunks HF).
    destruct (merge_run mf calls chunks) as [[out n']| |] eqn:E; cbn [bind fst snd]; [|right; exact I|right; reflexivity].
    destruct (chunk_of_merge calls chunks out n' Hs Hok E) as (Hcs & Hcok & Hcl).
    destruct (write_chunk_file_spec out Hcs Hcok ltac:(rewrite len_length; lia)) as [Ef|(f & Ef & Hcf)]; rewrite Ef; cbn [bind]; [left; reflexivity|].
    right. cbn [ff_pending ff_buf ff_files ff_calls ff_events ss_pending ss_buf ss_chunks ss_calls ss_events].
    rewrite (Forall2_len _ _ _ HF). split; [repeat split; try reflexivity; constructor; [exact Hcf|constructor]|].
    split; [constructor; [exact Hcs|constructor]|]. split; [constructor; [exact Hcok|constructor]|]. split; [exact Hp|].
    cbn [total_len fold_right]. lia.
  Qed.

  Lemma insert_sim c fs st n k v : fsim fs st -> SInv st n -> N.of_nat (S n) + 1 <= U32_MAX ->
    orel (fun fs' st' => fsim fs' st' /\ SInv st' (S n)) (f_insert c mf fs k v) (s_insert c mf st k v).
  Proof.
    intros Hsim Hinv Hb. unfold f_insert, s_insert. generalize 80%nat. intro fuel.
    destruct ((U32_MAX <? len k) || (U32_MAX <? len v)) eqn:Eg; [right; exact I|].
    assert (Hkv : entry_ok (k, v)).
    { apply orb_false_iff in Eg. destruct Eg as [A B]. apply N.ltb_ge in A, B. split; assumption. }
    pose proof Hsim as (Ep & Eb & Ec & Ee & HF). pose proof Hinv as (Hs & Hok & Hp & Hn).
    rewrite Eb. destruct (eb_fits (ss_buf st) (entry_sz k v)) as [f| |]; cbn [bind]; [|right; exact I|right; reflexivity].
    destruct (f || (negb (sc_threshold c <=? eb_L (ss_buf st)) && sc_realloc c)).
    - destruct (eb_insert fuel (ss_buf st) (entry_sz k v)) as [b1| |]; cbn [bind]; [|right; exact I|right; reflexivity].
      right. split.
      + unfold fsim. cbn [ff_pending ff_buf ff_files ff_calls ff_events ss_pending ss_buf ss_chunks ss_calls ss_events]. rewrite Ep, Ec, Ee. auto.
      + unfold SInv. cbn [ss_pending ss_chunks]. split; [exact Hs|]. split; [exact Hok|]. split; [constructor; assumption|cbn [length]; lia].
    - destruct (write_chunk_sim fs st n Hsim Hinv ltac:(lia)) as [Ew|Hw]; [rewrite Ew; left; reflexivity|].
      destruct (f_write_chunk mf fs) as [fs1| |] eqn:Ef1; destruct (s_write_chunk mf st) as [st1| |] eqn:Es1; try contradiction;
        cbn [bind]; [|right; exact I|right; exact Hw].
      destruct Hw as (Hsim1 & Hinv1 & Hp1 & Hb1). pose proof Hsim1 as (Ep1 & Eb1 & Ec1 & Ee1 & HF1). pose proof Hinv1 as (Hs1 & Hok1 & _ & Hn1).
      rewrite Eb1. destruct (eb_insert fuel (ss_buf st1) (entry_sz k v)) as [b1| |]; cbn [bind]; [|right; exact I|right; reflexivity].
      cbn [ff_files ss_chunks]. rewrite (Forall2_len _ _ _ HF1).
      set (fs2 := mk_fstate [(k, v)] b1 (ff_files fs1) (ff_calls fs1) (ff_events fs1)).
      set (st2 := mk_sstate [(k, v)] b1 (ss_chunks st1) (ss_calls st1) (ss_events st1)).
      assert (Hsim2 : fsim fs2 st2).
      { unfold fsim, fs2, st2. cbn [ff_pending ff_buf ff_files ff_calls ff_events ss_pending ss_buf ss_chunks ss_calls ss_events]. auto. }
      assert (Hinv2 : SInv st2 (S n)).
      { unfold SInv, st2. cbn [ss_pending ss_chunks]. split; [exact Hs1|]. split; [exact Hok1|]. split; [constructor; [exact Hkv|constructor]|].
        rewrite Hp1 in Hn1. cbn [length] in *. lia. }
      destruct (sc_max_chunks c <=? len (ss_chunks st1)).
      + exact (merge_chunks_sim fs2 st2 (S n) Hsim2 Hinv2 Hb).
      + right. split; assumption.
  Qed.

  Lemma inserts_sim c : forall ins fs st n, fsim fs st -> SInv st n -> N.of_nat (n + length ins) + 1 <= U32_MAX ->
    orel (fun fs' st' => fsim fs' st' /\ SInv st' (n + length ins)) (f_inserts c mf fs ins) (s_inserts c mf st ins).
  Proof.
    induction ins as [|[k v] ins IH]; intros fs st n Hsim Hinv Hb; cbn [f_inserts s_inserts length].
    - right. rewrite Nat.add_0_r. split; assumption.
    - cbn [length] in Hb. destruct (insert_sim c fs st n k v Hsim Hinv ltac:(lia)) as [E|H]; [rewrite E; left; reflexivity|].
      destruct (f_insert c mf fs k v) as [fs1| |]; destruct (s_insert c mf st k v) as [st1| |]; try contradiction; cbn [bind];
        [|right; exact I|right; exact H].
      destruct H as [Hsim1 Hinv1]. replace (n + S (length ins))%nat with (S n + length ins)%nat by lia.
      apply IH; [assumption|assumption|]. replace (S n + length ins)%nat with (n + S (length ins))%nat by lia. exact Hb.
  Qed.

  Lemma finish_sim fs st n : fsim fs st -> SInv st n -> N.of_nat n + 1 <= U32_MAX ->
    orel (fun x y => fst x = fst y /\ Forall2 chunk_file (snd x) (snd y)) (f_finish mf fs) (s_finish mf st).
  Proof.
    intros Hsim Hinv Hb. unfold f_finish, s_finish.
    destruct (write_chunk_sim fs st n Hsim Hinv Hb) as [Ew|Hw]; [rewrite Ew; left; reflexivity|].
    destruct (f_write_chunk mf fs) as [fs1| |]; destruct (s_write_chunk mf st) as [st1| |]; try contradiction;
      cbn [bind]; [|right; exact I|right; exact Hw].
    destruct Hw as ((Ep1 & Eb1 & Ec1 & Ee1 & HF1) & _). rewrite (merge_files_lists mf _ _ _ HF1), Ec1.
    destruct (merge_run mf (ss_calls st1) (ss_chunks st1)) as [[out n']| |]; cbn [bind fst snd]; [|right; exact I|right; reflexivity].
    right. split; [reflexivity|exact HF1].
  Qed.

  (* ================= the sorter over chunk files is the sorter over entry lists ================= *)
  Theorem file_sorter_refines c ins : len ins + 1 <= U32_MAX ->
    file_sorter_run c mf ins = Fail EFuel \/ file_sorter_run c mf ins = sorter_run c mf ins.
  Proof.
    intro Hb. unfold file_sorter_run, sorter_run.
    assert (Hsim0 : fsim (f_new c) (s_new c)) by (unfold fsim, f_new, s_new; cbn; repeat split; constructor).
    assert (Hinv0 : SInv (s_new c) 0) by (unfold SInv, s_new; cbn; repeat split; constructor).
    rewrite len_length in Hb.
    destruct (inserts_sim c ins (f_new c) (s_new c) 0 Hsim0 Hinv0 ltac:(cbn [Nat.add]; exact Hb)) as [E|H]; [rewrite E; left; reflexivity|].
    destruct (f_inserts c mf (f_new c) ins) as [fs1| |]; destruct (s_inserts c mf (s_new c) ins) as [st1| |]; try contradiction; cbn [bind];
      [|right; reflexivity|right; rewrite H; reflexivity].
    destruct H as [Hsim1 Hinv1]. cbn [Nat.add] in Hinv1.
    destruct (finish_sim fs1 st1 (length ins) Hsim1 Hinv1 Hb) as [E|H]; [rewrite E; left; reflexivity|].
    destruct (f_finish mf fs1) as [x| |]; destruct (s_finish mf st1) as [y| |]; try contradiction; cbn [bind];
      [|right; reflexivity|right; rewrite H; reflexivity].
    right. rewrite (proj1 H). reflexivity.
  Qed.

  (* the chunk files handed out by into_reader_cursors hold the chunks of the list-level sorter *)
  Theorem file_sorter_chunks c ins fs1 x : len ins + 1 <= U32_MAX ->
    f_inserts c mf (f_new c) ins = Done fs1 -> f_finish mf fs1 = Done x ->
    exists st1 y, s_inserts c mf (s_new c) ins = Done st1 /\ s_finish mf st1 = Done y /\
      fst x = fst y /\ Forall2 chunk_file (snd x) (snd y).
  Proof.
    intros Hb E1 E2.
    assert (Hsim0 : fsim (f_new c) (s_new c)) by (unfold fsim, f_new, s_new; cbn; repeat split; constructor).
    assert (Hinv0 : SInv (s_new c) 0) by (unfold SInv, s_new; cbn; repeat split; constructor).
    rewrite len_length in Hb.
    destruct (inserts_sim c ins (f_new c) (s_new c) 0 Hsim0 Hinv0 ltac:(cbn [Nat.add]; exact Hb)) as [E|H]; [rewrite E1 in E; discriminate|].
    rewrite E1 in H. destruct (s_inserts c mf (s_new c) ins) as [st1| |]; try contradiction. destruct H as [Hsim1 Hinv1]. cbn [Nat.add] in Hinv1.
    destruct (finish_sim fs1 st1 (length ins) Hsim1 Hinv1 Hb) as [E|H]; [rewrite E2 in E; discriminate|].
    rewrite E2 in H. destruct (s_finish mf st1) as [y| |] eqn:Ey; try contradiction. exists st1, y. split; [reflexivity|]. split; [exact Ey|exact H].
  Qed.
End FileSorter.
