(* Proofs about the numeric projection of the sorter (model/Sorter.v: eb_fits, eb_insert,
   n_insert): the doubling loop terminates, buffer regions never overlap and no subtraction
   underflows (C17), the unspilled volume and the number of live chunks stay bounded (C08). *)
From Coq Require Import Lia ZArith ZifyN ZifyBool ZifyNat.
From Grenad.gen Require Import Consts.
From Grenad.model Require Import Base Merger Sorter.
From Grenad.proofs Require Import BaseProofs.
Ltac Zify.zify_post_hook ::= Z.div_mod_to_equations.
Arguments N.max : simpl never.

Ltac proj := cbn [eb_L eb_U eb_n ns_buf ns_chunks ns_creates ns_peak] in *.

(* the buffer invariant: 16-byte granularity, bounds region and data region disjoint *)
Definition shape (b : ebuf) : Prop := eb_L b mod 16 = 0 /\ 16 <= eb_L b /\ eb_U b + 16 * eb_n b <= eb_L b.

Lemma round_up_mult x : round_up x mod 16 = 0 /\ x <= round_up x <= x + 15.
Proof. unfold round_up. change ENTRY_BOUND_SIZE with 16. lia. Qed.
Lemma round_up_id x : x mod 16 = 0 -> round_up x = x.
Proof. unfold round_up. change ENTRY_BOUND_SIZE with 16. lia. Qed.

(* under the invariant no subtraction of Entries::fits / remaining underflows *)
Lemma eb_fits_shape b sz : shape b ->
  eb_fits b sz = Done ((16 + sz <=? eb_L b - eb_U b - 16 * eb_n b) && (1 <=? eb_L b / 16 - eb_n b)).
Proof.
  intros (A & B & C). unfold eb_fits, eb_remaining. change ENTRY_BOUND_SIZE with 16.
  destruct (N.ltb_spec (eb_L b / 16) (eb_n b)); [lia|].
  destruct (N.ltb_spec (eb_L b) (eb_U b + eb_n b * 16)); [lia|]. cbn [bind].
  f_equal. f_equal. f_equal. lia.
Qed.

Definition fitsb (b : ebuf) (sz : N) : bool :=
  (16 + sz <=? eb_L b - eb_U b - 16 * eb_n b) && (1 <=? eb_L b / 16 - eb_n b).

Lemma fits_true b sz : fitsb b sz = true -> 16 + sz <= eb_L b - eb_U b - 16 * eb_n b /\ 1 <= eb_L b / 16 - eb_n b.
Proof. unfold fitsb. intro H. apply andb_prop in H. destruct H as [A B]. split; lia. Qed.
Lemma fits_false b sz : shape b -> fitsb b sz = false -> eb_L b - eb_U b - 16 * eb_n b < 16 + sz.
Proof.
  unfold fitsb, shape. intros (A & B & C) H. apply Bool.andb_false_iff in H. destruct H as [H|H]; [lia|].
  assert (eb_L b / 16 - eb_n b < 1) by lia. lia.
Qed.

Definition doubled (b : ebuf) : ebuf := mk_ebuf (round_up (eb_L b * 2)) (eb_U b) (eb_n b).
Lemma doubled_shape b : shape b -> shape (doubled b) /\ eb_L (doubled b) = 2 * eb_L b.
Proof.
  intros (A & B & C). unfold doubled, shape; proj.
  rewrite round_up_id by lia. lia.
Qed.

Lemma eb_insert_spec fuel : forall b sz b',
  shape b -> eb_insert fuel b sz = Done b' ->
  shape b' /\ eb_U b' = eb_U b + sz /\ eb_n b' = eb_n b + 1 /\
  (eb_L b' = eb_L b \/ eb_L b' = 2 * eb_L b \/ eb_L b' < 4 * (16 + sz)) /\ eb_L b <= eb_L b'.
Proof.
  induction fuel as [|f IH]; intros b sz b' Hs H; cbn [eb_insert] in H; rewrite (eb_fits_shape b sz Hs) in H; cbn [bind] in H;
    fold (fitsb b sz) in H.
  - destruct (fitsb b sz) eqn:F; [|discriminate]. injection H as <-.
    apply fits_true in F. unfold shape in *. proj. lia.
  - destruct (fitsb b sz) eqn:F.
    + injection H as <-. apply fits_true in F. unfold shape in *. proj. lia.
    + pose proof (fits_false b sz Hs F) as NF.
      fold (doubled b) in H. destruct (doubled_shape b Hs) as [Hs1 HL1].
      assert (RU : round_up (eb_L b * 2) = 2 * eb_L b) by (apply proj1 in Hs; rewrite round_up_id by lia; lia).
      pose proof (IH (doubled b) sz b' Hs1 H) as (A & B & C & G & Hle).
      unfold doubled in B, C; proj. split; [exact A|]. do 2 (split; [lia|]). split; [|lia].
      destruct (fitsb (doubled b) sz) eqn:F1.
      * destruct f; cbn [eb_insert] in H; rewrite (eb_fits_shape _ sz Hs1) in H; cbn [bind] in H;
          fold (fitsb (doubled b) sz) in H; rewrite F1 in H; injection H as <-; proj; lia.
      * apply fits_false in F1; [|exact Hs1]. unfold doubled in F1; proj.
        unfold shape in Hs. right. right. rewrite round_up_id in F1 by lia. destruct G as [G|[G|G]]; lia.
Qed.

(* enough fuel: the doubling loop ends on a fitting state *)
Lemma eb_insert_total fuel : forall b sz, shape b -> 16 + sz < 2 ^ N.of_nat fuel * eb_L b ->
  exists b', eb_insert (S fuel) b sz = Done b'.
Proof.
  induction fuel as [|f IH]; intros b sz Hs Hf.
  - cbn [eb_insert]. rewrite (eb_fits_shape b sz Hs). cbn [bind]. fold (fitsb b sz).
    destruct (fitsb b sz) eqn:F; [eauto|].
    apply fits_false in F; [|exact Hs].
    fold (doubled b). destruct (doubled_shape b Hs) as [Hs1 HL1].
    rewrite (eb_fits_shape _ sz Hs1). cbn [bind]. fold (fitsb (doubled b) sz).
    assert (F1 : fitsb (doubled b) sz = true).
    { unfold fitsb. rewrite HL1. unfold doubled; proj. unfold shape in Hs. change (2 ^ N.of_nat 0) with 1 in Hf.
      apply andb_true_intro. split; lia. }
    rewrite F1. eauto.
  - cbn [eb_insert]. rewrite (eb_fits_shape b sz Hs). cbn [bind]. fold (fitsb b sz).
    destruct (fitsb b sz) eqn:F; [eauto|].
    fold (doubled b). destruct (doubled_shape b Hs) as [Hs1 HL1]. apply IH; [exact Hs1|].
    rewrite HL1. rewrite Nat2N.inj_succ, N.pow_succ_r' in Hf. lia.
Qed.

Lemma eb_insert_fits fuel b sz : shape b -> fitsb b sz = true ->
  eb_insert fuel b sz = Done (mk_ebuf (eb_L b) (eb_U b + sz) (eb_n b + 1)).
Proof. intros Hs F. destruct fuel; cbn [eb_insert]; rewrite (eb_fits_shape b sz Hs); cbn [bind]; fold (fitsb b sz); rewrite F; reflexivity. Qed.

Lemma fuel80 b sz : shape b -> sz < 2^64 -> 16 + sz < 2 ^ N.of_nat 79 * eb_L b.
Proof.
  intros (A & B & C) H. assert (P : 2 ^ N.of_nat 79 = 604462909807314587353088) by reflexivity. rewrite P.
  assert (Q : 2^64 = 18446744073709551616) by reflexivity. lia.
Qed.

(* ---- hypotheses on the configuration (production values satisfy them, see the Example) ---- *)
Record hyps (c : scfg) : Prop := {
  hT : 64 <= sc_threshold c; hT64 : sc_threshold c < 2^64;
  hC1 : 1 <= sc_init_cap c; hCT : sc_init_cap c <= sc_threshold c;
  hNR : sc_realloc c = false -> sc_init_cap c = sc_threshold c;
  hM : 1 <= sc_max_chunks c }.

Definition C0 (c : scfg) : N := round_up (sc_init_cap c).

Definition Inv (c : scfg) (s : nstate) : Prop :=
  let b := ns_buf s in
  shape b /\ (eb_L b < 2 * sc_threshold c \/ eb_L b = C0 c) /\ (sc_realloc c = false -> eb_L b = C0 c) /\
  (eb_U b = 0 \/ 1 <= eb_n b) /\
  ns_chunks s <= N.max (sc_max_chunks c - 1) 1 /\ ns_peak s <= sc_max_chunks c + 2 /\ ns_chunks s <= ns_creates s.

Lemma inv_init c : hyps c -> Inv c (n_new c).
Proof.
  intros []. unfold Inv, n_new, shape, C0; proj. pose proof (round_up_mult (sc_init_cap c)) as [R1 R2].
  repeat split; try lia.
Qed.

Lemma n_insert_inv c s sz : hyps c -> Inv c s -> sz <= sc_threshold c / 4 ->
  exists s', n_insert c s sz = Done s' /\ Inv c s'.
Proof.
  intros Hc (Sh & HL & HNR & HU & HC & HP & HCr) Hsz. destruct Hc.
  pose proof (round_up_mult (sc_init_cap c)) as [R1 R2]. fold (C0 c) in R1, R2.
  assert (S64 : sz < 2^64) by lia.
  unfold n_insert. rewrite (eb_fits_shape _ sz Sh). cbn [bind]. fold (fitsb (ns_buf s) sz).
  destruct (fitsb (ns_buf s) sz) eqn:F; cbn [orb].
  { rewrite eb_insert_fits by assumption. cbn [bind]. eexists; split; [reflexivity|].
    apply fits_true in F. unfold Inv, shape in *; proj. repeat split; try lia; auto. }
  destruct (negb (sc_threshold c <=? eb_L (ns_buf s)) && sc_realloc c) eqn:R.
  { apply andb_prop in R. destruct R as [R1' R2']. apply Bool.negb_true_iff in R1'.
    destruct (eb_insert_total 79 (ns_buf s) sz Sh (fuel80 _ sz Sh S64)) as [b' E].
    change (S 79) with 80%nat in E. rewrite E. cbn [bind].
    eexists; split; [reflexivity|].
    pose proof (eb_insert_spec _ _ _ _ Sh E) as (A & B & C & Q & Hle).
    pose proof (fits_false _ sz Sh F) as NF.
    unfold Inv; proj. split; [exact A|]. split; [left; destruct Q as [Q|[Q|Q]]; lia|].
    split; [intro X; congruence|]. repeat split; lia. }
  (* spill *)
  set (b0 := mk_ebuf (eb_L (ns_buf s)) 0 0).
  assert (Sp : shape b0) by (unfold shape, b0 in *; proj; lia).
  destruct (eb_insert_total 79 b0 sz Sp (fuel80 _ sz Sp S64)) as [b2 E].
  change (S 79) with 80%nat in E. rewrite E. cbn [bind].
  pose proof (eb_insert_spec _ _ _ _ Sp E) as (A & B & C & Q & Hle).
  unfold b0 in B, C, Q, Hle; proj.
  assert (K : sc_threshold c <= eb_L (ns_buf s) \/ sc_realloc c = false).
  { apply Bool.andb_false_iff in R. destruct R as [R|R]; [left; apply Bool.negb_false_iff in R; lia | right; exact R]. }
  assert (LL : eb_L b2 = eb_L (ns_buf s)).
  { destruct (fitsb b0 sz) eqn:F2.
    - rewrite (eb_insert_fits _ _ _ Sp F2) in E. injection E as <-. reflexivity.
    - apply fits_false in F2; [|exact Sp]. unfold b0 in F2; proj.
      destruct K as [K|K]; [exfalso; lia|]. specialize (HNR K). specialize (hNR0 K). exfalso. unfold C0 in *. lia. }
  assert (I2 : shape b2 /\ (eb_L b2 < 2 * sc_threshold c \/ eb_L b2 = C0 c) /\ (sc_realloc c = false -> eb_L b2 = C0 c) /\ (eb_U b2 = 0 \/ 1 <= eb_n b2)).
  { split; [exact A|]. rewrite LL. split; [exact HL|]. split; [exact HNR|]. lia. }
  destruct I2 as (J1 & J2 & J3 & J4).
  clear E Sp Sh HL HNR HU F R K LL Q Hle A B C.
  destruct (N.leb_spec (sc_max_chunks c) (ns_chunks s + 1)) as [Mg|Mg];
    (eexists; split; [reflexivity|]); unfold Inv; proj;
    (split; [exact J1|]); (split; [exact J2|]); (split; [exact J3|]); (split; [exact J4|]); repeat split; lia.
Qed.

Theorem n_inserts_inv c szs : hyps c -> Forall (fun sz => sz <= sc_threshold c / 4) szs ->
  forall s, Inv c s -> exists s', n_inserts c s szs = Done s' /\ Inv c s'.
Proof.
  intros Hc H. induction H as [|sz r Hsz _ IH]; intros s I; cbn [n_inserts]; [eauto|].
  destruct (n_insert_inv c s sz Hc I Hsz) as (s1 & E & I1). rewrite E. cbn [bind]. apply IH. exact I1.
Qed.

Corollary inv_volume c s : hyps c -> Inv c s ->
  eb_U (ns_buf s) <= (if sc_realloc c then 2 * sc_threshold c else sc_threshold c) /\
  ns_peak s <= sc_max_chunks c + 2 /\ ns_chunks s <= ns_creates s /\
  eb_U (ns_buf s) + 16 * eb_n (ns_buf s) <= eb_L (ns_buf s) /\ eb_L (ns_buf s) mod 16 = 0.
Proof.
  intros [] (Sh & HL & HNR & HU & HC & HP & HCr). unfold shape in Sh.
  pose proof (round_up_mult (sc_init_cap c)) as [R1 R2]. fold (C0 c) in R1, R2.
  split; [|repeat split; lia].
  destruct (sc_realloc c) eqn:R; [lia|]. specialize (HNR eq_refl). specialize (hNR0 eq_refl). lia.
Qed.
