(* Facts about the specification functions of model/Spec.v (they say what the properties say)
   and about open_meta reading only the tail of the file. *)
From Coq Require Import Lia ZArith ZifyN ZifyBool ZifyNat Sorting.Permutation.
From Grenad.gen Require Import Consts.
From Grenad.model Require Import Base Block Trailer Reader Spec Merger Sorter.
From Grenad.proofs Require Import BaseProofs TrailerProofs ReaderBasics.
Ltac Zify.zify_post_hook ::= Z.div_mod_to_equations.

(* ---- ceiling: the first entry whose key is >= q; everything before it is < q ---- *)
Lemma ceil_idx_spec es q : forall i0 i e,
  ceil_idx es q i0 = Some (i, e) ->
  i0 <= i /\ nthN (i - i0) es = Some e /\ bytes_leb q (fst e) = true /\
  (forall j e', j < i - i0 -> nthN j es = Some e' -> bytes_ltb (fst e') q = true).
Proof.
  induction es as [|[k v] es IH]; intros i0 i e H; cbn [ceil_idx] in H; [discriminate|].
  destruct (bytes_leb q k) eqn:E.
  - injection H as <- <-. replace (i0 - i0) with 0 by lia. cbn [fst]. repeat split; [lia | exact E | intros; lia].
  - apply IH in H. destruct H as (H1 & H2 & H3 & H4). split; [lia|].
    assert (Hi : i - i0 = N.succ (i - N.succ i0)) by lia.
    split; [rewrite Hi; cbn [nthN]; destruct (N.eqb_spec (N.succ (i - N.succ i0)) 0); [lia|]; rewrite N.pred_succ; exact H2|].
    split; [exact H3|]. intros j e' Hj Hn. destruct (N.eq_dec j 0) as [->|Hj0].
    + cbn [nthN] in Hn. injection Hn as <-. cbn [fst]. rewrite bytes_leb_ltb in E. apply Bool.negb_false_iff in E. exact E.
    + cbn [nthN] in Hn. destruct (N.eqb_spec j 0); [lia|]. apply (H4 (N.pred j)); [lia|exact Hn].
Qed.

Lemma ceil_idx_none es q : forall i0, ceil_idx es q i0 = None -> forall e, In e es -> bytes_ltb (fst e) q = true.
Proof.
  induction es as [|[k v] es IH]; intros i0 H e Hin; [destruct Hin|]. cbn [ceil_idx] in H.
  destruct (bytes_leb q k) eqn:E; [discriminate|]. destruct Hin as [<-|Hin].
  - cbn [fst]. rewrite bytes_leb_ltb in E. apply Bool.negb_false_iff in E. exact E.
  - exact (IH _ H e Hin).
Qed.

(* ---- floor: the last entry whose key is <= q, on a list sorted by key ---- *)
Lemma floor_idx_spec es q : forall i0 best i e,
  floor_idx es q i0 best = Some (i, e) ->
  best = Some (i, e) \/ (i0 <= i /\ nthN (i - i0) es = Some e /\ bytes_leb (fst e) q = true).
Proof.
  induction es as [|[k v] es IH]; intros i0 best i e H; cbn [floor_idx] in H; [left; exact H|].
  destruct (bytes_leb k q) eqn:E; [|left; exact H].
  apply IH in H. destruct H as [H|(H1 & H2 & H3)].
  - injection H as <- <-. right. replace (i0 - i0) with 0 by lia. cbn [fst]. repeat split; [lia | exact E].
  - right. split; [lia|]. split; [|exact H3].
    assert (Hi : i - i0 = N.succ (i - N.succ i0)) by lia. rewrite Hi. cbn [nthN].
    destruct (N.eqb_spec (N.succ (i - N.succ i0)) 0); [lia|]. rewrite N.pred_succ. exact H2.
Qed.

(* ---- the range / prefix specifications are plain filters ---- *)
Lemma range_spec_in es lo hi e : In e (range_spec es lo hi) <-> In e es /\ lo_ok lo (fst e) = true /\ hi_ok hi (fst e) = true.
Proof. unfold range_spec, in_range. rewrite filter_In, Bool.andb_true_iff. reflexivity. Qed.
Lemma prefix_spec_in es p e : In e (prefix_spec es p) <-> In e es /\ starts_with (fst e) p = true.
Proof. unfold prefix_spec. rewrite filter_In. reflexivity. Qed.

(* ---- open_meta reads only the last 22 bytes: independent of everything before them ---- *)
Lemma read_exact_shift pre f p k : p + k <= len f ->
  read_exact_at (pre ++ f) (len pre + p) k = omap (fun r => (fst r, len pre + snd r)) (read_exact_at f p k).
Proof.
  intro H. unfold read_exact_at. rewrite len_app.
  destruct (N.ltb_spec (len pre + len f) (len pre + p + k)); [lia|].
  destruct (N.ltb_spec (len f) (p + k)); [lia|]. cbn [omap fst snd].
  rewrite skipnN_add, skipnN_app. f_equal. f_equal. lia.
Qed.

Lemma open_meta_suffix pre f : 22 <= len f -> open_meta (pre ++ f) = open_meta f.
Proof.
  intro H22. unfold open_meta, seek_end. rewrite !len_app.
  change (METADATA_V1_SIZE + 4) with 21. change (METADATA_V2_SIZE + 4) with 22.
  destruct (N.ltb_spec (len pre + len f) 4); [lia|]. destruct (N.ltb_spec (len f) 4); [lia|]. cbn [bind].
  replace (len pre + len f - 4) with (len pre + (len f - 4)) by lia.
  rewrite read_exact_shift by lia. rewrite (read_ok f (len f - 4) 4) by lia. cbn [omap bind fst snd].
  destruct (le_decode (firstnN 4 (skipnN (len f - 4) f)) =? MAGIC_V1).
  - destruct (N.ltb_spec (len pre + len f) 21); [lia|]. destruct (N.ltb_spec (len f) 21); [lia|]. cbn [bind].
    replace (len pre + len f - 21) with (len pre + (len f - 21)) by lia.
    rewrite read_exact_shift by lia. rewrite (read_ok f (len f - 21) 8) by lia. cbn [omap bind fst snd].
    rewrite read_exact_shift by lia. rewrite (read_ok f (len f - 21 + 8) 1) by lia. cbn [omap bind fst snd].
    destruct (codec_known _); [|reflexivity].
    rewrite read_exact_shift by lia. rewrite (read_ok f (len f - 21 + 8 + 1) 8) by lia. cbn [omap bind fst snd]. reflexivity.
  - destruct (le_decode (firstnN 4 (skipnN (len f - 4) f)) =? MAGIC_V2); [|reflexivity].
    destruct (N.ltb_spec (len pre + len f) 22); [lia|]. destruct (N.ltb_spec (len f) 22); [lia|]. cbn [bind].
    replace (len pre + len f - 22) with (len pre + (len f - 22)) by lia.
    rewrite read_exact_shift by lia. rewrite (read_ok f (len f - 22) 8) by lia. cbn [omap bind fst snd].
    rewrite read_exact_shift by lia. rewrite (read_ok f (len f - 22 + 8) 1) by lia. cbn [omap bind fst snd].
    destruct (codec_known _); [|reflexivity].
    rewrite read_exact_shift by lia. rewrite (read_ok f (len f - 22 + 8 + 1) 8) by lia. cbn [omap bind fst snd].
    rewrite read_exact_shift by lia. rewrite (read_ok f (len f - 22 + 8 + 1 + 8) 1) by lia. cbn [omap bind fst snd]. reflexivity.
Qed.

(* ---- the sorter's own sort: a stable insertion sort (sorted by key, a permutation, stable) ---- *)
Lemma insert_sorted_perm e l : Permutation (insert_sorted e l) (e :: l).
Proof.
  induction l as [|x l IH]; [reflexivity|]. cbn [insert_sorted].
  destruct (bytes_leb (fst e) (fst x)); [reflexivity|].
  rewrite IH. apply perm_swap.
Qed.
Lemma sort_entries_perm l : Permutation (sort_entries l) l.
Proof. induction l as [|x l IH]; [reflexivity|]. cbn [sort_entries fold_right]. fold (sort_entries l). rewrite insert_sorted_perm, IH. reflexivity. Qed.

Fixpoint sorted_leb (l : list entry) : bool :=
  match l with
  | [] => true
  | a :: r => match r with [] => true | b :: _ => bytes_leb (fst a) (fst b) && sorted_leb r end
  end.
Lemma insert_sorted_sorted e l : sorted_leb l = true -> sorted_leb (insert_sorted e l) = true.
Proof.
  induction l as [|x l IH]; intro H; [reflexivity|]. cbn [insert_sorted].
  destruct (bytes_leb (fst e) (fst x)) eqn:E.
  - cbn [sorted_leb]. rewrite E. exact H.
  - assert (Hx : bytes_leb (fst x) (fst e) = true).
    { rewrite bytes_leb_ltb in E. apply Bool.negb_false_iff in E. rewrite bytes_leb_ltb.
      destruct (bytes_ltb (fst e) (fst x)) eqn:E2; [|reflexivity].
      pose proof (bytes_ltb_trans _ _ _ E E2) as T. rewrite bytes_ltb_irrefl in T. discriminate. }
    destruct l as [|y l].
    + cbn [insert_sorted sorted_leb]. rewrite Hx. reflexivity.
    + cbn [sorted_leb] in H. apply andb_prop in H. destruct H as [H1 H2].
      specialize (IH H2). cbn [insert_sorted] in *. destruct (bytes_leb (fst e) (fst y)) eqn:E3.
      * cbn [sorted_leb]. rewrite Hx, E3. exact H2.
      * cbn [sorted_leb] in *. rewrite H1. exact IH.
Qed.
Lemma sort_entries_sorted l : sorted_leb (sort_entries l) = true.
Proof. induction l as [|x l IH]; [reflexivity|]. cbn [sort_entries fold_right]. fold (sort_entries l). apply insert_sorted_sorted. exact IH. Qed.
