(* Proofs about model/IoModel.v: whatever the schedule of partial transfers and interruptions,
   write_all delivers exactly the buffer and counts exactly its length; read_exact and
   read_to_end over Take return exactly the bytes an unscheduled source returns. *)
From Coq Require Import Lia ZArith ZifyN ZifyBool ZifyNat.
From Grenad.model Require Import Base Block Trailer Writer Reader IoModel.
From Grenad.proofs Require Import BaseProofs.
Ltac Zify.zify_post_hook ::= Z.div_mod_to_equations.

Definition benign_resp (r : resp) : Prop :=
  match r with RAccept n => 1 <= n | RInterrupt => True | RError _ => False end.
Definition benign (sched : list resp) : Prop := Forall benign_resp sched.

Lemma firstnN_skipnN {A} n (l : list A) : firstnN n l ++ skipnN n l = l.
Proof. rewrite firstnN_firstn, skipnN_skipn. apply firstn_skipn. Qed.

Lemma sk_bytes_push b chunks cnt sched calls :
  sk_bytes (mk_ssink (b :: chunks) cnt sched calls) = concat (rev chunks) ++ b.
Proof. unfold sk_bytes. cbn [sk_chunks rev]. rewrite concat_app. cbn [concat]. rewrite app_nil_r. reflexivity. Qed.

(* Write::write_all through CountWrite: every byte is delivered, in order, and counted once *)
Lemma write_all_delivers fuel : forall s buf,
  benign (sk_sched s) -> (length (sk_sched s) + length buf < fuel)%nat ->
  exists s', write_all fuel s buf = Done s' /\ sk_bytes s' = sk_bytes s ++ buf /\
             sk_count s' = sk_count s + len buf /\ benign (sk_sched s').
Proof.
  induction fuel as [|fuel IH]; intros s buf Hb Hf; [lia|].
  destruct buf as [|x buf]; cbn [write_all].
  - exists s. rewrite app_nil_r. repeat split; [| exact Hb]. change (len (@nil N)) with 0. lia.
  - destruct (sk_sched s) as [|r sched] eqn:Es.
    + eexists. split; [reflexivity|]. rewrite sk_bytes_push. cbn [sk_count sk_sched]. repeat split. constructor.
    + inversion Hb as [|? ? Hr Hb']; subst. destruct r as [n| |k]; cbn [benign_resp] in Hr; [| |contradiction].
      * set (b := x :: buf) in *. set (k := N.min n (len b)).
        assert (Lb : len b = N.of_nat (length b)) by apply len_length.
        assert (Hk : 1 <= k <= len b) by (unfold k, b in *; rewrite len_cons in *; lia).
        destruct (N.eqb_spec k 0); [lia|].
        set (s1 := mk_ssink (firstnN k b :: sk_chunks s) (sk_count s + k) sched (len b :: sk_calls s)).
        destruct (IH s1 (skipnN k b)) as (s' & E & Hbytes & Hcnt & Hben).
        { exact Hb'. }
        { unfold s1; cbn [sk_sched]. cbn [length] in Hf.
          assert (length (skipnN k b) < length b)%nat.
          { rewrite skipnN_skipn, skipn_length. lia. }
          unfold b in *. cbn [length] in *. lia. }
        exists s'. split; [exact E|]. split; [|split; [|exact Hben]].
        -- rewrite Hbytes. unfold s1. rewrite sk_bytes_push. unfold sk_bytes. rewrite <- app_assoc, firstnN_skipnN. reflexivity.
        -- rewrite Hcnt. unfold s1; cbn [sk_count]. rewrite len_skipnN. lia.
      * set (s1 := mk_ssink (sk_chunks s) (sk_count s) sched (len (x :: buf) :: sk_calls s)).
        destruct (IH s1 (x :: buf)) as (s' & E & Hbytes & Hcnt & Hben).
        { exact Hb'. }
        { unfold s1; cbn [sk_sched]. cbn [length] in *. lia. }
        exists s'. split; [exact E|]. split; [exact Hbytes|]. split; [exact Hcnt|exact Hben].
Qed.

Lemma sk_wr_delivers s buf : benign (sk_sched s) ->
  exists s', sk_wr s buf = Done s' /\ sk_bytes s' = sk_bytes s ++ buf /\
             sk_count s' = sk_count s + len buf /\ benign (sk_sched s').
Proof. intro H. unfold sk_wr. apply write_all_delivers; [exact H|lia]. Qed.

(* ---- sources ---- *)
Definition avail (s : src) : bytes := skipnN (sr_pos s) (sr_data s).

Lemma avail_after s b r : sr_pos s <= len (sr_data s) -> (exists rest, avail s = b ++ rest) ->
  avail (mk_src (sr_data s) (sr_pos s + len b) r) = skipnN (len b) (avail s).
Proof. intros _ _. unfold avail. cbn [sr_data sr_pos]. rewrite skipnN_add. reflexivity. Qed.

Lemma firstnN_split {A} (a b : N) (l : list A) :
  firstnN (a + b) l = firstnN a l ++ firstnN b (skipnN a l).
Proof.
  rewrite !firstnN_firstn, skipnN_skipn. replace (N.to_nat (a + b)) with (N.to_nat a + N.to_nat b)%nat by lia.
  generalize (N.to_nat a) as x, (N.to_nat b) as y. clear a b. intro x; revert l.
  induction x as [|x IH]; intros l y; [reflexivity|]. destruct l as [|h l]; cbn [firstn skipn plus app].
  - destruct y; reflexivity.
  - rewrite IH. reflexivity.
Qed.

Lemma firstnN_min {A} (k : N) (l : list A) : firstnN k l = firstnN (N.min k (len l)) l.
Proof.
  destruct (N.le_ge_cases k (len l)).
  - rewrite N.min_l by lia. reflexivity.
  - rewrite N.min_r by lia. rewrite !firstnN_all by lia. reflexivity.
Qed.

(* the step of the reading loops: a non-empty delivery advances the source by what was delivered *)
Lemma src_read_benign s want : benign (sr_sched s) -> 1 <= want ->
  match src_read s want with
  | (s', RBytes b) => exists k, b = firstnN k (avail s) /\ 1 <= k <= want /\
                      sr_data s' = sr_data s /\ sr_pos s' = sr_pos s + len b /\ benign (sr_sched s') /\
                      (length (sr_sched s') <= length (sr_sched s))%nat
  | (s', RIntr) => sr_data s' = sr_data s /\ sr_pos s' = sr_pos s /\ benign (sr_sched s') /\
                   (length (sr_sched s') < length (sr_sched s))%nat
  | (_, RErr _) => False
  end.
Proof.
  intros Hb Hw. unfold src_read. fold (avail s). destruct (sr_sched s) as [|r sched].
  - exists want. cbn [sr_data sr_pos sr_sched length]. repeat split; try lia. constructor.
  - inversion Hb as [|? ? Hr Hb']; subst. destruct r as [m| |k]; cbn [benign_resp] in Hr; [| |contradiction].
    + exists (N.min m want). cbn [sr_data sr_pos sr_sched length]. repeat split; try lia. exact Hb'.
    + cbn [sr_data sr_pos sr_sched length]. repeat split; try lia. exact Hb'.
Qed.

(* Read::read_exact: exactly the next n bytes (when that many remain) *)
Lemma read_exact_spec fuel : forall s n acc,
  benign (sr_sched s) -> (length (sr_sched s) + N.to_nat n < fuel)%nat -> n <= len (avail s) ->
  exists s', read_exact fuel s n acc = (s', Done (acc ++ firstnN n (avail s))) /\
             sr_data s' = sr_data s /\ sr_pos s' = sr_pos s + n /\ benign (sr_sched s') /\
             (length (sr_sched s') <= length (sr_sched s))%nat.
Proof.
  induction fuel as [|fuel IH]; intros s n acc Hb Hf Hn; [lia|].
  cbn [read_exact]. destruct (N.eqb_spec n 0) as [->|Hn0].
  - exists s. rewrite firstnN_firstn. cbn [N.to_nat firstn]. rewrite app_nil_r. repeat split; [lia|exact Hb|lia].
  - pose proof (src_read_benign s n Hb ltac:(lia)) as Hstep.
    destruct (src_read s n) as [s1 [b| |k]]; [| |contradiction].
    + destruct Hstep as (k & Eb & Hk & Hd & Hp & Hben & Hlen).
      assert (Lb : len b = k) by (rewrite Eb, len_firstnN; lia).
      assert (Av1 : avail s1 = skipnN k (avail s)).
      { unfold avail. rewrite Hd, Hp, Lb. apply skipnN_add. }
      destruct b as [|x b']; [change (len (@nil N)) with 0 in Lb; lia|].
      destruct (IH s1 (n - len (x :: b')) (acc ++ x :: b')) as (s' & E & Hd' & Hp' & Hben' & Hlen').
      { exact Hben. } { lia. } { rewrite Av1, len_skipnN. lia. }
      exists s'. split.
      * rewrite E. f_equal. f_equal. rewrite <- app_assoc. f_equal. rewrite Lb, Av1, Eb.
        replace n with (k + (n - k)) at 2 by lia. rewrite firstnN_split. reflexivity.
      * repeat split; [congruence | lia | exact Hben' | lia].
    + destruct Hstep as (Hd & Hp & Hben & Hlen).
      destruct (IH s1 n acc) as (s' & E & Hd' & Hp' & Hben' & Hlen').
      { exact Hben. } { lia. } { unfold avail in *. rewrite Hd, Hp. exact Hn. }
      exists s'. split; [rewrite E; unfold avail; rewrite Hd, Hp; reflexivity|].
      repeat split; [congruence | lia | exact Hben' | lia].
Qed.

(* Read::read_to_end over Take(limit): exactly min(limit, remaining) bytes, whatever buffer
   sizes std offers and however the source splits or interrupts the reads *)
Lemma read_to_end_take_spec fuel : forall s limit reqs acc,
  benign (sr_sched s) -> Forall (fun r => 1 <= r) reqs ->
  (length (sr_sched s) + N.to_nat (N.min limit (len (avail s))) + 1 < fuel)%nat ->
  exists s', read_to_end_take fuel s limit reqs acc = (s', Done (acc ++ firstnN limit (avail s))) /\
             sr_data s' = sr_data s /\ benign (sr_sched s').
Proof.
  induction fuel as [|fuel IH]; intros s limit reqs acc Hb Hq Hf; [lia|].
  cbn [read_to_end_take]. destruct (N.eqb_spec limit 0) as [->|Hl0].
  - exists s. rewrite firstnN_firstn. cbn [N.to_nat firstn]. rewrite app_nil_r. repeat split; assumption.
  - set (want := match reqs with r :: _ => r | [] => 32 end).
    assert (Hw : 1 <= want) by (unfold want; destruct reqs as [|r ?]; [lia| inversion Hq; assumption]).
    pose proof (src_read_benign s (N.min want limit) Hb ltac:(lia)) as Hstep.
    destruct (src_read s (N.min want limit)) as [s1 [b| |k]]; [| |contradiction].
    + destruct Hstep as (k & Eb & Hk & Hd & Hp & Hben & Hlen).
      assert (Lb : len b = N.min k (len (avail s))) by (rewrite Eb, len_firstnN; reflexivity).
      destruct b as [|x b'].
      * (* end of the source *)
        change (len (@nil N)) with 0 in Lb. exists s1. split; [|split; assumption].
        assert (Hav : len (avail s) = 0) by lia.
        destruct (avail s) as [|y l]; [|rewrite len_cons in Hav; lia].
        rewrite firstnN_firstn. destruct (N.to_nat limit); cbn [firstn]; rewrite app_nil_r; reflexivity.
      * assert (Av1 : avail s1 = skipnN (len (x :: b')) (avail s)).
        { unfold avail. rewrite Hd, Hp. apply skipnN_add. }
        remember (len (x :: b')) as k' eqn:Ek'.
        assert (Hk' : 1 <= k' <= limit) by (rewrite len_cons in Ek'; lia).
        assert (Eb' : x :: b' = firstnN k' (avail s)).
        { rewrite Eb, Lb. apply firstnN_min. }
        destruct (IH s1 (limit - k') (tl reqs) (acc ++ x :: b')) as (s' & E & Hd' & Hben').
        { exact Hben. } { destruct reqs; [constructor| inversion Hq; assumption]. }
        { rewrite Av1, len_skipnN. lia. }
        exists s'. split; [|split; [congruence|exact Hben']].
        rewrite E. f_equal. f_equal. rewrite <- app_assoc. f_equal. rewrite Av1. rewrite Eb' at 1.
        replace limit with (k' + (limit - k')) at 2 by lia. rewrite firstnN_split. reflexivity.
    + destruct Hstep as (Hd & Hp & Hben & Hlen).
      destruct (IH s1 limit reqs acc) as (s' & E & Hd' & Hben').
      { exact Hben. } { exact Hq. } { unfold avail in *. rewrite Hd, Hp. lia. }
      exists s'. split; [rewrite E; unfold avail; rewrite Hd, Hp; reflexivity|]. split; [congruence|exact Hben'].
Qed.

(* Block::new gives the same block from a scheduled source as from a plain one: the frame is
   read by read_exact (length prefix) and read_to_end over Take (body) *)
Theorem load_block_sched_eq dec file codec sched reqs ord off :
  benign sched -> Forall (fun r => 1 <= r) reqs -> 8 <= len (skipnN off file) ->
  load_block_sched dec file codec sched reqs off = load_block dec file codec ord off.
Proof.
  intros Hb Hq H8. unfold load_block_sched, load_block.
  set (s0 := mk_src file off sched).
  assert (Av0 : avail s0 = skipnN off file) by reflexivity.
  assert (Lf : 8 <= len file) by (rewrite len_skipnN in H8; lia).
  rewrite len_length in Lf.
  destruct (read_exact_spec (S (length sched + length file)) s0 8 []) as (s1 & E1 & Hd1 & Hp1 & Hb1 & Hl1).
  { exact Hb. } { unfold s0; cbn [sr_sched]. lia. } { rewrite Av0. exact H8. }
  rewrite E1. cbn [app]. rewrite Av0.
  destruct (N.ltb_spec (len (skipnN off file)) 8); [lia|].
  set (blen := be_decode (firstnN 8 (skipnN off file))).
  assert (Av1 : avail s1 = skipnN 8 (skipnN off file)).
  { unfold avail. rewrite Hd1, Hp1. unfold s0; cbn [sr_data sr_pos]. apply skipnN_add. }
  destruct (read_to_end_take_spec (S (S (length sched + length file))) s1 blen reqs []) as (s2 & E2 & _ & _).
  { exact Hb1. } { exact Hq. }
  { unfold s0 in Hl1; cbn [sr_sched] in Hl1. rewrite Av1, !len_skipnN.
    assert (N.to_nat (N.min blen (len file - off - 8)) <= length file)%nat by (rewrite len_length; lia). lia. }
  rewrite E2. cbn [app]. rewrite Av1. reflexivity.
Qed.
