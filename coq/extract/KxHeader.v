(* Header of the kernel cross-check files (work/<id>/<scenario>.kx.v): the goals that follow are written by
   ocaml/driver.ml from values it computed with the EXTRACTED model; coqc re-evaluates each left-hand side
   with vm_compute inside the kernel.  Definitions only. *)
From Grenad.gen Require Export Consts.
From Grenad.model Require Export Base Varint Block Trailer Writer Reader Spec Iter Format Merger Sorter IoModel.
Open Scope N_scope.

Fixpoint kx_hist (ld : N -> N -> outcome block) (root levels : N) (st : cstate) (ops : list op) : outcome (list (option entry)) :=
  match ops with
  | [] => Done []
  | o :: r => do x <- cstep ld root levels st o; do y <- kx_hist ld root levels (fst x) r; Done (snd x :: y)
  end.

Definition kx_wres (r : wresult) : (bytes * N * N) + option (option N) :=
  match r with
  | WFile f _ m => inl (f, m_root m, m_count m)
  | WPanicInsert i => inr (Some (Some i))
  | WPanicFinish => inr (Some None)
  | WFail _ => inr None
  end.
