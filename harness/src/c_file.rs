//! Writer scenarios (C01, C09, C15, C18): run the real writer, report the file and what the
//! real reader (and the frozen 0.4.7 reader/writer) make of it.
use crate::gen::*;
use crate::util::*;
use grenad::{CompressionType, Reader};
use std::io::{Cursor, Write};

fn scan_current(file: &[u8], backward: bool) -> String {
    // one file out of three is read through a plain Cursor, the others through a source that hands out
    // at most a few bytes (or a few hundred) per read call, as a pipe or a small BufReader does
    // (an entry takes at least two bytes: a scan yielding more entries than that is looping)
    let limit = file.len() / 2 + 16;
    match fnv(file) % 3 {
        0 => scan_current_from(Cursor::new(file), backward, limit),
        1 => scan_current_from(crate::c_hist::Counting::short(file.to_vec(), 1 + (file.len() % 11)), backward, limit),
        _ => scan_current_from(crate::c_hist::Counting::short(file.to_vec(), 300 + (file.len() % 777)), backward, limit),
    }
}

fn scan_current_from<R: std::io::Read + std::io::Seek>(src: R, backward: bool, limit: usize) -> String {
    let r = catch(move || -> Result<(u64, u64), String> {
        let reader = Reader::new(src).map_err(|e| err_class(&e))?;
        let mut c = reader.into_cursor().map_err(|e| err_class(&e))?;
        let mut items: Vec<(Vec<u8>, Vec<u8>)> = Vec::new();
        loop {
            let r = if backward { c.move_on_prev() } else { c.move_on_next() };
            match r.map_err(|e| err_class(&e))? {
                Some((k, v)) => items.push((k.to_vec(), v.to_vec())),
                None => break,
            }
            if items.len() > limit {
                return Err("runaway".to_string());
            }
        }
        let first = entries_hash(items.iter().map(|(k, v)| (&k[..], &v[..])));
        // the same cursor reused for two more complete scans (back to the start with an absolute move): a scan
        // is a function of the file, not of what the cursor did before
        if items.len() <= 400 {
            for round in 0..2 {
                let mut again: Vec<(Vec<u8>, Vec<u8>)> = Vec::new();
                let mut r = if backward { c.move_on_last() } else { c.move_on_first() };
                loop {
                    match r.map_err(|e| err_class(&e))? {
                        Some((k, v)) => again.push((k.to_vec(), v.to_vec())),
                        None => break,
                    }
                    if again.len() > limit {
                        return Err("runaway".to_string());
                    }
                    r = if backward { c.move_on_prev() } else { c.move_on_next() };
                }
                if entries_hash(again.iter().map(|(k, v)| (&k[..], &v[..]))) != first {
                    println!("DIRECT fail scan number {} on the same cursor ({}) yields {} entries, other than the {} entries of its first scan",
                             round + 2, if backward { "backward" } else { "forward" }, again.len(), items.len());
                    break;
                }
            }
        }
        Ok(first)
    });
    match r {
        Ok(Ok((n, h))) => format!("{} {:016x}", n, h),
        Ok(Err(e)) => format!("err {}", e),
        Err(_) => "panic -".to_string(),
    }
}

fn old_codec(c: CompressionType) -> Option<grenad_0_4::CompressionType> {
    match c {
        CompressionType::None => Some(grenad_0_4::CompressionType::None),
        CompressionType::SnappyPre05 => Some(grenad_0_4::CompressionType::Snappy),
        CompressionType::Zlib => Some(grenad_0_4::CompressionType::Zlib),
        CompressionType::Lz4 => Some(grenad_0_4::CompressionType::Lz4),
        CompressionType::Zstd => Some(grenad_0_4::CompressionType::Zstd),
        CompressionType::Snappy => None,
    }
}

fn scan_old(file: &[u8]) -> String {
    let r = catch(|| -> Result<(u64, u64), String> {
        let reader = grenad_0_4::Reader::new(Cursor::new(file)).map_err(|e| format!("{:?}", e).chars().take(20).collect::<String>().replace(' ', "_"))?;
        let mut c = reader.into_cursor().map_err(|_| "cursor".to_string())?;
        let mut items: Vec<(Vec<u8>, Vec<u8>)> = Vec::new();
        while let Some((k, v)) = c.move_on_next().map_err(|_| "next".to_string())? {
            items.push((k.to_vec(), v.to_vec()));
            if items.len() > 2_000_000 {
                return Err("runaway".to_string());
            }
        }
        Ok(entries_hash(items.iter().map(|(k, v)| (&k[..], &v[..]))))
    });
    match r {
        Ok(Ok((n, h))) => format!("{} {:016x}", n, h),
        Ok(Err(e)) => format!("err {}", e),
        Err(_) => "panic -".to_string(),
    }
}

/// the 0.4.7 writer on the same configuration (only expressible through its public setters)
fn write_old(cfg: &FileCfg, entries: &[(Vec<u8>, Vec<u8>)]) -> Option<Vec<u8>> {
    let codec = old_codec(cfg.codec)?;
    if cfg.unclamped {
        return None;
    }
    catch(|| {
        let mut b = grenad_0_4::Writer::builder();
        b.compression_type(codec).compression_level(cfg.level).index_levels(cfg.levels).block_size(cfg.block_size);
        if let Some(i) = cfg.interval {
            b.index_key_interval(std::num::NonZeroUsize::new(i).unwrap());
        }
        let mut w = b.memory();
        for (k, v) in entries {
            w.insert(k, v).unwrap();
        }
        w.into_inner().unwrap()
    })
    .ok()
}

pub fn emit<W: Write>(c: &mut Cases<W>, cfg: &FileCfg, entries: &[(Vec<u8>, Vec<u8>)], with_old: bool) {
    emit_with(c, cfg, entries, with_old, None)
}

/// `prefab`: a file the library wrote by itself (a chunk file of the sorter) under the settings `cfg`
/// holding `entries`: it goes through the same comparisons as a file written here
pub fn emit_with<W: Write>(c: &mut Cases<W>, cfg: &FileCfg, entries: &[(Vec<u8>, Vec<u8>)], with_old: bool, prefab: Option<WriteOutcome>) {
    c.begin("file");
    c.line(&format!("prop {}", c.prop.clone()));
    c.line(&cfg.line());
    for (k, v) in entries {
        c.line(&format!("e {} {}", hex(k), hex(v)));
    }
    c.checkpoint();
    c.bump(&format!("codec{}", cfg.codec as u8), 1);
    c.bump(&format!("levels{}", if cfg.levels > 4 { 9 } else { cfg.levels }), 1);
    c.bump(if cfg.unclamped { "bs.unclamped" } else { "bs.public" }, 1);
    c.bump("entries.total", entries.len() as u64);
    // every fourth file is written through a sink that accepts only part of each buffer (any legal
    // io::Write must do: the writer may not rely on write() taking a whole block)
    let outcome = if let Some(o) = prefab {
        c.bump("prefab.outcome_of_another_route", 1);
        o
    } else if c.count % 4 == 0 {
        let ctl = crate::c_io::Ctl::new();
        *ctl.rng.borrow_mut() = Some(Rng::new(c.count));
        ctl.mode.set(3);
        let r = catch(|| -> Result<Vec<u8>, String> {
            let mut w = cfg.builder().build(crate::c_io::Sched::new(Vec::new(), ctl.clone()));
            for (k, v) in entries {
                w.insert(k, v).map_err(|e| io_class(&e))?;
            }
            let sink = w.into_inner().map_err(|e| io_class(&e))?;
            // the sink commits on flush (a BufWriter, a transactional store): when into_inner returns,
            // everything written must have been flushed
            if ctl.committed.get() != ctl.bytes_written.get() {
                println!("DIRECT fail flush: Writer::into_inner returned with {} of {} written bytes not followed by a flush of the sink",
                         ctl.bytes_written.get() - ctl.committed.get(), ctl.bytes_written.get());
            }
            Ok(sink.data.into_inner())
        });
        c.bump("partial_write_sink", 1);
        match r {
            Ok(Ok(f)) => WriteOutcome::File(f),
            Ok(Err(e)) => WriteOutcome::Err(e),
            Err(_) => write_file(cfg, entries),
        }
    } else {
        write_file(cfg, entries)
    };
    match outcome {
        WriteOutcome::File(f) => {
            c.line(&format!("impl file {}", hex(&f)));
            ztable(c, cfg.codec, &f);
            match catch(|| Reader::new(Cursor::new(&f[..])).map(|r| (r.file_version() as u32, r.compression_type() as u8, r.len()))) {
                Ok(Ok((ver, codec, len))) => c.line(&format!("meta {} {} {}", ver, codec, len)),
                Ok(Err(e)) => c.line(&format!("meta err {} -", err_class(&e))),
                Err(_) => c.line("meta panic - -"),
            }
            c.line(&format!("fwd {}", scan_current(&f, false)));
            c.line(&format!("bwd {}", scan_current(&f, true)));
            if with_old && old_codec(cfg.codec).is_some() && cfg.levels < 255 {
                c.line(&format!("oldread {}", scan_old(&f)));
                if let Some(of) = write_old(cfg, entries) {
                    c.line(&format!("oldfile {}", hex(&of)));
                    c.line(&format!("oldfwd {}", scan_current(&of, false)));
                    c.bump("old.written", 1);
                }
            }
            let nblocks = if f.len() >= 22 { frames(&f, f.len() - 22).len() } else { 0 };
            c.bump("blocks.total", nblocks as u64);
            if nblocks > 2 + cfg.levels as usize {
                c.nontrivial(&f);
            }
            c.bump("bytes.total", f.len() as u64);
        }
        WriteOutcome::PanicInsert(i) => {
            c.line(&format!("impl panic_insert {}", i));
            c.bump("impl.panic_insert", 1);
            c.nontrivial(&fnv(format!("{:?}{:?}", cfg, entries).as_bytes()).to_le_bytes());
        }
        WriteOutcome::PanicFinish => {
            c.line("impl panic_finish -");
            c.bump("impl.panic_finish", 1);
        }
        WriteOutcome::Err(e) => {
            c.line(&format!("impl err {}", e));
            c.bump("impl.err", 1);
        }
    }
    c.end();
}

/// C01 / C09: sorted inputs, every configuration
pub fn generate<W: Write>(c: &mut Cases<W>, rng: &mut Rng, thorough: bool, with_old: bool) {
    let n = if thorough { 4000 } else { 260 };
    // fixed corpus first: empty file, single empty entry, D1 (255 levels)
    let base = FileCfg { codec: CompressionType::None, level: 0, block_size: 8192, unclamped: false, interval: None, levels: 0 };
    emit(c, &base, &[], with_old);
    emit(c, &base, &[(vec![], vec![])], with_old);
    // a file whose only key is the empty key (a block writer whose last key is empty is not empty)
    emit(c, &base, &[(vec![], vec![7u8; 9])], with_old);
    emit(c, &FileCfg { levels: 2, block_size: 16, unclamped: true, ..base.clone() }, &[(vec![], vec![1u8; 40])], with_old);
    emit(c, &FileCfg { levels: 1, codec: CompressionType::Snappy, ..base.clone() }, &[(vec![], vec![])], with_old);
    emit(c, &FileCfg { levels: 255, ..base.clone() }, &[(vec![1], vec![2]), (vec![1, 0], vec![])], with_old);
    emit(c, &FileCfg { levels: 2, ..base.clone() }, &[], with_old);
    // the file of a writer that finished without an insert, for every codec at several levels (its only
    // block, the empty root, is a dozen bytes and may compress below any "minimum block" one could think of)
    for codec in CODECS {
        for level in [0u32, 1, 6, 9] {
            for levels in [0u8, 1, 3] {
                emit(c, &FileCfg { codec, level, levels, ..base.clone() }, &[], with_old && levels == 0);
            }
        }
    }
    for codec in CODECS {
        for level in [0u32, 3, 11, 4000000000] {
            let cfg = FileCfg { codec, level: if codec == CompressionType::Zstd { level.min(19) } else { level }, ..base.clone() };
            let es: Vec<_> = (0..300u32).map(|i| (i.to_be_bytes().to_vec(), vec![i as u8; (i % 40) as usize])).collect();
            emit(c, &cfg, &es, with_old);
        }
    }
    // compression levels at the top of u32 for every codec (a level is a u32 in the builder, whatever the codec
    // makes of it)
    for codec in CODECS {
        for level in [u32::MAX, 1u32 << 31, (1u32 << 31) + 5] {
            let es: Vec<_> = (0..30u32).map(|i| (i.to_be_bytes().to_vec(), vec![i as u8; 20])).collect();
            emit(c, &FileCfg { codec, level, ..base.clone() }, &es, false);
        }
    }
    // the highest levels of zstd (windows of 2^25..2^27 bytes announced in every frame) on a small file, and the
    // largest block sizes a usize can express (the writer must not size anything from the configured value)
    for level in [20u32, 22] {
        let es: Vec<_> = (0..40u32).map(|i| (i.to_be_bytes().to_vec(), vec![i as u8; (i % 40) as usize])).collect();
        emit(c, &FileCfg { codec: CompressionType::Zstd, level, ..base.clone() }, &es, false);
    }
    for bs in [usize::MAX, (isize::MAX as usize) + 1, 1usize << 40] {
        let es: Vec<_> = (0..30u32).map(|i| (i.to_be_bytes().to_vec(), vec![i as u8; 50])).collect();
        emit(c, &FileCfg { block_size: bs, levels: (bs % 3) as u8, ..base.clone() }, &es, false);
    }
    // configuration values that do not fit narrower integer types: index key intervals that are multiples of
    // 2^32 (and the largest one), block sizes just above 2^32 with more data than their low 32 bits
    for interval in [1usize << 32, 3usize << 32, (1usize << 32) + 1, usize::MAX] {
        let es: Vec<_> = (0..40u32).map(|i| (i.to_be_bytes().to_vec(), vec![i as u8; 30])).collect();
        emit(c, &FileCfg { interval: Some(interval), block_size: 1024, levels: (interval % 2) as u8, ..base.clone() }, &es, false);
    }
    for bs in [(1usize << 32) + 1500, 1usize << 32, (1usize << 32) + 1024, (1usize << 40) + 2048] {
        let es: Vec<_> = (0..300u32).map(|i| (i.to_be_bytes().to_vec(), vec![i as u8; 50])).collect();
        emit(c, &FileCfg { block_size: bs, levels: (bs % 3) as u8, ..base.clone() }, &es, false);
    }
    // large blocks: a value far larger than any internal buffer of the codecs (and incompressible),
    // next to small entries, for every codec at a low and a higher level
    for codec in CODECS {
        for level in [0u32, 1, 6] {
            let cfg = FileCfg { codec, level, block_size: 1024, levels: 1, ..base.clone() };
            // (zlib at its fastest level expands incompressible data the most; 400 kB exceeds any
            // output buffer sized from the input)
            let mut big = vec![0u8; if codec == CompressionType::Zlib { 400_000 } else { 100_000 }];
            let mut x = 0x9E3779B97F4A7C15u64;
            for b in big.iter_mut() {
                x ^= x << 13; x ^= x >> 7; x ^= x << 17;
                *b = (x >> 32) as u8;
            }
            let es = vec![(vec![1u8], vec![5u8; 10]), (vec![2u8], big), (vec![3u8], vec![6u8; 10])];
            emit(c, &cfg, &es, false);
        }
    }
    // a block of more than a mebibyte that compresses a thousandfold (one repeated byte, then a short
    // period), for every compressing codec: output buffers sized from the compressed input do not hold it
    for (ci, codec) in CODECS.into_iter().enumerate() {
        if codec == CompressionType::None {
            continue;
        }
        let cfg = FileCfg { codec, level: [1u32, 3, 6][ci % 3], block_size: 4096, levels: 0, ..base.clone() };
        let mut big = vec![0x41u8; 1_150_000];
        for (i, b) in big.iter_mut().enumerate().skip(1_100_000) {
            *b = (i % 7) as u8;
        }
        let es = vec![(vec![1u8], vec![5u8; 10]), (vec![2u8], big), (vec![3u8], vec![6u8; 10])];
        emit(c, &cfg, &es, false);
    }
    // index_levels sweep (thorough: all 0..=255)
    let sweep: Vec<u8> = if thorough { (0..=255).collect() } else { vec![0, 1, 2, 3, 5, 8, 127, 128, 254, 255] };
    for levels in sweep {
        let cfg = FileCfg { levels, block_size: 64, unclamped: true, ..base.clone() };
        let es: Vec<_> = (0..60u32).map(|i| (i.to_be_bytes().to_vec(), vec![7u8; 5])).collect();
        emit(c, &cfg, &es, false);
    }
    // boundary lengths
    for l in [127usize, 128, 16383, 16384] {
        let es = vec![(vec![0x55u8; l], vec![1u8; 3]), (vec![0x56u8; 2], vec![9u8; l])];
        emit(c, &base, &es, with_old);
    }
    for i in 0..n {
        let deep = i % 3 == 0;
        let cfg = gen_cfg(rng, deep, true);
        let budget = if deep { 6000 } else { *rng.pick(&[2000usize, 20000, 60000, 150000]) };
        let es = bounded_entries(rng, &cfg, if deep { 300 } else { 400 }, budget);
        emit(c, &cfg, &es, with_old);
    }
}

/// C15: entries straddling the block-size threshold by a byte, sizes around the clamp
/// a chunk creator whose chunks stay readable from outside
struct SharedChunk(std::rc::Rc<std::cell::RefCell<Cursor<Vec<u8>>>>);
impl std::io::Write for SharedChunk {
    fn write(&mut self, b: &[u8]) -> std::io::Result<usize> { self.0.borrow_mut().write(b) }
    fn flush(&mut self) -> std::io::Result<()> { Ok(()) }
}
impl std::io::Read for SharedChunk {
    fn read(&mut self, b: &mut [u8]) -> std::io::Result<usize> { self.0.borrow_mut().read(b) }
}
impl std::io::Seek for SharedChunk {
    fn seek(&mut self, p: std::io::SeekFrom) -> std::io::Result<u64> { self.0.borrow_mut().seek(p) }
}
struct SharedCreator(std::rc::Rc<std::cell::RefCell<Vec<std::rc::Rc<std::cell::RefCell<Cursor<Vec<u8>>>>>>>);
impl grenad::ChunkCreator for SharedCreator {
    type Chunk = SharedChunk;
    type Error = std::io::Error;
    fn create(&self) -> Result<SharedChunk, std::io::Error> {
        let h = std::rc::Rc::new(std::cell::RefCell::new(Cursor::new(Vec::new())));
        self.0.borrow_mut().push(h.clone());
        Ok(SharedChunk(h))
    }
}

/// The chunk files of the sorter are files of the writer under the settings forwarded by the sorter's
/// builder (codec, level, block size, index interval, index levels): every chunk a small-budget sorter
/// leaves behind goes through the file comparisons (bytes = writer model on the chunk's entries, block
/// cuts, structure) like any other file.
pub fn generate_sorter_chunks<W: Write>(c: &mut Cases<W>, rng: &mut Rng, thorough: bool) {
    let n = if thorough { 400 } else { 40 };
    for i in 0..n {
        let mut cfg = gen_cfg(rng, false, i % 3 == 0);
        cfg.levels = cfg.levels.min(3);
        if cfg.level > 9 { cfg.level = cfg.level % 10; }
        let chunks = std::rc::Rc::new(std::cell::RefCell::new(Vec::new()));
        let mut b = grenad::SorterBuilder::new(crate::c_merge::LoggingConcat { calls: std::cell::RefCell::new(Vec::new()), fail_at: None, sort: false });
        b.verif_dump_threshold_unclamped(3000 + (i % 5) * 2000);
        b.allow_realloc(false);
        b.max_nb_chunks(if i % 2 == 0 { 1000 } else { 3 });
        b.chunk_compression_type(cfg.codec).chunk_compression_level(cfg.level).index_levels(cfg.levels);
        if cfg.unclamped {
            b.verif_block_size_unclamped(cfg.block_size);
        } else {
            b.block_size(cfg.block_size);
        }
        if let Some(iv) = cfg.interval {
            b.index_key_interval(std::num::NonZeroUsize::new(iv).unwrap());
        }
        let mut sorter = b.chunk_creator(SharedCreator(chunks.clone())).build();
        let nins = 200 + rng.below(400) as usize;
        let r = catch(|| -> Result<(), String> {
            for _ in 0..nins {
                let k = gen_key(rng, 12);
                let v = gen_val(rng, 60);
                sorter.insert(&k, &v).map_err(|e| format!("{}", e))?;
            }
            let cursors = sorter.into_reader_cursors().map_err(|e| format!("{}", e))?;
            drop(cursors);
            Ok(())
        });
        if !matches!(r, Ok(Ok(()))) {
            println!("DIRECT fail sorter-chunks: the sorter failed: {:?}", r.map_err(|_| "panic"));
            continue;
        }
        // every chunk the creator handed out and that holds a finished file (merged-away chunks included)
        for h in chunks.borrow().iter() {
            let bytes = h.borrow().get_ref().clone();
            let entries = match catch(|| -> Result<Vec<(Vec<u8>, Vec<u8>)>, String> {
                let mut cur = Reader::new(Cursor::new(&bytes[..])).map_err(|e| err_class(&e))?.into_cursor().map_err(|e| err_class(&e))?;
                let mut out = Vec::new();
                while let Some((k, v)) = cur.move_on_next().map_err(|e| err_class(&e))? {
                    out.push((k.to_vec(), v.to_vec()));
                }
                Ok(out)
            }) {
                Ok(Ok(es)) => es,
                other => {
                    println!("DIRECT fail sorter-chunks: a chunk file of {} bytes does not read back: {:?}", bytes.len(), other.map_err(|_| "panic"));
                    continue;
                }
            };
            emit_with(c, &cfg, &entries, false, Some(WriteOutcome::File(bytes)));
        }
    }
}

pub fn generate_c15<W: Write>(c: &mut Cases<W>, rng: &mut Rng, thorough: bool) {
    generate_sorter_chunks(c, rng, thorough);
    let n = if thorough { 3000 } else { 200 };
    let base = FileCfg { codec: CompressionType::None, level: 0, block_size: 1024, unclamped: false, interval: None, levels: 0 };
    // exact landings: k entries of equal size so that size estimate hits B-1, B, B+1
    for bs in [0usize, 1, 1023, 1024, 1025, 2048] {
        for interval in [1usize, 8, 100] {
            for delta in [-1i64, 0, 1] {
                let eff = bs.max(1024) as i64;
                // 4 entries: each framed size s = 2 + 4 + vlen ; payload 4*s + footer(8*offs + 4)
                let offs = if interval == 1 { 4 } else { 1 };
                let target = eff + delta - (8 * offs + 4);
                let s = target / 4;
                let rem = (target - 4 * s) as usize;
                if s < 8 { continue; }
                let mut es = Vec::new();
                for i in 0..12u32 {
                    let extra = if (i % 4) == 3 { rem } else { 0 };
                    let vlen = (s as usize) - 2 - 4 + extra;
                    let vlen = if vlen >= 128 { vlen - 1 } else { vlen };
                    es.push((i.to_be_bytes().to_vec(), vec![3u8; vlen]));
                }
                let cfg = FileCfg { block_size: bs, interval: Some(interval), levels: (bs % 3) as u8, ..base.clone() };
                emit(c, &cfg, &es, false);
            }
        }
    }
    // block sizes that do not fit 32 bits, with more data than their low 32 bits: no cut may happen
    for bs in [(1usize << 32) + 1500, 1usize << 32, (1usize << 32) + 1024, (1usize << 40) + 2048, usize::MAX] {
        let es: Vec<_> = (0..300u32).map(|i| (i.to_be_bytes().to_vec(), vec![i as u8; 50])).collect();
        emit(c, &FileCfg { block_size: bs, levels: (bs % 3) as u8, ..base.clone() }, &es, false);
    }
    // a block size of 8 MiB (and of 1 GiB) with 5 MiB of entries: no data block may be cut (implementation only:
    // the frames of the file are counted; the model covers the arithmetic for every size)
    for bs in [8usize << 20, 1usize << 30] {
        let es: Vec<(Vec<u8>, Vec<u8>)> = (0..5u32 * 1024).map(|i| (i.to_be_bytes().to_vec(), vec![i as u8; 1012])).collect();
        let cfg = FileCfg { block_size: bs, levels: 0, ..base.clone() };
        match write_file(&cfg, &es) {
            WriteOutcome::File(f) => {
                let n = if f.len() >= 22 { frames(&f, f.len() - 22).len() } else { 0 };
                c.bump("c15.large_block_files", 1);
                if n != 2 {
                    println!("DIRECT fail block size {} with {} bytes of entries: the file holds {} blocks instead of one data block and the index block (a block was cut before reaching the configured size)",
                             bs, es.len() * 1024, n);
                }
            }
            _ => println!("DIRECT fail a 5 MiB file with block size {} could not be written", bs),
        }
    }
    // the default block size (the setter is not called) through the three ways to obtain a builder
    for levels in 0..3u8 {
        for level in 0..3u32 {
            let es: Vec<_> = (0..400u32).map(|i| (i.to_be_bytes().to_vec(), vec![i as u8; 60])).collect();
            emit(c, &FileCfg { block_size: 8192, levels, level, ..base.clone() }, &es, false);
        }
    }
    for i in 0..n {
        let mut cfg = gen_cfg(rng, i % 2 == 0, i % 5 == 0);
        if i % 4 == 1 {
            cfg.unclamped = false;
            cfg.block_size = *rng.pick(&[0usize, 1, 1023, 1024, 1025, 1100]);
        }
        let es = bounded_entries(rng, &cfg, 300, if cfg.unclamped { 8000 } else { 40000 });
        emit(c, &cfg, &es, false);
    }
}

/// C18: mostly sorted sequences with inversions / duplicates at chosen places
pub fn generate_c18<W: Write>(c: &mut Cases<W>, rng: &mut Rng, thorough: bool) {
    // small-scope exhaustive: EVERY insert sequence (sorted or not, with duplicates) of length 1..5
    // (thorough: 1..6) over four keys, with values large enough that blocks are cut after each entry
    // (unclamped 16-byte blocks) or never (8192), index levels 0 and 2
    {
        let keys: [Vec<u8>; 4] = [vec![], vec![0], vec![0, 0], vec![1]];
        let maxlen = if thorough { 6 } else { 5 };
        let base = FileCfg { codec: CompressionType::None, level: 0, block_size: 16, unclamped: true, interval: Some(1), levels: 0 };
        for levels in [0u8, 2] {
            for (block_size, unclamped) in [(16usize, true), (8192usize, false)] {
                let cfg = FileCfg { levels, block_size, unclamped, ..base.clone() };
                for len in 1..=maxlen {
                    for code in 0..4usize.pow(len as u32) {
                        let mut x = code;
                        let es: Vec<(Vec<u8>, Vec<u8>)> = (0..len).map(|p| { let k = keys[x % 4].clone(); x /= 4; (k, vec![p as u8; 20]) }).collect();
                        emit(c, &cfg, &es, false);
                    }
                }
            }
        }
    }
    // a key above a mebibyte followed by a key that is not above it (lower, or the same key again), and the
    // sorted control: the order check does not depend on how large the previous key was
    {
        let big = vec![0x61u8; 1_100_000];
        let base = FileCfg { codec: CompressionType::None, level: 0, block_size: 8192, unclamped: false, interval: None, levels: 0 };
        for levels in [0u8, 1] {
            let cfg = FileCfg { levels, ..base.clone() };
            emit(c, &cfg, &[(big.clone(), vec![1u8; 3]), (vec![0x60u8], vec![2u8; 3])], false);
            emit(c, &cfg, &[(big.clone(), vec![1u8; 3]), (big.clone(), vec![2u8; 3])], false);
            emit(c, &cfg, &[(vec![0x60u8], vec![2u8; 3]), (big.clone(), vec![1u8; 3]), (vec![0x61u8; 5], vec![])], false);
            emit(c, &cfg, &[(vec![0x60u8], vec![2u8; 3]), (big.clone(), vec![1u8; 3]), (vec![0x62u8], vec![])], false);
        }
    }
    // two entries per block: after a cut, a first key far above the last key of the block before, then a key
    // between the two (below the first key of its own block: must panic), for several ways "between" can look
    {
        let cfg = FileCfg { codec: CompressionType::None, level: 0, block_size: 64, unclamped: true, interval: Some(1), levels: 1 };
        let v = vec![7u8; 20];
        for (p, f, s2) in [(vec![b'a'], vec![b'z'], vec![b'b']), (vec![b'a'], vec![b'z'], vec![b'a', b'z', 1]), (vec![b'a', b'z'], vec![b'z'], vec![b'b']),
                           (vec![1u8], vec![9u8, 9], vec![1u8, 9, 9, 0]), (vec![], vec![5u8], vec![0u8]), (vec![0u8], vec![0u8, 0, 7], vec![0u8, 0])] {
            let mut lo = p.clone();
            lo.insert(0, 0);
            let lo = if p.is_empty() { None } else { Some(lo) };
            let mut es: Vec<(Vec<u8>, Vec<u8>)> = Vec::new();
            if let Some(lo) = lo { if lo < p { es.push((lo, v.clone())); } }
            es.push((p.clone(), v.clone()));
            es.push((f.clone(), v.clone()));
            es.push((s2.clone(), v.clone()));
            emit(c, &cfg, &es, false);
            emit(c, &FileCfg { levels: 0, ..cfg.clone() }, &es, false);
            c.bump("c18.second_key_of_a_block", 1);
        }
    }
    // keys of eight bytes and more that agree on every whole 8-byte word they share and differ in the number of
    // words (an order check that works word by word must still order them as byte strings): greater then
    // smaller (must panic), and the sorted control
    {
        let base = FileCfg { codec: CompressionType::None, level: 0, block_size: 8192, unclamped: false, interval: None, levels: 1 };
        for words in 1..=3usize {
            for extra in [1usize, 2, 7, 8, 9, 15] {
                for (x, y) in [(9u8, 5u8), (0xFF, 0x00), (1, 0)] {
                    let p: Vec<u8> = (0..8 * words).map(|_| if x == 0xFF { 0xFF } else { rng.next() as u8 }).collect();
                    let mut long = p.clone();
                    long.push(x);
                    long.extend((0..extra).map(|j| j as u8));
                    let mut short = p.clone();
                    short.push(y);
                    // long > short as byte strings (x > y right after the shared words)
                    emit(c, &base, &[(long.clone(), vec![1u8; 3]), (short.clone(), vec![2u8; 3])], false);
                    emit(c, &base, &[(short.clone(), vec![2u8; 3]), (long.clone(), vec![1u8; 3])], false);
                    // a shared first word only, the long key one word longer
                    let mut longer = long.clone();
                    longer.extend_from_slice(&[0u8; 8]);
                    emit(c, &FileCfg { block_size: 16, unclamped: true, ..base.clone() }, &[(vec![0u8], vec![]), (longer.clone(), vec![]), (short.clone(), vec![])], false);
                    c.bump("c18.wordwise_pairs", 1);
                }
            }
        }
    }
    // entries streamed into a writer that already holds entries (Merger::write_into_stream_writer on a
    // borrowed writer): the sequence the writer sees is the inserted entries followed by the streamed ones, and
    // it must treat it like any other sequence - also after a stream that ended in an error of the merge function
    {
        let m = if thorough { 300 } else { 60 };
        for i in 0..m {
            let cfg = gen_cfg(rng, i % 2 == 0, false);
            let es = bounded_entries(rng, &cfg, 60, if cfg.unclamped { 3000 } else { 12000 });
            if es.len() < 3 {
                continue;
            }
            let j = 1 + rng.below(es.len() as u64 - 1) as usize;
            // streamed = a sorted stretch; pre = what the writer holds before: higher keys (i % 3 == 0), the
            // same stretch again (1), or lower keys (2: the sorted control)
            let (pre, streamed): (Vec<_>, Vec<_>) = match i % 3 {
                0 => (es[j..].to_vec(), es[..j].to_vec()),
                1 => (es[..j].to_vec(), es[j - 1..].to_vec()),
                _ => (es[..j].to_vec(), es[j..].to_vec()),
            };
            let fail_stream_first = i % 4 == 3;
            let seq: Vec<(Vec<u8>, Vec<u8>)> = pre.iter().cloned().chain(streamed.iter().cloned()).collect();
            let outcome = stream_into_prefilled(&cfg, &pre, &streamed, fail_stream_first);
            c.bump("c18.streamed_into_prefilled_writer", 1);
            emit_with(c, &cfg, &seq, false, Some(outcome));
        }
    }
    let n = if thorough { 6000 } else { 400 };
    for i in 0..n {
        let cfg = gen_cfg(rng, i % 2 == 0, false);
        let mut es = bounded_entries(rng, &cfg, 200, if cfg.unclamped { 5000 } else { 30000 });
        if es.len() >= 2 {
            let kinds = rng.below(8);
            let j = rng.below(es.len() as u64 - 1) as usize + 1;
            match kinds {
                0 => { let k = es[j - 1].0.clone(); es[j].0 = k; }              // duplicate next to predecessor
                1 => { es.swap(j - 1, j); }                                       // adjacent inversion
                2 => { let k = es[0].0.clone(); es[j].0 = k; }                    // jump back to the first key
                3 => { let e = es[rng.below(j as u64) as usize].clone(); es.insert(j, e); } // repeat an earlier entry
                4 => { es[j].0 = Vec::new(); }                                    // empty key in the middle
                5 | 6 => {
                    // replay an earlier stretch of entries (whole blocks of lower keys after a cut)
                    let m = rng.range(1, (j as u64).min(40)) as usize;
                    let start = rng.below((j - m + 1) as u64) as usize;
                    let stretch: Vec<_> = es[start..start + m].to_vec();
                    let mut out = es[..j].to_vec();
                    out.extend(stretch);
                    out.extend_from_slice(&es[j..]);
                    es = out;
                }
                _ => {}                                                           // sorted control
            }
            c.bump(&format!("c18.kind{}", kinds), 1);
        }
        emit(c, &cfg, &es, false);
    }
}

/// merge function of the streaming route: counts its calls, returns the first value, fails its first call once
struct CountingFirst { calls: std::cell::Cell<usize>, fail_first: std::cell::Cell<bool> }
impl grenad::MergeFunction for &CountingFirst {
    type Error = String;
    fn merge<'a>(&self, _key: &[u8], values: &[std::borrow::Cow<'a, [u8]>]) -> Result<std::borrow::Cow<'a, [u8]>, String> {
        if self.fail_first.get() {
            self.fail_first.set(false);
            return Err("merge failure".to_string());
        }
        self.calls.set(self.calls.get() + 1);
        Ok(values[0].clone())
    }
}

/// `pre` inserted into a writer, then `streamed` (strictly ascending) streamed into the same writer from a
/// one-source merger; with `fail_first` a first stream is attempted whose merge function fails at once (nothing
/// is streamed), then the real one.  The outcome is what the plain insert sequence pre ++ streamed would give.
fn stream_into_prefilled(cfg: &FileCfg, pre: &[(Vec<u8>, Vec<u8>)], streamed: &[(Vec<u8>, Vec<u8>)], fail_first: bool) -> WriteOutcome {
    let src = {
        let mut w = grenad::Writer::memory();
        for (k, v) in streamed {
            w.insert(k, v).unwrap();
        }
        w.into_inner().unwrap()
    };
    let mut w = cfg.builder().build(Vec::new());
    for (i, (k, v)) in pre.iter().enumerate() {
        match catch(|| w.insert(k, v)) {
            Ok(Ok(())) => {}
            Ok(Err(e)) => return WriteOutcome::Err(io_class(&e)),
            Err(_) => return WriteOutcome::PanicInsert(i),
        }
    }
    let mf = CountingFirst { calls: std::cell::Cell::new(0), fail_first: std::cell::Cell::new(fail_first) };
    let rounds = if fail_first { 2 } else { 1 };
    for round in 0..rounds {
        let cur = Reader::new(Cursor::new(src.clone())).unwrap().into_cursor().unwrap();
        let merger = grenad::Merger::builder(&mf).add(cur).build();
        match catch(|| merger.write_into_stream_writer(&mut w)) {
            Ok(Ok(())) => {}
            Ok(Err(grenad::Error::Merge(_))) if fail_first && round == 0 => {}
            Ok(Err(e)) => return WriteOutcome::Err(err_class(&e)),
            Err(_) => return WriteOutcome::PanicInsert(pre.len() + mf.calls.get().saturating_sub(1)),
        }
    }
    match catch(move || w.into_inner()) {
        Ok(Ok(bytes)) => WriteOutcome::File(bytes),
        Ok(Err(e)) => WriteOutcome::Err(io_class(&e)),
        Err(_) => WriteOutcome::PanicFinish,
    }
}

/// C14 at the API level: entries whose key or value length sits at each framing boundary, written by
/// the real writer and read back by the real reader (and replayed by the model)
pub fn generate_c14<W: Write>(c: &mut Cases<W>, rng: &mut Rng, thorough: bool) {
    let base = FileCfg { codec: CompressionType::None, level: 0, block_size: 8192, unclamped: false, interval: None, levels: 0 };
    let mut lens: Vec<usize> = vec![0, 1, 2, 126, 127, 128, 129, 130, 255, 256, 257, 383, 384, 512, 1024, 16255, 16383, 16384, 16385, 16512, 32768];
    if thorough {
        lens.extend([2097151usize, 2097152, 2097153]);
    }
    // lengths 0 and 0: the two-byte frame as the only entry of a block (and of the file), and as the
    // first entry before others
    emit(c, &base, &[(vec![], vec![])], false);
    emit(c, &FileCfg { levels: 2, ..base.clone() }, &[(vec![], vec![])], false);
    emit(c, &base, &[(vec![], vec![]), (vec![0u8], vec![])], false);
    emit(c, &FileCfg { block_size: 16, unclamped: true, levels: 1, ..base.clone() }, &[(vec![], vec![]), (vec![0u8], vec![]), (vec![0u8, 0], vec![])], false);
    for (i, &l) in lens.iter().enumerate() {
        let cfg = FileCfg { levels: (i % 3) as u8, interval: Some(1 + i % 4), ..base.clone() };
        // the boundary length as key length, as value length, and both; with neighbours around it
        let fill = |n: usize, b: u8| vec![b; n];
        let es = vec![(fill(l, 0x10), fill(3, 1)), (fill(l + 1, 0x20), fill(l, 2)), (fill(2, 0x30), fill(l, 3)), (fill(3, 0x30), vec![])];
        emit(c, &cfg, &es, false);
        let es2 = vec![(vec![1u8], fill(l, 9))];
        emit(c, &cfg, &es2, false);
    }
    for _ in 0..(if thorough { 300 } else { 40 }) {
        let cfg = gen_cfg(rng, false, true);
        let mut es = Vec::new();
        let mut key = vec![0u8];
        for _ in 0..rng.range(1, 12) {
            let kl = *rng.pick(&[1usize, 5, 127, 128, 129, 256, 300]);
            let vl = *rng.pick(&[0usize, 127, 128, 255, 256, 384, 16383, 16384]);
            key[0] += 1;
            let mut k = key.clone();
            k.resize(kl, 0x42);
            es.push((k, vec![rng.next() as u8; vl]));
        }
        emit(c, &cfg, &es, false);
    }
}

/// Small-scope exhaustive files: EVERY subset of a 5-key universe (the empty key, prefixes of one
/// another, 0xFF) with EVERY assignment of an empty / non-empty value, under every configuration of a
/// small grid (quick: one configuration).  243 files per configuration.
pub fn generate_exhaustive<W: Write>(c: &mut Cases<W>, thorough: bool, with_old: bool) {
    let mut universe: Vec<Vec<u8>> = vec![vec![], vec![0], vec![0, 0], vec![0, 255], vec![255]];
    if thorough {
        universe = vec![vec![], vec![0], vec![0, 0], vec![0, 0, 0], vec![0, 255], vec![255], vec![255, 255]];
    }
    let n = universe.len();
    let base = FileCfg { codec: CompressionType::None, level: 0, block_size: 16, unclamped: true, interval: Some(1), levels: 1 };
    let mut cfgs = Vec::new();
    for levels in [0u8, 1, 2] {
        for (block_size, unclamped) in [(16usize, true), (8192usize, false)] {
            for interval in [1usize, 2] {
                cfgs.push(FileCfg { levels, block_size, unclamped, interval: Some(interval), ..base.clone() });
            }
        }
    }
    for cfg in &cfgs {
        for mask in 0u32..(1 << n) {
            let keys: Vec<&Vec<u8>> = (0..n).filter(|i| mask & (1 << i) != 0).map(|i| &universe[i]).collect();
            for vmask in 0u32..(1 << keys.len()) {
                let es: Vec<(Vec<u8>, Vec<u8>)> = keys.iter().enumerate()
                    .map(|(j, k)| ((*k).clone(), if vmask & (1 << j) != 0 { vec![7u8] } else { vec![] })).collect();
                emit(c, cfg, &es, with_old);
            }
        }
    }
    c.bump("exhaustive.configs", cfgs.len() as u64);
}
