//! A global allocator wrapper that, while enabled, remembers the layout of every allocation aligned to 8
//! bytes or more whose size is a multiple of 16 (the shape of the sorter's EntryBound buffer, whatever
//! alignment it is requested with) and checks that it is freed with the same layout, size and alignment
//! (C17: "frees with a mismatched layout").
use std::alloc::{GlobalAlloc, Layout, System};
use std::sync::atomic::{AtomicBool, AtomicU64, AtomicUsize, Ordering::*};

pub struct Tracking;
pub static ENABLED: AtomicBool = AtomicBool::new(false);
pub static MISMATCHES: AtomicU64 = AtomicU64::new(0);
pub static TRACKED: AtomicU64 = AtomicU64::new(0);
pub static LIVE: AtomicU64 = AtomicU64::new(0);
/// allocations of size 0 requested while enabled (undefined behaviour for GlobalAlloc::alloc)
pub static ZERO_SIZED: AtomicU64 = AtomicU64::new(0);
/// while set, a request with alignment 1 (and at least 16 bytes) is served at an address that is ODD: an
/// allocator owes a request nothing beyond the alignment it asked for, so a buffer that is later viewed as
/// 16-byte records must have been requested with that alignment (C17: "uses misaligned memory")
pub static MISALIGN: AtomicBool = AtomicBool::new(false);
const CAP: usize = 1 << 16;
static PTRS: [AtomicUsize; CAP] = [const { AtomicUsize::new(0) }; CAP];
static SIZES: [AtomicUsize; CAP] = [const { AtomicUsize::new(0) }; CAP];
static ALIGNS: [AtomicUsize; CAP] = [const { AtomicUsize::new(0) }; CAP];
const TOMB: usize = 1;

fn slot(p: usize) -> usize {
    ((p >> 4).wrapping_mul(0x9E3779B97F4A7C15usize)) >> (64 - 16)
}

unsafe impl GlobalAlloc for Tracking {
    unsafe fn alloc(&self, layout: Layout) -> *mut u8 {
        if layout.size() == 0 && ENABLED.load(Relaxed) {
            ZERO_SIZED.fetch_add(1, Relaxed);
            // never hand a zero-sized request to the system allocator
            return System.alloc(Layout::from_size_align_unchecked(layout.align().max(1), layout.align().max(1)));
        }
        if layout.align() == 1 && layout.size() >= 16 && MISALIGN.load(Relaxed) {
            let q = System.alloc(Layout::from_size_align_unchecked(layout.size() + 16, 16));
            return if q.is_null() { q } else { q.add(1) };
        }
        let p = System.alloc(layout);
        if !p.is_null() && ENABLED.load(Relaxed) && layout.align() >= 8 && layout.size() % 16 == 0 && layout.size() >= 16 {
            let mut i = slot(p as usize);
            for _ in 0..256 {
                let cur = PTRS[i].load(Acquire);
                // (an entry for this very address is stale: the block was freed while tracking was off)
                if (cur == 0 || cur == TOMB || cur == p as usize) && PTRS[i].compare_exchange(cur, p as usize, AcqRel, Relaxed).is_ok() {
                    if cur == p as usize { LIVE.fetch_sub(1, Relaxed); }
                    SIZES[i].store(layout.size(), Release);
                    ALIGNS[i].store(layout.align(), Release);
                    TRACKED.fetch_add(1, Relaxed);
                    LIVE.fetch_add(1, Relaxed);
                    break;
                }
                i = (i + 1) & (CAP - 1);
            }
        }
        p
    }
    unsafe fn dealloc(&self, p: *mut u8, layout: Layout) {
        if ENABLED.load(Relaxed) {
            let mut i = slot(p as usize);
            for _ in 0..256 {
                let cur = PTRS[i].load(Acquire);
                if cur == p as usize {
                    let sz = SIZES[i].load(Acquire);
                    if sz != layout.size() || layout.align() != ALIGNS[i].load(Acquire) {
                        MISMATCHES.fetch_add(1, Relaxed);
                    }
                    PTRS[i].store(TOMB, Release);
                    LIVE.fetch_sub(1, Relaxed);
                    break;
                }
                if cur == 0 {
                    break;
                }
                i = (i + 1) & (CAP - 1);
            }
        }
        if ENABLED.load(Relaxed) && layout.size() > 0 {
            // poison: a read through a dangling borrow returns 0xDD bytes, not the old contents
            std::ptr::write_bytes(p, 0xDD, layout.size());
        }
        if layout.align() == 1 && (p as usize) & 15 == 1 {
            // one of the deliberately odd addresses (the system allocator never returns one)
            return System.dealloc(p.sub(1), Layout::from_size_align_unchecked(layout.size() + 16, 16));
        }
        System.dealloc(p, layout)
    }
}
