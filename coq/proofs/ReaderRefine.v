(* The multi-level cursor (model/Reader.v: IndexBlockCursor and ReaderCursor) on a well-formed
   store: relative moves step to the neighbour in the level sequence, absolute moves walk the
   selected path from any coherent cache, the per-level block cache stays coherent. *)
From Coq Require Import Lia ZArith ZifyN ZifyBool ZifyNat Sorting.Sorted.
From Grenad.model Require Import Base Varint Block Trailer Reader Spec Format.
From Grenad.proofs Require Import BaseProofs BlockProofs FormatProofs BlockCursorProofs.
Ltac Zify.zify_post_hook ::= Z.div_mod_to_equations.

Lemma bytes_eqb_neq_ltb q k : bytes_leb q k = true -> bytes_eqb k q = false -> bytes_ltb q k = true.
Proof.
  intros H1 H2. destruct (bytes_total q k) as [H|[->|H]]; [exact H| |rewrite bytes_leb_ltb, H in H1; discriminate].
  assert (E : bytes_eqb k k = true) by (apply bytes_eqb_eq; reflexivity). rewrite E in H2. discriminate.
Qed.

Section Refine.
  Variable ld : N -> N -> outcome block.
  Variable root : N.
  (* the well-formed store: every block offset maps to the parsed block, its entries and restarts *)
  Variable bstore : N -> option (block * list entry * list nat).
  Hypothesis Hld : forall off b es ridx, bstore off = Some (b, es, ridx) ->
    (forall ord, ld ord off = Done b) /\ wfblock b es ridx /\ es <> [].

  Definition coff (it : entry) : N := be_decode (snd it).
  Definition kids (it : entry) : list entry :=
    match bstore (coff it) with Some (_, es, _) => es | None => [] end.
  Definition root_items : list entry := match bstore root with Some (_, es, _) => es | None => [] end.
  Fixpoint lseq (k : nat) : list entry :=
    match k with O => root_items | S k' => flat_map kids (lseq k') end.
  (* an index item: 8-byte value naming a stored block *)
  Definition item_ok (it : entry) : Prop := len (snd it) = 8 /\ bstore (coff it) <> None.

  Definition gstart (l : list entry) (gp : nat) : nat := length (flat_map kids (firstn gp l)).

  Lemma kids_pos it : item_ok it -> (0 < length (kids it))%nat.
  Proof.
    intros [_ H]. unfold kids. destruct (bstore (coff it)) as [[[b es] ridx]|] eqn:E; [|congruence].
    destruct (Hld _ _ _ _ E) as (_ & _ & Hne). destruct es; [congruence|cbn [length]; lia].
  Qed.

  Lemma gstart_S l gp pit : nth_error l gp = Some pit -> gstart l (S gp) = (gstart l gp + length (kids pit))%nat.
  Proof.
    unfold gstart. revert gp. induction l as [|a l IH]; intros gp H; [destruct gp; discriminate|].
    destruct gp as [|gp]; cbn [nth_error firstn flat_map] in *.
    - injection H as ->. destruct l; cbn [firstn flat_map]; rewrite ?app_nil_r; cbn [length]; lia.
    - rewrite !app_length. rewrite (IH gp H). lia.
  Qed.

  Lemma nth_flat l gp pit j : nth_error l gp = Some pit -> (j < length (kids pit))%nat ->
    nth_error (flat_map kids l) (gstart l gp + j) = nth_error (kids pit) j.
  Proof.
    unfold gstart. revert gp. induction l as [|a l IH]; intros gp H Hj; [destruct gp; discriminate|].
    destruct gp as [|gp]; cbn [nth_error firstn flat_map length plus] in *.
    - injection H as ->. rewrite nth_error_app1 by lia. reflexivity.
    - rewrite app_length. rewrite <- Nat.add_assoc. rewrite nth_error_app2 by lia.
      replace (length (kids a) + (length (flat_map kids (firstn gp l)) + j) - length (kids a))%nat
        with (length (flat_map kids (firstn gp l)) + j)%nat by lia.
      apply IH; assumption.
  Qed.

  Lemma gstart_all l : gstart l (length l) = length (flat_map kids l).
  Proof. unfold gstart. rewrite firstn_all. reflexivity. Qed.

  Lemma gstart_bound l gp pit : nth_error l gp = Some pit -> (gstart l gp + length (kids pit) <= length (flat_map kids l))%nat.
  Proof.
    intro H. rewrite <- (gstart_S l gp pit H). unfold gstart.
    rewrite <- (firstn_skipn (S gp) l) at 2. rewrite flat_map_app, app_length. lia.
  Qed.

  (* a cursor sitting on entry j of the block stored at [off] *)
  Definition cursor_at (c : bcur) (off : N) (j : nat) : Prop :=
    exists b es ridx, bstore off = Some (b, es, ridx) /\ bc_blk c = b /\ bc_off c = Some (start es j) /\ (j < length es)%nat.

  (* positioned st d g: st (deepest level first) has d+1 levels, its deepest cursor sits on element g
     of lseq d, every cursor above on the ancestor item *)
  Inductive positioned : list (N * bcur) -> nat -> nat -> Prop :=
  | pos_root o c g : cursor_at c root g -> positioned [(o, c)] 0 g
  | pos_step o c up d gp pit j : positioned up d gp -> nth_error (lseq d) gp = Some pit -> item_ok pit ->
      cursor_at c (coff pit) j -> positioned ((o, c) :: up) (S d) (gstart (lseq d) gp + j).

  Lemma cursor_at_items c off j b es ridx : cursor_at c off j -> bstore off = Some (b, es, ridx) ->
    bc_blk c = b /\ bc_off c = Some (start es j) /\ (j < length es)%nat.
  Proof. intros (b' & es' & r' & E & H1 & H2 & H3) E2. rewrite E in E2. injection E2 as <- <- <-. auto. Qed.

  Lemma positioned_lt st d g : positioned st d g -> (g < length (lseq d))%nat.
  Proof.
    induction 1 as [o c g (b & es & ridx & E & _ & _ & Hj) | o c up d gp pit j Hp IH Hn Hok (b & es & ridx & E & _ & _ & Hj)].
    - cbn [lseq]. unfold root_items. rewrite E. exact Hj.
    - cbn [lseq]. pose proof (gstart_bound _ _ _ Hn) as Hb. unfold kids in Hb at 1. rewrite E in Hb. lia.
  Qed.

  (* the in-block relative move, index level *)
  Lemma move_next_at c off j b es ridx : bstore off = Some (b, es, ridx) -> cursor_at c off j ->
    bc_move MNext c = Done (mk_bcur b (Some (start es (S j))), nth_error es (S j)).
  Proof.
    intros E H. destruct (cursor_at_items c off j b es ridx H E) as (H1 & H2 & H3).
    destruct (Hld _ _ _ _ E) as (_ & W & _). cbn [bc_move].
    destruct c as [cb co]. cbn [bc_blk bc_off] in *. subst cb co. exact (bc_next_spec b es ridx W j H3).
  Qed.

  Lemma cursor_at_next off j b es ridx : bstore off = Some (b, es, ridx) -> (S j < length es)%nat ->
    cursor_at (mk_bcur b (Some (start es (S j)))) off (S j).
  Proof. intros E H. exists b, es, ridx. auto. Qed.

  Lemma fresh_next off b es ridx : bstore off = Some (b, es, ridx) ->
    bc_move MNext (bc_new b) = Done (mk_bcur b (Some (start es 0)), nth_error es 0).
  Proof. intro E. destruct (Hld _ _ _ _ E) as (_ & W & _). cbn [bc_move]. unfold bc_new. exact (bc_next_fresh b es ridx W). Qed.

  (* ---- recursive_index_block with move_on_next ---- *)
  Lemma off_of_item it : item_ok it -> off_of_val (snd it) = Done (coff it).
  Proof. intros [H _]. unfold off_of_val, coff. rewrite H. reflexivity. Qed.

  Theorem rec_next_spec st d g : positioned st d g ->
    (forall k, (k < d)%nat -> Forall item_ok (lseq k)) -> forall n,
    exists st' r n', rec_rev ld MNext n st = Done (st', r, n') /\ n <= n' <= n + N.of_nat (S d) /\
      if Nat.ltb (S g) (length (lseq d))
      then positioned st' d (S g) /\ r = nth_error (lseq d) (S g)
      else r = None /\ length st' = length st.
  Proof.
    induction 1 as [o c g Hc | o c up d' gp pit j Hp IH Hn Hok Hc]; intros Hitems n.
    - (* root level *)
      destruct Hc as (b & es & ridx & E & H1 & H2 & H3).
      assert (Hcat : cursor_at c root g) by (exists b, es, ridx; auto).
      cbn [rec_rev]. rewrite (move_next_at c root g b es ridx E Hcat). cbn [bind].
      cbn [lseq]. unfold root_items. rewrite E.
      destruct (nth_error es (S g)) as [it|] eqn:En.
      + assert (Hs : (S g < length es)%nat) by (apply nth_error_Some; congruence).
        destruct (Hld _ _ _ _ E) as (_ & W & _).
        rewrite (bc_current_start b es ridx W (S g) ltac:(lia)). cbn [bind].
        eexists _, _, n. split; [reflexivity|]. split; [lia|].
        destruct (Nat.ltb_spec (S g) (length es)); [|lia].
        split; [apply pos_root; apply (cursor_at_next root g b es ridx E Hs)|first [reflexivity | exact En | (symmetry; exact En)]].
      + assert (Hs : (length es <= S g)%nat) by (apply nth_error_None; exact En).
        cbn [rec_rev bind]. eexists _, _, n. split; [reflexivity|]. split; [lia|].
        destruct (Nat.ltb_spec (S g) (length es)); [lia|]. split; reflexivity.
    - destruct Hc as (b & es & ridx & E & H1 & H2 & H3).
      assert (Hcat : cursor_at c (coff pit) j) by (exists b, es, ridx; auto).
      assert (Hk : kids pit = es) by (unfold kids; rewrite E; reflexivity).
      set (g := (gstart (lseq d') gp + j)%nat) in *.
      pose proof (gstart_bound _ _ _ Hn) as Hm. rewrite Hk in Hm.
      cbn [rec_rev]. rewrite (move_next_at c (coff pit) j b es ridx E Hcat). cbn [bind].
      destruct (Hld _ _ _ _ E) as (_ & W & _).
      destruct (nth_error es (S j)) as [it|] eqn:En.
      + (* stays inside the block *)
        assert (Hs : (S j < length es)%nat) by (apply nth_error_Some; congruence).
        rewrite (bc_current_start b es ridx W (S j) ltac:(lia)). cbn [bind].
        eexists _, _, n. split; [reflexivity|]. split; [lia|].
        cbn [lseq]. destruct (Nat.ltb_spec (S g) (length (flat_map kids (lseq d')))); [|subst g; lia].
        split.
        * replace (S g) with (gstart (lseq d') gp + S j)%nat by (subst g; lia).
          eapply pos_step; [exact Hp | exact Hn | exact Hok | apply (cursor_at_next (coff pit) j b es ridx E Hs)].
        * subst g. replace (S (gstart (lseq d') gp + j)) with (gstart (lseq d') gp + S j)%nat by lia.
          rewrite (nth_flat _ _ _ _ Hn) by (rewrite Hk; lia). rewrite Hk. first [reflexivity | exact En | (symmetry; exact En)].
      + (* block exhausted: climb *)
        assert (Hlast : S j = length es) by (apply nth_error_None in En; lia).
        destruct (IH ltac:(intros k Hk'; apply Hitems; lia) n) as (up2 & r2 & n2 & Er & Hn2 & IHres). rewrite Er. cbn [bind].
        cbn [lseq].
        assert (Hg1 : S g = gstart (lseq d') (S gp)) by (rewrite (gstart_S _ _ _ Hn), Hk; subst g; lia).
        destruct (Nat.ltb_spec (S gp) (length (lseq d'))) as [Hgp|Hgp].
        * destruct IHres as [IHp IHr].
          destruct (nth_error (lseq d') (S gp)) as [pit2|] eqn:E2; [|apply nth_error_None in E2; lia].
          subst r2.
          (* the parent's next item names the next block of this level *)
          assert (Hok2 : item_ok pit2).
          { pose proof (Hitems d' ltac:(lia)) as F. rewrite Forall_forall in F. apply F. eapply nth_error_In. exact E2. }
          destruct pit2 as [k2 ob2]. pose proof (off_of_item (k2, ob2) Hok2) as Ho2. cbn [snd] in Ho2. rewrite Ho2. cbn [bind].
          destruct (bstore (coff (k2, ob2))) as [[[b2 es2] ridx2]|] eqn:Eb2; [|destruct Hok2 as [_ Hx]; congruence].
          destruct (Hld _ _ _ _ Eb2) as (Hl2 & W2 & Hne2).
          rewrite (Hl2 n2). cbn [bind]. rewrite (fresh_next _ b2 es2 ridx2 Eb2). cbn [bind].
          eexists _, _, (n2 + 1). split; [reflexivity|]. split; [lia|].
          assert (Hk2 : kids (k2, ob2) = es2) by (unfold kids; rewrite Eb2; reflexivity).
          pose proof (gstart_bound _ _ _ E2) as Hm2. rewrite Hk2 in Hm2.
          assert (Hl0 : (0 < length es2)%nat) by (destruct es2; [congruence|cbn [length]; lia]).
          destruct (Nat.ltb_spec (S g) (length (flat_map kids (lseq d')))); [|lia].
          split.
          -- rewrite Hg1. replace (gstart (lseq d') (S gp)) with (gstart (lseq d') (S gp) + 0)%nat by lia.
             eapply pos_step; [exact IHp | exact E2 | exact Hok2 |]. exists b2, es2, ridx2. auto.
          -- rewrite Hg1. replace (gstart (lseq d') (S gp)) with (gstart (lseq d') (S gp) + 0)%nat by lia.
             rewrite (nth_flat _ _ _ _ E2) by (rewrite Hk2; lia). rewrite Hk2. reflexivity.
        * destruct IHres as [IHr IHl]. subst r2.
          eexists _, _, n2. split; [reflexivity|]. split; [lia|].
          assert (length (lseq d') = S gp) by (pose proof (positioned_lt _ _ _ Hp); lia).
          assert (S g = length (flat_map kids (lseq d'))) by (rewrite Hg1, <- gstart_all; congruence).
          destruct (Nat.ltb_spec (S g) (length (flat_map kids (lseq d')))); [lia|].
          split; [reflexivity|]. cbn [length]. rewrite IHl. reflexivity.
  Qed.

  (* ---- recursive_index_block with move_on_prev ---- *)
  Lemma move_prev_at c off j b es ridx : bstore off = Some (b, es, ridx) -> cursor_at c off j ->
    bc_move MPrev c = if Nat.eqb j 0 then Done (c, None)
                      else Done (mk_bcur b (Some (start es (j - 1))), nth_error es (j - 1)).
  Proof.
    intros E H. destruct (cursor_at_items c off j b es ridx H E) as (H1 & H2 & H3).
    destruct (Hld _ _ _ _ E) as (_ & W & _). cbn [bc_move].
    destruct c as [cb co]. cbn [bc_blk bc_off] in *. subst cb co.
    destruct (Nat.eqb_spec j 0) as [->|Hj].
    - exact (bc_prev_first b es ridx W).
    - exact (bc_prev_spec b es ridx W j ltac:(lia) H3).
  Qed.

  Lemma fresh_prev off b es ridx : bstore off = Some (b, es, ridx) ->
    bc_move MPrev (bc_new b) = Done (mk_bcur b (Some (start es (length es - 1))), nth_error es (length es - 1)).
  Proof.
    intro E. destruct (Hld _ _ _ _ E) as (_ & W & Hne). cbn [bc_move]. unfold bc_new, bc_prev. cbn [bc_off].
    apply (bc_last_spec b es ridx W). destruct es; [congruence|cbn [length]; lia].
  Qed.

  Lemma gstart_0 l : gstart l 0 = 0%nat. Proof. reflexivity. Qed.

  Theorem rec_prev_spec st d g : positioned st d g ->
    (forall k, (k < d)%nat -> Forall item_ok (lseq k)) -> forall n,
    exists st' r n', rec_rev ld MPrev n st = Done (st', r, n') /\ n <= n' <= n + N.of_nat (S d) /\
      if Nat.ltb 0 g
      then positioned st' d (g - 1) /\ r = nth_error (lseq d) (g - 1)
      else r = None /\ length st' = length st.
  Proof.
    induction 1 as [o c g Hc | o c up d' gp pit j Hp IH Hn Hok Hc]; intros Hitems n.
    - destruct Hc as (b & es & ridx & E & H1 & H2 & H3).
      assert (Hcat : cursor_at c root g) by (exists b, es, ridx; auto).
      cbn [rec_rev]. rewrite (move_prev_at c root g b es ridx E Hcat).
      destruct (Hld _ _ _ _ E) as (_ & W & _).
      destruct (Nat.eqb_spec g 0) as [->|Hg]; cbn [bind].
      + cbn [rec_rev bind]. eexists _, _, n. split; [reflexivity|]. split; [lia|]. cbn [Nat.ltb Nat.leb]. split; reflexivity.
      + destruct (nth_error es (g - 1)) as [it|] eqn:En; [|apply nth_error_None in En; lia].
        rewrite (bc_current_start b es ridx W (g - 1) ltac:(lia)). cbn [bind].
        eexists _, _, n. split; [reflexivity|]. split; [lia|].
        destruct (Nat.ltb_spec 0 g); [|lia].
        split; [apply pos_root; exists b, es, ridx; repeat split; auto; lia|].
        cbn [lseq]. unfold root_items. rewrite E. first [reflexivity | exact En | (symmetry; exact En)].
    - destruct Hc as (b & es & ridx & E & H1 & H2 & H3).
      assert (Hcat : cursor_at c (coff pit) j) by (exists b, es, ridx; auto).
      assert (Hk : kids pit = es) by (unfold kids; rewrite E; reflexivity).
      set (g := (gstart (lseq d') gp + j)%nat) in *.
      cbn [rec_rev]. rewrite (move_prev_at c (coff pit) j b es ridx E Hcat).
      destruct (Hld _ _ _ _ E) as (_ & W & _).
      destruct (Nat.eqb_spec j 0) as [Hj0|Hj0]; cbn [bind].
      + (* first entry of its block: climb *)
        destruct (IH ltac:(intros k Hk'; apply Hitems; lia) n) as (up2 & r2 & n2 & Er & Hn2 & IHres). rewrite Er. cbn [bind].
        assert (Hg0 : g = gstart (lseq d') gp) by (subst g; lia).
        destruct (Nat.ltb_spec 0 gp) as [Hgp|Hgp].
        * destruct IHres as [IHp IHr].
          destruct (nth_error (lseq d') (gp - 1)) as [pit2|] eqn:E2.
          2:{ apply nth_error_None in E2. pose proof (positioned_lt _ _ _ Hp). lia. }
          subst r2.
          assert (Hok2 : item_ok pit2).
          { pose proof (Hitems d' ltac:(lia)) as F. rewrite Forall_forall in F. apply F. eapply nth_error_In. exact E2. }
          destruct pit2 as [k2 ob2]. pose proof (off_of_item (k2, ob2) Hok2) as Ho2. cbn [snd] in Ho2. rewrite Ho2. cbn [bind].
          destruct (bstore (coff (k2, ob2))) as [[[b2 es2] ridx2]|] eqn:Eb2; [|destruct Hok2 as [_ Hx]; congruence].
          destruct (Hld _ _ _ _ Eb2) as (Hl2 & W2 & Hne2).
          rewrite (Hl2 n2). cbn [bind]. rewrite (fresh_prev _ b2 es2 ridx2 Eb2). cbn [bind].
          eexists _, _, (n2 + 1). split; [reflexivity|]. split; [lia|].
          assert (Hk2 : kids (k2, ob2) = es2) by (unfold kids; rewrite Eb2; reflexivity).
          assert (Hl0 : (0 < length es2)%nat) by (destruct es2; [congruence|cbn [length]; lia]).
          pose proof (gstart_S (lseq d') (gp - 1) (k2, ob2) E2) as HS. replace (S (gp - 1)) with gp in HS by lia. rewrite Hk2 in HS.
          assert (Hgpos : (0 < g)%nat) by lia.
          destruct (Nat.ltb_spec 0 g); [|lia].
          assert (Hgm : (g - 1 = gstart (lseq d') (gp - 1) + (length es2 - 1))%nat) by lia.
          split.
          -- rewrite Hgm. eapply pos_step; [exact IHp | exact E2 | exact Hok2 |]. exists b2, es2, ridx2. repeat split; auto. lia.
          -- cbn [lseq]. rewrite Hgm. rewrite (nth_flat _ _ _ _ E2) by (rewrite Hk2; lia). rewrite Hk2. reflexivity.
        * destruct IHres as [IHr IHl]. subst r2.
          eexists _, _, n2. split; [reflexivity|]. split; [lia|].
          assert (gp = 0%nat) by lia. subst gp. rewrite gstart_0 in Hg0.
          destruct (Nat.ltb_spec 0 g); [lia|]. split; [reflexivity|]. cbn [length]. rewrite IHl. reflexivity.
      + (* stays inside the block *)
        destruct (nth_error es (j - 1)) as [it|] eqn:En; [|apply nth_error_None in En; lia].
        rewrite (bc_current_start b es ridx W (j - 1) ltac:(lia)). cbn [bind].
        eexists _, _, n. split; [reflexivity|]. split; [lia|].
        destruct (Nat.ltb_spec 0 g); [|subst g; lia].
        assert (Hgm : (g - 1 = gstart (lseq d') gp + (j - 1))%nat) by (subst g; lia).
        split.
        * rewrite Hgm. eapply pos_step; [exact Hp | exact Hn | exact Hok |]. exists b, es, ridx. repeat split; auto. lia.
        * cbn [lseq]. rewrite Hgm. rewrite (nth_flat _ _ _ _ Hn) by (rewrite Hk; lia). rewrite Hk.
          first [reflexivity | exact En | (symmetry; exact En)].
  Qed.

  (* ================= absolute moves: iter_index_blocks / initial_index_blocks ================= *)
  Inductive absmove : mv -> Prop := abs_first : absmove MFirst | abs_last : absmove MLast | abs_ge q : absmove (MGe q).
  Definition sel (m : mv) (es : list entry) : nat :=
    match m with
    | MFirst => 0%nat
    | MLast => (length es - 1)%nat
    | MGe q => ceil_pos es q
    | _ => 0%nat
    end.

  Lemma abs_move m c off b es ridx : absmove m -> bstore off = Some (b, es, ridx) -> bc_blk c = b ->
    bc_move m c = Done (mk_bcur b (Some (start es (sel m es))), nth_error es (sel m es)).
  Proof.
    intros Hm E Hb. destruct (Hld _ _ _ _ E) as (_ & W & Hne). destruct c as [cb co]. cbn [bc_blk] in Hb. subst cb.
    destruct Hm; cbn [bc_move sel].
    - exact (bc_first_spec b es ridx W co).
    - apply (bc_last_spec b es ridx W co). destruct es; [congruence|cbn [length]; lia].
    - exact (bc_ge_spec b es ridx W co q).
  Qed.

  (* offsets of the blocks of level k *)
  Definition offs (k : nat) : list N := match k with O => [root] | S k' => map coff (lseq k') end.
  Definition valid_pair (p : N * bcur) : Prop := exists b es ridx, bstore (fst p) = Some (b, es, ridx) /\ bc_blk (snd p) = b.
  Definition ok_pair (k : nat) (p : N * bcur) : Prop := valid_pair p \/ ~ In (fst p) (offs k).
  Fixpoint coherent (k : nat) (lv : list (N * bcur)) : Prop :=
    match lv with [] => True | p :: rest => ok_pair k p /\ coherent (S k) rest end.
  Fixpoint all_valid (lv : list (N * bcur)) : Prop :=
    match lv with [] => True | p :: rest => valid_pair p /\ all_valid rest end.

  Lemma all_valid_coherent lv : forall k, all_valid lv -> coherent k lv.
  Proof. induction lv as [|p r IH]; intros k H; cbn [coherent all_valid] in *; [exact I|]. destruct H; split; [left; assumption|auto]. Qed.

  (* the path selected by m from (level k, global index gp) going cnt levels down *)
  Fixpoint sdesc (m : mv) (k gp cnt : nat) : option nat :=
    match cnt with
    | O => Some gp
    | S c' => match nth_error (lseq k) gp with
              | None => None
              | Some pit => let j := sel m (kids pit) in
                            if Nat.ltb j (length (kids pit)) then sdesc m (S k) (gstart (lseq k) gp + j) c' else None
              end
    end.

  Lemma iter_gen m : absmove m -> forall lv k up gp pit n,
    positioned up k gp -> nth_error (lseq k) gp = Some pit -> item_ok pit -> coherent (S k) lv -> lv <> [] ->
    (forall k', (k < k' <= k + length lv)%nat -> Forall item_ok (lseq k')) ->
    exists lv' n' ok, iter_walk ld m n (coff pit) lv = Done (lv', n', ok) /\
      n <= n' <= n + N.of_nat (length lv) /\ length lv' = length lv /\
      match sdesc m k gp (length lv) with
      | Some g => ok = true /\ positioned (rev lv' ++ up) (k + length lv) g /\ all_valid lv'
      | None => ok = false /\ coherent (S k) lv'
      end.
  Proof.
    intro Hm. induction lv as [|[o c] rest IH]; intros k up gp pit n Hp Hn Hok Hc Hne Hitems; [congruence|].
    cbn [iter_walk]. destruct Hc as [Hokp Hrest].
    destruct (bstore (coff pit)) as [[[b es] ridx]|] eqn:E; [|destruct Hok as [_ Hx]; congruence].
    destruct (Hld _ _ _ _ E) as (Hl & W & Hnee).
    assert (Hk : kids pit = es) by (unfold kids; rewrite E; reflexivity).
    (* the cursor used at this level holds the parent's child block *)
    assert (Hcur : exists c0 n0, (if coff pit =? o then Done (o, c, n) else do b0 <- ld n (coff pit); Done (coff pit, bc_new b0, n + 1))
                                 = Done (coff pit, c0, n0) /\ bc_blk c0 = b /\ n <= n0 <= n + 1).
    { destruct (N.eqb_spec (coff pit) o) as [Eo|Eo].
      - subst o. exists c, n. split; [reflexivity|]. split; [|lia].
        destruct Hokp as [(b' & es' & r' & E' & Hb')|Hh]; cbn [fst snd] in *.
        + rewrite E in E'. injection E' as <- <- <-. exact Hb'.
        + exfalso. apply Hh. cbn [offs]. apply in_map. eapply nth_error_In; exact Hn.
      - rewrite (Hl n). cbn [bind]. exists (bc_new b), (n + 1). split; [reflexivity|]. split; [reflexivity|lia]. }
    destruct Hcur as (c0 & n0 & Ec & Hb0 & Hn0). rewrite Ec. cbn [bind].
    rewrite (abs_move m c0 (coff pit) b es ridx Hm E Hb0). cbn [bind].
    cbn [length sdesc]. rewrite Hn. cbv zeta. rewrite Hk. set (j := sel m es).
    destruct (nth_error es j) as [[kj obj]|] eqn:Ej.
    - assert (Hj : (j < length es)%nat) by (apply nth_error_Some; congruence).
      destruct (Nat.ltb_spec j (length es)); [|lia].
      set (c1 := mk_bcur b (Some (start es j))).
      assert (Hp1 : positioned ((coff pit, c1) :: up) (S k) (gstart (lseq k) gp + j)).
      { eapply pos_step; [exact Hp | exact Hn | exact Hok |]. exists b, es, ridx. auto. }
      assert (Hn1 : nth_error (lseq (S k)) (gstart (lseq k) gp + j) = Some (kj, obj)).
      { cbn [lseq]. rewrite (nth_flat _ _ _ _ Hn) by (rewrite Hk; exact Hj). rewrite Hk. exact Ej. }
      assert (Hok1 : item_ok (kj, obj)).
      { pose proof (Hitems (S k) ltac:(cbn [length]; lia)) as F. rewrite Forall_forall in F. apply F. eapply nth_error_In. exact Hn1. }
      pose proof (off_of_item (kj, obj) Hok1) as Ho1. cbn [snd] in Ho1. rewrite Ho1. cbn [bind].
      assert (Hv1 : valid_pair (coff pit, c1)) by (exists b, es, ridx; auto).
      destruct rest as [|p2 rest2].
      + cbn [iter_walk bind length sdesc rev app]. exists [(coff pit, c1)], n0, true.
        split; [reflexivity|]. split; [lia|]. split; [reflexivity|].
        replace (k + 1)%nat with (S k) by lia. split; [reflexivity|]. split; [exact Hp1|]. cbn [all_valid]. auto.
      + destruct (IH (S k) _ _ (kj, obj) n0 Hp1 Hn1 Hok1 Hrest ltac:(discriminate)
                     ltac:(intros k' Hk'; apply Hitems; cbn [length] in *; lia)) as (rest' & n' & ok & Er & Hn' & Hlen & Hres).
        rewrite Er. cbn [bind]. exists ((coff pit, c1) :: rest'), n', ok.
        split; [reflexivity|]. split; [cbn [length] in *; lia|]. split; [cbn [length]; rewrite Hlen; reflexivity|].
        replace (k + S (length (p2 :: rest2)))%nat with (S k + length (p2 :: rest2))%nat by lia.
        destruct (sdesc m (S k) (gstart (lseq k) gp + j) (length (p2 :: rest2))) as [g|].
        * destruct Hres as (A & B & C). split; [exact A|]. cbn [rev]. rewrite <- app_assoc. cbn [app].
          split; [exact B|]. cbn [all_valid]. auto.
        * destruct Hres as [A B]. split; [exact A|]. cbn [coherent]. split; [left; exact Hv1|exact B].
    - assert (Hj : (length es <= j)%nat) by (apply nth_error_None; exact Ej).
      destruct (Nat.ltb_spec j (length es)); [lia|].
      eexists _, n0, false. split; [reflexivity|]. split; [cbn [length]; lia|]. split; [reflexivity|].
      split; [reflexivity|]. cbn [coherent]. split; [|exact Hrest].
      left. exists b, es, ridx. cbn [fst snd bc_blk]. auto.
  Qed.

  (* file positions are distinct (a block of level k+1 is never a block of level k): a premise of the
     descent lemmas for the index levels they walk through *)
  Lemma init_gen m : absmove m -> forall depth k up gp pit n,
    positioned up k gp -> nth_error (lseq k) gp = Some pit -> item_ok pit ->
    (forall k', (k < k' <= k + depth)%nat -> Forall item_ok (lseq k')) ->
    (forall k', (k < k' <= k + depth)%nat -> forall it, In it (lseq k') -> ~ In (coff it) (offs k')) ->
    exists res n', initial_blocks ld m depth n (coff pit) = Done (res, n') /\ n <= n' <= n + N.of_nat depth /\
      match sdesc m k gp depth with
      | Some g => exists lv', res = Some lv' /\ length lv' = depth /\ positioned (rev lv' ++ up) (k + depth) g /\ coherent (S k) lv'
      | None => res = None
      end.
  Proof.
    intro Hm. induction depth as [|depth IH]; intros k up gp pit n Hp Hn Hok Hitems Hdisj.
    - cbn [initial_blocks sdesc]. exists (Some []), n. split; [reflexivity|]. split; [lia|].
      exists []. cbn [rev app length coherent]. replace (k + 0)%nat with k by lia. auto.
    - cbn [initial_blocks].
      destruct (bstore (coff pit)) as [[[b es] ridx]|] eqn:E; [|destruct Hok as [_ Hx]; congruence].
      destruct (Hld _ _ _ _ E) as (Hl & W & Hnee).
      assert (Hk : kids pit = es) by (unfold kids; rewrite E; reflexivity).
      rewrite (Hl n). cbn [bind]. rewrite (abs_move m (bc_new b) (coff pit) b es ridx Hm E eq_refl). cbn [bind].
      cbn [sdesc]. rewrite Hn. cbv zeta. rewrite Hk. set (j := sel m es).
      destruct (nth_error es j) as [[kj obj]|] eqn:Ej.
      + assert (Hj : (j < length es)%nat) by (apply nth_error_Some; congruence).
        destruct (Nat.ltb_spec j (length es)); [|lia].
        set (c1 := mk_bcur b (Some (start es j))).
        assert (Hn1 : nth_error (lseq (S k)) (gstart (lseq k) gp + j) = Some (kj, obj)).
        { cbn [lseq]. rewrite (nth_flat _ _ _ _ Hn) by (rewrite Hk; exact Hj). rewrite Hk. exact Ej. }
        assert (Hok1 : item_ok (kj, obj)).
        { pose proof (Hitems (S k) ltac:(lia)) as F. rewrite Forall_forall in F. apply F. eapply nth_error_In. exact Hn1. }
        pose proof (off_of_item (kj, obj) Hok1) as Ho1. cbn [snd] in Ho1. rewrite Ho1. cbn [bind].
        assert (Hp1 : forall o, positioned ((o, c1) :: up) (S k) (gstart (lseq k) gp + j)).
        { intro o. eapply pos_step; [exact Hp | exact Hn | exact Hok |]. exists b, es, ridx. auto. }
        destruct (IH (S k) _ _ (kj, obj) (n + 1) (Hp1 (coff (kj, obj))) Hn1 Hok1
                     ltac:(intros k' Hk'; apply Hitems; lia) ltac:(intros k' Hk'; apply Hdisj; lia)) as (res & n' & Er & Hn' & Hres).
        rewrite Er. cbn [bind]. 
        replace (k + S depth)%nat with (S k + depth)%nat by lia.
        destruct (sdesc m (S k) (gstart (lseq k) gp + j) depth) as [g|].
        * destruct Hres as (lv' & -> & Hlen & Hpos & Hcoh).
          exists (Some ((coff (kj, obj), c1) :: lv')), n'. split; [reflexivity|]. split; [lia|].
          exists ((coff (kj, obj), c1) :: lv'). split; [reflexivity|]. split; [cbn [length]; lia|].
          cbn [rev]. rewrite <- app_assoc. cbn [app]. split; [exact Hpos|].
          cbn [coherent]. split; [|exact Hcoh]. right. cbn [fst]. apply (Hdisj (S k) ltac:(lia)). eapply nth_error_In. exact Hn1.
        * subst res. exists None, n'. split; [reflexivity|]. split; [lia|reflexivity].
      + assert (Hj : (length es <= j)%nat) by (apply nth_error_None; exact Ej).
        destruct (Nat.ltb_spec j (length es)); [lia|].
        exists None, (n + 1). split; [reflexivity|]. split; [lia|reflexivity].
  Qed.

  (* ---- from the root ---- *)
  Definition sroot (m : mv) (cnt : nat) : option nat :=
    match cnt with
    | O => None
    | S c' => let j := sel m root_items in if Nat.ltb j (length root_items) then sdesc m 0 j c' else None
    end.

  Variable rb : block.
  Variable rridx : list nat.
  Hypothesis Hroot : bstore root = Some (rb, root_items, rridx).

  Theorem iter_root m : absmove m -> forall lv n, coherent 0 lv -> lv <> [] ->
    (forall k', (k' < length lv)%nat -> Forall item_ok (lseq k')) ->
    exists lv' n' ok, iter_walk ld m n root lv = Done (lv', n', ok) /\
      n <= n' <= n + N.of_nat (length lv) /\ length lv' = length lv /\
      match sroot m (length lv) with
      | Some g => ok = true /\ positioned (rev lv') (length lv - 1) g /\ all_valid lv'
      | None => ok = false /\ coherent 0 lv'
      end.
  Proof.
    intros Hm lv n Hc Hne Hitems. destruct lv as [|[o c] rest]; [congruence|].
    cbn [iter_walk]. destruct Hc as [Hokp Hrest].
    destruct (Hld _ _ _ _ Hroot) as (Hl & W & Hnee).
    assert (Hcur : exists c0 n0, (if root =? o then Done (o, c, n) else do b0 <- ld n root; Done (root, bc_new b0, n + 1))
                                 = Done (root, c0, n0) /\ bc_blk c0 = rb /\ n <= n0 <= n + 1).
    { destruct (N.eqb_spec root o) as [Eo|Eo].
      - subst o. exists c, n. split; [reflexivity|]. split; [|lia].
        destruct Hokp as [(b' & es' & r' & E' & Hb')|Hh]; cbn [fst snd] in *.
        + rewrite Hroot in E'. injection E' as <- _ _. exact Hb'.
        + exfalso. apply Hh. left. reflexivity.
      - rewrite (Hl n). cbn [bind]. exists (bc_new rb), (n + 1). split; [reflexivity|]. split; [reflexivity|lia]. }
    destruct Hcur as (c0 & n0 & Ec & Hb0 & Hn0). rewrite Ec. cbn [bind].
    rewrite (abs_move m c0 root rb root_items rridx Hm Hroot Hb0). cbn [bind].
    cbn [length sroot]. cbv zeta. set (j := sel m root_items).
    destruct (nth_error root_items j) as [[kj obj]|] eqn:Ej.
    - assert (Hj : (j < length root_items)%nat) by (apply nth_error_Some; congruence).
      destruct (Nat.ltb_spec j (length root_items)); [|lia].
      set (c1 := mk_bcur rb (Some (start root_items j))).
      assert (Hp1 : positioned [(root, c1)] 0 j) by (apply pos_root; exists rb, root_items, rridx; auto).
      assert (Hn1 : nth_error (lseq 0) j = Some (kj, obj)) by exact Ej.
      assert (Hok1 : item_ok (kj, obj)).
      { pose proof (Hitems 0%nat ltac:(cbn [length]; lia)) as F. rewrite Forall_forall in F. apply F. eapply nth_error_In. exact Hn1. }
      pose proof (off_of_item (kj, obj) Hok1) as Ho1. cbn [snd] in Ho1. rewrite Ho1. cbn [bind].
      assert (Hv1 : valid_pair (root, c1)) by (exists rb, root_items, rridx; auto).
      destruct rest as [|p2 rest2].
      + cbn [iter_walk bind sdesc rev app length]. exists [(root, c1)], n0, true.
        split; [reflexivity|]. split; [lia|]. split; [reflexivity|].
        split; [reflexivity|]. split; [exact Hp1|]. cbn [all_valid]. auto.
      + destruct (iter_gen m Hm (p2 :: rest2) 0%nat [(root, c1)] j (kj, obj) n0 Hp1 Hn1 Hok1 Hrest ltac:(discriminate)
                   ltac:(intros k' Hk'; apply Hitems; cbn [length] in *; lia)) as (rest' & n' & ok & Er & Hn' & Hlen & Hres).
        rewrite Er. cbn [bind]. exists ((root, c1) :: rest'), n', ok.
        split; [reflexivity|]. split; [cbn [length] in *; lia|]. split; [cbn [length]; rewrite Hlen; reflexivity|].
        cbn [plus] in Hres. replace (S (length (p2 :: rest2)) - 1)%nat with (length (p2 :: rest2)) by lia.
        destruct (sdesc m 0 j (length (p2 :: rest2))) as [g|].
        * destruct Hres as (A & B & C). split; [exact A|]. cbn [rev]. split; [exact B|]. cbn [all_valid]. auto.
        * destruct Hres as [A B]. split; [exact A|]. cbn [coherent]. split; [left; exact Hv1|exact B].
    - assert (Hj : (length root_items <= j)%nat) by (apply nth_error_None; exact Ej).
      destruct (Nat.ltb_spec j (length root_items)); [lia|].
      eexists _, n0, false. split; [reflexivity|]. split; [cbn [length]; lia|]. split; [reflexivity|].
      split; [reflexivity|]. cbn [coherent]. split; [|exact Hrest].
      left. exists rb, root_items, rridx. cbn [fst snd bc_blk]. auto.
  Qed.

  Theorem init_root m : absmove m -> forall depth n, (0 < depth)%nat ->
    (forall k', (k' < depth)%nat -> Forall item_ok (lseq k')) ->
    (forall k', (k' < depth)%nat -> forall it, In it (lseq k') -> ~ In (coff it) (offs k')) ->
    exists res n', initial_blocks ld m depth n root = Done (res, n') /\ n <= n' <= n + N.of_nat depth /\
      match sroot m depth with
      | Some g => exists lv', res = Some lv' /\ length lv' = depth /\ positioned (rev lv') (depth - 1) g /\ coherent 0 lv'
      | None => res = None
      end.
  Proof.
    intros Hm depth n Hd Hitems Hdisj. destruct depth as [|depth]; [lia|].
    cbn [initial_blocks].
    destruct (Hld _ _ _ _ Hroot) as (Hl & W & Hnee).
    rewrite (Hl n). cbn [bind]. rewrite (abs_move m (bc_new rb) root rb root_items rridx Hm Hroot eq_refl). cbn [bind].
    cbn [sroot]. cbv zeta. set (j := sel m root_items).
    destruct (nth_error root_items j) as [[kj obj]|] eqn:Ej.
    - assert (Hj : (j < length root_items)%nat) by (apply nth_error_Some; congruence).
      destruct (Nat.ltb_spec j (length root_items)); [|lia].
      set (c1 := mk_bcur rb (Some (start root_items j))).
      assert (Hn1 : nth_error (lseq 0) j = Some (kj, obj)) by exact Ej.
      assert (Hok1 : item_ok (kj, obj)).
      { pose proof (Hitems 0%nat ltac:(lia)) as F. rewrite Forall_forall in F. apply F. eapply nth_error_In. exact Hn1. }
      pose proof (off_of_item (kj, obj) Hok1) as Ho1. cbn [snd] in Ho1. rewrite Ho1. cbn [bind].
      assert (Hp1 : positioned [(coff (kj, obj), c1)] 0 j) by (apply pos_root; exists rb, root_items, rridx; auto).
      destruct (init_gen m Hm depth 0%nat [(coff (kj, obj), c1)] j (kj, obj) (n + 1) Hp1 Hn1 Hok1
                   ltac:(intros k' Hk'; apply Hitems; lia) ltac:(intros k' Hk'; apply Hdisj; lia)) as (res & n' & Er & Hn' & Hres).
      rewrite Er. cbn [bind]. cbn [plus] in Hres. replace (S depth - 1)%nat with depth by lia.
      destruct (sdesc m 0 j depth) as [g|].
      + destruct Hres as (lv' & -> & Hlen & Hpos & Hcoh).
        exists (Some ((coff (kj, obj), c1) :: lv')), n'. split; [reflexivity|]. split; [lia|].
        exists ((coff (kj, obj), c1) :: lv'). split; [reflexivity|]. split; [cbn [length]; lia|].
        cbn [rev]. split; [exact Hpos|]. cbn [coherent]. split; [|exact Hcoh].
        right. cbn [fst]. apply (Hdisj 0%nat ltac:(lia)). eapply nth_error_In. exact Hn1.
      + subst res. exists None, n'. split; [reflexivity|]. split; [lia|reflexivity].
    - assert (Hj : (length root_items <= j)%nat) by (apply nth_error_None; exact Ej).
      destruct (Nat.ltb_spec j (length root_items)); [lia|].
      exists None, (n + 1). split; [reflexivity|]. split; [lia|reflexivity].
  Qed.

  (* the item under the deepest cursor of a positioned stack *)
  Lemma positioned_current st d g : positioned st d g ->
    last_current (rev st) = Done (nth_error (lseq d) g).
  Proof.
    intro H. assert (E : exists o c, st = (o, c) :: tl st /\ bc_current c = Done (nth_error (lseq d) g)).
    { destruct H as [o c g (b & es & ridx & E & H1 & H2 & H3) | o c up d gp pit j Hp Hn Hok (b & es & ridx & E & H1 & H2 & H3)].
      - exists o, c. split; [reflexivity|]. destruct (Hld _ _ _ _ E) as (_ & W & _).
        destruct c as [cb co]; cbn [bc_blk bc_off] in *; subst cb co.
        rewrite (bc_current_start b es ridx W g ltac:(lia)). cbn [lseq]. unfold root_items. rewrite E. reflexivity.
      - exists o, c. split; [reflexivity|]. destruct (Hld _ _ _ _ E) as (_ & W & _).
        destruct c as [cb co]; cbn [bc_blk bc_off] in *; subst cb co.
        rewrite (bc_current_start b es ridx W j ltac:(lia)). cbn [lseq].
        assert (Hk : kids pit = es) by (unfold kids; rewrite E; reflexivity).
        rewrite (nth_flat _ _ _ _ Hn) by (rewrite Hk; exact H3). rewrite Hk. reflexivity. }
    destruct E as (o & c & Est & Ecur). rewrite Est. unfold last_current. cbn [rev].
    assert (L : forall (l : list (N * bcur)) x, last_opt (l ++ [x]) = Some x) by (intros; apply last_opt_snoc).
    rewrite L. exact Ecur.
  Qed.

  (* ---- relative moves keep the cache coherent: a pair is moved inside its block or reloaded together
     with its recorded offset (the D2 repair) ---- *)
  Fixpoint coherent_df (st : list (N * bcur)) : Prop :=   (* deepest first *)
    match st with [] => True | p :: up => ok_pair (length up) p /\ coherent_df up end.

  Lemma coherent_df_rev lv : forall k, coherent k lv -> forall st, coherent_df st -> length st = k -> coherent_df (rev lv ++ st).
  Proof.
    induction lv as [|p rest IH]; intros k Hc st Hst Hl; cbn [rev app]; [exact Hst|].
    destruct Hc as [Hp Hrest]. rewrite <- app_assoc. cbn [app].
    apply (IH (S k) Hrest (p :: st)); [cbn [coherent_df]; split; [rewrite Hl; exact Hp|exact Hst] | cbn [length]; lia].
  Qed.

  Lemma coherent_of_df st : forall lv k, coherent_df st -> length st = k -> coherent k lv -> coherent 0 (rev st ++ lv).
  Proof.
    induction st as [|p up IH]; intros lv k Hst Hl Hlv; cbn [rev app].
    - cbn [length] in Hl. subst k. exact Hlv.
    - destruct Hst as [Hp Hup]. rewrite <- app_assoc. cbn [app]. cbn [length] in Hl.
      apply (IH (p :: lv) (length up) Hup eq_refl). cbn [coherent]. split; [exact Hp|]. rewrite Hl. exact Hlv.
  Qed.

  Lemma bc_move_blk m c c' r : bc_move m c = Done (c', r) -> bc_blk c' = bc_blk c.
  Proof.
    assert (Hcur : forall c0 r0 x, (do e <- bc_current c0; Done (c0, e)) = Done (x, r0) -> x = c0).
    { intros c0 r0 x H. destruct (bc_current c0); cbn [bind] in H; try discriminate. injection H as <- _. reflexivity. }
    assert (Hfirst : forall c0 c1 r0, bc_first c0 = Done (c1, r0) -> bc_blk c1 = bc_blk c0).
    { intros c0 c1 r0 H. unfold bc_first in H. apply Hcur in H. subst c1. reflexivity. }
    assert (Hnext : forall c0 c1 r0, bc_next c0 = Done (c1, r0) -> bc_blk c1 = bc_blk c0).
    { intros c0 c1 r0 H. unfold bc_next in H. destruct (bc_off c0) as [off|]; [|exact (Hfirst _ _ _ H)].
      destruct (entry_at (bc_blk c0) off) as [[[[k v] nx]|]| |]; cbn [bind] in H; try discriminate.
      - apply Hcur in H. subst c1. reflexivity.
      - injection H as <- _. reflexivity. }
    assert (Hlast : forall c0 c1 r0, bc_last c0 = Done (c1, r0) -> bc_blk c1 = bc_blk c0).
    { intros c0 c1 r0 H. unfold bc_last in H.
      match type of H with bind ?X _ = _ => destruct X as [cur| |]; cbn [bind] in H; try discriminate end.
      apply Hcur in H. subst c1. reflexivity. }
    assert (Hle : forall c0 q c1 r0, bc_le c0 q = Done (c1, r0) -> bc_blk c1 = bc_blk c0).
    { intros c0 q c1 r0 H. unfold bc_le in H.
      destruct (search_keys _ _ _ _) as [res| |]; cbn [bind] in H; try discriminate.
      match type of H with bind ?X _ = _ => destruct X as [cur| |]; cbn [bind] in H; try discriminate end.
      apply Hcur in H. subst c1. reflexivity. }
    destruct m as [| | | |q]; cbn [bc_move]; intro H.
    - exact (Hfirst _ _ _ H).
    - exact (Hlast _ _ _ H).
    - exact (Hnext _ _ _ H).
    - unfold bc_prev in H. destruct (bc_off c) as [cur|]; [|exact (Hlast _ _ _ H)].
      destruct (match search_offsets _ _ _ with inl i => i | inr i => i end =? 0); [injection H as <- _; reflexivity|].
      destruct (entry_at (bc_blk c) cur) as [[[[ck cv] nx]|]| |]; cbn [bind] in H; try discriminate.
      + destruct (nthN _ _) as [off0|]; [|discriminate].
        destruct (scan_while _ _ _ _ _) as [cur'| |]; cbn [bind] in H; try discriminate.
        apply Hcur in H. subst c'. reflexivity.
      + injection H as <- _. reflexivity.
    - unfold bc_ge in H. destruct (bc_le c q) as [[c1 e]| |] eqn:El; cbn [bind] in H; try discriminate.
      pose proof (Hle _ _ _ _ El) as H1. destruct e as [[k v]|].
      + destruct (bytes_eqb k q); [injection H as <- _; exact H1|]. rewrite <- H1. exact (Hnext _ _ _ H).
      + rewrite <- H1. exact (Hfirst _ _ _ H).
  Qed.

  Lemma rec_coherent m : forall st n st' r n', rec_rev ld m n st = Done (st', r, n') ->
    coherent_df st -> (forall it, r = Some it -> True) ->
    (forall k', (k' < length st)%nat -> Forall item_ok (lseq k')) ->
    coherent_df st' /\ length st' = length st.
  Proof.
    induction st as [|[o c] up IH]; intros n st' r n' H Hc _ Hitems; cbn [rec_rev] in H.
    - injection H as <- _ _. split; [exact I|reflexivity].
    - destruct Hc as [Hokp Hup].
      destruct (bc_move m c) as [[c1 e]| |] eqn:Em; cbn [bind] in H; try discriminate.
      pose proof (bc_move_blk m c c1 e Em) as Hb.
      destruct e as [kv|].
      + destruct (bc_current c1) as [e'| |]; cbn [bind] in H; try discriminate. injection H as <- _ _.
        split; [|reflexivity]. cbn [coherent_df]. split; [|exact Hup].
        destruct Hokp as [(b & es & ridx & E & Hbb)|Hh]; [left; exists b, es, ridx; cbn [fst snd] in *; rewrite Hb; auto | right; exact Hh].
      + destruct (rec_rev ld m n up) as [[[up' pe] n1]| |] eqn:Er; cbn [bind] in H; try discriminate.
        destruct (IH n up' pe n1 Er Hup ltac:(auto) ltac:(intros k' Hk'; apply Hitems; cbn [length]; lia)) as [IHc IHl].
        destruct pe as [[pk ob]|].
        * destruct (off_of_val ob) as [j| |] eqn:Eo; cbn [bind] in H; try discriminate.
          destruct (ld n1 j) as [b| |] eqn:Eld; cbn [bind] in H; try discriminate.
          destruct (bc_move m (bc_new b)) as [[c3 e3]| |] eqn:Em3; cbn [bind] in H; try discriminate.
          injection H as <- _ _. split; [|cbn [length]; lia]. cbn [coherent_df]. split; [|exact IHc].
          (* the reloaded pair: valid when the offset names a stored block, harmless otherwise *)
          destruct (bstore j) as [[[bj esj] rj]|] eqn:Ej.
          -- left. exists bj, esj, rj. cbn [fst snd]. split; [exact Ej|].
             destruct (Hld _ _ _ _ Ej) as (Hlj & _ & _). rewrite (Hlj n1) in Eld. injection Eld as <-.
             rewrite (bc_move_blk m (bc_new bj) c3 e3 Em3). reflexivity.
          -- (* not reachable on a well-formed store (item_ok), but coherence does not need it *)
             right. cbn [fst]. rewrite IHl. intro Hin.
             destruct (length up) as [|k'] eqn:Elu; cbn [offs] in Hin.
             ++ destruct Hin as [<-|[]]. rewrite Hroot in Ej. discriminate.
             ++ apply in_map_iff in Hin. destruct Hin as (it & Eit & Hit).
                pose proof (Hitems k' ltac:(cbn [length]; lia)) as F. rewrite Forall_forall in F.
                destruct (F it Hit) as [_ Hx]. rewrite Eit in Hx. congruence.
        * injection H as <- _ _. split; [|cbn [length]; lia]. cbn [coherent_df]. split; [|exact IHc].
          rewrite IHl.
          destruct Hokp as [(b & es & ridx & E & Hbb)|Hh]; [left; exists b, es, ridx; cbn [fst snd] in *; rewrite Hb; auto | right; exact Hh].
  Qed.

  (* ================= the ReaderCursor ================= *)
  Variable levels : N.
  Let D : nat := S (N.to_nat levels).
  Hypothesis Hitems_all : forall k, (k < D)%nat -> Forall item_ok (lseq k).
  Hypothesis Hdisj : forall k, (k < D)%nat -> forall it, In it (lseq k) -> ~ In (coff it) (offs k).

  Definition Coh (st : cstate) : Prop :=
    match cs_inner st with None => True | Some lv => length lv = D /\ coherent 0 lv end.
  Definition Pos (st : cstate) (i : nat) : Prop :=
    exists lv dc o, cs_inner st = Some lv /\ length lv = D /\ coherent 0 lv /\ cs_data st = Some dc /\
                    positioned ((o, dc) :: rev lv) D i.

  Lemma Pos_Coh st i : Pos st i -> Coh st.
  Proof. intros (lv & dc & o & E & Hl & Hc & _). unfold Coh. rewrite E. auto. Qed.

  (* one more level of the selected path *)
  Lemma sdesc_S m c k gp :
    sdesc m k gp (S c) = match nth_error (lseq k) gp with
                         | None => None
                         | Some pit => let j := sel m (kids pit) in
                                       if Nat.ltb j (length (kids pit)) then sdesc m (S k) (gstart (lseq k) gp + j) c else None
                         end.
  Proof. reflexivity. Qed.

  Lemma sdesc_snoc m : forall c k gp,
    sdesc m k gp (S c) =
    match sdesc m k gp c with
    | Some g => match nth_error (lseq (k + c)) g with
                | Some pit => let j := sel m (kids pit) in
                              if Nat.ltb j (length (kids pit)) then Some (gstart (lseq (k + c)) g + j)%nat else None
                | None => None
                end
    | None => None
    end.
  Proof.
    induction c as [|c IH]; intros k gp.
    - rewrite sdesc_S. cbn [sdesc]. replace (k + 0)%nat with k by lia. destruct (nth_error (lseq k) gp); [|reflexivity].
      cbv zeta. destruct (Nat.ltb _ _); reflexivity.
    - rewrite (sdesc_S m (S c) k gp). rewrite (sdesc_S m c k gp).
      destruct (nth_error (lseq k) gp) as [pit|]; [|reflexivity]. cbv zeta.
      destruct (Nat.ltb (sel m (kids pit)) (length (kids pit))); [|reflexivity].
      rewrite IH. replace (S k + c)%nat with (k + S c)%nat by lia. reflexivity.
  Qed.

  Lemma sroot_snoc m c : (0 < c)%nat ->
    sroot m (S c) =
    match sroot m c with
    | Some g => match nth_error (lseq (c - 1)) g with
                | Some pit => let j := sel m (kids pit) in
                              if Nat.ltb j (length (kids pit)) then Some (gstart (lseq (c - 1)) g + j)%nat else None
                | None => None
                end
    | None => None
    end.
  Proof.
    intro Hc. destruct c as [|c]; [lia|]. cbn [sroot]. cbv zeta.
    destruct (Nat.ltb (sel m root_items) (length root_items)); [|reflexivity].
    rewrite sdesc_snoc. cbn [plus]. replace (S c - 1)%nat with c by lia. reflexivity.
  Qed.

  (* the data-block step shared by first / last / seek *)
  Lemma data_step m : absmove m -> forall lv' g n,
    positioned (rev lv') (D - 1) g -> length lv' = D -> coherent 0 lv' ->
    exists pit, nth_error (lseq (D - 1)) g = Some pit /\
      last_current lv' = Done (Some pit) /\
      exists dc, (do r2 <- load_data ld (snd pit) n; let '(c, n') := r2 in do r3 <- bc_move m c; let '(c', e') := r3 in
                  Done (mk_cs (Some lv') (Some c') n', e'))
                 = Done (mk_cs (Some lv') (Some dc) (n + 1), nth_error (kids pit) (sel m (kids pit))) /\
        ((sel m (kids pit) < length (kids pit))%nat ->
         Pos (mk_cs (Some lv') (Some dc) (n + 1)) (gstart (lseq (D - 1)) g + sel m (kids pit)) /\
         nth_error (kids pit) (sel m (kids pit)) = nth_error (lseq D) (gstart (lseq (D - 1)) g + sel m (kids pit))).
  Proof.
    intros Hm lv' g n Hp Hlen Hcoh.
    pose proof (positioned_lt _ _ _ Hp) as Hg.
    destruct (nth_error (lseq (D - 1)) g) as [pit|] eqn:En; [|apply nth_error_None in En; lia].
    exists pit. split; [reflexivity|].
    pose proof (positioned_current _ _ _ Hp) as Hcur. rewrite rev_involutive, En in Hcur.
    split; [exact Hcur|].
    assert (Hok : item_ok pit).
    { pose proof (Hitems_all (D - 1)%nat ltac:(unfold D; lia)) as F. rewrite Forall_forall in F. apply F. eapply nth_error_In. exact En. }
    destruct (bstore (coff pit)) as [[[b es] ridx]|] eqn:E; [|destruct Hok as [_ Hx]; congruence].
    destruct (Hld _ _ _ _ E) as (Hl & W & Hnee).
    assert (Hk : kids pit = es) by (unfold kids; rewrite E; reflexivity).
    exists (mk_bcur b (Some (start es (sel m es)))).
    unfold load_data. rewrite (off_of_item pit Hok). cbn [bind]. rewrite (Hl n). cbn [bind].
    rewrite (abs_move m (bc_new b) (coff pit) b es ridx Hm E eq_refl). cbn [bind]. rewrite Hk.
    split; [reflexivity|]. intro Hj.
    assert (HD : D = S (D - 1)) by (unfold D; lia).
    split.
    - exists lv', (mk_bcur b (Some (start es (sel m es)))), 0. cbn [cs_inner cs_data].
      split; [reflexivity|]. split; [exact Hlen|]. split; [exact Hcoh|]. split; [reflexivity|].
      rewrite HD at 1. eapply pos_step; [exact Hp | exact En | exact Hok |]. exists b, es, ridx. auto.
    - rewrite HD at 1. cbn [lseq]. rewrite (nth_flat _ _ _ _ En) by (rewrite Hk; exact Hj). rewrite Hk. reflexivity.
  Qed.

  (* the three absolute operations share this shape; [keep] tells whether a failed index walk keeps
     the data cursor (seek) or clears it (first / last) *)
  Definition abs_op (m : mv) (keep : bool) (st : cstate) : outcome (cstate * option entry) :=
    do r <- idx_iter ld root levels m (cs_inner st) (cs_loads st);
    let '(inner, e, n) := r in
    match e with
    | Some (_, ob) =>
      do r2 <- load_data ld ob n;
      let '(c, n') := r2 in
      do r3 <- bc_move m c;
      let '(c', e') := r3 in
      Done (mk_cs inner (Some c') n', e')
    | None => Done (mk_cs inner (if keep then cs_data st else None) n, None)
    end.

  Lemma c_first_last_abs m st : c_first_last ld root levels m st = abs_op m false st.
  Proof. reflexivity. Qed.
  Lemma c_ge_abs q st : c_ge ld root levels q st = abs_op (MGe q) true st.
  Proof. reflexivity. Qed.

  Theorem abs_op_spec m keep st : absmove m -> Coh st ->
    exists st' r, abs_op m keep st = Done (st', r) /\
      cs_loads st <= cs_loads st' <= cs_loads st + N.of_nat (S D) /\
      match sroot m (S D) with
      | Some i => Pos st' i /\ r = nth_error (lseq D) i
      | None => r = None /\ Coh st'
      end.
  Proof.
    intros Hm Hcoh. unfold abs_op, idx_iter. fold D.
    assert (HD0 : (0 < D)%nat) by (unfold D; lia).
    rewrite (sroot_snoc m D HD0).
    destruct (cs_inner st) as [lv|] eqn:Ei.
    - unfold Coh in Hcoh. rewrite Ei in Hcoh. destruct Hcoh as [Hlen Hc].
      destruct (iter_root m Hm lv (cs_loads st) Hc ltac:(destruct lv; [cbn [length] in Hlen; lia|discriminate])
                  ltac:(intros k' Hk'; apply Hitems_all; lia)) as (lv' & n' & ok & Er & Hn' & Hlen' & Hres).
      rewrite Er. cbn [bind]. rewrite Hlen in *.
      destruct (sroot m D) as [g|].
      + destruct Hres as (-> & Hp & Hv).
        destruct (data_step m Hm lv' g n' Hp ltac:(lia) (all_valid_coherent lv' 0 Hv)) as (pit & En & Hcur & dc & Ed & Hsel).
        rewrite Hcur. cbn [bind]. destruct pit as [pk ob]. cbn [snd] in Ed. rewrite Ed. rewrite En. cbv zeta.
        eexists _, _. split; [reflexivity|]. cbn [cs_loads]. split; [lia|].
        destruct (Nat.ltb_spec (sel m (kids (pk, ob))) (length (kids (pk, ob)))) as [Hj|Hj].
        * destruct (Hsel Hj) as [A B]. split; [exact A|exact B].
        * split; [apply nth_error_None; exact Hj|]. unfold Coh. cbn [cs_inner]. split; [lia|apply all_valid_coherent; exact Hv].
      + destruct Hres as (-> & Hc'). cbn [bind]. eexists _, _. split; [reflexivity|]. cbn [cs_loads]. split; [lia|].
        split; [reflexivity|]. unfold Coh. cbn [cs_inner]. split; [lia|exact Hc'].
    - destruct (init_root m Hm D (cs_loads st) HD0 Hitems_all Hdisj) as (res & n' & Er & Hn' & Hres).
      unfold depth. fold D. rewrite Er. cbn [bind].
      destruct (sroot m D) as [g|].
      + destruct Hres as (lv' & -> & Hlen' & Hp & Hc').
        destruct (data_step m Hm lv' g n' Hp Hlen' Hc') as (pit & En & Hcur & dc & Ed & Hsel).
        rewrite Hcur. cbn [bind]. destruct pit as [pk ob]. cbn [snd] in Ed. rewrite Ed. rewrite En. cbv zeta.
        eexists _, _. split; [reflexivity|]. cbn [cs_loads]. split; [lia|].
        destruct (Nat.ltb_spec (sel m (kids (pk, ob))) (length (kids (pk, ob)))) as [Hj|Hj].
        * destruct (Hsel Hj) as [A B]. split; [exact A|exact B].
        * split; [apply nth_error_None; exact Hj|]. unfold Coh. cbn [cs_inner]. split; [exact Hlen'|exact Hc'].
      + subst res. cbn [bind]. eexists _, _. split; [reflexivity|]. cbn [cs_loads]. split; [lia|].
        split; [reflexivity|]. unfold Coh. cbn [cs_inner]. exact I.
  Qed.

  Lemma positioned_length st d g : positioned st d g -> length st = S d.
  Proof. induction 1 as [| o c up d gp pit j Hp IH]; cbn [length]; [reflexivity|]. rewrite IH. reflexivity. Qed.

  Lemma positioned_inv o c up d g : positioned ((o, c) :: up) (S d) g ->
    exists gp pit j, positioned up d gp /\ nth_error (lseq d) gp = Some pit /\ item_ok pit /\
                     cursor_at c (coff pit) j /\ g = (gstart (lseq d) gp + j)%nat.
  Proof.
    intro H. inversion H as [|o' c' up' d' gp pit j Hp Hn Hok Hc]; subst.
    exists gp, pit, j. split; [exact Hp|]. split; [exact Hn|]. split; [exact Hok|]. split; [exact Hc|reflexivity].
  Qed.

  Lemma coherent_rev_stack lv stk n r n' m :
    coherent 0 lv -> rec_rev ld m n (rev lv) = Done (stk, r, n') -> length lv = D ->
    coherent 0 (rev stk) /\ length stk = D.
  Proof.
    intros Hc Hr Hl.
    assert (Hdf : coherent_df (rev lv)).
    { pose proof (coherent_df_rev lv 0 Hc [] I eq_refl) as H. rewrite app_nil_r in H. exact H. }
    destruct (rec_coherent m (rev lv) n stk r n' Hr Hdf ltac:(auto)
                ltac:(intros k' Hk'; apply Hitems_all; rewrite rev_length in Hk'; lia)) as [A B].
    rewrite rev_length in B. split; [|lia].
    pose proof (coherent_of_df stk [] (length stk) A eq_refl I) as H. rewrite app_nil_r in H. exact H.
  Qed.

  Theorem c_next_spec st i : Pos st i ->
    exists st' r, c_next_prev ld root levels MNext st = Done (st', r) /\
      cs_loads st <= cs_loads st' <= cs_loads st + N.of_nat (S D) /\
      if Nat.ltb (S i) (length (lseq D))
      then Pos st' (S i) /\ r = nth_error (lseq D) (S i)
      else r = None /\ Coh st'.
  Proof.
    intros (lv & dc & o & Ei & Hlen & Hcoh & Ed & Hp).
    assert (HD : D = S (D - 1)) by (unfold D; lia).
    rewrite HD in Hp. apply positioned_inv in Hp. destruct Hp as (gp & pit & j & Hup & Hn & Hok & Hc & Hi).
    destruct Hc as (b & es & ridx & E & H1 & H2 & H3).
    assert (Hcat : cursor_at dc (coff pit) j) by (exists b, es, ridx; auto).
    assert (Hk : kids pit = es) by (unfold kids; rewrite E; reflexivity).
    destruct (Hld _ _ _ _ E) as (_ & W & _).
    pose proof (gstart_bound _ _ _ Hn) as Hm. rewrite Hk in Hm.
    unfold c_next_prev. rewrite Ed. rewrite (move_next_at dc (coff pit) j b es ridx E Hcat). cbn [bind].
    assert (HlD : lseq D = flat_map kids (lseq (D - 1))) by (rewrite HD at 1; reflexivity).
    destruct (nth_error es (S j)) as [kv|] eqn:En.
    - (* inside the data block *)
      assert (Hs : (S j < length es)%nat) by (apply nth_error_Some; congruence).
      eexists _, _. split; [reflexivity|]. cbn [cs_loads]. split; [lia|].
      rewrite HlD. destruct (Nat.ltb_spec (S i) (length (flat_map kids (lseq (D - 1))))); [|lia].
      split.
      + exists lv, (mk_bcur b (Some (start es (S j)))), o. cbn [cs_inner cs_data]. rewrite Ei.
        split; [reflexivity|]. split; [exact Hlen|]. split; [exact Hcoh|]. split; [reflexivity|].
        rewrite HD at 1. replace (S i) with (gstart (lseq (D - 1)) gp + S j)%nat by lia.
        eapply pos_step; [exact Hup | exact Hn | exact Hok | apply (cursor_at_next (coff pit) j b es ridx E Hs)].
      + replace (S i) with (gstart (lseq (D - 1)) gp + S j)%nat by lia.
        rewrite (nth_flat _ _ _ _ Hn) by (rewrite Hk; lia). rewrite Hk. first [reflexivity | exact En | (symmetry; exact En)].
    - (* the data block is exhausted: ask the index *)
      assert (Hlast : S j = length es) by (apply nth_error_None in En; lia).
      unfold idx_rec. rewrite Ei. cbn [bind].
      destruct (rec_next_spec (rev lv) (D - 1) gp Hup ltac:(intros k Hk'; apply Hitems_all; lia) (cs_loads st))
        as (stk & r2 & n2 & Er & Hn2 & Hres).
      rewrite Er. cbn [bind].
      destruct (coherent_rev_stack lv stk _ _ _ MNext Hcoh Er Hlen) as [Hcoh' Hlen'].
      assert (Hg1 : S i = gstart (lseq (D - 1)) (S gp)) by (rewrite (gstart_S _ _ _ Hn), Hk; lia).
      destruct (Nat.ltb_spec (S gp) (length (lseq (D - 1)))) as [Hgp|Hgp].
      + destruct Hres as [Hp2 Hr2].
        destruct (nth_error (lseq (D - 1)) (S gp)) as [pit2|] eqn:E2; [|apply nth_error_None in E2; lia].
        subst r2.
        assert (Hok2 : item_ok pit2).
        { pose proof (Hitems_all (D - 1)%nat ltac:(lia)) as F. rewrite Forall_forall in F. apply F. eapply nth_error_In. exact E2. }
        destruct pit2 as [k2 ob2]. unfold load_data.
        pose proof (off_of_item (k2, ob2) Hok2) as Ho2. cbn [snd] in Ho2. rewrite Ho2. cbn [bind].
        destruct (bstore (coff (k2, ob2))) as [[[b2 es2] ridx2]|] eqn:Eb2; [|destruct Hok2 as [_ Hx]; congruence].
        destruct (Hld _ _ _ _ Eb2) as (Hl2 & W2 & Hne2).
        rewrite (Hl2 n2). cbn [bind bc_move]. unfold bc_new. rewrite (bc_first_spec b2 es2 ridx2 W2 None). cbn [bind].
        eexists _, _. split; [reflexivity|]. cbn [cs_loads]. split; [lia|].
        assert (Hk2 : kids (k2, ob2) = es2) by (unfold kids; rewrite Eb2; reflexivity).
        pose proof (gstart_bound _ _ _ E2) as Hm2. rewrite Hk2 in Hm2.
        assert (Hl0 : (0 < length es2)%nat) by (destruct es2; [congruence|cbn [length]; lia]).
        rewrite HlD. destruct (Nat.ltb_spec (S i) (length (flat_map kids (lseq (D - 1))))); [|lia].
        split.
        * exists (rev stk), (mk_bcur b2 (Some (start es2 0))), 0. cbn [cs_inner cs_data].
          split; [reflexivity|]. split; [rewrite rev_length; exact Hlen'|]. split; [exact Hcoh'|]. split; [reflexivity|].
          rewrite rev_involutive. rewrite HD at 1. rewrite Hg1.
          replace (gstart (lseq (D - 1)) (S gp)) with (gstart (lseq (D - 1)) (S gp) + 0)%nat by lia.
          eapply pos_step; [exact Hp2 | exact E2 | exact Hok2 |]. exists b2, es2, ridx2. auto.
        * rewrite Hg1. replace (gstart (lseq (D - 1)) (S gp)) with (gstart (lseq (D - 1)) (S gp) + 0)%nat by lia.
          rewrite (nth_flat _ _ _ _ E2) by (rewrite Hk2; lia). rewrite Hk2. reflexivity.
      + destruct Hres as [Hr2 _]. subst r2.
        eexists _, _. split; [reflexivity|]. cbn [cs_loads]. split; [lia|].
        assert (length (lseq (D - 1)) = S gp) by (pose proof (positioned_lt _ _ _ Hup); lia).
        assert (S i = length (flat_map kids (lseq (D - 1)))) by (rewrite Hg1, <- gstart_all; congruence).
        rewrite HlD. destruct (Nat.ltb_spec (S i) (length (flat_map kids (lseq (D - 1))))); [lia|].
        split; [reflexivity|]. unfold Coh. cbn [cs_inner]. split; [rewrite rev_length; exact Hlen'|exact Hcoh'].
  Qed.

  Theorem c_prev_spec st i : Pos st i ->
    exists st' r, c_next_prev ld root levels MPrev st = Done (st', r) /\
      cs_loads st <= cs_loads st' <= cs_loads st + N.of_nat (S D) /\
      if Nat.ltb 0 i
      then Pos st' (i - 1) /\ r = nth_error (lseq D) (i - 1)
      else r = None /\ Coh st' /\ cs_data st' = cs_data st.
  Proof.
    intros (lv & dc & o & Ei & Hlen & Hcoh & Ed & Hp).
    assert (HD : D = S (D - 1)) by (unfold D; lia).
    rewrite HD in Hp. apply positioned_inv in Hp. destruct Hp as (gp & pit & j & Hup & Hn & Hok & Hc & Hi).
    destruct Hc as (b & es & ridx & E & H1 & H2 & H3).
    assert (Hcat : cursor_at dc (coff pit) j) by (exists b, es, ridx; auto).
    assert (Hk : kids pit = es) by (unfold kids; rewrite E; reflexivity).
    destruct (Hld _ _ _ _ E) as (_ & W & _).
    unfold c_next_prev. rewrite Ed. rewrite (move_prev_at dc (coff pit) j b es ridx E Hcat).
    assert (HlD : lseq D = flat_map kids (lseq (D - 1))) by (rewrite HD at 1; reflexivity).
    destruct (Nat.eqb_spec j 0) as [Hj0|Hj0]; cbn [bind].
    - (* first entry of the data block: ask the index *)
      unfold idx_rec. rewrite Ei. cbn [bind].
      destruct (rec_prev_spec (rev lv) (D - 1) gp Hup ltac:(intros k Hk'; apply Hitems_all; lia) (cs_loads st))
        as (stk & r2 & n2 & Er & Hn2 & Hres).
      rewrite Er. cbn [bind].
      destruct (coherent_rev_stack lv stk _ _ _ MPrev Hcoh Er Hlen) as [Hcoh' Hlen'].
      assert (Hg0 : i = gstart (lseq (D - 1)) gp) by lia.
      destruct (Nat.ltb_spec 0 gp) as [Hgp|Hgp].
      + destruct Hres as [Hp2 Hr2].
        destruct (nth_error (lseq (D - 1)) (gp - 1)) as [pit2|] eqn:E2.
        2:{ apply nth_error_None in E2. pose proof (positioned_lt _ _ _ Hup). lia. }
        subst r2.
        assert (Hok2 : item_ok pit2).
        { pose proof (Hitems_all (D - 1)%nat ltac:(lia)) as F. rewrite Forall_forall in F. apply F. eapply nth_error_In. exact E2. }
        destruct pit2 as [k2 ob2]. unfold load_data.
        pose proof (off_of_item (k2, ob2) Hok2) as Ho2. cbn [snd] in Ho2. rewrite Ho2. cbn [bind].
        destruct (bstore (coff (k2, ob2))) as [[[b2 es2] ridx2]|] eqn:Eb2; [|destruct Hok2 as [_ Hx]; congruence].
        destruct (Hld _ _ _ _ Eb2) as (Hl2 & W2 & Hne2).
        assert (Hl0 : (0 < length es2)%nat) by (destruct es2; [congruence|cbn [length]; lia]).
        rewrite (Hl2 n2). cbn [bind bc_move]. unfold bc_new. rewrite (bc_last_spec b2 es2 ridx2 W2 None Hl0). cbn [bind].
        eexists _, _. split; [reflexivity|]. cbn [cs_loads]. split; [lia|].
        assert (Hk2 : kids (k2, ob2) = es2) by (unfold kids; rewrite Eb2; reflexivity).
        pose proof (gstart_S (lseq (D - 1)) (gp - 1) (k2, ob2) E2) as HS. replace (S (gp - 1)) with gp in HS by lia. rewrite Hk2 in HS.
        destruct (Nat.ltb_spec 0 i); [|lia].
        assert (Hgm : (i - 1 = gstart (lseq (D - 1)) (gp - 1) + (length es2 - 1))%nat) by lia.
        split.
        * exists (rev stk), (mk_bcur b2 (Some (start es2 (length es2 - 1)))), 0. cbn [cs_inner cs_data].
          split; [reflexivity|]. split; [rewrite rev_length; exact Hlen'|]. split; [exact Hcoh'|]. split; [reflexivity|].
          rewrite rev_involutive. rewrite HD at 1. rewrite Hgm.
          eapply pos_step; [exact Hp2 | exact E2 | exact Hok2 |]. exists b2, es2, ridx2. repeat split; auto. lia.
        * rewrite HlD, Hgm. rewrite (nth_flat _ _ _ _ E2) by (rewrite Hk2; lia). rewrite Hk2. reflexivity.
      + destruct Hres as [Hr2 _]. subst r2.
        eexists _, _. split; [reflexivity|]. cbn [cs_loads]. split; [lia|].
        assert (gp = 0%nat) by lia. subst gp. rewrite gstart_0 in Hg0.
        destruct (Nat.ltb_spec 0 i); [lia|].
        split; [reflexivity|]. split; [unfold Coh; cbn [cs_inner]; split; [rewrite rev_length; exact Hlen'|exact Hcoh']|].
        cbn [cs_data]. first [reflexivity | symmetry; exact Ed].
    - (* inside the data block *)
      destruct (nth_error es (j - 1)) as [kv|] eqn:En; [|apply nth_error_None in En; lia].
      eexists _, _. split; [reflexivity|]. cbn [cs_loads]. split; [lia|].
      destruct (Nat.ltb_spec 0 i); [|lia].
      assert (Hgm : (i - 1 = gstart (lseq (D - 1)) gp + (j - 1))%nat) by lia.
      split.
      + exists lv, (mk_bcur b (Some (start es (j - 1)))), o. cbn [cs_inner cs_data]. rewrite Ei.
        split; [reflexivity|]. split; [exact Hlen|]. split; [exact Hcoh|]. split; [reflexivity|].
        rewrite HD at 1. rewrite Hgm. eapply pos_step; [exact Hup | exact Hn | exact Hok |]. exists b, es, ridx. repeat split; auto. lia.
      + rewrite HlD, Hgm. rewrite (nth_flat _ _ _ _ Hn) by (rewrite Hk; lia). rewrite Hk. first [reflexivity | exact En | (symmetry; exact En)].
  Qed.

  (* ================= the selected paths of first / last ================= *)
  Lemma lseq_nonempty k : (k <= D)%nat -> lseq k <> [].
  Proof.
    induction k as [|k IH]; intro Hk.
    - cbn [lseq]. destruct (Hld _ _ _ _ Hroot) as (_ & _ & Hne). exact Hne.
    - cbn [lseq]. specialize (IH ltac:(lia)). destruct (lseq k) as [|it l] eqn:E; [congruence|].
      cbn [flat_map]. pose proof (Hitems_all k ltac:(lia)) as F. rewrite E in F. inversion F as [|? ? Hit _]; subst.
      pose proof (kids_pos it Hit). destruct (kids it); [cbn [length] in *; lia|discriminate].
  Qed.

  Lemma sdesc_first : forall c k, (k + c <= D)%nat -> sdesc MFirst k 0 c = Some 0%nat.
  Proof.
    induction c as [|c IH]; intros k Hk; [reflexivity|].
    rewrite sdesc_S. pose proof (lseq_nonempty k ltac:(lia)) as Hne.
    destruct (lseq k) as [|it l] eqn:E; [congruence|]. cbn [nth_error]. cbv zeta. cbn [sel].
    pose proof (Hitems_all k ltac:(lia)) as F. rewrite E in F. inversion F as [|? ? Hit _]; subst.
    pose proof (kids_pos it Hit) as Hp. destruct (Nat.ltb_spec 0 (length (kids it))); [|lia].
    rewrite <- E. rewrite gstart_0. cbn [plus]. apply IH. lia.
  Qed.

  Lemma sroot_first : sroot MFirst (S D) = Some 0%nat.
  Proof.
    cbn [sroot sel]. cbv zeta. pose proof (lseq_nonempty 0 ltac:(lia)) as Hne. cbn [lseq] in Hne.
    destruct (Nat.ltb_spec 0 (length root_items)); [|destruct root_items; [congruence|cbn [length] in *; lia]].
    apply sdesc_first. lia.
  Qed.

  Lemma sdesc_last : forall c k, (k + c <= D)%nat ->
    sdesc MLast k (length (lseq k) - 1) c = Some (length (lseq (k + c)) - 1)%nat.
  Proof.
    induction c as [|c IH]; intros k Hk; [replace (k + 0)%nat with k by lia; reflexivity|].
    rewrite sdesc_S. pose proof (lseq_nonempty k ltac:(lia)) as Hne.
    assert (Hl : (0 < length (lseq k))%nat) by (destruct (lseq k); [congruence|cbn [length]; lia]).
    destruct (nth_error (lseq k) (length (lseq k) - 1)) as [pit|] eqn:E; [|apply nth_error_None in E; lia].
    cbv zeta. cbn [sel].
    assert (Hit : item_ok pit).
    { pose proof (Hitems_all k ltac:(lia)) as F. rewrite Forall_forall in F. apply F. eapply nth_error_In. exact E. }
    pose proof (kids_pos pit Hit) as Hp. destruct (Nat.ltb_spec (length (kids pit) - 1) (length (kids pit))); [|lia].
    pose proof (gstart_S (lseq k) (length (lseq k) - 1) pit E) as HS.
    replace (S (length (lseq k) - 1)) with (length (lseq k)) in HS by lia. rewrite gstart_all in HS.
    replace (gstart (lseq k) (length (lseq k) - 1) + (length (kids pit) - 1))%nat with (length (lseq (S k)) - 1)%nat
      by (cbn [lseq]; lia).
    rewrite (IH (S k) ltac:(lia)). replace (S k + c)%nat with (k + S c)%nat by lia. reflexivity.
  Qed.

  Lemma sroot_last : sroot MLast (S D) = Some (length (lseq D) - 1)%nat.
  Proof.
    cbn [sroot sel]. cbv zeta. pose proof (lseq_nonempty 0 ltac:(lia)) as Hne. cbn [lseq] in Hne.
    assert (Hl : (0 < length root_items)%nat) by (destruct root_items; [congruence|cbn [length]; lia]).
    destruct (Nat.ltb_spec (length root_items - 1) (length root_items)); [|lia].
    change root_items with (lseq 0). rewrite (sdesc_last D 0 ltac:(lia)). reflexivity.
  Qed.

  (* ================= refinement of the abstract cursor (operations that take no key) ================= *)
  Definition es_all : list entry := lseq D.

  Definition Rel (p : apos) (st : cstate) : Prop :=
    match p with
    | Fresh => cs_inner st = None /\ cs_data st = None
    | At i => Pos st (N.to_nat i)
    | Unspec => Coh st
    end.

  Lemma Rel_Coh p st : Rel p st -> Coh st.
  Proof. destruct p; cbn [Rel]; [intros [E _]; unfold Coh; rewrite E; exact I | apply Pos_Coh | auto]. Qed.

  Definition res_ok (spec : option (option entry)) (r : option entry) : Prop :=
    match spec with Some x => r = x | None => True end.

  Lemma nthN_nat (l : list entry) i : nthN (N.of_nat i) l = nth_error l i.
  Proof. rewrite nthN_nth_error, Nat2N.id. reflexivity. Qed.

  Lemma es_first : match es_all with e :: _ => Some (0, e) | [] => None end =
                   match nth_error es_all 0 with Some e => Some (0, e) | None => None end.
  Proof. destruct es_all; reflexivity. Qed.

  Lemma last_opt_nth {A} (l : list A) : last_opt l = nth_error l (length l - 1).
  Proof.
    induction l as [|x l IH]; [reflexivity|]. cbn [last_opt]. destruct l as [|y l]; [reflexivity|].
    rewrite IH. cbn [length]. replace (S (S (length l)) - 1)%nat with (S (S (length l) - 1)) by lia. reflexivity.
  Qed.

  Theorem first_refines p st : Rel p st ->
    exists st' r, cstep ld root levels st OFirst = Done (st', r) /\
      Rel (fst (aspec es_all p OFirst)) st' /\ res_ok (snd (aspec es_all p OFirst)) r /\
      cs_loads st' <= cs_loads st + N.of_nat (S D).
  Proof.
    intro HR. cbn [cstep]. rewrite c_first_last_abs.
    destruct (abs_op_spec MFirst false st abs_first (Rel_Coh p st HR)) as (st' & r & E & Hn & Hres).
    rewrite sroot_first in Hres. destruct Hres as [Hp Hr]. exists st', r. split; [exact E|].
    cbn [aspec]. pose proof (lseq_nonempty D ltac:(lia)) as Hne. fold es_all in Hne.
    destruct es_all as [|e0 es'] eqn:Ees; [congruence|]. cbn [at_result fst snd Rel res_ok].
    split; [exact Hp|]. split; [|lia]. rewrite Hr. fold es_all. rewrite Ees. reflexivity.
  Qed.

  Theorem last_refines p st : Rel p st ->
    exists st' r, cstep ld root levels st OLast = Done (st', r) /\
      Rel (fst (aspec es_all p OLast)) st' /\ res_ok (snd (aspec es_all p OLast)) r /\
      cs_loads st' <= cs_loads st + N.of_nat (S D).
  Proof.
    intro HR. cbn [cstep]. rewrite c_first_last_abs.
    destruct (abs_op_spec MLast false st abs_last (Rel_Coh p st HR)) as (st' & r & E & Hn & Hres).
    rewrite sroot_last in Hres. destruct Hres as [Hp Hr]. exists st', r. split; [exact E|].
    cbn [aspec]. pose proof (lseq_nonempty D ltac:(lia)) as Hne. fold es_all in Hne, Hp, Hr.
    rewrite last_opt_nth.
    assert (Hl : (0 < length es_all)%nat) by (destruct es_all; [congruence|cbn [length]; lia]).
    destruct (nth_error es_all (length es_all - 1)) as [e|] eqn:En; [|apply nth_error_None in En; lia].
    cbn [at_result fst snd Rel res_ok]. rewrite len_length.
    replace (N.to_nat (N.of_nat (length es_all) - 1)) with (length es_all - 1)%nat by lia.
    split; [exact Hp|]. split; [exact Hr|lia].
  Qed.

  Theorem next_refines p st : Rel p st -> p <> Unspec ->
    exists st' r, cstep ld root levels st ONext = Done (st', r) /\
      Rel (fst (aspec es_all p ONext)) st' /\ res_ok (snd (aspec es_all p ONext)) r /\
      cs_loads st' <= cs_loads st + N.of_nat (S D).
  Proof.
    intros HR Hp. destruct p as [|i|]; [| |congruence].
    - (* never positioned: next is first *)
      destruct HR as [Ei Ed]. cbn [cstep]. unfold c_next_prev. rewrite Ed.
      destruct (first_refines Fresh st (conj Ei Ed)) as (st' & r & E & A & B & C).
      cbn [cstep] in E. exists st', r. split; [exact E|]. cbn [aspec] in *. auto.
    - cbn [Rel] in HR. cbn [cstep].
      destruct (c_next_spec st (N.to_nat i) HR) as (st' & r & E & Hn & Hres).
      exists st', r. split; [exact E|]. cbn [aspec]. fold es_all in Hres.
      replace (i + 1) with (N.of_nat (S (N.to_nat i))) by lia. rewrite nthN_nat.
      destruct (Nat.ltb_spec (S (N.to_nat i)) (length es_all)) as [Hlt|Hge].
      + destruct Hres as [Hp' Hr]. destruct (nth_error es_all (S (N.to_nat i))) as [e|] eqn:En; [|apply nth_error_None in En; lia].
        cbn [at_result fst snd Rel res_ok]. rewrite Nat2N.id. split; [exact Hp'|]. split; [exact Hr|lia].
      + destruct Hres as [Hr Hc]. assert (En : nth_error es_all (S (N.to_nat i)) = None) by (apply nth_error_None; lia).
        rewrite En. cbn [at_result fst snd Rel res_ok]. split; [exact Hc|]. split; [exact Hr|lia].
  Qed.

  Theorem prev_refines p st : Rel p st -> p <> Unspec ->
    exists st' r, cstep ld root levels st OPrev = Done (st', r) /\
      Rel (fst (aspec es_all p OPrev)) st' /\ res_ok (snd (aspec es_all p OPrev)) r /\
      cs_loads st' <= cs_loads st + N.of_nat (S D).
  Proof.
    intros HR Hp. destruct p as [|i|]; [| |congruence].
    - destruct HR as [Ei Ed]. cbn [cstep]. unfold c_next_prev. rewrite Ed.
      destruct (last_refines Fresh st (conj Ei Ed)) as (st' & r & E & A & B & C).
      cbn [cstep] in E. exists st', r. split; [exact E|]. cbn [aspec] in *. auto.
    - cbn [Rel] in HR. cbn [cstep].
      destruct (c_prev_spec st (N.to_nat i) HR) as (st' & r & E & Hn & Hres).
      exists st', r. split; [exact E|]. cbn [aspec]. fold es_all in Hres.
      destruct (N.eqb_spec i 0) as [->|Hi].
      + cbn [N.to_nat Nat.ltb Nat.leb] in Hres. destruct Hres as [Hr [Hc _]].
        cbn [at_result fst snd Rel res_ok]. split; [exact Hc|]. split; [exact Hr|lia].
      + destruct (Nat.ltb_spec 0 (N.to_nat i)); [|lia]. destruct Hres as [Hp' Hr].
        replace (i - 1) with (N.of_nat (N.to_nat i - 1)) by lia. rewrite nthN_nat.
        destruct HR as (lv & dc & o & _ & _ & _ & _ & Hpos). pose proof (positioned_lt _ _ _ Hpos) as Hlt. fold es_all in Hlt.
        destruct (nth_error es_all (N.to_nat i - 1)) as [e|] eqn:En; [|apply nth_error_None in En; lia].
        cbn [at_result fst snd Rel res_ok]. rewrite Nat2N.id. split; [exact Hp'|]. split; [exact Hr|lia].
  Qed.

  Theorem reset_refines p st : Rel p st ->
    exists st' r, cstep ld root levels st OReset = Done (st', r) /\
      Rel (fst (aspec es_all p OReset)) st' /\ res_ok (snd (aspec es_all p OReset)) r /\ cs_loads st' = cs_loads st.
  Proof. intros _. cbn [cstep]. eexists _, _. split; [reflexivity|]. cbn [aspec fst snd Rel res_ok cs_inner cs_data cs_loads]. auto. Qed.

  Theorem current_refines p st : Rel p st -> p <> Unspec ->
    exists st' r, cstep ld root levels st OCurrent = Done (st', r) /\
      Rel (fst (aspec es_all p OCurrent)) st' /\ res_ok (snd (aspec es_all p OCurrent)) r /\ cs_loads st' = cs_loads st.
  Proof.
    intros HR Hp. destruct p as [|i|]; [| |congruence]; cbn [cstep]; unfold c_current.
    - destruct HR as [Ei Ed]. rewrite Ed. cbn [bind]. eexists _, _. split; [reflexivity|].
      cbn [aspec fst snd Rel res_ok]. auto.
    - pose proof HR as (lv & dc & o & Ei & Hlen & Hcoh & Ed & Hpos). rewrite Ed.
      pose proof (positioned_current _ _ _ Hpos) as Hcur. cbn [rev] in Hcur.
      unfold last_current in Hcur. rewrite last_opt_snoc in Hcur. rewrite Hcur. cbn [bind].
      eexists _, _. split; [reflexivity|]. cbn [aspec fst snd Rel res_ok].
      split; [exact HR|]. split; [|reflexivity]. fold es_all. rewrite <- (N2Nat.id i) at 2. rewrite nthN_nat. reflexivity.
  Qed.

  (* ================= seeks: the ceiling through the index ================= *)
  (* keys: every level sequence is strictly ascending, every index item carries the last key of the
     block it points to *)
  Hypothesis Hsorted : forall k, (k <= D)%nat -> sorted_strictb (map fst (lseq k)) = true.
  Hypothesis Hlastkey : forall k g it, (k < D)%nat -> nth_error (lseq k) g = Some it ->
    option_map fst (last_opt (kids it)) = Some (fst it).

  Lemma sorted_nth_le (l : list entry) : sorted_strictb (map fst l) = true ->
    forall p q kp vp kq vq, (p <= q)%nat -> nth_error l p = Some (kp, vp) -> nth_error l q = Some (kq, vq) ->
    bytes_leb kp kq = true.
  Proof.
    intros Hs p q kp vp kq vq Hpq Ep Eq. destruct (Nat.eq_dec p q) as [->|Hne].
    - rewrite Ep in Eq. injection Eq as <- <-. rewrite bytes_leb_ltb, bytes_ltb_irrefl. reflexivity.
    - pose proof (sorted_nth_lt l Hs p q kp vp kq vq ltac:(lia) Ep Eq) as H. rewrite bytes_leb_ltb, (ltb_asym _ _ H). reflexivity.
  Qed.

  Lemma leb_trans_lt q a b : bytes_leb a b = true -> bytes_leb q b = false -> bytes_leb q a = false.
  Proof.
    intros Hab Hqb. rewrite bytes_leb_ltb in *. apply Bool.negb_false_iff in Hqb. apply Bool.negb_true_iff in Hab.
    apply Bool.negb_false_iff. destruct (bytes_total a b) as [H|[H|H]]; [|subst; exact Hqb|congruence].
    exact (bytes_ltb_trans a b q H Hqb).
  Qed.

  (* the last entry of group g sits at global index gstart (S g) - 1 and carries the item's key *)
  Lemma group_last k g it : (k < D)%nat -> nth_error (lseq k) g = Some it ->
    exists v, nth_error (lseq (S k)) (gstart (lseq k) (S g) - 1) = Some (fst it, v) /\ (gstart (lseq k) g < gstart (lseq k) (S g))%nat.
  Proof.
    intros Hk Hn.
    assert (Hok : item_ok it) by (pose proof (Hitems_all k Hk) as F; rewrite Forall_forall in F; apply F; eapply nth_error_In; exact Hn).
    pose proof (kids_pos it Hok) as Hp. pose proof (gstart_S _ _ _ Hn) as HS.
    pose proof (Hlastkey k g it Hk Hn) as Hl. rewrite last_opt_nth in Hl.
    destruct (nth_error (kids it) (length (kids it) - 1)) as [[lk lv]|] eqn:El; [|discriminate].
    cbn [option_map fst] in Hl. injection Hl as ->.
    exists lv. split; [|lia].
    replace (gstart (lseq k) (S g) - 1)%nat with (gstart (lseq k) g + (length (kids it) - 1))%nat by lia.
    cbn [lseq]. rewrite (nth_flat _ _ _ _ Hn) by lia. exact El.
  Qed.

  Lemma ceil_level q k : (k < D)%nat ->
    let l := lseq k in let g := fs_ge q l 0 in
    match nth_error l g with
    | Some pit => (ceil_pos (kids pit) q < length (kids pit))%nat /\
                  fs_ge q (lseq (S k)) 0 = (gstart l g + ceil_pos (kids pit) q)%nat
    | None => fs_ge q (lseq (S k)) 0 = length (lseq (S k))
    end.
  Proof.
    intro Hk. cbv zeta. set (l := lseq k). set (g := fs_ge q l 0).
    pose proof (first_stop_props (fun kk => bytes_leb q kk) l) as (G1 & G2 & G3). cbv zeta in G1, G2, G3. fold (fs_ge q l 0) in G1, G2, G3. fold g in G1, G2, G3.
    pose proof (Hsorted (S k) ltac:(lia)) as HsS.
    destruct (nth_error l g) as [pit|] eqn:Eg.
    - assert (Hok : item_ok pit) by (pose proof (Hitems_all k Hk) as F; rewrite Forall_forall in F; apply F; eapply nth_error_In; exact Eg).
      destruct pit as [pk pv]. pose proof (G3 pk pv eq_refl) as Hge.
      destruct (group_last k g (pk, pv) Hk Eg) as (lv & Elast & Hlt). cbn [fst] in Elast.
      pose proof (first_stop_props (fun kk => bytes_leb q kk) (kids (pk, pv))) as (K1 & K2 & K3). cbv zeta in K1, K2, K3.
      fold (fs_ge q (kids (pk, pv)) 0) in K1, K2, K3. fold (ceil_pos (kids (pk, pv)) q) in K1, K2, K3.
      set (j := ceil_pos (kids (pk, pv)) q) in *.
      pose proof (gstart_S _ _ _ Eg) as HS. fold l in HS.
      pose proof (kids_pos (pk, pv) Hok) as Hkp.
      assert (Hj : (j < length (kids (pk, pv)))%nat).
      { destruct (Nat.lt_ge_cases j (length (kids (pk, pv)))) as [H|H]; [exact H|exfalso].
        (* the last entry of the block has key pk >= q, so the scan cannot run off the end *)
        assert (Hlk : nth_error (kids (pk, pv)) (length (kids (pk, pv)) - 1) = Some (pk, lv)).
        { fold l in Elast, Hlt. replace (gstart l (S g) - 1)%nat with (gstart l g + (length (kids (pk, pv)) - 1))%nat in Elast by lia.
          cbn [lseq] in Elast. fold l in Elast. rewrite (nth_flat l g (pk, pv) _ Eg) in Elast by lia. exact Elast. }
        pose proof (K2 (length (kids (pk, pv)) - 1)%nat pk lv ltac:(lia) Hlk) as Hc. congruence. }
      split; [exact Hj|].
      unfold fs_ge. apply first_stop_unique.
      + pose proof (gstart_bound l g (pk, pv) Eg). cbn [lseq]. fold l. lia.
      + intros p kp vp Hp Ep. destruct (Nat.lt_ge_cases p (gstart l g)) as [Hpg|Hpg].
        * (* an earlier group: below its last key, which is below q *)
          assert (Hg0 : (0 < g)%nat) by (destruct g; [rewrite gstart_0 in Hpg; lia|lia]).
          destruct (nth_error l (g - 1)) as [[k' v']|] eqn:Eg'; [|apply nth_error_None in Eg'; lia].
          destruct (group_last k (g - 1) (k', v') Hk Eg') as (lv' & Elast' & _). cbn [fst] in Elast'.
          replace (S (g - 1)) with g in Elast' by lia. fold l in Elast'.
          pose proof (G2 (g - 1)%nat k' v' ltac:(lia) Eg') as Hlt'.
          apply (leb_trans_lt q kp k'); [|exact Hlt'].
          apply (sorted_nth_le (lseq (S k)) HsS p (gstart l g - 1) kp vp k' lv' ltac:(lia) Ep Elast').
        * (* inside the selected block, before its ceiling *)
          cbn [lseq] in Ep. fold l in Ep.
          replace p with (gstart l g + (p - gstart l g))%nat in Ep by lia.
          rewrite (nth_flat l g (pk, pv) _ Eg) in Ep by lia.
          apply (K2 (p - gstart l g)%nat kp vp ltac:(lia) Ep).
      + intros kc vc Ec. cbn [lseq] in Ec. fold l in Ec. rewrite (nth_flat l g (pk, pv) _ Eg) in Ec by lia.
        apply (K3 kc vc Ec).
    - (* no item >= q: no entry >= q *)
      apply nth_error_None in Eg. assert (Hg : g = length l) by lia.
      unfold fs_ge. apply first_stop_unique; [lia| |intros kc vc Ec; assert (nth_error (lseq (S k)) (length (lseq (S k))) = None) by (apply nth_error_None; lia); congruence].
      intros p kp vp Hp Ep.
      pose proof (lseq_nonempty k ltac:(lia)) as Hne. fold l in Hne.
      assert (Hl0 : (0 < length l)%nat) by (destruct l; [congruence|cbn [length]; lia]).
      destruct (nth_error l (length l - 1)) as [[k' v']|] eqn:Eg'; [|apply nth_error_None in Eg'; lia].
      destruct (group_last k (length l - 1) (k', v') Hk Eg') as (lv' & Elast' & _). cbn [fst] in Elast'.
      replace (S (length l - 1)) with (length l) in Elast' by lia. fold l in Elast'. rewrite gstart_all in Elast'.
      pose proof (G2 (length l - 1)%nat k' v' ltac:(lia) Eg') as Hlt'.
      apply (leb_trans_lt q kp k'); [|exact Hlt'].
      apply (sorted_nth_le (lseq (S k)) HsS p (length (flat_map kids l) - 1) kp vp k' lv' ltac:(cbn [lseq] in Hp; fold l in Hp; lia) Ep Elast').
  Qed.

  Lemma sdesc_ge q : forall c k, (k + c <= D)%nat -> (fs_ge q (lseq k) 0 < length (lseq k))%nat ->
    sdesc (MGe q) k (fs_ge q (lseq k) 0) c = Some (fs_ge q (lseq (k + c)) 0) /\
    (fs_ge q (lseq (k + c)) 0 < length (lseq (k + c)))%nat.
  Proof.
    induction c as [|c IH]; intros k Hk Hg.
    - replace (k + 0)%nat with k by lia. split; [reflexivity|exact Hg].
    - rewrite sdesc_S. pose proof (ceil_level q k ltac:(lia)) as Hc. cbv zeta in Hc.
      destruct (nth_error (lseq k) (fs_ge q (lseq k) 0)) as [pit|] eqn:E; [|apply nth_error_None in E; lia].
      destruct Hc as [Hj Hfs]. cbv zeta. cbn [sel].
      destruct (Nat.ltb_spec (ceil_pos (kids pit) q) (length (kids pit))); [|lia].
      rewrite <- Hfs.
      assert (Hg' : (fs_ge q (lseq (S k)) 0 < length (lseq (S k)))%nat).
      { rewrite Hfs. pose proof (gstart_bound _ _ _ E). cbn [lseq]. lia. }
      destruct (IH (S k) ltac:(lia) Hg') as [A B]. replace (k + S c)%nat with (S k + c)%nat by lia. split; [exact A|exact B].
  Qed.

  Lemma no_ceil_down q : forall c k, (k + c <= D)%nat -> (length (lseq k) <= fs_ge q (lseq k) 0)%nat ->
    (length (lseq (k + c)) <= fs_ge q (lseq (k + c)) 0)%nat.
  Proof.
    induction c as [|c IH]; intros k Hk Hg; [replace (k + 0)%nat with k by lia; exact Hg|].
    pose proof (ceil_level q k ltac:(lia)) as Hc. cbv zeta in Hc.
    assert (E : nth_error (lseq k) (fs_ge q (lseq k) 0) = None) by (apply nth_error_None; exact Hg).
    rewrite E in Hc. replace (k + S c)%nat with (S k + c)%nat by lia. apply IH; [lia|]. rewrite Hc. lia.
  Qed.

  Lemma sroot_ge q :
    sroot (MGe q) (S D) = let c := ceil_pos es_all q in if Nat.ltb c (length es_all) then Some c else None.
  Proof.
    cbn [sroot sel]. cbv zeta. unfold es_all, ceil_pos.
    destruct (Nat.ltb_spec (fs_ge q root_items 0) (length root_items)) as [Hg|Hg].
    - destruct (sdesc_ge q D 0 ltac:(lia) Hg) as [A B]. cbn [plus] in A, B. change (lseq 0) with root_items in A. rewrite A.
      destruct (Nat.ltb_spec (fs_ge q (lseq D) 0) (length (lseq D))); [reflexivity|lia].
    - pose proof (no_ceil_down q D 0 ltac:(lia) Hg) as H. cbn [plus] in H.
      destruct (Nat.ltb_spec (fs_ge q (lseq D) 0) (length (lseq D))); [lia|reflexivity].
  Qed.

  Theorem ge_refines p st q : Rel p st ->
    exists st' r, cstep ld root levels st (OGe q) = Done (st', r) /\
      Rel (fst (aspec es_all p (OGe q))) st' /\ res_ok (snd (aspec es_all p (OGe q))) r /\
      cs_loads st' <= cs_loads st + N.of_nat (S D).
  Proof.
    intro HR. cbn [cstep]. rewrite c_ge_abs.
    destruct (abs_op_spec (MGe q) true st (abs_ge q) (Rel_Coh p st HR)) as (st' & r & E & Hn & Hres).
    rewrite sroot_ge in Hres. cbv zeta in Hres. exists st', r. split; [exact E|].
    cbn [aspec]. rewrite ceil_idx_pos. fold (ceil_pos es_all q).
    destruct (Nat.ltb_spec (ceil_pos es_all q) (length es_all)) as [Hlt|Hge].
    - destruct Hres as [Hp Hr]. destruct (nth_error es_all (ceil_pos es_all q)) as [e|] eqn:En; [|apply nth_error_None in En; lia].
      cbn [at_result fst snd Rel res_ok]. replace (0 + N.of_nat (ceil_pos es_all q)) with (N.of_nat (ceil_pos es_all q)) by lia.
      rewrite Nat2N.id. split; [exact Hp|]. split; [rewrite Hr; exact En|lia].
    - destruct Hres as [Hr Hc]. assert (En : nth_error es_all (ceil_pos es_all q) = None) by (apply nth_error_None; exact Hge).
      rewrite En. cbn [at_result fst snd Rel res_ok]. split; [exact Hc|]. split; [exact Hr|lia].
  Qed.

  Theorem eq_refines p st q : Rel p st ->
    exists st' r, cstep ld root levels st (OEq q) = Done (st', r) /\
      Rel (fst (aspec es_all p (OEq q))) st' /\ res_ok (snd (aspec es_all p (OEq q))) r /\
      cs_loads st' <= cs_loads st + N.of_nat (S D).
  Proof.
    intro HR. destruct (ge_refines p st q HR) as (st' & r & E & A & B & C).
    cbn [cstep] in *. unfold c_eq. rewrite E. cbn [bind]. eexists _, _. split; [reflexivity|].
    cbn [aspec] in *. unfold find_idx.
    destruct (ceil_idx es_all q 0) as [[i [k v]]|]; cbn [at_result fst snd Rel res_ok] in *.
    - subst r. destruct (bytes_eqb k q); cbn [at_result fst snd Rel res_ok].
      + split; [exact A|]. split; [reflexivity|exact C].
      + split; [exact (Pos_Coh _ _ A)|]. split; [reflexivity|exact C].
    - subst r. split; [exact A|]. split; [reflexivity|exact C].
  Qed.

  (* first key > q versus first key >= q, on a strictly ascending list *)
  Lemma gt_of_ge (l : list entry) q : sorted_strictb (map fst l) = true ->
    let c := fs_ge q l 0 in
    fs_gt q l 0 = match nth_error l c with
                  | Some (k, _) => if bytes_eqb k q then S c else c
                  | None => c
                  end.
  Proof.
    intro Hs. cbv zeta.
    pose proof (first_stop_props (fun kk => bytes_leb q kk) l) as (G1 & G2 & G3). cbv zeta in G1, G2, G3.
    fold (fs_ge q l 0) in G1, G2, G3. set (c := fs_ge q l 0) in *.
    assert (Hbefore : forall p kp vp, (p < c)%nat -> nth_error l p = Some (kp, vp) -> bytes_ltb q kp = false).
    { intros p kp vp Hp Ep. pose proof (G2 p kp vp Hp Ep) as H. destruct (bytes_ltb q kp) eqn:E; [|reflexivity].
      rewrite bytes_leb_ltb, (ltb_asym _ _ E) in H. discriminate. }
    unfold fs_gt. destruct (nth_error l c) as [[k v]|] eqn:Ec.
    - pose proof (G3 k v eq_refl) as Hge. destruct (bytes_eqb k q) eqn:Eq.
      + apply bytes_eqb_eq in Eq. subst k. apply first_stop_unique.
        * assert (c < length l)%nat by (apply nth_error_Some; congruence). lia.
        * intros p kp vp Hp Ep. destruct (Nat.eq_dec p c) as [->|Hne].
          -- rewrite Ec in Ep. injection Ep as <- <-. apply bytes_ltb_irrefl.
          -- apply (Hbefore p kp vp ltac:(lia) Ep).
        * intros k' v' E'. exact (sorted_nth_lt l Hs c (S c) q v k' v' ltac:(lia) Ec E').
      + apply first_stop_unique; [exact G1 | exact Hbefore |].
        intros k' v' E'. rewrite Ec in E'. injection E' as <- <-.
        rewrite bytes_leb_ltb in Hge. apply Bool.negb_true_iff in Hge.
        destruct (bytes_total q k) as [H|[H|H]]; [exact H| |congruence].
        subst k. assert (bytes_eqb q q = true) by (apply bytes_eqb_eq; reflexivity). congruence.
    - apply first_stop_unique; [exact G1 | exact Hbefore |]. intros k' v' E'. congruence.
  Qed.

  Theorem le_refines p st q : Rel p st ->
    exists st' r, cstep ld root levels st (OLe q) = Done (st', r) /\
      Rel (fst (aspec es_all p (OLe q))) st' /\ res_ok (snd (aspec es_all p (OLe q))) r /\
      cs_loads st' <= cs_loads st + 2 * N.of_nat (S D).
  Proof.
    intro HR. cbn [cstep]. unfold c_le. rewrite c_ge_abs.
    destruct (abs_op_spec (MGe q) true st (abs_ge q) (Rel_Coh p st HR)) as (st1 & r1 & E1 & Hn1 & Hres).
    rewrite E1. cbn [bind]. rewrite sroot_ge in Hres. cbv zeta in Hres.
    pose proof (Hsorted D ltac:(lia)) as HsD. fold es_all in HsD.
    pose proof (gt_of_ge es_all q HsD) as Hgt. cbv zeta in Hgt. fold (ceil_pos es_all q) in Hgt.
    cbn [aspec]. rewrite floor_idx_pos. cbv zeta. set (c := ceil_pos es_all q) in *.
    destruct (Nat.ltb_spec c (length es_all)) as [Hlt|Hge].
    - destruct Hres as [Hp Hr]. fold es_all in Hr.
      destruct (nth_error es_all c) as [[k v]|] eqn:Ec; [|apply nth_error_None in Ec; lia].
      subst r1. destruct (bytes_eqb k q) eqn:Eq.
      + (* exact match: the ceiling is the floor *)
        rewrite Hgt. destruct (Nat.eqb_spec (S c) 0); [lia|]. replace (S c - 1)%nat with c by lia. rewrite Ec.
        eexists _, _. split; [reflexivity|]. cbn [at_result fst snd Rel res_ok].
        replace (0 + N.of_nat c) with (N.of_nat c) by lia. rewrite Nat2N.id. split; [exact Hp|]. split; [reflexivity|lia].
      + (* the ceiling is above q: step back *)
        destruct (c_prev_spec st1 c Hp) as (st2 & r2 & E2 & Hn2 & Hres2). rewrite E2.
        eexists _, _. split; [reflexivity|]. rewrite Hgt.
        destruct (Nat.eqb_spec c 0) as [Hc0|Hc0].
        * rewrite Hc0 in Hres2. cbn [Nat.ltb Nat.leb] in Hres2. destruct Hres2 as [Hr2 [Hc2 _]].
          cbn [at_result fst snd Rel res_ok]. split; [exact Hc2|]. split; [exact Hr2|lia].
        * destruct (Nat.ltb_spec 0 c); [|lia]. destruct Hres2 as [Hp2 Hr2]. fold es_all in Hr2.
          destruct (nth_error es_all (c - 1)) as [e|] eqn:En; [|apply nth_error_None in En; lia].
          cbn [at_result fst snd Rel res_ok]. replace (0 + N.of_nat (c - 1)) with (N.of_nat (c - 1)) by lia. rewrite Nat2N.id.
          split; [exact Hp2|]. split; [exact Hr2|lia].
    - (* no key >= q: the last entry is the floor *)
      destruct Hres as [Hr1 Hc1]. subst r1. rewrite c_first_last_abs.
      destruct (abs_op_spec MLast false st1 abs_last Hc1) as (st2 & r2 & E2 & Hn2 & Hres2). rewrite E2. cbn [bind].
      rewrite sroot_last in Hres2. destruct Hres2 as [Hp2 Hr2]. fold es_all in Hp2, Hr2.
      eexists _, _. split; [reflexivity|].
      assert (Ec : nth_error es_all c = None) by (apply nth_error_None; exact Hge). rewrite Ec in Hgt. rewrite Hgt.
      pose proof (lseq_nonempty D ltac:(lia)) as Hne. fold es_all in Hne.
      assert (Hl : (0 < length es_all)%nat) by (destruct es_all; [congruence|cbn [length]; lia]).
      pose proof (first_stop_props (fun kk => bytes_leb q kk) es_all) as (G1 & G2 & _). cbv zeta in G1, G2.
      fold (fs_ge q es_all 0) in G1, G2. fold (ceil_pos es_all q) in G1, G2. fold c in G1, G2.
      assert (Hcl : c = length es_all) by lia.
      destruct (Nat.eqb_spec c 0); [lia|]. rewrite Hcl.
      destruct (nth_error es_all (length es_all - 1)) as [[k v]|] eqn:En; [|apply nth_error_None in En; lia].
      cbn [at_result fst snd Rel res_ok]. replace (0 + N.of_nat (length es_all - 1)) with (N.of_nat (length es_all - 1)) by lia.
      rewrite Nat2N.id. split; [exact Hp2|]. split; [|lia].
      rewrite Hr2. 
      (* the filter keeps it: the last key is below q *)
      pose proof (G2 (length es_all - 1)%nat k v ltac:(lia) En) as Hlast.
      assert (Hkq : bytes_leb k q = true).
      { rewrite bytes_leb_ltb. rewrite bytes_leb_ltb in Hlast. apply Bool.negb_false_iff in Hlast. rewrite (ltb_asym _ _ Hlast). reflexivity. }
      rewrite Hkq. reflexivity.
  Qed.

  (* a lower-or-equal seek that finds nothing (every key is above q) leaves the data cursor on the
     first entry: `current` then returns that entry, whose key is above q (what the reverse prefix
     iterator relies on) *)
  Theorem le_none_current p st q : Rel p st ->
    forall st', cstep ld root levels st (OLe q) = Done (st', None) ->
    exists e, cstep ld root levels st' OCurrent = Done (st', Some e) /\ In e es_all /\ bytes_ltb q (fst e) = true.
  Proof.
    intros HR st' Hle. cbn [cstep] in Hle. unfold c_le in Hle. rewrite c_ge_abs in Hle.
    destruct (abs_op_spec (MGe q) true st (abs_ge q) (Rel_Coh p st HR)) as (st1 & r1 & E1 & Hn1 & Hres).
    rewrite E1 in Hle. cbn [bind] in Hle. rewrite sroot_ge in Hres. cbv zeta in Hres.
    set (c := ceil_pos es_all q) in *.
    pose proof (first_stop_props (fun kk => bytes_leb q kk) es_all) as (G1 & G2 & G3). cbv zeta in G1, G2, G3.
    fold (fs_ge q es_all 0) in G1, G2, G3. fold (ceil_pos es_all q) in G1, G2, G3. fold c in G1, G2, G3.
    destruct (Nat.ltb_spec c (length es_all)) as [Hlt|Hge].
    - destruct Hres as [Hp Hr]. fold es_all in Hr.
      destruct (nth_error es_all c) as [[k v]|] eqn:Ec; [|apply nth_error_None in Ec; lia].
      subst r1. destruct (bytes_eqb k q) eqn:Eq; [discriminate|].
      destruct (c_prev_spec st1 c Hp) as (st2 & r2 & E2 & Hn2 & Hres2). rewrite E2 in Hle. injection Hle as <- ->.
      destruct (Nat.ltb_spec 0 c) as [Hc0|Hc0].
      + destruct Hres2 as [_ Hr2]. fold es_all in Hr2.
        destruct (nth_error es_all (c - 1)) eqn:En; [discriminate|apply nth_error_None in En; lia].
      + destruct Hres2 as (_ & _ & Hd). assert (c = 0%nat) by lia.
        exists (k, v). cbn [cstep]. unfold c_current. rewrite Hd.
        pose proof Hp as (lv & dc & o & Ei & Hlen & Hcoh & Ed & Hpos). rewrite Ed.
        pose proof (positioned_current _ _ _ Hpos) as Hcur. cbn [rev] in Hcur.
        unfold last_current in Hcur. rewrite last_opt_snoc in Hcur. rewrite Hcur. cbn [bind].
        fold es_all. rewrite Ec. split; [reflexivity|]. split; [eapply nth_error_In; exact Ec|]. cbn [fst].
        pose proof (G3 k v eq_refl) as Hle'. apply bytes_eqb_neq_ltb; assumption.
    - destruct Hres as [Hr1 Hc1]. subst r1. rewrite c_first_last_abs in Hle.
      destruct (abs_op_spec MLast false st1 abs_last Hc1) as (st2 & r2 & E2 & Hn2 & Hres2). rewrite E2 in Hle. cbn [bind] in Hle.
      rewrite sroot_last in Hres2. destruct Hres2 as [Hp2 Hr2]. fold es_all in Hp2, Hr2.
      pose proof (lseq_nonempty D ltac:(lia)) as Hne. fold es_all in Hne.
      assert (Hl : (0 < length es_all)%nat) by (destruct es_all; [congruence|cbn [length]; lia]).
      destruct (nth_error es_all (length es_all - 1)) as [[k v]|] eqn:En; [|apply nth_error_None in En; lia].
      subst r2. pose proof (G2 (length es_all - 1)%nat k v ltac:(lia) En) as Hlast.
      assert (Hkq : bytes_leb k q = true).
      { rewrite bytes_leb_ltb. rewrite bytes_leb_ltb in Hlast. apply Bool.negb_false_iff in Hlast. rewrite (ltb_asym _ _ Hlast). reflexivity. }
      rewrite Hkq in Hle. discriminate.
  Qed.

  (* ================= one step, and whole histories ================= *)
  Definition relative_op (o : op) : bool :=
    match o with ONext | OPrev | OCurrent => true | _ => false end.
  (* the operations the property specifies at position p: everything, except relative moves and
     `current` after an operation that returned None *)
  Definition admissible (p : apos) (o : op) : Prop := p = Unspec -> relative_op o = false.

  Theorem step_refines p st o : Rel p st -> admissible p o ->
    exists st' r, cstep ld root levels st o = Done (st', r) /\
      Rel (fst (aspec es_all p o)) st' /\ res_ok (snd (aspec es_all p o)) r /\
      cs_loads st' <= cs_loads st + 2 * N.of_nat (S D).
  Proof.
    intros HR Ha.
    assert (Hn : forall o', relative_op o' = true -> o = o' -> p <> Unspec).
    { intros o' Hrel -> Hp. specialize (Ha Hp). congruence. }
    destruct o as [| | | |q|q|q| |].
    - destruct (first_refines p st HR) as (st' & r & A & B & C & E). exists st', r. split; [exact A|]. split; [exact B|]. split; [exact C|lia].
    - destruct (last_refines p st HR) as (st' & r & A & B & C & E). exists st', r. split; [exact A|]. split; [exact B|]. split; [exact C|lia].
    - destruct (next_refines p st HR (Hn ONext eq_refl eq_refl)) as (st' & r & A & B & C & E). exists st', r. split; [exact A|]. split; [exact B|]. split; [exact C|lia].
    - destruct (prev_refines p st HR (Hn OPrev eq_refl eq_refl)) as (st' & r & A & B & C & E). exists st', r. split; [exact A|]. split; [exact B|]. split; [exact C|lia].
    - destruct (ge_refines p st q HR) as (st' & r & A & B & C & E). exists st', r. split; [exact A|]. split; [exact B|]. split; [exact C|lia].
    - exact (le_refines p st q HR).
    - destruct (eq_refines p st q HR) as (st' & r & A & B & C & E). exists st', r. split; [exact A|]. split; [exact B|]. split; [exact C|lia].
    - destruct (reset_refines p st HR) as (st' & r & A & B & C & E). exists st', r. split; [exact A|]. split; [exact B|]. split; [exact C|lia].
    - destruct (current_refines p st HR (Hn OCurrent eq_refl eq_refl)) as (st' & r & A & B & C & E). exists st', r. split; [exact A|]. split; [exact B|]. split; [exact C|lia].
  Qed.

  (* a history on one cursor *)
  Fixpoint run_ops (st : cstate) (ops : list op) : outcome (cstate * list (option entry)) :=
    match ops with
    | [] => Done (st, [])
    | o :: r => do x <- cstep ld root levels st o; do y <- run_ops (fst x) r; Done (fst y, snd x :: snd y)
    end.
  Fixpoint spec_ops (p : apos) (ops : list op) : apos * list (option (option entry)) :=
    match ops with
    | [] => (p, [])
    | o :: r => let x := aspec es_all p o in let y := spec_ops (fst x) r in (fst y, snd x :: snd y)
    end.
  Fixpoint admissible_ops (p : apos) (ops : list op) : Prop :=
    match ops with
    | [] => True
    | o :: r => admissible p o /\ admissible_ops (fst (aspec es_all p o)) r
    end.

  Theorem history_refines : forall ops p st, Rel p st -> admissible_ops p ops ->
    exists st' rs, run_ops st ops = Done (st', rs) /\ Rel (fst (spec_ops p ops)) st' /\
      Forall2 res_ok (snd (spec_ops p ops)) rs.
  Proof.
    induction ops as [|o ops IH]; intros p st HR Ha; cbn [run_ops spec_ops].
    - exists st, []. split; [reflexivity|]. split; [exact HR|constructor].
    - destruct Ha as [Ha1 Ha2].
      destruct (step_refines p st o HR Ha1) as (st1 & r1 & E1 & HR1 & Hr1 & _). rewrite E1. cbn [bind fst snd].
      destruct (IH _ st1 HR1 Ha2) as (st' & rs & E & HR' & Hrs). rewrite E. cbn [bind fst snd].
      exists st', (r1 :: rs). split; [reflexivity|]. split; [exact HR'|]. constructor; assumption.
  Qed.

  (* a fresh cursor is related to the never-positioned abstract cursor; so is any cursor after reset *)
  Lemma fresh_rel : Rel Fresh cs_fresh.
  Proof. split; reflexivity. Qed.
End Refine.

(* ================= packaged statements ================= *)
(* A well-formed store: what a reader sees of a well-formed file.  bstore maps the offset of every
   block to (parsed block, its entries, its restart indices); levels = index_levels. *)
Record wf_store (ld : N -> N -> outcome block) (root levels : N)
                (bstore : N -> option (block * list entry * list nat)) : Prop := mk_wf_store {
  ws_ld : forall off b es ridx, bstore off = Some (b, es, ridx) ->
          (forall ord, ld ord off = Done b) /\ wfblock b es ridx /\ es <> [];
  ws_disj : forall k, (k < S (N.to_nat levels))%nat -> forall it, In it (lseq root bstore k) -> ~ In (coff it) (offs root bstore k);
  ws_root : exists rb rridx, bstore root = Some (rb, root_items root bstore, rridx);
  ws_items : forall k, (k < S (N.to_nat levels))%nat -> Forall (item_ok bstore) (lseq root bstore k);
  ws_sorted : forall k, (k <= S (N.to_nat levels))%nat -> sorted_strictb (map fst (lseq root bstore k)) = true;
  ws_last : forall k g it, (k < S (N.to_nat levels))%nat -> nth_error (lseq root bstore k) g = Some it ->
            option_map fst (last_opt (kids bstore it)) = Some (fst it) }.

(* the logical content of the store: the entries of the data level, in order *)
Definition content (root levels : N) (bstore : N -> option (block * list entry * list nat)) : list entry :=
  es_all root bstore levels.

Theorem R_step ld root levels bstore : wf_store ld root levels bstore ->
  forall p st o, Rel root bstore levels p st -> admissible p o ->
  exists st' r, cstep ld root levels st o = Done (st', r) /\
    Rel root bstore levels (fst (aspec (content root levels bstore) p o)) st' /\
    res_ok (snd (aspec (content root levels bstore) p o)) r /\
    cs_loads st' <= cs_loads st + 2 * (levels + 2).
Proof.
  intros [H1 H2 (rb & rridx & H3) H4 H5 H6] p st o HR Ha.
  destruct (step_refines ld root bstore H1 rb rridx H3 levels H4 H2 H5 H6 p st o HR Ha) as (st' & r & A & B & C & E).
  exists st', r. split; [exact A|]. split; [exact B|]. split; [exact C|]. lia.
Qed.

Theorem R_history ld root levels bstore : wf_store ld root levels bstore ->
  forall ops p st, Rel root bstore levels p st -> admissible_ops root bstore levels p ops ->
  exists st' rs, run_ops ld root levels st ops = Done (st', rs) /\
    Rel root bstore levels (fst (spec_ops root bstore levels p ops)) st' /\
    Forall2 res_ok (snd (spec_ops root bstore levels p ops)) rs.
Proof.
  intros [H1 H2 (rb & rridx & H3) H4 H5 H6].
  exact (history_refines ld root bstore H1 rb rridx H3 levels H4 H2 H5 H6).
Qed.

Theorem R_le_none ld root levels bstore : wf_store ld root levels bstore ->
  forall p st q, Rel root bstore levels p st ->
  forall st', cstep ld root levels st (OLe q) = Done (st', None) ->
  exists e, cstep ld root levels st' OCurrent = Done (st', Some e) /\ In e (content root levels bstore) /\
            bytes_ltb q (fst e) = true.
Proof.
  intros [H1 H2 (rb & rridx & H3) H4 H5 H6].
  exact (le_none_current ld root bstore H1 rb rridx H3 levels H4 H2 H5 H6).
Qed.

(* ================= full scans (C01): next from a fresh cursor yields the content in order, then None;
   prev yields it in reverse ================= *)
Section Scans.
  Variables (ld : N -> N -> outcome block) (root levels : N) (bstore : N -> option (block * list entry * list nat)).
  Hypothesis W : wf_store ld root levels bstore.
  Let es := content root levels bstore.

  Definition expect (l : list entry) : list (option (option entry)) := map (fun e => Some (Some e)) l ++ [Some None].

  Lemma skipn_S_nth {A} (l : list A) i x : nth_error l i = Some x -> skipn i l = x :: skipn (S i) l.
  Proof.
    revert l; induction i as [|i IH]; intros [|e l] E; cbn [nth_error] in E; try discriminate.
    - injection E as ->. reflexivity.
    - cbn [skipn]. apply IH. exact E.
  Qed.

  (* forward: from At i, the remaining entries are skipn (S i) es *)
  Lemma spec_next_from_at : forall k i, (S i + k = length es)%nat ->
    snd (spec_ops root bstore levels (At (N.of_nat i)) (repeat ONext (S k))) = expect (skipn (S i) es) /\
    admissible_ops root bstore levels (At (N.of_nat i)) (repeat ONext (S k)).
  Proof.
    induction k as [|k IH]; intros i Hk.
    - cbn [repeat spec_ops admissible_ops aspec fst snd]. change (es_all root bstore levels) with es.
      replace (N.of_nat i + 1) with (N.of_nat (S i)) by lia. rewrite nthN_nat.
      assert (E : nth_error es (S i) = None) by (apply nth_error_None; lia). rewrite E.
      cbn [at_result fst snd]. rewrite skipn_all2 by lia. split; [reflexivity|]. split; [intro H; discriminate|exact I].
    - change (repeat ONext (S (S k))) with (ONext :: repeat ONext (S k)).
      cbn [spec_ops admissible_ops aspec fst snd]. change (es_all root bstore levels) with es.
      replace (N.of_nat i + 1) with (N.of_nat (S i)) by lia. rewrite nthN_nat.
      destruct (nth_error es (S i)) as [e|] eqn:E; [|apply nth_error_None in E; lia].
      cbn [at_result fst snd]. destruct (IH (S i) ltac:(lia)) as [A B].
      change (es_all root bstore levels) with es in A. rewrite A. rewrite (skipn_S_nth es (S i) e E). split; [reflexivity|]. split; [intro H; discriminate|exact B].
  Qed.

  Theorem scan_forward : (0 < length es)%nat ->
    exists st' rs, run_ops ld root levels cs_fresh (repeat ONext (S (length es))) = Done (st', rs) /\
      rs = map Some es ++ [None].
  Proof.
    intro Hl.
    assert (Hspec : snd (spec_ops root bstore levels Fresh (repeat ONext (S (length es)))) = expect es /\
                    admissible_ops root bstore levels Fresh (repeat ONext (S (length es)))).
    { destruct (length es) as [|n] eqn:En; [lia|].
      change (repeat ONext (S (S n))) with (ONext :: repeat ONext (S n)).
      cbn [spec_ops admissible_ops aspec fst snd]. change (es_all root bstore levels) with es.
      destruct es as [|e0 es'] eqn:Ees; [discriminate|]. cbn [at_result fst snd].
      destruct (spec_next_from_at n 0 ltac:(rewrite Ees; cbn [length] in *; lia)) as [A B].
      change (N.of_nat 0) with 0 in A, B. change (es_all root bstore levels) with es in A. rewrite Ees in A. cbn [skipn] in A. rewrite A.
      split; [reflexivity|]. split; [intro H; discriminate|exact B]. }
    destruct Hspec as [Hs Ha].
    destruct (R_history ld root levels bstore W _ Fresh cs_fresh (fresh_rel root bstore levels) Ha) as (st' & rs & E & _ & Hrs).
    exists st', rs. split; [exact E|]. rewrite Hs in Hrs. unfold expect in Hrs.
    clear - Hrs. revert rs Hrs. generalize es as l. induction l as [|e l IH]; intros rs H; cbn [map app] in *.
    - inversion H as [|? ? ? ? H1 H2]; subst. inversion H2; subst. cbn [res_ok] in H1. subst. reflexivity.
    - inversion H as [|? ? ? ? H1 H2]; subst. cbn [res_ok] in H1. subst. f_equal. apply IH. exact H2.
  Qed.

  Lemma firstn_S_nth {A} (l : list A) i x : nth_error l i = Some x -> firstn (S i) l = firstn i l ++ [x].
  Proof.
    revert l; induction i as [|i IH]; intros [|e l] E; cbn [nth_error] in E; try discriminate.
    - injection E as ->. reflexivity.
    - cbn [firstn app]. f_equal. apply IH. exact E.
  Qed.

  Lemma last_opt_nth' {A} (l : list A) : last_opt l = nth_error l (length l - 1).
  Proof.
    induction l as [|x l IH]; [reflexivity|]. cbn [last_opt]. destruct l as [|y l]; [reflexivity|].
    rewrite IH. cbn [length]. replace (S (S (length l)) - 1)%nat with (S (S (length l) - 1)) by lia. reflexivity.
  Qed.

  Lemma spec_prev_from_at : forall i, (i < length es)%nat ->
    snd (spec_ops root bstore levels (At (N.of_nat i)) (repeat OPrev (S i))) = expect (rev (firstn i es)) /\
    admissible_ops root bstore levels (At (N.of_nat i)) (repeat OPrev (S i)).
  Proof.
    induction i as [|i IH]; intro Hi.
    - cbn [repeat spec_ops admissible_ops aspec fst snd N.of_nat N.eqb at_result firstn rev]. change (0 =? 0) with true. cbn iota.
      cbn [at_result fst snd]. split; [reflexivity|]. split; [intro H; discriminate|exact I].
    - change (repeat OPrev (S (S i))) with (OPrev :: repeat OPrev (S i)).
      cbn [spec_ops admissible_ops aspec fst snd]. change (es_all root bstore levels) with es.
      destruct (N.eqb_spec (N.of_nat (S i)) 0); [lia|].
      replace (N.of_nat (S i) - 1) with (N.of_nat i) by lia. rewrite nthN_nat.
      destruct (nth_error es i) as [e|] eqn:E; [|apply nth_error_None in E; lia].
      cbn [at_result fst snd]. destruct (IH ltac:(lia)) as [A B].
      change (es_all root bstore levels) with es in A. rewrite A.
      rewrite (firstn_S_nth es i e E), rev_app_distr. split; [reflexivity|]. split; [intro H; discriminate|exact B].
  Qed.

  Theorem scan_backward : (0 < length es)%nat ->
    exists st' rs, run_ops ld root levels cs_fresh (repeat OPrev (S (length es))) = Done (st', rs) /\
      rs = map Some (rev es) ++ [None].
  Proof.
    intro Hl.
    assert (Hspec : snd (spec_ops root bstore levels Fresh (repeat OPrev (S (length es)))) = expect (rev es) /\
                    admissible_ops root bstore levels Fresh (repeat OPrev (S (length es)))).
    { destruct (length es) as [|n] eqn:En; [lia|].
      change (repeat OPrev (S (S n))) with (OPrev :: repeat OPrev (S n)).
      cbn [spec_ops admissible_ops aspec fst snd]. change (es_all root bstore levels) with es.
      rewrite last_opt_nth'. rewrite En. replace (S n - 1)%nat with n by lia.
      destruct (nth_error es n) as [e|] eqn:E; [|apply nth_error_None in E; lia].
      cbn [at_result fst snd]. rewrite len_length, En. replace (N.of_nat (S n) - 1) with (N.of_nat n) by lia.
      destruct (spec_prev_from_at n ltac:(lia)) as [A B].
      change (es_all root bstore levels) with es in A. rewrite A.
      assert (Hes : es = firstn n es ++ [e]).
      { rewrite <- (firstn_S_nth es n e E). rewrite <- En. symmetry. apply firstn_all. }
      assert (Hrev : rev es = e :: rev (firstn n es)) by (rewrite Hes at 1; rewrite rev_app_distr; reflexivity).
      rewrite Hrev. split; [reflexivity|]. split; [intro H; discriminate|exact B]. }
    destruct Hspec as [Hs Ha].
    destruct (R_history ld root levels bstore W _ Fresh cs_fresh (fresh_rel root bstore levels) Ha) as (st' & rs & E & _ & Hrs).
    exists st', rs. split; [exact E|]. rewrite Hs in Hrs. unfold expect in Hrs.
    clear - Hrs. revert rs Hrs. generalize (rev es) as l. induction l as [|e l IH]; intros rs H; cbn [map app] in *.
    - inversion H as [|? ? ? ? H1 H2]; subst. inversion H2; subst. cbn [res_ok] in H1. subst. reflexivity.
    - inversion H as [|? ? ? ? H1 H2]; subst. cbn [res_ok] in H1. subst. f_equal. apply IH. exact H2.
  Qed.
End Scans.
