(* C18, lifted from the block writer to the whole writer: WHERE a run of the writer panics and WHY.
   For any sink and any insert sequence (sorted or not):
     - an insert whose key is not strictly above the last key of the data block under construction (or
       whose key/value is longer than u32::MAX) panics at exactly that insert (w_run_data_violation);
     - conversely every panic of Writer::insert / Writer::into_inner is one of the two order assertions the
       property names: the data block's on the inserted entry, or an index block's on the last key of the
       block it is asked to record (w_insert_panic_cause, w_finish_panic_cause, w_run_panic_cause).
   The third assertion of the code (the restart-offset count of a block fits a u32) is excluded by the
   hypothesis that fewer than 2^32 - 1 entries are inserted; the sink, the flush and the codec are assumed
   not to panic themselves (they return io::Result). *)
From Coq Require Import Lia ZArith ZifyN ZifyBool ZifyNat List.
From Grenad.gen Require Import Consts.
From Grenad.model Require Import Base Varint Block Trailer Writer Spec.
From Grenad.proofs Require Import BaseProofs BlockProofs WriterInv WriterProgress.
Ltac Zify.zify_post_hook ::= Z.div_mod_to_equations.

(* the order (and length) assertion of BlockWriter::insert, on the entries the block holds *)
Definition order_ok (es : list entry) (k v : bytes) : Prop :=
  entry_ok (k, v) /\ match last_opt es with Some (lk, _) => bytes_ltb lk k = true | None => True end.

(* the block under construction [w] refuses (k, v) *)
Definition data_violation (w : bw) (k v : bytes) : Prop := exists es, bw_ok w es /\ ~ order_ok es k v.

(* the index block [p] refuses to record a block whose last key is [key]: [key] is not above its own last key *)
Definition record_violation (p : bw) (key : bytes) : Prop :=
  exists pes plk pv, bw_ok p pes /\ last_opt pes = Some (plk, pv) /\ bytes_ltb plk key = false.

(* the block holds at most n entries *)
Definition holds (n : N) (w : bw) : Prop := exists es, bw_ok w es /\ len es <= n.

Lemma order_dec es k v : order_ok es k v \/ ~ order_ok es k v.
Proof.
  unfold order_ok, entry_ok. cbn [fst snd].
  destruct (N.leb_spec (len k) U32_MAX); [|right; intros [[? ?] ?]; lia].
  destruct (N.leb_spec (len v) U32_MAX); [|right; intros [[? ?] ?]; lia].
  destruct (last_opt es) as [[lk lv]|]; [|left; auto].
  destruct (bytes_ltb lk k); [left; auto | right; intros [_ ?]; discriminate].
Qed.

Lemma bw_insert_done w es k v w' : bw_ok w es -> bw_insert w k v = Done w' ->
  bw_ok w' (es ++ [(k, v)]) /\ order_ok es k v.
Proof.
  intros Hok H. destruct (bw_insert_spec w es k v Hok) as [Hgood Hbad].
  destruct (order_dec es k v) as [Hc|Hc].
  - destruct (Hgood Hc) as (w1 & E1 & Hok1 & _). rewrite E1 in H. injection H as <-. auto.
  - rewrite (Hbad Hc) in H. discriminate.
Qed.

Lemma bw_insert_panic w es k v : bw_ok w es -> bw_insert w k v = Panic -> ~ order_ok es k v.
Proof.
  intros Hok H Hc. destruct (bw_insert_spec w es k v Hok) as [Hgood _].
  destruct (Hgood Hc) as (w1 & E1 & _). rewrite E1 in H. discriminate.
Qed.

Lemma bw_insert_last w k v w' : bw_insert w k v = Done w' -> bw_last w' = Some k.
Proof.
  unfold bw_insert. destruct (_ || _); [discriminate|].
  destruct (bw_counter w =? bw_interval w); destruct (match bw_last w with Some l => bytes_ltb l k | None => true end);
    try discriminate; intro H; injection H as <-; reflexivity.
Qed.

Lemma last_opt_in {A} (l : list A) x : last_opt l = Some x -> In x l.
Proof.
  induction l as [|a l IH]; [discriminate|]. cbn [last_opt]. destruct l as [|b l].
  - intro H; injection H as <-. left; reflexivity.
  - intro H. right. apply IH. exact H.
Qed.

Lemma bw_last_key_ok w es key : bw_ok w es -> bw_last w = Some key -> len key <= U32_MAX.
Proof.
  intros Hok Hl. rewrite (ok_last w es Hok) in Hl.
  destruct (last_opt es) as [[lk lv]|] eqn:E; [|discriminate]. cbn in Hl. injection Hl as <-.
  pose proof (ok_entries w es Hok) as He. unfold entries_ok in He. rewrite Forall_forall in He.
  exact (proj1 (He _ (last_opt_in _ _ E))).
Qed.

Lemma len_be8 x : len (be_bytes 8 x) = 8.
Proof. rewrite len_length, be_bytes_length. reflexivity. Qed.

(* an index block that panics on (key, 8-byte offset), key being the last key of a legal block: the
   order assertion, not the length assertion *)
Lemma index_insert_panic p child key off :
  bwE p -> bwE child -> bw_last child = Some key -> bw_insert p key (be_bytes 8 off) = Panic ->
  record_violation p key.
Proof.
  intros [pes Hp] [ces Hc] Hl H. pose proof (bw_insert_panic p pes _ _ Hp H) as Hn.
  pose proof (bw_last_key_ok child ces key Hc Hl) as Hk.
  unfold order_ok, entry_ok in Hn. cbn [fst snd] in Hn. rewrite len_be8 in Hn.
  destruct (last_opt pes) as [[plk pv]|] eqn:E.
  - exists pes, plk, pv. split; [exact Hp|]. split; [exact E|].
    destruct (bytes_ltb plk key) eqn:Eb; [|reflexivity]. exfalso. apply Hn. rewrite u32max in *. split; [lia|reflexivity].
  - exfalso. apply Hn. rewrite u32max in *. split; [lia|exact I].
Qed.

Lemma holds_E n w : holds n w -> bwE w.
Proof. intros (es & H & _). exists es. exact H. Qed.
Lemma holds_mono n m w : n <= m -> holds n w -> holds m w.
Proof. intros Hnm (es & H & Hl). exists es. split; [exact H|lia]. Qed.
Lemma holds_noffsets n w : holds n w -> bw_noffsets w <= 1 + n.
Proof. intros (es & H & Hl). pose proof (bw_ok_noffsets w es H). lia. Qed.
Lemma holds_insert n w k v w' : holds n w -> bw_insert w k v = Done w' -> holds (n + 1) w'.
Proof.
  intros (es & H & Hl) E. exists (es ++ [(k, v)]). split; [exact (proj1 (bw_insert_done w es k v w' H E))|].
  rewrite len_app, len_cons. change (len (@nil entry)) with 0. lia.
Qed.
Lemma holds_reset n w : holds n (bw_reset w).
Proof. exists []. split; [apply bw_reset_ok|change (len (@nil entry)) with 0; lia]. Qed.

Lemma rev_cons_split' {A} (x : A) l root sl :
  rev (x :: l) = root :: sl ->
  (l = [] /\ root = x /\ sl = []) \/ (exists up, l = up ++ [root] /\ rev sl = x :: up).
Proof.
  cbn [rev]. destruct (rev l) as [|r mid] eqn:E; cbn [app]; intro H.
  - left. injection H as <- <-. apply (f_equal (@rev A)) in E. rewrite rev_involutive in E. auto.
  - right. injection H as <- <-. exists (rev mid). split.
    + apply (f_equal (@rev A)) in E. rewrite rev_involutive in E. exact E.
    + rewrite rev_app_distr. reflexivity.
Qed.

Section Panic.
  Variable SK : Type.
  Variable wr : SK -> bytes -> outcome SK.
  Variable fl : SK -> outcome SK.
  Variable cnt : SK -> N.
  Variable compress : N -> N -> bytes -> outcome bytes.
  Variable c : wcfg.
  Hypothesis HB : 12 < wc_block_size c.
  (* the sink and the codec return io::Result: they may fail, they do not panic *)
  Hypothesis wr_np : forall s b, wr s b <> Panic.
  Hypothesis fl_np : forall s, fl s <> Panic.
  Hypothesis cp_np : forall a b d, compress a b d <> Panic.
  Notation L := (wc_levels c).

  Lemma cwb_no_panic s w lvl : bw_noffsets w <= U32_MAX -> cwb SK wr cnt compress c s w lvl <> Panic.
  Proof.
    intros Hn. unfold cwb, bw_finish. destruct (N.ltb_spec U32_MAX (bw_noffsets w)) as [|_]; [lia|]. cbn [bind].
    destruct (compress _ _ _) as [comp| |] eqn:Ec; cbn [bind]; [|exfalso; exact (cp_np _ _ _ Ec)|discriminate].
    destruct (wr s _) as [s1| |] eqn:E1; cbn [bind]; [|exfalso; exact (wr_np _ _ E1)|discriminate].
    destruct (wr s1 comp) as [s2| |] eqn:E2; cbn [bind]; [discriminate|exfalso; exact (wr_np _ _ E2)|discriminate].
  Qed.

  Lemma cwb_reset s w lvl s' w' e : cwb SK wr cnt compress c s w lvl = Done (s', w', e) -> w' = bw_reset w.
  Proof. intro H. exact (proj2 (proj2 (cwb_spec SK wr cnt compress c s w lvl s' w' e H))). Qed.

  (* ---- the cascade of Writer::insert ---- *)
  (* a block that received nothing in this insert is below the block size: nothing above it is cut *)
  Lemma cascade_stale : forall up s lg cur lvl,
    lvl = len up + 1 -> (2 <= lvl -> below c cur) -> upinv c lvl up ->
    cascade_from SK wr cnt compress c s lg cur lvl up = Done (s, lg, cur :: up).
  Proof.
    induction up as [|parent up IH]; intros s lg cur lvl Hlvl Hb Hup; cbn [cascade_from]; [reflexivity|].
    rewrite len_cons in Hlvl. cbn [upinv] in Hup. destruct Hup as (_ & Hpb & Hup').
    assert (Hbl : below c cur) by (apply Hb; lia). unfold below in Hbl.
    destruct (N.leb_spec (wc_block_size c) (bw_size cur)) as [|_]; [lia|].
    rewrite (IH s lg parent (lvl - 1) ltac:(lia) Hpb Hup'). reflexivity.
  Qed.

  (* [cur] has just received the key [key]: every index insert of the cascade carries that key *)
  Lemma cascade_fresh : forall up s lg cur lvl n key,
    lvl = len up + 1 ->
    holds (n + 1) cur -> bw_last cur = Some key -> Forall (holds n) up -> upinv c lvl up -> n + 2 <= U32_MAX ->
    match cascade_from SK wr cnt compress c s lg cur lvl up with
    | Done (_, _, blocks) => Forall (holds (n + 1)) blocks
    | Panic => exists p, In p up /\ record_violation p key
    | Fail _ => True
    end.
  Proof.
    induction up as [|parent up IH]; intros s lg cur lvl n key Hlvl Hcur Hlast Hups Hup Hn; cbn [cascade_from].
    - constructor; [exact Hcur|constructor].
    - rewrite len_cons in Hlvl. cbn [upinv] in Hup. destruct Hup as (Hpe & Hpb & Hup').
      inversion Hups as [|? ? Hpar Hups']; subst.
      assert (Hstale : cascade_from SK wr cnt compress c s lg parent (len up + 1 + 1 - 1) up = Done (s, lg, parent :: up)).
      { apply cascade_stale; [lia|exact Hpb|exact Hup']. }
      assert (Hall : Forall (holds (n + 1)) (cur :: parent :: up)).
      { constructor; [exact Hcur|]. constructor; [exact (holds_mono n (n + 1) _ ltac:(lia) Hpar)|].
        eapply Forall_impl; [|exact Hups']. intros a Ha. exact (holds_mono n (n + 1) _ ltac:(lia) Ha). }
      destruct (N.leb_spec (wc_block_size c) (bw_size cur)) as [Hge|Hlt].
      2:{ rewrite Hstale. cbn [bind]. exact Hall. }
      rewrite Hlast.
      destruct (bw_insert parent key (be_bytes 8 (cnt s))) as [parent'| |] eqn:Ep; cbn [bind]; [| |exact I].
      2:{ exists parent. split; [left; reflexivity|].
          exact (index_insert_panic parent cur key _ (holds_E _ _ Hpar) (holds_E _ _ Hcur) Hlast Ep). }
      destruct (cwb SK wr cnt compress c s cur (len up + 1 + 1)) as [[[s1 cur'] e]| |] eqn:Ec; cbn [bind]; [| |exact I].
      2:{ exfalso. revert Ec. apply cwb_no_panic. pose proof (holds_noffsets _ _ Hcur). lia. }
      pose proof (cwb_reset _ _ _ _ _ _ Ec) as ->.
      specialize (IH s1 (e :: lg) parent' (len up + 1 + 1 - 1) n key ltac:(lia) (holds_insert _ _ _ _ _ Hpar Ep)
                     (bw_insert_last _ _ _ _ Ep) Hups' Hup' Hn).
      destruct (cascade_from SK wr cnt compress c s1 (e :: lg) parent' (len up + 1 + 1 - 1) up) as [[[s2 lg2] ups]| |]; cbn [bind]; [| |exact I].
      + constructor; [apply holds_reset|exact IH].
      + destruct IH as (p & Hin & Hv). exists p. split; [right; exact Hin|exact Hv].
  Qed.

  Definition cap (n : N) (st : wstate SK) : Prop := holds n (w_data st) /\ Forall (holds n) (w_idx st).

  Lemma Forall_rev' {A} (P : A -> Prop) l : Forall P (rev l) -> Forall P l.
  Proof. intro H. rewrite <- (rev_involutive l). apply Forall_rev. exact H. Qed.

  (* Writer::insert: the outcome, classified *)
  Theorem w_insert_cases st k v n :
    wst_inv SK c st -> cap n st -> n + 2 <= U32_MAX ->
    match w_insert SK wr cnt compress c st k v with
    | Done st' => cap (n + 1) st' /\ exists es, bw_ok (w_data st) es /\ order_ok es k v
    | Panic => data_violation (w_data st) k v \/ exists p, In p (w_idx st) /\ record_violation p k
    | Fail _ => True
    end.
  Proof.
    intros (Hde & Hdb & Hidx & Hlen & Hlg) [Hcd Hci] Hn. unfold w_insert.
    destruct Hcd as (esd & Hokd & Hld).
    destruct (bw_insert (w_data st) k v) as [d| |] eqn:Ed; cbn [bind]; [| |exact I].
    2:{ left. exists esd. split; [exact Hokd|exact (bw_insert_panic _ _ _ _ Hokd Ed)]. }
    destruct (bw_insert_done _ _ _ _ _ Hokd Ed) as [Hokd' Hord].
    assert (Hhd : holds (n + 1) d) by (exact (holds_insert n _ _ _ _ (ex_intro _ esd (conj Hokd Hld)) Ed)).
    assert (Hci1 : Forall (holds (n + 1)) (w_idx st)).
    { eapply Forall_impl; [|exact Hci]. intros a Ha. exact (holds_mono n (n + 1) _ ltac:(lia) Ha). }
    assert (Hgood : exists es, bw_ok (w_data st) es /\ order_ok es k v) by (exists esd; auto).
    destruct (N.leb_spec (wc_block_size c) (bw_size d)) as [Hge|Hlt].
    2:{ split; [split; cbn [w_data w_idx]; assumption|exact Hgood]. }
    rewrite (bw_insert_last _ _ _ _ Ed).
    destruct (rev (w_idx st)) as [|deepest above] eqn:Er.
    { split; [split; cbn [w_data w_idx]; assumption|exact Hgood]. }
    assert (Hrev : Forall (holds n) (deepest :: above)) by (rewrite <- Er; apply Forall_rev; exact Hci).
    inversion Hrev as [|? ? Hdeep Habove]; subst.
    assert (Hin_rev : forall p, In p (deepest :: above) -> In p (w_idx st)).
    { intros p Hp. apply in_rev. rewrite Er. exact Hp. }
    cbn [upinv] in Hidx. destruct Hidx as (Hpe & Hpb & Hupab). replace (L + 1 - 1) with L in * by lia.
    destruct (bw_insert deepest k (be_bytes 8 (cnt (w_sink st)))) as [deepest'| |] eqn:Ep; cbn [bind]; [| |exact I].
    2:{ right. exists deepest. split; [apply Hin_rev; left; reflexivity|].
        exact (index_insert_panic deepest d k _ Hpe (holds_E _ _ Hhd) (bw_insert_last _ _ _ _ Ed) Ep). }
    destruct (cwb SK wr cnt compress c (w_sink st) d (L + 1)) as [[[s1 d'] e]| |] eqn:Ec; cbn [bind]; [| |exact I].
    2:{ exfalso. revert Ec. apply cwb_no_panic. pose proof (holds_noffsets _ _ Hhd). lia. }
    pose proof (cwb_reset _ _ _ _ _ _ Ec) as ->.
    assert (Hlen_above : len above = L).
    { apply (f_equal (@length bw)) in Er. rewrite rev_length in Er. cbn [length] in Er. rewrite len_length in *. lia. }
    destruct (rev (deepest' :: above)) as [|root sl] eqn:Er2.
    { exfalso. apply (f_equal (@length bw)) in Er2. rewrite rev_length in Er2. discriminate. }
    apply rev_cons_split' in Er2. destruct Er2 as [(Ea & Eroot & Esl)|(up & Ea & Esl)].
    - subst above sl root. cbn [rev].
      split; [|exact Hgood]. split; cbn [w_data w_idx]; [apply holds_reset|].
      constructor; [exact (holds_insert _ _ _ _ _ Hdeep Ep)|constructor].
    - rewrite Esl. subst above. rewrite len_app, len_cons in Hlen_above. change (len (@nil bw)) with 0 in Hlen_above.
      apply (upinv_app compress c HB) in Hupab. destruct Hupab as [Hup Hroot].
      apply Forall_app in Habove. destruct Habove as [Hups Hr]. inversion Hr as [|? ? Hroot' _]; subst.
      pose proof (cascade_fresh up s1 (e :: w_log st) deepest' L n k ltac:(lia) (holds_insert _ _ _ _ _ Hdeep Ep)
                    (bw_insert_last _ _ _ _ Ep) Hups Hup Hn) as Hcas.
      destruct (cascade_from SK wr cnt compress c s1 (e :: w_log st) deepest' L up) as [[[s2 lg2] blocks]| |]; cbn [bind]; [| |exact I].
      + split; [|exact Hgood]. split; cbn [w_data w_idx]; [apply holds_reset|].
        constructor; [exact (holds_mono n (n + 1) _ ltac:(lia) Hroot')|]. apply Forall_rev. exact Hcas.
      + right. destruct Hcas as (p & Hin & Hv). exists p. split; [|exact Hv].
        apply Hin_rev. right. apply in_or_app. left. exact Hin.
  Qed.

  (* ---- the bottom-up flush of Writer::into_inner ---- *)
  Lemma flush_panic : forall up s lg cur lvl n,
    holds (n + 1) cur -> Forall (holds n) up -> n + 2 <= U32_MAX ->
    flush_from SK wr cnt compress c s lg cur lvl up = Panic ->
    exists p key, In p up /\ record_violation p key /\
                  (bw_last cur = Some key \/ exists q, In q up /\ bw_last q = Some key).
  Proof.
    induction up as [|parent up IH]; intros s lg cur lvl n Hcur Hups Hn H; cbn [flush_from] in H.
    - exfalso. assert (Hnp := cwb_no_panic s cur lvl ltac:(pose proof (holds_noffsets _ _ Hcur); lia)).
      destruct (bw_last cur); destruct (cwb SK wr cnt compress c s cur lvl) as [[[s' w'] e]| |]; cbn [bind] in H;
        try discriminate; apply Hnp; reflexivity.
    - inversion Hups as [|? ? Hpar Hups']; subst.
      destruct (bw_last cur) as [lk|] eqn:El.
      + destruct (bw_insert parent lk (be_bytes 8 (cnt s))) as [parent'| |] eqn:Ep; cbn [bind] in H; [| |discriminate].
        2:{ exists parent, lk. split; [left; reflexivity|]. split; [|left; reflexivity].
            exact (index_insert_panic parent cur lk _ (holds_E _ _ Hpar) (holds_E _ _ Hcur) El Ep). }
        destruct (cwb SK wr cnt compress c s cur lvl) as [[[s' w'] e]| |] eqn:Ec; cbn [bind] in H; [| |discriminate].
        2:{ exfalso. revert Ec. apply cwb_no_panic. pose proof (holds_noffsets _ _ Hcur). lia. }
        destruct (IH s' (e :: lg) parent' (lvl - 1) n (holds_insert _ _ _ _ _ Hpar Ep) Hups' Hn H) as (p & key & Hin & Hv & Hk).
        exists p, key. split; [right; exact Hin|]. split; [exact Hv|].
        destruct Hk as [Hk|(q & Hq & Hk)].
        * rewrite (bw_insert_last _ _ _ _ Ep) in Hk. injection Hk as <-. left; reflexivity.
        * right. exists q. split; [right; exact Hq|exact Hk].
      + destruct (IH s lg parent (lvl - 1) n (holds_mono n (n + 1) _ ltac:(lia) Hpar) Hups' Hn H) as (p & key & Hin & Hv & Hk).
        exists p, key. split; [right; exact Hin|]. split; [exact Hv|]. right.
        destruct Hk as [Hk|(q & Hq & Hk)].
        * exists parent. split; [left; reflexivity|exact Hk].
        * exists q. split; [right; exact Hq|exact Hk].
  Qed.

  (* Writer::into_inner panics only because an index block refuses the last key of a pending block *)
  Theorem w_finish_panic_cause st n :
    wst_inv SK c st -> cap n st -> n + 2 <= U32_MAX ->
    w_finish SK wr fl cnt compress c st = Panic ->
    exists p key, In p (w_idx st) /\ record_violation p key /\
                  (bw_last (w_data st) = Some key \/ exists q, In q (w_idx st) /\ bw_last q = Some key).
  Proof.
    intros (Hde & Hdb & Hidx & Hlen & Hlg) [Hcd Hci] Hn H. unfold w_finish in H.
    assert (Htrailer : forall s2 (lg2 : list emitted) (root_off : N) (idx : list bw),
      (let m := mk_meta FormatV2 root_off (wc_codec c) (w_count st) (u8 (len idx - 1)) in
       do s3 <- wr s2 (le_bytes 8 (m_root m));
       do s4 <- wr s3 [u8 (m_codec m)];
       do s5 <- wr s4 (le_bytes 8 (m_count m));
       do s6 <- wr s5 [u8 (m_levels m)];
       do s7 <- wr s6 (le_bytes 4 MAGIC_V2);
       do s8 <- fl s7; Done (s8, lg2, m)) <> Panic).
    { intros s2 lg2 root_off idx. cbv zeta.
      repeat (match goal with |- bind (wr ?s ?b) _ <> Panic => let E := fresh "E" in destruct (wr s b) eqn:E; cbn [bind];
                [|exfalso; exact (wr_np _ _ E)|discriminate] end).
      match goal with |- bind (fl ?s) _ <> Panic => let E := fresh "E" in destruct (fl s) eqn:E; cbn [bind];
                [discriminate|exfalso; exact (fl_np _ E)|discriminate] end. }
    assert (Hin_rev : forall p, In p (rev (w_idx st)) -> In p (w_idx st)) by (intros p Hp; apply in_rev; exact Hp).
    assert (Hrev : Forall (holds n) (rev (w_idx st))) by (apply Forall_rev; exact Hci).
    destruct (bw_last (w_data st)) as [last_key|] eqn:El.
    - destruct (rev (w_idx st)) as [|deepest above] eqn:Er.
      + exfalso. apply (f_equal (@length bw)) in Er. rewrite rev_length in Er. rewrite len_length in Hlen. cbn [length] in Er. lia.
      + inversion Hrev as [|? ? Hdeep Habove]; subst.
        destruct (bw_insert deepest last_key (be_bytes 8 (cnt (w_sink st)))) as [deepest'| |] eqn:Ep; cbn [bind] in H; [| |discriminate].
        2:{ exists deepest, last_key. split; [apply Hin_rev; left; reflexivity|]. split; [|left; reflexivity].
            exact (index_insert_panic deepest (w_data st) last_key _ (holds_E _ _ Hdeep) Hde El Ep). }
        destruct (cwb SK wr cnt compress c (w_sink st) (w_data st) (L + 1)) as [[[s1 d'] e]| |] eqn:Ec; cbn [bind] in H; [| |discriminate].
        2:{ exfalso. revert Ec. apply cwb_no_panic. pose proof (holds_noffsets _ _ Hcd). lia. }
        rewrite rev_involutive in H.
        destruct (flush_from SK wr cnt compress c s1 (e :: w_log st) deepest' L above) as [[[s2 lg2] ro]| |] eqn:Ef; cbn [bind] in H;
          [exfalso; revert H; apply Htrailer| |discriminate].
        destruct (flush_panic above s1 (e :: w_log st) deepest' L n (holds_insert _ _ _ _ _ Hdeep Ep) Habove Hn Ef)
          as (p & key & Hin & Hv & Hk).
        exists p, key. split; [apply Hin_rev; right; exact Hin|]. split; [exact Hv|].
        destruct Hk as [Hk|(q & Hq & Hk)].
        * rewrite (bw_insert_last _ _ _ _ Ep) in Hk. injection Hk as <-. left; reflexivity.
        * right. exists q. split; [apply Hin_rev; right; exact Hq|exact Hk].
    - cbn [bind] in H.
      destruct (rev (w_idx st)) as [|cur up] eqn:Er.
      + exfalso. apply (f_equal (@length bw)) in Er. rewrite rev_length in Er. rewrite len_length in Hlen. cbn [length] in Er. lia.
      + inversion Hrev as [|? ? Hcur Hups]; subst.
        destruct (flush_from SK wr cnt compress c (w_sink st) (w_log st) cur L up) as [[[s2 lg2] ro]| |] eqn:Ef; cbn [bind] in H;
          [exfalso; revert H; apply Htrailer| |discriminate].
        destruct (flush_panic up _ _ cur L n (holds_mono n (n + 1) _ ltac:(lia) Hcur) Hups Hn Ef) as (p & key & Hin & Hv & Hk).
        exists p, key. split; [apply Hin_rev; right; exact Hin|]. split; [exact Hv|]. right.
        destruct Hk as [Hk|(q & Hq & Hk)].
        * exists cur. split; [apply Hin_rev; left; reflexivity|exact Hk].
        * exists q. split; [apply Hin_rev; right; exact Hq|exact Hk].
  Qed.

  (* ---- whole runs ---- *)
  Lemma w_new_cap s : cap 0 (w_new SK c s).
  Proof.
    split; cbn [w_new w_data w_idx].
    - exists []. split; [apply bw_new_ok|change (len (@nil entry)) with 0; lia].
    - apply Forall_forall. intros p Hp. apply repeat_spec in Hp. subst p.
      exists []. split; [apply bw_new_ok|change (len (@nil entry)) with 0; lia].
  Qed.

  Lemma w_inserts_at_app : forall pre rest st i,
    w_inserts_at SK wr cnt compress c st (pre ++ rest) i =
    match w_inserts_at SK wr cnt compress c st pre i with
    | (j, Done st') => w_inserts_at SK wr cnt compress c st' rest j
    | r => r
    end.
  Proof.
    induction pre as [|[k v] pre IH]; intros rest st i; cbn [app w_inserts_at]; [reflexivity|].
    destruct (w_insert SK wr cnt compress c st k v) as [st1| |]; [apply IH|reflexivity|reflexivity].
  Qed.

  (* the state reached after the inserts [pre] *)
  Definition reaches (s0 : SK) (pre : list entry) (st : wstate SK) : Prop :=
    w_inserts_at SK wr cnt compress c (w_new SK c s0) pre 0 = (len pre, Done st).

  Lemma w_inserts_at_reach : forall es st i n j st',
    wst_inv SK c st -> cap n st -> n + len es + 1 <= U32_MAX ->
    w_inserts_at SK wr cnt compress c st es i = (j, Done st') ->
    j = i + len es /\ wst_inv SK c st' /\ cap (n + len es) st'.
  Proof.
    induction es as [|[k v] es IH]; intros st i n j st' Hinv Hcap Hn H; cbn [w_inserts_at] in H.
    - injection H as <- <-. change (len (@nil entry)) with 0. rewrite !N.add_0_r. auto.
    - rewrite len_cons in *.
      pose proof (w_insert_cases st k v n Hinv Hcap ltac:(lia)) as Hc.
      destruct (w_insert SK wr cnt compress c st k v) as [st1| |] eqn:E; try discriminate.
      destruct (w_insert_inv SK wr fl cnt compress c HB st k v st1 E Hinv) as [Hinv1 _].
      destruct (IH st1 (N.succ i) (n + 1) j st' Hinv1 (proj1 Hc) ltac:(lia) H) as (Ej & Hinv' & Hcap').
      split; [lia|]. split; [exact Hinv'|]. replace (n + (len es + 1)) with (n + 1 + len es) by lia. exact Hcap'.
  Qed.

  (* an insert the data block refuses panics at exactly that insert, whatever follows *)
  Theorem w_run_data_violation s0 pre k v post st :
    reaches s0 pre st -> data_violation (w_data st) k v ->
    w_run_gen SK wr fl cnt compress c s0 (pre ++ (k, v) :: post) = (len pre, Panic).
  Proof.
    intros Hr (es & Hok & Hv). unfold w_run_gen, reaches in *. rewrite w_inserts_at_app, Hr. cbn [w_inserts_at].
    unfold w_insert. destruct (bw_insert_spec (w_data st) es k v Hok) as [_ Hbad].
    rewrite (Hbad Hv). reflexivity.
  Qed.

  (* every panic of a run is an order assertion: of the data block on the entry of the panicking insert, or
     of an index block on the last key of a block it is asked to record (in that insert, or in into_inner) *)
  Theorem w_run_panic_cause s0 es i :
    L < 256 -> len es + 2 <= U32_MAX ->
    w_run_gen SK wr fl cnt compress c s0 es = (i, Panic) ->
    exists pre st, reaches s0 pre st /\ i = len pre /\
      ((exists k v post, es = pre ++ (k, v) :: post /\
          (data_violation (w_data st) k v \/ exists p, In p (w_idx st) /\ record_violation p k))
       \/ (es = pre /\ exists p key, In p (w_idx st) /\ record_violation p key /\
             (bw_last (w_data st) = Some key \/ exists q, In q (w_idx st) /\ bw_last q = Some key))).
  Proof.
    intros HL Hn H. unfold w_run_gen in H.
    assert (G : forall rest pre st, es = pre ++ rest -> reaches s0 pre st ->
              wst_inv SK c st -> cap (len pre) st ->
              forall r, w_inserts_at SK wr cnt compress c st rest (len pre) = r ->
              match r with
              | (j, Panic) => exists pre' st', reaches s0 pre' st' /\ j = len pre' /\
                   exists k v post, es = pre' ++ (k, v) :: post /\
                     (data_violation (w_data st') k v \/ exists p, In p (w_idx st') /\ record_violation p k)
              | (j, Done st') => reaches s0 es st' /\ j = len es /\ wst_inv SK c st' /\ cap (len es) st'
              | (_, Fail _) => True
              end).
    { induction rest as [|[k v] rest IH]; intros pre st Ees Hr Hinv Hcap r Er; cbn [w_inserts_at] in Er.
      - rewrite app_nil_r in Ees. subst r es. auto.
      - assert (Hlen : len pre + 2 <= U32_MAX).
        { rewrite Ees, len_app, len_cons in Hn. lia. }
        pose proof (w_insert_cases st k v (len pre) Hinv Hcap Hlen) as Hc.
        destruct (w_insert SK wr cnt compress c st k v) as [st1| |e] eqn:E.
        + destruct (w_insert_inv SK wr fl cnt compress c HB st k v st1 E Hinv) as [Hinv1 _].
          assert (Hr1 : reaches s0 (pre ++ [(k, v)]) st1).
          { unfold reaches in *. rewrite w_inserts_at_app, Hr. cbn [w_inserts_at]. rewrite E.
            rewrite len_app, len_cons. change (len (@nil entry)) with 0. f_equal. lia. }
          assert (El1 : len (pre ++ [(k, v)]) = N.succ (len pre)).
          { rewrite len_app, len_cons. change (len (@nil entry)) with 0. lia. }
          apply (IH (pre ++ [(k, v)]) st1); [rewrite <- app_assoc; exact Ees|exact Hr1|exact Hinv1| |rewrite El1; exact Er].
          rewrite El1. replace (N.succ (len pre)) with (len pre + 1) by lia. exact (proj1 Hc).
        + subst r. exists pre, st. split; [exact Hr|]. split; [reflexivity|]. exists k, v, rest. split; [exact Ees|exact Hc].
        + subst r. exact I. }
    specialize (G es [] (w_new SK c s0) eq_refl eq_refl (w_new_inv SK wr fl cnt compress c HB s0 HL) (w_new_cap s0) _ eq_refl).
    change (len (@nil entry)) with 0 in G.
    destruct (w_inserts_at SK wr cnt compress c (w_new SK c s0) es 0) as [j [st| |e]] eqn:E.
    - destruct G as (Hr & -> & Hinv & Hcap). injection H as <- H.
      exists es, st. split; [exact Hr|]. split; [reflexivity|]. right. split; [reflexivity|].
      exact (w_finish_panic_cause st (len es) Hinv Hcap Hn H).
    - injection H as <-. destruct G as (pre' & st' & Hr & -> & k & v & post & Ees & Hc).
      exists pre', st'. split; [exact Hr|]. split; [reflexivity|]. left. exists k, v, post. auto.
    - discriminate.
  Qed.
End Panic.
