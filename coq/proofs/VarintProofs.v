(* Proofs about model/Varint.v: base-128 digit arithmetic, round trip for all v < 2^32. *)
From Coq Require Import Lia ZArith ZifyN ZifyBool.
From Grenad.model Require Import Base Varint.
Ltac Zify.zify_post_hook ::= Z.div_mod_to_equations.

(* ---- arithmetic characterisations ---- *)
Lemma land127 x : N.land x 127 = x mod 128.
Proof. change 127 with (N.ones 7). rewrite N.land_ones. reflexivity. Qed.

Definition bytes256 : list N := map N.of_nat (seq 0 256).
Lemma byte_sweep (P : N -> bool) : forallb P bytes256 = true -> forall x, x < 256 -> P x = true.
Proof.
  intros H x Hx. rewrite forallb_forall in H. apply H.
  unfold bytes256. apply in_map_iff. exists (N.to_nat x). split; [lia|].
  apply in_seq. lia.
Qed.

Lemma land128_zero x : x < 256 -> (N.land x 128 =? 0) = (x <? 128).
Proof.
  intro H. apply N.eqb_eq in H || idtac.
  pose proof (byte_sweep (fun x => Bool.eqb (N.land x 128 =? 0) (x <? 128)) eq_refl x H) as E.
  apply Bool.eqb_prop in E. exact E.
Qed.

Lemma lor128_byte y : y < 256 -> (N.lor y 128) mod 256 = y mod 128 + 128.
Proof.
  intro H.
  pose proof (byte_sweep (fun y => (N.lor y 128) mod 256 =? y mod 128 + 128) eq_refl y H) as E.
  apply N.eqb_eq in E. exact E.
Qed.

Lemma lor128 x : u8 (N.lor x 128) = x mod 128 + 128.
Proof.
  unfold u8.
  assert (E : (N.lor x 128) mod 256 = (N.lor (x mod 256) 128) mod 256).
  { change 256 with (2^8). rewrite <- !N.land_ones. rewrite !N.land_lor_distr_l.
    rewrite <- N.land_assoc, N.land_diag. reflexivity. }
  rewrite E. rewrite lor128_byte by (apply N.mod_lt; lia).
  assert (x mod 256 mod 128 = x mod 128) by lia. lia.
Qed.

Lemma testbit_small a n k : a < 2^k -> k <= n -> N.testbit a n = false.
Proof.
  intros Ha Hn. destruct (N.eq_dec a 0) as [->|H0]; [apply N.bits_0|].
  apply N.bits_above_log2. apply N.lt_le_trans with k; [|exact Hn].
  apply N.log2_lt_pow2; lia.
Qed.

Lemma lor_disjoint a b k : a < 2^k -> N.lor a (N.shiftl b k) = a + b * 2^k.
Proof.
  intro H. rewrite N.shiftl_mul_pow2.
  assert (Z0 : N.land a (b * 2^k) = 0).
  { apply N.bits_inj; intro n. rewrite N.land_spec, N.bits_0.
    destruct (N.ltb_spec n k).
    - rewrite N.mul_pow2_bits_low by lia. apply Bool.andb_false_r.
    - rewrite (testbit_small a n k) by lia. reflexivity. }
  rewrite <- N.lxor_lor by exact Z0.
  symmetry. apply N.add_nocarry_lxor. exact Z0.
Qed.

Lemma shiftr_div x k : N.shiftr x k = x / 2^k.
Proof. apply N.shiftr_div_pow2. Qed.

Arguments N.add : simpl never. Arguments N.mul : simpl never. Arguments N.div : simpl never.
Arguments N.modulo : simpl never. Arguments N.pow : simpl never. Arguments N.ltb : simpl never.
Arguments N.land : simpl never. Arguments N.lor : simpl never. Arguments N.shiftl : simpl never. Arguments N.shiftr : simpl never.
Arguments N.eqb : simpl never.

Definition encode_arith (v : N) : list N :=
  if v <? 2^7 then [v]
  else if v <? 2^14 then [v mod 128 + 128; v / 2^7]
  else if v <? 2^21 then [v mod 128 + 128; (v / 2^7) mod 128 + 128; v / 2^14]
  else if v <? 2^28 then [v mod 128 + 128; (v / 2^7) mod 128 + 128; (v / 2^14) mod 128 + 128; v / 2^21]
  else [v mod 128 + 128; (v / 2^7) mod 128 + 128; (v / 2^14) mod 128 + 128; (v / 2^21) mod 128 + 128; v / 2^28].

Lemma u8_small x : x < 256 -> u8 x = x.
Proof. intro H. unfold u8. apply N.mod_small. exact H. Qed.
Lemma div_lt x k m : x < m * 2^k -> x / 2^k < m.
Proof. intro H. apply N.div_lt_upper_bound; [apply N.pow_nonzero; lia| lia]. Qed.

Lemma encode_is_arith v : v < 2^32 -> varint_encode32 v = encode_arith v.
Proof.
  intro Hv. unfold varint_encode32, encode_arith.
  rewrite !lor128, !shiftr_div.
  destruct (N.ltb_spec v (2^7)); [rewrite u8_small by (change (2^7) with 128 in *; lia); reflexivity|].
  destruct (N.ltb_spec v (2^14)).
  { rewrite u8_small; [reflexivity|]. apply N.lt_trans with 128; [apply div_lt; exact H0 | lia]. }
  destruct (N.ltb_spec v (2^21)).
  { rewrite u8_small; [reflexivity|]. apply N.lt_trans with 128; [apply div_lt; exact H1 | lia]. }
  destruct (N.ltb_spec v (2^28)).
  { rewrite u8_small; [reflexivity|]. apply N.lt_trans with 128; [apply div_lt; exact H2 | lia]. }
  rewrite u8_small; [reflexivity|]. apply N.lt_trans with 16; [apply div_lt; exact Hv | lia].
Qed.

(* a continuation byte and a terminator byte, as seen by the length scan *)
Lemma cont_byte d : d < 128 -> (N.land (d + 128) 128 =? 0) = false.
Proof. intro H. rewrite land128_zero by lia. apply N.ltb_ge. lia. Qed.
Lemma term_byte d : d < 128 -> (N.land d 128 =? 0) = true.
Proof. intro H. rewrite land128_zero by lia. apply N.ltb_lt. lia. Qed.

Lemma low7_cont d : d < 128 -> N.land (d + 128) 127 = d.
Proof. intro H. rewrite land127. lia. Qed.
Lemma low7_term d : d < 128 -> N.land d 127 = d.
Proof. intro H. rewrite land127. apply N.mod_small. lia. Qed.

Lemma or_shift a d k : a < 2^k -> d * 2^k < 2^32 -> N.lor a (u32 (N.shiftl d k)) = a + d * 2^k.
Proof.
  intros Ha Hd. unfold u32. rewrite N.shiftl_mul_pow2, N.mod_small by exact Hd.
  rewrite <- (lor_disjoint a d k Ha). rewrite N.shiftl_mul_pow2. reflexivity.
Qed.

Theorem varint_roundtrip v rest : v < 2^32 ->
  let e := varint_encode32 v in
  (1 <= length e <= 5)%nat /\ Forall (fun b => b < 256) e /\
  varint_decode32_raw (e ++ rest) = (v, N.of_nat (length e)).
Proof.
  intro Hv. cbv zeta. rewrite encode_is_arith by exact Hv. unfold encode_arith.
  assert (M : forall x, x mod 128 < 128) by (intro; apply N.mod_lt; lia).
  destruct (N.ltb_spec v (2^7)) as [H1|H1].
  { split; [simpl; lia|]. split; [repeat constructor; lia|].
    unfold varint_decode32_raw, varint_length_packed, byte_at. cbn [app firstn length_packed_aux nth].
    rewrite term_byte by lia. cbn [N.ltb]. rewrite low7_term by lia.
    change (1 <? 0 + 1) with false. change (2 <? 0 + 1) with false. change (3 <? 0 + 1) with false. change (4 <? 0 + 1) with false.
    reflexivity. }
  destruct (N.ltb_spec v (2^14)) as [H2|H2].
  { assert (v / 2^7 < 128) by (change (2^14) with (128 * 2^7) in H2; apply N.div_lt_upper_bound; lia).
    split; [simpl; lia|]. split; [repeat constructor; specialize (M v); lia|].
    unfold varint_decode32_raw, varint_length_packed, byte_at. cbn [app firstn length_packed_aux nth].
    rewrite cont_byte by apply M. rewrite term_byte by lia.
    change (1 <? 0 + 1 + 1) with true. change (2 <? 0 + 1 + 1) with false. change (3 <? 0 + 1 + 1) with false. change (4 <? 0 + 1 + 1) with false.
    rewrite low7_cont by apply M. rewrite low7_term by lia.
    rewrite or_shift; [|change (2^7) with 128; apply M| change (2^7) with 128; change (2^32) with 4294967296; lia].
    cbn [length]. f_equal. change (2^7) with 128 in *. lia. }
  assert (P7 : 2^7 = 128) by reflexivity. assert (P14 : 2^14 = 16384) by reflexivity.
  assert (P21 : 2^21 = 2097152) by reflexivity. assert (P28 : 2^28 = 268435456) by reflexivity.
  assert (P32 : 2^32 = 4294967296) by reflexivity.
  pose proof (M v) as M0. pose proof (M (v / 2^7)) as M1. pose proof (M (v / 2^14)) as M2. pose proof (M (v / 2^21)) as M3.
  destruct (N.ltb_spec v (2^21)) as [H3|H3].
  { assert (v / 2^14 < 128) by (apply div_lt; exact H3).
    split; [simpl; lia|]. split; [repeat constructor; lia|].
    unfold varint_decode32_raw, varint_length_packed, byte_at. cbn [app firstn length_packed_aux nth].
    rewrite !cont_byte by apply M. rewrite term_byte by lia.
    change (1 <? 0 + 1 + 1 + 1) with true. change (2 <? 0 + 1 + 1 + 1) with true. change (3 <? 0 + 1 + 1 + 1) with false. change (4 <? 0 + 1 + 1 + 1) with false.
    rewrite !low7_cont by apply M. rewrite low7_term by lia.
    rewrite (or_shift (v mod 128) _ 7) by lia.
    rewrite (or_shift _ _ 14) by lia.
    cbn [length]. f_equal. lia. }
  destruct (N.ltb_spec v (2^28)) as [H4|H4].
  { assert (v / 2^21 < 128) by (apply div_lt; exact H4).
    split; [simpl; lia|]. split; [repeat constructor; lia|].
    unfold varint_decode32_raw, varint_length_packed, byte_at. cbn [app firstn length_packed_aux nth].
    rewrite !cont_byte by apply M. rewrite term_byte by lia.
    change (1 <? 0 + 1 + 1 + 1 + 1) with true. change (2 <? 0 + 1 + 1 + 1 + 1) with true. change (3 <? 0 + 1 + 1 + 1 + 1) with true. change (4 <? 0 + 1 + 1 + 1 + 1) with false.
    rewrite !low7_cont by apply M. rewrite low7_term by lia.
    rewrite (or_shift (v mod 128) _ 7) by lia.
    rewrite (or_shift _ _ 14) by lia.
    rewrite (or_shift _ _ 21) by lia.
    cbn [length]. f_equal. lia. }
  { assert (v / 2^28 < 16) by (apply div_lt; exact Hv).
    split; [simpl; lia|]. split; [repeat constructor; lia|].
    unfold varint_decode32_raw, varint_length_packed, byte_at. cbn [app firstn length_packed_aux nth].
    rewrite !cont_byte by apply M. rewrite term_byte by lia.
    change (1 <? 0 + 1 + 1 + 1 + 1 + 1) with true. change (2 <? 0 + 1 + 1 + 1 + 1 + 1) with true. change (3 <? 0 + 1 + 1 + 1 + 1 + 1) with true. change (4 <? 0 + 1 + 1 + 1 + 1 + 1) with true.
    rewrite !low7_cont by apply M.
    rewrite (or_shift (v mod 128) _ 7) by lia.
    rewrite (or_shift _ _ 14) by lia.
    rewrite (or_shift _ _ 21) by lia.
    rewrite (or_shift _ _ 28) by lia.
    cbn [length]. f_equal. lia. }
Qed.

Lemma varint_encode_nonempty v : varint_encode32 v <> [].
Proof.
  unfold varint_encode32.
  destruct (v <? 2^7); [discriminate|]. destruct (v <? 2^14); [discriminate|].
  destruct (v <? 2^21); [discriminate|]. destruct (v <? 2^28); discriminate.
Qed.

Lemma varint_decode_encode v rest : v < 2^32 ->
  varint_decode32 (varint_encode32 v ++ rest) = Done (v, N.of_nat (length (varint_encode32 v))).
Proof.
  intro Hv. pose proof (varint_roundtrip v rest Hv) as [_ [_ E]].
  unfold varint_decode32. destruct (varint_encode32 v ++ rest) eqn:Ee.
  - apply app_eq_nil in Ee. destruct Ee as [Ee _]. exfalso. exact (varint_encode_nonempty v Ee).
  - f_equal. exact E.
Qed.

Lemma varint_encode_length v : v < 2^32 ->
  length (varint_encode32 v) =
  (1 + (if (2^7 <=? v)%N then 1 else 0) + (if (2^14 <=? v)%N then 1 else 0)
     + (if (2^21 <=? v)%N then 1 else 0) + (if (2^28 <=? v)%N then 1 else 0))%nat.
Proof.
  intro Hv. unfold varint_encode32.
  assert (P7 : 2^7 = 128) by reflexivity. assert (P14 : 2^14 = 16384) by reflexivity.
  assert (P21 : 2^21 = 2097152) by reflexivity. assert (P28 : 2^28 = 268435456) by reflexivity.
  destruct (N.ltb_spec v (2^7)); destruct (N.leb_spec (2^7) v); try lia;
  destruct (N.ltb_spec v (2^14)); destruct (N.leb_spec (2^14) v); try lia;
  destruct (N.ltb_spec v (2^21)); destruct (N.leb_spec (2^21) v); try lia;
  destruct (N.ltb_spec v (2^28)); destruct (N.leb_spec (2^28) v); try lia; reflexivity.
Qed.
