(* Proofs about model/Block.v: entry framing is read back exactly by entry_at (C14), the size
   estimate of the block writer is the exact finished size (C15), the keys of a block under
   construction are strictly ascending or the insert panics (C18), and a finished block
   parses back to its payload and offset table (C01/C09). *)
From Coq Require Import Lia ZArith ZifyN ZifyBool ZifyNat.
From Grenad.model Require Import Base Varint Block Spec.
From Grenad.proofs Require Import BaseProofs VarintProofs.
Ltac Zify.zify_post_hook ::= Z.div_mod_to_equations.

Definition payload_of (es : list entry) : bytes := flat_map (fun e => frame (fst e) (snd e)) es.
Definition entry_ok (e : entry) : Prop := len (fst e) <= U32_MAX /\ len (snd e) <= U32_MAX.
Definition entries_ok (es : list entry) : Prop := Forall entry_ok es.

Lemma u32max : U32_MAX = 2^32 - 1. Proof. reflexivity. Qed.

Lemma len_varint x : x <= U32_MAX -> 1 <= len (varint_encode32 x) <= 5.
Proof.
  intro H. rewrite len_length. pose proof (varint_roundtrip x [] ltac:(rewrite u32max in H; lia)) as [L _]. lia.
Qed.

Lemma len_frame k v : len (frame k v) = len (varint_encode32 (len k)) + len (varint_encode32 (len v)) + len k + len v.
Proof. unfold frame. rewrite !len_app. lia. Qed.

Lemma frame_len_ge2 k v : entry_ok (k, v) -> 2 <= len (frame k v).
Proof.
  intros [Hk Hv]. cbn [fst snd] in *. rewrite len_frame.
  pose proof (len_varint _ Hk). pose proof (len_varint _ Hv). lia.
Qed.

Lemma varint_decode_len x rest : x <= U32_MAX ->
  varint_decode32 (varint_encode32 x ++ rest) = Done (x, len (varint_encode32 x)).
Proof. intro H. rewrite varint_decode_encode by (rewrite u32max in H; lia). rewrite len_length. reflexivity. Qed.

(* Block::entry_at at the start of a framed entry returns exactly that entry and the offset
   of the next one, whatever precedes and follows it in the payload *)
Lemma entry_at_frame b pre k v post :
  blk_payload b = pre ++ frame k v ++ post -> entry_ok (k, v) ->
  entry_at b (len pre) = Done (Some (k, v, len pre + len (frame k v))).
Proof.
  intros Hp Hok. pose proof (frame_len_ge2 k v Hok) as H2. destruct Hok as [Hk Hv]. cbn [fst snd] in *.
  unfold entry_at. rewrite Hp.
  destruct (N.leb_spec (len (pre ++ frame k v ++ post)) (len pre)) as [Hle|_].
  { rewrite !len_app in Hle. lia. }
  rewrite skipnN_app. unfold frame. rewrite <- !app_assoc.
  rewrite varint_decode_len by exact Hk. cbn [bind].
  rewrite skipnN_app.
  rewrite varint_decode_len by exact Hv. cbn [bind].
  rewrite skipnN_app.
  destruct (N.ltb_spec (len (k ++ v ++ post)) (len k)) as [Hlt|_]; [rewrite !len_app in Hlt; lia|].
  rewrite skipnN_app, firstnN_app.
  destruct (N.ltb_spec (len (v ++ post)) (len v)) as [Hlt|_]; [rewrite !len_app in Hlt; lia|].
  rewrite firstnN_app. do 3 f_equal. rewrite !len_app. lia.
Qed.

Lemma entry_at_end b : entry_at b (len (blk_payload b)) = Done None.
Proof. unfold entry_at. destruct (N.leb_spec (len (blk_payload b)) (len (blk_payload b))); [reflexivity|lia]. Qed.

(* ---- sortedness of adjacent keys, snoc form ---- *)
Lemma sorted_strictb_snoc l k :
  sorted_strictb (l ++ [k]) =
  sorted_strictb l && match last_opt l with Some x => bytes_ltb x k | None => true end.
Proof.
  induction l as [|a l IH]; [reflexivity|].
  destruct l as [|b l]; [cbn; rewrite Bool.andb_true_r; reflexivity|].
  change ((a :: b :: l) ++ [k]) with (a :: (b :: l) ++ [k]).
  cbn [sorted_strictb app] in *. cbn [last_opt] in *.
  rewrite IH. rewrite Bool.andb_assoc. reflexivity.
Qed.

Lemma last_opt_snoc {A} (l : list A) x : last_opt (l ++ [x]) = Some x.
Proof. induction l as [|a l IH]; [reflexivity|]. cbn [app last_opt]. destruct (l ++ [x]) eqn:E; [destruct l; discriminate|exact IH]. Qed.
Lemma last_opt_map {A B} (f : A -> B) l : last_opt (map f l) = option_map f (last_opt l).
Proof. induction l as [|a l IH]; [reflexivity|]. cbn [map last_opt]. destruct l; [reflexivity|]. exact IH. Qed.

(* ---- the block writer invariant ---- *)
(* footer bookkeeping as a function of the entries inserted so far *)
Fixpoint bw_track (interval : N) (es : list entry) (pos ctr : N) (offs : list N) : N * N * list N :=
  match es with
  | [] => (pos, ctr, offs)
  | e :: r =>
    if ctr =? interval then bw_track interval r (pos + len (frame (fst e) (snd e))) 1 (pos :: offs)
    else bw_track interval r (pos + len (frame (fst e) (snd e))) (ctr + 1) offs
  end.

Lemma bw_track_snoc interval es e pos ctr offs :
  bw_track interval (es ++ [e]) pos ctr offs =
  let '(p, c, o) := bw_track interval es pos ctr offs in
  if c =? interval then (p + len (frame (fst e) (snd e)), 1, p :: o)
  else (p + len (frame (fst e) (snd e)), c + 1, o).
Proof.
  revert pos ctr offs; induction es as [|x es IH]; intros pos ctr offs; cbn [app bw_track].
  - destruct (ctr =? interval); reflexivity.
  - destruct (ctr =? interval); apply IH.
Qed.

Record bw_ok (w : bw) (es : list entry) : Prop := mk_bw_ok {
  ok_buf : bw_buf w = payload_of es;
  ok_len : bw_len w = len (bw_buf w);
  ok_last : bw_last w = option_map fst (last_opt es);
  ok_noffs : bw_noffsets w = len (bw_offsets w);
  ok_track : bw_track (bw_interval w) es 0 0 [0] = (bw_len w, bw_counter w, bw_offsets w);
  ok_sorted : sorted_strictb (map fst es) = true;
  ok_entries : entries_ok es }.

Lemma bw_new_ok interval : bw_ok (bw_new interval) [].
Proof. constructor; try reflexivity. constructor. Qed.

Lemma payload_of_snoc es e : payload_of (es ++ [e]) = payload_of es ++ frame (fst e) (snd e).
Proof. unfold payload_of. rewrite flat_map_app. cbn [flat_map]. rewrite app_nil_r. reflexivity. Qed.

Lemma bw_buf_push w f l la i o no c :
  bw_buf (mk_bw (f :: bw_chunks w) l la i o no c) = bw_buf w ++ f.
Proof. unfold bw_buf. cbn [bw_chunks rev]. rewrite concat_app. cbn [concat]. rewrite app_nil_r. reflexivity. Qed.

(* what an insert does: panics exactly when the key is too long or not above the last key;
   otherwise the invariant holds for the extended entry list *)
Lemma bw_insert_spec w es k v :
  bw_ok w es ->
  (entry_ok (k, v) /\ match last_opt es with Some (lk, _) => bytes_ltb lk k = true | None => True end ->
   exists w', bw_insert w k v = Done w' /\ bw_ok w' (es ++ [(k, v)]) /\ bw_interval w' = bw_interval w) /\
  (~ (entry_ok (k, v) /\ match last_opt es with Some (lk, _) => bytes_ltb lk k = true | None => True end) ->
   bw_insert w k v = Panic).
Proof.
  intros [Hbuf Hlen Hlast Hno Htr Hso Hen].
  unfold bw_insert, entry_ok. cbn [fst snd].
  destruct (N.ltb_spec U32_MAX (len k)) as [Hk|Hk]; cbn [orb].
  { split; [intros [[H1 _] _]; lia | reflexivity]. }
  destruct (N.ltb_spec U32_MAX (len v)) as [Hv|Hv].
  { split; [intros [[_ H1] _]; lia | reflexivity]. }
  assert (Hord : (match bw_last w with Some l => bytes_ltb l k | None => true end) = true <->
                 match last_opt es with Some (lk, _) => bytes_ltb lk k = true | None => True end).
  { rewrite Hlast. destruct (last_opt es) as [[lk lv]|]; cbn [option_map fst]; [reflexivity | split; auto]. }
  split.
  - intros [[_ _] Hgt]. apply Hord in Hgt.
    destruct (bw_counter w =? bw_interval w) eqn:Ec; rewrite Hgt; eexists; (split; [reflexivity|]); (split; [|reflexivity]).
    + constructor; cbn [bw_len bw_last bw_interval bw_offsets bw_noffsets bw_counter].
      * rewrite bw_buf_push, Hbuf, payload_of_snoc. reflexivity.
      * rewrite bw_buf_push, len_app, Hlen. reflexivity.
      * rewrite last_opt_snoc. reflexivity.
      * rewrite len_cons. rewrite Hno. reflexivity.
      * rewrite bw_track_snoc, Htr, Ec. cbn [fst snd]. reflexivity.
      * rewrite map_app. cbn [map fst]. rewrite sorted_strictb_snoc, Hso. cbn [andb].
        rewrite last_opt_map. rewrite Hlast in Hgt. destruct (last_opt es) as [[lk lv]|]; cbn [option_map fst] in *; [exact Hgt|reflexivity].
      * apply Forall_app; split; [exact Hen|]. constructor; [|constructor]. split; cbn [fst snd]; lia.
    + constructor; cbn [bw_len bw_last bw_interval bw_offsets bw_noffsets bw_counter].
      * rewrite bw_buf_push, Hbuf, payload_of_snoc. reflexivity.
      * rewrite bw_buf_push, len_app, Hlen. reflexivity.
      * rewrite last_opt_snoc. reflexivity.
      * exact Hno.
      * rewrite bw_track_snoc, Htr, Ec. cbn [fst snd]. reflexivity.
      * rewrite map_app. cbn [map fst]. rewrite sorted_strictb_snoc, Hso. cbn [andb].
        rewrite last_opt_map. rewrite Hlast in Hgt. destruct (last_opt es) as [[lk lv]|]; cbn [option_map fst] in *; [exact Hgt|reflexivity].
      * apply Forall_app; split; [exact Hen|]. constructor; [|constructor]. split; cbn [fst snd]; lia.
  - intro Hn.
    assert (Hf : (match bw_last w with Some l => bytes_ltb l k | None => true end) = false).
    { destruct (match bw_last w with Some l => bytes_ltb l k | None => true end) eqn:E; [|reflexivity].
      exfalso. apply Hn. split; [split; lia|]. apply Hord. reflexivity. }
    destruct (bw_counter w =? bw_interval w); rewrite Hf; reflexivity.
Qed.

(* C15: the size estimate is the exact finished (uncompressed) size *)
Lemma bw_size_exact w es buf : bw_ok w es -> bw_finish w = Done buf -> len buf = bw_size w.
Proof.
  intros [Hbuf Hlen _ Hno _ _ _] Hf. unfold bw_finish in Hf.
  destruct (U32_MAX <? bw_noffsets w); [discriminate|]. injection Hf as <-.
  unfold bw_size. rewrite !len_app, <- Hlen.
  assert (E : forall l : list N, len (flat_map (be_bytes 8) l) = len l * 8).
  { induction l as [|x l IH]; [reflexivity|]. cbn [flat_map]. rewrite len_app, IH, len_cons.
    rewrite len_length, be_bytes_length. lia. }
  rewrite E. rewrite (len_length (rev _)), rev_length, <- len_length, <- Hno.
  rewrite (len_length (be_bytes 4 _)), be_bytes_length. lia.
Qed.

(* ---- a finished block parses back to its payload and offset table ---- *)
Lemma list8 (l : bytes) : length l = 8%nat -> exists a b c d e f g h, l = [a; b; c; d; e; f; g; h].
Proof.
  intro H. do 8 (destruct l as [|? l]; [discriminate|]). destruct l; [|discriminate].
  repeat eexists.
Qed.

Lemma chunks8_flat offs : forall fuel, (length offs <= fuel)%nat ->
  chunks8 fuel (flat_map (be_bytes 8) offs) = map (be_bytes 8) offs.
Proof.
  induction offs as [|x offs IH]; intros fuel Hf.
  - destruct fuel; reflexivity.
  - destruct fuel as [|fuel]; [cbn [length] in Hf; lia|].
    cbn [flat_map map]. destruct (list8 (be_bytes 8 x) (be_bytes_length 8 x)) as (a & b & c & d & e & f & g & h & E).
    rewrite E. cbn [app chunks8]. rewrite IH by (cbn [length] in Hf; lia). reflexivity.
Qed.

Lemma bw_track_bound interval es : forall pos ctr offs p c o,
  bw_track interval es pos ctr offs = (p, c, o) ->
  Forall (fun x => x <= pos) offs -> pos <= p /\ Forall (fun x => x <= p) o.
Proof.
  induction es as [|e es IH]; intros pos ctr offs p c o H Hall; cbn [bw_track] in H.
  - injection H as <- <- <-. split; [lia|exact Hall].
  - destruct (ctr =? interval).
    + apply IH in H; [|constructor; [lia|]; eapply Forall_impl; [|exact Hall]; cbn; intros; lia].
      destruct H as [H1 H2]. split; [lia|exact H2].
    + apply IH in H; [|eapply Forall_impl; [|exact Hall]; cbn; intros; lia].
      destruct H as [H1 H2]. split; [lia|exact H2].
Qed.

Lemma len_flat_be8 (l : list N) : len (flat_map (be_bytes 8) l) = len l * 8.
Proof.
  induction l as [|x l IH]; [reflexivity|]. cbn [flat_map]. rewrite len_app, IH, len_cons.
  rewrite len_length, be_bytes_length. lia.
Qed.

Lemma parse_finish w es buf :
  bw_ok w es -> bw_len w < 2^64 -> bw_finish w = Done buf ->
  parse_block buf = Done (mk_block (payload_of es) (rev (bw_offsets w))).
Proof.
  intros [Hbuf Hlen _ Hno Htr _ _] H64 Hf. unfold bw_finish in Hf.
  destruct (N.ltb_spec U32_MAX (bw_noffsets w)) as [|Hn32]; [discriminate|]. injection Hf as <-.
  rewrite Hbuf. set (P := payload_of es). set (offs := rev (bw_offsets w)).
  set (F := flat_map (be_bytes 8) offs). set (C := be_bytes 4 (bw_noffsets w)).
  assert (LC : len C = 4) by (unfold C; rewrite len_length, be_bytes_length; reflexivity).
  assert (Lo : len offs = bw_noffsets w) by (unfold offs; rewrite len_length, rev_length, <- len_length; symmetry; exact Hno).
  assert (LF : len F = bw_noffsets w * 8) by (unfold F; rewrite len_flat_be8, Lo; reflexivity).
  assert (EC : be_decode C = bw_noffsets w).
  { unfold C. rewrite be_decode_bytes. apply N.mod_small. change (256 ^ N.of_nat 4) with (2^32). rewrite u32max in Hn32. lia. }
  unfold parse_block. rewrite !len_app, LC.
  destruct (N.ltb_spec (len P + (len F + 4)) 4); [lia|].
  replace (len P + (len F + 4) - 4) with (len (P ++ F)) by (rewrite len_app; lia).
  rewrite app_assoc, skipnN_app, EC. rewrite <- app_assoc.
  rewrite len_app. destruct (N.ltb_spec (len P + len F) (bw_noffsets w * 8)); [lia|].
  replace (len P + len F - bw_noffsets w * 8) with (len P) by lia.
  rewrite skipnN_app, firstnN_app. rewrite <- LF, firstnN_app.
  f_equal. f_equal.
  unfold F. rewrite chunks8_flat.
  - rewrite map_map. rewrite <- (map_id offs) at 2. apply map_ext_in. intros x Hx.
    rewrite be_decode_bytes. apply N.mod_small. change (256 ^ N.of_nat 8) with (2^64).
    pose proof (bw_track_bound _ _ _ _ _ _ _ _ Htr ltac:(constructor; [lia|constructor])) as [_ Hall].
    rewrite Forall_forall in Hall. specialize (Hall x). unfold offs in Hx. rewrite <- in_rev in Hx. specialize (Hall Hx). lia.
  - fold F. assert (N.of_nat (length F) = N.of_nat (length offs) * 8) by (rewrite <- !len_length; rewrite LF, Lo; reflexivity). lia.
Qed.

(* growth of the estimate by one insert: the framed entry plus at most one footer slot *)
Lemma bw_insert_growth w k v w' :
  bw_insert w k v = Done w' ->
  bw_size w + len (frame k v) <= bw_size w' <= bw_size w + len (frame k v) + 8.
Proof.
  unfold bw_insert, bw_size. destruct ((U32_MAX <? len k) || (U32_MAX <? len v)); [discriminate|].
  destruct (bw_counter w =? bw_interval w);
    destruct (match bw_last w with Some l => bytes_ltb l k | None => true end); try discriminate;
    intro H; injection H as <-; cbn [bw_len bw_noffsets]; lia.
Qed.
