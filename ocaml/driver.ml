(* Correspondence driver: replays the cases written by the Rust harness through the
   model extracted from Coq (Model) and compares observations.  Hand-written glue:
   parsing, int <-> N conversion, printing.  All verdict lines go to stdout:
     MISMATCH <case> <field> impl=<..> model=<..>     implementation differs from the model
     SPECFAIL <case> <field> <detail>                 implementation violates the property predicate
     SUMMARY cases=<n> checks=<m> mismatches=<k> specfails=<j> *)
open Model

(* ---------- conversions ---------- *)
let rec pos_of_int (i : int) : positive =
  if i = 1 then XH else if i land 1 = 0 then XO (pos_of_int (i lsr 1)) else XI (pos_of_int (i lsr 1))
let n_of_int (i : int) : n = if i = 0 then N0 else Npos (pos_of_int i)
let rec int_of_pos (p : positive) : int =
  match p with XH -> 1 | XO q -> 2 * int_of_pos q | XI q -> 2 * int_of_pos q + 1
let int_of_n (x : n) : int = match x with N0 -> 0 | Npos p -> int_of_pos p
let rec nat_of_int (i : int) : nat = if i = 0 then O else S (nat_of_int (i - 1))

let byte_tab : n array = Array.init 256 n_of_int
let hexval c = match c with
  | '0'..'9' -> Char.code c - 48 | 'a'..'f' -> Char.code c - 87 | 'A'..'F' -> Char.code c - 55
  | _ -> failwith "bad hex"
let bytes_of_hex (s : string) : n list =
  if s = "-" then [] else begin
    let l = String.length s / 2 in
    let r = ref [] in
    for i = l - 1 downto 0 do
      r := byte_tab.(hexval s.[2*i] * 16 + hexval s.[2*i+1]) :: !r
    done; !r end
let hex_of_bytes (l : n list) : string =
  if l = [] then "-" else begin
    let b = Buffer.create 64 in
    List.iter (fun x -> Buffer.add_string b (Printf.sprintf "%02x" (int_of_n x))) l;
    Buffer.contents b end
(* decimal strings up to 2^64-1 (usize::MAX in a configuration line) *)
let rec pos_of_u64 (x : int64) : positive =
  if x = 1L then XH
  else
    let q = pos_of_u64 (Int64.shift_right_logical x 1) in
    if Int64.logand x 1L = 0L then XO q else XI q
let n_of_string s =
  let x = Int64.of_string ("0u" ^ s) in
  if x = 0L then N0 else Npos (pos_of_u64 x)
(* for bounds printed and compared as OCaml ints: capped far above anything observable *)
let capped_int_of_n (x : n) : int =
  let rec bits p = match p with XH -> 1 | XO q | XI q -> 1 + bits q in
  match x with N0 -> 0 | Npos p -> if bits p > 40 then 1 lsl 40 else int_of_n x
let capped_int_of_string s = capped_int_of_n (n_of_string s)
let rec int64_of_pos (p : positive) : int64 =
  match p with XH -> 1L | XO q -> Int64.mul 2L (int64_of_pos q) | XI q -> Int64.add (Int64.mul 2L (int64_of_pos q)) 1L
(* values up to 2^64-1 print correctly (unsigned) *)
let string_of_n x = match x with N0 -> "0" | Npos p -> Printf.sprintf "%Lu" (int64_of_pos p)

(* ---------- case parsing ---------- *)
type case = { kind : string; id : string; lines : (string * string list) list }

let split_ws s = List.filter (fun t -> t <> "") (String.split_on_char ' ' s)

let read_cases (path : string) (f : case -> unit) : unit =
  let ic = open_in path in
  let cur = ref None in
  (try
    while true do
      let line = input_line ic in
      match split_ws line with
      | [] -> ()
      | "CASE" :: kind :: id :: _ -> cur := Some ({ kind; id; lines = [] })
      | ["END"] ->
        (match !cur with
         | Some c -> f { c with lines = List.rev c.lines }; cur := None
         | None -> ())
      | tag :: toks ->
        (match !cur with
         | Some c -> cur := Some { c with lines = (tag, toks) :: c.lines }
         | None -> ())
    done
  with End_of_file -> ());
  close_in ic

let get c tag = try List.assoc tag c.lines with Not_found -> failwith ("missing tag " ^ tag ^ " in case " ^ c.id)
let get_all c tag = List.filter_map (fun (t, toks) -> if t = tag then Some toks else None) c.lines
let get1 c tag = match get c tag with [x] -> x | _ -> failwith ("arity " ^ tag)

(* ---------- verdict bookkeeping ---------- *)
let n_cases = ref 0
let n_seen = ref 0
let shard = ref 0
let n_shards = ref 1
let n_checks = ref 0
let n_mismatch = ref 0
let n_specfail = ref 0
let max_report = 40

let check_eq (c : case) (field : string) (impl : string) (model : string) =
  incr n_checks;
  if impl <> model then begin
    incr n_mismatch;
    if !n_mismatch <= max_report then begin
      let cut s = if String.length s > 300 then String.sub s 0 300 ^ "..." else s in
      Printf.printf "MISMATCH %s/%s %s impl=%s model=%s\n" c.kind c.id field (cut impl) (cut model)
    end
  end

let spec_ok (c : case) (field : string) (ok : bool) (detail : string) =
  incr n_checks;
  if not ok then begin
    incr n_specfail;
    if !n_specfail <= max_report then
      Printf.printf "SPECFAIL %s/%s %s %s\n" c.kind c.id field detail
  end

(* ---------- C14: varint ---------- *)
(* ---------- kernel cross-check ----------
   A sample of the model evaluations this driver performs with the EXTRACTED code is written out as Coq
   goals ("model function applied to these inputs = this value", closed by vm_compute; reflexivity); check
   compiles them with coqc, so the kernel's own evaluation of the model must agree with the extracted OCaml
   and with this driver's parsing and printing.  KX_OUT = path prefix; at most kx_limit goals per kind and
   shard, inputs below kx_max_size bytes. *)
let kx_chan : out_channel option ref = ref None
let kx_budget : (string, int) Hashtbl.t = Hashtbl.create 8
let kx_limit = 2
let kx_max_size = 1200
let kx_want kind size =
  !kx_chan <> None && size <= kx_max_size &&
  (try Hashtbl.find kx_budget kind with Not_found -> 0) < kx_limit
let kx_emit kind (cid : string) (lhs : string) (rhs : string) =
  match !kx_chan with
  | None -> ()
  | Some ch ->
    Hashtbl.replace kx_budget kind ((try Hashtbl.find kx_budget kind with Not_found -> 0) + 1);
    Printf.fprintf ch "(* %s %s *)\nGoal %s = %s. Proof. vm_compute. reflexivity. Qed.\n" kind cid lhs rhs
let cq_n (x : n) = string_of_n x
let cq_list f l = "[" ^ String.concat "; " (List.map f l) ^ "]"
let cq_bytes (l : n list) = cq_list cq_n l
let cq_entry ((k, v) : n list * n list) = "(" ^ cq_bytes k ^ ", " ^ cq_bytes v ^ ")"
let cq_entries l = cq_list cq_entry l
let cq_opt f = function None -> "None" | Some x -> "(Some " ^ f x ^ ")"
let cq_err (e : err) = match e with
  | EIo k -> "(EIo " ^ cq_n k ^ ")" | EMerge -> "EMerge" | EInvalidCodec -> "EInvalidCodec"
  | EInvalidVersion -> "EInvalidVersion" | EFuel -> "EFuel"
let cq_outcome f = function Done a -> "(Done " ^ f a ^ ")" | Panic -> "Panic" | Fail e -> "(Fail " ^ cq_err e ^ ")"
let cq_bool b = if b then "true" else "false"
let bytes_size (l : (n list * n list) list) = List.fold_left (fun a (k, v) -> a + List.length k + List.length v + 2) 0 l

let handle_varint c =
  let v = int_of_string (get1 c "v") in
  let rest = bytes_of_hex (get1 c "rest") in
  let impl_enc = get1 c "enc" in
  let impl_dec = String.concat " " (get c "dec") in
  let enc = varint_encode32 (n_of_int v) in
  check_eq c "enc" impl_enc (hex_of_bytes enc);
  let model_dec = match varint_decode32 (app enc rest) with
    | Done (value, l) -> Printf.sprintf "%d %d" (int_of_n value) (int_of_n l)
    | Panic -> "panic" | Fail _ -> "fail" in
  check_eq c "dec" impl_dec model_dec;
  if kx_want "varint" (List.length rest) then begin
    kx_emit "varint" c.id (Printf.sprintf "varint_encode32 %d" v) (cq_bytes enc);
    kx_emit "varint" c.id (Printf.sprintf "varint_decode32 %s" (cq_bytes (app enc rest)))
      (cq_outcome (fun (a, b) -> "(" ^ cq_n a ^ ", " ^ cq_n b ^ ")") (varint_decode32 (app enc rest)))
  end;
  (* property predicate on the implementation's own observation *)
  let l = String.length impl_enc / 2 in
  spec_ok c "roundtrip" (impl_dec = Printf.sprintf "%d %d" v l && l >= 1 && l <= 5)
    (Printf.sprintf "v=%d enc=%s dec=%s" v impl_enc impl_dec)


(* ---------- shared helpers for file-based cases ---------- *)
let fnv_init = 0xcbf29ce484222325L
let fnv_feed (h : int64 ref) (b : int) =
  h := Int64.mul (Int64.logxor !h (Int64.of_int b)) 0x100000001b3L
let entries_hash (es : (n list * n list) list) : string =
  let h = ref fnv_init in
  let feed_len l = let l = List.length l in
    fnv_feed h (l land 255); fnv_feed h ((l lsr 8) land 255); fnv_feed h ((l lsr 16) land 255); fnv_feed h ((l lsr 24) land 255) in
  List.iter (fun (k, v) ->
    feed_len k; List.iter (fun b -> fnv_feed h (int_of_n b)) k;
    feed_len v; List.iter (fun b -> fnv_feed h (int_of_n b)) v) es;
  Printf.sprintf "%d %016Lx" (List.length es) !h

let err_name (e : err) = match e with
  | EIo k -> "io" ^ string_of_n k | EMerge -> "merge" | EInvalidCodec -> "codec"
  | EInvalidVersion -> "version" | EFuel -> "fuel"

(* codec tables: the compressed form of each block as the codec crate produced it *)
type ztab = { z_fwd : (string, n list) Hashtbl.t; z_bwd : (string, n list) Hashtbl.t; mutable z_miss : int }
let ztab_of c : ztab =
  let t = { z_fwd = Hashtbl.create 64; z_bwd = Hashtbl.create 64; z_miss = 0 } in
  List.iter (fun toks -> match toks with
    | [u; z] -> Hashtbl.replace t.z_fwd u (bytes_of_hex z); Hashtbl.replace t.z_bwd z (bytes_of_hex u)
    | _ -> ()) (get_all c "z");
  t
let compress_of (t : ztab) : n -> n -> n list -> n list outcome = fun codec _level b ->
  if codec = N0 then Done b
  else match Hashtbl.find_opt t.z_fwd (hex_of_bytes b) with
    | Some z -> Done z
    | None -> t.z_miss <- t.z_miss + 1; Fail (EIo (n_of_int 5))
let decompress_of (t : ztab) : n -> n list -> n list outcome = fun codec b ->
  if codec = N0 then Done b
  else match Hashtbl.find_opt t.z_bwd (hex_of_bytes b) with
    | Some u -> Done u
    | None -> Fail (EIo (n_of_int 6))

let parse_cfg c : wcfg =
  match get c "cfg" with
  | [codec; level; bs; interval; levels] ->
    { wc_codec = n_of_string codec; wc_level = n_of_string level; wc_block_size = n_of_string bs;
      wc_interval = n_of_string interval; wc_levels = n_of_string levels }
  | _ -> failwith "cfg"
let parse_entries c : (n list * n list) list =
  List.map (fun toks -> match toks with [k; v] -> (bytes_of_hex k, bytes_of_hex v) | _ -> failwith "e") (get_all c "e")

(* Memoisation of the (pure) extracted loader per offset: the ordinal argument is ignored by
   load_block, so caching by offset does not change any result. *)
let memo_load (f : n -> n -> block outcome) : n -> n -> block outcome =
  let tbl : (int, block outcome) Hashtbl.t = Hashtbl.create 64 in
  fun ord off ->
    let k = int_of_n off in
    match Hashtbl.find_opt tbl k with
    | Some r -> r
    | None -> let r = f ord off in Hashtbl.replace tbl k r; r

(* full scan of a file through the model cursor *)
let model_scan_guard = ref 3000000
let model_scan (dec : n -> n list -> n list outcome) (file : n list) (m : meta) (backward : bool) : string =
  let load = memo_load (load_block dec file m.m_codec) in
  let step st o = cstep load m.m_root m.m_levels st o in
  let rec go st acc guard =
    if guard = 0 then "runaway -" else
    match step st (if backward then OPrev else ONext) with
    | Done (st', Some e) -> go st' (e :: acc) (guard - 1)
    | Done (_, None) -> entries_hash (List.rev acc)
    | Panic -> "panic -"
    | Fail e -> "err " ^ err_name e in
  go cs_fresh [] !model_scan_guard

(* ---------- writer cases: C01 / C09 / C15 / C18 ---------- *)
let handle_file c =
  let prop = get1 c "prop" in
  let cfg = parse_cfg c in
  let es = parse_entries c in
  let zt = ztab_of c in
  let impl = get c "impl" in
  (* a scan of a file written from these inserts yields at most that many entries: beyond a few times that, the
     model reader is looping on a malformed file (reported as "runaway") *)
  model_scan_guard := 4 * (List.length es + 16);
  let model = w_run (compress_of zt) cfg es in
  let model_kind = match model with
    | WFile (_, _, _) -> "file" | WPanicInsert i -> "panic_insert " ^ string_of_n i
    | WPanicFinish -> "panic_finish -" | WFail e -> "err " ^ err_name e in
  let impl_kind = match impl with "file" :: _ -> "file" | l -> String.concat " " l in
  check_eq c "outcome" impl_kind model_kind;
  if cfg.wc_codec = N0 && kx_want "writer" (bytes_size es) then
    kx_emit "writer" c.id
      (Printf.sprintf "kx_wres (w_run compress_none (mk_wcfg %s %s %s %s %s) %s)" (cq_n cfg.wc_codec) (cq_n cfg.wc_level)
         (cq_n cfg.wc_block_size) (cq_n cfg.wc_interval) (cq_n cfg.wc_levels) (cq_entries es))
      (match model with
       | WFile (f, _, m) -> Printf.sprintf "inl (%s, %s, %s)" (cq_bytes f) (cq_n m.m_root) (cq_n m.m_count)
       | WPanicInsert i -> "inr (Some (Some " ^ cq_n i ^ "))" | WPanicFinish -> "inr (Some None)" | WFail _ -> "inr None");
  let sorted_input = sorted_strictb (List.map fst es) in
  let spec_hash = entries_hash es in
  (match impl with
   | ["file"; fhex] ->
     let f = bytes_of_hex fhex in
     (match model with
      | WFile (mf, _, _) -> check_eq c "bytes" fhex (hex_of_bytes mf)
      | _ -> ());
     let dec = decompress_of zt in
     (* model reader on the implementation's file *)
     (match open_meta f with
      | Done m ->
        let ver = match m.m_version with FormatV1 -> 0 | FormatV2 -> 1 in
        check_eq c "meta" (String.concat " " (get c "meta"))
          (Printf.sprintf "%d %s %s" ver (string_of_n m.m_codec) (string_of_n m.m_count));
        check_eq c "fwd" (String.concat " " (get c "fwd")) (model_scan dec f m false);
        check_eq c "bwd" (String.concat " " (get c "bwd")) (model_scan dec f m true)
      | Panic -> check_eq c "meta" (String.concat " " (get c "meta")) "panic - -"
      | Fail e -> check_eq c "meta" (String.concat " " (get c "meta")) ("err " ^ err_name e ^ " -"));
     (* property predicates on the implementation's observations *)
     if prop = "C01" || prop = "C09" then begin
       if sorted_input then begin
         spec_ok c "C01.meta" (get c "meta" = ["1"; string_of_n cfg.wc_codec; string_of_int (List.length es)])
           ("meta=" ^ String.concat " " (get c "meta"));
         spec_ok c "C01.fwd" (String.concat " " (get c "fwd") = spec_hash) ("fwd=" ^ String.concat " " (get c "fwd") ^ " expected " ^ spec_hash);
         spec_ok c "C01.bwd" (String.concat " " (get c "bwd") = entries_hash (List.rev es)) ("bwd=" ^ String.concat " " (get c "bwd"))
       end
     end;
     let decoded = decode_file dec f in
     if prop = "C01" && sorted_input && es <> [] then begin
       match decoded with
       | Done ((m, _), nodes) ->
         spec_ok c "C01.wf_store" (store_wf nodes m.m_root m.m_levels) "the file is not a well-formed store (hypotheses of the reader refinement)"
       | _ -> spec_ok c "C01.wf_store" false "file does not decode"
     end;
     if prop = "C09" && sorted_input then begin
       (match decoded with
        | Done ((m, des), nodes) ->
          spec_ok c "C09.decode" (entries_hash des = spec_hash) "independent decoder recovers other entries";
          if es <> [] then
            spec_ok c "C09.wf_store" (store_wf nodes m.m_root m.m_levels) "the file is not a well-formed store (hypotheses of the reader refinement)";
          spec_ok c "C09.trailer" (m.m_version = FormatV2 && m.m_codec = cfg.wc_codec && int_of_n m.m_count = List.length es
                                   && m.m_levels = cfg.wc_levels) "trailer fields";
          (* footer offset tables: first 0, one per interval *)
          List.iter (fun ((_, off), b) ->
            match block_entries b with
            | Done bes -> spec_ok c "C09.offsets" (offsets_ok cfg.wc_interval b bes) ("offset table of block at " ^ string_of_n off)
            | _ -> spec_ok c "C09.offsets" false "block does not decode") nodes;
          (* every index entry maps the last key of its child to the child's offset: implied by
             decode (children reached through the offsets) + last-key check *)
          ()
        | Panic -> spec_ok c "C09.decode" false "independent decoder panics"
        | Fail e -> spec_ok c "C09.decode" false ("independent decoder fails: " ^ err_name e));
       (match get_all c "oldread" with
        | [r] -> spec_ok c "C09.oldread" (String.concat " " r = spec_hash) ("grenad 0.4.7 reads " ^ String.concat " " r ^ " expected " ^ spec_hash)
        | _ -> ());
       (match get_all c "oldfile" with
        | [[ofhex]] ->
          let oldf = bytes_of_hex ofhex in
          (* the 0.4.7 writer's file: current reader (impl) and model reader must recover the entries *)
          (match get_all c "oldfwd" with
           | [r] -> spec_ok c "C09.oldfwd" (String.concat " " r = spec_hash) ("current reader on 0.4.7 file: " ^ String.concat " " r)
           | _ -> ());
          let zt_old = zt in
          (* the file of the frozen 0.4.7 writer is, byte for byte, the file of the writer model for the same
             configuration and entries: the writer theorems (well-formed store with this content) then
             apply to this very file, not only the per-file certificate (codec None: the other codecs of 0.4.7
             frame or parametrise their output differently, e.g. snappy frames, zlib level header) *)
          (match model with
           | WFile (mf, _, _) when cfg.wc_codec = N0 ->
             check_eq c "oldfile.is_model_file" (hex_of_bytes oldf) (hex_of_bytes mf)
           | _ -> ());
          (match open_meta oldf with
           | Done m when m.m_codec = N0 ->
             check_eq c "oldfwd.model" spec_hash (model_scan (decompress_of zt_old) oldf m false)
           | _ -> ())
        | _ -> ())
     end;
     if prop = "C15" || prop = "C18" then begin
       (match decoded with
        | Done ((m, _), nodes) ->
          let b_eff = cfg.wc_block_size in
          let levels = int_of_n cfg.wc_levels in
          (* last-emitted block of each level = the one with the largest offset *)
          let maxoff = Hashtbl.create 8 in
          List.iter (fun ((lvl, off), _) ->
            let l = int_of_n lvl and o = int_of_n off in
            match Hashtbl.find_opt maxoff l with
            | Some x when x >= o -> () | _ -> Hashtbl.replace maxoff l o) nodes;
          List.iter (fun ((lvl, off), b) ->
            let l = int_of_n lvl and o = int_of_n off in
            match block_entries b with
            | Done bes ->
              if prop = "C18" then
                spec_ok c "C18.sorted" (block_sorted bes) (Printf.sprintf "block at %d (level %d) has unsorted keys" o l);
              if prop = "C15" && (l = levels + 1 || l >= 2) && bes <> [] then begin
                let sz = int_of_n (block_size_of b) and szb = int_of_n (size_without_last b bes) in
                let b_i = capped_int_of_n b_eff in   (* block sizes up to usize::MAX: capped at max_int, far above any size here *)
                spec_ok c "C15.before" (szb < b_i) (Printf.sprintf "block at %d (level %d): size without last entry %d >= B=%d" o l szb b_i);
                if Hashtbl.find maxoff l <> o then
                  spec_ok c "C15.reached" (sz >= b_i) (Printf.sprintf "block at %d (level %d) emitted below B: size %d < %d" o l sz b_i)
              end
            | _ -> spec_ok c "blocks.decode" false (Printf.sprintf "block at %d does not decode" o)) nodes
        | _ -> if sorted_input then spec_ok c "blocks.walk" false "file does not decode")
     end
   | "panic_insert" :: _ | "panic_finish" :: _ ->
     (* C18 allows the panic only for unsorted input; for sorted input a panic violates C01 *)
     if sorted_input then spec_ok c (prop ^ ".nopanic") false ("writer panicked on sorted input: " ^ String.concat " " impl)
   | _ ->
     spec_ok c (prop ^ ".noerr") false ("writer returned an error on a plain Vec sink: " ^ String.concat " " impl));
  if zt.z_miss > 0 then check_eq c "ztable" "0" (string_of_int zt.z_miss)


(* ---------- reader cases: histories (C02 C03 C16 C10) ---------- *)
let nat8 = nat_of_int 8
let nat4 = nat_of_int 4
let block_hash (b : block) : string =
  let h = ref fnv_init in
  List.iter (fun x -> fnv_feed h (int_of_n x)) b.blk_payload;
  List.iter (fun o -> List.iter (fun x -> fnv_feed h (int_of_n x)) (be_bytes nat8 o)) b.blk_offsets;
  List.iter (fun x -> fnv_feed h (int_of_n x)) (be_bytes nat4 (len b.blk_offsets));
  Printf.sprintf "%016Lx" !h
let bcur_fp (c : bcur) : string =
  (match c.bc_off with None -> "-" | Some o -> string_of_n o) ^ ":" ^ block_hash c.bc_blk
let state_fp (st : cstate) : string =
  let idx = match st.cs_inner with
    | None -> "-" | Some [] -> "0"
    | Some l -> String.concat "," (List.map (fun (_, c) -> bcur_fp c) l) in
  let data = match st.cs_data with None -> "-" | Some c -> bcur_fp c in
  "I=" ^ idx ^ ";D=" ^ data

let res_string (r : (n list * n list) option) = match r with
  | Some (k, v) -> "S " ^ hex_of_bytes k ^ " " ^ hex_of_bytes v | None -> "N"

let parse_op (name : string) (q : string) : op = match name with
  | "first" -> OFirst | "last" -> OLast | "next" -> ONext | "prev" -> OPrev
  | "ge" -> OGe (bytes_of_hex q) | "le" -> OLe (bytes_of_hex q) | "eq" -> OEq (bytes_of_hex q)
  | "reset" -> OReset | "current" -> OCurrent | _ -> failwith ("op " ^ name)

let handle_hist c =
  let prop = get1 c "prop" in
  let cfg = parse_cfg c in
  let es = parse_entries c in
  let zt = ztab_of c in
  let file = bytes_of_hex (get1 c "file") in
  let dec = decompress_of zt in
  match open_meta file with
  | Panic -> check_eq c "meta" (String.concat " " (get c "meta")) "panic - -";
    spec_ok c (prop ^ ".open") false "the file the writer returned for these entries does not open"
  | Fail e -> check_eq c "meta" (String.concat " " (get c "meta")) ("err " ^ err_name e ^ " -");
    spec_ok c (prop ^ ".open") false "the file the writer returned for these entries does not open"
  | Done m ->
    let ver = match m.m_version with FormatV1 -> 0 | FormatV2 -> 1 in
    check_eq c "meta" (String.concat " " (get c "meta"))
      (Printf.sprintf "%d %s %s" ver (string_of_n m.m_codec) (string_of_n m.m_count));
    if prop = "C10" then begin
      let magic_v1 = (List.rev file |> fun l -> match l with a :: b :: c' :: d :: _ -> [d; c'; b; a] | _ -> []) in
      let is_v1 = hex_of_bytes magic_v1 = "4c4d3276" in
      (* the stored count: the number of entries, or the value the harness patched into the trailer *)
      let stored = (match get_all c "storedcount" with [[n]] -> n | _ -> string_of_int (List.length es)) in
      spec_ok c "C10.open" (get c "meta" = [(if is_v1 then "0" else "1"); string_of_n cfg.wc_codec; stored])
        ("open reports " ^ String.concat " " (get c "meta"))
    end;
    if es <> [] then begin
      match decode_file dec file with
      | Done ((_, des), nodes) ->
        spec_ok c (prop ^ ".wf_store") (store_wf nodes m.m_root m.m_levels) "the file is not a well-formed store (hypotheses of the reader refinement)";
        spec_ok c (prop ^ ".content") (entries_hash des = entries_hash es) "the file the writer returned does not hold the inserted entries"
      | _ -> spec_ok c (prop ^ ".wf_store") false "file does not decode"
    end;
    let load = memo_load (load_block dec file m.m_codec) in
    let step st o = cstep load m.m_root m.m_levels st o in
    if m.m_codec = N0 && es <> [] && kx_want "decoder" (List.length file) then
      kx_emit "decoder" c.id (Printf.sprintf "kx_dres (decode_file decompress_none %s)" (cq_bytes file))
        (match decode_file decompress_none file with
         | Done ((mm, des), nodes) -> Printf.sprintf "Some (%s, %s, %s)" (cq_n mm.m_root) (cq_entries des) (cq_bool (store_wf nodes mm.m_root mm.m_levels))
         | _ -> "None");
    (* kernel cross-check: the history of cursor 0 when it is the only cursor and nothing fails *)
    if m.m_codec = N0 && get_all c "fault" = [] && kx_want "history" (List.length file) then begin
      let ops = List.filter_map (fun toks -> match toks with
        | "0" :: name :: q :: "=" :: r when name <> "clone" && r <> ["F"] -> Some (Some (name, q, parse_op name q))
        | _ -> Some None) (get_all c "o") in
      if ops <> [] && List.for_all (fun o -> o <> None) ops then begin
        let ops = List.map (function Some x -> x | None -> assert false) ops in
        let rec run st l = match l with
          | [] -> Done []
          | (_, _, o) :: r ->
            (match cstep (load_block dec file m.m_codec) m.m_root m.m_levels st o with
             | Done (st', e) -> (match run st' r with Done y -> Done (e :: y) | Panic -> Panic | Fail x -> Fail x)
             | Panic -> Panic | Fail x -> Fail x) in
        let cq_op (name, q, _) = match name with
          | "first" -> "OFirst" | "last" -> "OLast" | "next" -> "ONext" | "prev" -> "OPrev" | "reset" -> "OReset" | "current" -> "OCurrent"
          | "ge" -> "OGe " ^ cq_bytes (bytes_of_hex q) | "le" -> "OLe " ^ cq_bytes (bytes_of_hex q) | _ -> "OEq " ^ cq_bytes (bytes_of_hex q) in
        kx_emit "history" c.id
          (Printf.sprintf "kx_hist (load_block decompress_none %s %s) %s %s cs_fresh %s" (cq_bytes file) (cq_n m.m_codec) (cq_n m.m_root) (cq_n m.m_levels)
             (cq_list cq_op ops))
          (cq_outcome (cq_list (cq_opt cq_entry)) (run cs_fresh ops))
      end
    end;
    let states : (string, cstate * apos) Hashtbl.t = Hashtbl.create 4 in
    Hashtbl.replace states "0" (cs_fresh, Fresh);
    (* cursors whose model state is unknown (after a failed operation), and cursors re-synchronised since *)
    let unknown : (string, bool) Hashtbl.t = Hashtbl.create 4 and resynced : (string, bool) Hashtbl.t = Hashtbl.create 4 in
    let levels = int_of_n m.m_levels in
    let stop = ref false in
    let opno = ref 0 in
    (* the same history as a list of multi-cursor operations, for the proved functions mrun / amrun *)
    let mops = ref [] and glue_model = ref [] and glue_spec = ref [] and ncursors = ref 1 and sequential = ref true in
    List.iter (fun toks ->
      incr opno;
      if not !stop then
      match toks with
      | cid :: "clone" :: newid :: "=" :: _ ->
        Hashtbl.replace states newid (Hashtbl.find states cid);
        if Hashtbl.mem unknown cid then Hashtbl.replace unknown newid true else Hashtbl.remove unknown newid;
        if Hashtbl.mem resynced cid then Hashtbl.replace resynced newid true;
        if int_of_string newid <> !ncursors then sequential := false;
        incr ncursors;
        mops := MClone (nat_of_int (int_of_string cid)) :: !mops
      | cid :: name :: q :: "=" :: ["F"] ->
        (* the injected read failure surfaced as the I/O error of this operation: where the cursor is now is
           unspecified; the model state is unknown until the next absolute move *)
        ignore (parse_op name q);
        sequential := false;
        Hashtbl.replace states cid (cs_fresh, Unspec);
        Hashtbl.replace unknown cid true
      | cid :: name :: q :: "=" :: impl_res when Hashtbl.mem unknown cid ->
        let o = parse_op name q in
        let field = Printf.sprintf "op%d(%s)" !opno name in
        let impl_r = (match impl_res with
          | ["S"; k; v; _; _] -> "S " ^ k ^ " " ^ v | ["N"; _; _] -> "N" | ["E"; cls; _] -> "E " ^ cls | ["P"] -> "P"
          | _ -> failwith "bad op result") in
        if impl_r = "P" then spec_ok c (prop ^ ".nopanic") false (field ^ " panicked after the failed operation");
        let (pos', spec_r) = aspec es Unspec o in
        (match spec_r with
         | Some r ->
           (* an absolute move (or reset): unaffected by anything done before it, a failed operation included *)
           spec_ok c (prop ^ "." ^ field ^ ".after_failure") (impl_r = res_string r)
             (Printf.sprintf "after a failed operation on this cursor: impl=%s spec=%s (history position %d)" impl_r (res_string r) !opno);
           (match step cs_fresh o with
            | Done (st', r') -> check_eq c (field ^ ".after_failure") impl_r (res_string r');
              (* the model follows the cursor again only from a position the specification determines: after an
                 absolute move that found nothing, relative moves are unspecified and depend on what the failed
                 operation left in the cursor's cache *)
              if pos' <> Unspec then begin
                Hashtbl.replace states cid (st', pos'); Hashtbl.remove unknown cid; Hashtbl.replace resynced cid true end
            | _ -> ())
         | None -> ());
        if String.length impl_r > 0 && (impl_r.[0] = 'E' || impl_r.[0] = 'P') then stop := true
      | cid :: name :: q :: "=" :: impl_res ->
        let (st, pos) = Hashtbl.find states cid in
        let o = parse_op name q in
        mops := MOp (nat_of_int (int_of_string cid), o) :: !mops;
        let field = Printf.sprintf "op%d(%s)" !opno name in
        let (impl_r, impl_loads, impl_fp) = match impl_res with
          | ["S"; k; v; l; fp] -> ("S " ^ k ^ " " ^ v, int_of_string l, fp)
          | ["N"; l; fp] -> ("N", int_of_string l, fp)
          | ["E"; cls; l] -> ("E " ^ cls, int_of_string l, "-")
          | ["P"] -> ("P", 0, "-")
          | _ -> failwith "bad op result" in
        (* specification *)
        let (pos', spec_r) = aspec es pos o in
        glue_spec := spec_r :: !glue_spec;
        (match spec_r with
         | Some r ->
           spec_ok c (prop ^ "." ^ field) (impl_r = res_string r)
             (Printf.sprintf "impl=%s spec=%s (history position %d)" impl_r (res_string r) !opno)
         | None -> ());
        if impl_r = "P" then spec_ok c (prop ^ ".nopanic") false (field ^ " panicked");
        (* I/O bound of C16 *)
        if name <> "reset" && name <> "current" then
          spec_ok c ("C16." ^ field) (impl_loads <= 2 * (levels + 2))
            (Printf.sprintf "%d block loads > 2*(%d+2)" impl_loads levels);
        (* model *)
        (match step st o with
         | Done (st', r) ->
           check_eq c field impl_r (res_string r);
           glue_model := r :: !glue_model;
           let mloads = int_of_n st'.cs_loads - int_of_n st.cs_loads in
           incr n_checks;
           if impl_loads > mloads && not (Hashtbl.mem resynced cid) then begin
             incr n_mismatch;
             if !n_mismatch <= max_report then
               Printf.printf "MISMATCH %s/%s %s.loads impl=%d model<=%d\n" c.kind c.id field impl_loads mloads end;
           if impl_fp <> "-" then check_eq c (field ^ ".state") impl_fp (state_fp st');
           Hashtbl.replace states cid (st', pos')
         | Panic -> check_eq c field impl_r "P"; stop := true
         | Fail e -> check_eq c field impl_r ("E " ^ err_name e); stop := true);
        if String.length impl_r > 0 && (impl_r.[0] = 'E' || impl_r.[0] = 'P') then stop := true
      | _ -> failwith "bad op line") (get_all c "o");
    (* histories with clones: the per-operation bookkeeping above (a table of states copied at each clone)
       against the functions the clone theorem (C03_clones) is about *)
    if !ncursors > 1 && !sequential && not !stop then begin
      let ops = List.rev !mops in
      (match mrun load m.m_root m.m_levels [cs_fresh] ops with
       | Done (_, rs) ->
         check_eq c "clones.mrun" (String.concat ";" (List.map res_string (List.rev !glue_model))) (String.concat ";" (List.map res_string rs))
       | Panic -> check_eq c "clones.mrun" "results" "panic"
       | Fail e -> check_eq c "clones.mrun" "results" ("err " ^ err_name e));
      let show_spec = function None -> "?" | Some r -> res_string r in
      check_eq c "clones.amrun" (String.concat ";" (List.map show_spec (List.rev !glue_spec)))
        (String.concat ";" (List.map show_spec (snd (amrun es [Fresh] ops))))
    end

(* ---------- iterators (C04 C05) ---------- *)
let iter_result (l : (n list * n list) list) : string =
  let first = match l with (k, _) :: _ -> hex_of_bytes k | [] -> "-" in
  let last = match List.rev l with (k, _) :: _ -> hex_of_bytes k | [] -> "-" in
  entries_hash l ^ " " ^ first ^ " " ^ last

let parse_bound kind v : bound = match kind with
  | "u" -> Unbounded | "i" -> Included (bytes_of_hex v) | "x" -> Excluded (bytes_of_hex v) | _ -> failwith "bound"

let handle_iter c =
  let prop = get1 c "prop" in
  let es = parse_entries c in
  let zt = ztab_of c in
  let file = bytes_of_hex (get1 c "file") in
  let dec = decompress_of zt in
  match open_meta file with
  | Done m ->
    let load = memo_load (load_block dec file m.m_codec) in
    let step st o = cstep load m.m_root m.m_levels st o in
    let fuel = nat_of_int (List.length es + 2) in
    let run next = match collect next fuel iter_new with
      | Done l -> iter_result l | Panic -> "panic - - -" | Fail e -> "err " ^ err_name e ^ " - -" in
    let qn = ref 0 in
    List.iter (fun toks ->
      incr qn;
      let field = Printf.sprintf "q%d" !qn in
      match toks with
      | "range" :: lk :: lv :: hk :: hv :: dir :: "=" :: impl ->
        let lo = parse_bound lk lv and hi = parse_bound hk hv in
        let impl_s = String.concat " " impl in
        let spec_l = range_spec es lo hi in
        let spec_s = iter_result (if dir = "rev" then List.rev spec_l else spec_l) in
        spec_ok c (prop ^ "." ^ field) (impl_s = spec_s) (Printf.sprintf "range %s %s %s %s %s: impl=%s spec=%s" lk lv hk hv dir impl_s spec_s);
        if m.m_codec = N0 && kx_want "range" (List.length file) then begin
          let pstep st o = cstep (load_block dec file m.m_codec) m.m_root m.m_levels st o in
          let cq_bound b = match b with Unbounded -> "Unbounded" | Included x -> "(Included " ^ cq_bytes x ^ ")" | Excluded x -> "(Excluded " ^ cq_bytes x ^ ")" in
          kx_emit "range" c.id
            (Printf.sprintf "collect (%s (cstep (load_block decompress_none %s %s) %s %s) %s %s) (N.to_nat %d) iter_new"
               (if dir = "rev" then "rev_range_next" else "range_next") (cq_bytes file) (cq_n m.m_codec) (cq_n m.m_root) (cq_n m.m_levels)
               (cq_bound lo) (cq_bound hi) (List.length es + 2))
            (cq_outcome cq_entries (collect (if dir = "rev" then rev_range_next pstep lo hi else range_next pstep lo hi) fuel iter_new))
        end;
        check_eq c field impl_s (run (if dir = "rev" then rev_range_next step lo hi else range_next step lo hi))
      | "prefix" :: p :: dir :: "=" :: impl ->
        let p = bytes_of_hex p in
        let impl_s = String.concat " " impl in
        let spec_l = prefix_spec es p in
        let spec_s = iter_result (if dir = "rev" then List.rev spec_l else spec_l) in
        spec_ok c (prop ^ "." ^ field) (impl_s = spec_s) (Printf.sprintf "prefix %s %s: impl=%s spec=%s" (hex_of_bytes p) dir impl_s spec_s);
        if m.m_codec = N0 && kx_want "prefix" (List.length file) then begin
          let pstep st o = cstep (load_block dec file m.m_codec) m.m_root m.m_levels st o in
          kx_emit "prefix" c.id
            (Printf.sprintf "collect (%s (cstep (load_block decompress_none %s %s) %s %s) %s) (N.to_nat %d) iter_new"
               (if dir = "rev" then "rev_prefix_next" else "prefix_next") (cq_bytes file) (cq_n m.m_codec) (cq_n m.m_root) (cq_n m.m_levels)
               (cq_bytes p) (List.length es + 2))
            (cq_outcome cq_entries (collect (if dir = "rev" then rev_prefix_next pstep p else prefix_next pstep p) fuel iter_new));
          kx_emit "prefix" c.id (Printf.sprintf "prefix_spec %s %s" (cq_entries es) (cq_bytes p)) (cq_entries (prefix_spec es p))
        end;
        check_eq c field impl_s (run (if dir = "rev" then rev_prefix_next step p else prefix_next step p))
      | _ -> failwith "bad q line") (get_all c "q")
  | _ -> spec_ok c (prop ^ ".open") false "file does not open in the model"


(* ---------- C06: merger ---------- *)
let parse_sources c : (n list * n list) list list =
  let srcs = ref [] and cur = ref [] and started = ref false in
  List.iter (fun (tag, toks) ->
    match tag, toks with
    | "s", _ -> if !started then srcs := List.rev !cur :: !srcs; cur := []; started := true
    | "e", [k; v] -> cur := (bytes_of_hex k, bytes_of_hex v) :: !cur
    | _ -> ()) c.lines;
  if !started then srcs := List.rev !cur :: !srcs;
  List.rev !srcs

let handle_merge c =
  let prop = get1 c "prop" in
  let srcs = parse_sources c in
  let calls = ref [] in
  let base : n -> n list -> n list list -> n list outcome = fun ord k vs -> mf_concat ord k vs in
  let mf0 = match get c "mf" with
    | ["failat"; j] -> mf_fail_at (n_of_string j) base
    | _ -> base in
  let mf ord k vs = calls := (k, vs) :: !calls; mf0 ord k vs in
  (* run the model step by step to obtain the prefix before a failure *)
  let rec go st acc =
    match merge_next mf st with
    | Done (st', Some e) -> go st' (e :: acc)
    | Done (_, None) -> (List.rev acc, "ok")
    | Panic -> (List.rev acc, "panic")
    | Fail e -> (List.rev acc, "err " ^ err_name e) in
  let (mout, mend) = go { ms_heap = init_heap srcs N0; ms_calls = N0 } [] in
  let impl_out = List.map (fun t -> match t with [k; v] -> (bytes_of_hex k, bytes_of_hex v) | _ -> failwith "out") (get_all c "out") in
  let impl_end = String.concat " " (get c "outend") in
  let show l = String.concat ";" (List.map (fun (k, v) -> hex_of_bytes k ^ ":" ^ hex_of_bytes v) l) in
  check_eq c "out" (show impl_out) (show mout);
  check_eq c "end" impl_end mend;
  if get c "mf" <> ["failat"] && (match get c "mf" with "failat" :: _ -> false | _ -> true)
     && kx_want "merge" (List.fold_left (fun a s -> a + bytes_size s) 0 srcs) then
    kx_emit "merge" c.id (Printf.sprintf "merge_run mf_concat 0 %s" (cq_list cq_entries srcs))
      (cq_outcome (fun (o, n) -> "(" ^ cq_entries o ^ ", " ^ cq_n n ^ ")") (merge_run mf_concat N0 srcs));
  let show_calls l = String.concat ";" (List.map (fun (k, vs) -> hex_of_bytes k ^ "<-" ^ String.concat "," (List.map hex_of_bytes vs)) l) in
  let impl_calls = List.map (fun t -> match t with
      | [k; vs] -> (bytes_of_hex k, List.map bytes_of_hex (String.split_on_char ',' vs))
      | _ -> failwith "call") (get_all c "call") in
  check_eq c "calls" (show_calls impl_calls) (show_calls (List.rev !calls));
  (* specification, evaluated on the implementation's output:
     keys strictly ascending, exactly the union, each value = one merge call on the values in source order *)
  let keys = List.map fst impl_out in
  let n_distinct = List.length (List.sort_uniq compare (List.map hex_of_bytes (List.concat (List.map (List.map fst) srcs)))) in
  let failing = (match get c "mf" with ["failat"; j] -> int_of_string j < n_distinct | _ -> false) in
  spec_ok c (prop ^ ".sorted") (sorted_strictb keys) "output keys not strictly ascending";
  let vals_of k = List.concat (List.map (fun s -> List.filter_map (fun (k', v) -> if k' = k then Some v else None) s) srcs) in
  List.iter (fun (k, v) ->
    spec_ok c (prop ^ ".value") (v = List.concat (vals_of k)) ("value of key " ^ hex_of_bytes k ^ " is not the merge of its values in source order")) impl_out;
  if not failing then begin
    let all_keys = List.sort_uniq compare (List.map hex_of_bytes (List.concat (List.map (List.map fst) srcs))) in
    spec_ok c (prop ^ ".union") (List.sort compare (List.map hex_of_bytes keys) = all_keys) "output keys are not the union of the sources' keys";
    spec_ok c (prop ^ ".once") (List.length impl_calls = List.length impl_out && List.map fst impl_calls = keys) "merge function not called exactly once per key";
    (* ... on exactly the values stored under that key, ordered by the position of their sources (an empty value
       is a value like any other) *)
    List.iter (fun (k, vs) ->
      spec_ok c (prop ^ ".call_values") (vs = vals_of k)
        ("the merge function was given other values for key " ^ hex_of_bytes k ^ " than the ones its sources hold, in source order")) impl_calls;
    spec_ok c (prop ^ ".end") (impl_end = "ok") ("merge ended with " ^ impl_end);
    spec_ok c (prop ^ ".writer") (String.concat " " (get c "wfile") = entries_hash impl_out && impl_end = "ok") ("file written by write_into_stream_writer scans as " ^ String.concat " " (get c "wfile"))
  end else begin
    spec_ok c (prop ^ ".failure") (impl_end = "err merge") ("failing merge function surfaced as " ^ impl_end);
    spec_ok c (prop ^ ".wfailure") (get c "wfile" = ["err"; "merge"]) ("write_into_stream_writer with failing merge function: " ^ String.concat " " (get c "wfile"))
  end;
  (* a caller that goes on after the error: whatever sources the iterator still reads, every further call of
     the merge function carries values stored under THAT key, in source order, and the keys keep ascending;
     no panic *)
  (match get_all c "aend" with
   | [["panic"]] -> spec_ok c (prop ^ ".after_error") false "the iterator panicked when used after the error"
   | _ -> ());
  let rec subseq a b = match a, b with
    | [], _ -> true
    | _, [] -> false
    | x :: a', y :: b' -> if x = y then subseq a' b' else subseq a b' in
  List.iter (fun t -> match t with
    | [k; vs] ->
      let k = bytes_of_hex k and vs = List.map bytes_of_hex (String.split_on_char ',' vs) in
      spec_ok c (prop ^ ".after_error.call") (vs <> [] && subseq vs (vals_of k))
        ("after the error the merge function received for key " ^ hex_of_bytes k ^ " values that are not stored under it (in source order): "
         ^ String.concat "," (List.map hex_of_bytes vs))
    | _ -> failwith "acall") (get_all c "acall");
  let akeys = List.map (fun t -> match t with [k; _] -> bytes_of_hex k | _ -> failwith "aout") (get_all c "aout") in
  spec_ok c (prop ^ ".after_error.sorted") (sorted_strictb akeys) "keys yielded after the error are not strictly ascending";
  List.iter (fun k -> spec_ok c (prop ^ ".after_error.key") (vals_of k <> []) ("key " ^ hex_of_bytes k ^ " yielded after the error is in no source")) akeys


(* ---------- C07 / C08 / C17: sorter ---------- *)
let parse_scfg c =
  match get c "scfg" with
  | [t; realloc; maxc; cap; stable; par] ->
    ({ sc_threshold = n_of_string t; sc_realloc = (realloc = "1"); sc_max_chunks = clamp_chunks (n_of_string maxc);
       sc_init_cap = n_of_string cap }, stable = "1", int_of_string t, capped_int_of_string maxc)
  | _ -> failwith "scfg"

(* the bound predicates of C08 / C17 on one observed state *)
let sorter_state_specs c prop (scfg : scfg) t_int small field (l, u, nb, _ch) =
  spec_ok c ("C17." ^ field) (u + 16 * nb <= l && l mod 16 = 0 && l >= 16)
    (Printf.sprintf "buffer regions overlap or misaligned: L=%d U=%d n=%d" l u nb);
  if small && (prop = "C08") then begin
    let bound = if scfg.sc_realloc then 2 * t_int else max t_int (int_of_n (round_up scfg.sc_init_cap)) in
    spec_ok c ("C08.volume." ^ field) (u <= bound) (Printf.sprintf "unspilled volume %d exceeds %d (budget %d)" u bound t_int)
  end

let handle_sorter c =
  let prop = get1 c "prop" in
  let (scfg, stable, t_int, _) = parse_scfg c in
  let m_int = capped_int_of_n scfg.sc_max_chunks in
  let small = get1 c "small" = "1" in
  let last_wins = (get_all c "mfkind" = [["join"]]) in
  let mf : n -> n list -> n list list -> n list outcome = if last_wins then mf_join else if stable then mf_concat else mf_sortcat in
  let ins = List.map (fun t -> match t with
      | k :: v :: "=" :: res -> ((bytes_of_hex k, bytes_of_hex v), res) | _ -> failwith "ins") (get_all c "ins") in
  let st = ref (Done (s_new scfg)) in
  let nst = ref (Done (n_new scfg)) in
  let i = ref 0 in
  (* the merge function of the main run, logging (key, returned value) of every call *)
  let mlog : (n list * n list) list ref = ref [] in
  let mfl ord k vs = (match mf ord k vs with Done r -> mlog := (k, r) :: !mlog; Done r | x -> x) in
  (* a creator that fails one call (attempt number j) while the caller goes on inserting: followed with the
     resumable insert of the model; the volume bound is evaluated after every insert, failed or not *)
  let crfail = (match get_all c "crfail" with [[j]] -> Some (cr_fail_at (n_of_string j) (EIo (n_of_int 7))) | _ -> None) in
  (match crfail with
   | None -> ()
   | Some cr ->
     let cur = ref (s_new scfg) and alive = ref true in
     List.iter (fun ((k, v), res) ->
       incr i;
       let field = Printf.sprintf "ins%d" !i in
       if !alive && res <> ["-"] then begin
         let (s', o) = fs_insert_r scfg cr mf !cur k v in
         let state = Printf.sprintf "%s %s %s %d" (string_of_n s'.ss_buf.eb_L) (string_of_n s'.ss_buf.eb_U) (string_of_n s'.ss_buf.eb_n) (List.length s'.ss_chunks) in
         let show = (match o with Done _ -> state | Panic -> "P" | Fail e -> "E " ^ err_name e ^ " " ^ state) in
         check_eq c field (String.concat " " res) show;
         (match res with
          | [l; u; nb; ch] | ["E"; _; l; u; nb; ch] ->
            sorter_state_specs c prop scfg t_int small field (int_of_string l, int_of_string u, int_of_string nb, int_of_string ch)
          | _ -> spec_ok c (prop ^ ".nopanic") false (field ^ ": " ^ String.concat " " res));
         (match o with Panic -> alive := false | _ -> ());
         cur := s'
       end) ins;
     (match get_all c "out1" with
      | [o1] when !alive ->
        let model = (match fs_finish cr mf !cur with Done (l, _) -> entries_hash l | Panic -> "panic -" | Fail e -> "err " ^ err_name e) in
        check_eq c "out1" (String.concat " " o1) model;
        let attempts = int_of_n (creates !cur.ss_events) + 1 in
        check_eq c "creates" (get1 c "creates") (string_of_int attempts)
      | _ -> ());
     st := Panic);
  if (match crfail with None -> true | Some _ -> false) then
  List.iter (fun ((k, v), res) ->
    incr i;
    let field = Printf.sprintf "ins%d" !i in
    match !st, res with
    | Done s, ["-"] -> ()
    | Done s, _ ->
      let r = s_insert scfg mfl s k v in
      let nr = (match !nst with Done ns -> n_insert scfg ns (n_of_int (List.length k + List.length v)) | x -> x) in
      let show_n = (match nr with
        | Done ns -> Printf.sprintf "%s %s %s %s" (string_of_n ns.ns_buf.eb_L) (string_of_n ns.ns_buf.eb_U) (string_of_n ns.ns_buf.eb_n) (string_of_n ns.ns_chunks)
        | Panic -> "P" | Fail e -> "E " ^ err_name e) in
      let show = (match r with
        | Done s' -> Printf.sprintf "%s %s %s %d" (string_of_n s'.ss_buf.eb_L) (string_of_n s'.ss_buf.eb_U) (string_of_n s'.ss_buf.eb_n) (List.length s'.ss_chunks)
        | Panic -> "P" | Fail e -> "E " ^ err_name e) in
      check_eq c field (String.concat " " res) show;
      check_eq c (field ^ ".numeric") (String.concat " " res) show_n;
      (match res with
       | [l; u; nb; ch] -> sorter_state_specs c prop scfg t_int small field (int_of_string l, int_of_string u, int_of_string nb, int_of_string ch)
       | ["P"] -> spec_ok c (prop ^ ".nopanic") false (field ^ " panicked")
       | _ -> spec_ok c (prop ^ ".noerr") false (field ^ " returned " ^ String.concat " " res));
      st := r; nst := nr
    | _ -> ()) ins;
  if stable && not last_wins && (match crfail with None -> true | Some _ -> false) && kx_want "sorter" (bytes_size (List.map fst ins)) then begin
    let cfgs = Printf.sprintf "(mk_scfg %s %s %s %s)" (cq_n scfg.sc_threshold) (cq_bool scfg.sc_realloc) (cq_n scfg.sc_max_chunks) (cq_n scfg.sc_init_cap) in
    kx_emit "sorter" c.id (Printf.sprintf "sorter_run %s mf_concat %s" cfgs (cq_entries (List.map fst ins)))
      (cq_outcome cq_entries (sorter_run scfg mf_concat (List.map fst ins)));
    kx_emit "sorter" c.id (Printf.sprintf "sorter_spec mf_concat %s" (cq_entries (List.map fst ins)))
      (cq_outcome cq_entries (sorter_spec mf_concat (List.map fst ins)))
  end;
  (match !st, get_all c "out1" with
   | Done s, [o1] ->
     let spec = (match sorter_spec mf (List.map fst ins) with Done l -> entries_hash l | Panic -> "panic -" | Fail e -> "err " ^ err_name e) in
     let model = (match s_finish mfl s with Done (l, _) -> entries_hash l | Panic -> "panic -" | Fail e -> "err " ^ err_name e) in
     check_eq c "out1" (String.concat " " o1) model;
     (* the calls the merge function received, in order: (key given, value returned) *)
     (match get_all c "scalls" with
      | [sc] -> check_eq c "merge_calls" (String.concat " " sc) (entries_hash (List.rev !mlog))
      | _ -> ());
     (* property: the merge function is applied to a key and values inserted under THAT key: what a call
        returned (the concatenation of what it was given; its bytes sorted for the unstable algorithm) is
        made of values inserted under the key the call was given, in insertion order *)
     (match get_all c "sc" with
      | (_ :: _ as scs) ->
        let all : (string, string list ref) Hashtbl.t = Hashtbl.create 16 in
        List.iter (fun ((k, v), _) ->
          let key = hex_of_bytes k in
          let l = (match Hashtbl.find_opt all key with Some x -> x | None -> let x = ref [] in Hashtbl.replace all key x; x) in
          l := (if v = [] then "" else hex_of_bytes v) :: !l) ins;
        (* small = a contiguous run of the values (in insertion order) concatenated, or joined with 7c *)
        let is_run (small : string) (vals : string list ref) =
          let sep = if last_wins then "7c" else "" in
          let rec from_here acc first l =
            (acc = small) ||
            (String.length acc < String.length small &&
             (match l with [] -> false | v :: r -> from_here (if first then v else acc ^ sep ^ v) false r)) in
          let rec starts1 l = match l with [] -> false | v :: r -> from_here v false r || starts1 r in
          starts1 (List.rev !vals) in
        let counts (h : string) = let a = Array.make 256 0 in
          String.iteri (fun i _ -> if i mod 2 = 0 then let b = int_of_string ("0x" ^ String.sub h i 2) in a.(b) <- a.(b) + 1) h; a in
        List.iter (fun t -> match t with
          | [k; r] | [k; r; _] ->
            let r = if r = "-" then "" else r in
            let ok = (match Hashtbl.find_opt all k with
              | None -> false
              | Some big -> if stable then is_run r big
                else (let a = counts r and b = counts (String.concat "" !big) in let okk = ref true in Array.iteri (fun i x -> if x > b.(i) then okk := false) a; !okk)) in
            spec_ok c (prop ^ ".merge_called_with_its_key") ok
              (Printf.sprintf "a merge call given key %s returned bytes that were not inserted under that key" k)
          | _ -> ()) scs
      | _ -> ());
     (* the chunks handed out by into_reader_cursors, oldest first: each holds the chunk of the model *)
     (match get_all c "chunks3", s_finish mf s with
      | [scans], Done (_, chunks) ->
        let show ch = String.concat ":" (String.split_on_char ' ' (entries_hash ch)) in
        check_eq c "chunks3" (String.concat "," scans) (String.concat "," (List.map show chunks))
      | _ -> ());
     List.iter (fun tag ->
       match get_all c tag with
       | [o] ->
         spec_ok c (prop ^ "." ^ tag) (String.concat " " o = spec)
           (Printf.sprintf "%s = %s, sort-and-merge of the inserts = %s" tag (String.concat " " o) spec)
       | _ -> spec_ok c (prop ^ "." ^ tag) false "missing") ["out1"; "out2"; "out3"];
     (match !nst with
      | Done ns ->
        let nf = n_finish ns in
        check_eq c "creates" (get1 c "creates") (string_of_n nf.ns_creates);
        incr n_checks;
        let peak = int_of_string (get1 c "peak") in
        if peak > int_of_n nf.ns_peak then begin
          incr n_mismatch; Printf.printf "MISMATCH %s/%s peak impl=%d model<=%s\n" c.kind c.id peak (string_of_n nf.ns_peak) end;
        spec_ok c "C08.chunks" (peak <= m_int + 2) (Printf.sprintf "%d chunks alive at once > max_nb_chunks %d + 2" peak m_int);
        spec_ok c "C17.leak" (get1 c "leaked" = "0") ("chunks still alive after the run: " ^ get1 c "leaked")
      | _ -> ())
   | _ -> ());
  spec_ok c "C17.layout" (get1 c "layout_mismatch" = "0") ("allocations freed with a layout different from their allocation: " ^ get1 c "layout_mismatch")

let handle_sortnum c =
  let prop = get1 c "prop" in
  let (scfg, _, t_int, _) = parse_scfg c in
  let m_int = capped_int_of_n scfg.sc_max_chunks in
  let nst = ref (Done (n_new scfg)) in
  let i = ref 0 in
  List.iter (fun t -> match t with
    | ks :: vs :: "=" :: res ->
      incr i;
      let field = Printf.sprintf "ins%d" !i in
      let nr = (match !nst with Done ns -> n_insert scfg ns (n_of_int (int_of_string ks + int_of_string vs)) | x -> x) in
      let show_n = (match nr with
        | Done ns -> Printf.sprintf "%s %s %s %s" (string_of_n ns.ns_buf.eb_L) (string_of_n ns.ns_buf.eb_U) (string_of_n ns.ns_buf.eb_n) (string_of_n ns.ns_chunks)
        | Panic -> "P" | Fail e -> "E " ^ err_name e) in
      check_eq c field (String.concat " " res) show_n;
      (match res with
       | [l; u; nb; ch] -> sorter_state_specs c prop scfg t_int true field (int_of_string l, int_of_string u, int_of_string nb, int_of_string ch)
       | _ -> spec_ok c (prop ^ ".nopanic") false field);
      nst := nr
    | _ -> failwith "ins") (get_all c "ins");
  (match !nst with
   | Done ns ->
     let peak = int_of_string (get1 c "peak") in
     spec_ok c "C08.chunks" (peak <= m_int + 2) (Printf.sprintf "%d chunks alive at once > max %d + 2" peak m_int);
     check_eq c "creates" (get1 c "creates") (string_of_n ns.ns_creates)
   | _ -> ());
  let sizes = List.filter_map (fun t -> match t with ks :: vs :: _ -> Some (n_of_int (int_of_string ks + int_of_string vs)) | _ -> None) (get_all c "ins") in
  if List.length sizes <= 300 && kx_want "sorter_numeric" (List.length sizes) then begin
    let rec run st l = match l with [] -> Done st | z :: r -> (match n_insert scfg st z with Done st' -> run st' r | Panic -> Panic | Fail e -> Fail e) in
    kx_emit "sorter_numeric" c.id
      (Printf.sprintf "kx_nres (n_inserts (mk_scfg %s %s %s %s) (n_new (mk_scfg %s %s %s %s)) %s)" (cq_n scfg.sc_threshold) (cq_bool scfg.sc_realloc) (cq_n scfg.sc_max_chunks) (cq_n scfg.sc_init_cap)
         (cq_n scfg.sc_threshold) (cq_bool scfg.sc_realloc) (cq_n scfg.sc_max_chunks) (cq_n scfg.sc_init_cap) (cq_list cq_n sizes))
      (cq_outcome (fun ns -> Printf.sprintf "(%s, %s, %s, %s, %s, %s)" (cq_n ns.ns_buf.eb_L) (cq_n ns.ns_buf.eb_U) (cq_n ns.ns_buf.eb_n) (cq_n ns.ns_chunks) (cq_n ns.ns_creates) (cq_n ns.ns_peak))
         (run (n_new scfg) sizes))
  end


(* ---------- C13: open ---------- *)
let handle_open c =
  let tail = bytes_of_hex (get1 c "tail") in
  let total = int_of_string (get1 c "len") in
  (* open only looks at the last 22 bytes: evaluate the model on the tail, padded to the real
     length only when the string is shorter than the window we were given *)
  let f = tail in
  ignore total;
  let impl = String.concat " " (get c "res") in
  let model = match open_meta f with
    | Done m -> Printf.sprintf "ok %d %s %s" (match m.m_version with FormatV1 -> 0 | FormatV2 -> 1) (string_of_n m.m_codec) (string_of_n m.m_count)
    | Panic -> "panic" | Fail e -> "err " ^ err_name e in
  check_eq c "open" impl model;
  if kx_want "open" (List.length f) then
    kx_emit "open" c.id ("open_meta " ^ cq_bytes f)
      (cq_outcome (fun m -> Printf.sprintf "(mk_meta %s %s %s %s %s)" (match m.m_version with FormatV1 -> "FormatV1" | FormatV2 -> "FormatV2")
                              (cq_n m.m_root) (cq_n m.m_codec) (cq_n m.m_count) (cq_n m.m_levels)) (open_meta f));
  if kx_want "trailer" (List.length f) then
    kx_emit "trailer" c.id ("valid_trailer_suffixb " ^ cq_bytes f) (cq_bool (valid_trailer_suffixb f));
  let accepted = String.length impl >= 2 && String.sub impl 0 2 = "ok" in
  spec_ok c "C13.nopanic" (impl <> "panic") "Reader::new panicked";
  spec_ok c "C13.iff" (accepted = valid_trailer_suffixb f)
    (Printf.sprintf "open %s but valid-trailer-suffix = %b" impl (valid_trailer_suffixb f));
  (* C10: a hand-assembled version-1 trailer opens as version 1 with the stored count and codec *)
  (match get_all c "v1" with
   | [[codec; count]] ->
     if int_of_string codec <= 5 then
       spec_ok c "C10.open" (impl = Printf.sprintf "ok 0 %s %s" codec count)
         (Printf.sprintf "V1 trailer with codec %s count %s opened as %s" codec count impl)
   | _ -> ())


(* ---------- C11: writer under a schedule of partial writes / interruptions ---------- *)
let parse_sched (tok : string) : resp list =
  if tok = "-" then [] else
  List.map (fun t ->
    if t = "i" then RInterrupt
    else RAccept (n_of_int (min (int_of_string (String.sub t 1 (String.length t - 1))) 1000000000)))
    (String.split_on_char ',' tok)

let fnv_string (s : string) : string =
  let h = ref fnv_init in String.iter (fun ch -> fnv_feed h (Char.code ch)) s; Printf.sprintf "%016Lx" !h

let handle_wsched c =
  let cfg = parse_cfg c in
  let es = parse_entries c in
  let zt = ztab_of c in
  let sched = parse_sched (get1 c "sched") in
  let plain = get1 c "plain" in
  let impl = get c "impl" in
  if cfg.wc_codec = N0 && List.length sched <= 40 && kx_want "sched_writer" (bytes_size es) then begin
    let cq_resp r = match r with RInterrupt -> "RInterrupt" | RAccept n -> "RAccept " ^ cq_n n in
    kx_emit "sched_writer" c.id
      (Printf.sprintf "kx_sres (w_run_sched compress_none %s (mk_wcfg %s %s %s %s %s) %s)" (cq_list cq_resp sched) (cq_n cfg.wc_codec) (cq_n cfg.wc_level)
         (cq_n cfg.wc_block_size) (cq_n cfg.wc_interval) (cq_n cfg.wc_levels) (cq_entries es))
      (match w_run_sched compress_none sched cfg es with
       | (i, Done ((s, _), _)) -> Printf.sprintf "(%s, Some (%s, %s))" (cq_n i) (cq_bytes (sk_bytes s)) (cq_list cq_n s.sk_calls)
       | (i, _) -> Printf.sprintf "(%s, None)" (cq_n i))
  end;
  (match w_run_sched (compress_of zt) sched cfg es with
   | (_, Done ((s, _), _)) ->
     check_eq c "delivered" (String.concat " " impl) ("file " ^ hex_of_bytes (sk_bytes s));
     let calls = List.rev_map string_of_n s.sk_calls in
     check_eq c "calls" (String.concat " " (get c "calls")) (Printf.sprintf "%d %s" (List.length calls) (fnv_string (String.concat "," calls)))
   | (i, Panic) -> check_eq c "delivered" (String.concat " " impl) "panic -"
   | (i, Fail e) -> check_eq c "delivered" (String.concat " " impl) ("err " ^ err_name e));
  spec_ok c "C11.bytes" (impl = ["file"; plain]) "bytes delivered under the schedule differ from the whole-buffer run";
  (* and the plain run itself is what the model writes *)
  (match w_run (compress_of zt) cfg es with
   | WFile (mf, _, _) -> check_eq c "plain" plain (hex_of_bytes mf)
   | _ -> check_eq c "plain" plain "model-failed")

let handle_same c =
  let r = String.concat " " (get c "ref") in
  List.iter (fun t -> match t with
    | name :: g -> spec_ok c ("C11." ^ get1 c "what" ^ "." ^ name) (String.concat " " g = r)
                     (Printf.sprintf "result under schedule %s = %s, unscheduled = %s" name (String.concat " " g) r)
    | _ -> ()) (get_all c "got")

(* ---------- C12: faults ---------- *)
let fault_spec c field (res : string) (fired : string) (free : string) =
  if fired = "-" then spec_ok c ("C12.quiet." ^ field) (res = free) (Printf.sprintf "no fault fired but result is %s (fault-free: %s)" res free)
  else spec_ok c ("C12.surface." ^ field) (res = fired ^ " io7") (Printf.sprintf "fault fired during call %s, observed %s" fired res)

let handle_wfault c =
  let cfg = parse_cfg c in
  let es = parse_entries c in
  let zt = ztab_of c in
  List.iter (fun t -> match t with
    | [p; "="; at; cls; "fired"; fired] ->
      let field = "p" ^ p in
      let (pos, fl) = if p = "flush" then (None, true) else (Some (n_of_string p), false) in
      if cfg.wc_codec = N0 && kx_want "faulty_writer" (bytes_size es) then
        kx_emit "faulty_writer" c.id
          (Printf.sprintf "kx_fres (w_run_fault compress_none %s %s (mk_wcfg %s %s %s %s %s) %s)" (cq_opt cq_n pos) (cq_bool fl) (cq_n cfg.wc_codec) (cq_n cfg.wc_level)
             (cq_n cfg.wc_block_size) (cq_n cfg.wc_interval) (cq_n cfg.wc_levels) (cq_entries es))
          (match w_run_fault compress_none pos fl cfg es with
           | (i, Done ((s, _), _)) -> Printf.sprintf "(%s, Done %s)" (cq_n i) (cq_n s.fk_sink.vs_count)
           | (i, Panic) -> Printf.sprintf "(%s, Panic)" (cq_n i)
           | (i, Fail e) -> Printf.sprintf "(%s, Fail %s)" (cq_n i) (cq_err e));
      let model = (match w_run_fault (compress_of zt) pos fl cfg es with
        | (_, Done _) -> "ok -"
        | (i, Fail e) -> string_of_n i ^ " " ^ err_name e
        | (i, Panic) -> "panic -") in
      check_eq c field (at ^ " " ^ cls) model;
      fault_spec c field (at ^ " " ^ cls) fired "ok -"
    | _ -> failwith "wfault line") (get_all c "f")

let handle_rfault c =
  let zt = ztab_of c in
  let file = bytes_of_hex (get1 c "file") in
  let dec = decompress_of zt in
  let ops = List.map (fun t -> match t with [_; name; q] -> parse_op name q | _ -> failwith "op") (get_all c "op") in
  match open_meta file with
  | Done m ->
    let base = memo_load (load_block dec file m.m_codec) in
    List.iter (fun t -> match t with
      | [kind; k; "load"; j; "="; a; b; "fired"; fired] ->
        let field = kind ^ k in
        let res = a ^ " " ^ b in
        let j = int_of_string j in
        if j >= 0 then begin
          let load = faulty_load base (n_of_int j) in
          let rec go st i = function
            | [] -> "ok -"
            | o :: rest ->
              (match cstep load m.m_root m.m_levels st o with
               | Done (st', _) -> go st' (i + 1) rest
               | Panic -> string_of_int i ^ " panic"
               | Fail e -> string_of_int i ^ " " ^ err_name e) in
          check_eq c field res (go cs_fresh 0 ops)
        end;
        let fired' = if fired = "18446744073709551615" then "open" else fired in
        fault_spec c field res fired' "ok -"
      | _ -> failwith "rfault line") (get_all c "f")
  | _ -> spec_ok c "C12.open" false "file does not open in the model"

let handle_sfault c =
  let (scfg, stable, _, _) = parse_scfg c in
  let base_mf : n -> n list -> n list list -> n list outcome = if stable then mf_concat else mf_sortcat in
  let ins = List.map (fun t -> match t with [k; v] -> (bytes_of_hex k, bytes_of_hex v) | _ -> failwith "ins") (get_all c "ins") in
  let nins = List.length ins in
  let free = String.concat "_" (get c "free") in
  (* the run of the sorter model over a creator that fails its call number j with the error e:
     (index of the public call that ended the run — nins = the final call, outcome) *)
  let create_call j (e : err) =
    match fs_run scfg (cr_fail_at (n_of_int j) e) base_mf ins with
    | (i, Done _) -> string_of_int (int_of_n i) ^ " ok"
    | (i, Panic) -> string_of_int (int_of_n i) ^ " panic"
    | (i, Fail e') -> string_of_int (int_of_n i) ^ " err_" ^ err_name e' in
  let merge_call j =
    let mf = mf_fail_at (n_of_int j) base_mf in
    let rec go st i = function
      | [] -> (match s_finish mf st with Done _ -> "- ok" | Panic -> string_of_int nins ^ " panic" | Fail e -> string_of_int nins ^ " err_" ^ err_name e)
      | (k, v) :: rest ->
        (match s_insert scfg mf st k v with
         | Done st' -> go st' (i + 1) rest
         | Panic -> string_of_int i ^ " panic"
         | Fail e -> string_of_int i ^ " err_" ^ err_name e) in
    go (s_new scfg) 0 ins in
  List.iter (fun t -> match t with
    | ["create"; j; variant; "="; at; res; "fired"; fired] ->
      let field = "create" ^ j in
      let cls = (match variant with "0" -> "io7" | "1" -> "version" | _ -> "codec") in
      let e = (match variant with "0" -> EIo (n_of_int 7) | "1" -> EInvalidVersion | _ -> EInvalidCodec) in
      check_eq c field (at ^ " " ^ res) (create_call (int_of_string j) e);
      spec_ok c ("C12.surface." ^ field) (at = fired && res = "err_" ^ cls)
        (Printf.sprintf "creator failure %s during call %s surfaced as %s at call %s" cls fired res at)
    | ["merge"; j; _; "="; at; res; "fired"; _] ->
      let field = "merge" ^ j in
      check_eq c field (at ^ " " ^ res) (merge_call (int_of_string j));
      spec_ok c ("C12.surface." ^ field) (res = "err_merge") ("merge function failure surfaced as " ^ res)
    | ["io"; kind; k; "="; at; res; "fired"; fired] ->
      let field = "io" ^ kind ^ "." ^ k in
      if fired = "-" then spec_ok c ("C12.quiet." ^ field) (res = free) (Printf.sprintf "no fault fired but result %s (fault-free %s)" res free)
      else spec_ok c ("C12.surface." ^ field) (at = fired && res = "err_io7")
          (Printf.sprintf "chunk storage fault during call %s surfaced as %s at call %s" fired res at)
    | _ -> failwith "sfault line") (get_all c "f")

let handle_mfault c =
  let free = get1 c "free" in
  List.iter (fun t -> match t with
    | ["io"; kind; k; "="; at; res; "fired"; fired] ->
      let field = "io" ^ kind ^ "." ^ k in
      if fired = "-" then spec_ok c ("C12.quiet." ^ field) (res = free) (Printf.sprintf "no fault fired but result %s (fault-free %s)" res free)
      else spec_ok c ("C12.surface." ^ field) (at = fired && res = "err_io7")
          (Printf.sprintf "source fault during call %s surfaced as %s at call %s" fired res at)
    | _ -> failwith "mfault line") (get_all c "f")

let timing = try Sys.getenv "DRIVER_TIMING" = "1" with Not_found -> false
let rec dispatch c =
  if timing then begin
    let t0 = Sys.time () in
    dispatch0 c;
    let dt = Sys.time () -. t0 in
    if dt > 0.5 then Printf.printf "TIME %s/%s %.2fs\n%!" c.kind c.id dt
  end else dispatch0 c
and dispatch0 c =
  incr n_seen;
  if (!n_seen mod !n_shards) <> !shard then ()
  else if !n_specfail >= 150 then ()   (* the verdict is settled: the property fails on 150 inputs of this shard already *)
  else begin
  incr n_cases;
  dispatch1 c end
and dispatch1 c =
  match c.kind with
  | "varint" -> handle_varint c
  | "file" -> handle_file c
  | "hist" -> handle_hist c
  | "iter" -> handle_iter c
  | "merge" -> handle_merge c
  | "open" -> handle_open c
  | "wsched" -> handle_wsched c
  | "same" -> handle_same c
  | "wfault" -> handle_wfault c
  | "rfault" -> handle_rfault c
  | "sfault" -> handle_sfault c
  | "mfault" -> handle_mfault c
  | "sorter" -> handle_sorter c
  | "sortnum" -> handle_sortnum c
  | k -> failwith ("unknown case kind " ^ k)

let () =
  let path = Sys.argv.(1) in
  if Array.length Sys.argv >= 4 then begin
    shard := int_of_string Sys.argv.(2); n_shards := int_of_string Sys.argv.(3) end;
  (match Sys.getenv_opt "KX_OUT" with
   | Some prefix when prefix <> "" -> kx_chan := Some (open_out (Printf.sprintf "%s.%d" prefix !shard))
   | _ -> ());
  read_cases path dispatch;
  (match !kx_chan with Some ch -> close_out ch | None -> ());
  Printf.printf "SUMMARY cases=%d checks=%d mismatches=%d specfails=%d\n"
    !n_cases !n_checks !n_mismatch !n_specfail
