//! C06: k-way merge of sorted sources.
use crate::gen::*;
use crate::util::*;
use grenad::{CompressionType, MergeFunction, Merger, Reader, Writer};
use std::borrow::Cow;
use std::cell::RefCell;
use std::io::{Cursor, Write};

/// concatenation of the values in the order given; logs every call; optionally fails at call j
pub struct LoggingConcat {
    pub calls: RefCell<Vec<(Vec<u8>, Vec<Vec<u8>>)>>,
    pub fail_at: Option<usize>,
    pub sort: bool,
}
thread_local! {
    /// while set, LoggingConcat joins the values it is given with the separator 0x7C instead of concatenating
    /// them (associative, keeps a lone value, sees the order of the values and empty values at every position)
    pub static LAST_WINS: std::cell::Cell<bool> = std::cell::Cell::new(false);
}
thread_local! {
    /// when armed (Some), every merge call of this thread is recorded as (key it was given, value it returned):
    /// the log survives the merge function being moved into a sorter or a merger
    pub static CALL_LOG: RefCell<Option<Vec<(Vec<u8>, Vec<u8>)>>> = RefCell::new(None);
}
impl MergeFunction for LoggingConcat {
    type Error = String;
    fn merge<'a>(&self, key: &[u8], values: &[Cow<'a, [u8]>]) -> Result<Cow<'a, [u8]>, String> {
        let ord = self.calls.borrow().len();
        self.calls.borrow_mut().push((key.to_vec(), values.iter().map(|v| v.to_vec()).collect()));
        if Some(ord) == self.fail_at {
            return Err("merge failure".to_string());
        }
        if values.len() == 1 && !self.sort {
            CALL_LOG.with(|l| if let Some(v) = l.borrow_mut().as_mut() { v.push((key.to_vec(), values[0].to_vec())) });
            return Ok(values[0].clone()); // lone value unchanged (borrowed)
        }
        if LAST_WINS.with(|l| l.get()) {
            let out: Vec<u8> = values.iter().map(|v| v.to_vec()).collect::<Vec<_>>().join(&0x7Cu8);
            CALL_LOG.with(|l| if let Some(v) = l.borrow_mut().as_mut() { v.push((key.to_vec(), out.clone())) });
            return Ok(Cow::Owned(out));
        }
        let mut out: Vec<u8> = values.iter().flat_map(|v| v.iter().copied()).collect();
        if self.sort {
            out.sort();
        }
        CALL_LOG.with(|l| if let Some(v) = l.borrow_mut().as_mut() { v.push((key.to_vec(), out.clone())) });
        Ok(Cow::Owned(out))
    }
}

pub fn gen_sources(rng: &mut Rng) -> Vec<Vec<(Vec<u8>, Vec<u8>)>> {
    // now and then more than 256 sources sharing a few keys (source positions beyond one byte)
    if rng.chance(1, 60) {
        let k = rng.range(257, 300) as usize;
        let keys: Vec<Vec<u8>> = vec![vec![1], vec![2, 0], vec![2, 1]];
        return (0..k).map(|i| {
            let mut es = Vec::new();
            for (j, key) in keys.iter().enumerate() {
                if (i + j) % 2 == 0 || i == k - 1 || i == 0 {
                    es.push((key.clone(), vec![(i % 251) as u8, (i / 251) as u8]));
                }
            }
            es
        }).collect();
    }
    let k = match rng.below(10) { 0 => 0, 1 => 1, _ => rng.range(2, 8) as usize };
    let pattern = rng.below(5);
    let pool: Vec<Vec<u8>> = {
        let mut s = std::collections::BTreeSet::new();
        for _ in 0..rng.range(1, 60) {
            s.insert(gen_key(rng, 10));
        }
        s.into_iter().collect()
    };
    let mut srcs = Vec::new();
    for i in 0..k {
        let mut es = Vec::new();
        for (j, key) in pool.iter().enumerate() {
            let take = match pattern {
                0 => j % k.max(1) == i,          // disjoint
                1 => true,                       // identical key sets
                2 => j % k.max(1) == i || j % k.max(1) == (i + 1) % k.max(1), // chains
                3 => rng.chance(1, 2),
                _ => rng.chance(1, 5),
            };
            if take {
                // value tagged with its source so order and multiplicity are visible
                let mut v = vec![b'A' + i as u8];
                v.extend((0..rng.below(4)).map(|_| rng.next() as u8));
                // now and then the empty value (a value like any other: it counts in the merge)
                if rng.chance(1, 7) {
                    v.clear();
                }
                es.push((key.clone(), v));
            }
        }
        if rng.chance(1, 8) {
            es.clear(); // an empty source
        }
        srcs.push(es);
    }
    srcs
}

pub fn generate<W: Write>(c: &mut Cases<W>, rng: &mut Rng, thorough: bool) {
    // freed memory is poisoned while the merger runs: a value handed out after its block was dropped shows
    crate::alloc_track::ENABLED.store(true, std::sync::atomic::Ordering::Relaxed);
    generate_inner(c, rng, thorough);
    crate::alloc_track::ENABLED.store(false, std::sync::atomic::Ordering::Relaxed);
}

fn generate_inner<W: Write>(c: &mut Cases<W>, rng: &mut Rng, thorough: bool) {
    let n = if thorough { 12000 } else { 700 };
    for i in 0..n {
        let srcs = gen_sources(rng);
        let total: usize = srcs.iter().map(|s| s.len()).sum();
        let fail_at = if i % 7 == 3 && total > 0 { Some(rng.below(total as u64) as usize) } else { None };
        emit_case(c, rng, i, &srcs, fail_at);
    }
    // sources that share ONE file position (several readers over the same `&File`, or over clones of one
    // descriptor): the merger advances them in turns, so every block load of every source must position the
    // file itself.  k handles on the same file: every key comes out once, with k copies of its value.
    for i in 0..(if thorough { 200 } else { 24 }) {
        let cfg = gen_cfg(rng, i % 2 == 0, i % 5 == 0);
        let cfg = FileCfg { levels: if i % 3 == 0 { 0 } else { cfg.levels.min(3) }, ..cfg };
        let es = bounded_entries(rng, &cfg, 120, 8000);
        let file = match write_file(&cfg, &es) { WriteOutcome::File(f) => f, _ => continue };
        let k = 2 + i % 3;
        let shared = crate::c_hist::SharedSrc(std::rc::Rc::new(RefCell::new(Cursor::new(file))));
        let mf = LoggingConcat { calls: RefCell::new(Vec::new()), fail_at: None, sort: false };
        let r = catch(|| -> Result<Vec<(Vec<u8>, Vec<u8>)>, String> {
            let mut b = Merger::builder(&mf);
            for _ in 0..k {
                b.push(Reader::new(shared.clone()).map_err(|e| err_class(&e))?.into_cursor().map_err(|e| err_class(&e))?);
            }
            let mut it = b.build().into_stream_merger_iter().map_err(|e| err_class(&e))?;
            let mut out = Vec::new();
            while let Some((key, v)) = it.next().map_err(|e| err_class(&e))? {
                out.push((key.to_vec(), v.to_vec()));
                if out.len() > es.len() + 2 {
                    return Err("runaway".into());
                }
            }
            Ok(out)
        });
        let expect: Vec<(Vec<u8>, Vec<u8>)> = es.iter().map(|(key, v)| (key.clone(), v.iter().copied().cycle().take(v.len() * k).collect())).collect();
        c.bump("merge.shared_position_sources", 1);
        match r {
            Ok(Ok(out)) if out == expect => {}
            Ok(Ok(out)) => println!("DIRECT fail merging {} readers that share one file position ({} entries, index_levels {}): {} entries out, first difference at {:?}",
                                    k, es.len(), cfg.levels, out.len(), out.iter().zip(expect.iter()).position(|(a, b)| a != b)),
            Ok(Err(e)) => println!("DIRECT fail merging {} readers that share one file position failed: {}", k, e),
            Err(_) => println!("DIRECT fail merging {} readers that share one file position panicked", k),
        }
    }
    // small-scope exhaustive: every choice of 3 (thorough: 4) sources among the 8 subsets of a 3-key
    // universe (the empty key, a key and an extension of it), values tagged with their source
    let universe: [Vec<u8>; 3] = [vec![], vec![7], vec![7, 0]];
    let nsrc = if thorough { 4 } else { 3 };
    let combos = 8usize.pow(nsrc as u32);
    for code in 0..combos {
        let mut x = code;
        let mut srcs = Vec::new();
        for si in 0..nsrc {
            let mask = x % 8;
            x /= 8;
            let es: Vec<(Vec<u8>, Vec<u8>)> = (0..3).filter(|j| mask & (1 << j) != 0).map(|j| (universe[j].clone(), vec![b'A' + si as u8, j as u8])).collect();
            srcs.push(es);
        }
        emit_case(c, rng, 2 * code, &srcs, None);
    }
    c.bump("exhaustive.combos", combos as u64);
}

fn emit_case<W: Write>(c: &mut Cases<W>, rng: &mut Rng, i: usize, srcs: &Vec<Vec<(Vec<u8>, Vec<u8>)>>, fail_at: Option<usize>) {
    let total: usize = srcs.iter().map(|s| s.len()).sum();
    // each source through its own file configuration
    let files: Vec<Vec<u8>> = srcs
        .iter()
        .map(|es| {
            let cfg = gen_cfg(rng, i % 2 == 0, i % 9 == 0);
            let cfg = FileCfg { levels: cfg.levels.min(4), ..cfg };
            match write_file(&cfg, es) {
                WriteOutcome::File(f) => f,
                _ => panic!("source write failed"),
            }
        })
        .collect();
    c.begin("merge");
    c.line(&format!("prop {}", c.prop.clone()));
    for (si, es) in srcs.iter().enumerate() {
        c.line(&format!("s {}", si));
        for (k, v) in es {
            c.line(&format!("e {} {}", hex(k), hex(v)));
        }
    }
    c.line(&match fail_at { Some(j) => format!("mf failat {}", j), None => "mf concat -".to_string() });
    c.checkpoint();
    // path 1: stream
    let mf = LoggingConcat { calls: RefCell::new(Vec::new()), fail_at, sort: false };
    let after: RefCell<(Vec<(Vec<u8>, Vec<u8>)>, String)> = RefCell::new((Vec::new(), "-".into()));
    let res = catch(|| -> Result<Vec<(Vec<u8>, Vec<u8>)>, (Vec<(Vec<u8>, Vec<u8>)>, String)> {
        // the three equivalent ways of handing the sources to the builder, in turn
        // (every third source has been used before it is handed over: moved to its last entry, then reset)
        let cursors = || files.iter().enumerate().map(|(si, f)| {
            let mut cur = Reader::new(Cursor::new(&f[..])).unwrap().into_cursor().unwrap();
            if si % 3 == 1 {
                let _ = cur.move_on_last().unwrap();
                cur.reset();
            }
            cur
        });
        let b = match files.len() % 3 {
            0 => {
                let mut b = Merger::builder(&mf);
                for cur in cursors() {
                    b.push(cur);
                }
                b
            }
            1 => cursors().fold(Merger::builder(&mf), |b, cur| b.add(cur)),
            _ => {
                // push the first sources, extend with the others (twice): positions keep counting
                let mut b = Merger::builder(&mf);
                let mut it = cursors();
                let n = files.len();
                for _ in 0..n / 3 {
                    b.push(it.next().unwrap());
                }
                let mid: Vec<_> = (0..n / 3).filter_map(|_| it.next()).collect();
                b.extend(mid);
                b.extend(it);
                b
            }
        };
        let mut out = Vec::new();
        let mut it = match b.build().into_stream_merger_iter() {
            Ok(it) => it,
            Err(e) => return Err((out, err_class(&e))),
        };
        loop {
            match it.next() {
                Ok(Some((k, v))) => out.push((k.to_vec(), v.to_vec())),
                Ok(None) => break,
                Err(e) => {
                    // the caller may go on after an error: what the iterator yields then, and what it hands
                    // to the merge function, is recorded and checked against the sources
                    let cls = err_class(&e);
                    let mut a = after.borrow_mut();
                    for _ in 0..200 {
                        match it.next() {
                            Ok(Some((k, v))) => a.0.push((k.to_vec(), v.to_vec())),
                            Ok(None) => { a.1 = "ok".into(); break; }
                            Err(e2) => { a.1 = format!("err {}", err_class(&e2)); break; }
                        }
                    }
                    return Err((out, cls));
                }
            }
            if out.len() > 1_000_000 {
                return Err((out, "runaway".into()));
            }
        }
        Ok(out)
    });
    let (out, end) = match res {
        Ok(Ok(o)) => (o, "ok".to_string()),
        Ok(Err((o, e))) => (o, format!("err {}", e)),
        Err(_) => (Vec::new(), "panic".to_string()),
    };
    for (k, v) in &out {
        c.line(&format!("out {} {}", hex(k), hex(v)));
    }
    c.line(&format!("outend {}", end));
    let ncalls_at_end = match fail_at { Some(j) if end.starts_with("err") => j + 1, _ => usize::MAX };
    for (ci, (k, vs)) in mf.calls.borrow().iter().enumerate() {
        let tag = if ci >= ncalls_at_end { "acall" } else { "call" };
        c.line(&format!("{} {} {}", tag, hex(k), vs.iter().map(|v| hex(v)).collect::<Vec<_>>().join(",")));
    }
    if end == "panic" && fail_at.is_some() {
        // a panic while continuing after the error is reported as such
        c.line("aend panic");
    } else if after.borrow().1 != "-" {
        for (k, v) in &after.borrow().0 {
            c.line(&format!("aout {} {}", hex(k), hex(v)));
        }
        c.line(&format!("aend {}", after.borrow().1));
        c.bump("continued_after_error", 1);
    }
    // path 2: into a writer
    let mf2 = LoggingConcat { calls: RefCell::new(Vec::new()), fail_at, sort: false };
    let wres = catch(|| -> Result<Vec<u8>, String> {
        let mut b = Merger::builder(&mf2);
        if files.len() % 2 == 0 {
            let mut it = files.iter().map(|f| Reader::new(Cursor::new(&f[..])).unwrap().into_cursor().unwrap());
            if let Some(first) = it.next() {
                b.push(first);
            }
            b.extend(it);
        } else {
            for f in &files {
                b.push(Reader::new(Cursor::new(&f[..])).unwrap().into_cursor().unwrap());
            }
        }
        let mut w = Writer::builder().compression_type(CompressionType::None).memory();
        b.build().write_into_stream_writer(&mut w).map_err(|e| err_class(&e))?;
        w.into_inner().map_err(|e| io_class(&e))
    });
    match wres {
        Ok(Ok(f)) => {
            let r = Reader::new(Cursor::new(&f[..])).unwrap();
            let mut cur = r.into_cursor().unwrap();
            let mut items = Vec::new();
            while let Some((k, v)) = cur.move_on_next().unwrap() {
                items.push((k.to_vec(), v.to_vec()));
            }
            let (n, h) = entries_hash(items.iter().map(|(k, v)| (&k[..], &v[..])));
            c.line(&format!("wfile {} {:016x}", n, h));
        }
        Ok(Err(e)) => c.line(&format!("wfile err {}", e)),
        Err(_) => c.line("wfile panic -"),
    }
    c.bump(&format!("sources{}", srcs.len()), 1);
    c.bump("entries.total", total as u64);
    if fail_at.is_some() {
        c.bump("failing_mf", 1);
    }
    if srcs.len() >= 2 && total >= 2 {
        let mut h = 0u64;
        for f in &files {
            h ^= fnv(f);
        }
        c.nontrivial(&h.to_le_bytes());
    }
    c.end();
}
